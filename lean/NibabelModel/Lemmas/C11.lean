import NibabelModel.Model.C11
/-! Lemmas/C11 — helper lemmas for Props/C11 (core tactics only). -/
namespace Nb.C11

theorem bind_ok {α β : Type} (a : α) (f : α → Except Err β) : ((Except.ok a : Except Err α) >>= f) = f a := rfl
theorem bind_error {α β : Type} (er : Err) (f : α → Except Err β) :
    ((Except.error er : Except Err α) >>= f) = .error er := rfl
theorem map_ok {α β : Type} (a : α) (f : α → β) : (Except.ok a : Except Err α).map f = .ok (f a) := rfl
theorem map_error {α β : Type} (er : Err) (f : α → β) : (Except.error er : Except Err α).map f = .error er := rfl

/-! ### gen rules: the generated one-line rules of reader and writer (the ONLY place where they are unfolded).
  Each lemma states what the theorems need of the rule; an equivalent rewrite of the source line keeps them
  provable, a different rule breaks them. -/

open Nb.Gen.C11 in
theorem readLoopCond_eq (s : Int) : (readLoopCond s = true) = (s ≥ 16 ∨ s < 0) := by
  unfold readLoopCond
  exact propext ⟨fun h => by have := of_decide_eq_true h; omega, fun h => decide_eq_true (by omega)⟩

open Nb.Gen.C11 in
theorem zeroSizeStops_eq (e : Int) : (zeroSizeStops e = true) = (e = 0) := by
  unfold zeroSizeStops
  exact propext ⟨fun h => by have := of_decide_eq_true h; omega, fun h => decide_eq_true (by omega)⟩

open Nb.Gen.C11 in
theorem readCount_eq (e : Int) : readCount e = e - 8 := by unfold readCount; omega

open Nb.Gen.C11 in
theorem contentLenOk_eq (g e : Int) : (contentLenOk g e = true) = (g = e - 8) := by
  unfold contentLenOk
  exact propext ⟨fun h => by have := of_decide_eq_true h; omega, fun h => decide_eq_true (by omega)⟩

open Nb.Gen.C11 in
theorem sizeAfter_eq (s e : Int) : sizeAfter s e = s - e := by unfold sizeAfter; omega

open Nb.Gen.C11 in
theorem extSize_eq (v t : Int) : extSize v t = v - t := by unfold extSize; omega

open Nb.Gen.C11 in
theorem minVoxOffset_eq (a b : Int) : minVoxOffset a b = a + b := by unfold minVoxOffset; omega

open Nb.Gen.C11 in
theorem offsetUnset_eq (v : Int) : (offsetUnset v = true) = (v = 0) := by
  unfold offsetUnset
  exact propext ⟨fun h => by have := of_decide_eq_true h; omega, fun h => decide_eq_true (by omega)⟩

open Nb.Gen.C11 in
theorem offsetTooSmall_eq (v m : Int) : (offsetTooSmall v m = true) = (v < m) := by
  unfold offsetTooSmall
  exact propext ⟨fun h => by have := of_decide_eq_true h; omega, fun h => decide_eq_true (by omega)⟩

open Nb.Gen.C11 in
theorem storedBelow_eq (v m : Int) : (storedBelow v m = true) = (v < m) := by
  unfold storedBelow
  exact propext ⟨fun h => by have := of_decide_eq_true h; omega, fun h => decide_eq_true (by omega)⟩

open Nb.Gen.C11 in
theorem padBytes_eq (x r t : Int) : padBytes x r t = x + r - t := by unfold padBytes; omega

/-- rewrite every generated rule into its specification -/
macro "gen_norm" : tactic =>
  `(tactic| simp only [readLoopCond_eq, zeroSizeStops_eq, readCount_eq, contentLenOk_eq, sizeAfter_eq, extSize_eq,
      minVoxOffset_eq, offsetUnset_eq, offsetTooSmall_eq, storedBelow_eq, padBytes_eq])

theorem minOffset_eq (fmt : Fmt) (xs : List Ext) : minOffset fmt xs = (fmt.singleOff : Int) + totalSize xs := by
  unfold minOffset; exact minVoxOffset_eq _ _

/-! ### the generated size expression (the ONLY place where it is unfolded) -/

theorem sizeOnDisk_spec (n : Nat) :
    sizeOnDisk n % 16 = 0 ∧ (n : Int) + 8 ≤ sizeOnDisk n ∧ sizeOnDisk n < (n : Int) + 24 := by
  unfold sizeOnDisk Nb.Gen.C11.getSizeondisk
  -- plain arithmetic: omega; local `let`s / conditional expressions in the source: zeta-reduce and split first
  first
    | omega
    | (simp only []; repeat' split; all_goals omega)

theorem sizeOnDisk_ge16 (n : Nat) : 16 ≤ sizeOnDisk n := by
  have := sizeOnDisk_spec n; omega

theorem totalSize_nonneg (xs : List Ext) : 0 ≤ totalSize xs := by
  induction xs with
  | nil => simp [totalSize]
  | cons x xs ih => have := sizeOnDisk_ge16 x.content.length; simp only [totalSize]; omega

theorem totalSize_mod16 (xs : List Ext) : totalSize xs % 16 = 0 := by
  induction xs with
  | nil => simp [totalSize]
  | cons x xs ih => have := sizeOnDisk_spec x.content.length; simp only [totalSize]; omega

theorem totalSize_ge_length (xs : List Ext) : (xs.length : Int) ≤ totalSize xs := by
  induction xs with
  | nil => simp [totalSize]
  | cons x xs ih =>
      have := sizeOnDisk_ge16 x.content.length
      simp only [totalSize, List.length_cons]; omega

/-! ### int32 codec -/

theorem toU32_lt (v : Int) : toU32 v < 4294967296 := by
  unfold toU32; omega

theorem ofU32_toU32 (v : Int) (h : inInt32 v) : ofU32 (toU32 v) = v := by
  unfold inInt32 at h
  unfold ofU32 toU32
  split <;> omega

theorem bytes_sum (u : Nat) (h : u < 4294967296) :
    u % 256 + 256 * (u / 256 % 256) + 65536 * (u / 65536 % 256) + 16777216 * (u / 16777216 % 256) = u := by
  omega

/-- decoding the four bytes produced by `encI32` gives the value back (both byte orders) -/
theorem decI32_encI32 (e : Endian) (v : Int) (h : inInt32 v) :
    ∃ a b c d, encI32 e v = [a, b, c, d] ∧ decI32 e a b c d = v := by
  have hs := bytes_sum (toU32 v) (toU32_lt v)
  cases e
  · refine ⟨_, _, _, _, rfl, ?_⟩
    simp only [decI32]
    rw [hs]; exact ofU32_toU32 v h
  · refine ⟨_, _, _, _, rfl, ?_⟩
    simp only [decI32]
    rw [hs]; exact ofU32_toU32 v h

theorem decI32_zero (e : Endian) : decI32 e 0 0 0 0 = 0 := by
  cases e <;> simp [decI32, ofU32]

/-! ### rstrip -/

theorem dropWhile_zeros (k : Nat) (r : List Nat) :
    (List.replicate k 0 ++ r).dropWhile (· == 0) = r.dropWhile (· == 0) := by
  induction k with
  | zero => simp
  | succ k ih => simp [List.replicate_succ, ih]

theorem rstripNul_append_zeros (c : List Nat) (k : Nat) : rstripNul (c ++ zeros k) = rstripNul c := by
  unfold rstripNul zeros
  rw [List.reverse_append, List.reverse_replicate, dropWhile_zeros]

theorem dropWhile_of_head (r : List Nat) (h : r.head? ≠ some 0) : r.dropWhile (· == 0) = r := by
  cases r with
  | nil => rfl
  | cons a r =>
      have ha : a ≠ 0 := by intro h0; apply h; simp [h0]
      simp [ha]

theorem dropWhile_head (r : List Nat) : (r.dropWhile (· == 0)).head? ≠ some 0 := by
  induction r with
  | nil => simp
  | cons a r ih =>
      by_cases ha : a = 0
      · simp [ha]; simpa using ih
      · simp [ha]

/-- contents without a trailing NUL are returned exactly -/
theorem rstripNul_of_noTrailing (c : List Nat) (h : c.getLast? ≠ some 0) : rstripNul c = c := by
  unfold rstripNul
  rw [dropWhile_of_head _ (by rwa [List.head?_reverse]), List.reverse_reverse]

theorem rstripNul_noTrailing (c : List Nat) : (rstripNul c).getLast? ≠ some 0 := by
  unfold rstripNul
  rw [List.getLast?_reverse]
  exact dropWhile_head _

theorem rstripNul_idem (c : List Nat) : rstripNul (rstripNul c) = rstripNul c :=
  rstripNul_of_noTrailing _ (rstripNul_noTrailing c)

/-! ### one record: writer output and what the reader makes of it -/

/-- the validity guard: exactly the inputs `NiftiExtension.write_to` does not reject with OverflowError
    (`esize` and `ecode` must fit NumPy int32) -/
def ExtOK (x : Ext) : Prop := inInt32 x.code ∧ inInt32 (sizeOnDisk x.content.length)

instance (x : Ext) : Decidable (ExtOK x) :=
  inferInstanceAs (Decidable (inInt32 x.code ∧ inInt32 (sizeOnDisk x.content.length)))

/-- a sufficient, formula-independent form of the guard -/
theorem ExtOK_of_small (x : Ext) (hc : inInt32 x.code) (hn : x.content.length + 24 ≤ 2147483648) : ExtOK x := by
  refine ⟨hc, ?_⟩
  have := sizeOnDisk_spec x.content.length
  unfold inInt32; omega

/-- number of pad bytes of a record -/
def padLen (x : Ext) : Nat := (sizeOnDisk x.content.length - (8 + (x.content.length : Int))).toNat

theorem serializeExt_ok (e : Endian) (x : Ext) (h : ExtOK x) :
    serializeExt e x = .ok (encI32 e (sizeOnDisk x.content.length) ++ encI32 e x.code ++ x.content ++
      zeros (padLen x)) := by
  have hs := sizeOnDisk_spec x.content.length
  have hp : (0 + sizeOnDisk x.content.length - (8 + (x.content.length : Int))).toNat = padLen x := by
    unfold padLen; omega
  unfold serializeExt
  simp only [padBytes_eq]
  rw [if_neg (by intro hn; exact hn ⟨h.2, h.1⟩), if_neg (by omega), hp]

theorem serializeExt_err (e : Endian) (x : Ext) (h : ¬ ExtOK x) : serializeExt e x = .error .overflow := by
  unfold serializeExt
  simp only []
  rw [if_pos (by intro hn; exact h ⟨hn.2, hn.1⟩)]

theorem encI32_length (e : Endian) (v : Int) : (encI32 e v).length = 4 := by
  cases e <;> rfl

theorem body_length (x : Ext) :
    ((x.content ++ zeros (padLen x)).length : Int) = sizeOnDisk x.content.length - 8 := by
  have hs := sizeOnDisk_spec x.content.length
  simp only [List.length_append, zeros, List.length_replicate, padLen]
  omega

/-- the reader's loop body on a well-formed record followed by anything: the record is returned with its
    content stripped of trailing NULs (pad bytes and the content's own), and the loop continues behind it -/
theorem parse_record (b : Bool) (e : Endian) (fuel : Nat) (esize ecode : Int) (body t : List Nat) (size : Int)
    (h1 : inInt32 esize) (h2 : inInt32 ecode) (hb : (body.length : Int) = esize - 8)
    (hsz : size ≥ 16 ∨ size < 0) (hpos : esize ≠ 0) :
    parseExtsAux b e (fuel + 1) (encI32 e esize ++ encI32 e ecode ++ (body ++ t)) size =
      (parseExtsAux b e fuel t (size - esize)).map (⟨ecode, rstripNul body⟩ :: ·) := by
  obtain ⟨a0, a1, a2, a3, ha, hda⟩ := decI32_encI32 e esize h1
  obtain ⟨c0, c1, c2, c3, hc, hdc⟩ := decI32_encI32 e ecode h2
  rw [ha, hc]
  have hwant : ¬ (esize - 8 < 0) := by omega
  have hlen : (esize - 8).toNat = body.length := by omega
  rw [parseExtsAux]
  gen_norm
  rw [if_pos hsz]
  simp only [List.cons_append, List.nil_append, List.take_succ_cons, List.take_zero, List.drop_succ_cons,
    List.drop_zero, hda, hdc]
  rw [if_neg (by intro h; exact hpos h.2)]
  simp only [if_neg hwant, hlen, List.take_left', List.drop_left']
  rw [if_neg (by omega)]

/-! ### lists of records -/

theorem serializeExts_nil (e : Endian) : serializeExts e [] = .ok [] := rfl

theorem serializeExts_cons (e : Endian) (x : Ext) (xs : List Ext) :
    serializeExts e (x :: xs) = serializeStep e x (serializeExts e xs) :=
  List.foldr_cons ..

def AllOK (xs : List Ext) : Prop := ∀ x ∈ xs, ExtOK x

instance (xs : List Ext) : Decidable (AllOK xs) := inferInstanceAs (Decidable (∀ x ∈ xs, ExtOK x))

instance {ε α : Type} [DecidableEq ε] [DecidableEq α] : DecidableEq (Except ε α) := fun a b =>
  match a, b with
  | .ok x, .ok y => if h : x = y then isTrue (by rw [h]) else isFalse (by intro h'; cases h'; exact h rfl)
  | .error x, .error y => if h : x = y then isTrue (by rw [h]) else isFalse (by intro h'; cases h'; exact h rfl)
  | .ok _, .error _ => isFalse (by intro h; cases h)
  | .error _, .ok _ => isFalse (by intro h; cases h)

theorem serializeExts_ok (e : Endian) (xs : List Ext) (h : AllOK xs) :
    ∃ bytes, serializeExts e xs = .ok bytes ∧ (bytes.length : Int) = totalSize xs := by
  induction xs with
  | nil => exact ⟨[], rfl, by simp [totalSize]⟩
  | cons x xs ih =>
      obtain ⟨bs, hbs, hl⟩ := ih (fun y hy => h y (List.mem_cons_of_mem _ hy))
      have hx := h x (List.mem_cons_self)
      refine ⟨_, by rw [serializeExts_cons, hbs, serializeStep, serializeExt_ok e x hx, bind_ok, map_ok], ?_⟩
      have hb := body_length x
      simp only [List.length_append, encI32_length, totalSize] at hb ⊢
      omega

/-- the reader applied to what the writer produced for `xs`, followed by ANY bytes `t`: it returns the records
    of `xs` (contents stripped of trailing NULs) and carries on behind them with the remaining `size`.
    `size` is either negative (pair: read to the end) or at least the size of the records. -/
theorem parse_serialized (b : Bool) (e : Endian) :
    ∀ (xs : List Ext) (bytes : List Nat) (fuel : Nat) (t : List Nat) (size : Int),
      AllOK xs → serializeExts e xs = .ok bytes → (size < 0 ∨ totalSize xs ≤ size) →
      parseExtsAux b e (xs.length + fuel) (bytes ++ t) size =
        (parseExtsAux b e fuel t (size - totalSize xs)).map (xs.map Ext.strip ++ ·) := by
  intro xs
  induction xs with
  | nil =>
      intro bytes fuel t size _ hser _
      simp only [serializeExts_nil, Except.ok.injEq] at hser
      subst hser
      simp only [List.length_nil, Nat.zero_add, List.nil_append, totalSize, Int.sub_zero, List.map_nil]
      cases parseExtsAux b e fuel t size <;> rfl
  | cons x xs ih =>
      intro bytes fuel t size hok hser hsize
      have hx := hok x (List.mem_cons_self)
      have hxs : AllOK xs := fun y hy => hok y (List.mem_cons_of_mem _ hy)
      obtain ⟨bs, hbs, _⟩ := serializeExts_ok e xs hxs
      rw [serializeExts_cons, hbs, serializeStep, serializeExt_ok e x hx, bind_ok, map_ok] at hser
      simp only [Except.ok.injEq] at hser
      subst hser
      have h16 := sizeOnDisk_ge16 x.content.length
      have hnn := totalSize_nonneg xs
      simp only [totalSize] at hsize ⊢
      have hfuel : (x :: xs).length + fuel = (xs.length + fuel) + 1 := by simp only [List.length_cons]; omega
      rw [hfuel]
      have hshape : (encI32 e (sizeOnDisk x.content.length) ++ encI32 e x.code ++ x.content ++ zeros (padLen x) ++ bs) ++ t
          = encI32 e (sizeOnDisk x.content.length) ++ encI32 e x.code ++ ((x.content ++ zeros (padLen x)) ++ (bs ++ t)) := by
        simp only [List.append_assoc]
      rw [hshape, parse_record b e _ _ _ _ _ _ hx.2 hx.1 (body_length x) (by omega) (by omega)]
      rw [ih bs fuel t _ hxs hbs (by omega), rstripNul_append_zeros]
      have hsub : size - sizeOnDisk x.content.length - totalSize xs = size - (sizeOnDisk x.content.length + totalSize xs) := by
        omega
      rw [hsub]
      cases parseExtsAux b e fuel t (size - (sizeOnDisk x.content.length + totalSize xs)) <;> rfl

/-- what follows the last record in a single file: a zero gap of `g` bytes, then anything, with exactly `g`
    bytes of budget left — the (repaired) reader stops -/
theorem parse_gap (e : Endian) (fuel g : Nat) (d : List Nat) :
    parseExtsAux true e (fuel + 1) (zeros g ++ d) (g : Int) = .ok [] := by
  rw [parseExtsAux]
  gen_norm
  by_cases hg : (g : Int) ≥ 16 ∨ (g : Int) < 0
  · rw [if_pos hg]
    obtain ⟨g', rfl⟩ : ∃ g', g = g' + 8 := ⟨g - 8, by omega⟩
    simp only [zeros, List.replicate_succ, List.cons_append, List.take_succ_cons, List.take_zero, decI32_zero]
    simp
  · rw [if_neg hg]

/-- what follows the last record in a header file of a pair: nothing -/
theorem parse_eof (b : Bool) (e : Endian) (fuel : Nat) (size : Int) (h : size < 0) :
    parseExtsAux b e (fuel + 1) [] size = .ok [] := by
  rw [parseExtsAux]
  gen_norm
  rw [if_pos (Or.inr h)]
  simp [h]

/-! ### files -/

/-- what the theorems need of a format: the header block is `sizeof_hdr` bytes, the default single-file offset
    leaves room for the block and the 4-byte extender and is a multiple of 16 -/
def FmtOK (f : Fmt) : Prop := f.hdrSize = f.sizeofHdr ∧ f.hdrSize + 4 ≤ f.singleOff ∧ f.singleOff % 16 = 0

instance (f : Fmt) : Decidable (FmtOK f) :=
  inferInstanceAs (Decidable (f.hdrSize = f.sizeofHdr ∧ f.hdrSize + 4 ≤ f.singleOff ∧ f.singleOff % 16 = 0))

def NoTrailingNul (x : Ext) : Prop := x.content.getLast? ≠ some 0

instance (x : Ext) : Decidable (NoTrailingNul x) := inferInstanceAs (Decidable (x.content.getLast? ≠ some 0))

theorem map_strip_of_noTrailing (xs : List Ext) (h : ∀ x ∈ xs, NoTrailingNul x) : xs.map Ext.strip = xs := by
  induction xs with
  | nil => rfl
  | cons x xs ih =>
      have hx : x.strip = x := by
        cases x with
        | mk c b => simp only [Ext.strip]; rw [rstripNul_of_noTrailing b (h ⟨c, b⟩ List.mem_cons_self)]
      rw [List.map_cons, hx, ih (fun y hy => h y (List.mem_cons_of_mem _ hy))]

theorem strip_strip (x : Ext) : x.strip.strip = x.strip := by
  cases x with
  | mk c b => simp only [Ext.strip, rstripNul_idem]

theorem writeAt_past (buf data : List Nat) (pos : Nat) (h : buf.length ≤ pos) (hd : data ≠ []) :
    writeAt buf pos data = buf ++ zeros (pos - buf.length) ++ data := by
  unfold writeAt
  rw [if_neg (by simpa using hd), List.take_of_length_le h, List.drop_eq_nil_of_le (by omega), List.append_nil]

theorem readData_exact (d : List Nat) : readData d d.length = .ok d := by
  unfold readData
  simp

/-- reader after writer at the level of `from_fileobj`: records, then a zero gap of `g` bytes, then anything -/
theorem parseExts_gap (e : Endian) (xs : List Ext) (bytes d : List Nat) (g : Nat) (hok : AllOK xs)
    (hser : serializeExts e xs = .ok bytes) :
    parseExts e (bytes ++ (zeros g ++ d)) (totalSize xs + (g : Int)) = .ok (xs.map Ext.strip) := by
  obtain ⟨bs, hbs, hl⟩ := serializeExts_ok e xs hok
  rw [hser] at hbs
  cases hbs
  have hlen := totalSize_ge_length xs
  unfold parseExts
  have hfuel : (bytes ++ (zeros g ++ d)).length + 1 = xs.length + (((bytes ++ (zeros g ++ d)).length - xs.length) + 1) := by
    simp only [List.length_append] at *
    omega
  rw [hfuel, parse_serialized true e xs bytes _ _ _ hok hser (Or.inr (by omega))]
  have hsz : totalSize xs + (g : Int) - totalSize xs = (g : Int) := by omega
  rw [hsz, parse_gap, map_ok, List.append_nil]

/-- reader after writer when the records run to the end of the file (`size < 0`: header file of a pair) -/
theorem parseExts_eof (e : Endian) (xs : List Ext) (bytes : List Nat) (size : Int) (hsize : size < 0)
    (hok : AllOK xs) (hser : serializeExts e xs = .ok bytes) :
    parseExts e bytes size = .ok (xs.map Ext.strip) := by
  obtain ⟨bs, hbs, hl⟩ := serializeExts_ok e xs hok
  rw [hser] at hbs
  cases hbs
  have hlen := totalSize_ge_length xs
  have hnn := totalSize_nonneg xs
  unfold parseExts
  have hfuel : bytes.length + 1 = xs.length + ((bytes.length - xs.length) + 1) := by omega
  have hb : bytes = bytes ++ [] := by simp
  rw [hfuel]
  conv => lhs; arg 4; rw [hb]
  rw [parse_serialized true e xs bytes _ _ _ hok hser (Or.inl hsize), parse_eof _ _ _ _ (by omega), map_ok,
    List.append_nil]

/-- the extender + extension block of a single file and its length -/
theorem extBlock_single (e : Endian) (xs : List Ext) (hok : AllOK xs) :
    ∃ bytes, serializeExts e xs = .ok bytes ∧ (bytes.length : Int) = totalSize xs ∧
      extBlock true e xs = .ok ((if xs.isEmpty then [0, 0, 0, 0] else [1, 0, 0, 0]) ++ bytes) := by
  obtain ⟨bytes, hser, hl⟩ := serializeExts_ok e xs hok
  refine ⟨bytes, hser, hl, ?_⟩
  unfold extBlock
  cases xs with
  | nil =>
      rw [serializeExts_nil] at hser
      cases hser
      rfl
  | cons x xs => simp only [List.isEmpty_cons, Bool.false_eq_true, if_false, hser, map_ok]

/-- Loading what a single-file save laid out: block `blk` (extender + records), zero gap, data at `off`. -/
theorem readSingle_layout (fmt : Fmt) (e : Endian) (xs : List Ext) (bytes data : List Nat) (off : Nat)
    (hf : FmtOK fmt) (hok : AllOK xs) (hser : serializeExts e xs = .ok bytes)
    (hoff : (fmt.singleOff : Int) + totalSize xs ≤ (off : Int)) :
    readSingle fmt e ⟨off, ((if xs.isEmpty then [0, 0, 0, 0] else [1, 0, 0, 0]) ++ bytes) ++
        zeros (off - (fmt.hdrSize + 4 + bytes.length)) ++ data⟩ data.length =
      .ok ⟨xs.map Ext.strip, off, data⟩ := by
  obtain ⟨bs, hbs, hl⟩ := serializeExts_ok e xs hok
  rw [hser] at hbs
  cases hbs
  have hnn := totalSize_nonneg xs
  obtain ⟨hf1, hf2, hf3⟩ := hf
  generalize hblkdef : (if xs.isEmpty then [0, 0, 0, 0] else [1, 0, 0, 0]) ++ bytes = blk
  have hblk : blk.length = 4 + bytes.length := by
    rw [← hblkdef]; cases xs <;> simp <;> omega
  have hgg : off - (fmt.hdrSize + 4 + bytes.length) = off - fmt.hdrSize - blk.length := by omega
  rw [hgg]
  unfold readSingle
  have hchk : chkOffset true fmt off = .ok () := by
    unfold chkOffset
    rw [if_neg (by omega), if_neg (by omega)]
  simp only [hchk, bind_ok]
  have hexts : readExtsAfter true fmt e ⟨off, blk ++ zeros (off - fmt.hdrSize - blk.length) ++ data⟩ =
      .ok (xs.map Ext.strip) := by
    unfold readExtsAfter
    cases xs with
    | nil => simp [← hblkdef]
    | cons x xs =>
        have hb : blk = [1, 0, 0, 0] ++ bytes := by simp [← hblkdef]
        simp only [hb, List.cons_append, List.nil_append, List.take_succ_cons, List.take_zero,
          List.drop_succ_cons, List.drop_zero, List.append_assoc]
        rw [if_neg (by omega)]
        simp only [if_true, extSize_eq]
        have hsz : (off : Int) - ((fmt.hdrSize : Int) + 4) =
            totalSize (x :: xs) + ((off - fmt.hdrSize - ([1, 0, 0, 0] ++ bytes).length : Nat) : Int) := by
          simp only [List.length_append, List.length_cons, List.length_nil]
          omega
        rw [hsz]
        exact parseExts_gap e (x :: xs) bytes data _ hok hser
  rw [hexts, bind_ok, if_neg (by omega)]
  have hdrop : List.drop (off - fmt.hdrSize) (blk ++ zeros (off - fmt.hdrSize - blk.length) ++ data) = data := by
    have hpos : off - fmt.hdrSize = (blk ++ zeros (off - fmt.hdrSize - blk.length)).length := by
      simp only [List.length_append, zeros, List.length_replicate]
      omega
    generalize off - fmt.hdrSize - blk.length = g at hpos ⊢
    generalize off - fmt.hdrSize = p at hpos ⊢
    subst hpos
    exact List.drop_left' rfl
  simp only [hdrop, readData_exact, map_ok]

/-- the extender of a single file -/
def extender (xs : List Ext) : List Nat := if xs.isEmpty then [0, 0, 0, 0] else [1, 0, 0, 0]

theorem extender_length (xs : List Ext) : (extender xs).length = 4 := by
  unfold extender; split <;> rfl

/-! ### precision of the `vox_offset` field -/

theorem f32exp_small (fuel n : Nat) (h : n < 16777216) : f32exp fuel n = 0 := by
  cases fuel <;> simp [f32exp, h]

/-- below 2^24 every natural number is a float32 -/
theorem f32round_small (n : Nat) (h : n < 16777216) : f32round n = n := by
  simp [f32round, f32exp_small n n h, Nat.mod_one]

/-- the exponent found is at most `j` when `n < 2^24 * 2^j` -/
theorem f32exp_le : ∀ (fuel n j : Nat), n < 16777216 * 2 ^ j → f32exp fuel n ≤ j := by
  intro fuel
  induction fuel with
  | zero => intro n j _; simp [f32exp]
  | succ fuel ih =>
      intro n j h
      unfold f32exp
      split
      · omega
      · cases j with
        | zero => omega
        | succ j =>
            have : n / 2 < 16777216 * 2 ^ j := by rw [Nat.pow_succ] at h; omega
            have := ih (n / 2) j this
            omega

/-- … and more than `j` when `2^24 * 2^j ≤ n` (given enough fuel) -/
theorem f32exp_gt : ∀ (fuel n j : Nat), j < fuel → 16777216 * 2 ^ j ≤ n → j < f32exp fuel n := by
  intro fuel
  induction fuel with
  | zero => intro n j h _; omega
  | succ fuel ih =>
      intro n j hj h
      have h1 : 1 ≤ 2 ^ j := Nat.one_le_two_pow
      unfold f32exp
      split
      · omega
      · cases j with
        | zero => omega
        | succ j =>
            have : 16777216 * 2 ^ j ≤ n / 2 := by rw [Nat.pow_succ] at h; omega
            have := ih (n / 2) j (by omega) this
            omega

/-- the binade of `n`: `k = f32exp n n` is 0 below 2^24 and otherwise `2^(23+k) ≤ n < 2^(24+k)` -/
theorem f32exp_spec (n : Nat) :
    n < 16777216 * 2 ^ f32exp n n ∧ (f32exp n n = 0 ∨ 16777216 * 2 ^ (f32exp n n - 1) ≤ n) := by
  constructor
  · apply Nat.lt_of_not_le
    intro h
    have hk : f32exp n n < 2 ^ f32exp n n := Nat.lt_two_pow_self
    have := f32exp_gt n n (f32exp n n) (by omega) h
    omega
  · by_cases h0 : f32exp n n = 0
    · exact Or.inl h0
    · right
      apply Nat.le_of_not_lt
      intro h
      have := f32exp_le n n _ h
      omega

theorem f32exp_unique (n k : Nat) (h1 : n < 16777216 * 2 ^ k) (h2 : k = 0 ∨ 16777216 * 2 ^ (k - 1) ≤ n) :
    f32exp n n = k := by
  have hle := f32exp_le n n k h1
  rcases h2 with h0 | h2
  · omega
  · by_cases h0 : k = 0
    · omega
    · have hk : k - 1 < 2 ^ (k - 1) := Nat.lt_two_pow_self
      have := f32exp_gt n n (k - 1) (by omega) h2
      omega

/-- multiples of 16 below 2^28 are float32 values (4 spare bits) -/
theorem f32round_mul16 (n : Nat) (h16 : n % 16 = 0) (h : n < 268435456) : f32round n = n := by
  have hk := f32exp_le n n 4 (by omega)
  unfold f32round
  generalize f32exp n n = k at hk
  obtain rfl | rfl | rfl | rfl | rfl : k = 0 ∨ k = 1 ∨ k = 2 ∨ k = 3 ∨ k = 4 := by omega
  all_goals simp only [Nat.reducePow]
  all_goals (rw [if_neg (by omega)]; omega)

/-- what rounding can return: with `P` the spacing, the multiple of `P` at or below `n`, or the next one -/
theorem f32round_cases (n : Nat) :
    f32round n = n - n % 2 ^ f32exp n n ∨ f32round n = n - n % 2 ^ f32exp n n + 2 ^ f32exp n n := by
  unfold f32round
  simp only []
  split
  · exact Or.inr rfl
  · exact Or.inl rfl

/-- a value rounded DOWN is in the same binade, so one spacing up from it is above `n` -/
theorem f32next_round (n : Nat) (h : f32round n < n) :
    f32next (f32round n) = n - n % 2 ^ f32exp n n + 2 ^ f32exp n n ∧ n < f32next (f32round n) := by
  have hP : 0 < 2 ^ f32exp n n := Nat.pow_pos (by omega)
  have hr : n % 2 ^ f32exp n n < 2 ^ f32exp n n := Nat.mod_lt _ hP
  have hdm := Nat.div_add_mod n (2 ^ f32exp n n)
  obtain ⟨hub, hlb⟩ := f32exp_spec n
  have hs : f32round n = n - n % 2 ^ f32exp n n := by
    rcases f32round_cases n with h' | h'
    · exact h'
    · omega
  have hk0 : f32exp n n ≠ 0 := by
    intro h0
    rw [h0] at hs
    simp [Nat.mod_one] at hs
    omega
  have hlb' : 16777216 * 2 ^ (f32exp n n - 1) ≤ n := by
    rcases hlb with h0 | h'
    · exact absurd h0 hk0
    · exact h'
  have hpow : 2 ^ f32exp n n = 2 ^ (f32exp n n - 1) * 2 := by
    rw [← Nat.pow_succ]; congr 1; omega
  -- the quotient has a full 24-bit significand
  have hq : 8388608 ≤ n / 2 ^ f32exp n n := by
    rw [Nat.le_div_iff_mul_le hP]; omega
  have hmul : 2 ^ f32exp n n * 8388608 ≤ 2 ^ f32exp n n * (n / 2 ^ f32exp n n) := Nat.mul_le_mul_left _ hq
  have hk' : f32exp (f32round n) (f32round n) = f32exp n n := by
    apply f32exp_unique
    · omega
    · right; rw [hs]; omega
  unfold f32next
  rw [hk', hs]
  exact ⟨rfl, by omega⟩

/-- multiples of 16 stay multiples of 16 (the spacing is 1, 2, 4, 8, 16 below 2^28 and a multiple of 32 above) -/
theorem f32_mod16 (n : Nat) (h16 : n % 16 = 0) :
    (n - n % 2 ^ f32exp n n) % 16 = 0 ∧ (n - n % 2 ^ f32exp n n + 2 ^ f32exp n n) % 16 = 0 ∨ f32round n = n := by
  by_cases h : n < 268435456
  · exact Or.inr (f32round_mul16 n h16 h)
  · left
    have hk : 4 < f32exp n n := f32exp_gt n n 4 (by omega) (by omega)
    have hpow : 2 ^ f32exp n n = 16 * 2 ^ (f32exp n n - 4) := by
      rw [show (16 : Nat) = 2 ^ 4 from rfl, ← Nat.pow_add]; congr 1; omega
    have hdm := Nat.div_add_mod n (2 ^ f32exp n n)
    have hs : n - n % 2 ^ f32exp n n = 16 * (2 ^ (f32exp n n - 4) * (n / 2 ^ f32exp n n)) := by
      rw [← Nat.mul_assoc, ← hpow]; omega
    constructor <;> omega

/-- a value the field holds exactly -/
def Fmt.Exact (fmt : Fmt) (n : Nat) : Prop := fmt.offRepr n = n

instance (fmt : Fmt) (n : Nat) : Decidable (fmt.Exact n) := inferInstanceAs (Decidable (fmt.offRepr n = n))

theorem offRepr_zero (fmt : Fmt) : fmt.offRepr 0 = 0 := by
  unfold Fmt.offRepr; split
  · exact f32round_small 0 (by omega)
  · rfl

theorem exact_of_int (fmt : Fmt) (h : fmt.voxF32 = false) (n : Nat) : fmt.Exact n := by
  unfold Fmt.Exact Fmt.offRepr; rw [h]; rfl

theorem exact_small (fmt : Fmt) (n : Nat) (h : n < 16777216) : fmt.Exact n := by
  unfold Fmt.Exact Fmt.offRepr; split
  · exact f32round_small n h
  · rfl

theorem exact_mul16 (fmt : Fmt) (n : Nat) (h16 : n % 16 = 0) (h : n < 268435456) : fmt.Exact n := by
  unfold Fmt.Exact Fmt.offRepr; split
  · exact f32round_mul16 n h16 h
  · rfl

/-- the value the library fills in is never below the value it wanted, equals it when representable, and is a
    multiple of 16 when the wanted value is — for EVERY natural number -/
theorem offFill_spec (fmt : Fmt) (m : Nat) :
    m ≤ fmt.offFill m ∧ (fmt.Exact m → fmt.offFill m = m) ∧ (m % 16 = 0 → fmt.offFill m % 16 = 0) := by
  unfold Fmt.offFill Fmt.Exact
  simp only [storedBelow_eq]
  by_cases hf : fmt.voxF32 = true
  · have hrep : fmt.offRepr m = f32round m := by unfold Fmt.offRepr; rw [if_pos hf]
    have hnext : ∀ s, fmt.offNext s = f32next s := by intro s; unfold Fmt.offNext; rw [if_pos hf]
    rw [hrep]
    by_cases hlt : f32round m < m
    · obtain ⟨hn, hgt⟩ := f32next_round m hlt
      rw [if_pos (by omega), hnext]
      refine ⟨by omega, fun h => by omega, fun h16 => ?_⟩
      rcases f32_mod16 m h16 with ⟨_, h2⟩ | h2
      · rw [hn]; exact h2
      · omega
    · rw [if_neg (by omega)]
      refine ⟨by omega, fun h => h, fun h16 => ?_⟩
      rcases f32_mod16 m h16 with ⟨h1, h2⟩ | h2
      · rcases f32round_cases m with h' | h' <;> rw [h'] <;> assumption
      · rw [h2]; exact h16
  · have hrep : fmt.offRepr m = m := by unfold Fmt.offRepr; rw [if_neg hf]
    rw [hrep, if_neg (by omega)]
    exact ⟨by omega, fun _ => rfl, fun h => h⟩

/-- the offset a successful single-file save leaves in the header FIELD (and writes the data at) -/
def chosenOffset (fmt : Fmt) (xs : List Ext) (userOff : Nat) : Nat :=
  if fmt.offRepr userOff = 0 then fmt.offFill (minOffset fmt xs).toNat else fmt.offRepr userOff

theorem chooseOffset_eq (fmt : Fmt) (xs : List Ext) (userOff : Nat)
    (hfit : minOffset fmt xs ≤ (chosenOffset fmt xs userOff : Int)) :
    chooseOffset fmt xs userOff = .ok ((chosenOffset fmt xs userOff : Nat) : Int) := by
  have hm : minOffset fmt xs = (fmt.singleOff : Int) + totalSize xs := minOffset_eq fmt xs
  unfold chooseOffset chooseOffsetT
  unfold chosenOffset at hfit ⊢
  gen_norm
  by_cases h0 : fmt.offRepr userOff = 0
  · rw [if_pos (by omega), if_pos h0, ← hm]
  · rw [if_neg h0] at hfit
    rw [if_neg (by omega), if_neg h0, if_neg (by omega)]

/-- the STORED offset leaves room: the only thing the file-level theorems need of the field's precision.
    It holds whenever the values involved are exact (`fits_of_exact`), and also when rounding goes UP. -/
def Fits (fmt : Fmt) (xs : List Ext) (userOff : Nat) : Prop :=
  minOffset fmt xs ≤ (chosenOffset fmt xs userOff : Int)

instance (fmt : Fmt) (xs : List Ext) (userOff : Nat) : Decidable (Fits fmt xs userOff) :=
  inferInstanceAs (Decidable (minOffset fmt xs ≤ (chosenOffset fmt xs userOff : Int)))

theorem fits_of_exact (fmt : Fmt) (xs : List Ext) (userOff : Nat)
    (hoff : userOff = 0 ∨ (fmt.singleOff : Int) + totalSize xs ≤ (userOff : Int))
    (hxu : fmt.Exact userOff) (hxm : userOff = 0 → fmt.Exact (minOffset fmt xs).toNat) :
    Fits fmt xs userOff ∧
      chosenOffset fmt xs userOff = (if userOff = 0 then (minOffset fmt xs).toNat else userOff) := by
  have hnn := totalSize_nonneg xs
  have hm : minOffset fmt xs = (fmt.singleOff : Int) + totalSize xs := minOffset_eq fmt xs
  unfold Fits chosenOffset
  unfold Fmt.Exact at hxu
  rw [hxu]
  by_cases h0 : userOff = 0
  · have := (offFill_spec fmt (minOffset fmt xs).toNat).2.1 (hxm h0)
    rw [if_pos h0, if_pos h0, this]
    exact ⟨by omega, rfl⟩
  · rw [if_neg h0, if_neg h0]
    exact ⟨by omega, rfl⟩

/-- an offset the LIBRARY fills in always leaves room (repaired logic) -/
theorem fits_library (fmt : Fmt) (xs : List Ext) (userOff : Nat) (h0 : fmt.offRepr userOff = 0) :
    Fits fmt xs userOff := by
  unfold Fits chosenOffset
  rw [if_pos h0]
  have := (offFill_spec fmt (minOffset fmt xs).toNat).1
  omega

/-- the two ways a request is honoured: offset left to the library, or an explicit, exactly representable
    offset not below the minimum -/
theorem fits_of_request (fmt : Fmt) (xs : List Ext) (userOff : Nat)
    (hoff : userOff = 0 ∨ ((fmt.singleOff : Int) + totalSize xs ≤ (userOff : Int) ∧ fmt.Exact userOff)) :
    Fits fmt xs userOff ∧
      chosenOffset fmt xs userOff = (if userOff = 0 then fmt.offFill (minOffset fmt xs).toNat else userOff) := by
  have hm : minOffset fmt xs = (fmt.singleOff : Int) + totalSize xs := minOffset_eq fmt xs
  by_cases h0 : userOff = 0
  · subst h0
    refine ⟨fits_library fmt xs 0 (offRepr_zero fmt), ?_⟩
    unfold chosenOffset
    rw [if_pos (offRepr_zero fmt), if_pos rfl]
  · rcases hoff with h | ⟨hge, hx⟩
    · exact absurd h h0
    · unfold Fmt.Exact at hx
      unfold Fits chosenOffset
      simp only [hx, if_neg h0]
      exact ⟨by omega, trivial⟩

theorem f32round_div_pos : ∀ (fuel n : Nat), 0 < n → 0 < n / 2 ^ f32exp fuel n := by
  intro fuel
  induction fuel with
  | zero => intro n h; simpa [f32exp] using h
  | succ fuel ih =>
      intro n h
      unfold f32exp
      split
      · simpa using h
      · have h2 : 0 < n / 2 := by omega
        have := ih (n / 2) h2
        rw [Nat.pow_succ, Nat.mul_comm, ← Nat.div_div_eq_div_mul]
        exact this

/-- rounding never produces the "unset" value 0 from a set one -/
theorem f32round_pos (n : Nat) (h : 0 < n) : 0 < f32round n := by
  have hq := f32round_div_pos n n h
  have hp : 0 < 2 ^ f32exp n n := Nat.pow_pos (by omega)
  have hdm := Nat.div_add_mod n (2 ^ f32exp n n)
  have hmul := Nat.mul_pos hp hq
  rcases f32round_cases n with h' | h' <;> omega

theorem offRepr_eq_zero (fmt : Fmt) (n : Nat) : fmt.offRepr n = 0 ↔ n = 0 := by
  constructor
  · intro h
    unfold Fmt.offRepr at h
    split at h
    · have := f32round_pos n
      omega
    · exact h
  · intro h; rw [h]; exact offRepr_zero fmt

/-- a single-file save whose STORED offset is not below the minimum: the exact file written -/
theorem writeSingle_ok (fmt : Fmt) (e : Endian) (xs : List Ext) (userOff : Nat) (bytes data : List Nat)
    (hf : FmtOK fmt) (hok : AllOK xs) (hser : serializeExts e xs = .ok bytes) (hd : data ≠ [])
    (hfit : minOffset fmt xs ≤ (chosenOffset fmt xs userOff : Int)) :
    writeSingle fmt e xs userOff data =
      .ok ⟨chosenOffset fmt xs userOff,
           extender xs ++ bytes ++ zeros (chosenOffset fmt xs userOff - (fmt.hdrSize + 4 + bytes.length)) ++ data⟩ ∧
    fmt.hdrSize + 4 + bytes.length ≤ chosenOffset fmt xs userOff := by
  obtain ⟨bs, hbs, hl, hblk⟩ := extBlock_single e xs hok
  rw [hser] at hbs
  cases hbs
  have hnn := totalSize_nonneg xs
  obtain ⟨_, hf2, hf3⟩ := hf
  have hlen : (extender xs ++ bytes).length = 4 + bytes.length := by
    rw [List.length_append, extender_length]
  have hmin : minOffset fmt xs = (fmt.singleOff : Int) + totalSize xs := minOffset_eq fmt xs
  refine ⟨?_, by omega⟩
  unfold writeSingle
  rw [chooseOffset_eq fmt xs userOff hfit, bind_ok, hblk, bind_ok, if_neg (by omega)]
  have ht : ((chosenOffset fmt xs userOff : Nat) : Int).toNat = chosenOffset fmt xs userOff := by omega
  rw [ht]
  show Except.ok (HFile.mk _ (writeAt (extender xs ++ bytes) _ data)) = _
  rw [writeAt_past _ _ _ (by rw [hlen]; omega) hd, hlen]
  have hg : chosenOffset fmt xs userOff - fmt.hdrSize - (4 + bytes.length) =
      chosenOffset fmt xs userOff - (fmt.hdrSize + 4 + bytes.length) := by omega
  rw [hg]

/-- an explicit offset whose STORED value is below the minimum is refused -/
theorem writeSingle_small (fmt : Fmt) (e : Endian) (xs : List Ext) (userOff : Nat) (data : List Nat)
    (h0 : fmt.offRepr userOff ≠ 0) (hsmall : (fmt.offRepr userOff : Int) < minOffset fmt xs) :
    writeSingle fmt e xs userOff data = .error .headerData := by
  have hm : minOffset fmt xs = (fmt.singleOff : Int) + totalSize xs := minOffset_eq fmt xs
  unfold writeSingle chooseOffset chooseOffsetT
  gen_norm
  rw [if_neg (by omega), if_pos (by omega), bind_error]

/-- whatever a successful single-file save wrote into the field is the offset the rule chose -/
theorem writeSingle_voxOffset (fmt : Fmt) (e : Endian) (xs : List Ext) (userOff : Nat) (data : List Nat) (f : HFile)
    (hw : writeSingle fmt e xs userOff data = .ok f) :
    chooseOffset fmt xs userOff = .ok (f.voxOffset : Int) ∧ fmt.hdrSize ≤ f.voxOffset := by
  unfold writeSingle at hw
  cases hc : chooseOffset fmt xs userOff with
  | error er => rw [hc, bind_error] at hw; cases hw
  | ok off =>
      rw [hc, bind_ok] at hw
      cases hb : extBlock true e xs with
      | error er => rw [hb, bind_error] at hw; cases hw
      | ok blk =>
          rw [hb, bind_ok] at hw
          split at hw
          · cases hw
          · cases hw
            simp only [Except.ok.injEq]
            omega

/-! ### the recursion budget of the reader is never exhausted -/

theorem map_ne_fuel {α β : Type} (r : Except Err α) (f : α → β) (h : r ≠ .error .fuel) : r.map f ≠ .error .fuel := by
  cases r with
  | error er => intro h'; apply h; simpa [Except.map] using h'
  | ok a => intro h'; cases h'

theorem parse_no_fuel (b : Bool) (e : Endian) : ∀ (fuel : Nat) (bs : List Nat) (size : Int), bs.length < fuel →
    parseExtsAux b e fuel bs size ≠ .error .fuel := by
  intro fuel
  induction fuel with
  | zero => intro bs size h; omega
  | succ fuel ih =>
      intro bs size hlen
      rw [parseExtsAux]
      gen_norm
      split
      · split
        · split <;> (intro h; cases h)
        · rename_i b0 b1 b2 b3 b4 b5 b6 b7 htake
          have h8 : 8 ≤ bs.length := by
            have := congrArg List.length htake
            simp only [List.length_take, List.length_cons, List.length_nil] at this
            omega
          repeat' split
          all_goals first
            | (intro h; cases h; done)
            | (apply map_ne_fuel; apply ih; simp only [List.length_drop]; omega)
        · intro h; cases h
      · intro h; cases h

end Nb.C11
