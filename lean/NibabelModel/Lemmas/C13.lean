import NibabelModel.Model.C13
/-! Lemmas for C13: heap bookkeeping, well-formedness, and the simulation of `Spec.step` by `step`
    (core Lean only). -/
namespace Nb.C13
open Nb

/-! ### heap lookups -/

theorem bump_dflt : bump Arr.dflt = Arr.dflt := by
  simp [bump, Arr.dflt]

@[simp] theorem bump_dt (a : Arr) : (bump a).dt = a.dt := by
  unfold bump; split <;> rfl

@[simp] theorem bump_ro (a : Arr) : (bump a).ro = a.ro := by
  unfold bump; split <;> rfl

theorem get_alloc_lt (s : State) (a : Arr) {i : Nat} (h : i < s.heap.length) :
    (alloc s a).1.get i = s.get i := by
  simp [alloc, State.get, List.getElem?_append, h]

theorem get_alloc_new (s : State) (a : Arr) : (alloc s a).1.get s.heap.length = a := by
  simp [alloc, State.get]

theorem get_modify (s : State) (k j : Nat) :
    ({ s with heap := s.heap.modify k bump } : State).get j
      = if k = j then bump (s.get j) else s.get j := by
  simp only [State.get, List.getElem?_modify]
  by_cases hkj : k = j
  · subst hkj
    cases h : s.heap[k]? <;> simp [bump_dflt]
  · cases h : s.heap[j]? <;> simp [hkj]

/-! ### well-formedness is an invariant -/

theorem wf_alloc {s : State} (h : s.WF) (a : Arr) : (alloc s a).1.WF := by
  constructor <;> intro i hi <;> simp only [alloc, List.length_append, List.length_singleton] at *
  · have := h.own i hi; omega
  · have := h.fcache i hi; omega
  · have := h.dcache i hi; omega
  · have := h.last i hi; omega

theorem alloc_snd (s : State) (a : Arr) : (alloc s a).2 = s.heap.length := rfl
theorem alloc_len (s : State) (a : Arr) : (alloc s a).1.heap.length = s.heap.length + 1 := by
  simp [alloc]

theorem readObj_wf {s : State} (h : s.WF) (d : Option DT) :
    (readObj s d).1.WF ∧ (readObj s d).2 < (readObj s d).1.heap.length := by
  unfold readObj
  split
  · rename_i own hown
    have ho := h.own own hown
    split
    · exact ⟨h, ho⟩
    · split
      · exact ⟨h, ho⟩
      · exact ⟨wf_alloc h _, by simp [alloc]⟩
  · exact ⟨wf_alloc h _, by simp [alloc]⟩

theorem wf_retArr {s : State} (h : s.WF) {id : Nat} (hid : id < s.heap.length) : (retArr s id).1.WF := by
  constructor <;> intro i hi <;> simp only [retArr] at *
  · exact h.own i hi
  · exact h.fcache i hi
  · exact h.dcache i hi
  · cases hi; exact hid

theorem wf_setF {s : State} (h : s.WF) {id : Nat} (hid : id < s.heap.length) :
    ({ s with fcache := some id } : State).WF := by
  constructor <;> intro i hi <;> simp only at *
  · exact h.own i hi
  · cases hi; exact hid
  · exact h.dcache i hi
  · exact h.last i hi

theorem wf_setD {s : State} (h : s.WF) {id : Nat} (hid : id < s.heap.length) :
    ({ s with dcache := some id } : State).WF := by
  constructor <;> intro i hi <;> simp only at *
  · exact h.own i hi
  · exact h.fcache i hi
  · cases hi; exact hid
  · exact h.last i hi

theorem wf_editAt {s : State} (h : s.WF) (k : Nat) : (editAt s k).1.WF := by
  unfold editAt
  split
  · constructor <;> intro i hi <;> simp only [retRes, List.length_modify] at *
    · exact h.own i hi
    · exact h.fcache i hi
    · exact h.dcache i hi
    · exact h.last i hi
  · exact h

theorem fhit_lt {s : State} (h : s.WF) {d : DT} {id : Nat} (hh : fhit s d = some id) :
    id < s.heap.length ∧ s.fcache = some id ∧ (s.get id).dt = d := by
  unfold fhit at hh
  split at hh
  · rename_i i hi
    split at hh
    · cases hh; exact ⟨h.fcache _ hi, hi, by assumption⟩
    · cases hh
  · cases hh

theorem step_wf' {s : State} (h : s.WF) (op : Op) : (step s op).1.WF := by
  cases op with
  | getFdata c d =>
    simp only [step]
    split
    · exact h
    · split
      · rename_i id hid
        exact wf_retArr h (fhit_lt h hid).1
      · have hr := readObj_wf h (some d)
        split
        · exact wf_retArr (wf_setF hr.1 hr.2) hr.2
        · exact wf_retArr hr.1 hr.2
  | getData c =>
    simp only [step]
    split
    · exact h
    · split
      · rename_i id hid
        exact wf_retArr h (h.dcache _ hid)
      · have hr := readObj_wf h none
        split
        · exact wf_retArr (wf_setD hr.1 hr.2) hr.2
        · exact wf_retArr hr.1 hr.2
  | asarray =>
    have hr := readObj_wf h none
    exact wf_retArr hr.1 hr.2
  | slice sl =>
    simp only [step]
    split
    · exact h
    · split
      · exact h
      · exact wf_retArr (wf_alloc h _) (by simp [alloc])
  | uncache =>
    constructor <;> intro i hi <;> simp only [step, retRes] at *
    · exact h.own i hi
    · cases hi
    · cases hi
    · exact h.last i hi
  | edit k => exact wf_editAt h k
  | editLast =>
    simp only [step]
    split
    · exact wf_editAt h _
    · exact h
  | inMemory => exact h
  | hdr t e =>
    cases t <;>
    · constructor <;> intro i hi <;> simp only [step, retRes] at *
      · exact h.own i hi
      · exact h.fcache i hi
      · exact h.dcache i hi
      · exact h.last i hi

theorem initArray_wf (a : Arr) (h : Hdr) : (initArray a h).WF := by
  constructor <;> intro i hi <;> simp [initArray] at *
  omega

theorem initProxy_wf (raw : List Int) (h : Hdr) (io : IOp := {}) : (initProxy raw h io).WF := by
  constructor <;> intro i hi <;> simp [initProxy] at *

/-! ### simulation: every concrete step is a step of the documented model -/

theorem abs_inMemory (s : State) : (abs s).inMemory = s.inMemory := by
  unfold Spec.inMemory State.inMemory abs
  cases s.img <;> cases s.fcache <;> cases s.dcache <;> rfl

theorem sim_retRes (s : State) (r : Res) :
    abs (retRes s r).1 = (Spec.retRes (abs s) r).1 ∧ (retRes s r).2 = (Spec.retRes (abs s) r).2 := by
  simp [retRes, Spec.retRes, abs_inMemory]

theorem abs_setLast (s : State) (id : Nat) :
    abs { s with last := some id } = { abs s with last := some id } := rfl

theorem sim_retArr (s : State) (id : Nat) :
    abs (retArr s id).1 = (Spec.ret (abs s) (id, s.get id)).1 ∧
    (retArr s id).2 = (Spec.ret (abs s) (id, s.get id)).2 := by
  refine ⟨rfl, ?_⟩
  simp only [retArr, Spec.ret, ← abs_setLast, abs_inMemory]

theorem getD_append_lt (l : List Arr) (a : Arr) {i : Nat} (h : i < l.length) :
    ((l ++ [a])[i]?).getD Arr.dflt = (l[i]?).getD Arr.dflt := by
  rw [List.getElem?_append_left h]

theorem abs_alloc {s : State} (h : s.WF) (a : Arr) :
    abs (alloc s a).1 = { abs s with next := (abs s).next + 1 } := by
  unfold abs
  simp only [alloc, State.get, List.length_append, List.length_singleton]
  congr 1
  · split
    · rename_i own ho
      rw [getD_append_lt _ _ (h.own own ho)]
    · rfl
  · cases hf : s.fcache with
    | none => rfl
    | some i => simp [getD_append_lt _ _ (h.fcache i hf)]
  · cases hf : s.dcache with
    | none => rfl
    | some i => simp [getD_append_lt _ _ (h.dcache i hf)]


theorem sim_readObj {s : State} (h : s.WF) (d : Option DT) :
    abs (readObj s d).1 = (Spec.read (abs s) d).1 ∧
    ((readObj s d).2, (readObj s d).1.get (readObj s d).2) = (Spec.read (abs s) d).2 := by
  unfold readObj Spec.read
  cases hi : s.img with
  | array own =>
    have e1 : (abs s).img = .array (own, s.get own) := by simp [abs, hi]
    simp only [e1]
    cases d with
    | none => exact ⟨rfl, rfl⟩
    | some d =>
      simp only
      by_cases hd : (s.get own).dt = d
      · simp only [hd, if_true]; exact ⟨trivial, trivial⟩
      · simp only [hd, if_false]
        refine ⟨?_, ?_⟩
        · rw [abs_alloc h]; simp only [e1]
        · rw [alloc_snd, get_alloc_new]; rfl
  | proxy raw p =>
    have e1 : (abs s).img = .proxy raw p := by simp [abs, hi]
    simp only [e1]
    refine ⟨?_, ?_⟩
    · rw [abs_alloc h]; simp only [e1]
    · rw [alloc_snd, get_alloc_new]; rfl

theorem abs_setF (s : State) (i : Nat) :
    abs { s with fcache := some i } = { abs s with fcache := some (i, s.get i) } := rfl
theorem abs_setD (s : State) (i : Nat) :
    abs { s with dcache := some i } = { abs s with dcache := some (i, s.get i) } := rfl

/-- the common tail of `get_fdata` / `get_data`: read, maybe store, return -/
theorem sim_readStoreF {s : State} (h : s.WF) (d : DT) (fill : Prop) [Decidable fill] :
    let r := readObj s (some d)
    let x := Spec.read (abs s) (some d)
    abs (retArr (if fill then { r.1 with fcache := some r.2 } else r.1) r.2).1
      = (Spec.ret (if fill then { x.1 with fcache := some x.2 } else x.1) x.2).1 ∧
    (retArr (if fill then { r.1 with fcache := some r.2 } else r.1) r.2).2
      = (Spec.ret (if fill then { x.1 with fcache := some x.2 } else x.1) x.2).2 := by
  intro r x
  have hs := sim_readObj h (some d)
  have hx1 : x.1 = abs r.1 := hs.1.symm
  have hx2 : x.2 = (r.2, r.1.get r.2) := hs.2.symm
  by_cases hf : fill
  · simp only [hf, if_true, hx1, hx2, ← abs_setF]
    exact sim_retArr _ _
  · simp only [hf, if_false, hx1, hx2]
    exact sim_retArr _ _


theorem sim_readStoreD {s : State} (h : s.WF) (fill : Prop) [Decidable fill] :
    let r := readObj s none
    let x := Spec.read (abs s) none
    abs (retArr (if fill then { r.1 with dcache := some r.2 } else r.1) r.2).1
      = (Spec.ret (if fill then { x.1 with dcache := some x.2 } else x.1) x.2).1 ∧
    (retArr (if fill then { r.1 with dcache := some r.2 } else r.1) r.2).2
      = (Spec.ret (if fill then { x.1 with dcache := some x.2 } else x.1) x.2).2 := by
  intro r x
  have hs := sim_readObj h none
  have hx1 : x.1 = abs r.1 := hs.1.symm
  have hx2 : x.2 = (r.2, r.1.get r.2) := hs.2.symm
  by_cases hf : fill
  · simp only [hf, if_true, hx1, hx2, ← abs_setD]
    exact sim_retArr _ _
  · simp only [hf, if_false, hx1, hx2]
    exact sim_retArr _ _

theorem getD_modify (l : List Arr) (k j : Nat) :
    ((l.modify k bump)[j]?).getD Arr.dflt
      = if k = j then bump ((l[j]?).getD Arr.dflt) else (l[j]?).getD Arr.dflt := by
  simp only [List.getElem?_modify]
  by_cases hkj : k = j
  · subst hkj
    cases h : l[k]? <;> simp [bump_dflt]
  · cases h : l[j]? <;> simp [hkj]

theorem abs_modify (s : State) (k : Nat) :
    abs { s with heap := s.heap.modify k bump } =
      { abs s with
        img := Spec.bumpImg k (abs s).img,
        fcache := (abs s).fcache.map (Spec.bumpIf k),
        dcache := (abs s).dcache.map (Spec.bumpIf k) } := by
  unfold abs
  simp only [List.length_modify, State.get]
  congr 1
  · cases s.img with
    | array own =>
      simp only [getD_modify, Spec.bumpIf, Spec.bumpImg]
      by_cases hk : k = own
      · simp [hk]
      · have : ¬ own = k := fun e => hk e.symm
        simp [hk, this]
    | proxy r p => rfl
  · cases s.fcache with
    | none => rfl
    | some i =>
      simp only [Option.map_some, getD_modify, Spec.bumpIf]
      by_cases hk : k = i
      · simp [hk]
      · have : ¬ i = k := fun e => hk e.symm
        simp [hk, this]
  · cases s.dcache with
    | none => rfl
    | some i =>
      simp only [Option.map_some, getD_modify, Spec.bumpIf]
      by_cases hk : k = i
      · simp [hk]
      · have : ¬ i = k := fun e => hk e.symm
        simp [hk, this]

theorem sim_editAt (s : State) (k : Nat) :
    abs (editAt s k).1 = (Spec.editAt (abs s) k).1 ∧ (editAt s k).2 = (Spec.editAt (abs s) k).2 := by
  unfold editAt Spec.editAt
  have hn : (abs s).next = s.heap.length := rfl
  rw [hn]
  by_cases hk : k < s.heap.length
  · simp only [hk, if_true]
    have := sim_retRes { s with heap := s.heap.modify k bump } .unit
    rw [abs_modify] at this
    exact this
  · simp only [hk, if_false]
    exact sim_retRes s .noArr


theorem fhit_abs (s : State) (d : DT) :
    (match (abs s).fcache with
     | some r => if r.2.dt = d then some r else none
     | none => none) = (fhit s d).map (fun i => (i, s.get i)) := by
  unfold fhit abs
  cases s.fcache with
  | none => rfl
  | some i =>
    simp only [Option.map_some]
    by_cases h : (s.get i).dt = d <;> simp [h]

theorem sim_step {s : State} (h : s.WF) (op : Op) :
    abs (step s op).1 = (Spec.step (abs s) op).1 ∧ (step s op).2 = (Spec.step (abs s) op).2 := by
  cases op with
  | getFdata c d =>
    simp only [step, Spec.step]
    by_cases hbad : c = .other ∨ d = .i2
    · simp only [hbad, if_true]; exact sim_retRes s _
    · simp only [hbad, if_false]
      cases hf : s.fcache with
      | none =>
        have e1 : fhit s d = none := by simp [fhit, hf]
        have e2 : (abs s).fcache = none := by simp [abs, hf]
        simp only [e1, e2]
        exact sim_readStoreF h d (c = .fill)
      | some i =>
        have e2 : (abs s).fcache = some (i, s.get i) := by simp [abs, hf]
        simp only [e2]
        by_cases hd : (s.get i).dt = d
        · have e1 : fhit s d = some i := by simp [fhit, hf, hd]
          simp only [e1, hd, if_true]
          exact sim_retArr s i
        · have e1 : fhit s d = none := by simp [fhit, hf, hd]
          simp only [e1, hd, if_false]
          exact sim_readStoreF h d (c = .fill)
  | getData c =>
    simp only [step, Spec.step]
    by_cases hbad : c = .other
    · simp only [hbad, if_true]; exact sim_retRes s _
    · simp only [hbad, if_false]
      cases hf : s.dcache with
      | none =>
        have e2 : (abs s).dcache = none := by simp [abs, hf]
        simp only [e2]
        exact sim_readStoreD h (c = .fill)
      | some i =>
        have e2 : (abs s).dcache = some (i, s.get i) := by simp [abs, hf]
        simp only [e2]
        exact sim_retArr s i
  | asarray =>
    simp only [step, Spec.step]
    have hs := sim_readObj h none
    rw [← hs.2, ← hs.1]
    exact sim_retArr _ _
  | slice sl =>
    simp only [step, Spec.step]
    cases hi : s.img with
    | array own =>
      have e1 : (abs s).img = .array (own, s.get own) := by simp [abs, hi]
      simp only [e1]; exact sim_retRes s _
    | proxy raw p =>
      have e1 : (abs s).img = .proxy raw p := by simp [abs, hi]
      simp only [e1]
      by_cases hz : sl.stepVal = 0
      · simp only [hz, if_true]; exact sim_retRes s _
      · simp only [hz, if_false]
        have := sim_retArr (alloc s ⟨p.outDt, sl.apply (p.scaled raw), p.sliceRO sl raw.length⟩).1 s.heap.length
        rw [get_alloc_new, abs_alloc h] at this
        simp only [e1] at this
        exact this
  | uncache =>
    simp only [step, Spec.step]
    exact sim_retRes { s with fcache := none, dcache := none } .unit
  | edit k => exact sim_editAt s k
  | editLast =>
    simp only [step, Spec.step]
    have e : (abs s).last = s.last := rfl
    rw [e]
    cases s.last with
    | none => exact sim_retRes s _
    | some k => exact sim_editAt s k
  | inMemory => exact sim_retRes s _
  | hdr t e =>
    cases t <;> simp only [step, Spec.step]
    · exact sim_retRes { s with imgHdr := e.apply s.imgHdr } _
    · exact sim_retRes { s with origHdr := e.apply s.origHdr } _

end Nb.C13
