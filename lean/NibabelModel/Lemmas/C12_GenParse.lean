/-
  Lemmas/C12_GenParse — stage T: the translated `parse_filename` (Generated/C12Funcs.lean) equals the model's
  `parseFilename` (Model/C12.lean) on the Parsed record: trailing-suffix loop (for/break), types_exts loop (tuple
  target, `type_ext and endswith(...)`, for/break/else), the `os.path.splitext` fallback primitive.  Core Lean only.
-/
import NibabelModel.Lemmas.C12_Gen
namespace Nb.C12.GenT
open Nb.Py Nb.Py.V Nb.PyS

def optV : Option String → V
  | Option.none => V.none
  | Option.some e => V.str e

def tvT (t : String × Option String) : V := .tup2 (.str t.1) (optV t.2)
def codesT (t : String × Option String) : Str × Option Str := (codes t.1, t.2.map codes)

theorem pf_call2_tag (mc : Bool) (w e : String) :
    Gen.C12F.parse_filename_call2 (tag mc) (.str w) (.str e) = .ok (.bool (endsFn mc (codes w) (codes e))) := by
  cases mc <;> simp [tag, Gen.C12F.parse_filename_call2, gen_endswith_eq, gen_iendswith_eq, endsFn]

theorem codes_isEmpty (e : String) : (codes e).isEmpty = (e == "") := by
  by_cases he : e = ""
  · subst he; simp [codes]
  · have h1 : e.toList ≠ [] := fun h => he (String.toList_inj.mp (by simpa using h))
    have h2 : (e == "") = false := by simpa using he
    rw [h2]
    cases hl : e.toList with
    | nil => exact absurd hl h1
    | cons c cs => simp [codes, hl]

theorem splitext_codes (l : Str) : Nb.C12.splitext l = (l.take (splitextPos l), l.drop (splitextPos l)) := by
  unfold Nb.C12.splitext splitextPos
  rw [splitLast_rfindL]
  have hD : DOT = 46 := rfl
  rw [hD]
  cases h : rfindL 46 l with
  | none => simp
  | some i =>
    simp only [Option.map_some, baseRev]
    have hS : SEP = 47 := rfl
    simp only [hS]
    by_cases h1 : (List.drop i l).contains 47 = true
    · simp only [h1, if_true]; simp
    · by_cases h2 : ((List.takeWhile (fun x => decide (x ≠ 47)) (List.take i l).reverse).any fun x => decide (x ≠ 46)) = true
      · simp only [h1, h2, if_true, if_false]; simp
      · simp only [h1, h2, if_true, if_false]; simp

theorem splitext_str (p : String) :
    (codes (PyS.splitext p).1, codes (PyS.splitext p).2) = Nb.C12.splitext (codes p) := by
  rw [splitext_codes]
  simp [PyS.splitext, codes, List.map_take, List.map_drop]


open Gen.C12F in
theorem pf_loop1_broken (A : List String) (s : parse_filename_Locals) (h : s._brk1 = .bool true) :
    ∃ s', parse_filename_loop1 (ofList (A.map V.str)) s = .ok (.next s') ∧ s'.filename = s.filename ∧
      s'.ignored = s.ignored ∧ s'._brk1 = .bool true ∧ s'.endswith = s.endswith ∧ s'.types_exts = s.types_exts := by
  induction A generalizing s with
  | nil => exact ⟨s, by simp [parse_filename_loop1], rfl, rfl, h, rfl, rfl⟩
  | cons a A ih =>
    simp only [List.map_cons, ofList, parse_filename_loop1, parse_filename_body1, h, truthy_bool, bind_ok,
      ↓reduceIte, pure_eq_ok]
    obtain ⟨s', h1, h2, h3, h4, h5, h6⟩ := ih ⟨s.filename, s.types_exts, s.trailing_suffixes, s.match_case, s.ignored,
      .bool true, .str a, s.guessed_name, s.found_ext, s._brk4, s._tp3, s.endswith, s.ext, s.name, s.type_ext, s.extpos⟩ rfl
    exact ⟨s', by simpa [h] using h1, h2, h3, h4, h5, h6⟩

open Gen.C12F in
theorem pf_loop1 (mc : Bool) (fn : String) (A : List String) (s : parse_filename_Locals)
    (hb : s._brk1 = .bool false) (hf : s.filename = .str fn) (he : s.endswith = tag mc) :
    ∃ s', parse_filename_loop1 (ofList (A.map V.str)) s = .ok (.next s') ∧ s'.endswith = tag mc ∧
      s'.types_exts = s.types_exts ∧
      match A.find? (fun e => endsFn mc (codes fn) (codes e)) with
      | Option.some e => s'.filename = .str (PyS.sliceTo fn (-(e.toList.length : Int))) ∧
          s'.ignored = .str (PyS.sliceFrom fn (-(e.toList.length : Int)))
      | Option.none => s'.filename = .str fn ∧ s'.ignored = s.ignored := by
  induction A generalizing s with
  | nil => exact ⟨s, by simp [parse_filename_loop1], he, rfl, by simp [hf]⟩
  | cons a A ih =>
    by_cases hm : endsFn mc (codes fn) (codes a) = true
    · obtain ⟨s', h1, h2, h3, h4, h5, h6⟩ := pf_loop1_broken A ⟨.str (PyS.sliceTo fn (-(a.toList.length : Int))),
        s.types_exts, s.trailing_suffixes, s.match_case, .str (PyS.sliceFrom fn (-(a.toList.length : Int))), .bool true,
        .str a, s.guessed_name, s.found_ext, s._brk4, s._tp3, tag mc, .str a, s.name, s.type_ext,
        .int (-(a.toList.length : Int))⟩ rfl
      refine ⟨s', ?_, h5, h6, ?_⟩
      · simp only [List.map_cons, ofList, parse_filename_loop1, parse_filename_body1, hb, hf, he, truthy_bool, bind_ok,
          pure_eq_ok, pf_call2_tag, hm, lenS, neg_int, V.sliceTo, V.sliceFrom]
        simpa using h1
      · simp only [List.find?_cons, hm]
        exact ⟨h2, h3⟩
    · have hm' : endsFn mc (codes fn) (codes a) = false := by simpa using hm
      obtain ⟨s', h1, h2, h3, h4⟩ := ih ⟨s.filename, s.types_exts, s.trailing_suffixes, s.match_case, s.ignored, s._brk1,
        .str a, s.guessed_name, s.found_ext, s._brk4, s._tp3, s.endswith, .str a, s.name, s.type_ext, s.extpos⟩ hb hf he
      refine ⟨s', ?_, h2, h3, ?_⟩
      · simp only [List.map_cons, ofList, parse_filename_loop1, parse_filename_body1, hb, hf, he, truthy_bool, bind_ok,
          pure_eq_ok, pf_call2_tag, hm']
        simpa [hb, hf, he] using h1
      · simpa only [List.find?_cons, hm'] using h4


def tmatch (mc : Bool) (f : String) (t : String × Option String) : Bool :=
  typeMatches (endsFn mc) (codes f) (codesT t)

open Gen.C12F in
theorem pf_loop2_broken (T : List (String × Option String)) (s : parse_filename_Locals) (h : s._brk4 = .bool true) :
    ∃ s', parse_filename_loop2 (ofList (T.map tvT)) s = .ok (.next s') ∧ s'.filename = s.filename ∧
      s'.ignored = s.ignored ∧ s'._brk4 = .bool true ∧ s'.found_ext = s.found_ext ∧
      s'.guessed_name = s.guessed_name := by
  induction T generalizing s with
  | nil => exact ⟨s, by simp [parse_filename_loop2], rfl, rfl, h, rfl, rfl⟩
  | cons a T ih =>
    simp only [List.map_cons, ofList, parse_filename_loop2, parse_filename_body2, h, truthy_bool, bind_ok,
      ↓reduceIte, pure_eq_ok]
    obtain ⟨s', h1, h2, h3, h4, h5, h6⟩ := ih ⟨s.filename, s.types_exts, s.trailing_suffixes, s.match_case, s.ignored,
      s._brk1, s._it2, s.guessed_name, s.found_ext, .bool true, tvT a, s.endswith, s.ext, s.name, s.type_ext, s.extpos⟩ rfl
    exact ⟨s', by simpa [h] using h1, h2, h3, h4, h5, h6⟩

open Gen.C12F in
theorem pf_body2_nomatch (mc : Bool) (f : String) (t : String × Option String) (s : parse_filename_Locals)
    (hb : s._brk4 = .bool false) (hf : s.filename = .str f) (he : s.endswith = tag mc)
    (hm : tmatch mc f t = false) :
    parse_filename_body2 { s with _tp3 := tvT t } = .ok (.next { s with _tp3 := tvT t, name := .str t.1, type_ext := optV t.2 }) := by
  obtain ⟨n, oe⟩ := t
  cases oe with
  | none => simp [parse_filename_body2, hb, tvT, optV]
  | some e =>
    by_cases hE : e = ""
    · subst hE; simp [parse_filename_body2, hb, tvT, optV]
    · have h2 : endsFn mc (codes f) (codes e) = false := by
        have : (codes e).isEmpty = false := by rw [codes_isEmpty]; simpa using hE
        simpa [tmatch, typeMatches, codesT, this] using hm
      simp [parse_filename_body2, hb, hf, he, tvT, optV, hE, pf_call2_tag, h2]

open Gen.C12F in
theorem pf_body2_match (mc : Bool) (f : String) (t : String × Option String) (s : parse_filename_Locals)
    (hb : s._brk4 = .bool false) (hf : s.filename = .str f) (he : s.endswith = tag mc)
    (hm : tmatch mc f t = true) :
    parse_filename_body2 { s with _tp3 := tvT t } = .ok (.next { s with
      _tp3 := tvT t, name := .str t.1, type_ext := optV t.2,
      extpos := .int (-(((t.2.getD "").toList.length : Nat) : Int)),
      found_ext := .str (PyS.sliceFrom f (-(((t.2.getD "").toList.length : Nat) : Int))),
      filename := .str (PyS.sliceTo f (-(((t.2.getD "").toList.length : Nat) : Int))),
      guessed_name := .str t.1, _brk4 := .bool true }) := by
  obtain ⟨n, oe⟩ := t
  cases oe with
  | none => simp [tmatch, typeMatches, codesT] at hm
  | some e =>
    have hE : (codes e).isEmpty = false ∧ endsFn mc (codes f) (codes e) = true := by
      simpa [tmatch, typeMatches, codesT] using hm
    have hE' : e ≠ "" := by
      have := hE.1; rw [codes_isEmpty] at this; simpa using this
    simp [parse_filename_body2, hb, hf, he, tvT, optV, hE', pf_call2_tag, hE.2, lenS, V.sliceTo, V.sliceFrom]


open Gen.C12F in
theorem pf_loop2 (mc : Bool) (f : String) (T : List (String × Option String)) (s : parse_filename_Locals)
    (hb : s._brk4 = .bool false) (hf : s.filename = .str f) (he : s.endswith = tag mc) :
    ∃ s', parse_filename_loop2 (ofList (T.map tvT)) s = .ok (.next s') ∧ s'.ignored = s.ignored ∧
      match T.find? (tmatch mc f) with
      | Option.some t =>
          s'.filename = .str (PyS.sliceTo f (-(((t.2.getD "").toList.length : Nat) : Int))) ∧
          s'.found_ext = .str (PyS.sliceFrom f (-(((t.2.getD "").toList.length : Nat) : Int))) ∧
          s'.guessed_name = .str t.1 ∧ s'._brk4 = .bool true
      | Option.none => s'.filename = .str f ∧ s'._brk4 = .bool false ∧ s'.found_ext = s.found_ext ∧
          s'.guessed_name = s.guessed_name := by
  induction T generalizing s with
  | nil => exact ⟨s, by simp [parse_filename_loop2], rfl, by simp [hf, hb]⟩
  | cons t T ih =>
    by_cases hm : tmatch mc f t = true
    · have hbody := pf_body2_match mc f t s hb hf he hm
      obtain ⟨s', h1, h2, h3, h4, h5, h6⟩ := pf_loop2_broken T { s with
        _tp3 := tvT t, name := .str t.1, type_ext := optV t.2,
        extpos := .int (-(((t.2.getD "").toList.length : Nat) : Int)),
        found_ext := .str (PyS.sliceFrom f (-(((t.2.getD "").toList.length : Nat) : Int))),
        filename := .str (PyS.sliceTo f (-(((t.2.getD "").toList.length : Nat) : Int))),
        guessed_name := .str t.1, _brk4 := .bool true } rfl
      refine ⟨s', ?_, h3, ?_⟩
      · simp only [List.map_cons, ofList, parse_filename_loop2, hbody, bind_ok]
        exact h1
      · simp only [List.find?_cons, hm]
        exact ⟨h2, h5, h6, h4⟩
    · have hm' : tmatch mc f t = false := by simpa using hm
      have hbody := pf_body2_nomatch mc f t s hb hf he hm'
      obtain ⟨s', h1, h2, h3⟩ := ih { s with _tp3 := tvT t, name := .str t.1, type_ext := optV t.2 } hb hf he
      refine ⟨s', ?_, h2, ?_⟩
      · simp only [List.map_cons, ofList, parse_filename_loop2, hbody, bind_ok]
        exact h1
      · simpa only [List.find?_cons, hm'] using h3

theorem find_codesT (p : Str × Option Str → Bool) (T : List (String × Option String)) :
    (T.map codesT).find? p = (T.find? (fun t => p (codesT t))).map codesT := by
  induction T with
  | nil => rfl
  | cons a A ih => by_cases h : p (codesT a) = true <;> simp [h, ih]

/-- the result list of `parse_filename` -/
def pfResult (a b : String) (ig gn : Option String) : V :=
  .cons (.str a) (.cons (.str b) (.cons (optV ig) (.cons (optV gn) .nil)))

/-- the model's first step (trailing suffix) and the rest, as separate functions -/
def pfFirst (mc : Bool) (fn : Str) (S : List Str) : Str × Option Str :=
  match S.find? (endsFn mc fn) with
  | Option.some e => ((cutEnd fn e.length).1, Option.some (cutEnd fn e.length).2)
  | Option.none => (fn, Option.none)

def pfRest (mc : Bool) (T : TypesExts) (r : Str × Option Str) : Parsed :=
  match T.find? (typeMatches (endsFn mc) r.1) with
  | Option.some (name, oe) => ⟨(cutEnd r.1 (oe.getD []).length).1, (cutEnd r.1 (oe.getD []).length).2, r.2, Option.some name⟩
  | Option.none => ⟨(Nb.C12.splitext r.1).1, (Nb.C12.splitext r.1).2, r.2, Option.none⟩

theorem parseFilename_split (fn : Str) (T : TypesExts) (S : List Str) (mc : Bool) :
    parseFilename fn T S mc = pfRest mc T (pfFirst mc fn S) := by
  unfold parseFilename pfRest pfFirst
  dsimp only
  cases S.find? (endsFn mc fn) <;> rfl

theorem pf_model (fn : String) (T : List (String × Option String)) (S : List String) (mc : Bool)
    (f1 : String) (ig1 : Option String)
    (hr : pfFirst mc (codes fn) (S.map codes) = (codes f1, ig1.map codes)) :
    parseFilename (codes fn) (T.map codesT) (S.map codes) mc =
      match T.find? (tmatch mc f1) with
      | Option.some t => ⟨(cutEnd (codes f1) ((t.2.map codes).getD []).length).1,
                          (cutEnd (codes f1) ((t.2.map codes).getD []).length).2, ig1.map codes, Option.some (codes t.1)⟩
      | Option.none => ⟨(Nb.C12.splitext (codes f1)).1, (Nb.C12.splitext (codes f1)).2, ig1.map codes, Option.none⟩ := by
  rw [parseFilename_split, hr]
  unfold pfRest
  rw [find_codesT]
  show (match (T.find? (tmatch mc f1)).map codesT with | Option.some (name, oe) => _ | Option.none => _) = _
  cases T.find? (tmatch mc f1) with
  | none => rfl
  | some t => rfl

open Gen.C12F in
theorem gen_parse_filename_eq (fn : String) (T : List (String × Option String)) (S : List String) (mc : Bool) :
    ∃ a b ig gn, parse_filename (.str fn) (ofList (T.map tvT)) (ofList (S.map V.str)) (.bool mc) =
        .ok (pfResult a b ig gn) ∧
      parseFilename (codes fn) (T.map codesT) (S.map codes) mc = ⟨codes a, codes b, ig.map codes, gn.map codes⟩ := by
  obtain ⟨s1, hl1, he1, ht1, hs1⟩ := pf_loop1 mc fn S ⟨.str fn, ofList (T.map tvT), ofList (S.map V.str), .bool mc, .none,
    .bool false, .none, .none, .none, .none, .none, tag mc, .none, .none, .none, .none⟩ rfl rfl rfl
  have key : ∃ f1 ig1, s1.filename = .str f1 ∧ s1.ignored = optV ig1 ∧
      pfFirst mc (codes fn) (S.map codes) = (codes f1, ig1.map codes) := by
    unfold pfFirst
    rw [find_codes]
    cases hfind : S.find? (fun e => endsFn mc (codes fn) (codes e)) with
    | none =>
      rw [hfind] at hs1
      exact ⟨fn, Option.none, hs1.1, hs1.2, rfl⟩
    | some e =>
      rw [hfind] at hs1
      have hc := cut_codes fn e.toList.length
      refine ⟨_, Option.some _, hs1.1, hs1.2, ?_⟩
      simp [codes_length, ← hc]
  obtain ⟨f1, ig1, hf1, hi1, hr⟩ := key
  rw [pf_model fn T S mc f1 ig1 hr]
  obtain ⟨s2, hl2, hi2, hs2⟩ := pf_loop2 mc f1 T ⟨s1.filename, s1.types_exts, s1.trailing_suffixes, s1.match_case,
    s1.ignored, s1._brk1, s1._it2, .none, .none, .bool false, s1._tp3, s1.endswith, s1.ext, s1.name, s1.type_ext,
    s1.extpos⟩ rfl hf1 he1
  dsimp only at ht1 hi2 hs2
  rw [ht1] at hl2
  have hlen : ∀ o : Option String, ((o.map codes).getD []).length = (o.getD "").toList.length := by
    intro o; cases o <;> simp [codes]
  cases mc <;>
  · simp only [parse_filename, stringifyPath, truthy_bool, bind_ok, pure_eq_ok, asList_ofList, tag_true, tag_false,
      Bool.false_eq_true, ↓reduceIte] at hl1 ⊢
    simp only [hl1, bind_ok, ht1, asList_ofList, hl2]
    cases hfind : T.find? (tmatch _ f1) with
    | none =>
      rw [hfind] at hs2
      obtain ⟨h1, h2, h3, h4⟩ := hs2
      refine ⟨(PyS.splitext f1).1, (PyS.splitext f1).2, ig1, Option.none, ?_, ?_⟩
      · simp [h1, h2, hi2, hi1, h4, osPathSplitext, pfResult, optV]
      · have := splitext_str f1
        simp only [← this]; rfl
    | some t =>
      rw [hfind] at hs2
      obtain ⟨h1, h2, h3, h4⟩ := hs2
      refine ⟨PyS.sliceTo f1 (-(((t.2.getD "").toList.length : Nat) : Int)),
        PyS.sliceFrom f1 (-(((t.2.getD "").toList.length : Nat) : Int)), ig1, Option.some t.1, ?_, ?_⟩
      · simp only [h1, h2, h3, h4, hi2, hi1, truthy_bool, bind_ok, Bool.not_true, Bool.false_eq_true, ↓reduceIte, pfResult, optV]
      · have hc := cut_codes f1 (t.2.getD "").toList.length
        simp only [hlen, ← hc]; rfl

end Nb.C12.GenT
