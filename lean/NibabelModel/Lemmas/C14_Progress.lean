import NibabelModel.Lemmas.C14
/-! Lemmas/C14_Progress — deadlock freedom and completion under fair schedules (core tactics only). -/
namespace Nb.C14

theorem good_mono (L Q : Nat) (p : List Action) : ∀ d, good L Q d false p = true → good L Q d true p = true := by
  induction p with
  | nil => intro d h; simpa [good] using h
  | cons a r ih =>
    intro d h
    cases a <;> simp [good] at h ⊢
    case acquire l => exact ⟨h.1, ih _ h.2⟩
    case release l => exact ⟨h.1, ih _ h.2⟩
    case seek o => exact ih _ h
    case seekEnd => exact ih _ h
    case tell => exact ih _ h
    case read n => exact ih _ h
    case probe q k => exact ⟨h.1, ih _ h.2⟩
    case opn => exact ih _ h
    case setSlot q => exact h

theorem good_mono' (L Q : Nat) (p : List Action) (d : Nat) (ss : Bool) (h : good L Q d ss p = true) :
    good L Q d true p = true := by
  cases ss
  · exact good_mono L Q p d h
  · exact h

theorem good_drop_slotOnly (L Q : Nat) (k : Nat) : ∀ (p : List Action) d ss,
    (p.take k).all Action.slotOnly = true → good L Q d ss p = true → good L Q d true (p.drop k) = true := by
  induction k with
  | zero => intro p d ss _ h; simpa using good_mono' L Q p d ss h
  | succ k ih =>
    intro p d ss hs h
    cases p with
    | nil => simpa using good_mono' L Q [] d ss h
    | cons a r =>
      simp only [List.take_succ_cons, List.all_cons, Bool.and_eq_true] at hs
      simp only [List.drop_succ_cons]
      obtain ⟨ha, hr⟩ := hs
      cases a <;> simp [Action.slotOnly] at ha
      · exact ih r d ss hr (by simpa [good] using h)
      · exact ih r d true hr (by
          simp only [good, Bool.and_eq_true] at h
          exact h.2)

/-- progress invariant: every thread's remaining program is `good` relative to the current state of lock
    `L` and of the opener slot -/
structure PInv (L Q : Nat) (s : State) : Prop where
  good : ∀ u, Nb.C14.good L Q (dep L s u) (s.slot Q).isSome (s.threads u).prog = true
  cnt  : ∀ u, s.owner L = some u → 1 ≤ s.count L

/-- a step of `v` "progresses" when it consumes at least one action of `v` -/
def Progresses (file : List Byte) (s : State) (v : Tid) : Prop :=
  ((step file s v).1.threads v).prog.length < (s.threads v).prog.length

theorem pinv_of (L Q : Nat) (s s' : State) (u : Tid) (h : PInv L Q s)
    (hth : ∀ v, v ≠ u → s'.threads v = s.threads v)
    (hown : ∀ v, v ≠ u → (s'.owner L = some v ↔ s.owner L = some v))
    (hcnt : ∀ v, v ≠ u → s.owner L = some v → s'.count L = s.count L)
    (hslot : (s.slot Q).isSome = true → (s'.slot Q).isSome = true)
    (hu : Nb.C14.good L Q (dep L s' u) (s'.slot Q).isSome (s'.threads u).prog = true)
    (hc : ∀ v, s'.owner L = some v → 1 ≤ s'.count L) : PInv L Q s' := by
  refine ⟨?_, hc⟩
  intro v
  by_cases hv : v = u
  · subst hv; exact hu
  · have h1 := h.good v
    rw [hth v hv]
    have e1 : dep L s' v = dep L s v := by
      unfold dep
      by_cases ho : s.owner L = some v
      · rw [if_pos ho, if_pos ((hown v hv).2 ho), hcnt v hv ho]
      · rw [if_neg ho, if_neg (fun x => ho ((hown v hv).1 x))]
    rw [e1]
    cases hs : (s.slot Q).isSome
    · rw [hs] at h1
      cases (s'.slot Q).isSome
      · exact h1
      · exact good_mono L Q _ _ h1
    · rw [hs] at h1; rw [hslot hs]; exact h1


theorem pinv_step (L Q : Nat) (file : List Byte) (s : State) (h : PInv L Q s) (u : Tid) :
    PInv L Q (step file s u).1 := by
  have hu := h.good u
  have hc := h.cnt
  cases hp : (s.threads u).prog with
  | nil => simp only [step, hp]; exact h
  | cons a rest =>
    rw [hp] at hu
    cases a
    case seek o =>
      simp only [step, hp]
      simp only [Nb.C14.good] at hu
      apply pinv_of L Q s _ u h
      · intro v hv; simp [upd, hv]
      · intro v hv; simp
      · intro v hv ho; simp
      · intro hs; exact hs
      · simp [dep] at hu ⊢; exact hu
      · exact hc
    case seekEnd =>
      simp only [step, hp]
      simp only [Nb.C14.good] at hu
      apply pinv_of L Q s _ u h
      · intro v hv; simp [upd, hv]
      · intro v hv; simp
      · intro v hv ho; simp
      · intro hs; exact hs
      · simp [dep] at hu ⊢; exact hu
      · exact hc
    case tell =>
      simp only [step, hp]
      simp only [Nb.C14.good] at hu
      apply pinv_of L Q s _ u h
      · intro v hv; simp [upd, hv]
      · intro v hv; simp
      · intro v hv ho; simp
      · intro hs; exact hs
      · simp [dep] at hu ⊢; exact hu
      · exact hc
    case read n =>
      simp only [step, hp]
      simp only [Nb.C14.good] at hu
      apply pinv_of L Q s _ u h
      · intro v hv; simp [upd, hv]
      · intro v hv; simp
      · intro v hv ho; simp
      · intro hs; exact hs
      · simp [dep] at hu ⊢; exact hu
      · exact hc
    case opn =>
      simp only [step, hp]
      simp only [Nb.C14.good] at hu
      apply pinv_of L Q s _ u h
      · intro v hv; simp [upd, hv]
      · intro v hv; simp
      · intro v hv ho; simp
      · intro hs; exact hs
      · simp [dep] at hu ⊢; exact hu
      · exact hc
    case setSlot q =>
      simp only [step, hp]
      simp only [Nb.C14.good] at hu
      apply pinv_of L Q s _ u h
      · intro v hv; simp [upd, hv]
      · intro v hv; simp
      · intro v hv ho; simp
      · intro hs; simp only [upd]; split
        · rfl
        · exact hs
      · simp only [Bool.and_eq_true, beq_iff_eq] at hu
        obtain ⟨hq, hu⟩ := hu
        subst hq
        simp [dep] at hu ⊢; exact hu
      · exact hc
    case getSlot q =>
      simp only [step, hp]
      simp only [Nb.C14.good, Bool.and_eq_true, beq_iff_eq] at hu
      obtain ⟨⟨hq, hss⟩, hu⟩ := hu
      subst hq
      cases hs : s.slot q with
      | none => exact h
      | some hd =>
        apply pinv_of L q s _ u h
        · intro v hv; simp [upd, hv]
        · intro v hv; simp
        · intro v hv ho; simp
        · intro hs'; exact hs'
        · simp [dep, hs] at hu ⊢; exact hu
        · exact hc
    case probe q k =>
      simp only [step, hp]
      simp only [Nb.C14.good, Bool.and_eq_true, beq_iff_eq] at hu
      obtain ⟨⟨hq, hso⟩, hu⟩ := hu
      subst hq
      cases hs : s.slot q with
      | none =>
        apply pinv_of L q s _ u h
        · intro v hv; simp [upd, hv]
        · intro v hv; simp
        · intro v hv ho; simp
        · intro hs'; exact hs'
        · simp [dep, hs] at hu ⊢; exact hu
        · exact hc
      | some hd =>
        apply pinv_of L q s _ u h
        · intro v hv; simp [upd, hv]
        · intro v hv; simp
        · intro v hv ho; simp
        · intro hs'; exact hs'
        · simp [dep, hs] at hu ⊢; exact good_drop_slotOnly L q k rest _ _ hso hu
        · exact hc
    case acquire l =>
      simp only [step, hp]
      simp only [Nb.C14.good, Bool.and_eq_true, beq_iff_eq] at hu
      obtain ⟨hl, hu⟩ := hu
      subst hl
      cases ho : s.owner l with
      | none =>
        apply pinv_of l Q s _ u h
        · intro v hv; simp [upd, hv]
        · intro v hv; simp [upd, ho]; exact fun e => hv e.symm
        · intro v hv ho'; rw [ho] at ho'; cases ho'
        · intro hs; exact hs
        · simp [dep, ho] at hu ⊢; exact hu
        · intro v _; simp
      | some w =>
        by_cases hw : w = u
        · subst hw
          simp only [↓reduceIte]
          apply pinv_of l Q s _ w h
          · intro v hv; simp [upd, hv]
          · intro v hv; simp
          · intro v hv ho'; rw [ho] at ho'; exact absurd (Option.some.inj ho').symm hv
          · intro hs; exact hs
          · simp [dep, ho] at hu ⊢; exact hu
          · intro v _; simp
        · simp only [if_neg hw]; exact h
    case release l =>
      simp only [step, hp]
      simp only [Nb.C14.good, Bool.and_eq_true, beq_iff_eq, bne_iff_ne, ne_eq] at hu
      obtain ⟨⟨hl, hd⟩, hu⟩ := hu
      subst hl
      have ho : s.owner l = some u := by
        by_cases ho : s.owner l = some u
        · exact ho
        · simp [dep, ho] at hd
      simp only [if_pos ho]
      by_cases hc1 : s.count l ≤ 1
      · simp only [if_pos hc1]
        have h1 : s.count l = 1 := by have := hc u ho; omega
        apply pinv_of l Q s _ u h
        · intro v hv; simp [upd, hv]
        · intro v hv; simp [upd, ho]; exact fun e => hv e.symm
        · intro v hv ho'; rw [ho] at ho'; exact absurd (Option.some.inj ho').symm hv
        · intro hs; exact hs
        · simp [dep, ho, h1] at hu ⊢; exact hu
        · intro v hv; simp at hv
      · simp only [if_neg hc1]
        apply pinv_of l Q s _ u h
        · intro v hv; simp [upd, hv]
        · intro v hv; simp
        · intro v hv ho'; rw [ho] at ho'; exact absurd (Option.some.inj ho').symm hv
        · intro hs; exact hs
        · simp [dep, ho] at hu ⊢; exact hu
        · intro v hv; simp; omega


/-- a step either consumes at least one action of the stepping thread or leaves the state untouched
    (blocked on a lock, illegal release, `_opener` missing, finished) -/
theorem step_same_or_progress (file : List Byte) (s : State) (v : Tid) :
    (step file s v).1 = s ∨ Progresses file s v := by
  unfold Progresses
  cases hp : (s.threads v).prog with
  | nil => left; simp only [step, hp]
  | cons a rest =>
    cases a
    case acquire l =>
      simp only [step, hp]
      cases ho : s.owner l with
      | none => right; simp [upd]
      | some w => by_cases hw : w = v <;> simp [hw, upd]
    case release l =>
      simp only [step, hp]
      by_cases ho : s.owner l = some v
      · right; by_cases hc1 : s.count l ≤ 1 <;> simp [ho, hc1, upd]
      · left; simp [ho]
    case probe q k =>
      right; simp only [step, hp]
      cases hs : s.slot q <;> simp [upd]
      omega
    case getSlot q =>
      simp only [step, hp]
      cases hs : s.slot q <;> simp [upd]
    all_goals (right; simp [step, hp, upd])

theorem can_progress (file : List Byte) (s : State) (v : Tid) (a : Action) (rest : List Action)
    (hp : (s.threads v).prog = a :: rest)
    (hacq : ∀ l, a = .acquire l → s.owner l = none ∨ s.owner l = some v)
    (hrel : ∀ l, a = .release l → s.owner l = some v)
    (hget : ∀ q, a = .getSlot q → (s.slot q).isSome = true) : Progresses file s v := by
  unfold Progresses
  cases a
  case acquire l =>
    simp only [step, hp]
    rcases hacq l rfl with ho | ho <;> simp [ho, upd]
  case release l =>
    simp only [step, hp]
    have ho := hrel l rfl
    by_cases hc1 : s.count l ≤ 1 <;> simp [ho, hc1, upd]
  case probe q k =>
    simp only [step, hp]
    cases hs : s.slot q <;> simp [upd]
    omega
  case getSlot q =>
    simp only [step, hp]
    have := hget q rfl
    cases hs : s.slot q with
    | none => simp [hs] at this
    | some hd => simp [upd]
  all_goals simp [step, hp, upd]

/-- **deadlock freedom**: in a state satisfying the progress invariant, if some thread has not finished then
    some unfinished thread can take a step that consumes one of its actions -/
theorem progress (L Q : Nat) (file : List Byte) (s : State) (h : PInv L Q s) (u : Tid)
    (hu : (s.threads u).prog ≠ []) : ∃ v, (s.threads v).prog ≠ [] ∧ Progresses file s v := by
  cases ho : s.owner L with
  | none =>
    refine ⟨u, hu, ?_⟩
    have hg := h.good u
    cases hp : (s.threads u).prog with
    | nil => exact absurd hp hu
    | cons a rest =>
      rw [hp] at hg
      apply can_progress file s u a rest hp
      · intro l ha; subst ha
        simp only [Nb.C14.good, Bool.and_eq_true, beq_iff_eq] at hg
        left; rw [hg.1]; exact ho
      · intro l ha; subst ha
        simp [Nb.C14.good, dep, ho] at hg
      · intro q ha; subst ha
        simp only [Nb.C14.good, Bool.and_eq_true, beq_iff_eq] at hg
        rw [hg.1.1]; exact hg.1.2
  | some w =>
    have hg := h.good w
    have hc := h.cnt w ho
    cases hp : (s.threads w).prog with
    | nil => rw [hp] at hg; simp [Nb.C14.good, dep, ho] at hg; omega
    | cons a rest =>
      refine ⟨w, by simp [hp], ?_⟩
      rw [hp] at hg
      apply can_progress file s w a rest hp
      · intro l ha; subst ha
        simp only [Nb.C14.good, Bool.and_eq_true, beq_iff_eq] at hg
        right; rw [hg.1]; exact ho
      · intro l ha; subst ha
        simp only [Nb.C14.good, Bool.and_eq_true, beq_iff_eq] at hg
        rw [hg.1.1]; exact ho
      · intro q ha; subst ha
        simp only [Nb.C14.good, Bool.and_eq_true, beq_iff_eq] at hg
        rw [hg.1.1]; exact hg.1.2


/-- remaining work of threads `0 … n-1` -/
def work : Nat → State → Nat
  | 0, _ => 0
  | n + 1, s => work n s + (s.threads n).prog.length

/-- only threads `< n` have anything to do -/
def Bounded (n : Nat) (s : State) : Prop := ∀ t, n ≤ t → (s.threads t).prog = []

theorem step_len_le (file : List Byte) (s : State) (v t : Tid) :
    ((step file s v).1.threads t).prog.length ≤ (s.threads t).prog.length := by
  by_cases hvt : v = t
  · subst hvt
    rcases step_same_or_progress file s v with h | h
    · rw [h]; exact Nat.le_refl _
    · exact Nat.le_of_lt h
  · rw [step_threads_other file s v t hvt]; exact Nat.le_refl _

theorem bounded_step (file : List Byte) (n : Nat) (s : State) (h : Bounded n s) (v : Tid) :
    Bounded n (step file s v).1 := by
  intro t ht
  have := step_len_le file s v t
  rw [h t ht] at this
  exact List.eq_nil_of_length_eq_zero (Nat.le_zero.mp this)

theorem work_step_le (file : List Byte) (s : State) (v : Tid) : ∀ n, work n (step file s v).1 ≤ work n s := by
  intro n
  induction n with
  | zero => simp [work]
  | succ n ih => simp only [work]; have := step_len_le file s v n; omega

theorem work_step_lt (file : List Byte) (s : State) (v : Tid) (hp : Progresses file s v) :
    ∀ n, v < n → work n (step file s v).1 < work n s := by
  intro n
  induction n with
  | zero => intro h; exact absurd h (Nat.not_lt_zero _)
  | succ n ih =>
    intro hv
    simp only [work]
    by_cases hvn : v = n
    · subst hvn
      have := work_step_le file s v v
      unfold Progresses at hp
      omega
    · have := ih (Nat.lt_of_le_of_ne (Nat.le_of_lt_succ hv) hvn)
      have := step_len_le file s v n
      omega

theorem work_pos (n : Nat) (s : State) : 0 < work n s → ∃ u, u < n ∧ (s.threads u).prog ≠ [] := by
  induction n with
  | zero => intro h; simp [work] at h
  | succ n ih =>
    intro h
    simp only [work] at h
    by_cases hl : (s.threads n).prog = []
    · rw [hl] at h
      obtain ⟨u, hu, hp⟩ := ih (by simpa using h)
      exact ⟨u, by omega, hp⟩
    · exact ⟨n, by omega, hl⟩

theorem work_zero (n : Nat) (s : State) : work n s = 0 → ∀ t, t < n → (s.threads t).prog = [] := by
  induction n with
  | zero => intro _ t ht; omega
  | succ n ih =>
    intro h t ht
    simp only [work] at h
    by_cases htn : t = n
    · subst htn; exact List.eq_nil_of_length_eq_zero (by omega)
    · exact ih (by omega) t (by omega)

theorem runS_append (file : List Byte) (a b : List Tid) : ∀ s, runS file s (a ++ b) = runS file (runS file s a) b := by
  induction a with
  | nil => intro s; rfl
  | cons u r ih => intro s; simp only [List.cons_append, runS]; exact ih _

theorem work_runS_le (file : List Byte) (n : Nat) (b : List Tid) : ∀ s, work n (runS file s b) ≤ work n s := by
  induction b with
  | nil => intro s; exact Nat.le_refl _
  | cons u r ih => intro s; simp only [runS]; exact Nat.le_trans (ih _) (work_step_le file s u n)

theorem pinv_runS (L Q : Nat) (file : List Byte) (b : List Tid) : ∀ s, PInv L Q s → PInv L Q (runS file s b) := by
  induction b with
  | nil => intro s h; exact h
  | cons u r ih => intro s h; exact ih _ (pinv_step L Q file s h u)

theorem bounded_runS (file : List Byte) (n : Nat) (b : List Tid) : ∀ s, Bounded n s → Bounded n (runS file s b) := by
  induction b with
  | nil => intro s h; exact h
  | cons u r ih => intro s h; exact ih _ (bounded_step file n s h u)

/-- if a block of steps does not reduce the remaining work, none of its steps changed the state -/
theorem block_idle (file : List Byte) (n : Nat) (b : List Tid) :
    ∀ s, Bounded n s → work n (runS file s b) = work n s → ∀ v ∈ b, (step file s v).1 = s := by
  induction b with
  | nil => intro s _ _ v hv; cases hv
  | cons u r ih =>
    intro s hb he v hv
    simp only [runS] at he
    have hle := work_runS_le file n r (step file s u).1
    have hsame : (step file s u).1 = s := by
      rcases step_same_or_progress file s u with h | h
      · exact h
      · exfalso
        by_cases hun : u < n
        · have := work_step_lt file s u h n hun; omega
        · unfold Progresses at h
          rw [hb u (Nat.le_of_not_lt hun)] at h
          simp at h
    rw [hsame] at he
    cases hv with
    | head => exact hsame
    | tail _ hv => exact ih s hb he v hv

/-- a block in which every thread `< n` is scheduled at least once reduces the remaining work -/
theorem block_decreases (L Q : Nat) (file : List Byte) (n : Nat) (s : State) (h : PInv L Q s) (hb : Bounded n s)
    (b : List Tid) (hfair : ∀ t, t < n → t ∈ b) (hw : 0 < work n s) :
    work n (runS file s b) < work n s := by
  have hle := work_runS_le file n b s
  by_cases he : work n (runS file s b) = work n s
  · exfalso
    obtain ⟨u, _, hu⟩ := work_pos n s hw
    obtain ⟨v, hv, hp⟩ := progress L Q file s h u hu
    have hvn : v < n := by
      by_cases hvn : v < n
      · exact hvn
      · exact absurd (hb v (Nat.le_of_not_lt hvn)) hv
    have := block_idle file n b s hb he v (hfair v hvn)
    unfold Progresses at hp
    rw [this] at hp
    exact Nat.lt_irrefl _ hp
  · omega

/-- every fair schedule of at least `work` blocks finishes all threads -/
theorem fair_completes (L Q : Nat) (file : List Byte) (n : Nat) (blocks : List (List Tid)) :
    ∀ s, PInv L Q s → Bounded n s → (∀ b ∈ blocks, ∀ t, t < n → t ∈ b) → work n s ≤ blocks.length →
      work n (runS file s blocks.flatten) = 0 := by
  induction blocks with
  | nil => intro s _ _ _ hw; simpa [runS] using hw
  | cons b bs ih =>
    intro s h hb hfair hw
    simp only [List.flatten_cons, runS_append]
    apply ih _ (pinv_runS L Q file b s h) (bounded_runS file n b s hb) (fun b' hb' => hfair b' (by simp [hb']))
    by_cases h0 : work n s = 0
    · have := work_runS_le file n b s; omega
    · have := block_decreases L Q file n s h hb b (hfair b (by simp)) (by omega)
      simp only [List.length_cons] at hw
      omega

end Nb.C14
