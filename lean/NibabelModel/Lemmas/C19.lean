import NibabelModel.Lemmas.C16_Digits
import NibabelModel.Model.C19
/-! Lemmas/C19 — helper lemmas for the C19 property theorems (core Lean only). -/
namespace Nb.C19
open Nb.Gen.C19

/-! ### 32-bit codec -/

theorem rdU32_enc (u : Nat) (r : Bytes) (h : u < 4294967296) : rdU32 (encU32 u ++ r) = .ok (u, r) := by
  simp only [encU32, rdU32, decU32, List.cons_append, List.nil_append]
  congr 2
  omega

theorem toU32_lt (v : Int) : toU32 v < 4294967296 := by
  unfold toU32; omega

theorem ofU32_toU32 (v : Int) (h1 : -2147483648 ≤ v) (h2 : v < 2147483648) : ofU32 (toU32 v) = v := by
  unfold ofU32 toU32
  split <;> omega

theorem toU32_ofNat (n : Nat) (h : n < 4294967296) : toU32 (n : Int) = n := by
  unfold toU32; omega

theorem inI32_iff (v : Int) : inI32 v = true ↔ (-2147483648 ≤ v ∧ v < 2147483648) := by
  simp [inI32]

theorem rdI32_enc (v : Int) (r : Bytes) (h1 : -2147483648 ≤ v) (h2 : v < 2147483648) :
    rdI32 (encI32 v ++ r) = .ok (v, r) := by
  simp only [rdI32, encI32, rdU32_enc _ _ (toU32_lt v), ofU32_toU32 v h1 h2]

theorem rdI32_encU32 (n : Nat) (r : Bytes) (h : n < 2147483648) :
    rdI32 (encU32 n ++ r) = .ok ((n : Int), r) := by
  have : n < 4294967296 := by omega
  simp only [rdI32, rdU32_enc _ _ this, ofU32]
  split
  · rfl
  · omega

theorem rdU32s_enc (xs : List Nat) (r : Bytes) (h : ∀ x ∈ xs, x < 4294967296) :
    rdU32s xs.length (encU32s xs ++ r) = .ok (xs, r) := by
  induction xs with
  | nil => rfl
  | cons x xs ih =>
    have hx : x < 4294967296 := h x (List.mem_cons_self ..)
    have hxs : ∀ y ∈ xs, y < 4294967296 := fun y hy => h y (List.mem_cons_of_mem _ hy)
    simp only [List.length_cons, rdU32s, encU32s, List.append_assoc, rdU32_enc _ _ hx, ih hxs]

theorem rdI32s_enc (xs : List Int) (r : Bytes) (h : ∀ x ∈ xs, -2147483648 ≤ x ∧ x < 2147483648) :
    rdI32s xs.length (encI32s xs ++ r) = .ok (xs, r) := by
  induction xs with
  | nil => rfl
  | cons x xs ih =>
    have hx := h x (List.mem_cons_self ..)
    have hxs : ∀ y ∈ xs, -2147483648 ≤ y ∧ y < 2147483648 := fun y hy => h y (List.mem_cons_of_mem _ hy)
    simp only [List.length_cons, rdI32s, encI32s, List.append_assoc, rdI32_enc _ _ hx.1 hx.2, ih hxs]


/-! ### lines -/

theorem readLine_append (s r : Bytes) (h : 10 ∉ s) : readLine (s ++ 10 :: r) = (s ++ [10], r) := by
  induction s with
  | nil => simp [readLine]
  | cons a t ih =>
    have ha : a ≠ 10 := fun e => h (by simp [e])
    have ht : 10 ∉ t := fun m => h (List.mem_cons_of_mem _ m)
    simp [readLine, ha, ih ht]

theorem rstripNl_append (s : Bytes) (h : 10 ∉ s) : rstripNl (s ++ [10]) = s := by
  unfold rstripNl
  rw [List.reverse_append]
  simp only [List.reverse_cons, List.reverse_nil, List.nil_append, List.cons_append, List.dropWhile_cons,
    beq_self_eq_true, if_true]
  cases hs : s.reverse with
  | nil => 
    have : s = [] := by simpa using hs
    simp [this]
  | cons a t =>
    have ha : a ∈ s := by
      have : a ∈ s.reverse := by rw [hs]; exact List.mem_cons_self ..
      simpa using this
    have hne : (a == 10) = false := by
      simp only [beq_eq_false_iff_ne, ne_eq]
      intro e; exact h (e ▸ ha)
    simp only [List.dropWhile_cons, hne, Bool.false_eq_true, if_false]
    rw [← hs, List.reverse_reverse]


/-! ### geometry -/

theorem readGeometry_body (rm : Bool) (stamp : Bytes) (nv nf : Nat) (coords : List Nat) (faces : List Int) (f : Bytes)
    (hs : 10 ∉ stamp) (hc : coords.length = 3 * nv) (hf : faces.length = 3 * nf)
    (hnv : 3 * nv < 2147483648) (hnf : 3 * nf < 2147483648)
    (hcb : ∀ x ∈ coords, x < 4294967296) (hfb : ∀ x ∈ faces, -2147483648 ≤ x ∧ x < 2147483648) :
    readGeometry rm (geomMagicBytes ++ (stamp ++ (10 :: 10 :: (encU32 nv ++ (encU32 nf ++
      (encU32s coords ++ (encI32s faces ++ f)))))))
    = if rm then
        (match rdVolInfo f with
         | .ok vol => .ok ⟨stamp, nv, nf, coords, faces, vol⟩
         | .error e => .error e)
      else .ok ⟨stamp, nv, nf, coords, faces, none⟩ := by
  have hnv' : nv < 2147483648 := by omega
  have hnf' : nf < 2147483648 := by omega
  have hl2 : ∀ r : Bytes, readLine (10 :: r) = ([10], r) := by intro r; simp [readLine]
  have g1 : ¬ ((nv : Int) < 0 ∨ (nf : Int) < 0 ∨ 3 * (nv : Int) ≥ 2147483648 ∨ 3 * (nf : Int) ≥ 2147483648) := by omega
  have hcr := rdU32s_enc coords (encI32s faces ++ f) hcb
  rw [hc] at hcr
  have hfr := rdI32s_enc faces f hfb
  rw [hf] at hfr
  simp only [readGeometry, geomMagicBytes, List.cons_append, List.nil_append, rdMagic3, quadMagic, newQuadMagic,
    triangleMagic, readLine_append stamp _ hs, hl2, rdI32_encU32 _ _ hnv', rdI32_encU32 _ _ hnf', g1,
    Int.toNat_natCast, hcr, hfr, rstripNl_append stamp hs]
  cases rm
  · rfl
  · simp only [if_true]
    cases rdVolInfo f <;> rfl

/-! ### volume-info text -/

theorem splitFirst_append (c : Nat) (s r : Bytes) (h : c ∉ s) : splitFirst c (s ++ c :: r) = (s, some r) := by
  induction s with
  | nil => simp [splitFirst]
  | cons a t ih =>
    have ha : a ≠ c := fun e => h (by simp [e])
    have ht : c ∉ t := fun m => h (List.mem_cons_of_mem _ m)
    simp [splitFirst, ha, ih ht]

theorem strip_cons_sp (l : Bytes) : strip (32 :: l) = strip l := by
  simp [strip, isWs]

theorem strip_append_nl (l : Bytes) : strip (l ++ [10]) = strip l := by
  unfold strip
  rw [List.dropWhile_append]
  split
  · rename_i h
    have : List.dropWhile isWs l = [] := by simpa using h
    simp [this, isWs]
  · simp [List.reverse_append, isWs]

/-- a value that `str.strip()` leaves alone, without `=` and newline -/
def StrOk (s : Bytes) : Prop := strip s = s ∧ 61 ∉ s ∧ 10 ∉ s

/-- a value token: non-empty, no whitespace, no `=` -/
def TokOk (t : Bytes) : Prop := t ≠ [] ∧ ∀ b ∈ t, isWs b = false ∧ b ≠ 61

instance (s : Bytes) : Decidable (StrOk s) := by unfold StrOk; infer_instance
instance (t : Bytes) : Decidable (TokOk t) := by unfold TokOk; infer_instance

theorem wordsGo_tok (cur tok r : Bytes) (h : ∀ b ∈ tok, isWs b = false) :
    wordsGo cur (tok ++ r) = wordsGo (cur ++ tok) r := by
  induction tok generalizing cur with
  | nil => simp
  | cons a t ih =>
    have ha : isWs a = false := h a (List.mem_cons_self ..)
    have ht : ∀ b ∈ t, isWs b = false := fun b hb => h b (List.mem_cons_of_mem _ hb)
    simp only [List.cons_append, wordsGo, ha, Bool.false_eq_true, if_false]
    rw [ih _ ht]
    simp

theorem words_three (a b c : Bytes) (ha : TokOk a) (hb : TokOk b) (hc : TokOk c) :
    words (32 :: (a ++ 32 :: (b ++ 32 :: (c ++ [10])))) = [a, b, c] := by
  have wa : ∀ x ∈ a, isWs x = false := fun x hx => (ha.2 x hx).1
  have wb : ∀ x ∈ b, isWs x = false := fun x hx => (hb.2 x hx).1
  have wc : ∀ x ∈ c, isWs x = false := fun x hx => (hc.2 x hx).1
  have h32 : isWs 32 = true := by decide
  have h10 : isWs 10 = true := by decide
  unfold words
  simp only [wordsGo, h32, if_true]
  rw [wordsGo_tok [] a _ wa]
  simp only [List.nil_append, wordsGo, h32, if_true, ha.1, if_false]
  rw [wordsGo_tok [] b _ wb]
  simp only [List.nil_append, wordsGo, h32, if_true, hb.1, if_false]
  rw [wordsGo_tok [] c _ wc]
  simp only [List.nil_append, wordsGo, h10, if_true, hc.1, if_false]

theorem readLine_kvLine (k v rest : Bytes) (hk : 10 ∉ k) (hv : 10 ∉ v) :
    readLine (kvLine k v ++ rest) = (kvLine k v, rest) := by
  have e : kvLine k v ++ rest = (k ++ (32 :: 61 :: 32 :: v)) ++ 10 :: rest := by simp [kvLine]
  have e2 : kvLine k v = (k ++ (32 :: 61 :: 32 :: v)) ++ [10] := by simp [kvLine]
  rw [e, e2]
  apply readLine_append
  simp [hk, hv]

theorem parseKV_line (key k v : Bytes) (hk1 : 61 ∉ k) (hk2 : strip (k ++ [32]) = key) (hv : 61 ∉ v) :
    parseKV key (kvLine k v) = .ok (32 :: (v ++ [10])) := by
  have e : kvLine k v = (k ++ [32]) ++ 61 :: (32 :: (v ++ [10])) := by simp [kvLine]
  have hk : 61 ∉ k ++ [32] := by simp [hk1]
  have hc : (32 :: (v ++ [10])).contains 61 = false := by
    simp [hv]
  simp only [parseKV, e, splitFirst_append 61 _ _ hk, hc, hk2, Bool.false_eq_true, if_false, if_true]

def Vec3Ok (l : List Bytes) : Prop := ∃ a b c, l = [a, b, c] ∧ TokOk a ∧ TokOk b ∧ TokOk c

/-- the volume-info dictionaries the property speaks about: a known head code, two strings that
    `strip()` leaves alone and that hold neither `=` nor a newline, six 3-vectors of number tokens -/
structure VolOk (vi : VolInfo) : Prop where
  head : vi.head = [20] ∨ vi.head = [2, 0, 20]
  valid : StrOk vi.valid
  filename : StrOk vi.filename
  volume : Vec3Ok vi.volume
  voxelsize : Vec3Ok vi.voxelsize
  xras : Vec3Ok vi.xras
  yras : Vec3Ok vi.yras
  zras : Vec3Ok vi.zras
  cras : Vec3Ok vi.cras

def j3 (a b c : Bytes) : Bytes := a ++ (32 :: (b ++ (32 :: c)))

theorem tok_no (t : Bytes) (h : TokOk t) : 61 ∉ t ∧ 10 ∉ t := by
  constructor
  · intro m; exact (h.2 61 m).2 rfl
  · intro m; have := (h.2 10 m).1; revert this; decide

theorem j3_no (a b c : Bytes) (ha : TokOk a) (hb : TokOk b) (hc : TokOk c) :
    61 ∉ j3 a b c ∧ 10 ∉ j3 a b c := by
  have := tok_no a ha; have := tok_no b hb; have := tok_no c hc
  simp [j3, *]

theorem words_j3 (a b c : Bytes) (ha : TokOk a) (hb : TokOk b) (hc : TokOk c) :
    words (32 :: (j3 a b c ++ [10])) = [a, b, c] := by
  have := words_three a b c ha hb hc
  simpa [j3] using this

theorem strip_val (v : Bytes) (h : StrOk v) : strip (32 :: (v ++ [10])) = v := by
  rw [strip_cons_sp, strip_append_nl, h.1]

theorem rdVolHead_enc (h : List Int) (r : Bytes) (hh : h = [20] ∨ h = [2, 0, 20]) :
    rdVolHead (encI32s h ++ r) = (some h, r) := by
  rcases hh with rfl | rfl
  · simp only [encI32s, List.append_nil, rdVolHead, rdI32_enc 20 r (by omega) (by omega), if_true]
  · have e : encI32s [2, 0, 20] ++ r = encI32 2 ++ (encI32 0 ++ (encI32 20 ++ r)) := by
      simp [encI32s]
    rw [e]
    simp only [rdVolHead, rdI32_enc 2 _ (by omega) (by omega), rdI32_enc 0 _ (by omega) (by omega),
      rdI32_enc 20 _ (by omega) (by omega)]
    simp

theorem rdVolInfo_serialize (vi : VolInfo) (ok : VolOk vi) :
    ∃ f, serializeVolInfo vi = .ok f ∧ rdVolInfo f = .ok (some vi) := by
  obtain ⟨head, valid, filename, volume, voxelsize, xras, yras, zras, cras⟩ := vi
  obtain ⟨hh, hv, hf, ⟨a1, b1, c1, e1, ta1, tb1, tc1⟩, ⟨a2, b2, c2, e2, ta2, tb2, tc2⟩,
    ⟨a3, b3, c3, e3, ta3, tb3, tc3⟩, ⟨a4, b4, c4, e4, ta4, tb4, tc4⟩, ⟨a5, b5, c5, e5, ta5, tb5, tc5⟩,
    ⟨a6, b6, c6, e6, ta6, tb6, tc6⟩⟩ := ok
  simp only at hh hv hf e1 e2 e3 e4 e5 e6
  subst e1 e2 e3 e4 e5 e6
  have hall : head.all inI32 = true := by rcases hh with rfl | rfl <;> decide
  refine ⟨encI32s head ++ (kvLine kValid valid ++ (kvLine kFilename filename ++ (kvLine kVolume (j3 a1 b1 c1) ++
        (kvLine (padKey kVoxelsize) (j3 a2 b2 c2) ++ (kvLine (padKey kXras) (j3 a3 b3 c3) ++
        (kvLine (padKey kYras) (j3 a4 b4 c4) ++ (kvLine (padKey kZras) (j3 a5 b5 c5) ++
        kvLine (padKey kCras) (j3 a6 b6 c6)))))))), ?_, ?_⟩
  · simp only [serializeVolInfo, join3, hall, if_true, j3]
  · have n1 := j3_no a1 b1 c1 ta1 tb1 tc1
    have n2 := j3_no a2 b2 c2 ta2 tb2 tc2
    have n3 := j3_no a3 b3 c3 ta3 tb3 tc3
    have n4 := j3_no a4 b4 c4 ta4 tb4 tc4
    have n5 := j3_no a5 b5 c5 ta5 tb5 tc5
    have n6 := j3_no a6 b6 c6 ta6 tb6 tc6
    have last : ∀ k v, readLine (kvLine k v) = readLine (kvLine k v ++ []) := by intro k v; rw [List.append_nil]
    simp only [rdVolInfo, rdVolHead_enc head _ hh]
    rw [readLine_kvLine kValid valid _ (by decide) hv.2.2]
    simp only []
    rw [readLine_kvLine kFilename filename _ (by decide) hf.2.2]
    simp only []
    rw [readLine_kvLine kVolume (j3 a1 b1 c1) _ (by decide) n1.2]
    simp only []
    rw [readLine_kvLine (padKey kVoxelsize) (j3 a2 b2 c2) _ (by decide) n2.2]
    simp only []
    rw [readLine_kvLine (padKey kXras) (j3 a3 b3 c3) _ (by decide) n3.2]
    simp only []
    rw [readLine_kvLine (padKey kYras) (j3 a4 b4 c4) _ (by decide) n4.2]
    simp only []
    rw [readLine_kvLine (padKey kZras) (j3 a5 b5 c5) _ (by decide) n5.2]
    simp only []
    rw [last, readLine_kvLine (padKey kCras) (j3 a6 b6 c6) _ (by decide) n6.2]
    simp only [parseKV_line kValid kValid valid (by decide) (by decide) hv.2.1,
      parseKV_line kFilename kFilename filename (by decide) (by decide) hf.2.1,
      parseKV_line kVolume kVolume _ (by decide) (by decide) n1.1,
      parseKV_line kVoxelsize (padKey kVoxelsize) _ (by decide) (by decide) n2.1,
      parseKV_line kXras (padKey kXras) _ (by decide) (by decide) n3.1,
      parseKV_line kYras (padKey kYras) _ (by decide) (by decide) n4.1,
      parseKV_line kZras (padKey kZras) _ (by decide) (by decide) n5.1,
      parseKV_line kCras (padKey kCras) _ (by decide) (by decide) n6.1,
      strip_val _ hv, strip_val _ hf, words_j3, ta1, tb1, tc1, ta2, tb2, tc2, ta3, tb3, tc3, ta4, tb4, tc4,
      ta5, tb5, tc5, ta6, tb6, tc6]

/-! ### integer tokens -/

theorem decRepr_head_ne_minus (n : Nat) : ∀ r, Nb.C16.decRepr n ≠ 45 :: r := by
  intro r h
  have := Nb.C16.decRepr_all_digit n 45 (by rw [h]; exact List.mem_cons_self ..)
  simp [Nb.C16.isDigit] at this

theorem intParse_intRepr (v : Int) : intParse (intRepr v) = .ok v := by
  unfold intRepr
  split
  · simp only [intParse, Nb.C16.parseDec_decRepr]
    congr 1; omega
  · have hne := decRepr_head_ne_minus v.natAbs
    unfold intParse
    split
    · rename_i r heq; exact absurd heq (hne r)
    · simp only [Nb.C16.parseDec_decRepr]
      congr 1; omega

theorem intsParse_map (vs : List Int) : intsParse (vs.map intRepr) = .ok vs := by
  induction vs with
  | nil => rfl
  | cons v t ih => simp only [List.map_cons, intsParse, intParse_intRepr, ih]

theorem intRepr_tokOk (v : Int) : TokOk (intRepr v) := by
  have hd : ∀ c ∈ Nb.C16.decRepr v.natAbs, isWs c = false ∧ c ≠ 61 := by
    intro c hc
    have := Nb.C16.decRepr_all_digit _ c hc
    simp only [Nb.C16.isDigit, Bool.and_eq_true, decide_eq_true_eq] at this
    refine ⟨?_, by omega⟩
    simp only [isWs, Bool.or_eq_false_iff, Bool.and_eq_false_iff, beq_eq_false_iff_ne, ne_eq, decide_eq_false_iff_not]
    omega
  unfold intRepr
  split
  · refine ⟨by simp, ?_⟩
    intro b hb
    rcases List.mem_cons.1 hb with rfl | hb
    · decide
    · exact hd b hb
  · exact ⟨Nb.C16.decRepr_ne_nil _, hd⟩

end Nb.C19
