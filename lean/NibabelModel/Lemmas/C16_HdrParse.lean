import NibabelModel.Model.C16_Ext
import NibabelModel.Lemmas.C16_Digits
import NibabelModel.Lemmas.C16_File
namespace Nb.C16

/-! Lemmas/C16_HdrParse — the TCK header parser reads back what `_write_header` wrote (core Lean only). -/

def fileKey : List Nat := [102, 105, 108, 101]

theorem splitLines_line (l : List Nat) (hl : ∀ c ∈ l, c ≠ 10) (rest : List Nat) :
    splitLines (l ++ 10 :: rest) = l :: splitLines rest := by
  induction l with
  | nil => simp [splitLines]
  | cons c cs ih =>
    have hc : c ≠ 10 := hl c (by simp)
    have := ih (fun x hx => hl x (by simp [hx]))
    simp only [List.cons_append, splitLines, this]
    simp [hc]

theorem splitLines_joinNl (lines : List (List Nat)) (hne : lines ≠ []) (hl : ∀ l ∈ lines, ∀ c ∈ l, c ≠ 10)
    (rest : List Nat) : splitLines (joinNl lines ++ 10 :: rest) = lines ++ splitLines rest := by
  induction lines with
  | nil => exact absurd rfl hne
  | cons a r ih =>
    cases r with
    | nil => simpa [joinNl] using splitLines_line a (hl a (by simp)) rest
    | cons b r' =>
      have h1 := splitLines_line a (hl a (by simp)) (joinNl (b :: r') ++ 10 :: rest)
      have h2 := ih (by simp) (fun l hl' => hl l (by simp [hl']))
      simp only [joinNl, List.append_assoc, List.cons_append] at h1 ⊢
      rw [h1, h2]
      simp

theorem isSpace_of_digit {c : Nat} (h : isDigit c = true) : isSpace c = false := by
  simp only [isDigit, Bool.and_eq_true, decide_eq_true_eq] at h
  simp only [isSpace, Bool.or_eq_false_iff, Bool.and_eq_false_iff, beq_eq_false_iff_ne, decide_eq_false_iff_not]
  omega

theorem lstrip_lead (lead : List Nat) (hlead : ∀ x ∈ lead, isSpace x = true) (c : Nat) (hc : isSpace c = false) (cs : List Nat) :
    lstrip (lead ++ c :: cs) = c :: cs := by
  induction lead with
  | nil => simp [lstrip, hc]
  | cons x xs ih =>
    have hx := hlead x (by simp)
    have := ih (fun y hy => hlead y (by simp [hy]))
    simp only [lstrip] at this ⊢
    simp [hx, this]

theorem lstrip_nonspace (l : List Nat) (h : ∀ x ∈ l, isSpace x = false) (r : List Nat) (hne : l ≠ []) :
    lstrip (l ++ r) = l ++ r := by
  cases l with
  | nil => exact absurd rfl hne
  | cons c cs => exact lstrip_lead [] (by simp) c (h c (by simp)) (cs ++ r)

/-- `(lead ++ c :: mid ++ ds).strip()` when `lead` is white space, `c` is not, and `ds` is a non-empty run of
    non-space characters -/
theorem strip_core (lead : List Nat) (hlead : ∀ x ∈ lead, isSpace x = true) (c : Nat) (hc : isSpace c = false)
    (mid ds : List Nat) (hds : ∀ x ∈ ds, isSpace x = false) (hne : ds ≠ []) :
    strip (lead ++ c :: (mid ++ ds)) = c :: (mid ++ ds) := by
  unfold strip
  rw [lstrip_lead lead hlead c hc]
  have hrev : (c :: (mid ++ ds)).reverse = ds.reverse ++ (mid.reverse ++ [c]) := by simp
  rw [hrev, lstrip_nonspace ds.reverse (fun x hx => hds x (List.mem_reverse.mp hx)) _ (by simpa using hne)]
  simp

theorem splitWs_go_run (ds : List Nat) (hds : ∀ x ∈ ds, isSpace x = false) (cur : List Nat) (hne : cur ++ ds ≠ []) :
    splitWs.go cur ds = [cur ++ ds] := by
  induction ds generalizing cur with
  | nil =>
    have : cur ≠ [] := by simpa using hne
    simp [splitWs.go, this]
  | cons d r ih =>
    have hd := hds d (by simp)
    have := ih (fun x hx => hds x (by simp [hx])) (cur ++ [d]) (by simp)
    simp only [splitWs.go, hd]
    simpa using this

/-- `'. <digits>'.split()` -/
theorem fileEntryOffset_written (n : Nat) : fileEntryOffset (46 :: 32 :: decRepr n) = .ok n := by
  have hds : ∀ x ∈ decRepr n, isSpace x = false := fun x hx => isSpace_of_digit (decRepr_all_digit n x hx)
  have h1 : splitWs (46 :: 32 :: decRepr n) = [[46], decRepr n] := by
    unfold splitWs
    have h46 : isSpace 46 = false := by decide
    have h32 : isSpace 32 = true := by decide
    simp only [splitWs.go, h46, h32]
    have := splitWs_go_run (decRepr n) hds [] (by simpa using decRepr_ne_nil n)
    simp at this ⊢
    exact this
  unfold fileEntryOffset
  rw [h1]
  simp [parseDec_decRepr]

/-- no entry under the key `file` -/
def NoFile (st : HdrScan) : Prop := ∀ e ∈ st.entries, e.1 ≠ fileKey

theorem add_noFile (st : HdrScan) (k v : List Nat) (hk : k ≠ fileKey) (h : NoFile st) : NoFile (st.add k v) := by
  intro e he
  unfold HdrScan.add at he
  simp only at he
  split at he
  · obtain ⟨e0, he0, rfl⟩ := List.mem_map.mp he
    split
    · exact h e0 he0
    · exact h e0 he0
  · rcases List.mem_append.mp he with h1 | h1
    · exact h e h1
    · simp at h1; subst h1; exact hk

theorem lookup_append_new (es : List (List Nat × List (List Nat))) (k : List Nat) (v : List (List Nat))
    (h : ∀ e ∈ es, e.1 ≠ k) : (es ++ [(k, v)]).lookup k = some v := by
  induction es with
  | nil => simp
  | cons e r ih =>
    have he : e.1 ≠ k := h e (by simp)
    have := ih (fun x hx => h x (by simp [hx]))
    obtain ⟨ek, ev⟩ := e
    have hbeq : (k == ek) = false := by
      simp only [beq_eq_false_iff_ne, ne_eq]
      exact fun hh => he hh.symm
    simp only [List.cons_append, List.lookup, hbeq, this]

theorem add_file (st : HdrScan) (v : List Nat) (h : NoFile st) :
    (st.add fileKey v).entries.lookup fileKey = some [v] := by
  unfold HdrScan.add
  have : st.entries.any (fun e => e.1 == fileKey) = false := by
    rw [List.any_eq_false]
    intro e he
    simpa using h e he
  simp only [this, Bool.false_eq_true, if_false]
  exact lookup_append_new st.entries fileKey [v] h

/-- a header line as the writer produces them: no newline inside; blank, or a `key: value` line that is not
    `END` and whose key is not `file` -/
def KVLine (l : List Nat) : Prop :=
  (∀ c ∈ l, c ≠ 10) ∧
  (strip l = [] ∨ (strip l ≠ [69, 78, 68] ∧ ∃ k v, splitColon (strip l) = some (k, v) ∧ strip k ≠ fileKey))

theorem hdrLoop_kvlines (lines : List (List Nat)) (hl : ∀ l ∈ lines, KVLine l) (rest : List (List Nat)) :
    ∀ (st : HdrScan) (used : Nat), NoFile st →
      ∃ st' used', hdrLoop st used (lines ++ rest) = hdrLoop st' used' rest ∧ NoFile st' := by
  induction lines with
  | nil => intro st used h; exact ⟨st, used, rfl, h⟩
  | cons l r ih =>
    intro st used h
    have hr := ih (fun x hx => hl x (by simp [hx]))
    obtain ⟨_, hcase⟩ := hl l (by simp)
    rcases hcase with he | ⟨hend, k, v, hkv, hk⟩
    · obtain ⟨st', used', h1, h2⟩ := hr st (used + l.length + 1) h
      refine ⟨st', used', ?_, h2⟩
      simp only [List.cons_append, hdrLoop, he, List.isEmpty_nil, if_true]
      exact h1
    · have hne : (strip l).isEmpty = false := by
        cases hs : strip l with
        | nil => rw [hs] at hkv; simp [splitColon] at hkv
        | cons _ _ => rfl
      have hend' : (strip l == [69, 78, 68]) = false := by simpa using hend
      obtain ⟨st', used', h1, h2⟩ := hr (st.add (strip k) (strip v)) (used + l.length + 1) (add_noFile st _ _ hk h)
      refine ⟨st', used', ?_, h2⟩
      simp only [List.cons_append, hdrLoop, hne, hend', hkv, Bool.false_eq_true, if_false]
      exact h1


/-- **the real header parser on the bytes `save` writes**: for a header text `magic ++ sep ++ lines joined by \n`
    whose lines are `KVLine`s, `_read_header` finds `_offset_data` = the number `_write_header` wrote -/
theorem tckHeaderOffset_written (lines : List (List Nat)) (hne : lines ≠ []) (hl : ∀ l ∈ lines, KVLine l) (sep : Nat)
    (sls : List (List Triple)) :
    tckHeaderOffset (tckWriteFile (tckMagic ++ sep :: joinNl lines) sls) =
      .ok (tckHdrOffset (tckMagic ++ sep :: joinNl lines).length) := by
  generalize hN : tckHdrOffset (tckMagic ++ sep :: joinNl lines).length = N
  have hds : ∀ x ∈ decRepr N, isSpace x = false := fun x hx => isSpace_of_digit (decRepr_all_digit N x hx)
  -- shape of the file
  have hbytes : tckWriteFile (tckMagic ++ sep :: joinNl lines) sls =
      tckMagic ++ sep :: (joinNl lines ++ 10 :: ((fileKey ++ 58 :: 32 :: 46 :: 32 :: decRepr N) ++ 10 ::
        ([69, 78, 68] ++ 10 :: encTriples (tckData sls)))) := by
    unfold tckWriteFile
    rw [hN]
    simp [tckFilePrefix, tckFileSuffix, fileKey]
  rw [hbytes]
  unfold tckHeaderOffset
  have htake : (tckMagic ++ sep :: (joinNl lines ++ 10 :: ((fileKey ++ 58 :: 32 :: 46 :: 32 :: decRepr N) ++ 10 ::
        ([69, 78, 68] ++ 10 :: encTriples (tckData sls))))).take 13 = tckMagic := take_append_len _ _ 13 rfl
  have hdrop : (tckMagic ++ sep :: (joinNl lines ++ 10 :: ((fileKey ++ 58 :: 32 :: 46 :: 32 :: decRepr N) ++ 10 ::
        ([69, 78, 68] ++ 10 :: encTriples (tckData sls))))).drop 14 =
      joinNl lines ++ 10 :: ((fileKey ++ 58 :: 32 :: 46 :: 32 :: decRepr N) ++ 10 ::
        ([69, 78, 68] ++ 10 :: encTriples (tckData sls))) := by
    simp [tckMagic]
  rw [htake, hdrop]
  simp only [bne_self_eq_false, Bool.false_eq_true, if_false]
  -- the lines
  have hfl : ∀ c ∈ fileKey ++ 58 :: 32 :: 46 :: 32 :: decRepr N, c ≠ 10 := by
    intro c hc
    simp only [fileKey, List.cons_append, List.nil_append, List.mem_cons] at hc
    rcases hc with h | h | h | h | h | h | h | h | h
    all_goals first | (subst h; decide) | skip
    intro h10; subst h10
    have := decRepr_all_digit N 10 h
    simp [isDigit] at this
  rw [splitLines_joinNl lines hne (fun l h => (hl l h).1),
    splitLines_line _ hfl, splitLines_line [69, 78, 68] (by decide)]
  obtain ⟨st', used', h1, h2⟩ := hdrLoop_kvlines lines hl
    ((fileKey ++ 58 :: 32 :: 46 :: 32 :: decRepr N) :: [69, 78, 68] :: splitLines (encTriples (tckData sls)))
    ⟨none, []⟩ 14 (by intro e he; simp at he)
  rw [h1]
  -- the `file` line
  have hstrip1 : strip (fileKey ++ 58 :: 32 :: 46 :: 32 :: decRepr N) = fileKey ++ 58 :: 32 :: 46 :: 32 :: decRepr N := by
    have := strip_core [] (by simp) 102 (by decide) [105, 108, 101, 58, 32, 46, 32] (decRepr N) hds (decRepr_ne_nil N)
    simpa [fileKey] using this
  have hsc : splitColon (fileKey ++ 58 :: 32 :: 46 :: 32 :: decRepr N) = some (fileKey, 32 :: 46 :: 32 :: decRepr N) := by
    simp [splitColon, fileKey]
  have hsk : strip fileKey = fileKey := by decide
  have hsv : strip (32 :: 46 :: 32 :: decRepr N) = 46 :: 32 :: decRepr N := by
    have := strip_core [32] (by decide) 46 (by decide) [32] (decRepr N) hds (decRepr_ne_nil N)
    simpa using this
  have hne1 : (fileKey ++ 58 :: 32 :: 46 :: 32 :: decRepr N).isEmpty = false := by simp [fileKey]
  have hnotend : ((fileKey ++ 58 :: 32 :: 46 :: 32 :: decRepr N) == [69, 78, 68]) = false := by
    simp [fileKey]
  have hsE : strip [69, 78, 68] = [69, 78, 68] := by decide
  simp only [hdrLoop, hstrip1, hne1, hnotend, hsc, hsk, hsv, hsE, Bool.false_eq_true, if_false, List.isEmpty_cons,
    beq_self_eq_true, if_true]
  have hlk : List.lookup [102, 105, 108, 101] (st'.add fileKey (46 :: 32 :: decRepr N)).entries =
      some [46 :: 32 :: decRepr N] := add_file st' (46 :: 32 :: decRepr N) h2
  rw [hlk]
  simp only [joinNl, fileEntryOffset_written]

end Nb.C16
