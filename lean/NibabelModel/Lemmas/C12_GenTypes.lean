/-
  Lemmas/C12_GenTypes — stage T: the final per-type loop of the translated `types_filenames`
  (Generated/C12Funcs.lean) against the model's `memberName` (Model/C12.lean): one iteration (`tf_body`), the whole
  loop as a fold of dict assignments (`tf_loop`), the member string on code points (`memberS_codes`), `proc_ext`
  as a function value (`tf_call1`, `procS_codes`).  The prefix of `types_filenames` is not assembled.  Core Lean only.
-/
import NibabelModel.Lemmas.C12_GenParse
namespace Nb.C12.GenT
open Nb.Py Nb.Py.V Nb.PyS

/-- `proc_ext` of types_filenames, on strings -/
def procS (found e : String) : String :=
  if found = "" then e
  else if found = PyS.upper found then PyS.upper e
  else if found = PyS.lower found then PyS.lower e
  else e

/-- the function VALUE `proc_ext` holds after lines 148-156 -/
def procTag (found : String) : V :=
  if found = "" then .str "fn:identity"
  else if found = PyS.upper found then .str "fn:str.upper"
  else if found = PyS.lower found then .str "fn:str.lower"
  else .str "fn:identity"

theorem tf_call1 (found x : String) :
    Gen.C12F.types_filenames_call1 (procTag found) (.str x) = .ok (.str (procS found x)) := by
  unfold procTag procS Gen.C12F.types_filenames_call1
  by_cases h0 : found = ""
  · simp [h0, callStr1]
  · by_cases h1 : found = PyS.upper found
    · simp [h0, ← h1, callStr1, strUpper]
    · by_cases h2 : found = PyS.lower found
      · simp [h0, h1, ← h2, callStr1, strLower]
      · simp [h0, h1, h2, callStr1]

/-- one iteration of the final loop of types_filenames, on strings -/
def memberS (tmpl root ext : String) (ig gn direct : Option String) (t : String × Option String) : String :=
  if Option.some t.1 = direct then tmpl
  else
    root ++ (if Option.some t.1 = gn then ext
             else match t.2 with
               | Option.some x => if x = "" then "" else procS ext x
               | Option.none => "") ++
      (match ig with
       | Option.some i => i
       | Option.none => "")

theorem pyEq_str_optV (n : String) (o : Option String) : pyEq (.str n) (optV o) = decide (Option.some n = o) := by
  cases o with
  | none => simp [optV]
  | some d => rw [Bool.eq_iff_iff]; simp [optV]

open Gen.C12F in
theorem tf_body (s : types_filenames_Locals) (tmpl root ext : String) (ig gn direct : Option String) (es : V)
    (t : String × Option String)
    (h1 : s.template_fname = .str tmpl) (h2 : s.filename = .str root) (h3 : s.found_ext = .str ext)
    (h4 : s.ignored = optV ig) (h5 : s.guessed_name = optV gn) (h6 : s.direct_set_name = optV direct)
    (h7 : s.proc_ext = procTag ext) (h8 : s.tfns = .dict es) :
    ∃ s', types_filenames_body1 { s with _tp2 := tvT t } = .ok (.next s') ∧
      s'.template_fname = .str tmpl ∧ s'.filename = .str root ∧ s'.found_ext = .str ext ∧ s'.ignored = optV ig ∧
      s'.guessed_name = optV gn ∧ s'.direct_set_name = optV direct ∧ s'.proc_ext = procTag ext ∧
      s'.tfns = .dict (dictSet es (.str t.1) (.str (memberS tmpl root ext ig gn direct t))) := by
  obtain ⟨n, oe⟩ := t
  simp only [types_filenames_body1, tvT, unpack2_tup2, bind_ok, pure_eq_ok, h1, h2, h3, h4, h5, h6, h7, h8,
    pyEq_str_optV, memberS]
  by_cases hd : Option.some n = direct
  · subst hd
    simp [setItem]
  · by_cases hg : Option.some n = gn
    · subst hg
      cases ig with
      | none => simp [hd, optV, addS, setItem]
      | some i =>
        by_cases hi : i = ""
        · simp [hd, optV, addS, setItem, hi]
        · simp [hd, optV, addS, setItem, hi]
    · have hg' : ¬ (Option.some n = gn) := hg
      cases oe with
      | none =>
        cases ig with
        | none => simp [hd, hg, optV, addS, setItem]
        | some i =>
          by_cases hi : i = ""
          · simp [hd, hg, optV, addS, setItem, hi]
          · simp [hd, hg, optV, addS, setItem, hi]
      | some x =>
        by_cases hx : x = ""
        · cases ig with
          | none => simp [hd, hg, optV, addS, setItem, hx]
          | some i =>
            by_cases hi : i = ""
            · simp [hd, hg, optV, addS, setItem, hi, hx]
            · simp [hd, hg, optV, addS, setItem, hi, hx]
        · cases ig with
          | none => simp [hd, hg, optV, addS, setItem, hx, tf_call1]
          | some i =>
            by_cases hi : i = ""
            · simp [hd, hg, optV, addS, setItem, hi, hx, tf_call1]
            · simp [hd, hg, optV, addS, setItem, hi, hx, tf_call1]


open Gen.C12F in
theorem tf_loop (T : List (String × Option String)) (s : types_filenames_Locals) (tmpl root ext : String)
    (ig gn direct : Option String) (es : V)
    (h1 : s.template_fname = .str tmpl) (h2 : s.filename = .str root) (h3 : s.found_ext = .str ext)
    (h4 : s.ignored = optV ig) (h5 : s.guessed_name = optV gn) (h6 : s.direct_set_name = optV direct)
    (h7 : s.proc_ext = procTag ext) (h8 : s.tfns = .dict es) :
    ∃ s', types_filenames_loop1 (ofList (T.map tvT)) s = .ok (.next s') ∧
      s'.tfns = .dict (T.foldl (fun es t => dictSet es (.str t.1) (.str (memberS tmpl root ext ig gn direct t))) es) := by
  induction T generalizing s es with
  | nil => exact ⟨s, by simp [types_filenames_loop1], by simpa using h8⟩
  | cons t T ih =>
    obtain ⟨s1, hb, g1, g2, g3, g4, g5, g6, g7, g8⟩ := tf_body s tmpl root ext ig gn direct es t h1 h2 h3 h4 h5 h6 h7 h8
    obtain ⟨s', hl, hr⟩ := ih s1 _ g1 g2 g3 g4 g5 g6 g7 g8
    exact ⟨s', by simp only [List.map_cons, ofList, types_filenames_loop1, hb, bind_ok]; exact hl, by simpa using hr⟩

theorem char_toNat_inj {a b : Char} (h : a.toNat = b.toNat) : a = b := by
  apply Char.ext; apply UInt32.toNat_inj.mp; exact h

theorem map_toNat_inj : ∀ (l m : List Char), l.map Char.toNat = m.map Char.toNat → l = m
  | [], [], _ => rfl
  | [], _ :: _, h => by simp at h
  | _ :: _, [], h => by simp at h
  | a :: l, b :: m, h => by
      simp only [List.map_cons, List.cons.injEq] at h
      rw [char_toNat_inj h.1, map_toNat_inj l m h.2]

theorem codes_inj {a b : String} (h : codes a = codes b) : a = b :=
  String.toList_inj.mp (map_toNat_inj _ _ h)

theorem codes_append (a b : String) : codes (a ++ b) = codes a ++ codes b := by simp [codes]


theorem upper_iff (f : String) : f = PyS.upper f ↔ codes f = Nb.C12.upper (codes f) := by
  rw [← codes_upper]; exact ⟨fun h => congrArg codes h, codes_inj⟩

theorem lower_iff (f : String) : f = PyS.lower f ↔ codes f = Nb.C12.lower (codes f) := by
  rw [← codes_lower]; exact ⟨fun h => congrArg codes h, codes_inj⟩

theorem procS_codes (found e : String) : codes (procS found e) = procExt (codes found) (codes e) := by
  unfold procS procExt
  by_cases h0 : found = ""
  · subst h0; simp [codes_empty]
  · have h0' : (codes found).isEmpty = false := by rw [codes_isEmpty]; simpa using h0
    by_cases h1 : found = PyS.upper found
    · have := (upper_iff found).mp h1
      simp only [h0, h0', ← h1, if_true, if_false, Bool.false_eq_true]
      rw [if_pos this, codes_upper]
    · have h1' := fun h => h1 ((upper_iff found).mpr h)
      by_cases h2 : found = PyS.lower found
      · have := (lower_iff found).mp h2
        simp only [h0, h0', h1, ← h2, if_true, if_false, Bool.false_eq_true]
        rw [if_neg h1', if_pos this, codes_lower]
      · have h2' := fun h => h2 ((lower_iff found).mpr h)
        simp only [h0, h0', h1, h2, if_false, Bool.false_eq_true]
        rw [if_neg h1', if_neg h2']


theorem opt_iff (n : String) (o : Option String) : Option.some n = o ↔ Option.some (codes n) = o.map codes := by
  cases o with
  | none => simp
  | some d => simp; exact ⟨fun h => congrArg codes h, codes_inj⟩

theorem memberS_codes (tmpl root ext : String) (ig gn direct : Option String) (t : String × Option String) :
    codes (memberS tmpl root ext ig gn direct t) =
      (memberName true (codes tmpl) ⟨codes root, codes ext, ig.map codes, gn.map codes⟩ (direct.map codes) (codesT t)).2 := by
  obtain ⟨n, oe⟩ := t
  unfold memberS memberName codesT
  by_cases hd : Option.some n = direct
  · have hd' := (opt_iff n direct).mp hd
    simp only [hd, if_true]; rw [if_pos hd']
  · have hd' : ¬ (Option.some (codes n) = direct.map codes) := fun h => hd ((opt_iff n direct).mpr h)
    simp only [hd, if_false]; rw [if_neg hd']
    have hig : codes (match ig with | Option.some i => i | Option.none => "") =
        (if Nb.C12.truthy (ig.map codes) then (ig.map codes).getD [] else []) := by
      cases ig with
      | none => simp [Nb.C12.truthy, codes_empty]
      | some i =>
        by_cases hi : i = ""
        · subst hi; simp [Nb.C12.truthy, codes_empty]
        · have : (codes i).isEmpty = false := by rw [codes_isEmpty]; simpa using hi
          simp [Nb.C12.truthy, this]
    by_cases hg : Option.some n = gn
    · have hg' := (opt_iff n gn).mp hg
      simp only [hg, if_true, codes_append, hig, Bool.true_and]
      simp [hg']
    · have hg' : ¬ (Option.some (codes n) = gn.map codes) := fun h => hg ((opt_iff n gn).mpr h)
      simp only [hg, if_false, codes_append, hig, Bool.true_and]
      cases oe with
      | none => simp [hg', codes_empty]
      | some x =>
        by_cases hx : x = ""
        · subst hx; simp [hg', codes_empty]
        · have : (codes x).isEmpty = false := by rw [codes_isEmpty]; simpa using hx
          simp [hg', hx, this, procS_codes]

end Nb.C12.GenT
