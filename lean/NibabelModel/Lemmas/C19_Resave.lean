import NibabelModel.Lemmas.C19_Mgh
/-! Lemmas/C19_Resave — MGH LOAD → edit → SAVE → LOAD: what a successful `readMgh` guarantees (inversion), the
    file round trip for an arbitrary header state (`dof`, `goodRASFlag`), the history lemma (core Lean only). -/
namespace Nb.C19
open Nb.Gen.C19

/-- a byte string proper: every element below 256 -/
def BytesOk (bs : Bytes) : Prop := ∀ b ∈ bs, b < 256

theorem BytesOk.drop {bs : Bytes} (h : BytesOk bs) (n : Nat) : BytesOk (bs.drop n) :=
  fun b hb => h b (List.mem_of_mem_drop hb)
theorem BytesOk.take {bs : Bytes} (h : BytesOk bs) (n : Nat) : BytesOk (bs.take n) :=
  fun b hb => h b (List.mem_of_mem_take hb)
theorem BytesOk.append {a b : Bytes} (ha : BytesOk a) (hb : BytesOk b) : BytesOk (a ++ b) := by
  intro x hx; rcases List.mem_append.mp hx with h | h
  · exact ha x h
  · exact hb x h
theorem bytesOk_zeros (n : Nat) : BytesOk (zeros n) := by
  intro b hb; simp only [zeros, List.mem_replicate] at hb; omega
theorem BytesOk.padTo {bs : Bytes} (h : BytesOk bs) (n : Nat) : BytesOk (padTo n bs) :=
  (h.take n).append (bytesOk_zeros _)

theorem rdU32_inv (bs : Bytes) (u : Nat) (r : Bytes) (e : rdU32 bs = .ok (u, r)) (hb : BytesOk bs) :
    u < 4294967296 ∧ BytesOk r := by
  match bs, e, hb with
  | a :: b :: c :: d :: r', e, hb =>
    simp only [rdU32, Except.ok.injEq, Prod.mk.injEq] at e
    obtain ⟨rfl, rfl⟩ := e
    have ha := hb a (by simp); have hb' := hb b (by simp); have hc := hb c (by simp); have hd := hb d (by simp)
    refine ⟨by unfold decU32; omega, fun x hx => hb x (by simp [hx])⟩

theorem rdU32s_inv (n : Nat) (bs : Bytes) (l : List Nat) (r : Bytes) (e : rdU32s n bs = .ok (l, r)) (hb : BytesOk bs) :
    l.length = n ∧ (∀ v ∈ l, v < 4294967296) ∧ BytesOk r := by
  induction n generalizing bs l r with
  | zero => simp only [rdU32s, Except.ok.injEq, Prod.mk.injEq] at e; obtain ⟨rfl, rfl⟩ := e; exact ⟨rfl, by simp, hb⟩
  | succ n ih =>
    unfold rdU32s at e
    split at e
    · rename_i x r1 h1
      have i1 := rdU32_inv _ _ _ h1 hb
      split at e
      · rename_i xs r2 h2
        have i2 := ih _ _ _ h2 i1.2
        simp only [Except.ok.injEq, Prod.mk.injEq] at e
        obtain ⟨rfl, rfl⟩ := e
        refine ⟨by simp [i2.1], ?_, i2.2.2⟩
        intro v hv
        rcases List.mem_cons.mp hv with rfl | hv
        · exact i1.1
        · exact i2.2.1 v hv
      · cases e
    · cases e

theorem foldl_be_lt (bs : Bytes) (hb : BytesOk bs) (acc : Nat) :
    bs.foldl (fun a b => a * 256 + b) acc < (acc + 1) * 256 ^ bs.length := by
  induction bs generalizing acc with
  | nil => simp
  | cons b t ih =>
    have hb' : b < 256 := hb b (by simp)
    have ht : BytesOk t := fun x hx => hb x (by simp [hx])
    have := ih ht (acc * 256 + b)
    simp only [List.foldl_cons, List.length_cons]
    calc _ < (acc * 256 + b + 1) * 256 ^ t.length := this
      _ ≤ ((acc + 1) * 256) * 256 ^ t.length := Nat.mul_le_mul_right _ (by omega)
      _ = (acc + 1) * 256 ^ (t.length + 1) := by rw [Nat.mul_assoc, Nat.pow_succ, Nat.mul_comm 256]

theorem decBE_lt (bs : Bytes) (hb : BytesOk bs) : decBE bs < 256 ^ bs.length := by
  have := foldl_be_lt bs hb 0
  simpa [decBE] using this

theorem rdWs_inv (w n : Nat) (bs : Bytes) (l : List Nat) (e : rdWs w n bs = .ok l) (hb : BytesOk bs) :
    l.length = n ∧ ∀ v ∈ l, v < 256 ^ w := by
  induction n generalizing bs l with
  | zero => simp only [rdWs, Except.ok.injEq] at e; subst e; exact ⟨rfl, by simp⟩
  | succ n ih =>
    unfold rdWs at e
    split at e
    · cases e
    · rename_i hlen
      split at e
      · rename_i xs h2
        have i2 := ih _ _ h2 (hb.drop w)
        simp only [Except.ok.injEq] at e
        subst e
        refine ⟨by simp [i2.1], ?_⟩
        intro v hv
        rcases List.mem_cons.mp hv with rfl | hv
        · have := decBE_lt _ (hb.take w)
          rwa [List.length_take, Nat.min_eq_left (by omega)] at this
        · exact i2.2 v hv
      · cases e

theorem defNoRas_facts : defDeltaNoRas.length = 3 ∧ (∀ v ∈ defDeltaNoRas, v < 4294967296) ∧ defRasBytes.length = 48
    ∧ 0 < defGoodNoRas ∧ defGoodNoRas < 65536 := by decide

/-- what a successful `readMgh` of a proper byte string guarantees about its result -/
structure MghWf (h : MghHdr) (ras : Bytes) (data : List Nat) : Prop where
  nz : ¬ (h.dims.x = 0 ∨ h.dims.y = 0 ∨ h.dims.z = 0 ∨ h.dims.f = 0)
  dlt : h.dims.x < 4294967296 ∧ h.dims.y < 4294967296 ∧ h.dims.z < 4294967296 ∧ h.dims.f < 4294967296
  code : h.code < 4294967296
  bpv : ∃ bpv, bytesPerVox h.code = some bpv ∧ data.length = h.dims.prod ∧ ∀ v ∈ data, v < 256 ^ bpv
  delta : h.delta.length = 3 ∧ ∀ v ∈ h.delta, v < 4294967296
  ftr : h.ftr.length = 5 ∧ ∀ v ∈ h.ftr, v < 4294967296
  ras : ras.length = 48

theorem readMgh_inv (bs : Bytes) (h : MghHdr) (ras : Bytes) (data : List Nat)
    (e : readMgh bs = .ok (h, ras, data)) (hb : BytesOk bs) : MghWf h ras data := by
  unfold readMgh at e
  split at e
  · cases e
  rename_i hlen
  split at e
  · cases e
  rename_i version r0 h0
  split at e
  · cases e
  rename_i x q1 h1
  split at e
  · cases e
  rename_i y q2 h2
  split at e
  · cases e
  rename_i z q3 h3
  split at e
  · cases e
  rename_i f r1 h4
  split at e
  · cases e
  rename_i hnz
  split at e
  · cases e
  rename_i code rc h5
  split at e
  · cases e
  rename_i bpv h6
  split at e
  · cases e
  rename_i delta rd h7
  split at e
  · dsimp only at e; split at e <;> cases e
  rename_i hv
  dsimp only at e
  split at e
  · cases e
  rename_i ftr rf h8
  split at e
  · cases e
  rename_i dat h9
  have i0 := rdU32_inv _ _ _ h0 hb
  have i1 := rdU32_inv _ _ _ h1 i0.2
  have i2 := rdU32_inv _ _ _ h2 i1.2
  have i3 := rdU32_inv _ _ _ h3 i2.2
  have i4 := rdU32_inv _ _ _ h4 i3.2
  have i5 := rdU32_inv _ _ _ h5 i4.2
  have i7 := rdU32s_inv _ _ _ _ h7 (hb.drop 30)
  have i8 := rdU32s_inv _ _ _ _ h8 ((hb.drop _).padTo _)
  have i9 := rdWs_inv _ _ _ _ h9 (hb.drop _)
  simp only [Except.ok.injEq, Prod.mk.injEq] at e
  obtain ⟨rfl, rfl, rfl⟩ := e
  have hras : ((bs.drop 42).take 48).length = 48 := by
    simp only [List.length_take, List.length_drop]; simp only [hdrItemsize] at hlen; omega
  refine ⟨hnz, ⟨i1.1, i2.1, i3.1, i4.1⟩, i5.1, ⟨bpv, h6, i9.1, i9.2⟩, ?_, ⟨i8.1, i8.2.1⟩, ?_⟩
  · show (if _ then _ else _ : List Nat).length = 3 ∧ _
    split
    · exact ⟨defNoRas_facts.1, defNoRas_facts.2.1⟩
    · exact ⟨i7.1, i7.2.1⟩
  · show (if _ then _ else _ : Bytes).length = 48
    split
    · exact defNoRas_facts.2.2.1
    · exact hras

theorem decBE_u16 (g : Nat) (h : g < 65536) : decBE [g / 256 % 256, g % 256] = g := by
  simp only [decBE, List.foldl_cons, List.foldl_nil]; omega

theorem decBE_encU32 (u : Nat) (h : u < 4294967296) : decBE (encU32 u) = u := by
  simp only [decBE, encU32, List.foldl_cons, List.foldl_nil]; omega

/-- header (with ANY `dof` / non-zero `goodRASFlag`) + data + footer written by `writeMghX` are read back by
    `readMghX`, and the file ends with the footer -/
theorem mghX_roundtrip_aux (x y z f code dof g : Nat) (delta ftr : List Nat) (ras : Bytes) (bpv : Nat) (data : List Nat)
    (hb : bytesPerVox code = some bpv)
    (hnz : ¬ (x = 0 ∨ y = 0 ∨ z = 0 ∨ f = 0))
    (hx : x < 4294967296) (hy : y < 4294967296) (hz : z < 4294967296) (hf : f < 4294967296)
    (hcode : code < 4294967296) (hdof : dof < 4294967296) (hg0 : 0 < g) (hg1 : g < 65536)
    (hdl : delta.length = 3) (hdv : ∀ v ∈ delta, v < 4294967296)
    (hfl : ftr.length = 5) (hfv : ∀ v ∈ ftr, v < 4294967296)
    (hras : ras.length = 48)
    (hdata : data.length = Dims.prod ⟨x, y, z, f⟩) (hdat : ∀ v ∈ data, v < 256 ^ bpv) :
    readMghX (writeMghX ⟨⟨⟨x, y, z, f⟩, code, delta, ftr⟩, dof, g, ras⟩ bpv data)
        = .ok (⟨⟨⟨x, y, z, f⟩, code, delta, ftr⟩, dof, g, ras⟩, data)
    ∧ (writeMghX ⟨⟨⟨x, y, z, f⟩, code, delta, ftr⟩, dof, g, ras⟩ bpv data).length
        = footerOffset bpv ⟨x, y, z, f⟩ + ftrItemsize := by
  have hw := bytesPerVox_width code bpv hb
  have nf : writeMghX ⟨⟨⟨x, y, z, f⟩, code, delta, ftr⟩, dof, g, ras⟩ bpv data
      = encU32 1 ++ (encU32 x ++ (encU32 y ++ (encU32 z ++ (encU32 f ++ (encU32 code ++ (encU32 dof ++
          ((g / 256 % 256) :: (g % 256) :: (encU32s delta ++ (ras ++ (zeros 194 ++ (encWs bpv data ++ encU32s ftr))))))))))) := by
    simp [writeMghX, Dims.toList, encU32s, encU16, versionOk, dataOffset, hdrItemsize]
  rw [nf]
  generalize hT2 : encU32s delta ++ (ras ++ (zeros 194 ++ (encWs bpv data ++ encU32s ftr))) = T2
  have lenT2 : T2.length = 12 + 48 + 194 + bpv * data.length + 20 := by
    rw [← hT2]
    simp only [List.length_append, encU32s_length, hdl, hras, zeros, List.length_replicate, encWs_length bpv data hw, hfl]
    omega
  generalize hH24 : encU32 1 ++ (encU32 x ++ (encU32 y ++ (encU32 z ++ (encU32 f ++ encU32 code)))) = H24
  have l24 : H24.length = 24 := by rw [← hH24]; rfl
  have e24 : encU32 1 ++ (encU32 x ++ (encU32 y ++ (encU32 z ++ (encU32 f ++ (encU32 code ++ (encU32 dof ++
      ((g / 256 % 256) :: (g % 256) :: T2)))))))
      = H24 ++ (encU32 dof ++ ([g / 256 % 256, g % 256] ++ T2)) := by
    rw [← hH24]; simp only [List.append_assoc, List.cons_append, List.nil_append]
  have e28 : H24 ++ (encU32 dof ++ ([g / 256 % 256, g % 256] ++ T2))
      = (H24 ++ encU32 dof) ++ ([g / 256 % 256, g % 256] ++ T2) := by simp only [List.append_assoc]
  have e30 : H24 ++ (encU32 dof ++ ([g / 256 % 256, g % 256] ++ T2))
      = (H24 ++ (encU32 dof ++ [g / 256 % 256, g % 256])) ++ T2 := by simp only [List.append_assoc]
  have l28 : (H24 ++ encU32 dof).length = 28 := by simp [l24, encU32_length]
  have l30 : (H24 ++ (encU32 dof ++ [g / 256 % 256, g % 256])).length = 30 := by simp [l24, encU32_length]
  generalize hH30 : H24 ++ (encU32 dof ++ [g / 256 % 256, g % 256]) = H30 at e30 l30
  have e284 : H30 ++ T2 = (H30 ++ (encU32s delta ++ (ras ++ zeros 194))) ++ (encWs bpv data ++ encU32s ftr) := by
    rw [← hT2]; simp only [List.append_assoc]
  have eF : H30 ++ T2 = (H30 ++ (encU32s delta ++ (ras ++ (zeros 194 ++ encWs bpv data)))) ++ encU32s ftr := by
    rw [← hT2]; simp only [List.append_assoc]
  have e42 : H30 ++ T2 = (H30 ++ encU32s delta) ++ (ras ++ (zeros 194 ++ (encWs bpv data ++ encU32s ftr))) := by
    rw [← hT2]; simp only [List.append_assoc]
  have l284 : (H30 ++ (encU32s delta ++ (ras ++ zeros 194))).length = dataOffset := by
    simp only [List.length_append, l30, encU32s_length, hdl, hras, zeros, List.length_replicate, dataOffset]
  have lF : (H30 ++ (encU32s delta ++ (ras ++ (zeros 194 ++ encWs bpv data)))).length = footerOffset bpv ⟨x, y, z, f⟩ := by
    simp only [List.length_append, l30, encU32s_length, hdl, hras, zeros, List.length_replicate,
      encWs_length bpv data hw, footerOffset, dataOffset, hdata]
    omega
  have l42 : (H30 ++ encU32s delta).length = 42 := by
    simp only [List.length_append, l30, encU32s_length, hdl]
  rw [e24]
  generalize hF : H24 ++ (encU32 dof ++ ([g / 256 % 256, g % 256] ++ T2)) = file at e28 e30
  have flen : file.length = 30 + T2.length := by
    rw [e30, List.length_append, l30]
  have g0 : ¬ file.length < hdrItemsize := by
    rw [flen, lenT2, hdrItemsize]; omega
  have gg : decBE ((file.drop 28).take 2) = g := by
    rw [e28, drop_append_len _ _ 28 l28]
    simp only [List.cons_append, List.nil_append, List.take_succ_cons, List.take_zero]
    exact decBE_u16 g hg1
  have gd : decBE ((file.drop 24).take 4) = dof := by
    rw [← hF, drop_append_len _ _ 24 l24, take_append_len _ _ 4 (encU32_length dof)]
    exact decBE_encU32 dof hdof
  have g1 : ¬ decBE ((file.drop 28).take 2) = 0 := by rw [gg]; omega
  have g2 : rdU32s 3 (file.drop 30) = .ok (delta, ras ++ (zeros 194 ++ (encWs bpv data ++ encU32s ftr))) := by
    rw [e30, drop_append_len _ _ 30 l30, ← hT2, ← hdl]
    exact rdU32s_enc delta _ hdv
  have g3 : rdU32s 5 (padTo ftrItemsize (file.drop (footerOffset bpv ⟨x, y, z, f⟩))) = .ok (ftr, []) := by
    rw [e30, eF, drop_append_len _ _ _ lF, padTo_exact _ _ (by rw [encU32s_length, hfl]; rfl)]
    have := rdU32s_enc ftr [] hfv
    rw [List.append_nil, hfl] at this
    exact this
  have g4 : rdWs bpv (Dims.prod ⟨x, y, z, f⟩) (file.drop dataOffset) = .ok data := by
    rw [e30, e284, drop_append_len _ _ _ l284, ← hdata]
    exact rdWs_enc bpv hw data _ hdat
  have g5 : (file.drop 42).take 48 = ras := by
    rw [e30, e42, drop_append_len _ _ 42 l42, take_append_len _ _ 48 hras]
  have hrd : readMgh file = .ok (⟨⟨x, y, z, f⟩, code, delta, ftr⟩, ras, data) := by
    rw [← g5]
    have hfile : file = encU32 1 ++ (encU32 x ++ (encU32 y ++ (encU32 z ++ (encU32 f ++ (encU32 code ++
        (encU32 dof ++ ([g / 256 % 256, g % 256] ++ T2))))))) := by
      rw [← hF, ← hH24]; simp only [List.append_assoc]
    exact readMgh_steps file 1 _ x y z f _ _ _ _ code _ bpv delta _ ftr [] data g0
      (by rw [hfile]; exact rdU32_enc 1 _ (by decide)) (rdU32_enc x _ hx) (rdU32_enc y _ hy) (rdU32_enc z _ hz)
      (rdU32_enc f _ hf) hnz (rdU32_enc code _ hcode) hb g1 g2 g3 rfl g4
  constructor
  · unfold readMghX
    rw [hrd]
    simp only [gg, gd]
    rw [if_neg (by omega)]
  · rw [flen, lenT2]
    simp only [footerOffset, dataOffset, ftrItemsize, hdata]
    omega

/-- the footer a re-saved image must carry: the loaded footer, TR replaced when `set_zooms` got a 4th value, then
    the assignments in order -/
def ftrAfter (ftr0 : List Nat) (setZ : Option (List Nat)) (sets : List (Nat × Nat)) : List Nat :=
  sets.foldl (fun f s => f.set s.1 s.2)
    (match setZ with
     | some [_, _, _, t] => t :: ftr0.drop 1
     | _ => ftr0)

theorem readMghX_inv (bs : Bytes) (L : MghFull) (data : List Nat) (e : readMghX bs = .ok (L, data)) (hb : BytesOk bs) :
    MghWf L.h L.ras data ∧ L.dof < 4294967296 ∧ 0 < L.good ∧ L.good < 65536 := by
  unfold readMghX at e
  split at e
  · cases e
  rename_i h ras dat hr
  simp only [Except.ok.injEq, Prod.mk.injEq] at e
  obtain ⟨rfl, rfl⟩ := e
  refine ⟨readMgh_inv _ _ _ _ hr hb, ?_, ?_⟩
  · have h1 := decBE_lt _ ((hb.drop 24).take 4)
    have h2 : ((bs.drop 24).take 4).length ≤ 4 := by simp only [List.length_take]; omega
    exact Nat.lt_of_lt_of_le h1 (Nat.pow_le_pow_right (by decide) h2)
  · have h1 := decBE_lt _ ((hb.drop 28).take 2)
    have h2 : ((bs.drop 28).take 2).length ≤ 2 := by simp only [List.length_take]; omega
    have h3 := Nat.lt_of_lt_of_le h1 (Nat.pow_le_pow_right (by decide) h2)
    show 0 < (if _ then _ else _) ∧ (if _ then _ else _) < 65536
    split
    · exact ⟨defNoRas_facts.2.2.2.1, defNoRas_facts.2.2.2.2⟩
    · omega

theorem mgh_resave_aux (file : Bytes) (L : MghFull) (data : List Nat) (setZ : Option (List Nat))
    (sets : List (Nat × Nat)) (hb : BytesOk file) (hr : readMghX file = .ok (L, data))
    (hz : ∀ zs, setZ = some zs → zs.length = ndims L.h.dims ∧ zs.take 3 = L.h.delta ∧
            L.h.delta.any f32LeZero = false ∧ ∀ t, zs[3]? = some t → f32LtZero t = false ∧ t < 4294967296)
    (hsets : ∀ p ∈ sets, p.2 < 4294967296) :
    ∃ bpv, bytesPerVox L.h.code = some bpv ∧
      mghResave file setZ sets = .ok (L, data,
        writeMghX { L with h := { L.h with ftr := ftrAfter L.h.ftr setZ sets } } bpv data,
        { L with h := { L.h with ftr := ftrAfter L.h.ftr setZ sets } }, data) ∧
      (writeMghX { L with h := { L.h with ftr := ftrAfter L.h.ftr setZ sets } } bpv data).length
        = footerOffset bpv L.h.dims + ftrItemsize := by
  obtain ⟨wf, hdof, hg0, hg1⟩ := readMghX_inv _ _ _ hr hb
  obtain ⟨⟨⟨x, y, z, f⟩, code, delta, ftr⟩, dof, g, ras⟩ := L
  obtain ⟨bpv, hbpv, hdl, hdv⟩ := wf.bpv
  refine ⟨bpv, hbpv, ?_⟩
  -- the header after the optional `set_zooms`
  have key : ∃ base, optSetZooms ⟨⟨x, y, z, f⟩, code, delta, ftr⟩ setZ = .ok ⟨⟨x, y, z, f⟩, code, delta, base⟩
      ∧ base.length = 5 ∧ (∀ v ∈ base, v < 4294967296)
      ∧ ftrAfter ftr setZ sets = sets.foldl (fun f s => f.set s.1 s.2) base := by
    cases setZ with
    | none => exact ⟨ftr, rfl, wf.ftr.1, wf.ftr.2, rfl⟩
    | some zs =>
      obtain ⟨z1, z2, z3, z4⟩ := hz zs rfl
      have hd3 := wf.delta.1
      have hnd' : ndims ⟨x, y, z, f⟩ = 3 ∨ ndims ⟨x, y, z, f⟩ = 4 := by unfold ndims; split <;> simp
      simp only at z1 z2 z3 hd3
      rcases hnd' with h3 | h4
      · have hl3 : zs.length = 3 := by omega
        match zs, hl3 with
        | [a, b, c], _ =>
          have hdel : delta = [a, b, c] := by rw [← z2]; rfl
          subst hdel
          refine ⟨ftr, ?_, wf.ftr.1, wf.ftr.2, rfl⟩
          exact setZooms_spec3 _ a b c h3 z3
      · have hl4 : zs.length = 4 := by omega
        match zs, hl4 with
        | [a, b, c, t], _ =>
          have hdel : delta = [a, b, c] := by rw [← z2]; rfl
          subst hdel
          have ht := z4 t rfl
          refine ⟨t :: ftr.drop 1, ?_, ?_, ?_, rfl⟩
          · exact setZooms_spec4 _ a b c t h4 z3 ht.1
          · have := wf.ftr.1; simp only at this; simp [this]
          · intro v hv
            rcases List.mem_cons.mp hv with rfl | hv
            · exact ht.2
            · exact wf.ftr.2 v (List.mem_of_mem_drop hv)
  obtain ⟨base, hset, hbl, hbv, hfa⟩ := key
  have hfs := foldl_set_inv sets base 5 hbl hbv hsets
  have hrt := mghX_roundtrip_aux x y z f code dof g delta (sets.foldl (fun f s => f.set s.1 s.2) base) ras bpv data
    hbpv wf.nz wf.dlt.1 wf.dlt.2.1 wf.dlt.2.2.1 wf.dlt.2.2.2 wf.code hdof hg0 hg1 wf.delta.1 wf.delta.2 hfs.1 hfs.2
    wf.ras hdl hdv
  simp only [hfa]
  refine ⟨?_, hrt.2⟩
  unfold mghResave
  simp only [hr, hset, ne_eq, not_true_eq_false, if_false, hbpv, setFtr_spec]
  rw [hrt.1]
end Nb.C19
