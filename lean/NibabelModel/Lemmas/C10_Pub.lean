import NibabelModel.Lemmas.C10_Checks
/-! Lemmas/C10_Pub — the log/raise loop of the public `WrapStruct.check_fix` and reports after a repair. -/
namespace Nb.C10

/-- a REJECTED variant, not the code: run the checks one at a time and log/raise each report at once
    ("fail fast"); kept only for the witness `check_fix_failfast_counterexample` -/
def runFixEager (c : ClsSpec) (lvl : Int) : List CheckId → CF → CF × Option Nat
  | [], h => (h, none)
  | k :: ks, h =>
    if (reportOf c k h).raisesAt lvl then (fixOf c k h, some 0)
    else ((runFixEager c lvl ks (fixOf c k h)).1, (runFixEager c lvl ks (fixOf c k h)).2.map (· + 1))

theorem logRaise_spec (lvl : Int) (rs : List Report) :
    match (logRaise lvl rs).2 with
    | none => (∀ r ∈ rs, r.raisesAt lvl = false) ∧ (logRaise lvl rs).1 = rs
    | some i => i < rs.length ∧ (rs.getD i default).raisesAt lvl = true ∧
        (∀ j, j < i → (rs.getD j default).raisesAt lvl = false) ∧ (logRaise lvl rs).1 = rs.take (i + 1) := by
  induction rs with
  | nil => simp [logRaise]
  | cons r rs ih =>
    by_cases hr : r.raisesAt lvl = true
    · simp [logRaise, hr]
    · simp only [logRaise, hr, if_false, Bool.false_eq_true]
      cases h2 : (logRaise lvl rs).2 with
      | none =>
        rw [h2] at ih
        simp only [Option.map_none]
        refine ⟨?_, by rw [ih.2]⟩
        intro x hx
        rcases List.mem_cons.mp hx with rfl | hx
        · simpa using hr
        · exact ih.1 x hx
      | some i =>
        rw [h2] at ih
        simp only [Option.map_some]
        obtain ⟨a, b, c', d⟩ := ih
        refine ⟨by simp; omega, by simpa using b, ?_, by simp [d]⟩
        intro j hj
        cases j with
        | zero => simpa using hr
        | succ j => simpa using c' j (by omega)


theorem logRaise_none_iff (lvl : Int) (rs : List Report) :
    (logRaise lvl rs).2 = none ↔ ∀ r ∈ rs, r.raisesAt lvl = false := by
  induction rs with
  | nil => simp [logRaise]
  | cons r rs ih =>
    by_cases hr : r.raisesAt lvl = true
    · simp [logRaise, hr]
    · simp only [logRaise, hr, if_false, Bool.false_eq_true, Option.map_eq_none_iff, ih]
      simp at hr
      simp [hr]

/-- lowering the error level can only make the call raise earlier -/
theorem logRaise_mono (l1 l2 : Int) (h : l1 ≤ l2) (rs : List Report) (i : Nat)
    (hi : (logRaise l2 rs).2 = some i) : ∃ j, j ≤ i ∧ (logRaise l1 rs).2 = some j := by
  induction rs generalizing i with
  | nil => simp [logRaise] at hi
  | cons r rs ih =>
    by_cases h1 : r.raisesAt l1 = true
    · exact ⟨0, Nat.zero_le _, by simp [logRaise, h1]⟩
    · have h2 : r.raisesAt l2 = false := by
        simp only [Report.raisesAt, Bool.and_eq_true, decide_eq_true_eq, not_and, Bool.and_eq_false_iff,
          decide_eq_false_iff_not] at h1 ⊢
        by_cases h0 : (r.level != 0) = true
        · right; have := h1 h0; omega
        · left; simpa using h0
      simp only [logRaise, h2, if_false, Bool.false_eq_true] at hi
      cases h3 : (logRaise l2 rs).2 with
      | none => simp [h3] at hi
      | some i' =>
        simp only [h3, Option.map_some, Option.some.injEq] at hi
        obtain ⟨j, hj, hj2⟩ := ih i' h3
        refine ⟨j + 1, by omega, ?_⟩
        simp [logRaise, h1, hj2]

theorem reportOf_fixAll_notin (c : ClsSpec) (k : CheckId) (ks : List CheckId) (hk : k ∉ ks) (h : CF) :
    reportOf c k (fixAll c ks h) = reportOf c k h := by
  induction ks generalizing h with
  | nil => rfl
  | cons k' ks ih =>
    show reportOf c k (fixAll c ks (fixOf c k' h)) = reportOf c k h
    rw [ih (fun hm => hk (List.mem_cons_of_mem _ hm)),
      reportOf_fixOf_other c k k' (fun e => hk (e ▸ List.mem_cons_self ..))]

theorem reportOf_fixAll_mem (c : ClsSpec) (k : CheckId) (ks : List CheckId) (hnd : ks.Nodup) (hk : k ∈ ks)
    (h : CF) : reportOf c k (fixAll c ks h) = reportOf c k (fixOf c k h) := by
  induction ks generalizing h with
  | nil => cases hk
  | cons k' ks ih =>
    have hnd' := List.nodup_cons.mp hnd
    show reportOf c k (fixAll c ks (fixOf c k' h)) = reportOf c k (fixOf c k h)
    rcases List.mem_cons.mp hk with rfl | hk
    · exact reportOf_fixAll_notin c k ks hnd'.1 _
    · have hne : k ≠ k' := fun e => hnd'.1 (e ▸ hk)
      rw [ih hnd'.2 hk, fixOf_comm, reportOf_fixOf_other c k k' hne]

theorem raisesAt_mono (r1 r2 : Report) (l1 l2 : Int) (hl : r2.level ≤ r1.level) (h12 : l1 ≤ l2)
    (h : r1.raisesAt l1 = false) : r2.raisesAt l2 = false := by
  simp only [Report.raisesAt, Bool.and_eq_false_iff, decide_eq_false_iff_not, bne_eq_false_iff_eq] at h ⊢
  rcases h with h | h
  · left; omega
  · by_cases h0 : r2.level = 0
    · left; simp [h0]
    · right; omega


end Nb.C10
