import NibabelModel.Lemmas.C12
/-! Lemmas/C12_Names — `parse_filename` / `types_filenames` / `splitext_addext` on accepted spellings. -/
namespace Nb.C12

/-- well-formedness of a class's `files_types` and `_compressed_suffixes`: every extension and suffix
    is dotted (`.xyz`), different members have case-insensitively different extensions, and no
    compression suffix equals an extension case-insensitively.  Decidable; checked on the regenerated
    table by `decide`. -/
def WF (T : TypesExts) (S : List Str) : Prop :=
  (∀ t ∈ T, t.2.all dotted = true) ∧
  (∀ s ∈ S, dotted s = true) ∧
  (∀ t1 ∈ T, ∀ t2 ∈ T, (t1.2.map lower = t2.2.map lower ∧ t1.2.isSome = true) → t1 = t2) ∧
  (∀ t ∈ T, ∀ s ∈ S, t.2.map lower ≠ some (lower s))

instance (T : TypesExts) (S : List Str) : Decidable (WF T S) := by unfold WF; infer_instance

theorem WF.extDotted {T S} (wf : WF T S) {n e} (h : (n, some e) ∈ T) : dotted e = true := by
  simpa using wf.1 _ h
theorem WF.sfxDotted {T S} (wf : WF T S) {s} (h : s ∈ S) : dotted s = true := wf.2.1 s h
theorem WF.extInj {T S} (wf : WF T S) {n1 e1 n2 e2} (h1 : (n1, some e1) ∈ T) (h2 : (n2, some e2) ∈ T)
    (h : lower e1 = lower e2) : n1 = n2 ∧ e1 = e2 := by
  have := wf.2.2.1 _ h1 _ h2 (by simp [h])
  simpa using this
theorem WF.disjoint {T S} (wf : WF T S) {n e s} (h : (n, some e) ∈ T) (hs : s ∈ S) : lower s ≠ lower e := by
  have := wf.2.2.2 _ h s hs
  intro h'; apply this; simp [h']

/-! ### the two `for … if endswith … break` loops -/
theorem find_suffix_some {S : List Str} (hS : ∀ s ∈ S, dotted s = true) {x a' a : Str}
    (h : lower a' = lower a) (hz : a ∈ S) :
    ∃ s, S.find? (iendsWith (x ++ a')) = some s ∧ s.length = a'.length := by
  cases hf : S.find? (iendsWith (x ++ a')) with
  | none =>
    rw [List.find?_eq_none] at hf
    exact absurd (iendsWith_append_self x a' a h) (hf a hz)
  | some s =>
    refine ⟨s, rfl, ?_⟩
    have h1 := iendsWith_dotted h (hS a hz) (hS s (List.mem_of_find?_eq_some hf)) (List.find?_some hf)
    exact length_eq_of_lower_eq (h1.trans h.symm)

theorem find_suffix_none {S : List Str} (hS : ∀ s ∈ S, dotted s = true) {x a' a : Str}
    (ha : dotted a = true) (h : lower a' = lower a) (hdis : ∀ s ∈ S, lower s ≠ lower a) :
    S.find? (iendsWith (x ++ a')) = none := by
  rw [List.find?_eq_none]
  intro s hs hm
  exact hdis s hs (iendsWith_dotted h ha (hS s hs) hm)

theorem find_type {T : TypesExts} {S : List Str} (wf : WF T S) {nm e : Str} (hm : (nm, some e) ∈ T)
    {x e' : Str} (he : lower e' = lower e) :
    T.find? (typeMatches iendsWith (x ++ e')) = some (nm, some e) := by
  have hd := wf.extDotted hm
  cases hf : T.find? (typeMatches iendsWith (x ++ e')) with
  | none =>
    rw [List.find?_eq_none] at hf
    have := hf _ hm
    simp [typeMatches, iendsWith_append_self x e' e he, dotted_ne_nil hd] at this
  | some t =>
    obtain ⟨n, oe⟩ := t
    have hp := List.find?_some hf
    have hmem := List.mem_of_find?_eq_some hf
    cases oe with
    | none => simp [typeMatches] at hp
    | some te =>
      simp only [typeMatches, Bool.and_eq_true] at hp
      have h1 := iendsWith_dotted he hd (wf.extDotted hmem) hp.2
      obtain ⟨rfl, rfl⟩ := wf.extInj hmem hm h1
      rfl

/-- what may follow the extension: nothing, or a case variant of one of the class's suffixes -/
def SfxSpelling (S : List Str) (z' : Str) : Prop := z' = [] ∨ ∃ z ∈ S, lower z' = lower z

theorem SfxSpelling.dotted {S z'} (hS : ∀ s ∈ S, dotted s = true) (h : SfxSpelling S z') (hne : z' ≠ []) :
    dotted z' = true := by
  rcases h with h | ⟨z, hz, h⟩
  · exact absurd h hne
  · exact dotted_of_lower_eq h (hS z hz)

/-- `parse_filename` on an accepted spelling: root, extension and suffix are exactly the given pieces -/
theorem parse_accepted {T : TypesExts} {S : List Str} (wf : WF T S) {nm e : Str} (hm : (nm, some e) ∈ T)
    (stem e' z' : Str) (he : lower e' = lower e) (hz : SfxSpelling S z') :
    parseFilename (stem ++ e' ++ z') T S false
      = ⟨stem, e', if z' = [] then none else some z', some nm⟩ := by
  have hd := wf.extDotted hm
  have hd' : dotted e' = true := dotted_of_lower_eq he hd
  have hlen : e.length = e'.length := (length_eq_of_lower_eq he).symm
  rcases hz with rfl | ⟨z, hzS, hzl⟩
  · have h1 : S.find? (iendsWith (stem ++ e')) = none :=
      find_suffix_none wf.2.1 hd he (fun s hs => wf.disjoint hm hs)
    simp only [parseFilename, endsFn, List.append_nil, Bool.false_eq_true, if_false, h1, find_type wf hm he,
      Option.getD_some, hlen, cutEnd_append stem e' (dotted_ne_nil hd'), if_true]
  · have hdz : dotted z' = true := dotted_of_lower_eq hzl (wf.sfxDotted hzS)
    have hne : z' ≠ [] := dotted_ne_nil hdz
    obtain ⟨s, h1, h2⟩ := find_suffix_some (x := stem ++ e') wf.2.1 hzl hzS
    simp only [parseFilename, endsFn, Bool.false_eq_true, if_false, h1, h2,
      cutEnd_append (stem ++ e') z' hne, find_type wf hm he,
      Option.getD_some, hlen, cutEnd_append stem e' (dotted_ne_nil hd'), if_neg hne]

/-- `splitext_addext` on `<stem><ext'><sfx'>` for ANY dotted extension (member or not) that no suffix of
    the class equals case-insensitively -/
theorem splitextAddext_accepted {S : List Str} (hS : ∀ s ∈ S, dotted s = true) {e : Str} (hd : dotted e = true)
    (hdis : ∀ s ∈ S, lower s ≠ lower e) (stem e' z' : Str) (he : lower e' = lower e) (hz : SfxSpelling S z') :
    splitextAddext (stem ++ e' ++ z') S false = (stem, e', z') := by
  have hd' : dotted e' = true := dotted_of_lower_eq he hd
  obtain ⟨t, rfl, h2, h3, _⟩ := (dotted_iff e').1 hd'
  have hall : (stem ++ DOT :: t).all (· = DOT) = false := by
    obtain ⟨y, hy⟩ := List.exists_mem_of_ne_nil t h2
    rw [List.all_eq_false]
    exact ⟨y, by simp [hy], by simp only [decide_eq_true_eq]; intro h; exact h3 (h ▸ hy)⟩
  rcases hz with rfl | ⟨z, hzS, hzl⟩
  · have h1 : S.find? (iendsWith (stem ++ DOT :: t)) = none := find_suffix_none hS hd he hdis
    simp only [splitextAddext, endsFn, List.append_nil, Bool.false_eq_true, if_false, h1,
      splitLast_append DOT stem t h3, hall]
  · have hdz : dotted z' = true := dotted_of_lower_eq hzl (hS z hzS)
    have hne : z' ≠ [] := dotted_ne_nil hdz
    obtain ⟨s, h1, h2'⟩ := find_suffix_some (x := stem ++ DOT :: t) hS hzl hzS
    simp only [splitextAddext, endsFn, Bool.false_eq_true, if_false, h1, h2',
      cutEnd_append (stem ++ DOT :: t) z' hne, splitLast_append DOT stem t h3, hall]

end Nb.C12

namespace Nb.C12

theorem procExt_nil (f : Str) : procExt f [] = [] := by
  unfold procExt; split <;> (try split) <;> (try split) <;> simp [upper, lower]

/-- the extension member `t` gets when member `nm` was named with extension spelling `e'` -/
def memberExt (nm e' : Str) (t : Str × Option Str) : Str :=
  if t.1 = nm then e' else match t.2 with
    | some x => procExt e' x
    | none => []

theorem removeSuffixDot_accepted {S : List Str} (hS : ∀ s ∈ S, dotted s = true) (stem e' z' : Str)
    (hd' : dotted e' = true) (hz : SfxSpelling S z') :
    removeSuffixDot (stem ++ e' ++ z') = stem ++ e' ++ z' := by
  by_cases hne : z' = []
  · subst hne; simpa using removeSuffixDot_append_dotted stem e' hd'
  · exact removeSuffixDot_append_dotted (stem ++ e') z' (hz.dotted hS hne)

theorem memberName_accepted (tmpl stem e' z' nm : Str) (t : Str × Option Str) :
    memberName true tmpl ⟨stem, e', if z' = [] then none else some z', some nm⟩ none t
      = (t.1, stem ++ memberExt nm e' t ++ z') := by
  have hz : (if truthy (if z' = [] then none else some z') then (if z' = [] then none else some z').getD [] else [])
      = z' := by
    by_cases h : z' = []
    · simp [h, truthy]
    · simp [h, truthy]
  unfold memberName
  simp only [reduceCtorEq, if_false, Bool.true_and, decide_eq_true_eq, Option.some.injEq, hz, memberExt]
  by_cases h : t.1 = nm
  · simp [h]
  · simp only [h, if_false]
    cases t.2 with
    | none => rfl
    | some x =>
      by_cases hx : x = []
      · subst hx; simp [procExt_nil]
      · simp [hx]

/-- `types_filenames` (current code) on an accepted spelling — the whole result -/
theorem typesFilenames_accepted {T : TypesExts} {S : List Str} (wf : WF T S) {nm e : Str}
    (hm : (nm, some e) ∈ T) (stem e' z' : Str) (he : lower e' = lower e) (hz : SfxSpelling S z') :
    typesFilenames (stem ++ e' ++ z') T S
      = .ok (T.map fun t => (t.1, stem ++ memberExt nm e' t ++ z')) := by
  have hd' : dotted e' = true := dotted_of_lower_eq he (wf.extDotted hm)
  unfold typesFilenames typesFilenamesGen
  simp only [removeSuffixDot_accepted wf.2.1 stem e' z' hd' hz, parse_accepted wf hm stem e' z' he hz,
    Option.isNone_some, Bool.and_false, Bool.false_and, Bool.false_eq_true, if_false, Bool.not_true]
  congr 1
  apply List.map_congr_left
  intro t _
  exact memberName_accepted _ stem e' z' nm t

/-- looking up the named member in that result gives exactly the given name -/
theorem lookup_named (T : TypesExts) (nm e stem e' z' : Str) (hm : (nm, some e) ∈ T) :
    (T.map fun t => (t.1, stem ++ memberExt nm e' t ++ z')).lookup nm = some (stem ++ e' ++ z') := by
  induction T with
  | nil => cases hm
  | cons t ts ih =>
    simp only [List.map_cons, List.lookup_cons]
    by_cases h : t.1 = nm
    · simp [h, memberExt]
    · have hb : (nm == t.1) = false := by simpa using fun h' => h h'.symm
      simp only [hb]
      apply ih
      rcases List.mem_cons.1 hm with rfl | h'
      · exact absurd rfl h
      · exact h'

theorem snd_unique_of_nodup_fst {T : TypesExts} (h : (T.map (·.1)).Nodup) {n : Str} {a b : Option Str}
    (ha : (n, a) ∈ T) (hb : (n, b) ∈ T) : a = b := by
  induction T with
  | nil => cases ha
  | cons t ts ih =>
    simp only [List.map_cons, List.nodup_cons, List.mem_map, not_exists, not_and] at h
    rcases List.mem_cons.1 ha with rfl | ha' <;> rcases List.mem_cons.1 hb with hb' | hb'
    · simpa using hb'.symm
    · exact (h.1 _ hb' rfl).elim
    · subst hb'; exact (h.1 _ ha' rfl).elim
    · exact ih h.2 ha' hb'

theorem procExt_upper {f x : Str} (hne : f ≠ []) (h : f = upper f) : procExt f x = upper x := by
  have : f.isEmpty = false := by simpa using hne
  simp [procExt, this, ← h]

theorem procExt_lower {f x : Str} (hne : f ≠ []) (h1 : f ≠ upper f) (h : f = lower f) : procExt f x = lower x := by
  have : f.isEmpty = false := by simpa using hne
  simp only [procExt, this, Bool.false_eq_true, if_false, if_neg h1]
  simp [← h]


end Nb.C12
