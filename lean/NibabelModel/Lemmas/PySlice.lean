import NibabelModel.Basic.PySlice
/-! Lemmas about the Python slice specification (core Lean only). -/
namespace Nb

theorem lt_rangeLen_pos {a b c : Int} (hc : 0 < c) (k : Nat) :
    k < rangeLen a b c ↔ a + (k : Int) * c < b := by
  unfold rangeLen
  have hnc : ¬ c < 0 := by omega
  simp only [hnc, if_false]
  split
  · rename_i hab
    have h1 : (0 : Int) ≤ (b - a - 1) / c := Int.ediv_nonneg (by omega) (by omega)
    constructor
    · intro h
      have : (k : Int) ≤ (b - a - 1) / c := by omega
      have := (Int.le_ediv_iff_mul_le hc).mp this
      omega
    · intro h
      have : (k : Int) * c ≤ b - a - 1 := by omega
      have := (Int.le_ediv_iff_mul_le hc).mpr this
      omega
  · rename_i hab
    constructor
    · intro h; omega
    · intro h
      have : 0 ≤ (k : Int) * c := Int.mul_nonneg (by omega) (by omega)
      omega

theorem lt_rangeLen_neg {a b c : Int} (hc : c < 0) (k : Nat) :
    k < rangeLen a b c ↔ b < a + (k : Int) * c := by
  unfold rangeLen
  simp only [hc, if_true]
  have hc' : 0 < -c := by omega
  split
  · rename_i hab
    have h1 : (0 : Int) ≤ (a - b - 1) / (-c) := Int.ediv_nonneg (by omega) (by omega)
    constructor
    · intro h
      have : (k : Int) ≤ (a - b - 1) / (-c) := by omega
      have := (Int.le_ediv_iff_mul_le hc').mp this
      have e : (k : Int) * -c = -((k : Int) * c) := by rw [Int.mul_neg]
      omega
    · intro h
      have e : (k : Int) * -c = -((k : Int) * c) := by rw [Int.mul_neg]
      have : (k : Int) * -c ≤ a - b - 1 := by omega
      have := (Int.le_ediv_iff_mul_le hc').mpr this
      omega
  · rename_i hab
    constructor
    · intro h; omega
    · intro h
      have : (k : Int) * c ≤ 0 := Int.mul_nonpos_of_nonneg_of_nonpos (by omega) (by omega)
      omega

namespace PySlice

theorem adjust1_bounds_pos (n : Nat) {c : Int} (hc : 0 < c) (v : Int) :
    0 ≤ adjust1 n c v ∧ adjust1 n c v ≤ n := by
  unfold adjust1; split <;> (try split) <;> (try split) <;> omega

theorem adjust1_bounds_neg (n : Nat) {c : Int} (hc : c < 0) (v : Int) :
    -1 ≤ adjust1 n c v ∧ adjust1 n c v ≤ (n : Int) - 1 := by
  unfold adjust1; split <;> (try split) <;> (try split) <;> omega

theorem indices_bounds_pos (s : PySlice) (n : Nat) (hc : 0 < s.stepVal) :
    0 ≤ (s.indices n).1 ∧ (s.indices n).1 ≤ n ∧ 0 ≤ (s.indices n).2.1 ∧ (s.indices n).2.1 ≤ n := by
  unfold indices
  have hnc : ¬ s.stepVal < 0 := by omega
  cases hs : s.start <;> cases ht : s.stop <;> simp only [hnc, if_false] <;>
    (try have := adjust1_bounds_pos n hc (‹Int›)) <;> (try rename_i v1 v2; have := adjust1_bounds_pos n hc v1; have := adjust1_bounds_pos n hc v2) <;> omega

theorem indices_bounds_neg (s : PySlice) (n : Nat) (hc : s.stepVal < 0) :
    -1 ≤ (s.indices n).1 ∧ (s.indices n).1 ≤ (n : Int) - 1 ∧
    -1 ≤ (s.indices n).2.1 ∧ (s.indices n).2.1 ≤ (n : Int) - 1 := by
  unfold indices
  cases hs : s.start <;> cases ht : s.stop <;> simp only [hc, if_true] <;>
    (try have := adjust1_bounds_neg n hc (‹Int›)) <;> (try rename_i v1 v2; have := adjust1_bounds_neg n hc v1; have := adjust1_bounds_neg n hc v2) <;> omega

theorem indices_step (s : PySlice) (n : Nat) : (s.indices n).2.2 = s.stepVal := rfl

/-- every integer produced by the slice lies in `[0, n)` -/
theorem rangeInts_mem_bounds (s : PySlice) (n : Nat) (hv : s.Valid) (k : Nat)
    (hk : k < s.len n) :
    0 ≤ (s.indices n).1 + (k : Int) * s.stepVal ∧ (s.indices n).1 + (k : Int) * s.stepVal < n := by
  unfold len at hk
  have hstep := indices_step s n
  rcases Int.lt_or_gt_of_ne hv with hc | hc
  · have hb := indices_bounds_neg s n hc
    have := (lt_rangeLen_neg (a := (s.indices n).1) (b := (s.indices n).2.1) hc k).mp (by
      simpa [hstep] using hk)
    have : (k : Int) * s.stepVal ≤ 0 := Int.mul_nonpos_of_nonneg_of_nonpos (by omega) (by omega)
    omega
  · have hb := indices_bounds_pos s n hc
    have := (lt_rangeLen_pos (a := (s.indices n).1) (b := (s.indices n).2.1) hc k).mp (by
      simpa [hstep] using hk)
    have : 0 ≤ (k : Int) * s.stepVal := Int.mul_nonneg (by omega) (by omega)
    omega

theorem sel_length (s : PySlice) (n : Nat) : (s.sel n).length = s.len n := by
  simp [sel, len, rangeInts]

theorem sel_getElem (s : PySlice) (n : Nat) (k : Nat) (hk : k < (s.sel n).length) :
    (s.sel n)[k] = ((s.indices n).1 + (k : Int) * s.stepVal).toNat := by
  simp [sel, rangeInts, indices_step]

/-- **spec theorem**: every selected index is in range -/
theorem sel_lt (s : PySlice) (n : Nat) (hv : s.Valid) : ∀ i ∈ s.sel n, i < n := by
  intro i hi
  obtain ⟨k, hk, rfl⟩ := List.getElem_of_mem hi
  rw [sel_getElem]
  have := rangeInts_mem_bounds s n hv k (by rw [← sel_length]; exact hk)
  omega

end PySlice
end Nb

/-! ### additions for C06 (rangeInts algebra, list/Option helpers, whole-axis slices) -/
namespace Nb

theorem nat_eq_of_lt_iff {x y : Nat} (h : ∀ k, k < x ↔ k < y) : x = y := by
  have h1 := h x; have h2 := h y; omega

theorem rangeInts_length (a c : Int) (L : Nat) : (rangeInts a c L).length = L := by
  simp [rangeInts]

theorem rangeInts_getElem (a c : Int) (L k : Nat) (h : k < (rangeInts a c L).length) :
    (rangeInts a c L)[k] = a + (k : Int) * c := by simp [rangeInts]

theorem rangeInts_zero (a c : Int) : rangeInts a c 0 = [] := rfl

attribute [local simp] rangeInts_length rangeInts_zero

theorem rangeInts_congr {a c a' c' : Int} {L L' : Nat} (hL : L = L')
    (h : ∀ k : Nat, k < L → a + (k : Int) * c = a' + (k : Int) * c') :
    rangeInts a c L = rangeInts a' c' L' := by
  subst hL
  apply List.ext_getElem (by simp)
  intro k h1 h2
  rw [rangeInts_getElem, rangeInts_getElem]
  exact h k (by simpa using h1)

theorem rangeInts_reverse (a c : Int) (L : Nat) :
    (rangeInts a c L).reverse = rangeInts (a + ((L : Int) - 1) * c) (-c) L := by
  apply List.ext_getElem (by simp)
  intro k h1 h2
  have hk : k < L := by simpa using h1
  rw [List.getElem_reverse, rangeInts_getElem, rangeInts_getElem]
  simp only [rangeInts_length]
  have : ((L - 1 - k : Nat) : Int) = (L : Int) - 1 - k := by omega
  rw [this]
  grind

theorem rangeLen_one (a b : Int) : rangeLen a b 1 = (b - a).toNat := by
  unfold rangeLen
  simp only [show ¬ ((1 : Int) < 0) by omega, if_false, Int.ediv_one]
  split <;> omega

theorem rangeLen_self (a c : Int) : rangeLen a a c = 0 := by
  unfold rangeLen; simp

theorem rangeLen_eq_zero_pos {a b c : Int} (hc : 0 < c) (h : b ≤ a) : rangeLen a b c = 0 := by
  unfold rangeLen
  simp only [show ¬ (c < 0) by omega, if_false, show ¬ (a < b) by omega]

theorem rangeLen_eq_zero_neg {a b c : Int} (hc : c < 0) (h : a ≤ b) : rangeLen a b c = 0 := by
  unfold rangeLen
  simp only [hc, if_true, show ¬ (b < a) by omega, if_false]

/-- list helpers -/
theorem filterMap_of_map_eq_some {α β} (f : α → Option β) :
    ∀ (xs : List α) (ys : List β), xs.map f = ys.map some → xs.filterMap f = ys
  | [], ys, h => by
      cases ys with
      | nil => rfl
      | cons y ys => simp at h
  | x :: xs, ys, h => by
      cases ys with
      | nil => simp at h
      | cons y ys =>
        simp only [List.map_cons, List.cons.injEq] at h
        rw [List.filterMap_cons_some h.1, filterMap_of_map_eq_some f xs ys h.2]

theorem map_eq_map_some_of_filterMap {α β} (f : α → Option β) (xs : List α)
    (h : ∀ x ∈ xs, (f x).isSome) : xs.map f = (xs.filterMap f).map some := by
  induction xs with
  | nil => rfl
  | cons x xs ih =>
    have hx := h x (by simp)
    obtain ⟨y, hy⟩ := Option.isSome_iff_exists.mp hx
    rw [List.filterMap_cons_some hy, List.map_cons, List.map_cons, hy,
      ih (fun z hz => h z (by simp [hz]))]

theorem map_getElem?_range {α} (l : List α) : (List.range l.length).map (l[·]?) = l.map some := by
  apply List.ext_getElem (by simp)
  intro k h1 h2
  simp

namespace PySlice

theorem indices_none (n : Nat) : (⟨none, none, none⟩ : PySlice).indices n = (0, (n : Int), 1) := by
  simp [indices, stepVal]

theorem indices_rev (n : Nat) :
    (⟨none, none, some (-1)⟩ : PySlice).indices n = ((n : Int) - 1, -1, -1) := by
  simp [indices, stepVal]

theorem sel_none (n : Nat) : (⟨none, none, none⟩ : PySlice).sel n = List.range n := by
  unfold sel
  rw [indices_none]
  simp only [rangeLen_one]
  apply List.ext_getElem (by simp)
  intro k h1 h2
  simp [rangeInts]

theorem sel_rev (n : Nat) : (⟨none, none, some (-1)⟩ : PySlice).sel n = (List.range n).reverse := by
  unfold sel
  rw [indices_rev]
  have hl : rangeLen ((n : Int) - 1) (-1) (-1) = n := by
    apply nat_eq_of_lt_iff
    intro k
    rw [lt_rangeLen_neg (by omega)]
    omega
  simp only [hl]
  apply List.ext_getElem (by simp)
  intro k h1 h2
  have hk : k < n := by simpa using h1
  simp only [List.getElem_map, rangeInts_getElem, List.getElem_reverse, List.getElem_range,
    List.length_range]
  omega

theorem apply_none {α} (l : List α) : (⟨none, none, none⟩ : PySlice).apply l = l := by
  unfold apply
  rw [sel_none]
  exact filterMap_of_map_eq_some _ _ _ (map_getElem?_range l)

theorem apply_rev {α} (l : List α) : (⟨none, none, some (-1)⟩ : PySlice).apply l = l.reverse := by
  unfold apply
  rw [sel_rev]
  apply filterMap_of_map_eq_some
  rw [List.map_reverse, List.map_reverse, map_getElem?_range]

theorem apply_range (s : PySlice) (n : Nat) (hv : s.Valid) : s.apply (List.range n) = s.sel n := by
  unfold apply
  apply filterMap_of_map_eq_some
  simp only [List.length_range]
  apply List.map_congr_left
  intro i hi
  have := sel_lt s n hv i hi
  simp [this]

end PySlice
end Nb
