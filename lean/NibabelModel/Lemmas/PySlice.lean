import NibabelModel.Basic.PySlice
/-! Lemmas about the Python slice specification (core Lean only). -/
namespace Nb

theorem lt_rangeLen_pos {a b c : Int} (hc : 0 < c) (k : Nat) :
    k < rangeLen a b c ↔ a + (k : Int) * c < b := by
  unfold rangeLen
  have hnc : ¬ c < 0 := by omega
  simp only [hnc, if_false]
  split
  · rename_i hab
    have h1 : (0 : Int) ≤ (b - a - 1) / c := Int.ediv_nonneg (by omega) (by omega)
    constructor
    · intro h
      have : (k : Int) ≤ (b - a - 1) / c := by omega
      have := (Int.le_ediv_iff_mul_le hc).mp this
      omega
    · intro h
      have : (k : Int) * c ≤ b - a - 1 := by omega
      have := (Int.le_ediv_iff_mul_le hc).mpr this
      omega
  · rename_i hab
    constructor
    · intro h; omega
    · intro h
      have : 0 ≤ (k : Int) * c := Int.mul_nonneg (by omega) (by omega)
      omega

theorem lt_rangeLen_neg {a b c : Int} (hc : c < 0) (k : Nat) :
    k < rangeLen a b c ↔ b < a + (k : Int) * c := by
  unfold rangeLen
  simp only [hc, if_true]
  have hc' : 0 < -c := by omega
  split
  · rename_i hab
    have h1 : (0 : Int) ≤ (a - b - 1) / (-c) := Int.ediv_nonneg (by omega) (by omega)
    constructor
    · intro h
      have : (k : Int) ≤ (a - b - 1) / (-c) := by omega
      have := (Int.le_ediv_iff_mul_le hc').mp this
      have e : (k : Int) * -c = -((k : Int) * c) := by rw [Int.mul_neg]
      omega
    · intro h
      have e : (k : Int) * -c = -((k : Int) * c) := by rw [Int.mul_neg]
      have : (k : Int) * -c ≤ a - b - 1 := by omega
      have := (Int.le_ediv_iff_mul_le hc').mpr this
      omega
  · rename_i hab
    constructor
    · intro h; omega
    · intro h
      have : (k : Int) * c ≤ 0 := Int.mul_nonpos_of_nonneg_of_nonpos (by omega) (by omega)
      omega

namespace PySlice

theorem adjust1_bounds_pos (n : Nat) {c : Int} (hc : 0 < c) (v : Int) :
    0 ≤ adjust1 n c v ∧ adjust1 n c v ≤ n := by
  unfold adjust1; split <;> (try split) <;> (try split) <;> omega

theorem adjust1_bounds_neg (n : Nat) {c : Int} (hc : c < 0) (v : Int) :
    -1 ≤ adjust1 n c v ∧ adjust1 n c v ≤ (n : Int) - 1 := by
  unfold adjust1; split <;> (try split) <;> (try split) <;> omega

theorem indices_bounds_pos (s : PySlice) (n : Nat) (hc : 0 < s.stepVal) :
    0 ≤ (s.indices n).1 ∧ (s.indices n).1 ≤ n ∧ 0 ≤ (s.indices n).2.1 ∧ (s.indices n).2.1 ≤ n := by
  unfold indices
  have hnc : ¬ s.stepVal < 0 := by omega
  cases hs : s.start <;> cases ht : s.stop <;> simp only [hnc, if_false] <;>
    (try have := adjust1_bounds_pos n hc (‹Int›)) <;> (try rename_i v1 v2; have := adjust1_bounds_pos n hc v1; have := adjust1_bounds_pos n hc v2) <;> omega

theorem indices_bounds_neg (s : PySlice) (n : Nat) (hc : s.stepVal < 0) :
    -1 ≤ (s.indices n).1 ∧ (s.indices n).1 ≤ (n : Int) - 1 ∧
    -1 ≤ (s.indices n).2.1 ∧ (s.indices n).2.1 ≤ (n : Int) - 1 := by
  unfold indices
  cases hs : s.start <;> cases ht : s.stop <;> simp only [hc, if_true] <;>
    (try have := adjust1_bounds_neg n hc (‹Int›)) <;> (try rename_i v1 v2; have := adjust1_bounds_neg n hc v1; have := adjust1_bounds_neg n hc v2) <;> omega

theorem indices_step (s : PySlice) (n : Nat) : (s.indices n).2.2 = s.stepVal := rfl

/-- every integer produced by the slice lies in `[0, n)` -/
theorem rangeInts_mem_bounds (s : PySlice) (n : Nat) (hv : s.Valid) (k : Nat)
    (hk : k < s.len n) :
    0 ≤ (s.indices n).1 + (k : Int) * s.stepVal ∧ (s.indices n).1 + (k : Int) * s.stepVal < n := by
  unfold len at hk
  have hstep := indices_step s n
  rcases Int.lt_or_gt_of_ne hv with hc | hc
  · have hb := indices_bounds_neg s n hc
    have := (lt_rangeLen_neg (a := (s.indices n).1) (b := (s.indices n).2.1) hc k).mp (by
      simpa [hstep] using hk)
    have : (k : Int) * s.stepVal ≤ 0 := Int.mul_nonpos_of_nonneg_of_nonpos (by omega) (by omega)
    omega
  · have hb := indices_bounds_pos s n hc
    have := (lt_rangeLen_pos (a := (s.indices n).1) (b := (s.indices n).2.1) hc k).mp (by
      simpa [hstep] using hk)
    have : 0 ≤ (k : Int) * s.stepVal := Int.mul_nonneg (by omega) (by omega)
    omega

theorem sel_length (s : PySlice) (n : Nat) : (s.sel n).length = s.len n := by
  simp [sel, len, rangeInts]

theorem sel_getElem (s : PySlice) (n : Nat) (k : Nat) (hk : k < (s.sel n).length) :
    (s.sel n)[k] = ((s.indices n).1 + (k : Int) * s.stepVal).toNat := by
  simp [sel, rangeInts, indices_step]

/-- **spec theorem**: every selected index is in range -/
theorem sel_lt (s : PySlice) (n : Nat) (hv : s.Valid) : ∀ i ∈ s.sel n, i < n := by
  intro i hi
  obtain ⟨k, hk, rfl⟩ := List.getElem_of_mem hi
  rw [sel_getElem]
  have := rangeInts_mem_bounds s n hv k (by rw [← sel_length]; exact hk)
  omega

end PySlice
end Nb
