import NibabelModel.Model.C03
import NibabelModel.Lemmas.C03
import NibabelModel.Lemmas.C03_EcatMain
/-! Lemmas/C03_Afni — the broadcast factor array of `AFNIArrayProxy._get_scaled` (core Lean only). -/
namespace Nb.C03
open Nb Nb.C06

theorem blocks_eq_div (P : Nat) : ∀ T : Nat,
    (List.range T).flatMap (fun t => List.replicate P t) = (List.range (P * T)).map (· / P)
  | 0 => by simp
  | T + 1 => by
      rw [List.range_succ, List.flatMap_append, blocks_eq_div P T, Nat.mul_succ, List.range_add, List.map_append]
      congr 1
      simp only [List.flatMap_cons, List.flatMap_nil, List.append_nil, List.map_map]
      apply List.ext_getElem (by simp)
      intro i h1 h2
      simp only [List.length_replicate] at h1
      simp only [List.getElem_replicate, List.getElem_map, List.getElem_range, Function.comp]
      rw [Nat.mul_comm P T, Nat.add_comm, Nat.add_mul_div_right _ _ (by omega : 0 < P), Nat.div_eq_of_lt h1]
      simp

theorem prod_dropLast_getLast (shape : List Nat) (hne : shape ≠ []) :
    shape.prod = shape.dropLast.prod * shape.getLast?.getD 0 := by
  have := List.dropLast_concat_getLast hne
  conv => lhs; rw [← this]
  simp [List.getLast?_eq_some_getLast hne]

theorem afni_scale_alongside' (shape : List Nat) (idx : List IdxItem) (hne : shape ≠ [])
    (hv : ∀ s, IdxItem.slice s ∈ idx → s.Valid) (r : List Nat × List Nat)
    (hnp : npIndex idx shape .F = .ok r) :
    afniScaleSlotsB shape idx = .ok (r.1, r.2.map (· / shape.dropLast.prod)) ∧
    afniScaleSlots shape idx = afniScaleSlotsB shape idx ∧
    ∀ q ∈ r.2, q / shape.dropLast.prod < shape.getLast?.getD 0 := by
  have hlt := npIndex_lt_F idx shape r hv hnp
  have hp := prod_dropLast_getLast shape hne
  have key : ∀ q ∈ r.2, (afniBroadcast shape).getD q 0 = q / shape.dropLast.prod := by
    intro q hq
    have h := hlt q hq
    rw [hp] at h
    simp only [afniBroadcast, blocks_eq_div, List.getD_eq_getElem?_getD]
    rw [List.getElem?_map, List.getElem?_range h]; rfl
  have e1 : afniScaleSlotsB shape idx = .ok (r.1, r.2.map (· / shape.dropLast.prod)) := by
    simp only [afniScaleSlotsB, hnp, bind, Except.bind, pure, Except.pure]
    congr 2
    exact List.map_congr_left key
  refine ⟨e1, ?_, ?_⟩
  · rw [e1]; simp [afniScaleSlots, hnp, bind, Except.bind, pure, Except.pure]
  · intro q hq
    have h := hlt q hq
    rw [hp] at h
    have hP : 0 < shape.dropLast.prod := by
      rcases Nat.eq_zero_or_pos shape.dropLast.prod with h0 | h0
      · rw [h0] at h; simp at h
      · exact h0
    exact (Nat.div_lt_iff_lt_mul hP).mpr (by rw [Nat.mul_comm]; exact h)
end Nb.C03
