import NibabelModel.Lemmas.C15_Set
/-! Lemmas/C15_Copy — `Tractogram.copy()` (`copy.deepcopy`) and `T + U` over the sequence heap: the deep copy
    clones the sequences a tractogram holds onto NEW ndarrays (sharing inside the tractogram kept), so the
    storage invariant carries over, no live sequence changes and nothing is shared with an older object. -/
namespace Nb.C15
open Nb

theorem mem_dedupNat {x : Nat} : ∀ {l : List Nat}, x ∈ dedupNat l ↔ x ∈ l := by
  intro l
  induction l with
  | nil => simp [dedupNat]
  | cons b bs ih =>
    simp only [dedupNat, List.mem_cons, List.mem_filter, ih, bne_iff_ne, ne_eq]
    constructor
    · rintro (h | ⟨h, _⟩)
      · exact Or.inl h
      · exact Or.inr h
    · intro h
      by_cases hx : x = b
      · exact Or.inl hx
      · rcases h with h | h
        · exact Or.inl h
        · exact Or.inr ⟨h, hx⟩

theorem nodup_dedupNat : ∀ (l : List Nat), (dedupNat l).Nodup := by
  intro l
  induction l with
  | nil => simp [dedupNat]
  | cons b bs ih =>
    simp only [dedupNat, List.nodup_cons, List.mem_filter, bne_iff_ne, ne_eq, not_true_eq_false, and_false,
      not_false_eq_true, true_and]
    exact List.Nodup.sublist List.filter_sublist ih

/-- the state after cloning the sequences `ms` onto copies of the buffers `bs` -/
def cloneState (σ : State) (ms bs : List Nat) : State :=
  { heap := σ.heap ++ bs.map σ.bufAt,
    seqs := σ.seqs ++ ms.map (fun m => { σ.seqAt m with buf := σ.heap.length + bs.idxOf (σ.seqAt m).buf }) }

/-- the clone of live sequence `m` -/
def cloneOf (σ : State) (bs : List Nat) (m : Nat) : Seq :=
  { σ.seqAt m with buf := σ.heap.length + bs.idxOf (σ.seqAt m).buf }

theorem cloneState_seqs_length (σ : State) (ms bs : List Nat) :
    (cloneState σ ms bs).seqs.length = σ.seqs.length + ms.length := by
  simp [cloneState]

theorem cloneState_heap_length (σ : State) (ms bs : List Nat) :
    (cloneState σ ms bs).heap.length = σ.heap.length + bs.length := by
  simp [cloneState]

/-- every sequence of the cloned state is an old one, or the clone of a member of `ms` -/
theorem cloneState_get {σ : State} {ms bs : List Nat} (hnd : ms.Nodup) {i : Nat} {s : Seq}
    (hs : (cloneState σ ms bs).seqs[i]? = some s) :
    (i < σ.seqs.length ∧ σ.seqs[i]? = some s) ∨
    (∃ m, m ∈ ms ∧ i = σ.seqs.length + ms.idxOf m ∧ s = cloneOf σ bs m) := by
  simp only [cloneState] at hs
  by_cases hi : i < σ.seqs.length
  · rw [List.getElem?_append_left hi] at hs
    exact Or.inl ⟨hi, hs⟩
  · rw [List.getElem?_append_right (by omega), List.getElem?_map] at hs
    cases hj : ms[i - σ.seqs.length]? with
    | none => rw [hj] at hs; cases hs
    | some m =>
      rw [hj] at hs
      simp only [Option.map_some, Option.some.injEq] at hs
      obtain ⟨hlt, hget⟩ := List.getElem?_eq_some_iff.mp hj
      refine Or.inr ⟨m, ?_, ?_, hs.symm⟩
      · rw [← hget]; exact List.getElem_mem hlt
      · have := hnd.idxOf_getElem (i - σ.seqs.length) hlt
        rw [hget] at this
        omega

theorem cloneState_seqAt_old (σ : State) (ms bs : List Nat) {u : Nat} (hu : u < σ.seqs.length) :
    (cloneState σ ms bs).seqAt u = σ.seqAt u := by
  simp only [State.seqAt, cloneState, List.getD_eq_getElem?_getD, List.getElem?_append_left hu]

theorem cloneState_seqAt_new (σ : State) {ms : List Nat} (bs : List Nat) (_hnd : ms.Nodup) {m : Nat} (hm : m ∈ ms) :
    (cloneState σ ms bs).seqAt (σ.seqs.length + ms.idxOf m) = cloneOf σ bs m := by
  have hlt : ms.idxOf m < ms.length := List.idxOf_lt_length_iff.mpr hm
  simp only [State.seqAt, cloneState, List.getD_eq_getElem?_getD]
  rw [List.getElem?_append_right (by omega), List.getElem?_map]
  have : σ.seqs.length + ms.idxOf m - σ.seqs.length = ms.idxOf m := by omega
  rw [this, List.getElem?_eq_getElem hlt, List.getElem_idxOf hlt]
  rfl

theorem cloneState_bufAt_old (σ : State) (ms bs : List Nat) {b : Nat} (hb : b < σ.heap.length) :
    (cloneState σ ms bs).bufAt b = σ.bufAt b := by
  simp only [State.bufAt, cloneState, List.getD_eq_getElem?_getD, List.getElem?_append_left hb]

theorem cloneState_bufAt_new (σ : State) (ms : List Nat) {bs : List Nat} {b : Nat} (hb : b ∈ bs) :
    (cloneState σ ms bs).bufAt (σ.heap.length + bs.idxOf b) = σ.bufAt b := by
  have hlt : bs.idxOf b < bs.length := List.idxOf_lt_length_iff.mpr hb
  simp only [State.bufAt, cloneState, List.getD_eq_getElem?_getD]
  rw [List.getElem?_append_right (by omega), List.getElem?_map]
  have : σ.heap.length + bs.idxOf b - σ.heap.length = bs.idxOf b := by omega
  rw [this, List.getElem?_eq_getElem hlt, List.getElem_idxOf hlt]
  rfl

theorem idxOf_inj {bs : List Nat} {a b : Nat} (ha : a ∈ bs) (hb : b ∈ bs) (h : bs.idxOf a = bs.idxOf b) : a = b := by
  have h1 := List.getElem_idxOf (List.idxOf_lt_length_iff.mpr ha)
  have h2 := List.getElem_idxOf (List.idxOf_lt_length_iff.mpr hb)
  rw [← h1, ← h2]
  simp only [h]

/-- cloning live sequences onto copies of their buffers keeps the storage invariant -/
theorem inv_cloneState {σ : State} (h : Inv σ) {ms bs : List Nat} (hms : ∀ m ∈ ms, m < σ.seqs.length)
    (hnd : ms.Nodup) (hbs : ∀ m ∈ ms, (σ.seqAt m).buf ∈ bs) (hbl : ∀ b ∈ bs, b < σ.heap.length) :
    Inv (cloneState σ ms bs) := by
  have hget := fun {i : Nat} {s : Seq} (hs : (cloneState σ ms bs).seqs[i]? = some s) => cloneState_get (bs := bs) hnd hs
  have holdbuf : ∀ {i : Nat} {s : Seq}, σ.seqs[i]? = some s → s.buf < σ.heap.length := fun hs => h.bufLt _ _ hs
  have hcb : ∀ m, m ∈ ms → (cloneState σ ms bs).bufAt (cloneOf σ bs m).buf = σ.bufAt (σ.seqAt m).buf :=
    fun m hm => cloneState_bufAt_new σ ms (hbs m hm)
  have hcge : ∀ m, σ.heap.length ≤ (cloneOf σ bs m).buf := fun m => by simp [cloneOf]
  have hsm : ∀ m, m ∈ ms → σ.seqs[m]? = some (σ.seqAt m) := fun m hm => get_seqAt (hms m hm)
  -- two clones on one new buffer come from two sequences on one old buffer
  have hsame : ∀ m m', m ∈ ms → m' ∈ ms → (cloneOf σ bs m).buf = (cloneOf σ bs m').buf →
      (σ.seqAt m).buf = (σ.seqAt m').buf := by
    intro m m' hm hm' he
    simp only [cloneOf] at he
    exact idxOf_inj (hbs m hm) (hbs m' hm') (by omega)
  constructor
  · intro i s hs
    rw [cloneState_heap_length]
    rcases hget hs with ⟨_, ho⟩ | ⟨m, hm, _, rfl⟩
    · have := holdbuf ho; omega
    · have := List.idxOf_lt_length_iff.mpr (hbs m hm)
      simp only [cloneOf]; omega
  · intro b hb
    rw [cloneState_heap_length] at hb
    by_cases hb' : b < σ.heap.length
    · rw [cloneState_bufAt_old σ ms bs hb']; exact h.capOk b hb'
    · have hk : b - σ.heap.length < bs.length := by omega
      have hmem : bs[b - σ.heap.length] ∈ bs := List.getElem_mem hk
      have hnd' : b = σ.heap.length + (b - σ.heap.length) := by omega
      simp only [State.bufAt, cloneState, List.getD_eq_getElem?_getD]
      rw [List.getElem?_append_right (by omega), List.getElem?_map, List.getElem?_eq_getElem hk]
      simp only [Option.map_some, Option.getD_some]
      exact h.capOk _ (hbl _ hmem)
  · intro i s hs r hr
    rcases hget hs with ⟨_, ho⟩ | ⟨m, hm, _, rfl⟩
    · exact h.pos i s ho r hr
    · exact h.pos m _ (hsm m hm) r hr
  · intro i s hs
    rcases hget hs with ⟨_, ho⟩ | ⟨m, hm, _, rfl⟩
    · rw [cloneState_bufAt_old σ ms bs (holdbuf ho)]; exact h.inb i s ho
    · rw [hcb m hm]; exact h.inb m _ (hsm m hm)
  · intro i j s s' hs hs' hij hown hb
    rcases hget hs with ⟨_, ho⟩ | ⟨m, hm, hi, rfl⟩
    · rcases hget hs' with ⟨_, ho'⟩ | ⟨m', hm', _, rfl⟩
      · exact h.oneOwner i j s s' ho ho' hij hown hb
      · have := holdbuf ho; have := hcge m'; omega
    · rcases hget hs' with ⟨_, ho'⟩ | ⟨m', hm', hj, rfl⟩
      · have := holdbuf ho'; have := hcge m; omega
      · have hne : m ≠ m' := by
          intro e; subst e; omega
        exact h.oneOwner m m' (σ.seqAt m) (σ.seqAt m') (hsm m hm) (hsm m' hm') hne hown (hsame m m' hm hm' hb)
  · intro i j s s' hs hs' hown hb
    rcases hget hs with ⟨_, ho⟩ | ⟨m, hm, hi, rfl⟩
    · rcases hget hs' with ⟨_, ho'⟩ | ⟨m', hm', _, rfl⟩
      · exact h.tail i j s s' ho ho' hown hb
      · have := holdbuf ho; have := hcge m'; omega
    · rcases hget hs' with ⟨_, ho'⟩ | ⟨m', hm', hj, rfl⟩
      · have := holdbuf ho'; have := hcge m; omega
      · exact h.tail m m' (σ.seqAt m) (σ.seqAt m') (hsm m hm) (hsm m' hm') hown (hsame m' m hm' hm hb)
  · intro i j s s' hs hs' hb
    rcases hget hs with ⟨_, ho⟩ | ⟨m, hm, hi, rfl⟩
    · rcases hget hs' with ⟨_, ho'⟩ | ⟨m', hm', _, rfl⟩
      · exact h.cells i j s s' ho ho' hb
      · have := holdbuf ho; have := hcge m'; omega
    · rcases hget hs' with ⟨_, ho'⟩ | ⟨m', hm', hj, rfl⟩
      · have := holdbuf ho'; have := hcge m; omega
      · exact h.cells m m' (σ.seqAt m) (σ.seqAt m') (hsm m hm) (hsm m' hm') (hsame m m' hm hm' hb)

/-- the old sequences show what they showed -/
theorem cloneState_contents_old {σ : State} (h : Inv σ) (ms bs : List Nat) {u : Nat} (hu : u < σ.seqs.length) :
    (cloneState σ ms bs).contents u = σ.contents u := by
  simp only [contents_def, cloneState_seqAt_old σ ms bs hu,
    cloneState_bufAt_old σ ms bs (h.bufLt u _ (get_seqAt hu))]

/-- a clone shows what its original shows -/
theorem cloneState_contents_new {σ : State} {ms bs : List Nat} (hnd : ms.Nodup) {m : Nat} (hm : m ∈ ms)
    (hb : (σ.seqAt m).buf ∈ bs) :
    (cloneState σ ms bs).contents (σ.seqs.length + ms.idxOf m) = σ.contents m := by
  have hb' := cloneState_bufAt_new σ ms hb
  simp only [contents_def, cloneState_seqAt_new σ bs hnd hm]
  simp only [cloneOf]
  rw [hb']

theorem tcopy_st (τ : TState) (T : Nat) :
    (tcopy τ T).st = cloneState τ.st (dedupNat (τ.tractAt T).members)
      (dedupNat ((dedupNat (τ.tractAt T).members).map (fun m => (τ.st.seqAt m).buf))) := rfl

theorem tcopy_tracts (τ : TState) (T : Nat) :
    (tcopy τ T).tracts = τ.tracts ++ [⟨τ.st.seqs.length + (dedupNat (τ.tractAt T).members).idxOf (τ.tractAt T).sl,
      (τ.tractAt T).dpp.map (fun kf => (kf.1, τ.st.seqs.length + (dedupNat (τ.tractAt T).members).idxOf kf.2)),
      (τ.tractAt T).nRows⟩] := rfl

/-- the members of the copy are the clones of the members of the original -/
theorem tcopy_members (τ : TState) (T : Nat) :
    ((tcopy τ T).tractAt τ.tracts.length).members =
      (τ.tractAt T).members.map (fun m => τ.st.seqs.length + (dedupNat (τ.tractAt T).members).idxOf m) := by
  simp only [TState.tractAt, tcopy_tracts, List.getD_eq_getElem?_getD,
    List.getElem?_append_right (Nat.le_refl _), Nat.sub_self, List.getElem?_cons_zero, Option.getD_some,
    Tract.members, List.map_cons, List.map_map]
  rfl

/-- `T.copy()`: `TInv` is kept, NO live sequence changes, the copy holds only NEW sequences, each showing what
    the original's sequence shows, each stored in a NEW ndarray (`≥ heap.length`: no older sequence is on it) -/
theorem tcopy_spec {τ : TState} (h : TInv τ) {T : Nat} (hT : T < τ.tracts.length) :
    TInv (tcopy τ T) ∧ Keeps nobody τ.st (tcopy τ T).st ∧ (tcopy τ T).tracts.length = τ.tracts.length + 1 ∧
    (∀ X, X < τ.tracts.length → (tcopy τ T).tractAt X = τ.tractAt X) ∧
    (∀ m ∈ ((tcopy τ T).tractAt τ.tracts.length).members, τ.st.seqs.length ≤ m ∧
      τ.st.heap.length ≤ ((tcopy τ T).st.seqAt m).buf) ∧
    (((tcopy τ T).tractAt τ.tracts.length).members.map (tcopy τ T).st.contents =
      (τ.tractAt T).members.map τ.st.contents) ∧
    (∀ u, u < τ.st.seqs.length → (tcopy τ T).st.seqAt u = τ.st.seqAt u) := by
  have hlive := h.live _ (tractAt_mem hT)
  have hms : ∀ m ∈ dedupNat (τ.tractAt T).members, m < τ.st.seqs.length :=
    fun m hm => hlive m (mem_dedupNat.mp hm)
  have hnd := nodup_dedupNat (τ.tractAt T).members
  have hbs : ∀ m ∈ dedupNat (τ.tractAt T).members, (τ.st.seqAt m).buf ∈
      dedupNat ((dedupNat (τ.tractAt T).members).map (fun m => (τ.st.seqAt m).buf)) := by
    intro m hm
    exact mem_dedupNat.mpr (List.mem_map.mpr ⟨m, hm, rfl⟩)
  have hbl : ∀ b ∈ dedupNat ((dedupNat (τ.tractAt T).members).map (fun m => (τ.st.seqAt m).buf)),
      b < τ.st.heap.length := by
    intro b hb
    obtain ⟨m, hm, rfl⟩ := List.mem_map.mp (mem_dedupNat.mp hb)
    exact h.inv.bufLt m _ (get_seqAt (hms m hm))
  have hinv := inv_cloneState h.inv hms hnd hbs hbl
  have hk : Keeps nobody τ.st (tcopy τ T).st := by
    rw [tcopy_st]
    exact ⟨hinv, by rw [cloneState_seqs_length]; omega, fun u hu _ => cloneState_contents_old h.inv _ _ hu⟩
  have hmem := tcopy_members τ T
  have hidx : ∀ m ∈ (τ.tractAt T).members,
      (dedupNat (τ.tractAt T).members).idxOf m < (dedupNat (τ.tractAt T).members).length :=
    fun m hm => List.idxOf_lt_length_iff.mpr (mem_dedupNat.mpr hm)
  refine ⟨?_, hk, by simp [tcopy_tracts], ?_, ?_, ?_, ?_⟩
  · refine ⟨hk.inv, ?_⟩
    intro t ht m hm
    rw [tcopy_tracts] at ht
    simp only [List.mem_append, List.mem_singleton] at ht
    rcases ht with ht | ht
    · exact Nat.lt_of_lt_of_le (h.live t ht m hm) hk.len
    · have : t.members = ((tcopy τ T).tractAt τ.tracts.length).members := by
        subst ht
        simp only [TState.tractAt, tcopy_tracts, List.getD_eq_getElem?_getD,
          List.getElem?_append_right (Nat.le_refl _), Nat.sub_self, List.getElem?_cons_zero, Option.getD_some]
      rw [this, hmem] at hm
      obtain ⟨m0, hm0, rfl⟩ := List.mem_map.mp hm
      rw [tcopy_st, cloneState_seqs_length]
      have := hidx m0 hm0
      omega
  · intro X hX
    simp [TState.tractAt, tcopy_tracts, List.getD, List.getElem?_append_left hX]
  · intro m hm
    rw [hmem] at hm
    obtain ⟨m0, hm0, rfl⟩ := List.mem_map.mp hm
    refine ⟨by omega, ?_⟩
    rw [tcopy_st, cloneState_seqAt_new _ _ hnd (mem_dedupNat.mpr hm0)]
    simp [cloneOf]
  · rw [hmem, List.map_map]
    apply List.map_congr_left
    intro m0 hm0
    simp only [Function.comp]
    rw [tcopy_st]
    exact cloneState_contents_new hnd (mem_dedupNat.mpr hm0) (hbs m0 (mem_dedupNat.mpr hm0))
  · intro u hu
    rw [tcopy_st]
    exact cloneState_seqAt_old _ _ _ hu

/-! ### which ndarray a growing sequence ends up on (no invariant needed: pure bookkeeping) -/

/-- `σ'` comes from `σ` by operations that re-seat only sequences in `A`: every other sequence OBJECT is
    untouched, and a sequence in `A` sits on the ndarray it had or on one allocated since -/
structure GrowsIn (A : Nat → Prop) (σ σ' : State) : Prop where
  others : ∀ x, ¬ A x → σ'.seqAt x = σ.seqAt x
  buf : ∀ m, A m → (σ'.seqAt m).buf = (σ.seqAt m).buf ∨ σ.heap.length ≤ (σ'.seqAt m).buf
  heap : σ.heap.length ≤ σ'.heap.length

theorem GrowsIn.refl (A : Nat → Prop) (σ : State) : GrowsIn A σ σ :=
  ⟨fun _ _ => rfl, fun _ _ => Or.inl rfl, Nat.le_refl _⟩

theorem GrowsIn.trans {A : Nat → Prop} {σ σ' σ'' : State} (a : GrowsIn A σ σ') (b : GrowsIn A σ' σ'') :
    GrowsIn A σ σ'' := by
  refine ⟨fun x hx => by rw [b.others x hx, a.others x hx], ?_, Nat.le_trans a.heap b.heap⟩
  intro m hm
  rcases b.buf m hm with h2 | h2
  · rcases a.buf m hm with h1 | h1
    · exact Or.inl (by rw [h2, h1])
    · exact Or.inr (by rw [h2]; exact h1)
  · exact Or.inr (Nat.le_trans a.heap h2)

theorem GrowsIn.mono {A B : Nat → Prop} {σ σ' : State} (a : GrowsIn A σ σ') (hAB : ∀ x, A x → B x) :
    GrowsIn B σ σ' := by
  refine ⟨fun x hx => a.others x (fun h => hx (hAB x h)), ?_, a.heap⟩
  intro m _
  by_cases hA : A m
  · exact a.buf m hA
  · exact Or.inl (by rw [a.others m hA])

/-- re-seating sequence `t` on buffer `b` (the one it had, or a new one) -/
theorem growsIn_setSeq (σ : State) (t : Nat) (s : Seq)
    (hb : s.buf = (σ.seqAt t).buf ∨ σ.heap.length ≤ s.buf) : GrowsIn (· = t) σ (σ.setSeq t s) := by
  refine ⟨?_, ?_, Nat.le_refl _⟩
  · intro x hx
    rw [seqAt_setSeq, if_neg (fun h => hx h.1)]
  · intro m hm
    subst hm
    rw [seqAt_setSeq]
    split
    · exact hb
    · exact Or.inl rfl

theorem growsIn_setBuf (A : Nat → Prop) (σ : State) (b : Nat) (x : Buf) : GrowsIn A σ (σ.setBuf b x) :=
  ⟨fun _ _ => rfl, fun _ _ => Or.inl rfl, by rw [setBuf_heap_length]; exact Nat.le_refl _⟩

theorem growsIn_alloc_setSeq (σ : State) (t : Nat) (x : Buf) (s : Seq) (hb : s.buf = σ.heap.length) :
    GrowsIn (· = t) σ ((σ.alloc x).1.setSeq t s) := by
  refine ⟨?_, ?_, ?_⟩
  · intro y hy
    rw [seqAt_setSeq, if_neg (fun h => hy h.1)]
    rfl
  · intro m hm
    subst hm
    rw [seqAt_setSeq]
    split
    · exact Or.inr (by rw [hb]; exact Nat.le_refl _)
    · exact Or.inl rfl
  · show σ.heap.length ≤ ((σ.alloc x).1.setSeq t s).heap.length
    rw [setSeq_heap, alloc_heap_length]; omega

theorem growsIn_ownData (σ : State) (t : Nat) : GrowsIn (· = t) σ (ownData σ t) := by
  unfold ownData
  simp only
  split
  · rw [copySeq_fst, copySeq_snd]
    exact growsIn_alloc_setSeq σ t _ _ rfl
  · exact GrowsIn.refl _ _

theorem growsIn_resizeDataTo (σ : State) (t n : Nat) (c : Cache) : GrowsIn (· = t) σ (resizeDataTo σ t n c) := by
  unfold resizeDataTo
  simp only
  split
  · exact growsIn_alloc_setSeq σ t _ _ rfl
  · split
    · exact GrowsIn.refl _ _
    · split
      · exact growsIn_alloc_setSeq σ t _ _ rfl
      · exact growsIn_setBuf _ _ _ _

theorem growsIn_appendCore (σ : State) (t : Nat) (el : Elem) (c : Cache) :
    GrowsIn (· = t) σ (appendCore σ t el c).1 := by
  unfold appendCore
  simp only
  refine GrowsIn.trans (σ' := if (σ.bufAt (σ.seqAt t).buf).cap < c.next + el.length
      then resizeDataTo σ t (c.next + el.length) c else σ) ?_ (growsIn_setBuf _ _ _ _)
  split
  · exact growsIn_resizeDataTo σ t _ c
  · exact GrowsIn.refl _ _

theorem growsIn_appendLoop (t : Nat) (els : List Elem) : ∀ (σ : State) (c : Cache),
    GrowsIn (· = t) σ (appendLoop σ t c els).1 := by
  induction els with
  | nil => intro σ c; exact GrowsIn.refl _ _
  | cons e es ih =>
    intro σ c
    simp only [appendLoop]
    split
    · exact ih σ c
    · exact (growsIn_appendCore σ t e c).trans (ih _ _)

theorem growsIn_finalize (σ : State) (t : Nat) (c : Cache) : GrowsIn (· = t) σ (finalize σ t c) := by
  have h1 : GrowsIn (· = t) σ (updateSeq σ t c) := by
    unfold updateSeq
    exact growsIn_setSeq σ t _ (Or.inl rfl)
  exact h1.trans (growsIn_setBuf _ _ _ _)

theorem growsIn_extendList (σ : State) (t : Nat) (els : List Elem) (w dt : Nat) :
    GrowsIn (· = t) σ (extendList σ t els w dt) := by
  unfold extendList
  split
  · exact GrowsIn.refl _ _
  · exact (growsIn_ownData σ t).trans ((growsIn_resizeDataTo _ t _ _).trans
      ((growsIn_appendLoop t els _ _).trans (growsIn_finalize _ t _)))

/-- `t.extend(u)`: only `t` is re-seated, on its own ndarray or on a new one -/
theorem growsIn_extendSeq (σ : State) (t u w : Nat) : GrowsIn (· = t) σ (extendSeq σ t u w) :=
  growsIn_extendList σ t _ w _

/-- `PerArrayDict.extend` when the receiver has every key of the donor: the dict is unchanged and only the
    receiver's own per-point sequences are re-seated (no entry is taken over as a view of the donor's) -/
theorem growsIn_dppExtend (nRows w : Nat) : ∀ (l : List (Nat × Nat)) (σ : State) (d : List (Nat × Nat)),
    (∀ kf ∈ l, dictGet d kf.1 ≠ none) →
    (dppExtend nRows w σ d l).2.1 = d ∧ GrowsIn (fun x => x ∈ d.map (·.2)) σ (dppExtend nRows w σ d l).1 := by
  intro l
  induction l with
  | nil => intro σ d _; exact ⟨rfl, GrowsIn.refl _ _⟩
  | cons kf rest ih =>
    intro σ d hk
    obtain ⟨k, f⟩ := kf
    simp only [dppExtend]
    cases hg : dictGet d k with
    | none => exact absurd hg (hk (k, f) (by simp))
    | some mine =>
      simp only
      obtain ⟨a, b⟩ := ih (extendSeq σ mine f w) d (fun kf hkf => hk kf (by simp [hkf]))
      refine ⟨a, GrowsIn.trans ((growsIn_extendSeq σ mine f w).mono ?_) b⟩
      intro x hx
      subst hx
      exact dictGet_mem hg

theorem dictGet_map_snd (g : Nat → Nat) (k : Nat) : ∀ (d : List (Nat × Nat)),
    dictGet (d.map (fun kf => (kf.1, g kf.2))) k = (dictGet d k).map g := by
  intro d
  induction d with
  | nil => rfl
  | cons a rest ih =>
    simp only [dictGet, List.map_cons, List.find?_cons] at ih ⊢
    by_cases h : a.1 = k
    · simp [h]
    · simp only [h, decide_false]
      exact ih

/-- `T.extend(U)` when `T` has every per-point key of `U`: `T` holds the same sequences afterwards, and only
    they are re-seated (each on its own ndarray or on a new one) -/
theorem textend_growsIn {τ : TState} {T U : Nat} (w : Nat) (hT : T < τ.tracts.length)
    (hk : ∀ kf ∈ (τ.tractAt U).dpp, dictGet (τ.tractAt T).dpp kf.1 ≠ none) :
    GrowsIn (fun x => x ∈ (τ.tractAt T).members) τ.st (textend τ T U w).1.st ∧
    ((textend τ T U w).1.tractAt T).members = (τ.tractAt T).members := by
  have g1 : GrowsIn (fun x => x ∈ (τ.tractAt T).members) τ.st
      (extendSeq τ.st (τ.tractAt T).sl (τ.tractAt U).sl w) :=
    (growsIn_extendSeq τ.st _ _ w).mono (fun x hx => by subst hx; simp [Tract.members])
  unfold textend
  simp only
  split
  · exact ⟨g1, rfl⟩
  · obtain ⟨a, b⟩ := growsIn_dppExtend ((τ.tractAt T).nRows + (τ.tractAt U).nRows) w (τ.tractAt U).dpp
      (extendSeq τ.st (τ.tractAt T).sl (τ.tractAt U).sl w) (τ.tractAt T).dpp hk
    refine ⟨g1.trans (b.mono (fun x hx => by simp only [Tract.members, List.mem_cons]; exact Or.inr hx)), ?_⟩
    dsimp only
    rw [tractAt_set_self _ _ _ hT]
    simp only [Tract.members, a]

/-- `T + U`: `TInv` is kept and NO sequence that was live before changes (also when it raises) -/
theorem tadd_spec {τ : TState} (h : TInv τ) {T U : Nat} (hT : T < τ.tracts.length) (hU : U < τ.tracts.length)
    (w : Nat) : TInv (tadd τ T U w).1 ∧ Keeps nobody τ.st (tadd τ T U w).1.st := by
  obtain ⟨c1, c2, c3, _, c5, _, _⟩ := tcopy_spec h hT
  obtain ⟨e1, e2, _⟩ := textend_spec c1 (T := τ.tracts.length) (U := U) (by omega) (by omega) w
  unfold tadd
  split
  · rename_i τ2 heq
    rw [heq] at e1 e2
    refine ⟨e1, e2.inv, Nat.le_trans c2.len e2.len, ?_⟩
    intro u hu _
    rw [e2.keep u (Nat.lt_of_lt_of_le hu c2.len) (fun hm => by have := (c5 u hm).1; omega)]
    exact c2.keep u hu (fun hf => hf)
  · exact ⟨h, Keeps.refl h.inv _⟩

end Nb.C15
