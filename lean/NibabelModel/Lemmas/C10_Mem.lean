import NibabelModel.Model.C10_Mem
/-! Lemmas/C10_Mem — separation of header memory from caller memory is an invariant of every operation. -/
namespace Nb.C10

/-- `m'` extends `m`: references are only appended, existing cells other than `tc` keep their bytes -/
structure Mem.Ext (m m' : Mem) (tc : Option Nat) : Prop where
  bufs : ∃ t, m'.bufs = m.bufs ++ t
  hdrs : ∃ t, m'.hdrs = m.hdrs ++ t
  len : m.cells.length ≤ m'.cells.length
  cells : ∀ c, c < m.cells.length → tc ≠ some c → m'.cells.getD c [] = m.cells.getD c []

theorem getD_append_left {α} (l t : List α) (d : α) (i : Nat) (hi : i < l.length) :
    (l ++ t).getD i d = l.getD i d := by
  simp [List.getD_eq_getElem?_getD, List.getElem?_append_left hi]

theorem getD_mem {α} (l : List α) (d : α) (i : Nat) (hi : i < l.length) : l.getD i d ∈ l := by
  simp [List.getD_eq_getElem?_getD, hi]

theorem Mem.newHdr_eq (K : Klass) (m m' : Mem) (e? : Option Endian) (bs : List Byte)
    (h : m.newHdr K e? bs = some m') :
    ∃ e s, (match e? with | some e => some e | none => K.guess bs) = some e ∧ K.norm e bs = some s ∧
      m' = ⟨m.cells ++ [s], m.bufs, m.hdrs ++ [⟨e, m.cells.length⟩]⟩ := by
  unfold Mem.newHdr at h
  split at h
  · cases h
  · rename_i e he
    split at h
    · cases h
    · rename_i s hs
      exact ⟨e, s, he, hs, (Option.some.inj h).symm⟩

theorem Mem.ext_newHdr (K : Klass) (m m' : Mem) (e? : Option Endian) (bs : List Byte)
    (h : m.newHdr K e? bs = some m') : Mem.Ext m m' none := by
  obtain ⟨e, s, _, _, rfl⟩ := Mem.newHdr_eq K m m' e? bs h
  exact ⟨⟨[], by simp⟩, ⟨_, rfl⟩, by simp, fun c hc _ => getD_append_left _ _ _ _ hc⟩

theorem Mem.ext_newBuf (m : Mem) (w : Bool) (bs : List Byte) : Mem.Ext m (m.newBuf w bs) none :=
  ⟨⟨_, rfl⟩, ⟨[], by simp [Mem.newBuf]⟩, by simp [Mem.newBuf], fun c hc _ => getD_append_left _ _ _ _ hc⟩

theorem Mem.ext_writeCell (m : Mem) (c : Nat) (x : List Byte) : Mem.Ext m (m.writeCell c x) (some c) := by
  refine ⟨⟨[], by simp [Mem.writeCell]⟩, ⟨[], by simp [Mem.writeCell]⟩, by simp [Mem.writeCell], ?_⟩
  intro c' _ hne
  have : ¬ c = c' := fun h => hne (by rw [h])
  simp [Mem.writeCell, List.getD_eq_getElem?_getD, this]

/-- every operation only appends references and writes at most its target cell -/
theorem Mem.step_ext (K : Klass) (m m' : Mem) (op : MOp) (h : m.step K op = some m') :
    Mem.Ext m m' (op.target m) := by
  cases op with
  | alloc w bs => simp only [Mem.step, Option.some.injEq] at h; subst h; exact Mem.ext_newBuf m w bs
  | view b ro =>
    simp only [Mem.step] at h
    split at h
    · cases h
      exact ⟨⟨_, rfl⟩, ⟨[], by simp⟩, Nat.le_refl _, fun _ _ _ => rfl⟩
    · cases h
  | poke b off bs =>
    simp only [Mem.step] at h
    split at h
    · cases h; exact Mem.ext_writeCell m _ _
    · cases h
  | ctor b e =>
    simp only [Mem.step] at h
    split at h
    · exact Mem.ext_newHdr K m m' _ _ h
    · cases h
  | fromFile b off e =>
    simp only [Mem.step] at h
    split at h
    · exact Mem.ext_newHdr K m m' _ _ h
    · cases h
  | snap hh =>
    simp only [Mem.step] at h
    split at h
    · cases h; exact Mem.ext_newBuf m _ _
    · cases h
  | setf hh n v =>
    simp only [Mem.step] at h
    split at h
    · cases h; exact Mem.ext_writeCell m _ _
    · cases h
  | copy hh =>
    simp only [Mem.step] at h
    split at h
    · exact Mem.ext_newHdr K m m' _ _ h
    · cases h
  | swapTo hh t =>
    simp only [Mem.step] at h
    split at h
    · split at h <;> exact Mem.ext_newHdr K m m' _ _ h
    · cases h
  | fix hh =>
    simp only [Mem.step] at h
    split at h
    · cases h; exact Mem.ext_writeCell m _ _
    · cases h

/-! ### the separation invariant -/

theorem Mem.sep_empty : Mem.empty.Sep := by
  refine ⟨?_, ?_, ?_, ?_⟩ <;> simp [Mem.empty]

theorem Mem.sep_newHdr (K : Klass) (m m' : Mem) (e? : Option Endian) (bs : List Byte) (hs : m.Sep)
    (h : m.newHdr K e? bs = some m') : m'.Sep := by
  obtain ⟨e, s, _, _, rfl⟩ := Mem.newHdr_eq K m m' e? bs h
  obtain ⟨h1, h2, h3, h4⟩ := hs
  refine ⟨?_, ?_, ?_, ?_⟩
  · intro b hb; have := h1 b hb; simp; omega
  · intro o ho
    simp only [List.mem_append, List.mem_singleton] at ho
    rcases ho with ho | rfl
    · have := h2 o ho; simp; omega
    · simp
  · intro o ho b hb
    simp only [List.mem_append, List.mem_singleton] at ho
    rcases ho with ho | rfl
    · exact h3 o ho b hb
    · have := h1 b hb; show m.cells.length ≠ b.cell; omega
  · rw [List.pairwise_append]
    refine ⟨h4, by simp, ?_⟩
    intro a ha b hb
    simp only [List.mem_singleton] at hb
    subst hb
    have := h2 a ha
    show a.buf ≠ m.cells.length
    omega

theorem Mem.sep_newBuf (m : Mem) (w : Bool) (bs : List Byte) (hs : m.Sep) : (m.newBuf w bs).Sep := by
  obtain ⟨h1, h2, h3, h4⟩ := hs
  refine ⟨?_, ?_, ?_, h4⟩
  · intro b hb
    simp only [Mem.newBuf, List.mem_append, List.mem_singleton] at hb
    rcases hb with hb | rfl
    · have := h1 b hb; simp [Mem.newBuf]; omega
    · simp [Mem.newBuf]
  · intro o ho; have := h2 o ho; simp [Mem.newBuf]; omega
  · intro o ho b hb
    simp only [Mem.newBuf, List.mem_append, List.mem_singleton] at hb
    rcases hb with hb | rfl
    · exact h3 o ho b hb
    · have := h2 o ho; show o.buf ≠ m.cells.length; omega

theorem Mem.sep_writeCell (m : Mem) (c : Nat) (x : List Byte) (hs : m.Sep) : (m.writeCell c x).Sep := by
  obtain ⟨h1, h2, h3, h4⟩ := hs
  refine ⟨?_, ?_, h3, h4⟩
  · intro b hb; have := h1 b hb; simpa [Mem.writeCell] using this
  · intro o ho; have := h2 o ho; simpa [Mem.writeCell] using this

/-- separation is preserved by EVERY operation -/
theorem Mem.step_sep (K : Klass) (m m' : Mem) (op : MOp) (hs : m.Sep) (h : m.step K op = some m') :
    m'.Sep := by
  cases op with
  | alloc w bs => simp only [Mem.step, Option.some.injEq] at h; subst h; exact Mem.sep_newBuf m w bs hs
  | view b ro =>
    simp only [Mem.step] at h
    split at h
    · rename_i hb
      cases h
      obtain ⟨h1, h2, h3, h4⟩ := hs
      have hmem : m.bufs.getD b default ∈ m.bufs := getD_mem _ _ _ hb
      refine ⟨?_, h2, ?_, h4⟩
      · intro x hx
        simp only [List.mem_append, List.mem_singleton] at hx
        rcases hx with hx | rfl
        · exact h1 x hx
        · exact (h1 _ hmem : (m.bufs.getD b default).cell < m.cells.length)
      · intro o ho x hx
        simp only [List.mem_append, List.mem_singleton] at hx
        rcases hx with hx | rfl
        · exact h3 o ho x hx
        · exact (h3 o ho _ hmem : o.buf ≠ (m.bufs.getD b default).cell)
    · cases h
  | poke b off bs =>
    simp only [Mem.step] at h
    split at h
    · cases h; exact Mem.sep_writeCell m _ _ hs
    · cases h
  | ctor b e =>
    simp only [Mem.step] at h
    split at h
    · exact Mem.sep_newHdr K m m' _ _ hs h
    · cases h
  | fromFile b off e =>
    simp only [Mem.step] at h
    split at h
    · exact Mem.sep_newHdr K m m' _ _ hs h
    · cases h
  | snap hh =>
    simp only [Mem.step] at h
    split at h
    · cases h; exact Mem.sep_newBuf m _ _ hs
    · cases h
  | setf hh n v =>
    simp only [Mem.step] at h
    split at h
    · cases h; exact Mem.sep_writeCell m _ _ hs
    · cases h
  | copy hh =>
    simp only [Mem.step] at h
    split at h
    · exact Mem.sep_newHdr K m m' _ _ hs h
    · cases h
  | swapTo hh t =>
    simp only [Mem.step] at h
    split at h
    · split at h <;> exact Mem.sep_newHdr K m m' _ _ hs h
    · cases h
  | fix hh =>
    simp only [Mem.step] at h
    split at h
    · cases h; exact Mem.sep_writeCell m _ _ hs
    · cases h

theorem Mem.run_sep (K : Klass) (m m' : Mem) (ops : List MOp) (hs : m.Sep) (h : Mem.run K m ops = some m') :
    m'.Sep := by
  induction ops generalizing m with
  | nil => simp only [Mem.run, Option.some.injEq] at h; subst h; exact hs
  | cons op ops ih =>
    simp only [Mem.run] at h
    split at h
    · cases h
    · rename_i m1 h1
      exact ih m1 (Mem.step_sep K m m1 op hs h1) h

/-! ### frames: what an operation cannot change -/


theorem pairwise_ne_getD (l : List ObjRef) (hp : l.Pairwise (fun a b => a.buf ≠ b.buf)) (i j : Nat)
    (hi : i < l.length) (hj : j < l.length) (hij : i ≠ j) :
    (l.getD i default).buf ≠ (l.getD j default).buf := by
  rw [List.pairwise_iff_getElem] at hp
  have ei : l.getD i default = l[i] := by simp [List.getD_eq_getElem?_getD, hi]
  have ej : l.getD j default = l[j] := by simp [List.getD_eq_getElem?_getD, hj]
  rw [ei, ej]
  rcases Nat.lt_or_gt_of_ne hij with h | h
  · exact hp i j hi hj h
  · exact fun e => hp j i hj hi h e.symm

/-- an operation that does not write through header `h` does not write the cell `h` views -/
theorem Mem.target_ne_hdr (K : Klass) (m m1 : Mem) (op : MOp) (hs : m.Sep) (hstep : m.step K op = some m1)
    (h : Nat) (hh : h < m.hdrs.length) (ht : op.touches h = false) : op.target m ≠ some (m.hdrCell h) := by
  obtain ⟨_, _, h3, h4⟩ := hs
  have hmem : m.hdrs.getD h default ∈ m.hdrs := getD_mem _ _ _ hh
  cases op with
  | poke b off bs =>
    simp only [Mem.step] at hstep
    split at hstep
    · rename_i hb
      have hbm : m.bufs.getD b default ∈ m.bufs := getD_mem _ _ _ hb.1
      intro e
      exact h3 _ hmem _ hbm (Option.some.inj e).symm
    · cases hstep
  | setf h' n v =>
    simp only [Mem.step] at hstep
    split at hstep
    · rename_i hb
      have hne : h' ≠ h := by
        intro e; subst e; simp [MOp.touches] at ht
      intro e
      exact pairwise_ne_getD _ h4 h' h hb hh hne (Option.some.inj e)
    · cases hstep
  | fix h' =>
    simp only [Mem.step] at hstep
    split at hstep
    · rename_i hb
      have hne : h' ≠ h := by
        intro e; subst e; simp [MOp.touches] at ht
      intro e
      exact pairwise_ne_getD _ h4 h' h hb hh hne (Option.some.inj e)
    · cases hstep
  | _ => simp [MOp.target]

/-- an operation that is not a write through a caller's container does not write any caller's cell -/
theorem Mem.target_ne_buf (K : Klass) (m m1 : Mem) (op : MOp) (hs : m.Sep) (hstep : m.step K op = some m1)
    (b : Nat) (hb : b < m.bufs.length) (hp : op.isPoke = false) : op.target m ≠ some (m.bufCell b) := by
  obtain ⟨_, _, h3, _⟩ := hs
  have hmem : m.bufs.getD b default ∈ m.bufs := getD_mem _ _ _ hb
  cases op with
  | poke b' off bs => simp [MOp.isPoke] at hp
  | setf h' n v =>
    simp only [Mem.step] at hstep
    split at hstep
    · rename_i hh
      intro e
      exact h3 _ (getD_mem _ _ _ hh) _ hmem (Option.some.inj e)
    · cases hstep
  | fix h' =>
    simp only [Mem.step] at hstep
    split at hstep
    · rename_i hh
      intro e
      exact h3 _ (getD_mem _ _ _ hh) _ hmem (Option.some.inj e)
    · cases hstep
  | _ => simp [MOp.target]

theorem Mem.step_hdr_frame (K : Klass) (m m1 : Mem) (op : MOp) (hs : m.Sep) (hstep : m.step K op = some m1)
    (h : Nat) (hh : h < m.hdrs.length) (ht : op.touches h = false) :
    h < m1.hdrs.length ∧ m1.hdrs.getD h default = m.hdrs.getD h default ∧ m1.hdrBytes h = m.hdrBytes h := by
  have hx := Mem.step_ext K m m1 op hstep
  obtain ⟨t, ht'⟩ := hx.hdrs
  have e1 : m1.hdrs.getD h default = m.hdrs.getD h default := by rw [ht']; exact getD_append_left _ _ _ _ hh
  refine ⟨by rw [ht']; simp; omega, e1, ?_⟩
  unfold Mem.hdrBytes Mem.hdrCell
  rw [e1]
  exact hx.cells _ (hs.2.1 _ (getD_mem _ _ _ hh)) (Mem.target_ne_hdr K m m1 op hs hstep h hh ht)

theorem Mem.step_buf_frame (K : Klass) (m m1 : Mem) (op : MOp) (hs : m.Sep) (hstep : m.step K op = some m1)
    (b : Nat) (hb : b < m.bufs.length) (hp : op.isPoke = false) :
    b < m1.bufs.length ∧ m1.bufs.getD b default = m.bufs.getD b default ∧ m1.bufBytes b = m.bufBytes b := by
  have hx := Mem.step_ext K m m1 op hstep
  obtain ⟨t, ht'⟩ := hx.bufs
  have e1 : m1.bufs.getD b default = m.bufs.getD b default := by rw [ht']; exact getD_append_left _ _ _ _ hb
  refine ⟨by rw [ht']; simp; omega, e1, ?_⟩
  unfold Mem.bufBytes Mem.bufCell
  rw [e1]
  exact hx.cells _ (hs.1 _ (getD_mem _ _ _ hb)) (Mem.target_ne_buf K m m1 op hs hstep b hb hp)

/-- for ANY history: a header nobody writes through keeps its byte-order label and its bytes -/
theorem Mem.run_hdr_frame (K : Klass) (m m' : Mem) (ops : List MOp) (hs : m.Sep)
    (hrun : Mem.run K m ops = some m') (h : Nat) (hh : h < m.hdrs.length)
    (ht : ∀ op ∈ ops, op.touches h = false) :
    h < m'.hdrs.length ∧ m'.hdrs.getD h default = m.hdrs.getD h default ∧ m'.hdrBytes h = m.hdrBytes h := by
  induction ops generalizing m with
  | nil => simp only [Mem.run, Option.some.injEq] at hrun; subst hrun; exact ⟨hh, rfl, rfl⟩
  | cons op ops ih =>
    simp only [Mem.run] at hrun
    split at hrun
    · cases hrun
    · rename_i m1 h1
      have f := Mem.step_hdr_frame K m m1 op hs h1 h hh (ht op (List.mem_cons_self ..))
      have r := ih m1 (Mem.step_sep K m m1 op hs h1) hrun f.1 (fun o ho => ht o (List.mem_cons_of_mem _ ho))
      exact ⟨r.1, r.2.1.trans f.2.1, r.2.2.trans f.2.2⟩

/-- for ANY history without a write through a caller's container: every container keeps its bytes -/
theorem Mem.run_buf_frame (K : Klass) (m m' : Mem) (ops : List MOp) (hs : m.Sep)
    (hrun : Mem.run K m ops = some m') (b : Nat) (hb : b < m.bufs.length)
    (hp : ∀ op ∈ ops, op.isPoke = false) :
    b < m'.bufs.length ∧ m'.bufs.getD b default = m.bufs.getD b default ∧ m'.bufBytes b = m.bufBytes b := by
  induction ops generalizing m with
  | nil => simp only [Mem.run, Option.some.injEq] at hrun; subst hrun; exact ⟨hb, rfl, rfl⟩
  | cons op ops ih =>
    simp only [Mem.run] at hrun
    split at hrun
    · cases hrun
    · rename_i m1 h1
      have f := Mem.step_buf_frame K m m1 op hs h1 b hb (hp op (List.mem_cons_self ..))
      have r := ih m1 (Mem.step_sep K m m1 op hs h1) hrun f.1 (fun o ho => hp o (List.mem_cons_of_mem _ ho))
      exact ⟨r.1, r.2.1.trans f.2.1, r.2.2.trans f.2.2⟩

/-- what a successful constructor call leaves: a NEW header (index = old count) labelled with the resolved
    byte order, holding the normalised bytes -/
theorem Mem.newHdr_spec (K : Klass) (m m' : Mem) (e? : Option Endian) (bs : List Byte)
    (h : m.newHdr K e? bs = some m') :
    ∃ e s, (match e? with | some e => some e | none => K.guess bs) = some e ∧ K.norm e bs = some s ∧
      m'.hdrs.length = m.hdrs.length + 1 ∧ m'.hdrE m.hdrs.length = e ∧ m'.hdrBytes m.hdrs.length = s := by
  obtain ⟨e, s, he, hs, rfl⟩ := Mem.newHdr_eq K m m' e? bs h
  refine ⟨e, s, he, hs, by simp, ?_, ?_⟩
  · simp [Mem.hdrE, List.getD_eq_getElem?_getD]
  · simp [Mem.hdrBytes, Mem.hdrCell, List.getD_eq_getElem?_getD]

/-! ### frames per cell, and the extracted ownership skeleton -/


/-- an operation that is not a write through a container on the cell of `b` does not write that cell -/
theorem Mem.target_ne_buf_cell (K : Klass) (m m1 : Mem) (op : MOp) (hs : m.Sep) (hstep : m.step K op = some m1)
    (b : Nat) (hb : b < m.bufs.length)
    (hp : ∀ b' off bs, op = .poke b' off bs → m.bufCell b' ≠ m.bufCell b) : op.target m ≠ some (m.bufCell b) := by
  cases op with
  | poke b' off bs =>
    intro e
    exact hp b' off bs rfl (Option.some.inj e)
  | alloc w bs => exact Mem.target_ne_buf K m m1 _ hs hstep b hb rfl
  | view b' ro => exact Mem.target_ne_buf K m m1 _ hs hstep b hb rfl
  | ctor b' e => exact Mem.target_ne_buf K m m1 _ hs hstep b hb rfl
  | fromFile b' off e => exact Mem.target_ne_buf K m m1 _ hs hstep b hb rfl
  | snap h => exact Mem.target_ne_buf K m m1 _ hs hstep b hb rfl
  | setf h n v => exact Mem.target_ne_buf K m m1 _ hs hstep b hb rfl
  | copy h => exact Mem.target_ne_buf K m m1 _ hs hstep b hb rfl
  | swapTo h t => exact Mem.target_ne_buf K m m1 _ hs hstep b hb rfl
  | fix h => exact Mem.target_ne_buf K m m1 _ hs hstep b hb rfl

theorem Mem.step_buf_frame_cell (K : Klass) (m m1 : Mem) (op : MOp) (hs : m.Sep) (hstep : m.step K op = some m1)
    (b : Nat) (hb : b < m.bufs.length)
    (hp : ∀ b' off bs, op = .poke b' off bs → m.bufCell b' ≠ m.bufCell b) :
    b < m1.bufs.length ∧ m1.bufs.getD b default = m.bufs.getD b default ∧ m1.bufBytes b = m.bufBytes b := by
  have hx := Mem.step_ext K m m1 op hstep
  obtain ⟨t, ht'⟩ := hx.bufs
  have e1 : m1.bufs.getD b default = m.bufs.getD b default := by rw [ht']; exact getD_append_left _ _ _ _ hb
  refine ⟨by rw [ht']; simp; omega, e1, ?_⟩
  unfold Mem.bufBytes Mem.bufCell
  rw [e1]
  exact hx.cells _ (hs.1 _ (getD_mem _ _ _ hb)) (Mem.target_ne_buf_cell K m m1 op hs hstep b hb hp)

/-- for ANY history in which nobody writes through a container on the cell of `b` (other containers may be
    written at will): container `b` keeps its bytes -/
theorem Mem.run_buf_frame_cell (K : Klass) (m m' : Mem) (ops : List MOp) (hs : m.Sep)
    (hrun : Mem.run K m ops = some m') (b : Nat) (hb : b < m.bufs.length)
    (hp : Mem.noPokeOn K m ops (m.bufCell b)) :
    b < m'.bufs.length ∧ m'.bufs.getD b default = m.bufs.getD b default ∧ m'.bufBytes b = m.bufBytes b := by
  induction ops generalizing m with
  | nil => simp only [Mem.run, Option.some.injEq] at hrun; subst hrun; exact ⟨hb, rfl, rfl⟩
  | cons op ops ih =>
    simp only [Mem.run] at hrun
    split at hrun
    · cases hrun
    · rename_i m1 h1
      obtain ⟨hp0, hp1⟩ := hp
      have f := Mem.step_buf_frame_cell K m m1 op hs h1 b hb hp0
      have hc : m1.bufCell b = m.bufCell b := by unfold Mem.bufCell; rw [f.2.1]
      have r := ih m1 (Mem.step_sep K m m1 op hs h1) hrun f.1 (by rw [hc]; exact hp1 m1 h1)
      exact ⟨r.1, r.2.1.trans f.2.1, r.2.2.trans f.2.2⟩

/-- a history without any write through a container certainly has none on a given cell -/
theorem Mem.noPokeOn_of_no_poke (K : Klass) (m : Mem) (ops : List MOp) (c : Nat)
    (hp : ∀ op ∈ ops, op.isPoke = false) : Mem.noPokeOn K m ops c := by
  induction ops generalizing m with
  | nil => trivial
  | cons op ops ih =>
    refine ⟨?_, fun m1 _ => ih m1 (fun o ho => hp o (List.mem_cons_of_mem _ ho))⟩
    intro b off bs e
    have := hp op (List.mem_cons_self ..)
    rw [e] at this
    simp [MOp.isPoke] at this

/-- a skeleton that passes `OwnSkel.ok` describes `Mem.step` -/
theorem Mem.stepBy_eq_step (K : Klass) (s : OwnSkel) (hs : s.ok = true) : Mem.stepBy K s = Mem.step K := by
  funext m op
  unfold OwnSkel.ok at hs
  simp only [Bool.and_eq_true, beq_iff_eq] at hs
  have h := hs.1.1.1.1.1.1.1.1
  unfold Mem.stepBy
  rw [h]
  simp

/-- and a skeleton whose constructor may store the wrapping array describes the aliasing variant -/
theorem Mem.stepBy_wrap (K : Klass) (s : OwnSkel) (hs : s.ctorStores.contains .wrap = true) :
    Mem.stepBy K s = Mem.stepAlias K := by
  funext m op
  unfold Mem.stepBy
  rw [hs]; rfl

end Nb.C10
