import NibabelModel.Model.C07
/-! Lemmas/C07 — frame lemmas for the save step machine (core Lean only). -/
namespace Nb.C07

/-- invariant-style reasoning through `andThen` -/
theorem andThen_inv {P : World → Prop} {r : Res} {f : World → Res}
    (hr : P r.2) (hf : ∀ w, P w → P (f w).2) : P (r.andThen f).2 := by
  unfold Res.andThen
  split
  · rename_i w; exact hf w hr
  · exact hr

theorem andThen_err_none {r : Res} {f : World → Res} (h : (r.andThen f).1 = none) :
    r.1 = none ∧ (f r.2).1 = none := by
  unfold Res.andThen at h
  split at h
  · exact ⟨rfl, h⟩
  · cases h

theorem andThen_of_none {r : Res} {f : World → Res} (h : r.1 = none) : r.andThen f = f r.2 := by
  obtain ⟨e, w⟩ := r
  cases h; rfl

theorem andThen_of_some {r : Res} {f : World → Res} {e : Err} (h : r.1 = some e) : r.andThen f = r := by
  obtain ⟨e', w⟩ := r
  cases h; rfl

/-! ### I/O calls never touch the image, the binding flag or the abstract output -/

/-- the part of the world that I/O calls cannot change -/
def World.stat (w : World) : Core × Bool × List Chunk × Option Nat := (w.img, w.bound, w.out, w.live)

theorem applyCall_stat (c : IoCall) (w : World) : (applyCall c w).stat = w.stat := by
  unfold applyCall
  cases c.kind <;> simp [World.stat] <;> (try cases c.file <;> simp [World.setPos])

theorem ioCall_stat (fault : Fault) (c : IoCall) (w : World) : (ioCall fault c w).2.stat = w.stat := by
  unfold ioCall
  cases fault with
  | none => simp [applyCall_stat]; rfl
  | call k =>
      simp only []
      split
      · rfl
      · simp [applyCall_stat]; rfl
  | bytes b =>
      simp only []
      split
      · split
        · rfl
        · simp [applyCall_stat]; rfl
      · simp [applyCall_stat]; rfl

theorem ioCall_keeps (fault : Fault) (c : IoCall) (s : Core × Bool × List Chunk × Option Nat) (w : World)
    (h : w.stat = s) : (ioCall fault c w).2.stat = s := by rw [ioCall_stat, h]

theorem ioMany_keeps (fault : Fault) (cs : List IoCall) (s : Core × Bool × List Chunk × Option Nat) (w : World)
    (h : w.stat = s) : (ioMany fault cs w).2.stat = s := by
  induction cs generalizing w with
  | nil => exact h
  | cons c cs ih =>
      unfold ioMany
      exact andThen_inv (P := fun w => w.stat = s) (ioCall_keeps fault c s w h) (fun w hw => ih w hw)

theorem seekTell_keeps (fault : Fault) (f : File) (w0 : Bool) (s : Core × Bool × List Chunk × Option Nat) (w : World)
    (h : w.stat = s) : (seekTell fault f w0 w).2.stat = s := by
  unfold seekTell
  simp only []
  split
  · rename_i w1 h1
    have hw1 : w1.stat = s := by
      have := ioCall_keeps fault ⟨f, .seek w.img.hdr.offset⟩ s w h
      rw [h1] at this; exact this
    refine andThen_inv (P := fun w => w.stat = s) (ioCall_keeps _ _ s w1 hw1) ?_
    intro w2 hw2
    split
    · exact hw2
    · split
      · exact hw2
      · split
        · exact hw2
        · refine andThen_inv (P := fun w => w.stat = s) (ioCall_keeps _ _ s w2 hw2) ?_
          intro w3 hw3
          refine andThen_inv (P := fun w => w.stat = s) (ioCall_keeps _ _ s w3 hw3) ?_
          intro w4 hw4
          split <;> exact hw4
  · exact ioCall_keeps fault _ s w h

theorem stat_img {w1 w : World} (h : w1.stat = w.stat) : w1.img = w.img := congrArg Prod.fst h
theorem stat_bound {w1 w : World} (h : w1.stat = w.stat) : w1.bound = w.bound :=
  congrArg (fun p => p.2.1) h
theorem stat_out {w1 w : World} (h : w1.stat = w.stat) : w1.out = w.out :=
  congrArg (fun p => p.2.2.1) h
theorem stat_live {w1 w : World} (h : w1.stat = w.stat) : w1.live = w.live :=
  congrArg (fun p => p.2.2.2) h

/-! ### what a step of the `try:` body may NOT change -/

/-- relative to the core `k0` the body started from: alias, data, affine, header object and dtype code
    stay; slope / inter stay for header classes that have no such field -/
def Inv (c : Ctx) (k0 k : Core) : Prop :=
  k.alias = k0.alias ∧ k.data = k0.data ∧
  (k.affine = k0.affine ∧ k.xflip = k0.xflip ∧ k.src = k0.src ∧ k.rest = k0.rest ∧ k.pending = k0.pending) ∧
  k.hdrObj = k0.hdrObj ∧ k.hdr.dtype = k0.hdr.dtype ∧
  (c.t.hasSlope = false → k.hdr.slope = k0.hdr.slope) ∧ (c.t.hasInter = false → k.hdr.inter = k0.hdr.inter)

theorem Inv.refl (c : Ctx) (k : Core) : Inv c k k :=
  ⟨rfl, rfl, ⟨rfl, rfl, rfl, rfl, rfl⟩, rfl, rfl, fun _ => rfl, fun _ => rfl⟩

/-- the invariant of the `try:` body in the CURRENT code: the local `data` is never a live memory map -/
def InvW (c : Ctx) (k0 : Core) (w : World) : Prop := Inv c k0 w.img ∧ w.live = none

theorem exec_inv (c : Ctx) (k0 : Core) (hl : c.hdrLocal = k0.hdrObj) (s : Step) (w : World)
    (hw : InvW c k0 w) : InvW c k0 (exec c s w).2 := by
  obtain ⟨h, hlive⟩ := hw
  cases s with
  | mkWriter => simp only [exec]; split <;> exact ⟨h, hlive⟩
  | setSlopeInter =>
      simp only [exec]; split
      · exact ⟨h, hlive⟩
      · split
        · obtain ⟨h1, h2, h3, h4, h5, h6, h7⟩ := h
          refine ⟨⟨h1, h2, h3, h4, h5, ?_, ?_⟩, hlive⟩
          · intro hs; simp [World.setHdr, hs]; exact h6 hs
          · intro hs; simp [World.setHdr, hs]; exact h7 hs
        · exact ⟨h, hlive⟩
  | chooseOffset =>
      obtain ⟨h1, h2, h3, h4, h5, h6, h7⟩ := h
      simp only [exec]; split
      · split
        · exact ⟨⟨h1, h2, h3, h4, h5, h6, h7⟩, hlive⟩
        · split <;> exact ⟨⟨h1, h2, h3, h4, h5, h6, h7⟩, hlive⟩
      · exact ⟨⟨h1, h2, h3, h4, h5, h6, h7⟩, hlive⟩
  | ios cs =>
      simp only [exec, InvW]
      rw [stat_img (ioMany_keeps c.fault cs w.stat w rfl), stat_live (ioMany_keeps c.fault cs w.stat w rfl)]
      exact ⟨h, hlive⟩
  | seekTell f w0 =>
      simp only [exec, InvW]
      rw [stat_img (seekTell_keeps c.fault f w0 w.stat w rfl), stat_live (seekTell_keeps c.fault f w0 w.stat w rfl)]
      exact ⟨h, hlive⟩
  | emitHdr f => exact ⟨h, hlive⟩
  | emitData f => exact ⟨h, hlive⟩
  | emitMat a => exact ⟨h, hlive⟩
  | emitTrailer f => exact ⟨h, hlive⟩
  | openW f =>
      simp only [exec, hlive]
      rw [if_neg (by simp)]
      exact ⟨h, hlive⟩
  | bindHeader =>
      obtain ⟨h1, h2, h3, h4, h5, h6, h7⟩ := h
      exact ⟨⟨h1, h2, h3, hl, h5, h6, h7⟩, hlive⟩
  | bindFileMap => exact ⟨h, hlive⟩

theorem runSteps_inv (c : Ctx) (k0 : Core) (hl : c.hdrLocal = k0.hdrObj) (ss : List Step) (w : World)
    (h : InvW c k0 w) : InvW c k0 (runSteps c ss w).2 := by
  induction ss generalizing w with
  | nil => exact h
  | cons s ss ih =>
      unfold runSteps
      exact andThen_inv (P := fun w => InvW c k0 w) (exec_inv c k0 hl s w h) (fun w hw => ih w hw)

theorem Core.ext' {a b : Core} (h1 : a.hdr = b.hdr) (h2 : a.alias = b.alias) (h3 : a.data = b.data)
    (h4 : a.affine = b.affine ∧ a.xflip = b.xflip ∧ a.src = b.src ∧ a.rest = b.rest ∧ a.pending = b.pending)
    (h5 : a.hdrObj = b.hdrObj) : a = b := by
  cases a; cases b; simp_all

theorem materialize_img (copy : Bool) (w : World) : (materialize copy w).img = w.img := rfl
theorem materialize_bound (copy : Bool) (w : World) : (materialize copy w).bound = w.bound := rfl
/-- `maps_file` answers True exactly when some owner in the chain is a memory map -/
theorem mapsFile_eq_any (ch : List Owner) : mapsFile ch = ch.any Owner.isMap := by
  induction ch with
  | nil => rfl
  | cons o rest ih =>
      cases o <;> simp [mapsFile, Owner.isMap, ih]

theorem materialize_live (w : World) : (materialize true w).live = none := by
  unfold materialize materializeWith
  simp only [if_true]
  cases hs : w.img.src with
  | array => rfl
  | proxy f m => cases m <;> rfl
  | view f ch =>
      simp only [Src.mapped, Src.chain]
      by_cases h : ch.any Owner.isMap = true
      · simp [h, mapsFile_eq_any]
      · simp [h]

/-- the state `to_file_map` works on after `np.asanyarray(dataobj)` (+ copy) and `update_header()` -/
def entry (w : World) : World := updateHeader (materialize true w)

theorem entry_img (w : World) : (entry w).img = harmonise w.img := rfl
theorem entry_bound (w : World) : (entry w).bound = w.bound := rfl
theorem entry_live (w : World) : (entry w).live = none := materialize_live w

theorem harmonise_idem (k : Core) : harmonise (harmonise k) = harmonise k := rfl
theorem harmonise_hdr (k : Core) : (harmonise k).hdr = k.hdr := rfl
theorem harmonise_of_none {k : Core} (h : k.pending = none) : harmonise k = k := by
  cases k; simp_all [harmonise]

/-- saving a harmonised copy of the image enters the body in exactly the same state -/
theorem entry_harm (w : World) : entry { w with img := harmonise w.img } = entry w := rfl

theorem Hdr.ext' {a b : Hdr} (h1 : a.offset = b.offset) (h2 : a.dtype = b.dtype) (h3 : a.slope = b.slope)
    (h4 : a.inter = b.inter) : a = b := by
  cases a; cases b; simp_all

theorem applyOverride_fields {t : Gen.Traits} {dt : DtReq} {h0 h1 : Hdr} (h : applyOverride t dt h0 = some h1) :
    h1.offset = h0.offset ∧ h1.slope = h0.slope ∧ h1.inter = h0.inter := by
  unfold applyOverride at h
  split at h
  · cases h; exact ⟨rfl, rfl, rfl⟩
  · split at h
    · cases h; exact ⟨rfl, rfl, rfl⟩
    · cases h
  · cases h
  · cases h

/-- `AnalyzeImage.to_file_map` leaves the image exactly as it was — whatever is raised, wherever -/
theorem analyzeBody_img (t : Gen.Traits) (env : Env) (dt : DtReq) (fault : Fault) (w : World)
    (hrt : rtCode t w.img.hdr.dtype = w.img.hdr.dtype) (hlive : w.live = none) :
    (analyzeBody t env dt fault w).2.img = w.img := by
  unfold analyzeBody
  simp only []
  split
  · rfl
  · rename_i h1 hov
    obtain ⟨ho, hs, hi⟩ := applyOverride_fields hov
    simp only [tryFinally]
    have hinv := runSteps_inv (mkCtx t env fault w h1) (w.setHdr h1).img rfl
      (coreBody (mkCtx t env fault w h1)) (w.setHdr h1) ⟨Inv.refl _ _, hlive⟩
    obtain ⟨⟨i1, i2, i3, i4, i5, i6, i7⟩, _⟩ := hinv
    apply Core.ext'
    · apply Hdr.ext'
      · rfl
      · exact hrt
      · show (if t.hasSlope then _ else _) = _
        cases hS : t.hasSlope
        · simp; rw [i6 hS]; exact hs
        · simp
      · show (if t.hasInter then _ else _) = _
        cases hI : t.hasInter
        · simp; rw [i7 hI]; exact hi
        · simp
    · exact i1
    · exact i2
    · exact i3
    · exact i4

/-- `AnalyzeImage.to_file_map` leaves the image exactly as `update_header()` made it — whatever is raised -/
theorem analyzeSave_img (t : Gen.Traits) (env : Env) (dt : DtReq) (fault : Fault) (w : World)
    (hrt : rtCode t w.img.hdr.dtype = w.img.hdr.dtype) :
    (analyzeSave t env dt fault w).2.img = harmonise w.img := by
  unfold analyzeSave
  exact analyzeBody_img t env dt fault (entry w) hrt (entry_live w)

/-- in the current code the local `data` is never a live memory map when `to_file_map` returns or raises -/
theorem analyzeSave_live (t : Gen.Traits) (env : Env) (dt : DtReq) (fault : Fault) (w : World) :
    (analyzeSave t env dt fault w).2.live = none := by
  unfold analyzeSave analyzeBody
  simp only []
  split
  · exact materialize_live w
  · rename_i h1 hov
    simp only [tryFinally]
    exact (runSteps_inv (mkCtx t env fault (entry w) h1) ((entry w).setHdr h1).img rfl
      (coreBody (mkCtx t env fault (entry w) h1)) ((entry w).setHdr h1)
      ⟨Inv.refl _ _, entry_live w⟩).2

theorem niftiRestore_img (t : Gen.Traits) (a0 : Option Alias) (d0 : Nat) (w : World) :
    (niftiRestore t a0 d0 w).img =
      { w.img with alias := a0, hdr := { w.img.hdr with dtype := rtCode t d0 } } := by
  unfold niftiRestore
  cases a0 <;> rfl

/-- what a save may do to the image: nothing (it raised before `update_header()`), or exactly what
    `update_header()` does — the latter whenever it succeeds -/
def HarmOut (r : Res) (k : Core) : Prop :=
  (r.2.img = k ∨ r.2.img = harmonise k) ∧ (r.1 = none → r.2.img = harmonise k)

theorem HarmOut.of_harm {r : Res} {k : Core} (h : r.2.img = harmonise k) : HarmOut r k :=
  ⟨Or.inr h, fun _ => h⟩

theorem HarmOut.of_err {e : Err} {w : World} {k : Core} (h : w.img = k) : HarmOut (some e, w) k :=
  ⟨Or.inl h, fun h' => nomatch h'⟩

/-- `Nifti1Pair.to_file_map` leaves the image as it was up to `update_header()` -/
theorem niftiSave_img (t : Gen.Traits) (env : Env) (dt : DtReq) (fault : Fault) (w : World)
    (hrtAll : ∀ c ∈ t.codes, rtCode t c = c) (hdt : w.img.hdr.dtype ∈ t.codes)
    (hres : ∀ a c, env.resolve a = some c → c ∈ t.codes) :
    HarmOut (niftiSave t env dt fault w) w.img := by
  unfold niftiSave niftiSaveWith
  simp only []
  split
  · rename_i ha
    apply HarmOut.of_harm
    simp only [tryFinally]
    rw [niftiRestore_img, analyzeSave_img t env dt fault w (hrtAll _ hdt)]
    apply Core.ext' <;> simp [ha, hrtAll _ hdt, harmonise]
  · rename_i a ha
    split
    · exact HarmOut.of_err rfl
    · rename_i c hc
      have hcm := hres a c hc
      rw [if_pos hcm]
      apply HarmOut.of_harm
      simp only [tryFinally]
      rw [niftiRestore_img, analyzeSave_img t env dt fault _ (by simpa [World.setAlias, World.setDtype, World.setHdr] using hrtAll c hcm)]
      apply Core.ext' <;> simp [ha, hrtAll _ hdt, World.setAlias, World.setDtype, World.setHdr, harmonise]

/-! ### steps that cannot change the image at all (I/O, emission, binding of the file map) -/

def Step.keepsImg : Step → Bool
  | .setSlopeInter | .chooseOffset | .bindHeader => false
  | _ => true

/-- image and liveness of the local data together (a truncating open changes the image only under a
    live memory map) -/
def World.il (w : World) : Core × Option Nat := (w.img, w.live)

theorem exec_keeps_img (c : Ctx) (s : Step) (w : World) (h : s.keepsImg = true) (hl : w.live = none) :
    (exec c s w).2.il = w.il := by
  cases s with
  | mkWriter => simp only [exec]; split <;> rfl
  | setSlopeInter => cases h
  | chooseOffset => cases h
  | ios cs =>
      simp only [exec, World.il]
      rw [stat_img (ioMany_keeps c.fault cs w.stat w rfl), stat_live (ioMany_keeps c.fault cs w.stat w rfl)]
  | seekTell f w0 =>
      simp only [exec, World.il]
      rw [stat_img (seekTell_keeps c.fault f w0 w.stat w rfl), stat_live (seekTell_keeps c.fault f w0 w.stat w rfl)]
  | emitHdr f => rfl
  | emitData f => rfl
  | emitMat a => rfl
  | emitTrailer f => rfl
  | openW f => simp only [exec, hl]; rw [if_neg (by simp)]
  | bindHeader => cases h
  | bindFileMap => rfl

theorem runSteps_keeps_il (c : Ctx) (ss : List Step) (w : World) (h : ∀ s ∈ ss, s.keepsImg = true)
    (hl : w.live = none) : (runSteps c ss w).2.il = w.il := by
  induction ss generalizing w with
  | nil => rfl
  | cons s ss ih =>
      unfold runSteps
      refine andThen_inv (P := fun w' => w'.il = w.il) (exec_keeps_img c s w (h s (by simp)) hl) ?_
      intro w' hw'
      have hl' : w'.live = none := by rw [← hl]; exact congrArg Prod.snd hw'
      rw [ih w' (fun s hs => h s (by simp [hs])) hl', hw']

theorem runSteps_keeps_img (c : Ctx) (ss : List Step) (w : World) (h : ∀ s ∈ ss, s.keepsImg = true)
    (hl : w.live = none) : (runSteps c ss w).2.img = w.img :=
  congrArg Prod.fst (runSteps_keeps_il c ss w h hl)

theorem runSteps_keeps_live (c : Ctx) (ss : List Step) (w : World) (h : ∀ s ∈ ss, s.keepsImg = true)
    (hl : w.live = none) : (runSteps c ss w).2.live = none := by
  rw [← hl]; exact congrArg Prod.snd (runSteps_keeps_il c ss w h hl)

theorem prepare_keeps (env : Env) (f : File) : ∀ s ∈ prepare env f, s.keepsImg = true := by
  intro s hs; unfold prepare at hs; split at hs <;> simp at hs
  · subst hs; rfl
  · rcases hs with rfl | rfl <;> rfl

theorem closeIfMine_keeps (env : Env) (f : File) : ∀ s ∈ closeIfMine env f, s.keepsImg = true := by
  intro s hs; unfold closeIfMine at hs; split at hs <;> simp at hs; subst hs; rfl

theorem withOpened_img (c : Ctx) (f : File) (body : List Step) (w : World)
    (h : ∀ s ∈ body, s.keepsImg = true) (hl : w.live = none) : (withOpened c f body w).2.img = w.img := by
  unfold withOpened
  split
  · rename_i w1 h1
    have hil := runSteps_keeps_il c (prepare c.env f) w (prepare_keeps c.env f) hl
    rw [h1] at hil
    have hw1 : w1.img = w.img := congrArg Prod.fst hil
    have hl1 : w1.live = none := by rw [← hl]; exact congrArg Prod.snd hil
    simp only []
    rw [runSteps_keeps_img c _ _ (closeIfMine_keeps c.env f) (runSteps_keeps_live c body w1 h hl1),
      runSteps_keeps_img c body w1 h hl1, hw1]
  · exact runSteps_keeps_img c (prepare c.env f) w (prepare_keeps c.env f) hl

theorem matBody_keeps (env : Env) (a : M4) : ∀ s ∈ matBody env a, s.keepsImg = true := by
  intro s hs; simp [matBody] at hs; rcases hs with rfl | rfl <;> rfl

theorem mghBody_keeps (c : Ctx) : ∀ s ∈ mghBody c, s.keepsImg = true := by
  intro s hs; simp [mghBody] at hs; rcases hs with rfl | rfl | rfl | rfl | rfl | rfl | rfl <;> rfl

theorem spmSave_img (t : Gen.Traits) (env : Env) (dt : DtReq) (fault : Fault) (w : World)
    (hrt : rtCode t w.img.hdr.dtype = w.img.hdr.dtype) :
    (spmSave t env dt fault w).2.img = harmonise w.img := by
  unfold spmSave spmSaveWith
  have ha := analyzeSave_img t env dt fault w hrt
  have hl := analyzeSave_live t env dt fault w
  split
  · rename_i w1 h1
    rw [h1] at ha hl
    split
    · exact ha
    · rw [withOpened_img _ _ _ _ (matBody_keeps env _) hl]
      exact ha
  · exact ha

theorem mghSave_img (t : Gen.Traits) (env : Env) (dt : DtReq) (fault : Fault) (w : World) :
    HarmOut (mghSave t env dt fault w) w.img := by
  unfold mghSave
  have hw := withOpened_img (mghCtx t env fault (entry w)) .image _ (entry w)
    (mghBody_keeps (mghCtx t env fault (entry w))) (entry_live w)
  rw [entry_img] at hw
  split
  · exact HarmOut.of_err rfl
  · apply HarmOut.of_harm
    show (match withOpened (mghCtx t env fault (entry w)) .image (mghBody (mghCtx t env fault (entry w))) (entry w) with
      | (none, w1) => runSteps (mghCtx t env fault (entry w)) [.bindHeader, .bindFileMap] w1
      | r => r).2.img = harmonise w.img
    split
    · rename_i w1 h1
      rw [h1] at hw
      simp only [runSteps, exec, Res.andThen, mghCtx, mkCtx, entry_img]
      simp only [] at hw
      rw [← hw]
    · exact hw

theorem ciftiSave_img (env : Env) (dt : DtReq) (fault : Fault) (w : World)
    (hrtAll : ∀ c ∈ Gen.n2single.codes, rtCode Gen.n2single c = c) (hdt : w.img.hdr.dtype ∈ Gen.n2single.codes)
    (hres : ∀ a c, env.resolve a = some c → c ∈ Gen.n2single.codes) :
    (ciftiSave env dt fault w).2.img = harmonise w.img := by
  unfold ciftiSave
  simp only []
  split
  · rfl
  · rename_i i hi
    have hidt : i.hdr.dtype ∈ Gen.n2single.codes ∧ i.data = w.img.data ∧ i.pending = none := by
      split at hi
      · cases hi; exact ⟨hdt, rfl, rfl⟩
      · split at hi
        · rename_i hc; cases hi; exact ⟨hc, rfl, rfl⟩
        · cases hi
      · cases hi; exact ⟨hdt, rfl, rfl⟩
      · cases hi
    simp only []
    have hn := (niftiSave_img Gen.n2single env .none fault { (updateHeader w) with img := i } hrtAll hidt.1 hres).1
    rw [harmonise_of_none hidt.2.2, or_self] at hn
    simp only [] at hn
    rw [hn]
    simp only [hidt.2.1]
    rfl

/-! ### when `self.file_map = file_map` is executed -/

def Step.isBindFm : Step → Bool
  | .bindFileMap => true
  | _ => false

theorem exec_bound (c : Ctx) (s : Step) (w : World) (h : s.isBindFm = false) :
    (exec c s w).2.bound = w.bound := by
  cases s with
  | mkWriter => simp only [exec]; split <;> rfl
  | setSlopeInter => simp only [exec]; split <;> (try split) <;> rfl
  | chooseOffset =>
      simp only [exec]; split
      · split
        · rfl
        · split <;> rfl
      · rfl
  | ios cs => simp only [exec]; exact stat_bound (ioMany_keeps c.fault cs w.stat w rfl)
  | seekTell f w0 => simp only [exec]; exact stat_bound (seekTell_keeps c.fault f w0 w.stat w rfl)
  | emitHdr f => rfl
  | emitData f => rfl
  | emitMat a => rfl
  | emitTrailer f => rfl
  | openW f => simp only [exec]; split <;> rfl
  | bindHeader => rfl
  | bindFileMap => cases h

theorem runSteps_bound (c : Ctx) (ss : List Step) (w : World) (h : ∀ s ∈ ss, s.isBindFm = false) :
    (runSteps c ss w).2.bound = w.bound := by
  induction ss generalizing w with
  | nil => rfl
  | cons s ss ih =>
      unfold runSteps
      refine andThen_inv (P := fun w' => w'.bound = w.bound) (exec_bound c s w (h s (by simp))) ?_
      intro w' hw'
      rw [ih w' (fun s hs => h s (by simp [hs])), hw']

theorem runSteps_append (c : Ctx) (a b : List Step) (w : World) :
    runSteps c (a ++ b) w = (runSteps c a w).andThen (runSteps c b) := by
  induction a generalizing w with
  | nil => rfl
  | cons s a ih =>
      simp only [List.cons_append, runSteps]
      rcases hr : exec c s w with ⟨e, w1⟩
      cases e with
      | none => simp only [Res.andThen]; exact ih w1
      | some e => rfl

/-- the `try:` body without its last statement -/
def coreFront (c : Ctx) : List Step :=
  let hf : File := if c.t.single then .image else .header
  [.mkWriter] ++ prepare c.env hf ++ (if c.t.single then [] else prepare c.env .image) ++
  [.setSlopeInter, .chooseOffset, .emitHdr hf, .ios [⟨hf, .write c.t.sizeofHdr⟩]] ++ extSteps c hf ++
  [.seekTell .image true, .emitData .image, .ios (dataCalls c .image)] ++
  closeIfMine c.env hf ++ (if c.t.single then [] else closeIfMine c.env .image) ++
  [.bindHeader]

theorem coreBody_split (c : Ctx) : coreBody c = coreFront c ++ [.bindFileMap] := by
  simp [coreBody, coreFront]

theorem coreFront_noBind (c : Ctx) : ∀ s ∈ coreFront c, s.isBindFm = false := by
  intro s hs
  simp only [coreFront, prepare, closeIfMine, extSteps, List.mem_append] at hs
  rcases hs with ((((((((hs | hs) | hs) | hs) | hs) | hs) | hs) | hs) | hs)
  all_goals (try (split at hs)) <;> (try (split at hs)) <;> simp at hs <;>
    (try (rcases hs with rfl | rfl | rfl | rfl)) <;> (try subst hs) <;> rfl

/-- running the `try:` body: `file_map` is rebound exactly when the body completes -/
theorem coreBody_bound (c : Ctx) (w : World) :
    ((runSteps c (coreBody c) w).1 = none → (runSteps c (coreBody c) w).2.bound = true) ∧
    ((runSteps c (coreBody c) w).1 ≠ none → (runSteps c (coreBody c) w).2.bound = w.bound) := by
  rw [coreBody_split, runSteps_append]
  have hb := runSteps_bound c (coreFront c) w (coreFront_noBind c)
  rcases hr : runSteps c (coreFront c) w with ⟨e, w1⟩
  rw [hr] at hb
  cases e with
  | none => simp [Res.andThen, runSteps, exec]
  | some e => simp [Res.andThen]; exact hb

/-- "rebound exactly on success" -/
def BindsOnSuccess (r : Res) (w : World) : Prop :=
  (r.1 = none → r.2.bound = true) ∧ (r.1 ≠ none → r.2.bound = w.bound)

theorem binds_err (e : Err) (w' w : World) (h : w'.bound = w.bound) : BindsOnSuccess (some e, w') w :=
  And.intro (fun h' => nomatch h') (fun _ => h)

theorem analyzeSave_binds (t : Gen.Traits) (env : Env) (dt : DtReq) (fault : Fault) (w : World) :
    BindsOnSuccess (analyzeSave t env dt fault w) w := by
  unfold analyzeSave analyzeBody
  simp only []
  split
  · exact binds_err _ _ _ rfl
  · rename_i h1 _
    simp only [tryFinally]
    exact coreBody_bound (mkCtx t env fault (entry w) h1) ((entry w).setHdr h1)

theorem niftiRestore_bound (t : Gen.Traits) (a0 : Option Alias) (d0 : Nat) (w : World) :
    (niftiRestore t a0 d0 w).bound = w.bound := by
  unfold niftiRestore; cases a0 <;> rfl

theorem niftiSave_binds (t : Gen.Traits) (env : Env) (dt : DtReq) (fault : Fault) (w : World) :
    BindsOnSuccess (niftiSave t env dt fault w) w := by
  unfold niftiSave niftiSaveWith
  simp only []
  split
  · simp only [tryFinally, BindsOnSuccess, niftiRestore_bound]
    exact analyzeSave_binds t env dt fault w
  · split
    · exact binds_err _ _ _ rfl
    · split
      · simp only [tryFinally, BindsOnSuccess, niftiRestore_bound]
        exact analyzeSave_binds t env dt fault _
      · exact binds_err _ _ _ rfl

theorem matBody_noBind (env : Env) (a : M4) : ∀ s ∈ matBody env a, s.isBindFm = false := by
  intro s hs; simp [matBody] at hs; rcases hs with rfl | rfl <;> rfl

theorem mghBody_noBind (c : Ctx) : ∀ s ∈ mghBody c, s.isBindFm = false := by
  intro s hs; simp [mghBody] at hs; rcases hs with rfl | rfl | rfl | rfl | rfl | rfl | rfl <;> rfl

theorem prepare_noBind (env : Env) (f : File) : ∀ s ∈ prepare env f, s.isBindFm = false := by
  intro s hs; unfold prepare at hs; split at hs <;> simp at hs
  · subst hs; rfl
  · rcases hs with rfl | rfl <;> rfl

theorem closeIfMine_noBind (env : Env) (f : File) : ∀ s ∈ closeIfMine env f, s.isBindFm = false := by
  intro s hs; unfold closeIfMine at hs; split at hs <;> simp at hs; subst hs; rfl

theorem withOpened_bound (c : Ctx) (f : File) (body : List Step) (w : World)
    (h : ∀ s ∈ body, s.isBindFm = false) : (withOpened c f body w).2.bound = w.bound := by
  unfold withOpened
  split
  · rename_i w1 h1
    have hw1 : w1.bound = w.bound := by
      have := runSteps_bound c (prepare c.env f) w (prepare_noBind c.env f)
      rw [h1] at this; exact this
    simp only []
    rw [runSteps_bound c _ _ (closeIfMine_noBind c.env f), runSteps_bound c body w1 h, hw1]
  · exact runSteps_bound c (prepare c.env f) w (prepare_noBind c.env f)

/-- SPM: once the Analyze part has completed the image is bound to the new file_map, whatever happens
    to the `.mat` file afterwards -/
theorem spmSave_binds_of_ok (t : Gen.Traits) (env : Env) (dt : DtReq) (fault : Fault) (w : World)
    (h : (spmSave t env dt fault w).1 = none) : (spmSave t env dt fault w).2.bound = true := by
  unfold spmSave spmSaveWith at h ⊢
  have ha := analyzeSave_binds t env dt fault w
  rcases hr : analyzeSave t env dt fault w with ⟨e, w1⟩
  rw [hr] at ha h
  cases e with
  | none =>
      simp only []
      split
      · exact ha.1 rfl
      · rw [withOpened_bound _ _ _ _ (matBody_noBind env _)]
        exact ha.1 rfl
  | some e => simp at h

theorem mghSave_binds (t : Gen.Traits) (env : Env) (dt : DtReq) (fault : Fault) (w : World) :
    BindsOnSuccess (mghSave t env dt fault w) w := by
  unfold mghSave
  have hb := withOpened_bound (mghCtx t env fault (entry w)) .image _ (entry w)
    (mghBody_noBind (mghCtx t env fault (entry w)))
  rw [entry_bound] at hb
  split
  · exact binds_err _ _ _ rfl
  · show BindsOnSuccess (match withOpened (mghCtx t env fault (entry w)) .image (mghBody (mghCtx t env fault (entry w))) (entry w) with
      | (none, w1) => runSteps (mghCtx t env fault (entry w)) [.bindHeader, .bindFileMap] w1
      | r => r) w
    split
    · rename_i w1 h1
      simp [runSteps, exec, Res.andThen, BindsOnSuccess]
    · rename_i r hne
      rcases hr : withOpened (mghCtx t env fault (entry w)) File.image
        (mghBody (mghCtx t env fault (entry w))) (entry w) with ⟨e, w1⟩
      rw [hr] at hb
      cases e with
      | none => exact absurd hr (hne w1)
      | some e => exact binds_err _ _ _ hb

theorem ciftiSave_bound (env : Env) (dt : DtReq) (fault : Fault) (w : World) :
    (ciftiSave env dt fault w).2.bound = w.bound := by
  unfold ciftiSave
  simp only []
  split <;> rfl

/-! ### saving an image and saving its harmonised copy are indistinguishable -/

/-- what a caller can observe of a save besides the image: result, abstract bytes, I/O trace, binding -/
def Res.obs (r : Res) : Option Err × List Chunk × List IoCall × Nat × Bool :=
  (r.1, r.2.out, r.2.log, r.2.calls, r.2.bound)

theorem analyzeSave_harm (t : Gen.Traits) (env : Env) (dt : DtReq) (fault : Fault) (w : World) :
    analyzeSave t env dt fault { w with img := harmonise w.img } = analyzeSave t env dt fault w := rfl

theorem spmSave_harm (t : Gen.Traits) (env : Env) (dt : DtReq) (fault : Fault) (w : World) :
    spmSave t env dt fault { w with img := harmonise w.img } = spmSave t env dt fault w := rfl

theorem mghSave_harm (t : Gen.Traits) (env : Env) (dt : DtReq) (fault : Fault) (w : World) :
    (mghSave t env dt fault { w with img := harmonise w.img }).obs = (mghSave t env dt fault w).obs := by
  unfold mghSave
  split
  · rfl
  · rfl

theorem ciftiSave_harm (env : Env) (dt : DtReq) (fault : Fault) (w : World) :
    ciftiSave env dt fault { w with img := harmonise w.img } = ciftiSave env dt fault w := rfl

theorem niftiSave_harm (t : Gen.Traits) (env : Env) (dt : DtReq) (fault : Fault) (w : World) :
    (niftiSave t env dt fault { w with img := harmonise w.img }).obs = (niftiSave t env dt fault w).obs := by
  unfold niftiSave niftiSaveWith
  simp only []
  cases ha : w.img.alias with
  | none =>
      have : (harmonise w.img).alias = none := ha
      simp only [this]
      rfl
  | some a =>
      have : (harmonise w.img).alias = some a := ha
      simp only [this]
      split
      · rfl
      · split
        · rfl
        · rfl

theorem saveWorld_harm (cls : Cls) (env : Env) (dt : DtReq) (fault : Fault) (k : Core) :
    (saveWorld cls env dt fault { img := harmonise k }).obs = (saveWorld cls env dt fault { img := k }).obs := by
  cases cls <;> simp only [saveWorld]
  · exact congrArg Res.obs (analyzeSave_harm _ env dt fault { img := k })
  · exact congrArg Res.obs (spmSave_harm _ env dt fault { img := k })
  · exact congrArg Res.obs (spmSave_harm _ env dt fault { img := k })
  · exact niftiSave_harm _ env dt fault { img := k }
  · exact niftiSave_harm _ env dt fault { img := k }
  · exact niftiSave_harm _ env dt fault { img := k }
  · exact niftiSave_harm _ env dt fault { img := k }
  · exact mghSave_harm _ env dt fault { img := k }
  · exact congrArg Res.obs (ciftiSave_harm env dt fault { img := k })
/-! ### 4x4 integer matrices -/

theorem M4.mul_assoc (a b c : M4) : (a.mul b).mul c = a.mul (b.mul c) := by
  obtain ⟨⟨a00,a01,a02,a03⟩,⟨a10,a11,a12,a13⟩,⟨a20,a21,a22,a23⟩,⟨a30,a31,a32,a33⟩⟩ := a
  obtain ⟨⟨b00,b01,b02,b03⟩,⟨b10,b11,b12,b13⟩,⟨b20,b21,b22,b23⟩,⟨b30,b31,b32,b33⟩⟩ := b
  obtain ⟨⟨c00,c01,c02,c03⟩,⟨c10,c11,c12,c13⟩,⟨c20,c21,c22,c23⟩,⟨c30,c31,c32,c33⟩⟩ := c
  simp only [M4.mul, V4.mulM, V4.add, V4.smul, M4.mk.injEq, V4.mk.injEq]
  refine ⟨⟨?_, ?_, ?_, ?_⟩, ⟨?_, ?_, ?_, ?_⟩, ⟨?_, ?_, ?_, ?_⟩, ⟨?_, ?_, ?_, ?_⟩⟩ <;> grind

theorem from111_to111 (m : M4) : (m.mul from111).mul to111 = m := by
  obtain ⟨⟨a00,a01,a02,a03⟩,⟨a10,a11,a12,a13⟩,⟨a20,a21,a22,a23⟩,⟨a30,a31,a32,a33⟩⟩ := m
  simp only [M4.mul, V4.mulM, V4.add, V4.smul, from111, to111, shift4, Gen.from111Shift, Gen.to111Shift,
    M4.mk.injEq, V4.mk.injEq]
  refine ⟨⟨?_, ?_, ?_, ?_⟩, ⟨?_, ?_, ?_, ?_⟩, ⟨?_, ?_, ?_, ?_⟩, ⟨?_, ?_, ?_, ?_⟩⟩ <;> omega

theorem xflip_xflip (m : M4) : xflipR.mul (xflipM.mul m) = m := by
  obtain ⟨⟨a00,a01,a02,a03⟩,⟨a10,a11,a12,a13⟩,⟨a20,a21,a22,a23⟩,⟨a30,a31,a32,a33⟩⟩ := m
  simp only [M4.mul, V4.mulM, V4.add, V4.smul, xflipM, xflipR, diag4, Gen.xflipDiagW, Gen.xflipDiagR,
    List.getD_cons_zero, List.getD_cons_succ, M4.mk.injEq, V4.mk.injEq]
  refine ⟨⟨?_, ?_, ?_, ?_⟩, ⟨?_, ?_, ?_, ?_⟩, ⟨?_, ?_, ?_, ?_⟩, ⟨?_, ?_, ?_, ?_⟩⟩ <;> omega

/-! ### the abstract output only grows; the `.mat` chunk of an SPM save -/

theorem exec_out_mono (c : Ctx) (s : Step) (w : World) (x : Chunk) (h : x ∈ w.out) : x ∈ (exec c s w).2.out := by
  cases s with
  | mkWriter => simp only [exec]; split <;> exact h
  | setSlopeInter => simp only [exec]; split <;> (try split) <;> exact h
  | chooseOffset =>
      simp only [exec]; split
      · split
        · exact h
        · split <;> exact h
      · exact h
  | ios cs => simp only [exec]; rw [stat_out (ioMany_keeps c.fault cs w.stat w rfl)]; exact h
  | seekTell f w0 => simp only [exec]; rw [stat_out (seekTell_keeps c.fault f w0 w.stat w rfl)]; exact h
  | emitHdr f => exact List.mem_cons_of_mem _ h
  | emitData f => exact List.mem_cons_of_mem _ h
  | emitMat a => exact List.mem_cons_of_mem _ h
  | emitTrailer f => exact List.mem_cons_of_mem _ h
  | openW f => simp only [exec]; split <;> exact h
  | bindHeader => exact h
  | bindFileMap => exact h

theorem runSteps_out_mono (c : Ctx) (ss : List Step) (w : World) (x : Chunk) (h : x ∈ w.out) :
    x ∈ (runSteps c ss w).2.out := by
  induction ss generalizing w with
  | nil => exact h
  | cons s ss ih =>
      unfold runSteps
      exact andThen_inv (P := fun w => x ∈ w.out) (exec_out_mono c s w x h) (fun w hw => ih w hw)

/-- a `with … as mfobj:` block around `matBody` that completes has written the `.mat` chunk computed from
    the image as it was on entry -/
theorem withOpened_mat (c : Ctx) (env : Env) (a : M4) (w : World) (hl : w.live = none)
    (hok : (withOpened c .mat (matBody env a) w).1 = none) :
    Chunk.mat (spmM w.img.xflip a) (spmMat a) ∈ (withOpened c .mat (matBody env a) w).2.out := by
  unfold withOpened at hok ⊢
  split at hok
  · rename_i w1 h1
    have hil := runSteps_keeps_il c (prepare c.env .mat) w (prepare_keeps c.env .mat) hl
    rw [h1] at hil
    have hw1 : w1.img = w.img := congrArg Prod.fst hil
    simp only []
    apply runSteps_out_mono
    simp only [matBody, runSteps, exec, Res.andThen]
    apply runSteps_out_mono (x := Chunk.mat (spmM w.img.xflip a) (spmMat a)) c [.ios _]
    rw [hw1]
    exact List.mem_cons_self
  · rename_i r hne
    rcases hr : runSteps c (prepare c.env File.mat) w with ⟨e, w1⟩
    rw [hr] at hok
    cases e with
    | none => exact absurd hr (hne w1)
    | some e => simp at hok

theorem spmSave_mat (t : Gen.Traits) (env : Env) (dt : DtReq) (fault : Fault) (w : World) (a : M4)
    (hrt : rtCode t w.img.hdr.dtype = w.img.hdr.dtype) (ha : w.img.affine = some a)
    (hok : (spmSave t env dt fault w).1 = none) :
    Chunk.mat (spmM w.img.xflip a) (spmMat a) ∈ (spmSave t env dt fault w).2.out := by
  unfold spmSave spmSaveWith at hok ⊢
  have hi := analyzeSave_img t env dt fault w hrt
  have hl := analyzeSave_live t env dt fault w
  rcases hr : analyzeSave t env dt fault w with ⟨e, w1⟩
  rw [hr] at hok hi hl
  cases e with
  | some e => simp at hok
  | none =>
      simp only [] at hok hi hl
      have ha1 : w1.img.affine = some a := by rw [hi]; exact ha
      have hx : w1.img.xflip = w.img.xflip := by rw [hi]; rfl
      simp only [ha1] at hok
      simp only [ha1]
      rw [← hx]
      exact withOpened_mat _ env a w1 hl hok

end Nb.C07
