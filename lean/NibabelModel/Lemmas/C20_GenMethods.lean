import NibabelModel.Model.C20_PyHdr
import NibabelModel.Lemmas.PyVal
import NibabelModel.Lemmas.C20_Vol
/-! Lemmas/C20_GenMethods — the tie to the source for the METHODS translated on every run by
    harness/py2lean_c20.py into `Generated/C20Methods.lean` (composition: Model/C20_PyHdr.lean):
    * `strict_sort_keys_eq`: the statements of `_strict_sort_order` up to `keys = …` (the `asl_keys` conditional,
      the if-nesting that chooses among the three `diffusion_keys` alternatives with the `get_def` fallbacks, the
      tuple concatenation), run on the encoded header, yield exactly the columns of the model's `strictKey`;
    * `calc_data_shape_eq`, `get_sorted_slice_indices_eq`, `sorted_indices_eq_model`: the translated
      `_calc_data_shape` / `get_sorted_slice_indices` are `shapeTail` / `Hdr.sortedIndices`;
    * `get_n_slices_eq`: the translated `_get_n_slices` is `nSlices` (sets = ascending distinct lists).
    NOT proved here (translated and run against the real methods by the `genm` stream only): `vol_is_full`,
    `_get_n_vols`, `_lax_sort_order`, `get_volume_labels`. -/
namespace Nb.C20.GenM
open Nb.Py Nb.Py.V Nb.Gen.C20M Nb.C20.NV Nb.C20.PyHdr

/-- the key functions of the first lexsort in TUPLE order (last = highest precedence) -/
def keyFuns (c : Cfg) : List (Rec → Int) :=
  [(·.slice), (·.echo), (·.phase)] ++
  (if c.diffusion then (if c.hasGrad then [(·.grad), (·.bval)] else [(·.bval)]) else []) ++
  (if c.hasLabel then [(·.label)] else []) ++ [(·.dyn), (·.itype)]

theorem keyFuns_strictKey (c : Cfg) (r : Rec) : (keyFuns c).reverse.map (· r) = strictKey c r := by
  obtain ⟨v, d, a, b, e, f, g⟩ := c
  cases v <;> cases d <;> rfl

theorem strict_sort_keys_eq (c : Cfg) (recs : List Rec) (st : Bool) :
    H.strictKeys ⟨c, recs, st, (2,3)⟩ = .ok (ofList ((keyFuns c).map (colOf · recs))) := by
  obtain ⟨v, d, a, b, e, f, g⟩ := c
  cases v <;> cases d <;> cases recs <;> rfl


/-- `_calc_data_shape` (translated), for ANY results of the three methods it calls -/
theorem calc_data_shape_eq (x y ns nv : Int) :
    calc_data_shape (fun _ => .ok (.tup2 (.int x) (.int y))) (.ok (.int ns)) (.ok (.int nv)) =
      .ok (ofInts ([x, y, ns] ++ (if nv > 1 then [nv] else []))) := by
  by_cases h : nv > 1 <;> simp [calc_data_shape, NV.add, asList, extend, ofInts, ofList, h]

theorem ofNats_eq (l : List Nat) : ofNats l = ofInts (l.map fun (k : Nat) => (k : Int)) := by
  simp [ofNats, ofInts, List.map_map]; rfl

theorem asList_ofList (l : List V) : asList (ofList l) = .ok (ofList l) := by
  cases l <;> rfl

theorem takeNat_ofList (l : List V) (k : Nat) : takeNat (ofList l) k = ofList (l.take k) := by
  induction l generalizing k with
  | nil => cases k <;> rfl
  | cons a l ih => cases k with
    | zero => rfl
    | succ k => simp [ofList, takeNat, ih]

theorem dropNat_ofList (l : List V) (k : Nat) : dropNat (ofList l) k = ofList (l.drop k) := by
  induction l generalizing k with
  | nil => cases k <;> rfl
  | cons a l ih => cases k with
    | zero => rfl
    | succ k => simp [ofList, dropNat, ih]

theorem ints_ofInts (l : List Int) : ints? (ofInts l) = some l := by
  induction l with
  | nil => rfl
  | cons a l ih => simp only [ofInts, List.map_cons, ofList, ints?] at ih ⊢; simp [ih]

/-- `get_sorted_slice_indices` (translated), for ANY results of the three methods it calls: the order of
    the selected sort, cut to `prod(shape[2:])` entries -/
theorem get_sorted_slice_indices_eq (strict : Bool) (lax str : List Nat) (x y ns : Int) (tail : List Int)
    (hpos : 0 ≤ prodL (ns :: tail)) :
    get_sorted_slice_indices (.bool strict) (.ok (ofNats lax)) (.ok (ofNats str))
        (.ok (ofInts (x :: y :: ns :: tail))) =
      .ok (ofNats ((if strict then str else lax).take (prodL (ns :: tail)).toNat)) := by
  have hd : dropFrom (ofInts (x :: y :: ns :: tail)) (.int 2) = .ok (ofInts (ns :: tail)) := by
    simp only [dropFrom, ofInts, asList_ofList]
    simp only [bind_ok, Int.reduceLE, if_true, pure_eq_ok]
    rfl
  have hp : NV.prod (ofInts (ns :: tail)) = .ok (.int (prodL (ns :: tail))) := by
    simp only [NV.prod, ofInts, asList_ofList, bind_ok]
    have := ints_ofInts (ns :: tail)
    simp only [ofInts] at this
    rw [this]
    rfl
  have ht : ∀ l : List Nat, takeTo (ofNats l) (.int (prodL (ns :: tail))) =
      .ok (ofNats (l.take (prodL (ns :: tail)).toNat)) := by
    intro l
    simp only [takeTo, ofNats, asList_ofList, bind_ok]
    simp only [hpos, if_true, takeNat_ofList, List.map_take, pure_eq_ok]
  cases strict <;> simp only [get_sorted_slice_indices, hd, hp, ht, truthy_bool, bind_ok, pure_eq_ok,
    Bool.not_false, Bool.not_true, if_true, if_false] <;> rfl


theorem prodL_shape (ns nv : Nat) :
    prodL ((ns : Int) :: (if (nv : Int) > 1 then [(nv : Int)] else [])) = ((nUsedOf ns nv : Nat) : Int) := by
  unfold nUsedOf prodL
  by_cases h : nv > 1
  · have h' : (nv : Int) > 1 := by omega
    simp [h, h', Int.natCast_mul]
  · have h' : ¬ (nv : Int) > 1 := by omega
    simp [h, h']

/-- the translated `get_sorted_slice_indices`, given the shape by the translated `_calc_data_shape`, IS
    `Hdr.sortedIndices` of the model: for a header whose two sort orders are `lo` / `so` -/
theorem sorted_indices_eq_model (h : Hdr) (x y : Int) (lo so : List (Nat × Rec))
    (hl : laxOrder h.cfg h.recs = .ok lo) (hs : strictOrder h.cfg h.recs = .ok so) :
    get_sorted_slice_indices (.bool h.strict) (.ok (ofNats (lo.map (·.1)))) (.ok (ofNats (so.map (·.1))))
        (calc_data_shape (fun _ => .ok (.tup2 (.int x) (.int y))) (.ok (.int h.ns)) (.ok (.int h.nv))) =
      .ok (ofNats (((if h.strict then so else lo).map (·.1)).take h.nUsed)) ∧
    h.sortedIndices false = .ok (((if h.strict then so else lo).map (·.1)).take h.nUsed) := by
  rw [calc_data_shape_eq]
  have hp := prodL_shape h.ns h.nv
  have e : ([x, y, (h.ns : Int)] ++ if (h.nv : Int) > 1 then [(h.nv : Int)] else []) =
      x :: y :: (h.ns : Int) :: (if (h.nv : Int) > 1 then [(h.nv : Int)] else []) := rfl
  rw [e, get_sorted_slice_indices_eq _ _ _ _ _ _ _ (by rw [hp]; exact Int.natCast_nonneg _), hp]
  unfold Hdr.sortedIndices sortOrder Hdr.nUsed
  cases hst : h.strict <;> simp [hl, hs, bind, Except.bind, pure, Except.pure]


/-! ### sets: `sortU` is the ascending list of the distinct elements -/

theorem mem_insertU (a x : Int) : ∀ l : List Int, x ∈ insertU a l ↔ x = a ∨ x ∈ l
  | [] => by simp [insertU]
  | b :: l => by
    unfold insertU
    split
    · simp
    · split
      · rename_i h; subst h; simp
      · simp only [List.mem_cons, mem_insertU a x l]
        constructor
        · rintro (h | h | h) <;> simp [h]
        · rintro (h | h | h) <;> simp [h]

theorem mem_sortU (x : Int) : ∀ l : List Int, x ∈ sortU l ↔ x ∈ l
  | [] => by simp [sortU]
  | a :: l => by
    have ih := mem_sortU x l
    simp only [sortU, List.foldr_cons] at ih ⊢
    rw [mem_insertU, ih]; simp

theorem pairwise_insertU (a : Int) : ∀ l : List Int, l.Pairwise (· < ·) → (insertU a l).Pairwise (· < ·)
  | [], _ => by simp [insertU]
  | b :: l, h => by
    unfold insertU
    obtain ⟨hb, hl⟩ := List.pairwise_cons.1 h
    split
    · rename_i hab
      exact List.pairwise_cons.2 ⟨fun y hy => by
        rcases List.mem_cons.1 hy with rfl | hy
        · exact hab
        · exact Int.lt_trans hab (hb y hy), h⟩
    · split
      · exact h
      · rename_i h1 h2
        refine List.pairwise_cons.2 ⟨fun y hy => ?_, pairwise_insertU a l hl⟩
        rcases (mem_insertU a y l).1 hy with rfl | hy
        · omega
        · exact hb y hy

theorem pairwise_sortU : ∀ l : List Int, (sortU l).Pairwise (· < ·)
  | [] => by simp [sortU]
  | a :: l => by
    have ih := pairwise_sortU l
    simp only [sortU, List.foldr_cons] at ih ⊢
    exact pairwise_insertU a _ ih

theorem nodup_sortU (l : List Int) : (sortU l).Nodup :=
  (pairwise_sortU l).imp (fun h => Int.ne_of_lt h)

theorem length_sortU (l : List Int) : (sortU l).length = distinctCount l := by
  unfold distinctCount
  apply List.Perm.length_eq
  rw [List.perm_ext_iff_of_nodup (nodup_sortU l) (nodup_dedup l)]
  intro a; rw [mem_sortU, mem_dedup]

theorem set_ofInts (l : List Int) : NV.set (ofInts l) = .ok (mkSet l) := by
  have := ints_ofInts l
  simp only [ofInts] at this
  simp only [NV.set, ofInts, asList_ofList, bind_ok, this]; rfl

theorem len_mkSet (l : List Int) : NV.len (mkSet l) = .ok (.int (distinctCount l : Nat)) := by
  simp only [NV.len, mkSet, set?, ints_ofInts, length_sortU]; rfl

theorem defs_slice (c : Cfg) (recs : List Rec) :
    NV.getItem (encDefs c recs) (.str "slice number") = .ok (ofInts (recs.map (·.slice))) := rfl

/-- **`_get_n_slices` (translated) is the model's `nSlices`** -/
theorem get_n_slices_eq (c : Cfg) (recs : List Rec) (st : Bool) :
    H.nSlices ⟨c, recs, st, (2, 3)⟩ = .ok (.int (nSlices recs : Nat)) := by
  simp only [H.nSlices, get_n_slices, H.defs, defs_slice, bind_ok, set_ofInts, len_mkSet, nSlices]

end Nb.C20.GenM
