import NibabelModel.Lemmas.C06_Axis
/-! Lemmas/C06_Optimize — soundness of `optimize_slicer` for every heuristic answer (stage A4). -/
namespace Nb.C06
open Nb Nb.PySlice
attribute [local simp] rangeInts_length rangeInts_zero

/-- everything later stages need to know about one `optimize_slicer` result -/
structure AxisSound (it : Item) (n : Nat) (r : ReadItem) (p : PostItem) : Prop where
  asc : (r.selNat n).Pairwise (· < ·)
  lt : ∀ i ∈ r.selNat n, i < n
  post : applyPost p (r.selNat n) = some (it.target n)
  canon : r.Canon n
  pvalid : p.Valid
  dropped_iff : p = .dropped ↔ r.isInt = true

theorem optimizeSlicer_int_cases (h : Heuristic) (i : Int) (n : Nat) (allFull slowest : Bool)
    (stride : Nat) (r : ReadItem) (p : PostItem) (hi : 0 ≤ i)
    (hok : optimizeSlicer h (.int i) n allFull slowest stride = .ok (r, p)) :
    (r = .int i ∧ p = .dropped) ∨
    (r = .full ∧ p = .int i ∧ allFull = true ∧ slowest = false ∧ h (.int i) n stride = .full) := by
  unfold optimizeSlicer at hok
  simp only [show ¬ i < 0 by omega, if_false] at hok
  generalize h (HArg.int i) n stride = a0 at *
  split at hok
  · split at hok
    · grind
    · split at hok <;> grind
    · grind
  · grind

theorem sel_of_fill_full (s : PySlice) (n : Nat) (hv : s.Valid)
    (he : fillSlicer s n = ⟨0, some (n : Int), 1⟩) : s.sel n = List.range n := by
  rw [← fillSlicer_range_toNat s n hv, he, ← sel_none]
  unfold sel; rw [indices_none]; rfl

theorem sel_of_fill_rev (s : PySlice) (n : Nat) (hv : s.Valid)
    (he : fillSlicer s n = ⟨(n : Int) - 1, none, -1⟩) : s.sel n = (List.range n).reverse := by
  rw [← fillSlicer_range_toNat s n hv, he, ← sel_rev]
  unfold sel; rw [indices_rev]; rfl

theorem rev_valid : (⟨none, none, some (-1)⟩ : PySlice).Valid := by decide

theorem unit_valid (x y : Int) : (⟨some x, some y, some 1⟩ : PySlice).Valid := by
  show (1 : Int) ≠ 0; decide

theorem unit_pos (x y : Int) : 0 < (⟨some x, some y, some 1⟩ : PySlice).stepVal := by
  show (0 : Int) < 1; decide

theorem range_pairwise (n : Nat) : (List.range n).Pairwise (· < ·) := List.pairwise_lt_range

theorem optimizeSlicer_axisSound (h : Heuristic) (it : Item) (n : Nat) (hwf : it.WF n)
    (allFull slowest : Bool) (stride : Nat) (r : ReadItem) (p : PostItem)
    (hok : optimizeSlicer h it n allFull slowest stride = .ok (r, p)) : AxisSound it n r p := by
  cases it with
  | newaxis => exact absurd hwf (by simp [Item.WF])
  | int i =>
    obtain ⟨hi0, hi1⟩ : 0 ≤ i ∧ i < n := hwf
    rcases optimizeSlicer_int_cases h i n allFull slowest stride r p hi0 hok with ⟨rfl, rfl⟩ | ⟨rfl, rfl, -⟩
    · refine ⟨by simp [ReadItem.selNat], ?_, rfl, ⟨hi0, hi1⟩, trivial, by simp [ReadItem.isInt]⟩
      intro j hj
      simp only [ReadItem.selNat, List.mem_singleton] at hj
      omega
    · refine ⟨by rw [selNat_full]; exact range_pairwise n, ?_, ?_, trivial, trivial,
        by simp [ReadItem.isInt]⟩
      · rw [selNat_full]; intro j hj; exact List.mem_range.mp hj
      · rw [selNat_full]
        simp only [applyPost, List.length_range, pyIntIndex, Item.target]
        rw [if_pos ⟨hi0, hi1⟩]
        simp only [Option.bind_some]
        rw [List.getElem?_eq_getElem (by simp; omega)]
        simp
  | slice s =>
    have hv : s.Valid := hwf
    have hstep := fillSlicer_step s n
    have hfv : (fillSlicer s n).toPy.Valid := by
      show (fillSlicer s n).toPy.stepVal ≠ 0
      rw [toPy_stepVal, hstep]; exact hv
    rcases optimizeSlicer_slice_cases h s n allFull slowest stride r p hok with
      ⟨rfl, rfl, rfl⟩ | ⟨he, rfl, rfl⟩ | ⟨he, rfl, rfl⟩ | ⟨rfl, rfl⟩ | ⟨hc, rfl, rfl⟩ | ⟨hc, rfl, rfl⟩ |
      ⟨hc, rfl, rfl⟩ | ⟨hc, rfl, rfl⟩
    · -- slice(None)
      refine ⟨by rw [selNat_full]; exact range_pairwise n, ?_, ?_, trivial, pySliceNone_valid,
        by simp [ReadItem.isInt]⟩
      · rw [selNat_full]; intro j hj; exact List.mem_range.mp hj
      · rw [selNat_full]; simp only [applyPost, Item.target, pySliceNone, apply_none, sel_none]
    · -- filled slicer is slice(0, n, 1)
      refine ⟨by rw [selNat_full]; exact range_pairwise n, ?_, ?_, trivial, pySliceNone_valid,
        by simp [ReadItem.isInt]⟩
      · rw [selNat_full]; intro j hj; exact List.mem_range.mp hj
      · rw [selNat_full]
        simp only [applyPost, Item.target, pySliceNone, apply_none, sel_of_fill_full s n hv he]
    · -- full but reversed
      refine ⟨by rw [selNat_full]; exact range_pairwise n, ?_, ?_, trivial, rev_valid,
        by simp [ReadItem.isInt]⟩
      · rw [selNat_full]; intro j hj; exact List.mem_range.mp hj
      · rw [selNat_full]
        simp only [applyPost, Item.target, apply_rev, sel_of_fill_rev s n hv he]
    · -- heuristic says full: read the whole axis, post-slice with the filled slicer
      refine ⟨by rw [selNat_full]; exact range_pairwise n, ?_, ?_, trivial, hfv,
        by simp [ReadItem.isInt]⟩
      · rw [selNat_full]; intro j hj; exact List.mem_range.mp hj
      · rw [selNat_full]
        simp only [applyPost, Item.target, apply_range _ _ hfv, fillSlicer_sel' s n hv]
    · -- default, positive step
      rw [hstep] at hc
      rcases fillSlicer_cases s n hv with ⟨_, h1, h2, h3, h4, he⟩ | ⟨hc', _⟩ | ⟨hc', _⟩ | ⟨hc', _⟩ <;>
        try omega
      have hsel : (readOfFilled (fillSlicer s n)).selNat n = s.sel n := by
        rw [← fillSlicer_sel' s n hv, he]
        exact selNat_slice _ _ _ n (Int.ne_of_gt hc)
      refine ⟨by rw [hsel]; exact sel_pairwise_pos s n hc, by rw [hsel]; exact sel_lt s n hv, ?_, ?_,
        pySliceNone_valid, by simp [readOfFilled, ReadItem.isInt]⟩
      · rw [hsel]; simp only [applyPost, Item.target, pySliceNone, apply_none]
      · rw [he]; exact ⟨hc, h1, h2, h3, h4⟩
    · -- default, negative step: read the positive version, reverse afterwards
      rw [hstep] at hc
      have hneg : s.stepVal < 0 := by have := hv; unfold Valid at this; omega
      obtain ⟨hp1, hp2, hp3⟩ := positiveSlice_sel' s n hv hneg
      obtain ⟨b, hb⟩ := Option.isSome_iff_exists.mp hp2
      have hsel : (readOfFilled (positiveSlice (fillSlicer s n))).selNat n = (s.sel n).reverse := by
        rw [← hp3]
        unfold readOfFilled Filled.toPy
        rw [hb]
        exact selNat_slice _ _ _ n (by omega)
      have hpv : (positiveSlice (fillSlicer s n)).toPy.Valid := by
        show (positiveSlice (fillSlicer s n)).toPy.stepVal ≠ 0
        rw [toPy_stepVal]; omega
      refine ⟨?_, ?_, ?_, ?_, rev_valid, by simp [readOfFilled, ReadItem.isInt]⟩
      · rw [hsel, ← hp3]; exact sel_pairwise_pos _ n (by rw [toPy_stepVal]; exact hp1)
      · rw [hsel]; intro j hj; exact sel_lt s n hv j (List.mem_reverse.mp hj)
      · rw [hsel]; simp only [applyPost, Item.target, apply_rev, List.reverse_reverse]
      · rcases positiveSlice_fill_cases s n hv hneg with ⟨hL, x, hx0, hx1, he⟩ | ⟨hL, h0, ha0, ha1, he⟩ <;>
          rw [he] <;> simp only [readOfFilled, Option.getD_some, ReadItem.Canon]
        · omega
        · have := (mul_neg_mono hneg 0 ((s.len n : Int) - 1)).mp (by omega)
          omega
    · -- contiguous, positive step
      rw [hstep] at hc
      have hpos : 0 < s.stepVal := by have := hv; unfold Valid at this; omega
      rcases fillSlicer_cases s n hv with ⟨_, h1, h2, h3, h4, he⟩ | ⟨hc', _⟩ | ⟨hc', _⟩ | ⟨hc', _⟩ <;>
        try omega
      rw [he]
      simp only [Option.getD_some]
      have hsel := selNat_slice (s.indices n).1 (s.indices n).2.1 1 n (by omega)
      have hv1 := unit_valid (s.indices n).1 (s.indices n).2.1
      refine ⟨by rw [hsel]; exact sel_pairwise_pos _ n (unit_pos _ _), by rw [hsel]; exact sel_lt _ n hv1, ?_,
        ⟨by omega, h1, h2, h3, h4⟩, hv, by simp [ReadItem.isInt]⟩
      rw [hsel]; simp only [applyPost, Item.target, contig_pos s n hpos]
    · -- contiguous, negative step
      rw [hstep] at hc
      have hsel := selNat_slice (positiveSlice (fillSlicer s n)).start
        ((positiveSlice (fillSlicer s n)).stop.getD 0) 1 n (by omega)
      have hv1 := unit_valid (positiveSlice (fillSlicer s n)).start
        ((positiveSlice (fillSlicer s n)).stop.getD 0)
      refine ⟨by rw [hsel]; exact sel_pairwise_pos _ n (unit_pos _ _), by rw [hsel]; exact sel_lt _ n hv1, ?_,
        ?_, by rw [hstep]; exact hv, by simp [ReadItem.isInt]⟩
      · rw [hsel, hstep]; simp only [applyPost, Item.target, contig_neg s n hv hc]
      · rcases positiveSlice_fill_cases s n hv hc with ⟨hL, x, hx0, hx1, he⟩ | ⟨hL, h0, ha0, ha1, he⟩ <;>
          rw [he] <;> simp only [Option.getD_some, ReadItem.Canon]
        · omega
        · have := (mul_neg_mono hc 0 ((s.len n : Int) - 1)).mp (by omega)
          omega

/-- `optimize_slicer` raises only for "int index cannot be contiguous" -/
theorem optimizeSlicer_error_iff' (h : Heuristic) (it : Item) (n : Nat) (allFull slowest : Bool)
    (stride : Nat) (e : Err) :
    optimizeSlicer h it n allFull slowest stride = .error e ↔
      e = .value ∧ ∃ i0, it = .int i0 ∧ allFull = true ∧
        h (.int (if i0 < 0 then (n : Int) + i0 else i0)) n stride = .contiguous := by
  cases it with
  | newaxis => unfold optimizeSlicer; simp
  | int i0 =>
    have key : optimizeSlicer h (.int i0) n allFull slowest stride = .error e ↔
        (e = .value ∧ allFull = true ∧
          h (.int (if i0 < 0 then (n : Int) + i0 else i0)) n stride = .contiguous) := by
      unfold optimizeSlicer
      simp only []
      generalize h (HArg.int (if i0 < 0 then (n : Int) + i0 else i0)) n stride = a0
      cases allFull <;> cases a0 <;> cases slowest <;> simp <;> grind
    rw [key]
    constructor
    · rintro ⟨h1, h2, h3⟩; exact ⟨h1, i0, rfl, h2, h3⟩
    · rintro ⟨h1, i1, hi, h2, h3⟩; cases hi; exact ⟨h1, h2, h3⟩
  | slice s =>
    unfold optimizeSlicer
    simp only []
    generalize h (HArg.slice (fillSlicer s n)) n stride = a0
    constructor
    · intro hh
      exfalso
      split at hh
      · grind
      · split at hh
        · grind
        · split at hh
          · grind
          · split at hh
            · split at hh <;> grind
            · grind
    · intro hh; grind

/-- when is the whole axis read (`to_read == slice(None)`): an int whose heuristic answer is
    `full` on a non-slowest axis while everything so far was full -/
theorem optimizeSlicer_int_full_iff_aux (h : Heuristic) (i : Int) (n : Nat) (allFull slowest : Bool)
    (stride : Nat) (r : ReadItem) (p : PostItem) (hi : 0 ≤ i)
    (hok : optimizeSlicer h (.int i) n allFull slowest stride = .ok (r, p)) :
    r = .full ↔ (allFull = true ∧ slowest = false ∧ h (.int i) n stride = .full) := by
  unfold optimizeSlicer at hok
  simp only [show ¬ i < 0 by omega, if_false] at hok
  generalize h (HArg.int i) n stride = a0 at *
  cases allFull <;> cases a0 <;> cases slowest <;> simp at hok <;> grind

/-- when is the whole axis read for a slice: the slice is the full axis (either direction), or
    everything so far was full, the axis is not the slowest and the heuristic answers `full` -/
theorem optimizeSlicer_slice_full_iff_aux (h : Heuristic) (s : PySlice) (n : Nat) (allFull slowest : Bool)
    (stride : Nat) (r : ReadItem) (p : PostItem)
    (hok : optimizeSlicer h (.slice s) n allFull slowest stride = .ok (r, p)) :
    r = .full ↔ (s = pySliceNone ∨ fillSlicer s n = ⟨0, some (n : Int), 1⟩ ∨
        fillSlicer s n = ⟨(n : Int) - 1, none, -1⟩ ∨
        (allFull = true ∧ slowest = false ∧ h (.slice (fillSlicer s n)) n stride = .full)) := by
  unfold optimizeSlicer at hok
  simp only [] at hok
  generalize fillSlicer s n = f at *
  generalize h (HArg.slice f) n stride = a0 at *
  unfold readOfFilled at hok
  split at hok
  · grind
  · split at hok
    · grind
    · split at hok
      · grind
      · cases allFull <;> cases a0 <;> cases slowest <;> simp at hok <;> grind

theorem thresholdHeuristic_int (k : Nat) (i : Int) (n stride : Nat) :
    thresholdHeuristic k (.int i) n stride ≠ .contiguous := by
  simp only [thresholdHeuristic]
  split <;> simp

end Nb.C06
