import NibabelModel.Lemmas.C02
/-! Lemmas/C02_Bound — the reload error bound for one finite element. -/
namespace Nb.C02

/-- Core of `error_bound_gap`: `q = clip(rint((v − b)/s), L, H)`; the ideal map `(s*, b*)` sends `v` to
    `x* ∈ [L', H']`; `g ≥ 0` bounds how far `[L', H']` sticks out of the clip range `[L, H]`. -/
theorem err_core {s b ss bs v xs : Rat} {L H L' H' : Int} (hs : s ≠ 0) (hLH : L ≤ H)
    (hv : v = ss * xs + bs) (hL' : (L' : Rat) ≤ xs) (hH' : xs ≤ (H' : Rat))
    {g : Rat} (hg0 : 0 ≤ g) (hg1 : (H' : Rat) - H ≤ g) (hg2 : (L : Rat) - L' ≤ g) :
    |(clipI (rint ((v - b) / s)) L H : Rat) * s + b - v|
      ≤ |s| / 2 + |b - bs| + |s - ss| * max |(L' : Rat)| |(H' : Rat)| + |s| * g := by
  have hx : ∀ q : Rat, q * s + b - v = s * (q - (v - b) / s) := by
    intro q; field_simp; ring
  rw [hx, abs_mul]
  have hs0 : 0 ≤ |s| := abs_nonneg s
  have hd0 : 0 ≤ |s - ss| := abs_nonneg _
  have hb0 : 0 ≤ |b - bs| := abs_nonneg _
  have hM : |xs| ≤ max |(L' : Rat)| |(H' : Rat)| := abs_le_max_of_mem hL' hH'
  have hM0 : 0 ≤ max |(L' : Rat)| |(H' : Rat)| := le_trans (abs_nonneg _) hM
  have dev := scaled_dev (b := b) hs hv
  have dev' : |s| * |(v - b) / s - xs| ≤ |s - ss| * max |(L' : Rat)| |(H' : Rat)| + |b - bs| := by
    have := mul_le_mul_of_nonneg_left hM hd0
    linarith
  have hr := rint_spec ((v - b) / s)
  have hsg : 0 ≤ |s| * g := mul_nonneg hs0 hg0
  have hdM : 0 ≤ |s - ss| * max |(L' : Rat)| |(H' : Rat)| := mul_nonneg hd0 hM0
  have hxle : (v - b) / s - xs ≤ |(v - b) / s - xs| := le_abs_self _
  have hxge : -((v - b) / s - xs) ≤ |(v - b) / s - xs| := neg_le_abs _
  rcases clipI_cases (x := rint ((v - b) / s)) hLH with ⟨e, _, _⟩ | ⟨e, h⟩ | ⟨e, h⟩
  · -- not clipped
    rw [e]
    have : |(rint ((v - b) / s) : Rat) - (v - b) / s| ≤ 1 / 2 := rint_abs _
    have := mul_le_mul_of_nonneg_left this hs0
    linarith
  · -- clipped at the top
    rw [e]
    have h' : (H : Rat) + 1 ≤ (rint ((v - b) / s) : Rat) := by exact_mod_cast (show H + 1 ≤ _ by omega)
    have hpos : (H : Rat) - (v - b) / s ≤ 0 := by linarith
    rw [abs_of_nonpos hpos]
    have : -((H : Rat) - (v - b) / s) ≤ |(v - b) / s - xs| + g := by linarith
    have := mul_le_mul_of_nonneg_left this hs0
    linarith
  · -- clipped at the bottom
    rw [e]
    have h' : (rint ((v - b) / s) : Rat) + 1 ≤ (L : Rat) := by exact_mod_cast (show _ + 1 ≤ L by omega)
    have hpos : 0 ≤ (L : Rat) - (v - b) / s := by linarith
    rw [abs_of_nonneg hpos]
    have : (L : Rat) - (v - b) / s ≤ |(v - b) / s - xs| + g := by linarith
    have := mul_le_mul_of_nonneg_left this hs0
    linarith

/-- for `mn ≤ v ≤ mx` the rounded scaled value lies between the two rounded scaled thresholds -/
theorem rint_between {s b mn mx v : Rat} (hs : s ≠ 0) (h1 : mn ≤ v) (h2 : v ≤ mx) :
    let a := rint ((mn - b) / s)
    let c := rint ((mx - b) / s)
    min a c ≤ rint ((v - b) / s) ∧ rint ((v - b) / s) ≤ max a c := by
  intro a c
  rcases lt_or_gt_of_ne hs with hneg | hpos
  · have e1 : (mx - b) / s ≤ (v - b) / s := by
      apply div_le_div_of_nonpos_of_le (le_of_lt hneg); linarith
    have e2 : (v - b) / s ≤ (mn - b) / s := by
      apply div_le_div_of_nonpos_of_le (le_of_lt hneg); linarith
    have := rint_mono e1; have := rint_mono e2
    omega
  · have e1 : (mn - b) / s ≤ (v - b) / s := by
      apply div_le_div_of_nonneg_right _ (le_of_lt hpos); linarith
    have e2 : (v - b) / s ≤ (mx - b) / s := by
      apply div_le_div_of_nonneg_right _ (le_of_lt hpos); linarith
    have := rint_mono e1; have := rint_mono e2
    omega

/-- with the CURRENT (clamped) thresholds an in-range element is simply clipped to the shared range -/
theorem scaleFin_eq {s b mn mx v : Rat} {bmn bmx : Int} (hs : s ≠ 0) (hb : bmn ≤ bmx)
    (h1 : mn ≤ v) (h2 : v ≤ mx) :
    scaleFin s b mn mx bmn bmx v = clipI (rint ((v - b) / s)) bmn bmx := by
  have hbt := rint_between (b := b) hs h1 h2
  simp only at hbt
  unfold scaleFin
  simp only
  split
  · rename_i hle
    exact clipI_clamped hb (by omega) (by omega)
  · rename_i hle
    exact clipI_clamped hb (by omega) (by omega)

end Nb.C02
