import NibabelModel.Lemmas.C20_Sites
/-! Lemmas/C20_Chain — a header handed on through any sequence of `copy()` / `from_header` / `img.header`
    is an equal header (image definitions, shape and BOTH options), so a load observed through it and through a
    new proxy built on it is the load itself. -/
namespace Nb.C20

theorem init_copy {c : Cfg} {recs : List Rec} {permit strict : Bool} {h : Hdr}
    (h0 : Hdr.init c recs permit strict = .ok h) : h.copy = .ok h := by
  unfold Hdr.init at h0
  cases ht : truncationChecks c permit recs with
  | error e => rw [ht] at h0; cases h0
  | ok u =>
    cases hv : nVols c recs with
    | error e => rw [ht, hv] at h0; cases h0
    | ok nv =>
      rw [ht, hv] at h0
      injection h0 with h0
      subst h0
      unfold Hdr.copy Hdr.init
      simp only [ht, hv]
      rfl

theorem chain_eq_self {h : Hdr} (hc : h.copy = .ok h) : ∀ ops : List HOp, h.chain ops = .ok h
  | [] => rfl
  | o :: os => by
    have : h.apply o = .ok h := by cases o <;> exact hc
    simp only [Hdr.chain, this, bind, Except.bind]
    exact chain_eq_self hc os

theorem loadChain_eq_loadSites (c : Cfg) (permit strict : Bool) (m : Scaling) (recs : List Rec) (ops : List HOp) :
    loadChain c permit strict m recs ops = loadSites c permit strict m false recs := by
  unfold loadChain loadSites
  cases h0 : Hdr.init c recs permit strict with
  | error e => rfl
  | ok h =>
    have hc := init_copy h0
    simp only [bind, Except.bind, chain_eq_self hc ops, hc]

end Nb.C20
