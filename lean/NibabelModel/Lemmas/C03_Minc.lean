import NibabelModel.Lemmas.C03_EcatMain
/-! Lemmas/C03_Minc — `_normalize` pairs each voxel with the image-min/max entry of its leading index. -/
namespace Nb.C03
open Nb Nb.C06

/-! ### `takeReal` -/

theorem takeReal_eq_take : ∀ (k : Nat) (items : List Item),
    takeReal k items = items.take (takeReal k items).length
  | _, [] => by simp [takeReal]
  | k, .newaxis :: rest => by
      have ih := takeReal_eq_take k rest
      simp only [takeReal, List.length_cons, List.take_succ_cons]
      rw [← ih]
  | 0, .int i :: rest => by simp [takeReal]
  | 0, .slice s :: rest => by simp [takeReal]
  | k + 1, .int i :: rest => by
      have ih := takeReal_eq_take k rest
      simp only [takeReal, List.length_cons, List.take_succ_cons]
      rw [← ih]
  | k + 1, .slice s :: rest => by
      have ih := takeReal_eq_take k rest
      simp only [takeReal, List.length_cons, List.take_succ_cons]
      rw [← ih]

theorem takeReal_append_drop (k : Nat) (items : List Item) :
    takeReal k items ++ items.drop (takeReal k items).length = items := by
  conv => lhs; arg 1; rw [takeReal_eq_take]
  exact List.take_append_drop _ _

theorem realCount_takeReal : ∀ (k : Nat) (items : List Item), k ≤ realCount items →
    realCount (takeReal k items) = k
  | k, [], h => by simp at h; subst h; rfl
  | k, .newaxis :: rest, h => by
      simp only [takeReal, realCount_newaxis]
      exact realCount_takeReal k rest (by simpa using h)
  | 0, .int i :: rest, _ => by simp [takeReal]
  | 0, .slice s :: rest, _ => by simp [takeReal]
  | k + 1, .int i :: rest, h => by
      simp only [takeReal, realCount_int]
      rw [realCount_takeReal k rest (by simp at h; omega)]
  | k + 1, .slice s :: rest, h => by
      simp only [takeReal, realCount_slice]
      rw [realCount_takeReal k rest (by simp at h; omega)]

theorem realCount_reverse (l : List Item) : realCount l.reverse = realCount l := by
  simp [realCount, List.filter_reverse]

theorem nonIntCount_reverse (l : List Item) : nonIntCount l.reverse = nonIntCount l := by
  simp [nonIntCount, List.filter_reverse]

/-! ### gathers over a split of the axes -/

/-- the slow block of axes is the outer loop of the gather -/
theorem gatherF_append : ∀ (A : List (List Nat)) (ns : List Nat) (B : List (List Nat)) (ms : List Nat),
    A.length = ns.length →
    gatherF (A ++ B) (ns ++ ms) = (gatherF B ms).flatMap (fun r => (gatherF A ns).map (· + ns.prod * r))
  | [], [], B, ms, _ => by simp [gatherF]
  | [], _ :: _, _, _, h => by simp at h
  | _ :: _, [], _, _, h => by simp at h
  | l0 :: A, n :: ns, B, ms, h => by
      simp only [List.cons_append, gatherF, gatherF_append A ns B ms (by simpa using h), List.prod_cons,
        List.flatMap_assoc, List.flatMap_map, List.map_flatMap, List.map_map]
      congr 1; funext i; congr 1; funext r; congr 1; funext j
      simp only [Function.comp_def, Nat.mul_add, Nat.mul_assoc, Nat.add_assoc]

theorem slots_of_blocks (Q : Nat) (GT sSrc : List Nat) (hlt : ∀ g ∈ GT, g < Q) :
    (sSrc.flatMap (fun r => GT.map (· + Q * r))).map (· / Q) =
      sSrc.flatMap (fun r => List.replicate GT.length r) := by
  rw [List.map_flatMap]
  congr 1; funext r
  rw [List.map_map, ← List.map_const']
  apply List.map_congr_left
  intro g hg
  have := hlt g hg
  simp only [Function.comp_def]
  rw [Nat.add_mul_div_left _ _ (by omega : 0 < Q), Nat.div_eq_of_lt this, Nat.zero_add]

theorem flatMap_replicate (R : Nat) : ∀ l : List Nat,
    l.flatMap (fun r => List.replicate R r) = (List.range (R * l.length)).map (fun k => l.getD (k / R) 0)
  | [] => by simp
  | x :: xs => by
      rw [List.flatMap_cons, flatMap_replicate R xs, List.length_cons, Nat.mul_succ, Nat.add_comm,
        List.range_add, List.map_append, List.map_map]
      congr 1
      · apply List.ext_getElem (by simp)
        intro p h1 h2
        have hp : p < R := by simpa using h1
        simp [Nat.div_eq_of_lt hp]
      · apply List.map_congr_left
        intro p hp
        have hR : 0 < R := by
          rcases Nat.eq_zero_or_pos R with h0 | h0
          · simp [h0] at hp
          · exact h0
        simp only [Function.comp_def]
        rw [Nat.add_div_left _ hR, List.getD_cons_succ]

/-! ### the theorem -/

/-- MINC `_normalize`: the entry of `image-min`/`image-max` that NumPy broadcasting pairs with an
    output voxel is the entry at the leading (`nscales` axes) index of the voxel's SOURCE voxel. -/
theorem minc_scale_alongside' (nscales : Nat) (shape : List Nat) (idx : List IdxItem)
    (hn : nscales ≤ shape.length) (hv : ∀ s, IdxItem.slice s ∈ idx → s.Valid)
    (r : List Nat × List Nat) (hnp : npIndex idx shape .C = .ok r) :
    mincScaleSlots nscales shape idx = .ok (r.1, r.2.map (· / (shape.drop nscales).prod)) := by
  have hnp0 := hnp
  unfold npIndex at hnp
  cases hc : canonicalSlicers idx shape with
  | error e => simp [hc, bind, Except.bind] at hnp
  | ok items =>
  simp only [hc, bind, Except.bind, orient] at hnp
  cases hs4 : itemsSels items.reverse shape.reverse with
  | error e => simp [hs4] at hnp
  | ok sels4 =>
  simp only [hs4, pure, Except.pure, Except.ok.injEq] at hnp
  subst hnp
  have hrc : realCount items = shape.length := canonLoop_realCount true idx shape items hc
  have hvi : ∀ s, Item.slice s ∈ items → s.Valid := canonical_slice_valid hc hv
  -- split items and shape
  generalize hlead : takeReal nscales items = lead at *
  have hsplit : lead ++ items.drop lead.length = items := by rw [← hlead]; exact takeReal_append_drop _ _
  generalize htrail : items.drop lead.length = trail at *
  have hleadc : realCount lead = nscales := by rw [← hlead]; exact realCount_takeReal _ _ (by omega)
  have htrailc : realCount trail = (shape.drop nscales).length := by
    have : realCount items = realCount lead + realCount trail := by rw [← hsplit, realCount_append]
    rw [List.length_drop]; omega
  have hshape : shape.reverse = (shape.drop nscales).reverse ++ (shape.take nscales).reverse := by
    rw [← List.reverse_append, List.take_append_drop]
  have hitems : items.reverse = trail.reverse ++ lead.reverse := by rw [← hsplit, List.reverse_append]
  have happ := itemsSels_append trail.reverse (shape.drop nscales).reverse lead.reverse
    (shape.take nscales).reverse (by rw [realCount_reverse, htrailc, List.length_reverse])
  rw [← hitems, ← hshape, hs4] at happ
  cases hsT : itemsSels trail.reverse (shape.drop nscales).reverse with
  | error e => rw [hsT] at happ; simp [Except.bind] at happ
  | ok selsT =>
  rw [hsT] at happ
  simp only [Except.bind] at happ
  cases hsL : itemsSels lead.reverse (shape.take nscales).reverse with
  | error e => rw [hsL] at happ; simp at happ
  | ok selsL =>
  rw [hsL] at happ
  simp only [Except.ok.injEq] at happ
  subst happ
  have hgsT := gather_size trail.reverse _ selsT hsT (by rw [realCount_reverse, htrailc, List.length_reverse])
  have hltT := gather_lt trail.reverse _ selsT hsT (by rw [realCount_reverse, htrailc, List.length_reverse])
    (fun s hs => hvi s (by rw [← hsplit]; simp at hs ⊢; exact Or.inr hs))
  simp only [List.prod_reverse] at hltT
  have hlenT : (outShape selsT).length = nonIntCount trail := by
    rw [outShape_length trail.reverse _ selsT hsT, nonIntCount_reverse]
  have hgs4 : gatherF (realSels (selsT ++ selsL)) shape.reverse =
      (gatherF (realSels selsL) (shape.take nscales).reverse).flatMap
        (fun r => (gatherF (realSels selsT) (shape.drop nscales).reverse).map
          (· + (shape.drop nscales).prod * r)) := by
    rw [realSels_append, hshape, gatherF_append _ _ _ _ hgsT.2, List.prod_reverse]
  unfold mincScaleSlots
  simp only [hc, bind, Except.bind, hlead, htrail, orient, hsL, hnp0, pure, Except.pure]
  simp only [outShape_append, List.reverse_append, List.drop_left', List.length_reverse,
    List.length_append, List.take_left', hlenT, Nat.add_comm, ne_eq, not_true_eq_false, if_false,
    List.prod_reverse]
  simp only [Except.ok.injEq, Prod.mk.injEq, true_and]
  have hlen := length_flatMap_map (gatherF (realSels selsL) (shape.take nscales).reverse)
    (gatherF (realSels selsT) (shape.drop nscales).reverse) (fun r x => x + (shape.drop nscales).prod * r)
  rw [hgs4, slots_of_blocks _ _ _ hltT, flatMap_replicate, hlen, hgsT.1]

/-! ### the unchecked canonical form exists whenever the checked one does -/

theorem canonItem_false_ok {n : Nat} {it : IdxItem} {c : Item} (h : canonItem n true it = .ok c) :
    ∃ c', canonItem n false it = .ok c' := by
  cases it with
  | int i => simp only [canonItem]; split <;> simp
  | slice s => exact ⟨c, by simpa [canonItem] using h⟩
  | newaxis => exact ⟨c, by simpa [canonItem] using h⟩
  | ellipsis => simp [canonItem] at h

theorem canonLoop_false_ok : ∀ (idx : List IdxItem) (shape : List Nat) (items : List Item),
    canonLoop true idx shape = .ok items → ∃ items', canonLoop false idx shape = .ok items'
  | [], shape, items, _ => ⟨_, rfl⟩
  | .newaxis :: rest, shape, items, h => by
      simp only [canonLoop, bind, Except.bind] at h ⊢
      cases hr : canonLoop true rest shape with
      | error e => simp [hr] at h
      | ok r =>
          obtain ⟨r', hr'⟩ := canonLoop_false_ok rest shape r hr
          exact ⟨_, by rw [hr']; rfl⟩
  | .ellipsis :: rest, shape, items, h => by
      simp only [canonLoop] at h ⊢
      split at h
      · simp at h
      · rename_i hne
        simp only [hne, bind, Except.bind] at h ⊢
        cases hr : canonLoop true rest (shape.drop (shape.length - (rest.filter (fun x => !isNewaxis x)).length)) with
        | error e => simp [hr] at h
        | ok r =>
            obtain ⟨r', hr'⟩ := canonLoop_false_ok rest _ r hr
            refine ⟨List.replicate (shape.length - (rest.filter (fun x => !isNewaxis x)).length)
              (Item.slice pySliceNone) ++ r', ?_⟩
            rw [hr']; simp [pure, Except.pure]
  | .int i :: rest, [], items, h => by simp [canonLoop] at h
  | .slice s :: rest, [], items, h => by simp [canonLoop] at h
  | .int i :: rest, n :: shape, items, h => by
      simp only [canonLoop, bind, Except.bind] at h ⊢
      cases hc : canonItem n true (.int i) with
      | error e => simp [hc] at h
      | ok c =>
          simp only [hc] at h
          cases hr : canonLoop true rest shape with
          | error e => simp [hr] at h
          | ok r =>
              obtain ⟨c', hc'⟩ := canonItem_false_ok hc
              obtain ⟨r', hr'⟩ := canonLoop_false_ok rest shape r hr
              exact ⟨_, by rw [hc', hr']; rfl⟩
  | .slice s :: rest, n :: shape, items, h => by
      simp only [canonLoop, bind, Except.bind] at h ⊢
      cases hc : canonItem n true (.slice s) with
      | error e => simp [hc] at h
      | ok c =>
          simp only [hc] at h
          cases hr : canonLoop true rest shape with
          | error e => simp [hr] at h
          | ok r =>
              obtain ⟨c', hc'⟩ := canonItem_false_ok hc
              obtain ⟨r', hr'⟩ := canonLoop_false_ok rest shape r hr
              exact ⟨_, by rw [hc', hr']; rfl⟩

/-! ### PAR/REC: the reordered whole array, element by element -/

/-- REC element shown at logical element `q`: same in-slice position, slice `indices[q / S]` -/
def recElem (S : Nat) (indices : List Nat) (q : Nat) : Nat := q % S + S * indices.getD (q / S) 0

theorem parrecWhole_eq (S : Nat) (indices : List Nat) :
    parrecWhole S indices = (List.range (S * indices.length)).map (recElem S indices) := by
  unfold parrecWhole
  have := flatMap_blocks S (List.range S) indices
  simp only [List.length_range] at this
  rw [this]
  apply List.map_congr_left
  intro p hp
  have hS : 0 < S := by
    rcases Nat.eq_zero_or_pos S with h0 | h0
    · simp [h0] at hp
    · exact h0
  simp [recElem, List.getD_eq_getElem?_getD, Nat.mod_lt _ hS]

theorem parrecWhole_getD (S : Nat) (indices : List Nat) (q : Nat) (hq : q < S * indices.length) :
    (parrecWhole S indices).getD q 0 = recElem S indices q := by
  rw [parrecWhole_eq]
  simp [List.getD_eq_getElem?_getD, hq]

theorem recElem_range (S K q : Nat) (hq : q < S * K) : recElem S (List.range K) q = q := by
  have hS : 0 < S := by
    rcases Nat.eq_zero_or_pos S with h0 | h0
    · rw [h0] at hq; omega
    · exact h0
  have hd : q / S < K := (Nat.div_lt_iff_lt_mul hS).mpr (by rw [Nat.mul_comm]; exact hq)
  simp only [recElem, List.getD_eq_getElem?_getD, List.getElem?_range hd, Option.getD_some]
  exact Nat.mod_add_div q S

end Nb.C03
