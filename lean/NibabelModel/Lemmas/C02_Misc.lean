import NibabelModel.Lemmas.C02_Write
/-! Lemmas/C02_Misc — NaN / ±inf handling, refusals, exact integer→integer paths. -/
namespace Nb.C02

/-- `scaledWrite` with finite thresholds, thresholds spelled out -/
theorem scaledWrite_fin {p : Nat} {s b mn mx : Rat} {bm : Int × Int} {n2z : Bool} {data : List Val} :
    scaledWrite p s b (some mn) (some mx) bm n2z data =
      ((if n2z then (nanFillCheck p s b (rint ((0 - b) / s)) bm.1 bm.2).map some else pure none) >>= fun nf =>
        data.mapM (scaleVal s b
          (clipI (min (rint ((mn - b) / s)) (rint ((mx - b) / s))) bm.1 bm.2)
          (clipI (max (rint ((mn - b) / s)) (rint ((mx - b) / s))) bm.1 bm.2) nf)) := by
  unfold scaledWrite
  simp only [scaleThresh, postBounds, ExtI.le, ExtI.clip]
  by_cases h : rint ((mn - b) / s) ≤ rint ((mx - b) / s)
  · simp only [h, decide_true, if_true, Int.min_eq_left h, Int.max_eq_right h]
    cases n2z <;> rfl
  · have h' : rint ((mx - b) / s) ≤ rint ((mn - b) / s) := by omega
    simp only [h, decide_false, Bool.false_eq_true, if_false, Int.min_eq_right h', Int.max_eq_left h']
    cases n2z <;> rfl

/-- +inf is stored exactly like the largest finite value, −inf like the smallest -/
theorem inf_as_extreme {s b mn mx : Rat} {lo hi : Int} {bmn bmx : Int} (hs : s ≠ 0) (hmm : mn ≤ mx)
    (hb : bmn ≤ bmx) (nf : Option Int)
    (hlo : lo = clipI (min (rint ((mn - b) / s)) (rint ((mx - b) / s))) bmn bmx)
    (hhi : hi = clipI (max (rint ((mn - b) / s)) (rint ((mx - b) / s))) bmn bmx) :
    scaleVal s b lo hi nf .pinf = scaleVal s b lo hi nf (.fin mx) ∧
    scaleVal s b lo hi nf .ninf = scaleVal s b lo hi nf (.fin mn) := by
  simp only [scaleVal]
  rcases lt_or_gt_of_ne hs with hneg | hpos
  · have hac : rint ((mx - b) / s) ≤ rint ((mn - b) / s) :=
      rint_mono (div_le_div_of_nonpos_of_le (le_of_lt hneg) (by linarith))
    have hn : ¬ (0 < s) := not_lt.mpr (le_of_lt hneg)
    simp only [hn, if_false]
    subst hlo hhi
    constructor <;> (congr 1; unfold clipI; omega)
  · have hac : rint ((mn - b) / s) ≤ rint ((mx - b) / s) :=
      rint_mono (div_le_div_of_nonneg_right (by linarith) (le_of_lt hpos))
    simp only [hpos, if_true]
    subst hlo hhi
    constructor <;> (congr 1; unfold clipI; omega)

/-- NaN (with nan2zero) is stored as `clip(rint(−b/s))` -/
theorem nanFillCheck_eq {p : Nat} {s b : Rat} {nf bmn bmx f : Int}
    (h : nanFillCheck p s b nf bmn bmx = .ok f) : f = clipI nf bmn bmx := by
  unfold nanFillCheck at h
  split at h
  · rename_i hin; injection h with h; subst h; unfold clipI; omega
  · simp only at h
    split at h
    · injection h with h; exact h.symm
    · cases h

/-- an unclipped NaN fill reloads within half a step of 0 -/
theorem nan_reload {s b : Rat} (hs : s ≠ 0) : |(rint ((0 - b) / s) : Rat) * s + b - 0| ≤ |s| / 2 := by
  have e : (rint ((0 - b) / s) : Rat) * s + b - 0 = s * ((rint ((0 - b) / s) : Rat) - (0 - b) / s) := by
    field_simp; ring
  rw [e, abs_mul]
  have := mul_le_mul_of_nonneg_left (rint_abs ((0 - b) / s)) (abs_nonneg s)
  linarith

/-! ### refusals -/

theorem refusal_plain {c : Cls} (hc : c = .analyze) {rnd : Rat → Rat} {p32 : Nat} {i : InT} {o : OutT}
    {data : List Val} (h : awScalingNeeded i o data = true) : save c rnd p32 i o data = .error .writer := by
  subst hc
  simp [save, Cls.writer, writerScale, h, bind, Except.bind]

theorem finiteRange_some_ne_nil {data : List Val} {r : Rat × Rat} {hn : Bool}
    (h : finiteRange data = (some r, hn)) : data.isEmpty = false := by
  cases data with
  | nil => simp [finiteRange] at h
  | cons a l => rfl

theorem refusal_mixed {rnd : Rat → Rat} {p32 prec : Nat} {o : OutT} {data : List Val} {mn mx : Rat} {hn : Bool}
    (hu : o.omin = 0) (hfr : finiteRange data = (some (mn, mx), hn)) (h1 : mn < 0) (h2 : 0 < mx) :
    save .spm rnd p32 (.flt prec) o data = .error .writer := by
  have hne := finiteRange_some_ne_nil hfr
  have hmn : (mn == 0) = false := by simpa using ne_of_lt h1
  have hsn : slScalingNeeded (.flt prec) o data = true := by
    simp [slScalingNeeded, awScalingNeeded, canCast, hne, hfr, hmn]
  have hU : o.isU = true := by simp [OutT.isU, hu]
  have hmin : min mn 0 < 0 := lt_of_le_of_lt (min_le_left _ _) h1
  have hmax : 0 < max mx 0 := lt_of_lt_of_le h2 (le_max_left _ _)
  have key : ∀ a c : Rat, a < 0 → 0 < c → rangeScale .slope rnd o (sharedRange p32 o) hn a c = .error .writer := by
    intro a c ha hc
    simp [rangeScale, rangeScaleSlope, hU, ha, hc, bind, Except.bind]
  have : doScaling .slope rnd p32 (.flt prec) o mn mx hn = .error .writer := by
    unfold doScaling
    cases hn with
    | true => simp only [if_true]; exact key _ _ hmin hmax
    | false => simp only [Bool.false_eq_true, if_false]; exact key _ _ h1 h2
  simp [save, Cls.writer, writerScale, hsn, hfr, this, bind, Except.bind]

theorem setSlopeInter_analyze {s b : Rat} : setSlopeInter .analyze s b = .ok () ↔ s = 1 ∧ b = 0 := by
  unfold setSlopeInter; simp only; split <;> simp_all

theorem setSlopeInter_spm {s b : Rat} : setSlopeInter .spm s b = .ok () ↔ s ≠ 0 ∧ b = 0 := by
  unfold setSlopeInter; simp only
  by_cases h1 : s = 0
  · simp [h1]
  · by_cases h2 : b = 0 <;> simp [h1, h2]

/-! ### integer → integer paths that reload exactly -/

theorem iu2iu_inter_exact {rnd : Rat → Rat} {p32 : Nat} {o : OutT} {sh bm : Int × Int} {mn mx : Int}
    (hmm : mn ≤ mx) (hfit : mx - mn ≤ sh.2 - sh.1) (hsym : sh.1 = 0 ∨ sh.2 ≤ -sh.1)
    (hbm1 : bm.1 ≤ sh.1) (hbm2 : sh.2 ≤ bm.2) :
    let inter := if sh.1 = 0 then floorExact p32 (mn - sh.1) else floorExact p32 (mn + (mx - mn + 1) / 2)
    mx - inter ≤ sh.2 →
      iu2iuInter rnd p32 o sh mn mx = .ok (1, (inter : Rat)) ∧
      ∀ (conv : Int → Rat) (v : Int), mn ≤ v → v ≤ mx → conv v = (v : Rat) →
        applyReadScaling 1 inter (scaleFin 1 inter mn mx bm.1 bm.2 (conv v)) = v := by
  intro inter htop
  have hlow : sh.1 ≤ mn - inter := by
    show sh.1 ≤ mn - (if sh.1 = 0 then floorExact p32 (mn - sh.1) else floorExact p32 (mn + (mx - mn + 1) / 2))
    split
    · rename_i h0
      have := floorExact_le p32 (mn - sh.1); omega
    · rename_i h0
      have := floorExact_le p32 (mn + (mx - mn + 1) / 2)
      rcases hsym with h | h
      · exact absurd h h0
      · omega
  constructor
  · unfold iu2iuInter
    simp only
    rw [if_pos hfit]
    show (if mx - inter ≤ sh.2 then _ else _) = _
    rw [if_pos htop]
  · intro conv v h1 h2 hconv
    rw [hconv]
    have hq1 : ((mn : Int) : Rat) ≤ ((v : Int) : Rat) := by exact_mod_cast h1
    have hq2 : ((v : Int) : Rat) ≤ ((mx : Int) : Rat) := by exact_mod_cast h2
    rw [scaleFin_eq (one_ne_zero) (by omega) hq1 hq2]
    have e : ((v : Rat) - (inter : Rat)) / 1 = ((v - inter : Int) : Rat) := by push_cast; ring
    rw [e, rint_intCast]
    have : clipI (v - inter) bm.1 bm.2 = v - inter := by unfold clipI; omega
    rw [this]
    unfold applyReadScaling; push_cast; ring

theorem iu2iu_flip_exact {w : Writer} {rnd : Rat → Rat} {o : OutT} {sh bm : Int × Int} {mn mx : Int}
    (hU : o.isU = true) (hmm : mn ≤ mx) (hneg : mx ≤ 0) (hfit : (mn.natAbs : Int) ≤ sh.2)
    (hbm1 : bm.1 ≤ 0) (hbm2 : sh.2 ≤ bm.2) :
    iu2iuSlope w rnd o sh mn mx = .ok (-1, 0) ∧
    ∀ (conv : Int → Rat) (v : Int), mn ≤ v → v ≤ mx → conv v = (v : Rat) →
      applyReadScaling (-1) 0 (scaleFin (-1) 0 mn mx bm.1 bm.2 (conv v)) = v := by
  constructor
  · unfold iu2iuSlope; rw [if_pos ⟨hU, hneg, hfit⟩]
  · intro conv v h1 h2 hconv
    rw [hconv]
    have hq1 : ((mn : Int) : Rat) ≤ ((v : Int) : Rat) := by exact_mod_cast h1
    have hq2 : ((v : Int) : Rat) ≤ ((mx : Int) : Rat) := by exact_mod_cast h2
    rw [scaleFin_eq (by norm_num) (by omega) hq1 hq2]
    have e : ((v : Rat) - 0) / (-1) = ((-v : Int) : Rat) := by push_cast; ring
    rw [e, rint_intCast]
    have : clipI (-v) bm.1 bm.2 = -v := by unfold clipI; omega
    rw [this]
    unfold applyReadScaling; push_cast; ring

/-! ### finite_range -/

/-- `finite_range` really brackets every finite element -/
theorem finiteRange_mem : ∀ (data : List Val) (mn mx : Rat) (hn : Bool),
    finiteRange data = (some (mn, mx), hn) → ∀ r, Val.fin r ∈ data → mn ≤ r ∧ r ≤ mx := by
  intro data
  induction data with
  | nil => intro mn mx hn h; simp [finiteRange] at h
  | cons a l ih =>
    intro mn mx hn h r hr
    cases hfr : finiteRange l with
    | mk fr hn' =>
      cases a with
      | fin x =>
        cases fr with
        | none =>
          simp only [finiteRange, hfr] at h
          injection h with h1 h2; injection h1 with h1; injection h1 with ha hb
          subst ha hb
          rcases List.mem_cons.mp hr with e | e
          · injection e with e; subst e; exact ⟨le_refl _, le_refl _⟩
          · -- no finite element in `l`
            exfalso
            have : ∀ (l : List Val) (hn : Bool), finiteRange l = (none, hn) → ∀ r, Val.fin r ∉ l := by
              intro l
              induction l with
              | nil => intro _ _ r hr; cases hr
              | cons b l ih2 =>
                intro hn h r hr
                cases hb : finiteRange l with
                | mk fr2 hn2 =>
                  cases b with
                  | fin y => simp [finiteRange, hb] at h
                  | nan =>
                    simp only [finiteRange, hb] at h
                    injection h with h1 _; subst h1
                    rcases List.mem_cons.mp hr with e | e
                    · cases e
                    · exact ih2 _ hb r e
                  | pinf =>
                    simp only [finiteRange, hb] at h
                    injection h with h1 _; subst h1
                    rcases List.mem_cons.mp hr with e | e
                    · cases e
                    · exact ih2 _ hb r e
                  | ninf =>
                    simp only [finiteRange, hb] at h
                    injection h with h1 _; subst h1
                    rcases List.mem_cons.mp hr with e | e
                    · cases e
                    · exact ih2 _ hb r e
            exact this l hn' hfr r e
        | some ab =>
          obtain ⟨a', b'⟩ := ab
          simp only [finiteRange, hfr] at h
          injection h with h1 h2; injection h1 with h1; injection h1 with ha hb
          subst ha hb
          rcases List.mem_cons.mp hr with e | e
          · injection e with e; subst e; exact ⟨min_le_left _ _, le_max_left _ _⟩
          · have := ih a' b' hn' hfr r e
            exact ⟨le_trans (min_le_right _ _) this.1, le_trans this.2 (le_max_right _ _)⟩
      | nan =>
        simp only [finiteRange, hfr] at h
        injection h with h1 _; subst h1
        rcases List.mem_cons.mp hr with e | e
        · cases e
        · exact ih mn mx hn' hfr r e
      | pinf =>
        simp only [finiteRange, hfr] at h
        injection h with h1 h2; subst h1
        rcases List.mem_cons.mp hr with e | e
        · cases e
        · exact ih mn mx hn' hfr r e
      | ninf =>
        simp only [finiteRange, hfr] at h
        injection h with h1 h2; subst h1
        rcases List.mem_cons.mp hr with e | e
        · cases e
        · exact ih mn mx hn' hfr r e

end Nb.C02
