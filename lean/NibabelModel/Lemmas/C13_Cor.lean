import NibabelModel.Lemmas.C13
/-! Lemmas for the C13 corollaries (core Lean only): run/trace algebra, trace-level refinement, source
    immutability, cache-holding invariant (on the documented model), heap steps and identity freshness,
    garbage edits, in_memory along histories, header independence, what a miss returns, visible edits. -/
namespace Nb.C13
open Nb

/-! run / trace algebra -/
theorem run_append (s : State) (a b : List Op) : run s (a ++ b) = run (run s a) b := by
  induction a generalizing s with
  | nil => rfl
  | cons op a ih => simp [run, ih]

theorem trace_append (s : State) (a b : List Op) : trace s (a ++ b) = trace s a ++ trace (run s a) b := by
  induction a generalizing s with
  | nil => rfl
  | cons op a ih => simp [run, trace, ih]

theorem run_wf' {s : State} (h : s.WF) (ops : List Op) : (run s ops).WF := by
  induction ops generalizing s with
  | nil => exact h
  | cons op ops ih => exact ih (step_wf' h op)

theorem sim_run {s : State} (h : s.WF) (ops : List Op) :
    trace s ops = Spec.trace (abs s) ops ∧ abs (run s ops) = Spec.run (abs s) ops := by
  induction ops generalizing s with
  | nil => exact ⟨rfl, rfl⟩
  | cons op ops ih =>
    have hs := sim_step h op
    have := ih (step_wf' h op)
    simp only [trace, Spec.trace, run, Spec.run, hs.2, ← hs.1, this.1, this.2, and_self]

/-! the image's data source is never changed by any op -/
theorem step_img (s : State) (op : Op) : (step s op).1.img = s.img := by
  cases op with
  | getFdata c d =>
    simp only [step]
    split
    · rfl
    · split
      · rfl
      · have : (readObj s (some d)).1.img = s.img := by
          unfold readObj; split
          · split
            · rfl
            · split <;> rfl
          · rfl
        split <;> simpa [retArr] using this
  | getData c =>
    simp only [step]
    split
    · rfl
    · split
      · rfl
      · have : (readObj s none).1.img = s.img := by
          unfold readObj; split <;> rfl
        split <;> simpa [retArr] using this
  | asarray =>
    simp only [step, retArr]
    unfold readObj; split <;> rfl
  | slice sl =>
    simp only [step]
    split
    · rfl
    · split <;> simp_all [retRes, retArr, alloc]
  | uncache => rfl
  | edit k => simp only [step, editAt]; split <;> rfl
  | editLast =>
    simp only [step]; split
    · simp only [editAt]; split <;> rfl
    · rfl
  | inMemory => rfl
  | hdr t e => cases t <;> rfl

theorem run_img (s : State) (ops : List Op) : (run s ops).img = s.img := by
  induction ops generalizing s with
  | nil => rfl
  | cons op ops ih => simp [run, ih, step_img]

/-- the documented model's cache holds array `id`, of dtype `d` -/
def Spec.Holds (t : Spec) (id : Nat) (d : DT) : Prop := ∃ a, t.fcache = some (id, a) ∧ a.dt = d

@[simp] theorem bumpIf_fst (k : Nat) (r : Nat × Arr) : (Spec.bumpIf k r).1 = r.1 := by
  unfold Spec.bumpIf; split <;> rfl
@[simp] theorem bumpIf_dt (k : Nat) (r : Nat × Arr) : (Spec.bumpIf k r).2.dt = r.2.dt := by
  unfold Spec.bumpIf; split <;> simp

theorem Spec.read_fcache (t : Spec) (d : Option DT) : (Spec.read t d).1.fcache = t.fcache := by
  unfold Spec.read
  split
  · split
    · rfl
    · split <;> rfl
  · rfl

theorem Spec.editAt_holds {t : Spec} {id : Nat} {d : DT} (h : t.Holds id d) (k : Nat) :
    (Spec.editAt t k).1.Holds id d := by
  obtain ⟨a, hf, hd⟩ := h
  unfold Spec.editAt
  split
  · refine ⟨(Spec.bumpIf k (id, a)).2, ?_, ?_⟩
    · simp only [Spec.retRes, hf, Option.map_some]
      have := bumpIf_fst k (id, a)
      simp only at this
      exact congrArg some (Prod.ext this rfl)
    · simpa using hd
  · exact ⟨a, hf, hd⟩

theorem Spec.holds_step {t : Spec} {id : Nat} {d : DT} (h : t.Holds id d) (op : Op)
    (hk : keepsCache d op = true) : (Spec.step t op).1.Holds id d := by
  have h0 := h
  obtain ⟨a, hf, hd⟩ := h
  cases op with
  | getFdata c d' =>
    simp only [Spec.step]
    split
    · exact h0
    · rename_i hbad
      simp only [hf]
      split
      · exact ⟨a, hf, hd⟩
      · rename_i hne
        -- a miss: then `c` is not `fill` (else `keepsCache` fails)
        have hc : c ≠ .fill := by
          intro hc
          subst hc
          simp only [keepsCache, Bool.or_eq_true, beq_iff_eq] at hk
          rcases hk with hk | hk
          · exact hne (hk ▸ hd)
          · exact hbad (Or.inr hk)
        simp only [hc, if_false, Spec.ret]
        exact ⟨a, by rw [Spec.read_fcache]; exact hf, hd⟩
  | getData c =>
    simp only [Spec.step]
    split
    · exact h0
    · split
      · exact ⟨a, hf, hd⟩
      · split
        · exact ⟨a, by simp only [Spec.ret]; rw [Spec.read_fcache]; exact hf, hd⟩
        · exact ⟨a, by simp only [Spec.ret]; rw [Spec.read_fcache]; exact hf, hd⟩
  | asarray => exact ⟨a, by simp only [Spec.step, Spec.ret]; rw [Spec.read_fcache]; exact hf, hd⟩
  | slice sl =>
    simp only [Spec.step]
    split
    · exact h0
    · split
      · exact h0
      · exact ⟨a, hf, hd⟩
  | uncache => simp [keepsCache] at hk
  | edit k => exact Spec.editAt_holds h0 k
  | editLast =>
    simp only [Spec.step]
    split
    · exact Spec.editAt_holds h0 _
    · exact h0
  | inMemory => exact h0
  | hdr tg e => cases tg <;> exact ⟨a, hf, hd⟩

theorem Spec.holds_run {t : Spec} {id : Nat} {d : DT} (h : t.Holds id d) (ops : List Op)
    (hk : ∀ op ∈ ops, keepsCache d op = true) : (Spec.run t ops).Holds id d := by
  induction ops generalizing t with
  | nil => exact h
  | cons op ops ih =>
    exact ih (Spec.holds_step h op (hk op (by simp))) (fun o ho => hk o (by simp [ho]))

/-- a hit returns the cached array -/
theorem Spec.holds_get {t : Spec} {id : Nat} {d : DT} (h : t.Holds id d) (c : Caching)
    (hc : c ≠ .other) (hd : d ≠ .i2) :
    ∃ a, (Spec.step t (.getFdata c d)).2.res = .arr id a ∧ a.dt = d ∧ t.fcache = some (id, a) := by
  obtain ⟨a, hf, hda⟩ := h
  refine ⟨a, ?_, hda, hf⟩
  simp only [Spec.step, hf, hda, if_true, Spec.ret]
  have : ¬ (c = .other ∨ d = .i2) := by
    intro h; rcases h with h | h
    · exact hc h
    · exact hd h
  simp [this]

/-- a valid filling read leaves the cache holding exactly the array it returns -/
theorem Spec.fill_holds (t : Spec) (d : DT) (hd : d ≠ .i2) :
    ∃ id a, (Spec.step t (.getFdata .fill d)).2.res = .arr id a ∧ a.dt = d ∧
      (Spec.step t (.getFdata .fill d)).1.Holds id d := by
  have hbad : ¬ ((Caching.fill = Caching.other) ∨ d = .i2) := by
    intro h; rcases h with h | h
    · cases h
    · exact hd h
  have hread : ((Spec.read t (some d)).2.2).dt = d := by
    unfold Spec.read
    split
    · simp only
      split
      · assumption
      · rfl
    · rfl
  simp only [Spec.step, hbad, if_false]
  cases hf : t.fcache with
  | none =>
    simp only [if_true, Spec.ret]
    exact ⟨_, _, rfl, hread, ⟨_, rfl, hread⟩⟩
  | some r =>
    simp only
    by_cases hr : r.2.dt = d
    · simp only [hr, if_true, Spec.ret]
      exact ⟨r.1, r.2, rfl, hr, ⟨r.2, hf, hr⟩⟩
    · simp only [hr, if_false, if_true, Spec.ret]
      exact ⟨_, _, rfl, hread, ⟨_, rfl, hread⟩⟩

/-- how one step can change the heap: not at all, one new array, or one in-place edit -/
inductive HeapStep (l : List Arr) : List Arr → Prop
  | same : HeapStep l l
  | new (a : Arr) : HeapStep l (l ++ [a])
  | edit (k : Nat) : HeapStep l (l.modify k bump)

theorem readObj_heap (s : State) (d : Option DT) : HeapStep s.heap (readObj s d).1.heap := by
  unfold readObj
  split
  · split
    · exact .same
    · split
      · exact .same
      · exact .new _
  · exact .new _

theorem editAt_heap (s : State) (k : Nat) : HeapStep s.heap (editAt s k).1.heap := by
  unfold editAt; split
  · exact .edit k
  · exact .same

theorem step_heap (s : State) (op : Op) : HeapStep s.heap (step s op).1.heap := by
  cases op with
  | getFdata c d =>
    simp only [step]
    split
    · exact .same
    · split
      · exact .same
      · split <;> exact readObj_heap s _
  | getData c =>
    simp only [step]
    split
    · exact .same
    · split
      · exact .same
      · split <;> exact readObj_heap s _
  | asarray => exact readObj_heap s _
  | slice sl =>
    simp only [step]
    split
    · exact .same
    · split
      · exact .same
      · exact .new _
  | uncache => exact .same
  | edit k => exact editAt_heap s k
  | editLast =>
    simp only [step]; split
    · exact editAt_heap s _
    · exact .same
  | inMemory => exact .same
  | hdr t e => cases t <;> exact .same

theorem HeapStep.len_le {l l' : List Arr} (h : HeapStep l l') : l.length ≤ l'.length := by
  cases h <;> simp

theorem HeapStep.dt {l l' : List Arr} (h : HeapStep l l') {i : Nat} (hi : i < l.length) :
    ((l'[i]?).getD Arr.dflt).dt = ((l[i]?).getD Arr.dflt).dt ∧
    ((l'[i]?).getD Arr.dflt).ro = ((l[i]?).getD Arr.dflt).ro := by
  cases h with
  | same => exact ⟨rfl, rfl⟩
  | new a => rw [getD_append_lt _ _ hi]; exact ⟨rfl, rfl⟩
  | edit k => rw [getD_modify]; split <;> simp

theorem step_len_le (s : State) (op : Op) : s.heap.length ≤ (step s op).1.heap.length :=
  (step_heap s op).len_le

theorem run_len_le (s : State) (ops : List Op) : s.heap.length ≤ (run s ops).heap.length := by
  induction ops generalizing s with
  | nil => exact Nat.le_refl _
  | cons op ops ih => exact Nat.le_trans (step_len_le s op) (ih _)

theorem run_get_dt (s : State) (ops : List Op) {i : Nat} (hi : i < s.heap.length) :
    ((run s ops).get i).dt = (s.get i).dt ∧ ((run s ops).get i).ro = (s.get i).ro := by
  induction ops generalizing s with
  | nil => exact ⟨rfl, rfl⟩
  | cons op ops ih =>
    have h1 := (step_heap s op).dt hi
    have h2 := ih (step s op).1 (Nat.lt_of_lt_of_le hi (step_len_le s op))
    simp only [run, State.get] at *
    exact ⟨h2.1.trans h1.1, h2.2.trans h1.2⟩

/-- a returned array becomes `last` -/
theorem step_arr_last (s : State) (op : Op) {id : Nat} {a : Arr}
    (h : (step s op).2.res = .arr id a) : (step s op).1.last = some id := by
  cases op with
  | getFdata c d =>
    simp only [step] at h ⊢
    split
    · rename_i hb; simp [hb, retRes] at h
    · rename_i hb
      simp only [hb, if_false] at h
      split
      · rename_i i hi; simp only [hi, retArr] at h ⊢; cases h; rfl
      · rename_i hi; simp only [hi, retArr] at h ⊢; cases h; rfl
  | getData c =>
    simp only [step] at h ⊢
    split
    · rename_i hb; simp [hb, retRes] at h
    · rename_i hb
      simp only [hb, if_false] at h
      split
      · rename_i i hi; simp only [hi, retArr] at h ⊢; cases h; rfl
      · rename_i hi; simp only [hi, retArr] at h ⊢; cases h; rfl
  | asarray => simp only [step, retArr] at h ⊢; cases h; rfl
  | slice sl =>
    simp only [step] at h ⊢
    split
    · rename_i hi; simp [hi, retRes] at h
    · rename_i raw p hi
      simp only [hi] at h
      split
      · rename_i hz; simp [hz, retRes] at h
      · rename_i hz; simp only [hz, if_false, retArr] at h ⊢; cases h; rfl
  | uncache => simp [step, retRes] at h
  | edit k => simp only [step, editAt] at h; split at h <;> simp [retRes] at h
  | editLast =>
    simp only [step] at h
    split at h
    · simp only [editAt] at h; split at h <;> simp [retRes] at h
    · simp [retRes] at h
  | inMemory => simp [step, retRes] at h
  | hdr t e => cases t <;> simp [step, retRes] at h

/-- every identity handed out during a run is below the final heap size (so an array created later,
    whose identity is the heap size at its creation, differs from all of them) -/
theorem trace_ids_lt {s : State} (hw : s.WF) (ops : List Op) :
    ∀ o ∈ trace s ops, ∀ id a, o.res = .arr id a → id < (run s ops).heap.length := by
  induction ops generalizing s with
  | nil => intro o ho; cases ho
  | cons op ops ih =>
    intro o ho id a hres
    simp only [trace, List.mem_cons] at ho
    rcases ho with ho | ho
    · subst ho
      have hl := step_arr_last s op hres
      have := (step_wf' hw op).last id hl
      exact Nat.lt_of_lt_of_le this (run_len_le _ ops)
    · exact ih (step_wf' hw op) o ho id a hres

/-! ### edits of garbage arrays are invisible -/

theorem bumpIf_ne {k : Nat} {r : Nat × Arr} (h : r.1 ≠ k) : Spec.bumpIf k r = r := by
  simp [Spec.bumpIf, h]

theorem abs_edit_garbage {s : State} {k : Nat} (hg : s.Garbage k) : abs (editAt s k).1 = abs s := by
  obtain ⟨h1, h2, h3⟩ := hg
  unfold editAt
  split
  · simp only [retRes]
    rw [abs_modify]
    have e1 : Spec.bumpImg k (abs s).img = (abs s).img := by
      unfold abs
      cases hi : s.img with
      | array own =>
        have : own ≠ k := fun e => h1 (e ▸ hi)
        simp only [Spec.bumpImg, bumpIf_ne (r := (own, _)) this]
      | proxy r p => rfl
    have e2 : (abs s).fcache.map (Spec.bumpIf k) = (abs s).fcache := by
      unfold abs
      cases hf : s.fcache with
      | none => rfl
      | some i =>
        have : i ≠ k := fun e => h2 (e ▸ hf)
        simp only [Option.map_some, bumpIf_ne (r := (i, _)) this]
    have e3 : (abs s).dcache.map (Spec.bumpIf k) = (abs s).dcache := by
      unfold abs
      cases hf : s.dcache with
      | none => rfl
      | some i =>
        have : i ≠ k := fun e => h3 (e ▸ hf)
        simp only [Option.map_some, bumpIf_ne (r := (i, _)) this]
    simp only [e1, e2, e3]
  · rfl

/-! ### in_memory -/

theorem step_out_inMem (s : State) (op : Op) : (step s op).2.inMem = (step s op).1.inMemory := by
  cases op with
  | getFdata c d =>
    simp only [step]
    split
    · rfl
    · split
      · rfl
      · rfl
  | getData c =>
    simp only [step]
    split
    · rfl
    · split <;> rfl
  | asarray => rfl
  | slice sl =>
    simp only [step]
    split
    · rfl
    · split <;> rfl
  | uncache => rfl
  | edit k => simp only [step, editAt]; split <;> rfl
  | editLast =>
    simp only [step]; split
    · simp only [editAt]; split <;> rfl
    · rfl
  | inMemory => rfl
  | hdr t e => cases t <;> rfl

theorem readObj_fields (s : State) (d : Option DT) :
    (readObj s d).1.img = s.img ∧ (readObj s d).1.fcache = s.fcache ∧ (readObj s d).1.dcache = s.dcache ∧
    (readObj s d).1.last = s.last ∧ (readObj s d).1.imgHdr = s.imgHdr ∧ (readObj s d).1.origHdr = s.origHdr := by
  unfold readObj
  split
  · split
    · simp
    · split <;> simp [alloc]
  · simp [alloc]

theorem readObj_id (s : State) (d : Option DT) :
    (∃ o, s.img = .array o ∧ (readObj s d).2 = o) ∨ (readObj s d).2 = s.heap.length := by
  unfold readObj
  split
  · rename_i own ho
    split
    · exact .inl ⟨own, ho, rfl⟩
    · split
      · exact .inl ⟨own, ho, rfl⟩
      · exact .inr rfl
  · exact .inr rfl

/-- garbage stays garbage: identities are never recycled -/
theorem step_garbage {s : State} {k : Nat} (hg : s.Garbage k) (hk : k < s.heap.length) (op : Op) :
    (step s op).1.Garbage k := by
  obtain ⟨h1, h2, h3⟩ := hg
  have hid : ∀ d, (readObj s d).2 ≠ k := by
    intro d
    rcases readObj_id s d with ⟨o, ho, e⟩ | e
    · rw [e]; intro ek; exact h1 (ek ▸ ho)
    · rw [e]; omega
  cases op with
  | getFdata c d =>
    simp only [step]
    split
    · exact ⟨h1, h2, h3⟩
    · split
      · exact ⟨h1, h2, h3⟩
      · have hf := readObj_fields s (some d)
        split
        · refine ⟨?_, ?_, ?_⟩ <;> simp only [retArr]
          · rw [hf.1]; exact h1
          · intro e; cases e; exact hid _ rfl
          · rw [hf.2.2.1]; exact h3
        · refine ⟨?_, ?_, ?_⟩ <;> simp only [retArr]
          · rw [hf.1]; exact h1
          · rw [hf.2.1]; exact h2
          · rw [hf.2.2.1]; exact h3
  | getData c =>
    simp only [step]
    split
    · exact ⟨h1, h2, h3⟩
    · split
      · exact ⟨h1, h2, h3⟩
      · have hf := readObj_fields s none
        split
        · refine ⟨?_, ?_, ?_⟩ <;> simp only [retArr]
          · rw [hf.1]; exact h1
          · rw [hf.2.1]; exact h2
          · intro e; cases e; exact hid _ rfl
        · refine ⟨?_, ?_, ?_⟩ <;> simp only [retArr]
          · rw [hf.1]; exact h1
          · rw [hf.2.1]; exact h2
          · rw [hf.2.2.1]; exact h3
  | asarray =>
    have hf := readObj_fields s none
    refine ⟨?_, ?_, ?_⟩ <;> simp only [step, retArr]
    · rw [hf.1]; exact h1
    · rw [hf.2.1]; exact h2
    · rw [hf.2.2.1]; exact h3
  | slice sl =>
    simp only [step]
    split
    · exact ⟨h1, h2, h3⟩
    · split
      · exact ⟨h1, h2, h3⟩
      · rename_i raw p hi _
        exact ⟨by simpa [retArr, alloc] using h1, h2, h3⟩
  | uncache => exact ⟨h1, by simp [step, retRes], by simp [step, retRes]⟩
  | edit j => simp only [step, editAt]; split <;> exact ⟨h1, h2, h3⟩
  | editLast =>
    simp only [step]; split
    · simp only [editAt]; split <;> exact ⟨h1, h2, h3⟩
    · exact ⟨h1, h2, h3⟩
  | inMemory => exact ⟨h1, h2, h3⟩
  | hdr t e => cases t <;> exact ⟨h1, h2, h3⟩

/-! ### in_memory along a history -/

theorem inMemory_step_proxy {s : State} (hp : s.img.isArray = false) (op : Op) :
    (step s op).1.inMemory = (cacheEvent op).getD s.inMemory := by
  have hp' : ∀ s' : State, s'.img = s.img →
      s'.inMemory = (s'.fcache.isSome || s'.dcache.isSome) := by
    intro s' e
    unfold State.inMemory
    rw [e]
    cases hi : s.img with
    | array o => simp [hi, Img.isArray] at hp
    | proxy r p => simp
  have h0 := hp' s rfl
  cases op with
  | getFdata c d =>
    simp only [step]
    split
    · rename_i hb
      have : cacheEvent (.getFdata c d) = none := by
        rcases hb with hb | hb
        · subst hb; rfl
        · subst hb; cases c <;> rfl
      simp [this, retRes]
    · rename_i hb
      have hd : d ≠ .i2 := fun e => hb (.inr e)
      have hc : c ≠ .other := fun e => hb (.inl e)
      split
      · rename_i id hid
        have hfc : s.fcache = some id := by
          unfold fhit at hid
          split at hid
          · split at hid
            · cases hid; assumption
            · cases hid
          · cases hid
        have : s.inMemory = true := by rw [h0, hfc]; rfl
        have e2 : (retArr s id).1.inMemory = s.inMemory := rfl
        rw [e2, this]
        cases c <;> simp [cacheEvent, hd]
      · have hf := readObj_fields s (some d)
        cases c with
        | fill =>
          simp only [if_true, cacheEvent, hd, if_false, Option.getD_some]
          rw [hp' _ (by simp only [retArr]; exact hf.1)]
          rfl
        | unchanged =>
          simp only [cacheEvent, Option.getD_none]
          have : (Caching.unchanged = Caching.fill) = False := by simp
          simp only [this, if_false]
          rw [hp' _ (by simp only [retArr]; exact hf.1), h0]
          simp only [retArr, hf.2.1, hf.2.2.1]
        | other => exact absurd rfl hc
  | getData c =>
    simp only [step]
    split
    · rename_i hb; subst hb; simp [cacheEvent, retRes]
    · rename_i hc
      split
      · rename_i id hid
        have : s.inMemory = true := by rw [h0, hid]; simp
        have e2 : (retArr s id).1.inMemory = s.inMemory := rfl
        rw [e2, this]
        cases c <;> simp [cacheEvent]
      · have hf := readObj_fields s none
        cases c with
        | fill =>
          simp only [if_true, cacheEvent, Option.getD_some]
          rw [hp' _ (by simp only [retArr]; exact hf.1)]
          simp [retArr]
        | unchanged =>
          simp only [cacheEvent, Option.getD_none]
          have : (Caching.unchanged = Caching.fill) = False := by simp
          simp only [this, if_false]
          rw [hp' _ (by simp only [retArr]; exact hf.1), h0]
          simp only [retArr, hf.2.1, hf.2.2.1]
        | other => exact absurd rfl hc
  | asarray =>
    have hf := readObj_fields s none
    simp only [step, cacheEvent, Option.getD_none]
    rw [hp' _ (by simp only [retArr]; exact hf.1), h0]
    simp only [retArr, hf.2.1, hf.2.2.1]
  | slice sl =>
    simp only [step, cacheEvent, Option.getD_none]
    split
    · rfl
    · split
      · rfl
      · rw [hp' _ (by simp [retArr, alloc]), h0]; rfl
  | uncache =>
    simp only [step, cacheEvent, Option.getD_some, retRes]
    exact hp' { s with fcache := none, dcache := none } rfl
  | edit k =>
    simp only [step, cacheEvent, Option.getD_none, editAt]
    split
    · rw [h0]; exact hp' { s with heap := s.heap.modify k bump } rfl
    · rfl
  | editLast =>
    simp only [step, cacheEvent, Option.getD_none]
    split
    · rename_i k _
      simp only [editAt]
      split
      · rw [h0]; exact hp' { s with heap := s.heap.modify k bump } rfl
      · rfl
    · rfl
  | inMemory => rfl
  | hdr t e =>
    cases t <;> simp only [step, cacheEvent, Option.getD_none, retRes] <;> rw [h0]
    · exact hp' { s with imgHdr := e.apply s.imgHdr } rfl
    · exact hp' { s with origHdr := e.apply s.origHdr } rfl

/-! ### header edits -/

theorem withHdrs_get (s : State) (a b : Hdr) (i : Nat) : (s.withHdrs a b).get i = s.get i := rfl
theorem withHdrs_inMemory (s : State) (a b : Hdr) : (s.withHdrs a b).inMemory = s.inMemory := rfl

theorem readObj_withHdrs (s : State) (a b : Hdr) (d : Option DT) :
    readObj (s.withHdrs a b) d = ((readObj s d).1.withHdrs a b, (readObj s d).2) := by
  unfold readObj
  cases hi : s.img with
  | array own =>
    have : (s.withHdrs a b).img = .array own := hi
    simp only [this]
    cases d with
    | none => rfl
    | some d =>
      simp only [withHdrs_get]
      by_cases hd : (s.get own).dt = d <;> simp only [hd, if_true, if_false] <;> rfl
  | proxy r p =>
    have : (s.withHdrs a b).img = .proxy r p := hi
    simp only [this]
    rfl

theorem editAt_withHdrs (s : State) (a b : Hdr) (k : Nat) :
    editAt (s.withHdrs a b) k = ((editAt s k).1.withHdrs a b, (editAt s k).2) := by
  unfold editAt
  have : (s.withHdrs a b).heap = s.heap := rfl
  simp only [this]
  split <;> rfl

/-- a non-header op does not look at the headers -/
theorem step_withHdrs (s : State) (a b : Hdr) (op : Op) (hop : op.isHdr = false) :
    step (s.withHdrs a b) op = ((step s op).1.withHdrs a b, (step s op).2) := by
  cases op with
  | getFdata c d =>
    simp only [step]
    split
    · rfl
    · have : fhit (s.withHdrs a b) d = fhit s d := rfl
      rw [this]
      split
      · rfl
      · rw [readObj_withHdrs]
        split <;> rfl
  | getData c =>
    simp only [step]
    split
    · rfl
    · have : (s.withHdrs a b).dcache = s.dcache := rfl
      rw [this]
      split
      · rfl
      · rw [readObj_withHdrs]
        split <;> rfl
  | asarray => simp only [step]; rw [readObj_withHdrs]; rfl
  | slice sl =>
    simp only [step]
    have : (s.withHdrs a b).img = s.img := rfl
    rw [this]
    split
    · rfl
    · split <;> rfl
  | uncache => rfl
  | edit k => exact editAt_withHdrs s a b k
  | editLast =>
    simp only [step]
    have : (s.withHdrs a b).last = s.last := rfl
    rw [this]
    split
    · exact editAt_withHdrs s a b _
    · rfl
  | inMemory => rfl
  | hdr t e => simp [Op.isHdr] at hop

/-- a header op touches nothing but the headers -/
theorem step_hdr (s : State) (t : HTarget) (e : HEdit) :
    ∃ a b, (step s (.hdr t e)).1 = s.withHdrs a b := by
  cases t
  · exact ⟨e.apply s.imgHdr, s.origHdr, rfl⟩
  · exact ⟨s.imgHdr, e.apply s.origHdr, rfl⟩

theorem withHdrs_withHdrs (s : State) (a b a' b' : Hdr) :
    (s.withHdrs a b).withHdrs a' b' = s.withHdrs a' b' := rfl

theorem withHdrs_self (s : State) : s.withHdrs s.imgHdr s.origHdr = s := rfl

theorem dataTrace_withHdrs (s : State) (a b : Hdr) (ops : List Op) :
    dataTrace (s.withHdrs a b) ops = dataTrace s ops := by
  induction ops generalizing s a b with
  | nil => rfl
  | cons op ops ih =>
    cases hop : op.isHdr with
    | true =>
      cases op with
      | hdr t e =>
        obtain ⟨a1, b1, h1⟩ := step_hdr (s.withHdrs a b) t e
        obtain ⟨a2, b2, h2⟩ := step_hdr s t e
        simp only [dataTrace, Op.isHdr, if_true, h1, h2, withHdrs_withHdrs, ih]
      | _ => simp [Op.isHdr] at hop
    | false =>
      simp only [dataTrace, hop, Bool.false_eq_true, if_false, step_withHdrs s a b op hop, ih]

theorem dataTrace_eq_filter (s : State) (ops : List Op) :
    dataTrace s ops = trace s (ops.filter (fun o => !o.isHdr)) := by
  induction ops generalizing s with
  | nil => rfl
  | cons op ops ih =>
    cases hop : op.isHdr with
    | true =>
      cases op with
      | hdr t e =>
        obtain ⟨a2, b2, h2⟩ := step_hdr s t e
        simp only [dataTrace, hop, if_true, h2, List.filter, Bool.not_true]
        rw [dataTrace_withHdrs, ih]
      | _ => simp [Op.isHdr] at hop
    | false =>
      simp only [dataTrace, hop, Bool.false_eq_true, if_false, List.filter, Bool.not_false, trace, ih]

theorem fhit_none_iff (s : State) (d : DT) :
    fhit s d = none ↔ (s.fcache = none ∨ ∃ i, s.fcache = some i ∧ (s.get i).dt ≠ d) := by
  unfold fhit
  cases hf : s.fcache with
  | none => simp
  | some i =>
    by_cases h : (s.get i).dt = d <;> simp [h]

theorem retArr_res (s : State) (id : Nat) : (retArr s id).2.res = .arr id (s.get id) := rfl

theorem get_setF (s : State) (i j : Nat) : ({ s with fcache := some i } : State).get j = s.get j := rfl
theorem get_setD (s : State) (i j : Nat) : ({ s with dcache := some i } : State).get j = s.get j := rfl

theorem valid_not_bad {c : Caching} {d : DT} (hc : c ≠ .other) (hd : d ≠ .i2) : ¬ (c = .other ∨ d = .i2) := by
  intro h; rcases h with h | h
  · exact hc h
  · exact hd h

theorem getFdata_miss_res (s : State) (c : Caching) (d : DT) (hc : c ≠ .other) (hd : d ≠ .i2)
    (hm : fhit s d = none) :
    (step s (.getFdata c d)).2.res = .arr (readObj s (some d)).2 ((readObj s (some d)).1.get (readObj s (some d)).2) := by
  simp only [step, valid_not_bad hc hd, if_false, hm]
  split <;> rfl

theorem miss_proxy {s : State} {raw : List Int} {p : Par} (hi : s.img = .proxy raw p)
    (c : Caching) (d : DT) (hc : c ≠ .other) (hd : d ≠ .i2) (hm : fhit s d = none) :
    (step s (.getFdata c d)).2.res = .arr s.heap.length ⟨d, p.scaled raw, p.readRO (some d)⟩ := by
  rw [getFdata_miss_res s c d hc hd hm]
  have : readObj s (some d) = alloc s ⟨d, p.scaled raw, p.readRO (some d)⟩ := by
    unfold readObj; rw [hi]; rfl
  rw [this, alloc_snd, get_alloc_new]

theorem miss_array {s : State} {own : Nat} (hi : s.img = .array own)
    (c : Caching) (d : DT) (hc : c ≠ .other) (hd : d ≠ .i2) (hm : fhit s d = none) :
    (step s (.getFdata c d)).2.res =
      if (s.get own).dt = d then .arr own (s.get own)
      else .arr s.heap.length ⟨d, (s.get own).vals, false⟩ := by
  rw [getFdata_miss_res s c d hc hd hm]
  have : readObj s (some d) = if (s.get own).dt = d then (s, own) else alloc s ⟨d, (s.get own).vals, false⟩ := by
    unfold readObj; rw [hi]
  rw [this]
  split
  · rfl
  · rw [alloc_snd, get_alloc_new]

theorem asarray_proxy {s : State} {raw : List Int} {p : Par} (hi : s.img = .proxy raw p) :
    (step s .asarray).2.res = .arr s.heap.length ⟨p.outDt, p.scaled raw, p.readRO none⟩ := by
  have : readObj s none = alloc s ⟨p.outDt, p.scaled raw, p.readRO none⟩ := by
    unfold readObj; rw [hi]; rfl
  simp only [step, retArr_res, this, alloc_snd, get_alloc_new]

theorem asarray_array {s : State} {own : Nat} (hi : s.img = .array own) :
    (step s .asarray).2.res = .arr own (s.get own) := by
  have : readObj s none = (s, own) := by
    unfold readObj; rw [hi]
  simp only [step, retArr_res, this]

theorem slice_proxy {s : State} {raw : List Int} {p : Par} (hi : s.img = .proxy raw p)
    (sl : PySlice) (hz : sl.stepVal ≠ 0) :
    (step s (.slice sl)).2.res =
      .arr s.heap.length ⟨p.outDt, sl.apply (p.scaled raw), p.sliceRO sl raw.length⟩ := by
  simp only [step, hi, hz, if_false, retArr_res, alloc_snd, get_alloc_new]

theorem getData_proxy {s : State} {raw : List Int} {p : Par} (hi : s.img = .proxy raw p)
    (c : Caching) (hc : c ≠ .other) (hd : s.dcache = none) :
    (step s (.getData c)).2.res = .arr s.heap.length ⟨p.outDt, p.scaled raw, p.readRO none⟩ := by
  have : readObj s none = alloc s ⟨p.outDt, p.scaled raw, p.readRO none⟩ := by
    unfold readObj; rw [hi]; rfl
  simp only [step, hc, if_false, hd, this]
  split <;> simp only [retArr_res, alloc_snd] <;> exact congrArg _ (get_alloc_new s _)

/-! ### visible edits -/

theorem edit_state {s : State} {k : Nat} (hk : k < s.heap.length) :
    (step s (.edit k)).1 = { s with heap := s.heap.modify k bump } := by
  simp [step, editAt, hk, retRes]

theorem fhit_congr (s s' : State) (d : DT) (hf : s'.fcache = s.fcache)
    (hg : ∀ i, (s'.get i).dt = (s.get i).dt) : fhit s' d = fhit s d := by
  unfold fhit
  rw [hf]
  cases s.fcache with
  | none => rfl
  | some i => simp only [hg i]

theorem fhit_edit (s : State) (k : Nat) (d : DT) :
    fhit { s with heap := s.heap.modify k bump } d = fhit s d := by
  refine fhit_congr s { s with heap := s.heap.modify k bump } d rfl ?_
  intro i; rw [get_modify]; split <;> simp

theorem bump_rw {a : Arr} (h : a.ro = false) : bump a = ⟨a.dt, a.vals.map (· + 1), false⟩ := by
  unfold bump; simp [h]

theorem edit_cache_visible {s : State} {id : Nat} {d : DT} (hw : s.WF) (hf : s.fcache = some id)
    (hdt : (s.get id).dt = d) (hro : (s.get id).ro = false)
    (c : Caching) (hc : c ≠ .other) (hd : d ≠ .i2) :
    (step (step s (.edit id)).1 (.getFdata c d)).2.res = .arr id ⟨d, (s.get id).vals.map (· + 1), false⟩ := by
  rw [edit_state (hw.fcache id hf)]
  have h1 : fhit s d = some id := by simp [fhit, hf, hdt]
  simp only [step, valid_not_bad hc hd, if_false, fhit_edit, h1, retArr_res, get_modify, if_true,
    bump_rw hro, hdt]

theorem edit_own_visible {s : State} {own : Nat} (hw : s.WF) (hi : s.img = .array own)
    (hro : (s.get own).ro = false)
    (c : Caching) (d : DT) (hc : c ≠ .other) (hd : d ≠ .i2) (hm : fhit s d = none) :
    (step (step s (.edit own)).1 (.getFdata c d)).2.res =
      if (s.get own).dt = d then .arr own ⟨d, (s.get own).vals.map (· + 1), false⟩
      else .arr s.heap.length ⟨d, (s.get own).vals.map (· + 1), false⟩ := by
  rw [edit_state (hw.own own hi)]
  have hm' : fhit { s with heap := s.heap.modify own bump } d = none := by rw [fhit_edit]; exact hm
  rw [miss_array (s := { s with heap := s.heap.modify own bump }) hi c d hc hd hm']
  simp only [get_modify, if_true, List.length_modify, bump_rw hro]
  split
  · rename_i h; rw [h]
  · rfl

theorem run_inMemory (ops : List Op) (s : State) :
    (run s ops).inMemory = (s.img.isArray || filled s.inMemory ops) := by
  induction ops generalizing s with
  | nil =>
    simp only [run, filled]
    cases hi : s.img <;> simp [State.inMemory, Img.isArray, hi]
  | cons o ops ih =>
    simp only [run, filled]
    rw [ih, step_img]
    cases hp : s.img.isArray with
    | true => rfl
    | false => rw [inMemory_step_proxy hp]

end Nb.C13
