import NibabelModel.Lemmas.C05
/-! Lemmas/C05_canon — the greedy axis assignment of `io_orientation` on a matrix with a strictly
    dominant entry per column, and idempotence of canonicalisation. -/
namespace Nb.C05
open Nb

def entry (R : List (List Int)) (r c : Nat) : Int := (R.getD r []).getD c 0

def Dominant (R : List (List Int)) (tol : Nat) (σ : List Nat) : Prop :=
  σ ∈ perms3 ∧ ∀ c, c < 3 → tol < (entry R (σ.getD c 0) c).natAbs ∧
    ∀ r, r < 3 → r ≠ σ.getD c 0 → (entry R r c).natAbs < (entry R (σ.getD c 0) c).natAbs

def sgn (x : Int) : Int := if x < 0 then -1 else 1

theorem argmaxAbs3 (x y z : Int) (k : Nat) (hk : k < 3)
    (hdom : ∀ r, r < 3 → r ≠ k → ([x, y, z].getD r 0).natAbs < ([x, y, z].getD k 0).natAbs) :
    argmaxAbs [x, y, z] = k := by
  have h0 := hdom 0 (by omega)
  have h1 := hdom 1 (by omega)
  have h2 := hdom 2 (by omega)
  have : k = 0 ∨ k = 1 ∨ k = 2 := by omega
  rcases this with rfl | rfl | rfl <;> simp at h0 h1 h2 <;> simp only [argmaxAbs, argmaxAbsAux] <;>
    (repeat' split) <;> omega

theorem ioGreedy_step (tol c : Nat) (cs : List Nat) (R : List (List Int)) (x y z : Int) (k : Nat)
    (hcol : colOf R c = [x, y, z]) (hk : k < 3) (htol : tol < ([x, y, z].getD k 0).natAbs)
    (hdom : ∀ r, r < 3 → r ≠ k → ([x, y, z].getD r 0).natAbs < ([x, y, z].getD k 0).natAbs) :
    ioGreedy tol (c :: cs) R = some (k, sgn ([x, y, z].getD k 0)) :: ioGreedy tol cs (zeroRow R k) := by
  have ham := argmaxAbs3 x y z k hk hdom
  have hall : ([x, y, z].all fun v => decide (v.natAbs ≤ tol)) = false := by
    have : k = 0 ∨ k = 1 ∨ k = 2 := by omega
    rcases this with rfl | rfl | rfl <;> simp at htol <;> simp <;> omega
  simp only [ioGreedy, hcol, hall, ham, sgn]
  simp

theorem ioGreedy_step' (tol c : Nat) (cs : List Nat) (R : List (List Int)) (x y z : Int) (k : Nat)
    (hcol : colOf R c = [x, y, z])
    (h : (k = 0 ∧ tol < x.natAbs ∧ y.natAbs < x.natAbs ∧ z.natAbs < x.natAbs) ∨
         (k = 1 ∧ tol < y.natAbs ∧ x.natAbs < y.natAbs ∧ z.natAbs < y.natAbs) ∨
         (k = 2 ∧ tol < z.natAbs ∧ x.natAbs < z.natAbs ∧ y.natAbs < z.natAbs)) :
    ioGreedy tol (c :: cs) R = some (k, sgn ([x, y, z].getD k 0)) :: ioGreedy tol cs (zeroRow R k) := by
  apply ioGreedy_step tol c cs R x y z k hcol
  · omega
  · rcases h with ⟨rfl, h⟩ | ⟨rfl, h⟩ | ⟨rfl, h⟩ <;> simp <;> omega
  · intro r hr hne
    have : r = 0 ∨ r = 1 ∨ r = 2 := by omega
    rcases h with ⟨rfl, h⟩ | ⟨rfl, h⟩ | ⟨rfl, h⟩ <;> rcases this with rfl | rfl | rfl <;>
      first | (simp at hne; done) | (simp; omega)

local macro "greedy_step" c:term "," k:term : tactic =>
  `(tactic| rw [ioGreedy_step' _ $c _ _ _ _ _ $k rfl (by simp [zeroRow]; omega)])

local macro "greedy3" k0:term "," k1:term "," k2:term : tactic =>
  `(tactic| (greedy_step 0, $k0; greedy_step 1, $k1; greedy_step 2, $k2; simp [ioGreedy, entry]))

theorem io_greedy_dominant' (a b c d e f g h i : Int) (tol : Nat) (σ : List Nat)
    (hd : Dominant [[a, b, c], [d, e, f], [g, h, i]] tol σ) :
    ioOrientation [[a, b, c], [d, e, f], [g, h, i]] 3 tol =
      [some (σ.getD 0 0, sgn (entry [[a, b, c], [d, e, f], [g, h, i]] (σ.getD 0 0) 0)),
       some (σ.getD 1 0, sgn (entry [[a, b, c], [d, e, f], [g, h, i]] (σ.getD 1 0) 1)),
       some (σ.getD 2 0, sgn (entry [[a, b, c], [d, e, f], [g, h, i]] (σ.getD 2 0) 2))] := by
  obtain ⟨hp, hdom⟩ := hd
  have c0 := hdom 0 (by omega)
  have c1 := hdom 1 (by omega)
  have c2 := hdom 2 (by omega)
  have d0 := And.intro c0.1 (And.intro (c0.2 0 (by omega)) (And.intro (c0.2 1 (by omega)) (c0.2 2 (by omega))))
  have d1 := And.intro c1.1 (And.intro (c1.2 0 (by omega)) (And.intro (c1.2 1 (by omega)) (c1.2 2 (by omega))))
  have d2 := And.intro c2.1 (And.intro (c2.2 0 (by omega)) (And.intro (c2.2 1 (by omega)) (c2.2 2 (by omega))))
  clear c0 c1 c2 hdom
  simp only [perms3, List.mem_cons, List.not_mem_nil, or_false] at hp
  have hr : List.range 3 = [0, 1, 2] := rfl
  rcases hp with rfl | rfl | rfl | rfl | rfl | rfl <;> simp [entry] at d0 d1 d2 <;>
    simp only [List.getD_cons_zero, List.getD_cons_succ, ioOrientation, hr]
  · greedy3 0, 1, 2
  · greedy3 0, 2, 1
  · greedy3 1, 0, 2
  · greedy3 1, 2, 0
  · greedy3 2, 0, 1
  · greedy3 2, 1, 0

/-- `R · P` for the linear part of the affine `P` (polar factor of `A·P` for a signed permutation `P`) -/
def mulLin (R : List (List Int)) (P : Aff Int) : List (List Int) :=
  R.map (fun row => match row with
    | [x, y, z] => [x * P.r0.a + y * P.r1.a + z * P.r2.a, x * P.r0.b + y * P.r1.b + z * P.r2.b,
                    x * P.r0.c + y * P.r1.c + z * P.r2.c]
    | _ => [])

theorem natAbs_mul_sgn (y x : Int) : (y * sgn x).natAbs = y.natAbs := by
  unfold sgn; split <;> simp

theorem mul_sgn_pos (x : Int) (h : x ≠ 0) : 0 < x * sgn x := by
  unfold sgn; split <;> omega

theorem sgn_mul_sgn (x : Int) : sgn (x * sgn x) = 1 := by
  unfold sgn; split <;> split <;> omega

theorem dominant_id (a b c d e f g h i : Int) (tol : Nat)
    (h0 : tol < a.natAbs ∧ d.natAbs < a.natAbs ∧ g.natAbs < a.natAbs)
    (h1 : tol < e.natAbs ∧ b.natAbs < e.natAbs ∧ h.natAbs < e.natAbs)
    (h2 : tol < i.natAbs ∧ c.natAbs < i.natAbs ∧ f.natAbs < i.natAbs) :
    Dominant [[a, b, c], [d, e, f], [g, h, i]] tol [0, 1, 2] := by
  refine ⟨by decide, ?_⟩
  intro col hc
  have : col = 0 ∨ col = 1 ∨ col = 2 := by omega
  rcases this with rfl | rfl | rfl <;> refine ⟨by simp [entry]; omega, ?_⟩ <;> intro r hr hne <;>
    (have : r = 0 ∨ r = 1 ∨ r = 2 := by omega) <;> rcases this with rfl | rfl | rfl <;>
    first | (simp at hne; done) | (simp [entry]; omega)

/-- the signed permutation read off a dominant matrix -/
def orntOf (R : List (List Int)) (σ : List Nat) : Ornt :=
  [(σ.getD 0 0, sgn (entry R (σ.getD 0 0) 0)), (σ.getD 1 0, sgn (entry R (σ.getD 1 0) 1)),
   (σ.getD 2 0, sgn (entry R (σ.getD 2 0) 2))]

theorem canonical_idempotent' (a b c d e f g h i : Int) (tol : Nat) (σ : List Nat)
    (hd : Dominant [[a, b, c], [d, e, f], [g, h, i]] tol σ) (n0 n1 n2 : Nat) (nr : List Nat) :
    ioOrientation [[a, b, c], [d, e, f], [g, h, i]] 3 tol =
        (orntOf [[a, b, c], [d, e, f], [g, h, i]] σ).map some ∧
      isOrnt3 (orntOf [[a, b, c], [d, e, f], [g, h, i]] σ) = true ∧
      ∃ inv, invOrntAff (orntOf [[a, b, c], [d, e, f], [g, h, i]] σ) (n0 :: n1 :: n2 :: nr) = some inv ∧
        ioOrientation (mulLin [[a, b, c], [d, e, f], [g, h, i]] inv) 3 tol = identityOrnt.map some ∧
        0 < entry (mulLin [[a, b, c], [d, e, f], [g, h, i]] inv) 0 0 ∧
        0 < entry (mulLin [[a, b, c], [d, e, f], [g, h, i]] inv) 1 1 ∧
        0 < entry (mulLin [[a, b, c], [d, e, f], [g, h, i]] inv) 2 2 := by
  have hg := io_greedy_dominant' a b c d e f g h i tol σ hd
  obtain ⟨hp, hdom⟩ := hd
  have c0 := hdom 0 (by omega)
  have c1 := hdom 1 (by omega)
  have c2 := hdom 2 (by omega)
  have d0 := And.intro c0.1 (And.intro (c0.2 0 (by omega)) (And.intro (c0.2 1 (by omega)) (c0.2 2 (by omega))))
  have d1 := And.intro c1.1 (And.intro (c1.2 0 (by omega)) (And.intro (c1.2 1 (by omega)) (c1.2 2 (by omega))))
  have d2 := And.intro c2.1 (And.intro (c2.2 0 (by omega)) (And.intro (c2.2 1 (by omega)) (c2.2 2 (by omega))))
  clear c0 c1 c2 hdom
  refine ⟨hg, ?_⟩
  clear hg
  simp only [perms3, List.mem_cons, List.not_mem_nil, or_false] at hp
  rcases hp with rfl | rfl | rfl | rfl | rfl | rfl <;> simp [entry] at d0 d1 d2 <;>
    simp only [orntOf, entry, List.getD_cons_zero, List.getD_cons_succ] <;>
  · refine ⟨?_, _, rfl, ?_⟩
    · simp [isOrnt3, perms3, sgn]
      omega
    · simp only [mulLin, Aff.comp, Row.comp, scaleShift, unitRow, List.map]
      simp only [Nat.reduceEqDiff, if_true, if_false, Int.mul_zero, Int.mul_one, Int.add_zero, Int.zero_add,
        Nat.succ_ne_zero]
      refine ⟨?_, ?_⟩
      · rw [io_greedy_dominant' _ _ _ _ _ _ _ _ _ tol [0, 1, 2]
          (dominant_id _ _ _ _ _ _ _ _ _ tol (by simp only [natAbs_mul_sgn]; omega)
            (by simp only [natAbs_mul_sgn]; omega) (by simp only [natAbs_mul_sgn]; omega))]
        simp only [entry, identityOrnt, List.getD_cons_zero, List.getD_cons_succ, List.map]
        simp only [sgn_mul_sgn]
      · simp only [List.getD_cons_zero, List.getD_cons_succ]
        refine ⟨mul_sgn_pos _ (by omega), mul_sgn_pos _ (by omega), mul_sgn_pos _ (by omega)⟩
end Nb.C05
