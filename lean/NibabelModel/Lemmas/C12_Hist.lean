import NibabelModel.Lemmas.C12_Routes
/-! Lemmas/C12_Hist — histories over one process (`runHist`), the two opener key tables, `find?` / `lookup`
    helpers used by the load theorems of Props/C12. -/
namespace Nb.C12


theorem codecOfExt_append_ne (ks : List (Str × Nat)) (k : Str) (c : Nat) (x : Str) (h : lower k ≠ lower x) :
    codecOfExt (ks ++ [(k, c)]) x = codecOfExt ks x := by
  unfold codecOfExt
  rw [List.find?_append]
  cases hf : ks.find? (fun q => lower q.1 == lower x) with
  | some q => simp
  | none => simp [h]

theorem codecOfExt_append_eq (ks : List (Str × Nat)) (k : Str) (c : Nat) (x : Str) (h : lower k = lower x)
    (hks : ∀ q ∈ ks, lower q.1 ≠ lower k) :
    codecOfExt (ks ++ [(k, c)]) x = c ∧ codecOfExt ks x = 0 := by
  have hn : ks.find? (fun q => lower q.1 == lower x) = none := by
    rw [List.find?_eq_none]
    intro q hq
    simpa [← h] using hks q hq
  unfold codecOfExt
  rw [List.find?_append, hn]
  simp [h]

theorem find?_pre {α} (p : α → Bool) (pre post : List α) (x : α) (hpre : ∀ y ∈ pre, p y = false) (hx : p x = true) :
    (pre ++ x :: post).find? p = some x := by
  rw [List.find?_append]
  have : pre.find? p = none := by
    rw [List.find?_eq_none]; intro y hy; simp [hpre y hy]
  simp [this, hx]

/-- lookup of a member in the mapped table -/
theorem lookup_member (T : TypesExts) (hnd : (T.map (·.1)).Nodup) (f : Str × Option Str → Str) (k : Str) (x : Option Str)
    (hk : (k, x) ∈ T) : (T.map fun t => (t.1, f t)).lookup k = some (f (k, x)) := by
  induction T with
  | nil => cases hk
  | cons t ts ih =>
    simp only [List.map_cons, List.nodup_cons, List.mem_map, not_exists, not_and] at hnd
    simp only [List.map_cons, List.lookup_cons]
    rcases List.mem_cons.1 hk with h | h
    · subst h; simp
    · have hne : t.1 ≠ k := fun h' => hnd.1 _ h (h'.symm)
      have hb : (k == t.1) = false := by simpa using fun h' => hne h'.symm
      simp only [hb]
      exact ih hnd.2 h

theorem lookup_absent (T : TypesExts) (f : Str × Option Str → Str) (k : Str) (hk : ∀ t ∈ T, t.1 ≠ k) :
    (T.map fun t => (t.1, f t)).lookup k = none := by
  induction T with
  | nil => rfl
  | cons t ts ih =>
    simp only [List.map_cons, List.lookup_cons]
    have hb : (k == t.1) = false := by simpa using fun h' => hk t (List.mem_cons_self) h'.symm
    simp only [hb]
    exact ih (fun t' ht' => hk t' (List.mem_cons_of_mem _ ht'))



/-! history lemmas -/
theorem runHist_append (env : Env) (fs : PFS) (h1 h2 : List Op) :
    runHist env fs (h1 ++ h2) =
      ((runHist env (runHist env fs h1).1 h2).1, (runHist env fs h1).2 ++ (runHist env (runHist env fs h1).1 h2).2) := by
  induction h1 generalizing fs with
  | nil => simp [runHist]
  | cons op rest ih => simp [runHist, ih]

theorem runHist_length (env : Env) (fs : PFS) (h : List Op) : (runHist env fs h).2.length = h.length := by
  induction h generalizing fs with
  | nil => simp [runHist]
  | cons op rest ih => simp [runHist, ih]

theorem step_opener_state (env : Env) (fs : PFS) (b : Bool) (n : Str) : (step env fs (.opener b n)).1 = fs := rfl

@[simp] theorem isOpener_opener (b n) : (Op.opener b n).isOpener = true := rfl
@[simp] theorem isOpener_save (c n) : (Op.save c n).isOpener = false := rfl
@[simp] theorem isOpener_load (n) : (Op.load n).isOpener = false := rfl
@[simp] theorem isOpener_rename (a b) : (Op.rename a b).isOpener = false := rfl

theorem hist_drop_openers (env : Env) (fs : PFS) (h : List Op) :
    (runHist env fs (h.filter (fun o => !o.isOpener))).1 = (runHist env fs h).1 ∧
    (runHist env fs (h.filter (fun o => !o.isOpener))).2 =
      ((h.zip (runHist env fs h).2).filter (fun p => !p.1.isOpener)).map (·.2) := by
  induction h generalizing fs with
  | nil => simp [runHist]
  | cons op rest ih =>
    cases op with
    | opener b n =>
      have := ih fs
      simp [runHist, step, this]
    | save c n =>
      have := ih (step env fs (.save c n)).1
      simp [runHist, this]
    | load n =>
      have := ih (step env fs (.load n)).1
      simp [runHist, this]
    | rename a b =>
      have := ih (step env fs (.rename a b)).1
      simp [runHist, this]

theorem save_obs_any_state (env : Env) (fs fs' : PFS) (c n : Str) :
    (step env fs (.save c n)).2 = (step env fs' (.save c n)).2 := by
  simp only [step]
  cases histSave env c n with
  | none => rfl
  | some p => rfl

theorem opener_obs_any_state (env : Env) (fs fs' : PFS) (b : Bool) (n : Str) :
    (step env fs (.opener b n)).2 = (step env fs' (.opener b n)).2 := rfl

theorem last_obs (env : Env) (h : List Op) (op : Op) :
    (runHist env [] (h ++ [op])).2.getLast? = some (step env (runHist env [] h).1 op).2 := by
  rw [runHist_append]
  simp [runHist]


theorem lookup_filter_ne (fs : PFS) (n x : Str) :
    (fs.filter (fun y => y.1 ≠ n)).lookup x = if x = n then none else fs.lookup x := by
  induction fs with
  | nil => simp
  | cons y ys ih =>
    obtain ⟨yk, yv⟩ := y
    rw [List.filter_cons]
    by_cases hy : yk = n
    · subst hy
      simp only [ne_eq, not_true_eq_false, decide_false, Bool.false_eq_true, if_false, ih, List.lookup_cons]
      by_cases hx : x = yk
      · simp [hx]
      · have : (x == yk) = false := by simpa using hx
        simp [hx, this]
    · simp only [ne_eq, hy, not_false_eq_true, decide_true, if_true, List.lookup_cons, ih]
      by_cases hxy : x = yk
      · subst hxy
        simp [hy]
      · have : (x == yk) = false := by simpa using hxy
        simp [this]

theorem pfsPut_lookup (fs : PFS) (n : Str) (e : FEnt) (x : Str) :
    (pfsPut fs n e).lookup x = if x = n then some e else fs.lookup x := by
  unfold pfsPut
  rw [List.lookup_cons]
  by_cases hx : x = n
  · simp [hx]
  · have : (x == n) = false := by simpa using hx
    simp only [this, lookup_filter_ne, hx, if_false]

theorem foldl_put_lookup (w : Str) (c : Str → Nat) (L : List Str) (fs0 : PFS) (x : Str) :
    ((L.map fun f => (f, c f)).foldl (fun acc fc => pfsPut acc fc.1 ⟨w, fc.2⟩) fs0).lookup x
      = if x ∈ L then some ⟨w, c x⟩ else fs0.lookup x := by
  induction L generalizing fs0 with
  | nil => simp
  | cons f fs ih =>
    simp only [List.map_cons, List.foldl_cons, ih, pfsPut_lookup, List.mem_cons]
    by_cases h1 : x ∈ fs
    · simp [h1]
    · by_cases h2 : x = f
      · simp [h2]
      · simp [h1, h2]


/-- the key of the header member in `files_types` -/
def headerKey : Str := [104, 101, 97, 100, 101, 114]

theorem openers_keep_state (env : Env) (fs : PFS) (h : List Op) (hall : ∀ o ∈ h, o.isOpener = true) :
    (runHist env fs h).1 = fs := by
  induction h with
  | nil => rfl
  | cons op rest ih =>
    have h1 := hall op List.mem_cons_self
    cases op with
    | opener b n =>
      simp only [runHist, step]
      exact ih (fun o ho => hall o (List.mem_cons_of_mem _ ho))
    | save c n => simp at h1
    | load n => simp at h1
    | rename a b => simp at h1

/-! ### write programs on the two kinds of holder -/
theorem zeros_add (a b : Nat) : zeros a ++ zeros b = zeros (a + b) := by
  simp [zeros, List.replicate_append_replicate]

theorem holders_agree_from (p : List WOp) : ∀ (s : RA) (out : Bytes), s.buf.length ≤ s.pos →
    out = s.buf ++ zeros (s.pos - s.buf.length) → mono s.pos p = true →
    seqFrom out p = some ((raFinal s p).buf ++ zeros ((raFinal s p).pos - (raFinal s p).buf.length)) ∧
      (raFinal s p).buf.length ≤ (raFinal s p).pos := by
  induction p with
  | nil => intro s out hle hout _; simp [seqFrom, raFinal, hout, hle]
  | cons op r ih =>
    intro s out hle hout hm
    have hlen : out.length = s.pos := by simp [hout, zeros]; omega
    cases op with
    | write b =>
      simp only [mono] at hm
      by_cases hb : b = []
      · subst hb
        have : raStep s (.write []) = s := by simp [raStep, raWrite]
        simp only [seqFrom, seqStep, List.append_nil, raFinal, List.foldl_cons, this]
        exact ih s out hle hout (by simpa using hm)
      · have hbe : b.isEmpty = false := by simpa using hb
        have hs' : raStep s (.write b) = ⟨out ++ b, s.pos + b.length⟩ := by
          simp only [raStep, raWrite, hbe, Bool.false_eq_true, if_false]
          have h1 : s.buf.take s.pos = s.buf := List.take_of_length_le hle
          have h2 : s.buf.drop (s.pos + b.length) = [] := List.drop_of_length_le (by omega)
          rw [h1, h2, List.append_nil, hout]
        simp only [seqFrom, seqStep, raFinal, List.foldl_cons, hs']
        exact ih ⟨out ++ b, s.pos + b.length⟩ (out ++ b) (by simp [hlen]) (by simp [hlen, zeros]) hm
    | seekTo o =>
      simp only [mono, Bool.and_eq_true, decide_eq_true_eq] at hm
      have hs' : raStep s (.seekTo o) = ⟨s.buf, o⟩ := rfl
      simp only [seqFrom, seqStep, raFinal, List.foldl_cons, hs', hlen, if_pos hm.1]
      refine ih ⟨s.buf, o⟩ _ (by simp; omega) ?_ hm.2
      simp only [hout, List.append_assoc, zeros_add]
      congr 2; omega


theorem holders_agree_lemma (p : List WOp) (hm : mono 0 p = true) (hc : complete p = true) :
    seqRun p = some (raRun p) := by
  obtain ⟨h1, _⟩ := holders_agree_from p ⟨[], 0⟩ [] (by simp) (by simp [zeros]) hm
  have hc' : (raFinal ⟨[], 0⟩ p).pos = (raFinal ⟨[], 0⟩ p).buf.length := by simpa [complete] using hc
  simp only [seqRun, h1, hc', Nat.sub_self, zeros, List.replicate_zero, List.append_nil, raRun]

end Nb.C12
