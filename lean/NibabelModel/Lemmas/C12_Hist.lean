import NibabelModel.Lemmas.C12_Routes
/-! Lemmas/C12_Hist — histories over one process (`runHist`), the two opener key tables, `find?` / `lookup`
    helpers used by the load theorems of Props/C12. -/
namespace Nb.C12


theorem codecOfExt_append_ne (ks : List (Str × Nat)) (k : Str) (c : Nat) (x : Str) (h : lower k ≠ lower x) :
    codecOfExt (ks ++ [(k, c)]) x = codecOfExt ks x := by
  unfold codecOfExt
  rw [List.find?_append]
  cases hf : ks.find? (fun q => lower q.1 == lower x) with
  | some q => simp
  | none => simp [h]

theorem codecOfExt_append_eq (ks : List (Str × Nat)) (k : Str) (c : Nat) (x : Str) (h : lower k = lower x)
    (hks : ∀ q ∈ ks, lower q.1 ≠ lower k) :
    codecOfExt (ks ++ [(k, c)]) x = c ∧ codecOfExt ks x = 0 := by
  have hn : ks.find? (fun q => lower q.1 == lower x) = none := by
    rw [List.find?_eq_none]
    intro q hq
    simpa [← h] using hks q hq
  unfold codecOfExt
  rw [List.find?_append, hn]
  simp [h]

theorem find?_pre {α} (p : α → Bool) (pre post : List α) (x : α) (hpre : ∀ y ∈ pre, p y = false) (hx : p x = true) :
    (pre ++ x :: post).find? p = some x := by
  rw [List.find?_append]
  have : pre.find? p = none := by
    rw [List.find?_eq_none]; intro y hy; simp [hpre y hy]
  simp [this, hx]

/-- lookup of a member in the mapped table -/
theorem lookup_member (T : TypesExts) (hnd : (T.map (·.1)).Nodup) (f : Str × Option Str → Str) (k : Str) (x : Option Str)
    (hk : (k, x) ∈ T) : (T.map fun t => (t.1, f t)).lookup k = some (f (k, x)) := by
  induction T with
  | nil => cases hk
  | cons t ts ih =>
    simp only [List.map_cons, List.nodup_cons, List.mem_map, not_exists, not_and] at hnd
    simp only [List.map_cons, List.lookup_cons]
    rcases List.mem_cons.1 hk with h | h
    · subst h; simp
    · have hne : t.1 ≠ k := fun h' => hnd.1 _ h (h'.symm)
      have hb : (k == t.1) = false := by simpa using fun h' => hne h'.symm
      simp only [hb]
      exact ih hnd.2 h

theorem lookup_absent (T : TypesExts) (f : Str × Option Str → Str) (k : Str) (hk : ∀ t ∈ T, t.1 ≠ k) :
    (T.map fun t => (t.1, f t)).lookup k = none := by
  induction T with
  | nil => rfl
  | cons t ts ih =>
    simp only [List.map_cons, List.lookup_cons]
    have hb : (k == t.1) = false := by simpa using fun h' => hk t (List.mem_cons_self) h'.symm
    simp only [hb]
    exact ih (fun t' ht' => hk t' (List.mem_cons_of_mem _ ht'))



/-! history lemmas -/
theorem runHist_append (env : Env) (fs : PFS) (h1 h2 : List Op) :
    runHist env fs (h1 ++ h2) =
      ((runHist env (runHist env fs h1).1 h2).1, (runHist env fs h1).2 ++ (runHist env (runHist env fs h1).1 h2).2) := by
  induction h1 generalizing fs with
  | nil => simp [runHist]
  | cons op rest ih => simp [runHist, ih]

theorem runHist_length (env : Env) (fs : PFS) (h : List Op) : (runHist env fs h).2.length = h.length := by
  induction h generalizing fs with
  | nil => simp [runHist]
  | cons op rest ih => simp [runHist, ih]

theorem step_opener_state (env : Env) (fs : PFS) (b : Bool) (n : Str) : (step env fs (.opener b n)).1 = fs := rfl

@[simp] theorem isOpener_opener (b n) : (Op.opener b n).isOpener = true := rfl
@[simp] theorem isOpener_save (c n) : (Op.save c n).isOpener = false := rfl
@[simp] theorem isOpener_load (n) : (Op.load n).isOpener = false := rfl
@[simp] theorem isOpener_rename (a b) : (Op.rename a b).isOpener = false := rfl

theorem hist_drop_openers (env : Env) (fs : PFS) (h : List Op) :
    (runHist env fs (h.filter (fun o => !o.isOpener))).1 = (runHist env fs h).1 ∧
    (runHist env fs (h.filter (fun o => !o.isOpener))).2 =
      ((h.zip (runHist env fs h).2).filter (fun p => !p.1.isOpener)).map (·.2) := by
  induction h generalizing fs with
  | nil => simp [runHist]
  | cons op rest ih =>
    cases op with
    | opener b n =>
      have := ih fs
      simp [runHist, step, this]
    | save c n =>
      have := ih (step env fs (.save c n)).1
      simp [runHist, this]
    | load n =>
      have := ih (step env fs (.load n)).1
      simp [runHist, this]
    | rename a b =>
      have := ih (step env fs (.rename a b)).1
      simp [runHist, this]

theorem save_obs_any_state (env : Env) (fs fs' : PFS) (c n : Str) :
    (step env fs (.save c n)).2 = (step env fs' (.save c n)).2 := by
  simp only [step]
  cases histSave env c n with
  | none => rfl
  | some p => rfl

theorem opener_obs_any_state (env : Env) (fs fs' : PFS) (b : Bool) (n : Str) :
    (step env fs (.opener b n)).2 = (step env fs' (.opener b n)).2 := rfl

theorem last_obs (env : Env) (h : List Op) (op : Op) :
    (runHist env [] (h ++ [op])).2.getLast? = some (step env (runHist env [] h).1 op).2 := by
  rw [runHist_append]
  simp [runHist]


end Nb.C12
