import NibabelModel.Model.C10
/-! Lemmas/C10 — byte codec, record codec (parse / serialize / swap) over an arbitrary tiling layout. -/
namespace Nb.C10

/-! ### codec -/

theorem encLE_length (w v : Nat) : (encLE w v).length = w := by
  induction w generalizing v with
  | zero => rfl
  | succ w ih => simp [encLE, ih]

theorem enc_length (e : Endian) (w v : Nat) : (enc e w v).length = w := by
  cases e <;> simp [enc, encLE_length]

theorem decLE_lt (bs : List Byte) : decLE bs < 256 ^ bs.length := by
  induction bs with
  | nil => simp [decLE]
  | cons b bs ih =>
    simp only [decLE, List.length_cons, Nat.pow_succ]
    have := b.toNat_lt
    omega

theorem dec_lt (e : Endian) (bs : List Byte) : dec e bs < 256 ^ bs.length := by
  cases e
  · exact decLE_lt bs
  · have := decLE_lt bs.reverse
    simpa [dec] using this

theorem decLE_encLE (w v : Nat) (h : v < 256 ^ w) : decLE (encLE w v) = v := by
  induction w generalizing v with
  | zero => simp [Nat.pow_zero] at h; simp [encLE, decLE, h]
  | succ w ih =>
    have h2 : v / 256 < 256 ^ w := by
      rw [Nat.pow_succ] at h
      exact Nat.div_lt_of_lt_mul (by rw [Nat.mul_comm]; exact h)
    simp only [encLE, decLE, ih _ h2]
    rw [UInt8.toNat_ofNat_of_lt' (by simp [UInt8.size]; omega)]
    omega

theorem encLE_decLE (bs : List Byte) : encLE bs.length (decLE bs) = bs := by
  induction bs with
  | nil => rfl
  | cons b bs ih =>
    have hb := b.toNat_lt
    simp only [List.length_cons, encLE, decLE]
    have h1 : (b.toNat + 256 * decLE bs) % 256 = b.toNat := by omega
    have h2 : (b.toNat + 256 * decLE bs) / 256 = decLE bs := by omega
    rw [h1, h2, ih, UInt8.ofNat_toNat]

theorem decLE_append (a b : List Byte) : decLE (a ++ b) = decLE a + 256 ^ a.length * decLE b := by
  induction a with
  | nil => simp [decLE]
  | cons x a ih =>
    simp only [List.cons_append, decLE, ih, List.length_cons, Nat.pow_succ]
    rw [Nat.mul_add, ← Nat.mul_assoc, Nat.mul_comm 256 (256 ^ a.length)]
    omega

theorem decLE_eq_zero {bs : List Byte} (h : decLE bs = 0) : ∀ b ∈ bs, b = 0 := by
  induction bs with
  | nil => intro b hb; cases hb
  | cons x bs ih =>
    simp only [decLE] at h
    have hx : x.toNat = 0 := by omega
    have hr : decLE bs = 0 := by omega
    intro b hb
    rcases List.mem_cons.mp hb with rfl | hb
    · exact UInt8.toNat_inj.mp (by simpa using hx)
    · exact ih hr b hb

theorem decLE_zero_of_all {bs : List Byte} (h : ∀ b ∈ bs, b = 0) : decLE bs = 0 := by
  induction bs with
  | nil => rfl
  | cons x bs ih =>
    have hx : x = 0 := h x (List.mem_cons_self ..)
    have := ih (fun b hb => h b (List.mem_cons_of_mem _ hb))
    simp [decLE, this, hx]

/-- `dec (enc v) = v` for every width, both byte orders -/
theorem dec_enc (e : Endian) (w v : Nat) (h : v < 256 ^ w) : dec e (enc e w v) = v := by
  cases e <;> simp [dec, enc, decLE_encLE w v h]

/-- `enc (dec bs) = bs` for every byte string, both byte orders -/
theorem enc_dec (e : Endian) (bs : List Byte) : enc e bs.length (dec e bs) = bs := by
  cases e
  · exact encLE_decLE bs
  · have := encLE_decLE bs.reverse
    simp only [List.length_reverse] at this
    simp [dec, enc, this]

/-- reading the reversed bytes in the other byte order gives the same number -/
theorem dec_swap_reverse (e : Endian) (bs : List Byte) : dec e.swap bs.reverse = dec e bs := by
  cases e <;> simp [dec, Endian.swap]

theorem enc_swap (e : Endian) (w v : Nat) : enc e.swap w v = (enc e w v).reverse := by
  cases e <;> simp [enc, Endian.swap]

theorem Endian.swap_swap (e : Endian) : e.swap.swap = e := by cases e <;> rfl
theorem Endian.swap_ne (e : Endian) : e.swap ≠ e := by cases e <;> simp [Endian.swap]

/-! ### items -/

theorem Field.nbytes_eq (f : Field) : f.nbytes = f.isz * f.count := by
  unfold Field.nbytes Field.iw Field.n
  split <;> simp

theorem decItems_length (e : Endian) (w n : Nat) (bs : List Byte) : (decItems e w n bs).length = n := by
  induction n generalizing bs with
  | zero => rfl
  | succ n ih => simp [decItems, ih]

theorem decItems_lt (e : Endian) (w n : Nat) (bs : List Byte) (hl : w * n ≤ bs.length) :
    ∀ x ∈ decItems e w n bs, x < 256 ^ w := by
  induction n generalizing bs with
  | zero => intro x hx; cases hx
  | succ n ih =>
    intro x hx
    simp only [decItems, List.mem_cons] at hx
    have hw : w ≤ bs.length := by
      rw [Nat.mul_succ] at hl; omega
    rcases hx with rfl | hx
    · have := dec_lt e (bs.take w)
      rwa [List.length_take, Nat.min_eq_left hw] at this
    · exact ih (bs.drop w) (by rw [List.length_drop, Nat.mul_succ] at *; omega) x hx

/-- only the first `w*n` bytes matter -/
theorem decItems_take (e : Endian) (w n : Nat) (bs : List Byte) :
    decItems e w n (bs.take (w * n)) = decItems e w n bs := by
  induction n generalizing bs with
  | zero => rfl
  | succ n ih =>
    simp only [decItems]
    have h1 : (bs.take (w * (n + 1))).take w = bs.take w := by
      rw [List.take_take, Nat.min_eq_left (by rw [Nat.mul_succ]; omega)]
    have h2 : (bs.take (w * (n + 1))).drop w = (bs.drop w).take (w * n) := by
      rw [List.drop_take]; congr 1; rw [Nat.mul_succ]; omega
    rw [h1, h2, ih]

theorem decItems_append (e : Endian) (w n : Nat) (a b : List Byte) (h : a.length = w * n) :
    decItems e w n (a ++ b) = decItems e w n a := by
  rw [← decItems_take e w n (a ++ b), List.take_left' h]

theorem encItems_length (e : Endian) (w : Nat) (vs : List Nat) : (encItems e w vs).length = w * vs.length := by
  induction vs with
  | nil => rfl
  | cons v vs ih => simp [encItems, enc_length, ih, Nat.mul_succ, Nat.add_comm]

theorem swapItems_length (w n : Nat) (bs : List Byte) (hl : w * n ≤ bs.length) :
    (swapItems w n bs).length = w * n := by
  induction n generalizing bs with
  | zero => rfl
  | succ n ih =>
    have hw : w ≤ bs.length := by rw [Nat.mul_succ] at hl; omega
    simp only [swapItems, List.length_append, List.length_reverse, List.length_take, Nat.min_eq_left hw]
    rw [ih (bs.drop w) (by rw [List.length_drop, Nat.mul_succ] at *; omega), Nat.mul_succ]
    omega

/-- encoding the decoded items gives back the bytes they were read from -/
theorem encItems_decItems (e : Endian) (w n : Nat) (bs : List Byte) (hl : w * n ≤ bs.length) :
    encItems e w (decItems e w n bs) = bs.take (w * n) := by
  induction n generalizing bs with
  | zero => simp [decItems, encItems]
  | succ n ih =>
    have hw : w ≤ bs.length := by rw [Nat.mul_succ] at hl; omega
    simp only [decItems, encItems]
    have h1 : enc e w (dec e (bs.take w)) = bs.take w := by
      have := enc_dec e (bs.take w)
      rwa [List.length_take, Nat.min_eq_left hw] at this
    rw [h1, ih (bs.drop w) (by rw [List.length_drop, Nat.mul_succ] at *; omega)]
    have : w * (n + 1) = w + w * n := by rw [Nat.mul_succ]; omega
    rw [this, List.take_add]

/-- decoding the encoded items gives back the items -/
theorem decItems_encItems (e : Endian) (w : Nat) (vs : List Nat) (rest : List Byte)
    (hv : ∀ x ∈ vs, x < 256 ^ w) : decItems e w vs.length (encItems e w vs ++ rest) = vs := by
  induction vs with
  | nil => rfl
  | cons v vs ih =>
    simp only [List.length_cons, decItems, encItems, List.append_assoc]
    rw [List.take_left' (enc_length e w v), List.drop_left' (enc_length e w v),
      dec_enc e w v (hv v (List.mem_cons_self ..)), ih (fun x hx => hv x (List.mem_cons_of_mem _ hx))]

/-- reading byte-swapped items in the other byte order gives the same values -/
theorem decItems_swapItems (e : Endian) (w n : Nat) (bs : List Byte) (hl : w * n ≤ bs.length) :
    decItems e.swap w n (swapItems w n bs) = decItems e w n bs := by
  induction n generalizing bs with
  | zero => rfl
  | succ n ih =>
    have hw : w ≤ bs.length := by rw [Nat.mul_succ] at hl; omega
    have hlen : ((bs.take w).reverse).length = w := by simp [Nat.min_eq_left hw]
    simp only [decItems, swapItems]
    rw [List.take_left' hlen, List.drop_left' hlen, dec_swap_reverse,
      ih (bs.drop w) (by rw [List.length_drop, Nat.mul_succ] at *; omega)]

theorem swapItems_take (w n : Nat) (bs : List Byte) :
    swapItems w n (bs.take (w * n)) = swapItems w n bs := by
  induction n generalizing bs with
  | zero => rfl
  | succ n ih =>
    simp only [swapItems]
    have h1 : (bs.take (w * (n + 1))).take w = bs.take w := by
      rw [List.take_take, Nat.min_eq_left (by rw [Nat.mul_succ]; omega)]
    have h2 : (bs.take (w * (n + 1))).drop w = (bs.drop w).take (w * n) := by
      rw [List.drop_take]; congr 1; rw [Nat.mul_succ]; omega
    rw [h1, h2, ih]

theorem swapItems_swapItems (w n : Nat) (bs : List Byte) (hl : w * n ≤ bs.length) :
    swapItems w n (swapItems w n bs) = bs.take (w * n) := by
  induction n generalizing bs with
  | zero => simp [swapItems]
  | succ n ih =>
    have hw : w ≤ bs.length := by rw [Nat.mul_succ] at hl; omega
    have hlen : ((bs.take w).reverse).length = w := by simp [Nat.min_eq_left hw]
    have hl' : w * n ≤ (bs.drop w).length := by rw [List.length_drop, Nat.mul_succ] at *; omega
    simp only [swapItems]
    rw [List.take_left' hlen, List.drop_left' hlen, List.reverse_reverse, ih (bs.drop w) hl']
    have : w * (n + 1) = w + w * n := by rw [Nat.mul_succ]; omega
    rw [this, List.take_add]

/-- `encItems` in the other byte order is the item-wise reversal -/
theorem swapItems_encItems (e : Endian) (w : Nat) (vs : List Nat) (rest : List Byte) :
    swapItems w vs.length (encItems e w vs ++ rest) = encItems e.swap w vs := by
  induction vs with
  | nil => rfl
  | cons v vs ih =>
    simp only [List.length_cons, swapItems, encItems, List.append_assoc]
    rw [List.take_left' (enc_length e w v), List.drop_left' (enc_length e w v), ih, enc_swap]

/-! ### sequential view of a tiling layout -/

def totalBytes : List Field → Nat
  | [] => 0
  | f :: fs => f.nbytes + totalBytes fs

theorem tiles_total {fs : List Field} {off size : Nat} (h : tiles fs off size = true) :
    off + totalBytes fs = size := by
  induction fs generalizing off with
  | nil => simpa [tiles, totalBytes] using h
  | cons f fs ih =>
    simp only [tiles, Bool.and_eq_true, beq_iff_eq] at h
    have := ih h.2
    simp only [totalBytes]; omega

/-- sequential parse: consume the fields from the front of the byte string -/
def parseSeq : List Field → Endian → List Byte → List (List Nat)
  | [], _, _ => []
  | f :: fs, e, bs => decItems e f.iw f.n bs :: parseSeq fs e (bs.drop f.nbytes)

def swapSeq : List Field → List Byte → List Byte
  | [], _ => []
  | f :: fs, bs => swapItems f.iw f.n bs ++ swapSeq fs (bs.drop f.nbytes)

theorem parseFs_eq_seq {fs : List Field} {off size : Nat} (h : tiles fs off size = true) (e : Endian)
    (bs : List Byte) : parseFs fs e bs = parseSeq fs e (bs.drop off) := by
  induction fs generalizing off with
  | nil => rfl
  | cons f fs ih =>
    simp only [tiles, Bool.and_eq_true, beq_iff_eq] at h
    show parseField f e bs :: parseFs fs e bs = _
    rw [ih h.2]
    simp only [parseSeq, parseField, h.1, List.drop_drop]

theorem swapFs_eq_seq {fs : List Field} {off size : Nat} (h : tiles fs off size = true)
    (bs : List Byte) : swapFs fs bs = swapSeq fs (bs.drop off) := by
  induction fs generalizing off with
  | nil => rfl
  | cons f fs ih =>
    simp only [tiles, Bool.and_eq_true, beq_iff_eq] at h
    simp only [swapFs, swapSeq, h.1, List.drop_drop]
    rw [ih h.2]

theorem serializeFs_parseSeq (fs : List Field) (e : Endian) (bs : List Byte)
    (hl : totalBytes fs ≤ bs.length) :
    serializeFs fs e (parseSeq fs e bs) = bs.take (totalBytes fs) := by
  induction fs generalizing bs with
  | nil => simp [serializeFs, totalBytes]
  | cons f fs ih =>
    simp only [totalBytes] at hl
    simp only [parseSeq, serializeFs, totalBytes]
    rw [encItems_decItems e f.iw f.n bs (by unfold Field.nbytes at hl; omega),
      ih (bs.drop f.nbytes) (by rw [List.length_drop]; omega), List.take_add]
    rfl

theorem swapSeq_length (fs : List Field) (bs : List Byte) (hl : totalBytes fs ≤ bs.length) :
    (swapSeq fs bs).length = totalBytes fs := by
  induction fs generalizing bs with
  | nil => rfl
  | cons f fs ih =>
    simp only [totalBytes] at hl
    simp only [swapSeq, List.length_append, totalBytes]
    rw [swapItems_length f.iw f.n bs (by unfold Field.nbytes at hl; omega),
      ih (bs.drop f.nbytes) (by rw [List.length_drop]; omega)]
    rfl

theorem parseSeq_swapSeq (fs : List Field) (e : Endian) (bs : List Byte)
    (hl : totalBytes fs ≤ bs.length) :
    parseSeq fs e.swap (swapSeq fs bs) = parseSeq fs e bs := by
  induction fs generalizing bs with
  | nil => rfl
  | cons f fs ih =>
    simp only [totalBytes] at hl
    have hf : f.iw * f.n ≤ bs.length := by unfold Field.nbytes at hl; omega
    have hlen := swapItems_length f.iw f.n bs hf
    simp only [parseSeq, swapSeq]
    rw [decItems_append _ _ _ _ _ hlen, decItems_swapItems e f.iw f.n bs hf,
      List.drop_left' (by rw [hlen]; rfl), ih (bs.drop f.nbytes) (by rw [List.length_drop]; omega)]

theorem swapSeq_swapSeq (fs : List Field) (bs : List Byte) (hl : totalBytes fs ≤ bs.length) :
    swapSeq fs (swapSeq fs bs) = bs.take (totalBytes fs) := by
  induction fs generalizing bs with
  | nil => simp [swapSeq, totalBytes]
  | cons f fs ih =>
    simp only [totalBytes] at hl
    have hf : f.iw * f.n ≤ bs.length := by unfold Field.nbytes at hl; omega
    have hlen := swapItems_length f.iw f.n bs hf
    simp only [swapSeq, totalBytes]
    rw [← swapItems_take f.iw f.n (swapItems f.iw f.n bs ++ _), List.take_left' hlen,
      swapItems_swapItems f.iw f.n bs hf, List.drop_left' (by rw [hlen]; rfl),
      ih (bs.drop f.nbytes) (by rw [List.length_drop]; omega), List.take_add]
    rfl

/-! ### values -/

theorem valsOk_parseSeq (fs : List Field) (e : Endian) (bs : List Byte) (hl : totalBytes fs ≤ bs.length) :
    valsOk fs (parseSeq fs e bs) = true := by
  induction fs generalizing bs with
  | nil => rfl
  | cons f fs ih =>
    simp only [totalBytes] at hl
    have hf : f.iw * f.n ≤ bs.length := by unfold Field.nbytes at hl; omega
    simp only [parseSeq, valsOk, Bool.and_eq_true, beq_iff_eq, List.all_eq_true, decide_eq_true_eq]
    exact ⟨⟨decItems_length .., decItems_lt e f.iw f.n bs hf⟩,
      ih (bs.drop f.nbytes) (by rw [List.length_drop]; omega)⟩

theorem serializeFs_length {fs : List Field} {vals : List (List Nat)} (e : Endian)
    (hv : valsOk fs vals = true) : (serializeFs fs e vals).length = totalBytes fs := by
  induction fs generalizing vals with
  | nil => cases vals <;> simp [serializeFs, totalBytes]
  | cons f fs ih =>
    cases vals with
    | nil => simp [valsOk] at hv
    | cons v vs =>
      simp only [valsOk, Bool.and_eq_true, beq_iff_eq] at hv
      simp only [serializeFs, List.length_append, encItems_length, totalBytes, ih hv.2, hv.1.1]
      rfl

theorem parseSeq_serializeFs {fs : List Field} {vals : List (List Nat)} (e : Endian)
    (hv : valsOk fs vals = true) : parseSeq fs e (serializeFs fs e vals) = vals := by
  induction fs generalizing vals with
  | nil => cases vals <;> simp_all [valsOk, parseSeq]
  | cons f fs ih =>
    cases vals with
    | nil => simp [valsOk] at hv
    | cons v vs =>
      simp only [valsOk, Bool.and_eq_true, beq_iff_eq, List.all_eq_true, decide_eq_true_eq] at hv
      have hlen : (encItems e f.iw v).length = f.nbytes := by
        rw [encItems_length, hv.1.1]; rfl
      simp only [parseSeq, serializeFs]
      rw [← hv.1.1, decItems_encItems e f.iw v _ hv.1.2, List.drop_left' hlen, ih hv.2]

theorem swapSeq_serializeFs {fs : List Field} {vals : List (List Nat)} (e : Endian)
    (hv : valsOk fs vals = true) : swapSeq fs (serializeFs fs e vals) = serializeFs fs e.swap vals := by
  induction fs generalizing vals with
  | nil => cases vals <;> simp [swapSeq, serializeFs]
  | cons f fs ih =>
    cases vals with
    | nil => simp [valsOk] at hv
    | cons v vs =>
      simp only [valsOk, Bool.and_eq_true, beq_iff_eq] at hv
      have hlen : (encItems e f.iw v).length = f.nbytes := by
        rw [encItems_length, hv.1.1]; rfl
      simp only [swapSeq, serializeFs]
      rw [← hv.1.1, swapItems_encItems, List.drop_left' hlen, ih hv.2]

end Nb.C10
