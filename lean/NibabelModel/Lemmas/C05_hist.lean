import NibabelModel.Model.C05
import NibabelModel.Lemmas.C05
/-! Lemmas/C05_hist — the image-state model (data object vs `get_fdata` cache): the bookkeeping
    invariant is preserved by every history and the data object after a history does not depend on
    the cache nor on any cast. -/
namespace Nb.C05
variable {α : Type}

theorem init_wf (p : Bool) (a : Option FD) (n : Nat) : (ImgSt.init p a n).WF := by
  intro c hc; simp [ImgSt.init] at hc

theorem fresh_wf (cast : FD → α → α) (s : ImgSt α) (hw : s.WF) (dt : FD) (fill : Bool)
    (edit : Option (List α → List α)) (hmiss : ∀ c, s.cache = some c → c.dt ≠ dt) :
    (s.fresh cast dt fill edit).WF := by
  intro c hc
  have hal : ∀ d, (s.fresh cast dt fill edit).aliases d = s.aliases d := fun d => rfl
  rw [hal]
  cases fill with
  | true =>
    simp only [ImgSt.fresh, if_true, Option.some.injEq] at hc
    subst hc
    refine ⟨rfl, ?_⟩
    intro h
    simp only [ImgSt.fresh] at h ⊢
    simp [h]
  | false =>
    simp only [ImgSt.fresh, Bool.false_eq_true, if_false] at hc
    obtain ⟨h1, h2⟩ := hw c hc
    refine ⟨h1, ?_⟩
    intro h
    have hne := hmiss c hc
    have : s.aliases dt = false := by
      rw [h] at h1
      have h1 := h1.symm
      simp only [ImgSt.aliases, Bool.and_eq_true, Bool.not_eq_true', beq_iff_eq] at h1
      cases hh : s.aliases dt with
      | false => rfl
      | true =>
        simp only [ImgSt.aliases, Bool.and_eq_true, Bool.not_eq_true', beq_iff_eq] at hh
        rw [h1.2] at hh
        exact absurd (Option.some.inj hh.2) hne
    simp only [ImgSt.fresh, this, Bool.false_eq_true, if_false]
    exact h2 h

theorem step_static (cast : FD → α → α) (s : ImgSt α) (st : HStep α) :
    (s.step cast st).proxy = s.proxy ∧ (s.step cast st).arrFD = s.arrFD := by
  cases st with
  | uncache => exact ⟨rfl, rfl⟩
  | getFdata dt fill edit =>
    show _ ∧ _
    simp only [ImgSt.step]
    unfold ImgSt.getFdata
    split
    · split <;> exact ⟨rfl, rfl⟩
    · exact ⟨rfl, rfl⟩

theorem step_wf (cast : FD → α → α) (s : ImgSt α) (hw : s.WF) (st : HStep α) : (s.step cast st).WF := by
  cases st with
  | uncache => intro c hc; simp [ImgSt.step] at hc
  | getFdata dt fill edit =>
    simp only [ImgSt.step]
    unfold ImgSt.getFdata
    split
    · rename_i c hc
      split
      · rename_i hdt
        intro c' hc'
        simp only [Option.some.injEq] at hc'
        subst hc'
        obtain ⟨h1, h2⟩ := hw c hc
        refine ⟨h1, ?_⟩
        intro h
        simp only at h
        simp only [h, if_true]
      · rename_i hdt
        exact fresh_wf cast s hw dt fill edit (fun c' hc' => by rw [hc] at hc'; cases hc'; exact hdt)
    · rename_i hc
      exact fresh_wf cast s hw dt fill edit (fun c' hc' => by rw [hc] at hc'; cases hc')

theorem run_wf (cast : FD → α → α) (s : ImgSt α) (hw : s.WF) (h : List (HStep α)) : (s.run cast h).WF := by
  induction h generalizing s with
  | nil => exact hw
  | cons st r ih => exact ih (s.step cast st) (step_wf cast s hw st)

/-- one step changes the data exactly as `dataSpec` says -/
theorem step_data (cast : FD → α → α) (s : ImgSt α) (hw : s.WF) (st : HStep α) :
    (s.step cast st).data = dataSpec s.proxy s.arrFD [st] s.data := by
  cases st with
  | uncache => rfl
  | getFdata dt fill edit =>
    simp only [ImgSt.step]
    unfold ImgSt.getFdata
    split
    · rename_i c hc
      split
      · rename_i hdt
        obtain ⟨h1, h2⟩ := hw c hc
        simp only [dataSpec]
        rw [h1, hdt]
        cases hal : s.aliases dt with
        | false =>
          have : (!s.proxy && s.arrFD == some dt) = false := hal
          simp [this]
        | true =>
          have : (!s.proxy && s.arrFD == some dt) = true := hal
          rw [hdt] at h1
          rw [h2 (h1.trans hal)]
          simp [this]
      · simp only [ImgSt.fresh, dataSpec, ImgSt.aliases]
        split <;> rename_i hh <;> simp [hh]
    · simp only [ImgSt.fresh, dataSpec, ImgSt.aliases]
      split <;> rename_i hh <;> simp [hh]

theorem dataSpec_cons (p : Bool) (a : Option FD) (st : HStep α) (r : List (HStep α)) (d : List α) :
    dataSpec p a (st :: r) d = dataSpec p a r (dataSpec p a [st] d) := by
  cases st <;> rfl

theorem run_data (cast : FD → α → α) (s : ImgSt α) (hw : s.WF) (h : List (HStep α)) :
    (s.run cast h).data = dataSpec s.proxy s.arrFD h s.data ∧ (s.run cast h).proxy = s.proxy ∧
      (s.run cast h).arrFD = s.arrFD := by
  induction h generalizing s with
  | nil => exact ⟨rfl, rfl, rfl⟩
  | cons st r ih =>
    have := ih (s.step cast st) (step_wf cast s hw st)
    obtain ⟨hp, ha⟩ := step_static cast s st
    rw [hp, ha, step_data cast s hw st] at this
    refine ⟨?_, this.2.1, this.2.2⟩
    rw [dataSpec_cons]
    exact this.1

theorem dataSpec_inert (p : Bool) (a : Option FD) (hk : p = true ∨ a = none) (h : List (HStep α)) (d : List α) :
    dataSpec p a h d = d := by
  induction h generalizing d with
  | nil => rfl
  | cons st r ih =>
    rw [dataSpec_cons, ih]
    cases st with
    | uncache => rfl
    | getFdata dt fill edit => rcases hk with rfl | rfl <;> simp [dataSpec]

/-- rearranging edits never introduce a value that was not in the data object -/
theorem dataSpec_mem (p : Bool) (a : Option FD) (h : List (HStep α)) (hr : ∀ st ∈ h, st.Rearranges) (d : List α)
    (x : α) (hx : x ∈ dataSpec p a h d) : x ∈ d := by
  induction h generalizing d with
  | nil => exact hx
  | cons st r ih =>
    rw [dataSpec_cons] at hx
    have hx' := ih (fun s hs => hr s (List.mem_cons_of_mem _ hs)) _ hx
    have hst := hr st (List.mem_cons_self ..)
    cases st with
    | uncache => exact hx'
    | getFdata dt fill edit =>
      simp only [dataSpec] at hx'
      split at hx'
      · cases edit with
        | none => exact hx'
        | some e => exact hst d x hx'
      · exact hx'

theorem ravelC_aux (shape idx : List Nat) (h : idx ∈ allIdx shape) (acc P : Nat) (hacc : acc < P) :
    (shape.zip idx).foldl (fun acc p => acc * p.1 + p.2) acc < P * prodN shape := by
  induction shape generalizing idx acc P with
  | nil =>
    simp [allIdx] at h
    subst h
    simpa [prodN] using hacc
  | cons n ns ih =>
    obtain ⟨i, r, hi, hr, rfl⟩ := mem_allIdx_cons.mp h
    simp only [List.zip_cons_cons, List.foldl_cons, prodN]
    have h1 : acc * n + i < P * n :=
      Nat.lt_of_lt_of_le (by rw [Nat.succ_mul]; omega) (Nat.mul_le_mul_right n hacc)
    have := ih r hr (acc * n + i) (P * n) h1
    rwa [Nat.mul_assoc] at this

/-- the C-order element number of an in-range multi-index is below the number of elements -/
theorem ravelC_lt (shape idx : List Nat) (h : idx ∈ allIdx shape) : ravelC shape idx < prodN shape := by
  have := ravelC_aux shape idx h 0 1 (by omega)
  simpa [ravelC] using this

theorem range_getD (n k : Nat) (hk : k < n) : (List.range n).getD k default = k := by
  simp [List.getD, hk]

end Nb.C05

namespace Nb.C05
/-- on a proxy image whose data object holds `range n`, an operation reading the data object and
    gathering in-range element numbers returns exactly those numbers, after any history -/
theorem hist_gather_range (cast : FD → Nat → Nat) (arrFD : Option FD) (n : Nat) (h : List (HStep Nat))
    (srcs : List Nat) (hs : ∀ k ∈ srcs, k < n) :
    ((ImgSt.init true arrFD n).run cast h).values .dataobj srcs = srcs := by
  unfold ImgSt.values
  simp only [ImgSt.source]
  rw [(run_data cast _ (init_wf true arrFD n) h).1]
  simp only [ImgSt.init]
  rw [dataSpec_inert _ _ (Or.inl rfl)]
  have : ∀ k ∈ srcs, (fun k => (List.range n).getD k default) k = id k := fun k hk => range_getD n k (hs k hk)
  rw [List.map_congr_left this, List.map_id]
end Nb.C05
