import NibabelModel.Model.C05
/-! Lemmas/C05_hist — the image-state model (data object vs `get_fdata` cache): the bookkeeping
    invariant is preserved by every history and the data object after a history does not depend on
    the cache. -/
namespace Nb.C05

theorem init_wf (p : Bool) (a : Option FD) (n : Nat) : (ImgSt.init p a n).WF := by
  intro c hc; simp [ImgSt.init] at hc

theorem fresh_static (s : ImgSt) (dt : FD) (fill edit : Bool) :
    (s.fresh dt fill edit).proxy = s.proxy ∧ (s.fresh dt fill edit).arrFD = s.arrFD := ⟨rfl, rfl⟩

theorem step_static (s : ImgSt) (st : HStep) : (s.step st).proxy = s.proxy ∧ (s.step st).arrFD = s.arrFD := by
  cases st with
  | uncache => exact ⟨rfl, rfl⟩
  | getFdata dt fill edit =>
    show _ ∧ _
    simp only [ImgSt.step]
    unfold ImgSt.getFdata
    split
    · split
      · split <;> exact ⟨rfl, rfl⟩
      · exact ⟨rfl, rfl⟩
    · exact ⟨rfl, rfl⟩

theorem aliases_congr {s t : ImgSt} (hp : t.proxy = s.proxy) (ha : t.arrFD = s.arrFD) (dt : FD) :
    t.aliases dt = s.aliases dt := by simp [ImgSt.aliases, hp, ha]

theorem fresh_wf (s : ImgSt) (hw : s.WF) (dt : FD) (fill edit : Bool)
    (hmiss : ∀ c, s.cache = some c → c.dt ≠ dt) : (s.fresh dt fill edit).WF := by
  intro c hc
  have hal : ∀ d, (s.fresh dt fill edit).aliases d = s.aliases d := fun d => rfl
  rw [hal]
  cases fill with
  | true =>
    simp only [ImgSt.fresh, if_true, Option.some.injEq] at hc
    subst hc
    refine ⟨rfl, ?_⟩
    intro h
    simp only [ImgSt.fresh] at h ⊢
    simp [h]
  | false =>
    simp only [ImgSt.fresh, Bool.false_eq_true, if_false] at hc
    obtain ⟨h1, h2⟩ := hw c hc
    refine ⟨h1, ?_⟩
    intro h
    have hne := hmiss c hc
    have : (edit && s.aliases dt) = false := by
      cases hed : edit with
      | false => rfl
      | true =>
        simp only [Bool.true_and]
        rw [h] at h1
        have h1 := h1.symm
        simp only [ImgSt.aliases, Bool.and_eq_true, Bool.not_eq_true', beq_iff_eq] at h1
        cases hh : s.aliases dt with
        | false => rfl
        | true =>
          simp only [ImgSt.aliases, Bool.and_eq_true, Bool.not_eq_true', beq_iff_eq] at hh
          rw [h1.2] at hh
          exact absurd (Option.some.inj hh.2) hne
    simp only [ImgSt.fresh, this, Bool.false_eq_true, if_false]
    exact h2 h

theorem step_wf (s : ImgSt) (hw : s.WF) (st : HStep) : (s.step st).WF := by
  cases st with
  | uncache => intro c hc; simp [ImgSt.step] at hc
  | getFdata dt fill edit =>
    simp only [ImgSt.step]
    unfold ImgSt.getFdata
    split
    · rename_i c hc
      split
      · rename_i hdt
        split
        · intro c' hc'
          simp only [Option.some.injEq] at hc'
          subst hc'
          obtain ⟨h1, h2⟩ := hw c hc
          refine ⟨h1, ?_⟩
          intro h
          simp only at h
          simp only [h, if_true]
          rw [h2 h]
        · exact hw
      · rename_i hdt
        exact fresh_wf s hw dt fill edit (fun c' hc' => by rw [hc] at hc'; cases hc'; exact hdt)
    · rename_i hc
      exact fresh_wf s hw dt fill edit (fun c' hc' => by rw [hc] at hc'; cases hc')

theorem run_wf (s : ImgSt) (hw : s.WF) (h : List HStep) : (s.run h).WF := by
  induction h generalizing s with
  | nil => exact hw
  | cons st r ih => exact ih (s.step st) (step_wf s hw st)

/-- one step changes the data exactly as `dataSpec` says -/
theorem step_data (s : ImgSt) (hw : s.WF) (st : HStep) :
    (s.step st).data = dataSpec s.proxy s.arrFD [st] s.data := by
  cases st with
  | uncache => rfl
  | getFdata dt fill edit =>
    simp only [ImgSt.step]
    unfold ImgSt.getFdata
    split
    · rename_i c hc
      split
      · rename_i hdt
        obtain ⟨h1, _⟩ := hw c hc
        cases edit with
        | false => simp [dataSpec]
        | true =>
          simp only [if_true, dataSpec]
          rw [h1, hdt]; rfl
      · cases edit <;> simp [ImgSt.fresh, dataSpec, ImgSt.aliases]
    · cases edit <;> simp [ImgSt.fresh, dataSpec, ImgSt.aliases]

theorem dataSpec_cons (p : Bool) (a : Option FD) (st : HStep) (r : List HStep) (d : List Nat) :
    dataSpec p a (st :: r) d = dataSpec p a r (dataSpec p a [st] d) := by
  cases st with
  | uncache => rfl
  | getFdata dt fill edit => cases edit <;> rfl

theorem run_data (s : ImgSt) (hw : s.WF) (h : List HStep) :
    (s.run h).data = dataSpec s.proxy s.arrFD h s.data ∧ (s.run h).proxy = s.proxy ∧ (s.run h).arrFD = s.arrFD := by
  induction h generalizing s with
  | nil => exact ⟨rfl, rfl, rfl⟩
  | cons st r ih =>
    have := ih (s.step st) (step_wf s hw st)
    obtain ⟨hp, ha⟩ := step_static s st
    rw [hp, ha, step_data s hw st] at this
    refine ⟨?_, this.2.1, this.2.2⟩
    rw [dataSpec_cons]
    exact this.1

theorem dataSpec_inert (p : Bool) (a : Option FD) (hk : p = true ∨ a = none) (h : List HStep) (d : List Nat) :
    dataSpec p a h d = d := by
  induction h generalizing d with
  | nil => rfl
  | cons st r ih =>
    rw [dataSpec_cons, ih]
    cases st with
    | uncache => rfl
    | getFdata dt fill edit =>
      cases edit with
      | false => rfl
      | true => rcases hk with rfl | rfl <;> simp [dataSpec]

theorem dataSpec_rev (p : Bool) (a : Option FD) (h : List HStep) (d : List Nat) :
    dataSpec p a h d = d ∨ dataSpec p a h d = d.reverse := by
  induction h generalizing d with
  | nil => exact Or.inl rfl
  | cons st r ih =>
    rw [dataSpec_cons]
    cases st with
    | uncache => exact ih d
    | getFdata dt fill edit =>
      cases edit with
      | false => exact ih d
      | true =>
        simp only [dataSpec]
        split
        · rcases ih d.reverse with h | h
          · exact Or.inr h
          · rw [List.reverse_reverse] at h; exact Or.inl h
        · exact ih d
end Nb.C05
