import NibabelModel.Model.C08
import NibabelModel.Lemmas.C08
/-! Lemmas/C08_Xml — the block loop of `ParseFile` around an abstract expat: with the closing final call every
    document lacking its root end tag is refused. -/
namespace Nb.C08

theorem xmlFeedLoop_final_prefix (E : Expat) (rootEnd : Nat) (hE : E.Contract rootEnd) (bytes : Bytes) (st : Bool)
    (bs : Nat) (hlen : bytes.length < rootEnd) :
    ∀ fuel pos acc, acc.length = pos → pos ≤ bytes.length →
      ∃ e, xmlFeedLoop E ⟨bytes, st⟩ bs true fuel pos acc = .error e := by
  intro fuel
  induction fuel with
  | zero => intro pos acc _ _; exact ⟨_, rfl⟩
  | succ fuel ih =>
    intro pos acc hacc hpos
    simp only [xmlFeedLoop]
    split
    · exact ⟨_, rfl⟩
    · rename_i b hb
      have hb' := read_ok hb
      simp only at hb'
      split
      · simp only [if_true]
        have := hE acc [] (by simp; omega)
        rw [this]; exact ⟨_, rfl⟩
      · split
        · apply ih
          · simp [hacc]
          · subst hb'
            simp only [List.length_take, List.length_drop]; omega
        · exact ⟨_, rfl⟩

theorem lazyExpat_contract (r : Nat) : (lazyExpat r).Contract r := by
  intro acc chunk h
  simp only [lazyExpat, Bool.not_true, Bool.false_or, decide_eq_false_iff_not]
  omega

end Nb.C08
