import NibabelModel.Model.C08
import NibabelModel.Lemmas.C08
/-! Lemmas/C08_PerRead — the volume readers under per-read end-of-stream behaviour. -/
namespace Nb.C08

/-! ### the `…G` readers with `rd := s.read` are the readers of the model -/

theorem sniffOkG_inst (fmt : VolFmt) (s : Src) : sniffOkG fmt s.read = sniffOk fmt s := rfl

theorem readExtsG_inst (s : Src) : ∀ fuel pos size, readExtsG s.read fuel pos size = readExts s fuel pos size := by
  intro fuel
  induction fuel with
  | zero => intro pos size; rfl
  | succ fuel ih =>
    intro pos size
    simp only [readExtsG, readExts, ih]

theorem dataReadG_inst (s : Src) (off n : Nat) : dataReadG s.read off n = dataRead s off n := rfl

theorem readDataG_inst (um : Bool) (s : Src) (off n : Nat) :
    readDataG um s.bytes s.read off n = readData um s off n := by
  cases um <;> simp [readDataG, readData, dataMmap, dataReadG_inst]

theorem readHeaderG_inst (fmt : VolFmt) (single : Bool) (s : Src) :
    readHeaderG fmt single s.bytes s.read = readHeader fmt single s := by
  simp only [readHeaderG, readHeader, sniffOkG_inst, readExtsG_inst]

theorem readSingleG_inst (fmt : VolFmt) (um : Bool) (s : Src) :
    readSingleG fmt um s.bytes s.read = readSingle fmt um s := by
  simp only [readSingleG, readSingle, readHeaderG_inst, readDataG_inst]

theorem readPairG_inst (fmt : VolFmt) (um : Bool) (hs is : Src) :
    readPairG fmt um hs.bytes hs.read is.bytes is.read = readPair fmt um hs is := by
  simp only [readPairG, readPair, readHeaderG_inst, readDataG_inst]

theorem readSegsLoopG_inst (s : Src) : ∀ segs, readSegsLoopG s.read segs = readSegsLoop s segs := by
  intro segs
  induction segs with
  | nil => rfl
  | cons sg r ih => obtain ⟨o, l⟩ := sg; simp only [readSegsLoopG, readSegsLoop, ih]

theorem readSegmentsG_inst (s : Src) (segs : List (Nat × Nat)) (nb : Nat) :
    readSegmentsG s.read segs nb = readSegments s segs nb := by
  simp only [readSegmentsG, readSegments, readSegsLoopG_inst]

/-! ### monotonicity: any per-read behaviour yields the lax result or an error -/

/-- the request function of the lax source -/
def laxRd (bytes : Bytes) : Nat → Nat → Except Err Bytes := (Src.plain bytes).read

theorem laxRd_eq (bytes : Bytes) (pos n : Nat) : laxRd bytes pos n = .ok ((bytes.drop pos).take n) :=
  read_plain bytes pos n

/-- `r` is `l` or an error -/
def OrErr {α} (r l : Except Err α) : Prop := r = l ∨ ∃ e, r = .error e

theorem OrErr.err {α} (e : Err) (l : Except Err α) : OrErr (.error e) l := Or.inr ⟨e, rfl⟩
theorem OrErr.rfl' {α} (l : Except Err α) : OrErr l l := Or.inl rfl

variable {bytes : Bytes} {rd : Nat → Nat → Except Err Bytes}

theorem sniffOkG_mono (h : ReadsOf bytes rd) (fmt : VolFmt) :
    sniffOkG fmt rd = sniffOkG fmt (laxRd bytes) ∨ sniffOkG fmt rd = false := by
  unfold sniffOkG
  split
  · left; rfl
  · rcases h 0 (max fmt.sniffLen 1024) with h1 | ⟨e, h1⟩
    · left; rw [h1, laxRd_eq]
    · right; rw [h1]

theorem readExtsG_mono (h : ReadsOf bytes rd) : ∀ fuel pos size,
    OrErr (readExtsG rd fuel pos size) (readExtsG (laxRd bytes) fuel pos size) := by
  intro fuel
  induction fuel with
  | zero => intro pos size; exact OrErr.rfl' _
  | succ fuel ih =>
    intro pos size
    simp only [readExtsG]
    split
    · rcases h pos 8 with h1 | ⟨e, h1⟩
      · rw [h1, laxRd_eq]
        simp only
        split
        · exact OrErr.rfl' _
        · split
          · exact OrErr.rfl' _
          · split
            · exact OrErr.rfl' _
            · split
              · exact OrErr.rfl' _
              · rcases h (pos + 8) (rdLE ((bytes.drop pos).take 8) 0 4 - 8) with h2 | ⟨e, h2⟩
                · rw [h2, laxRd_eq]
                  simp only
                  split
                  · exact OrErr.rfl' _
                  · exact ih _ _
                · rw [h2]; exact OrErr.err _ _
      · rw [h1]; exact OrErr.err _ _
    · exact OrErr.rfl' _

theorem dataReadG_mono (h : ReadsOf bytes rd) (off n : Nat) :
    OrErr (dataReadG rd off n) (dataReadG (laxRd bytes) off n) := by
  unfold dataReadG
  split
  · exact OrErr.rfl' _
  · rcases h off n with h1 | ⟨e, h1⟩
    · rw [h1, laxRd_eq]; exact OrErr.rfl' _
    · rw [h1]; exact OrErr.err _ _

theorem readDataG_mono (h : ReadsOf bytes rd) (um : Bool) (off n : Nat) :
    OrErr (readDataG um bytes rd off n) (readDataG um bytes (laxRd bytes) off n) := by
  unfold readDataG
  cases um
  · simp only [Bool.false_eq_true, if_false]; exact dataReadG_mono h off n
  · simp only [if_true]
    split
    · exact OrErr.rfl' _
    · exact dataReadG_mono h off n

/-- the extension phase of `readHeaderG` -/
def extPhaseG (fmt : VolFmt) (single : Bool) (bytes : Bytes) (rd : Nat → Nat → Except Err Bytes) (off : Nat) :
    Except Err Unit :=
  if fmt.exts then
    match rd fmt.hdrSize 4 with
    | .error e => .error e
    | .ok st =>
      if st.length < 4 ∨ st.head? = some 0 then .ok ()
      else readExtsG rd (bytes.length + 1) (fmt.hdrSize + 4)
             (if single then (off : Int) - (fmt.hdrSize + 4 : Nat) else -1)
  else .ok ()

/-- what follows the extension phase (footer read) -/
def hdrTailG (fmt : VolFmt) (rd : Nat → Nat → Except Err Bytes) (n off : Nat) (ext : Except Err Unit) :
    Except Err (Nat × Nat) :=
  match ext with
  | .error e => .error e
  | .ok () =>
    if fmt.footer = 0 then .ok (n, off)
    else match rd (off + n) fmt.footer with
      | .error e => .error e
      | .ok _ => .ok (n, off)

theorem readHeaderG_eq (fmt : VolFmt) (single : Bool) (bytes : Bytes) (rd : Nat → Nat → Except Err Bytes) :
    readHeaderG fmt single bytes rd =
      if ¬ sniffOkG fmt rd then .error .bad
      else match rd 0 fmt.hdrSize with
        | .error e => .error e
        | .ok hb =>
          if hb.length ≠ fmt.hdrSize then .error .trunc
          else hdrTailG fmt rd (rdLE hb 0 8) (fmt.fixedOff.getD (rdLE hb 8 8))
                 (extPhaseG fmt single bytes rd (fmt.fixedOff.getD (rdLE hb 8 8))) := rfl

theorem extPhaseG_mono (h : ReadsOf bytes rd) (fmt : VolFmt) (single : Bool) (off : Nat) :
    OrErr (extPhaseG fmt single bytes rd off) (extPhaseG fmt single bytes (laxRd bytes) off) := by
  unfold extPhaseG
  split
  · rcases h fmt.hdrSize 4 with h2 | ⟨e, h2⟩
    · rw [h2, laxRd_eq]
      simp only
      split
      · exact OrErr.rfl' _
      · exact readExtsG_mono h _ _ _
    · rw [h2]; exact OrErr.err _ _
  · exact OrErr.rfl' _

theorem hdrTailG_mono (h : ReadsOf bytes rd) (fmt : VolFmt) (n off : Nat) {e1 e2 : Except Err Unit}
    (he : OrErr e1 e2) : OrErr (hdrTailG fmt rd n off e1) (hdrTailG fmt (laxRd bytes) n off e2) := by
  rcases he with he | ⟨e, he⟩
  · subst he
    unfold hdrTailG
    split
    · exact OrErr.rfl' _
    · split
      · exact OrErr.rfl' _
      · rcases h (off + n) fmt.footer with h3 | ⟨e, h3⟩
        · rw [h3, laxRd_eq]; exact OrErr.rfl' _
        · rw [h3]; exact OrErr.err _ _
  · subst he; exact OrErr.err _ _

theorem readHeaderG_mono (h : ReadsOf bytes rd) (fmt : VolFmt) (single : Bool) :
    OrErr (readHeaderG fmt single bytes rd) (readHeaderG fmt single bytes (laxRd bytes)) := by
  rw [readHeaderG_eq, readHeaderG_eq]
  rcases sniffOkG_mono h fmt with hs | hs
  · rw [hs]
    split
    · exact OrErr.rfl' _
    · rcases h 0 fmt.hdrSize with h1 | ⟨e, h1⟩
      · rw [h1, laxRd_eq]
        simp only
        split
        · exact OrErr.rfl' _
        · exact hdrTailG_mono h fmt _ _ (extPhaseG_mono h fmt single _)
      · rw [h1]; exact OrErr.err _ _
  · rw [hs]; simp only [Bool.false_eq_true, not_false_eq_true, if_true]; exact OrErr.err _ _

theorem readSingleG_mono (h : ReadsOf bytes rd) (fmt : VolFmt) (um : Bool) :
    OrErr (readSingleG fmt um bytes rd) (readSingle fmt um ⟨bytes, false⟩) := by
  have hinst := readSingleG_inst fmt um ⟨bytes, false⟩
  rw [← hinst]
  show OrErr _ (readSingleG fmt um bytes (laxRd bytes))
  unfold readSingleG
  rcases readHeaderG_mono h fmt true with hh | ⟨e, hh⟩
  · rw [hh]
    split
    · exact OrErr.rfl' _
    · exact readDataG_mono h um _ _
  · rw [hh]; exact OrErr.err _ _

theorem readPairG_mono {hbytes ibytes : Bytes} {hrd ird : Nat → Nat → Except Err Bytes}
    (hh : ReadsOf hbytes hrd) (hi : ReadsOf ibytes ird) (fmt : VolFmt) (um : Bool) :
    OrErr (readPairG fmt um hbytes hrd ibytes ird) (readPair fmt um ⟨hbytes, false⟩ ⟨ibytes, false⟩) := by
  have hinst := readPairG_inst fmt um ⟨hbytes, false⟩ ⟨ibytes, false⟩
  rw [← hinst]
  show OrErr _ (readPairG fmt um hbytes (laxRd hbytes) ibytes (laxRd ibytes))
  unfold readPairG
  rcases readHeaderG_mono hh fmt false with h1 | ⟨e, h1⟩
  · rw [h1]
    split
    · exact OrErr.rfl' _
    · exact readDataG_mono hi um _ _
  · rw [h1]; exact OrErr.err _ _

theorem readSegsLoopG_mono (h : ReadsOf bytes rd) : ∀ segs,
    OrErr (readSegsLoopG rd segs) (readSegsLoopG (laxRd bytes) segs) := by
  intro segs
  induction segs with
  | nil => exact OrErr.rfl' _
  | cons sg r ih =>
    obtain ⟨o, l⟩ := sg
    simp only [readSegsLoopG]
    rcases h o l with h1 | ⟨e, h1⟩
    · rw [h1, laxRd_eq]
      simp only
      rcases ih with h2 | ⟨e, h2⟩
      · rw [h2]; exact OrErr.rfl' _
      · rw [h2]; exact OrErr.err _ _
    · rw [h1]; exact OrErr.err _ _

theorem readSegmentsG_mono (h : ReadsOf bytes rd) (segs : List (Nat × Nat)) (nb : Nat) :
    OrErr (readSegmentsG rd segs nb) (readSegments ⟨bytes, false⟩ segs nb) := by
  have hinst := readSegmentsG_inst ⟨bytes, false⟩ segs nb
  rw [← hinst]
  show OrErr _ (readSegmentsG (laxRd bytes) segs nb)
  unfold readSegmentsG
  rcases readSegsLoopG_mono h segs with h2 | ⟨e, h2⟩
  · rw [h2]; exact OrErr.rfl' _
  · rw [h2]; exact OrErr.err _ _

end Nb.C08
