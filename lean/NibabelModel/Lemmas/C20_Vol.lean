import NibabelModel.Lemmas.C20_Sort
/-! Lemmas/C20_Vol — `vol_numbers` / `vol_is_full` characterised by occurrence counts; permutation
    invariance of `n_slices`, `n_vols`. Core Lean only. -/
namespace Nb.C20

section occ
variable {α : Type} [BEq α] [LawfulBEq α]

theorem occAux_length (seen : List α) : ∀ l, (occAux seen l).length = l.length
  | [] => rfl
  | s :: rest => by simp [occAux, occAux_length (s :: seen) rest]

/-- the pair (value, occurrence number) occurs exactly for the occurrence numbers below the count -/
theorem mem_zip_occAux (t : α) (v : Nat) : ∀ (l seen : List α),
    (t, v) ∈ l.zip (occAux seen l) ↔ seen.count t ≤ v ∧ v < seen.count t + l.count t
  | [], seen => by simp [occAux]
  | s :: rest, seen => by
      simp only [occAux, List.zip_cons_cons, List.mem_cons, Prod.mk.injEq,
        mem_zip_occAux t v rest (s :: seen), List.count_cons]
      by_cases h : s = t
      · subst h; simp; omega
      · have h' : ¬ t = s := fun e => h e.symm
        simp [h, h']

theorem mem_zip_occNumbers (t : α) (v : Nat) (l : List α) :
    (t, v) ∈ l.zip (occNumbers l) ↔ v < l.count t := by
  simp [occNumbers, mem_zip_occAux]

end occ

/-! ### dedup -/
variable {α : Type} [DecidableEq α]

theorem mem_dedup {a : α} : ∀ {l : List α}, a ∈ dedup l ↔ a ∈ l
  | [] => by simp [dedup]
  | b :: l => by
      simp only [dedup]
      split <;> rename_i h
      · rw [mem_dedup (l := l)] at *
        simp only [List.mem_cons]
        constructor
        · exact Or.inr
        · rintro (rfl | h')
          · exact h
          · exact h'
      · simp only [List.mem_cons, mem_dedup (l := l)]

theorem nodup_dedup : ∀ (l : List α), (dedup l).Nodup
  | [] => by simp [dedup]
  | b :: l => by
      simp only [dedup]
      split <;> rename_i h
      · exact nodup_dedup l
      · exact List.nodup_cons.2 ⟨h, nodup_dedup l⟩

/-- the number of distinct values depends only on which values occur -/
theorem distinctCount_congr {l₁ l₂ : List α} (h : ∀ a, a ∈ l₁ ↔ a ∈ l₂) :
    distinctCount l₁ = distinctCount l₂ := by
  unfold distinctCount
  apply List.Perm.length_eq
  rw [List.perm_ext_iff_of_nodup (nodup_dedup l₁) (nodup_dedup l₂)]
  intro a; rw [mem_dedup, mem_dedup, h]

/-- a list whose members are exactly the numbers below `m` has `m` distinct values -/
theorem distinctCount_eq_of_mem_iff_lt {l : List Nat} {m : Nat} (h : ∀ v, v ∈ l ↔ v < m) :
    distinctCount l = m := by
  unfold distinctCount
  have : (dedup l).Perm (List.range m) := by
    rw [List.perm_ext_iff_of_nodup (nodup_dedup l) List.nodup_range]
    intro a; rw [mem_dedup, h, List.mem_range]
  simpa using this.length_eq

end Nb.C20

namespace Nb.C20

theorem volsAndFull_eq {τ : Type} [BEq τ] [LawfulBEq τ] (tagged : List (τ × Int)) (smax : Int) :
    volsAndFull tagged smax = (tagged.zip (occNumbers tagged)).map fun tv =>
      (tv.2, (sliceRange smax).all fun s => decide (tv.2 < tagged.count (tv.1.1, s))) := by
  have key : ∀ a s w, (tagged.zip (occNumbers tagged)).contains ((a, s), w) =
      decide (w < tagged.count (a, s)) := by
    intro a s w
    rw [Bool.eq_iff_iff]
    simp [mem_zip_occNumbers]
  unfold volsAndFull
  simp only [key]

/-- volume numbers of the positions flagged full -/
def fullVols {τ : Type} [BEq τ] [LawfulBEq τ] (tagged : List (τ × Int)) (smax : Int) : List Nat :=
  ((volsAndFull tagged smax).filter (·.2)).map (·.1)

theorem mem_fullVols {τ : Type} [BEq τ] [LawfulBEq τ] (tagged : List (τ × Int)) (smax : Int) (v : Nat) :
    v ∈ fullVols tagged smax ↔
      ∃ a b, v < tagged.count (a, b) ∧ ∀ s ∈ sliceRange smax, v < tagged.count (a, s) := by
  unfold fullVols
  rw [volsAndFull_eq]
  constructor
  · intro h
    obtain ⟨x, hx, rfl⟩ := List.mem_map.1 h
    obtain ⟨hx, hf⟩ := List.mem_filter.1 hx
    obtain ⟨⟨⟨a, b⟩, w⟩, hm, rfl⟩ := List.mem_map.1 hx
    refine ⟨a, b, (mem_zip_occNumbers (a, b) w tagged).1 hm, ?_⟩
    simpa using hf
  · rintro ⟨a, b, hlt, hall⟩
    refine List.mem_map.2 ⟨(v, true), List.mem_filter.2 ⟨List.mem_map.2
      ⟨((a, b), v), (mem_zip_occNumbers (a, b) v tagged).2 hlt, ?_⟩, rfl⟩, rfl⟩
    simpa using hall

theorem fullVols_perm {τ : Type} [BEq τ] [LawfulBEq τ] {t₁ t₂ : List (τ × Int)} (h : t₁.Perm t₂) (smax : Int) :
    distinctCount (fullVols t₁ smax) = distinctCount (fullVols t₂ smax) := by
  apply distinctCount_congr
  intro v
  simp only [mem_fullVols, h.count_eq]

theorem all_perm {β : Type} {l₁ l₂ : List β} (h : l₁.Perm l₂) (p : β → Bool) : l₁.all p = l₂.all p := by
  rw [Bool.eq_iff_iff]
  simp only [List.all_eq_true]
  exact ⟨fun H x hx => H x (h.mem_iff.2 hx), fun H x hx => H x (h.mem_iff.1 hx)⟩

theorem nVols_eq (c : Cfg) (recs : List Rec) :
    nVols c recs = if (recs.map (·.slice)).all (inRange c.maxSlices) then
      .ok (distinctCount (fullVols ((recs.map (·.slice)).map fun s => ((), s)) c.maxSlices))
    else .error .value := by
  unfold nVols volsFullGlobal fullVols
  split <;> rfl

/-- `_get_n_vols` does not depend on the record order -/
theorem nVols_perm (c : Cfg) {r₁ r₂ : List Rec} (h : r₁.Perm r₂) : nVols c r₁ = nVols c r₂ := by
  rw [nVols_eq, nVols_eq, all_perm (h.map _), fullVols_perm ((h.map _).map _)]

/-- `_get_n_slices` does not depend on the record order -/
theorem nSlices_perm {r₁ r₂ : List Rec} (h : r₁.Perm r₂) : nSlices r₁ = nSlices r₂ := by
  unfold nSlices
  apply distinctCount_congr
  intro a
  exact (h.map _).mem_iff

end Nb.C20
