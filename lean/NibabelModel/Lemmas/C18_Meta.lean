import NibabelModel.Lemmas.C18_Map
/-!
  Lemmas/C18_Meta — metadata dicts through the CIFTI-2 XML text (wave-3 extension of C18): the insertion-ordered
  dict built by the parser (`meta[pair[0]] = pair[1]` per MD element) from the MD elements written by
  `CaretMetaData._to_xml_element`.  Core Lean only.  The primed statements are re-exported in Props/C18.lean.
-/
namespace Nb.C18
open Nb

/-- a metadata dict the XML text can carry: no padding anywhere, distinct keys -/
def MDict.Safe (d : MDict) : Prop :=
  (∀ e ∈ d, e.1.strip = e.1 ∧ e.2.strip = e.2) ∧ (d.map (·.1)).Nodup

theorem mdParse_safe (d : MDict) (h : MDict.Safe d) : mdParse d = d := by
  unfold mdParse
  have hm : d.map (fun e => (e.1.strip, e.2.strip)) = d := by
    apply map_id_of_forall
    intro e he
    have := h.1 e he
    rw [this.1, this.2]
  rw [hm]
  have := foldl_updSet_nodup (fun (e : MD) => e.1) d [] (by simpa using h.2)
  simpa using this

theorem md_xml_roundtrip' (d : MDict) (h : MDict.Safe d) : mdXrt d = d := by
  unfold mdXrt mdToXml
  cases d with
  | nil => rfl
  | cons e es => simp only [List.isEmpty_cons, Bool.false_eq_true, if_false, mdOfXml]; exact mdParse_safe _ h

/-! general case (any padding, any key collisions after stripping): the result as a mapping -/

theorem updSet_cons {α κ} [DecidableEq κ] (key : α → κ) (x : α) (xs : List α) (e : α) :
    updSet key (x :: xs) e =
      if key x = key e then e :: xs.map (fun y => if key y = key e then e else y) else x :: updSet key xs e := by
  unfold updSet
  by_cases hx : key x = key e
  · simp [hx]
  · by_cases ha : xs.any (fun y => decide (key y = key e)) = true
    · simp [hx, ha]
    · simp only [Bool.not_eq_true] at ha
      simp [hx, ha]

theorem mdGet_cons (x : MD) (xs : MDict) (k : Txt) :
    mdGet (x :: xs) k = if x.1 = k then some x.2 else mdGet xs k := by
  unfold mdGet
  by_cases h : x.1 = k
  · simp [h]
  · have : (x.1 == k) = false := by simpa using h
    simp [this, h]

theorem mdGet_map_replace (xs : MDict) (e : MD) (k : Txt) (hk : e.1 ≠ k) :
    mdGet (xs.map (fun y => if y.1 = e.1 then e else y)) k = mdGet xs k := by
  induction xs with
  | nil => rfl
  | cons x xs ih =>
    simp only [List.map_cons, mdGet_cons]
    by_cases hx : x.1 = e.1
    · have : x.1 ≠ k := by rw [hx]; exact hk
      simp [hx, hk, ih]
    · simp [hx, ih]

theorem mdGet_updSet (t : MDict) (e : MD) (k : Txt) :
    mdGet (updSet (·.1) t e) k = if e.1 = k then some e.2 else mdGet t k := by
  induction t with
  | nil => simp [updSet, mdGet]
  | cons x xs ih =>
    rw [updSet_cons]
    by_cases hx : x.1 = e.1
    · simp only [hx, if_true, mdGet_cons]
      by_cases hk : e.1 = k
      · simp [hk]
      · simp only [hk, if_false]
        exact mdGet_map_replace xs e k hk
    · simp only [hx, if_false, mdGet_cons, ih]
      by_cases hk : e.1 = k
      · have : x.1 ≠ k := by rw [← hk]; exact hx
        simp [hk, this]
      · simp [hk]

/-- the last entry of `l` with key `k` -/
def lastWith (l : MDict) (k : Txt) : Option Txt := mdGet l.reverse k

theorem mdGet_append_single (l : MDict) (e : MD) (k : Txt) :
    mdGet ((e :: l).reverse) k = match mdGet l.reverse k with | some v => some v | none => if e.1 = k then some e.2 else none := by
  simp only [List.reverse_cons]
  generalize l.reverse = r
  induction r with
  | nil => simp [mdGet]
  | cons x xs ih =>
    simp only [List.cons_append, mdGet_cons]
    by_cases hx : x.1 = k
    · simp [hx]
    · simp [hx, ih]

theorem mdGet_foldl (l acc : MDict) (k : Txt) :
    mdGet (l.foldl (updSet (·.1)) acc) k =
      match lastWith l k with | some v => some v | none => mdGet acc k := by
  induction l generalizing acc with
  | nil => simp [lastWith, mdGet]
  | cons e es ih =>
    simp only [List.foldl_cons]
    rw [ih, mdGet_updSet]
    unfold lastWith
    rw [mdGet_append_single]
    cases h : mdGet es.reverse k with
    | some v => simp
    | none => by_cases hk : e.1 = k <;> simp [hk]

theorem updSet_keys_nodup (t : MDict) (e : MD) (h : (t.map (·.1)).Nodup) :
    ((updSet (·.1) t e).map (·.1)).Nodup := by
  unfold updSet
  by_cases ha : t.any (fun x => decide (x.1 = e.1)) = true
  · simp only [ha, if_true]
    have : (t.map (fun x => if x.1 = e.1 then e else x)).map (·.1) = t.map (·.1) := by
      rw [List.map_map]
      apply List.map_congr_left
      intro x _
      by_cases hx : x.1 = e.1 <;> simp [hx]
    rw [this]; exact h
  · simp only [ha]
    simp only [Bool.not_eq_true, List.any_eq_false, decide_eq_true_eq] at ha
    simp only [Bool.false_eq_true, if_false, List.map_append, List.map_cons, List.map_nil]
    rw [List.nodup_append]
    refine ⟨h, by simp, ?_⟩
    intro a ha' b hb
    simp only [List.mem_singleton] at hb
    subst hb
    intro hab
    obtain ⟨x, hx, rfl⟩ := List.mem_map.mp ha'
    exact ha x hx hab

theorem foldl_updSet_keys_nodup (l acc : MDict) (h : (acc.map (·.1)).Nodup) :
    ((l.foldl (updSet (·.1)) acc).map (·.1)).Nodup := by
  induction l generalizing acc with
  | nil => exact h
  | cons e es ih => exact ih _ (updSet_keys_nodup acc e h)

/-- dict → XML → dict for ANY dict (padding, keys that collide after stripping): the result is a dict
    (distinct keys) whose value at `k` is the stripped value of the LAST entry whose stripped key is `k` -/
theorem md_xml_spec' (d : MDict) :
    ((mdXrt d).map (·.1)).Nodup ∧
    ∀ k, mdGet (mdXrt d) k = lastWith (d.map (fun e => (e.1.strip, e.2.strip))) k := by
  unfold mdXrt mdToXml
  cases d with
  | nil => exact ⟨by simp [mdOfXml], fun k => rfl⟩
  | cons e es =>
    simp only [List.isEmpty_cons, Bool.false_eq_true, if_false, mdOfXml]
    unfold mdParse
    refine ⟨foldl_updSet_keys_nodup _ [] (by simp), fun k => ?_⟩
    rw [mdGet_foldl]
    cases h : lastWith (List.map (fun e => (e.1.strip, e.2.strip)) (e :: es)) k <;> simp [mdGet]

def ScalarM.Valid (a : ScalarM) : Prop := a.mta.length = a.name.length ∧ ∀ d ∈ a.mta, MDict.Safe d

theorem scalarm_xml_roundtrip' (a : ScalarM) (hv : a.Valid) : scalarMXrt a = .ok a := by
  obtain ⟨hl, hs⟩ := hv
  unfold scalarMXrt scalarMFromXml scalarMToXml
  have h1 : ((a.name.zip a.mta).map (fun e => (e.1, mdToXml e.2))).map (·.1) = a.name := by
    rw [List.map_map]
    have : ((fun (x : NMapX) => x.1) ∘ fun (e : Nat × MDict) => (e.1, mdToXml e.2)) = Prod.fst := rfl
    rw [this, List.map_fst_zip]; omega
  have h2 : ((a.name.zip a.mta).map (fun e => (e.1, mdToXml e.2))).map
      (fun m => mdOfXml m.2) = a.mta := by
    rw [List.map_map]
    have : ((fun (m : NMapX) => mdOfXml m.2) ∘
        fun (e : Nat × MDict) => (e.1, mdToXml e.2)) = (fun e => mdXrt e.2) := by
      funext e; rfl
    rw [this]
    have : (a.name.zip a.mta).map (fun e => mdXrt e.2) = ((a.name.zip a.mta).map Prod.snd).map mdXrt := by
      rw [List.map_map]; rfl
    rw [this, List.map_snd_zip (by omega)]
    exact map_id_of_forall _ _ (fun d hd => md_xml_roundtrip' d (hs d hd))
  rw [h1, h2]
  unfold scalarMMk
  simp [hl]

end Nb.C18
