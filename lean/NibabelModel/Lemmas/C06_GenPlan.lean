/-
  Lemmas/C06_GenPlan — `predict_shape` and `calc_slicedefs` translated from the CURRENT source of
  nibabel/fileslice.py equal the model (`predictShape`, `calcSlicedefs`).  Core Lean only.
-/
import NibabelModel.Lemmas.C06_GenCanon
import NibabelModel.Lemmas.C06_Whole
set_option linter.unusedSimpArgs false
namespace Nb.C06
open Nb.Py Nb.Py.V

abbrev PLoc := Gen.C06F.predict_shape_Locals

def ofNats (l : List Nat) : List V := l.map (fun (n : Nat) => V.int (n : Int))

theorem ofShape_eq (l : List Nat) : ofShape l = ofList (ofNats l) := rfl

def updP (s : PLoc) (sl rn os : V) : PLoc := { s with slicer := sl, real_no := rn, out_shape := os }

/-- loop of the translated `predict_shape` over canonical items -/
theorem ploop_eq (items : List Item) : ∀ (s : PLoc) (full : List Nat) (k : Nat) (acc : List Nat),
    ItemsWF items (full.drop k) → s.in_shape = ofShape full → s.real_no = .int (k : Int) →
    s.out_shape = ofList (ofNats acc) →
    ∃ s', Gen.C06F.predict_shape_loop1 (ofList (items.map ofItem)) s = .ok (.next s') ∧
      s'.out_shape = ofList (ofNats (acc ++ predictLoop items (full.drop k))) := by
  induction items with
  | nil =>
    intro s full k acc _ _ _ ho
    refine ⟨s, rfl, ?_⟩
    have : predictLoop [] (full.drop k) = [] := by cases full.drop k <;> rfl
    simp [this, ho]
  | cons it rest ih =>
    intro s full k acc hwf hs hr ho
    cases it with
    | newaxis =>
      have hwf' : ItemsWF rest (full.drop k) := by rw [itemsWF_newaxis] at hwf; exact hwf
      have hb : Gen.C06F.predict_shape_body1 { s with slicer := V.none } =
          .ok (.next { s with slicer := V.none, out_shape := ofList (ofNats (acc ++ [1])) }) := by
        unfold Gen.C06F.predict_shape_body1
        simp [ho, ofNats]
      obtain ⟨s', e1, e2⟩ := ih { s with slicer := V.none, out_shape := ofList (ofNats (acc ++ [1])) } full k (acc ++ [1]) hwf' hs hr rfl
      refine ⟨s', ?_, ?_⟩
      · simp only [List.map_cons, ofList_cons, ofItem, Gen.C06F.predict_shape_loop1, bind, Except.bind, hb, e1]
      · rw [e2]
        have : predictLoop (.newaxis :: rest) (full.drop k) = 1 :: predictLoop rest (full.drop k) := by
          cases full.drop k <;> rfl
        simp [this]
    | int i =>
      cases hd : full.drop k with
      | nil => rw [hd] at hwf; exact hwf.elim
      | cons n shape =>
        rw [hd] at hwf
        rw [itemsWF_cons _ _ _ _ (by intro hc; cases hc)] at hwf
        obtain ⟨hg, hdrop, _⟩ := drop_head full k n shape hd
        have hb : Gen.C06F.predict_shape_body1 { s with slicer := ofItem (Item.int i) } =
            .ok (.next (updP s (V.int i) (.int ((k + 1 : Nat) : Int)) (ofList (ofNats (acc ++ []))))) := by
          unfold Gen.C06F.predict_shape_body1
          simp [ofItem, hr, ho, updP]
        obtain ⟨s', e1, e2⟩ := ih (updP s (V.int i) (.int ((k + 1 : Nat) : Int)) (ofList (ofNats (acc ++ [])))) full (k + 1) (acc ++ [])
            (by rw [hdrop]; exact hwf.2) hs rfl rfl
        refine ⟨s', ?_, ?_⟩
        · simp only [List.map_cons, ofList_cons, Gen.C06F.predict_shape_loop1, bind, Except.bind, hb, e1]
        · rw [e2, hdrop]
          simp [predictLoop]
    | slice sl =>
      cases hd : full.drop k with
      | nil => rw [hd] at hwf; exact hwf.elim
      | cons n shape =>
        rw [hd] at hwf
        rw [itemsWF_cons _ _ _ _ (by intro hc; cases hc)] at hwf
        obtain ⟨hg, hdrop, _⟩ := drop_head full k n shape hd
        have hb : Gen.C06F.predict_shape_body1 { s with slicer := ofItem (Item.slice sl) } =
            .ok (.next (updP s (ofPySlice sl) (.int ((k + 1 : Nat) : Int)) (ofList (ofNats (acc ++ [slice2len sl n]))))) := by
          unfold Gen.C06F.predict_shape_body1
          have h1 : isNone (ofPySlice sl) = false := by obtain ⟨a, b, c⟩ := sl; rfl
          have h2 : toInt (ofPySlice sl) = .error .typeError := rfl
          have h3 := gen_slice2len_eq sl n hwf.1
          have hk : ((k : Int) + 1 - 1) = (k : Int) := by omega
          simp only [ofItem, h1, h2]
          simp [hr, ho, hs, hk, ofShape_get, hg, h3, ofNats, updP]
        obtain ⟨s', e1, e2⟩ := ih (updP s (ofPySlice sl) (.int ((k + 1 : Nat) : Int)) (ofList (ofNats (acc ++ [slice2len sl n])))) full (k + 1) (acc ++ [slice2len sl n])
            (by rw [hdrop]; exact hwf.2) hs rfl rfl
        refine ⟨s', ?_, ?_⟩
        · simp only [List.map_cons, ofList_cons, Gen.C06F.predict_shape_loop1, bind, Except.bind, hb, e1]
        · rw [e2, hdrop]
          simp [predictLoop]

/-- **predict_shape**: the function translated from the source returns the model's predicted shape
    (which `predict_shape_spec` proves equal to the shape of NumPy indexing) and raises when the model does -/
theorem gen_predict_shape_eq (idx : List IdxItem) (shape : List Nat)
    (hv : ∀ s, IdxItem.slice s ∈ idx → s.Valid) :
    match predictShape idx shape with
    | .ok sh => Gen.C06F.predict_shape (ofList (idx.map ofIdx)) (ofShape shape) = .ok (ofShape sh)
    | .error _ => ∃ e, Gen.C06F.predict_shape (ofList (idx.map ofIdx)) (ofShape shape) = .error e := by
  have hseq : isSeq (ofList (idx.map ofIdx)) = true := by cases idx <;> rfl
  have hc := gen_canonical_slicers_eq idx shape true
  unfold predictShape canonicalSlicers
  unfold Gen.C06F.predict_shape
  simp only [hseq, truthy_bool, Bool.not_true, Bool.false_eq_true, if_false, bind_ok, pure_eq_ok]
  cases hres : canonLoop true idx shape with
  | error e =>
    rw [hres] at hc
    obtain ⟨e', he'⟩ := hc
    exact ⟨e', by simp [he']⟩
  | ok items =>
    rw [hres] at hc
    have hwf := canonLoop_wf idx shape items hv hres
    obtain ⟨s', e1, e2⟩ := ploop_eq items
      ⟨ofList (items.map ofItem), ofShape shape, .nil, .int 0, .none⟩ shape 0 [] (by simpa using hwf) rfl rfl rfl
    simp only [bind, Except.bind, pure, Except.pure, hc, asList_ofList, e1, e2, List.nil_append, List.drop_zero]
    rfl

/-! ### calc_slicedefs -/

theorem revAux_ofList (l acc : List V) : revAux (ofList l) (ofList acc) = .ok (ofList (l.reverse ++ acc)) := by
  induction l generalizing acc with
  | nil => simp [revAux]
  | cons x xs ih =>
    simp only [ofList_cons, revAux]
    have := ih (x :: acc)
    simp only [ofList_cons] at this
    rw [this]; simp

theorem reversed_ofList (l : List V) : reversed (ofList l) = .ok (ofList l.reverse) := by
  unfold reversed
  simp only [asList_ofList, bind_ok]
  have := revAux_ofList l []
  simpa using this

/-- a read item as an index item (what `predict_shape(read_slicers, in_shape)` is handed) -/
def readToIdx : ReadItem → IdxItem
  | .int i => .int i
  | .full => .slice pySliceNone
  | .slice a b c => .slice ⟨some a, some b, some c⟩
  | .newaxis => .newaxis

theorem ofRead_eq_ofIdx (r : ReadItem) : ofRead r = ofIdx (readToIdx r) := by
  cases r <;> rfl

theorem slice2len_full_range (n : Nat) : slice2len ⟨some 0, some (n : Int), some 1⟩ n = n := by
  unfold slice2len
  have hne : (⟨some 0, some (n : Int), some 1⟩ : PySlice) ≠ pySliceNone := by
    intro h; cases h
  simp only [hne, if_false]
  unfold fillSlicer fullSlicerLen PySlice.indices PySlice.stepVal PySlice.adjust1
  simp
  split <;> simp_all <;> omega

/-- canonicalising canonical read items changes nothing that `predict_shape` looks at -/
theorem canon_read (rs : List ReadItem) : ∀ (shape : List Nat), ReadCanon rs shape →
    ∃ items, canonLoop true (rs.map readToIdx) shape = .ok items ∧ predictLoop items shape = readShape rs shape := by
  induction rs with
  | nil =>
    intro shape hc
    cases shape with
    | nil => exact ⟨[], rfl, rfl⟩
    | cons n sh => exact hc.elim
  | cons r rest ih =>
    intro shape hc
    cases r with
    | newaxis =>
      rw [readCanon_newaxis] at hc
      obtain ⟨items, e1, e2⟩ := ih shape hc
      refine ⟨.newaxis :: items, ?_, ?_⟩
      · simp only [List.map_cons, readToIdx, canonLoop_newaxis, e1]; rfl
      · rw [readShape_newaxis, ← e2]; cases shape <;> rfl
    | int i =>
      cases shape with
      | nil => exact hc.elim
      | cons n sh =>
        rw [readCanon_cons _ _ _ _ (by intro h; cases h)] at hc
        obtain ⟨items, e1, e2⟩ := ih sh hc.2
        have hci : canonItem n true (.int i) = .ok (.int i) := by
          have := hc.1
          simp only [ReadItem.Canon] at this
          unfold canonItem
          have h1 : ¬ i < 0 := by omega
          have h2 : ¬ (i ≥ (n : Int)) := by omega
          simp [h1, h2]
        refine ⟨.int i :: items, ?_, ?_⟩
        · simp only [List.map_cons, readToIdx]
          rw [canonLoop_cons _ _ _ _ _ (by intro h; cases h) (by intro h; cases h), hci, e1]; rfl
        · rw [readShape_int, ← e2]; rfl
    | full =>
      cases shape with
      | nil => exact hc.elim
      | cons n sh =>
        rw [readCanon_cons _ _ _ _ (by intro h; cases h)] at hc
        obtain ⟨items, e1, e2⟩ := ih sh hc.2
        have hci : canonItem n true (.slice pySliceNone) = .ok (.slice pySliceNone) := by
          unfold canonItem; simp
        refine ⟨.slice pySliceNone :: items, ?_, ?_⟩
        · simp only [List.map_cons, readToIdx]
          rw [canonLoop_cons _ _ _ _ _ (by intro h; cases h) (by intro h; cases h), hci, e1]; rfl
        · rw [readShape_full, ← e2]; rfl
    | slice a b c =>
      cases shape with
      | nil => exact hc.elim
      | cons n sh =>
        rw [readCanon_cons _ _ _ _ (by intro h; cases h)] at hc
        obtain ⟨items, e1, e2⟩ := ih sh hc.2
        by_cases hfull : b = (n : Int) ∧ a = 0 ∧ c = 1
        · obtain ⟨rfl, rfl, rfl⟩ := hfull
          have hci : canonItem n true (.slice ⟨some 0, some (n : Int), some 1⟩) = .ok (.slice pySliceNone) := by
            unfold canonItem; simp [pySliceNone]
          refine ⟨.slice pySliceNone :: items, ?_, ?_⟩
          · simp only [List.map_cons, readToIdx]
            rw [canonLoop_cons _ _ _ _ _ (by intro h; cases h) (by intro h; cases h), hci, e1]; rfl
          · rw [readShape_slice, ← e2, slice2len_full_range]
            show slice2len pySliceNone n :: _ = _
            simp [slice2len]
        · have hci : canonItem n true (.slice ⟨some a, some b, some c⟩) = .ok (.slice ⟨some a, some b, some c⟩) := by
            unfold canonItem
            have : ¬ ((some b = some (n : Int)) ∧ (some a = Option.none ∨ some a = some 0) ∧
                (some c = Option.none ∨ some c = some 1)) := by
              rintro ⟨h1, h2, h3⟩
              apply hfull
              refine ⟨by simpa using h1, ?_, ?_⟩
              · rcases h2 with h | h
                · cases h
                · simpa using h
              · rcases h3 with h | h
                · cases h
                · simpa using h
            simp only [pySliceNone, this, if_false]
            simp
          refine ⟨.slice ⟨some a, some b, some c⟩ :: items, ?_, ?_⟩
          · simp only [List.map_cons, readToIdx]
            rw [canonLoop_cons _ _ _ _ _ (by intro h; cases h) (by intro h; cases h), hci, e1]; rfl
          · rw [readShape_slice, ← e2]; rfl

theorem predictShape_read (rs : List ReadItem) (shape : List Nat) (hc : ReadCanon rs shape) :
    predictShape (rs.map readToIdx) shape = .ok (readShape rs shape) := by
  obtain ⟨items, e1, e2⟩ := canon_read rs shape hc
  unfold predictShape canonicalSlicers
  simp [e1, e2, bind, Except.bind, pure, Except.pure]

abbrev DLoc := Gen.C06F.calc_slicedefs_Locals

def isFullPost : PostItem → Bool
  | .slice s => decide (s = pySliceNone)
  | _ => false

theorem pyEq_ofPost_full (p : PostItem) : pyEq (ofPost p) (slice1 V.none) = isFullPost p := by
  cases p with
  | int i => rfl
  | dropped => rfl
  | slice s => simp [ofPost, isFullPost, pyEq_ofPySlice_none]

def updA (s : DLoc) (a x : V) : DLoc := { s with _all1 := a, s_ := x }

/-- the `all(s == slice(None) for s in post_slicers)` loop -/
theorem dloop_eq (H : V → V → V → M V) (ps : List PostItem) : ∀ (s : DLoc) (b : Bool), s._all1 = .bool b →
    ∃ y, Gen.C06F.calc_slicedefs_loop1 H (ofList (ps.map ofPost)) s =
      .ok (.next (updA s (.bool (b && ps.all isFullPost)) y)) := by
  induction ps with
  | nil =>
    intro s b h
    refine ⟨s.s_, ?_⟩
    cases s
    simp_all [Gen.C06F.calc_slicedefs_loop1, updA]
  | cons p rest ih =>
    intro s b h
    have hb : Gen.C06F.calc_slicedefs_body1 H { s with s_ := ofPost p } =
        .ok (.next (updA s (.bool (b && isFullPost p)) (ofPost p))) := by
      unfold Gen.C06F.calc_slicedefs_body1
      simp only [pyEq_ofPost_full]
      cases hp : isFullPost p <;> simp [updA, h]
    obtain ⟨y, hy⟩ := ih (updA s (.bool (b && isFullPost p)) (ofPost p)) (b && isFullPost p) rfl
    refine ⟨y, ?_⟩
    simp only [List.map_cons, ofList_cons, Gen.C06F.calc_slicedefs_loop1, bind, Except.bind, hb, hy]
    simp [updA, Bool.and_assoc]

def ofOrder : Order → V
  | .C => .str "C"
  | .F => .str "F"

theorem strIn_order (o : Order) : strInV (ofOrder o) "CF" = .ok true := by
  cases o <;> decide

theorem ofShape_reverse (l : List Nat) : reversed (ofShape l) = .ok (ofShape l.reverse) := by
  unfold ofShape
  rw [reversed_ofList, List.map_reverse]

theorem readCanon_valid (rs : List ReadItem) : ∀ (shape : List Nat), ReadCanon rs shape →
    ∀ s, IdxItem.slice s ∈ rs.map readToIdx → s.Valid := by
  induction rs with
  | nil => intro shape _ s hm; cases hm
  | cons r rest ih =>
    intro shape hc s hm
    cases r with
    | newaxis =>
      rw [readCanon_newaxis] at hc
      simp only [List.map_cons, readToIdx, List.mem_cons] at hm
      rcases hm with h | h
      · cases h
      · exact ih shape hc s h
    | int i =>
      cases shape with
      | nil => exact hc.elim
      | cons n sh =>
        rw [readCanon_cons _ _ _ _ (by intro h; cases h)] at hc
        simp only [List.map_cons, readToIdx, List.mem_cons] at hm
        rcases hm with h | h
        · cases h
        · exact ih sh hc.2 s h
    | full =>
      cases shape with
      | nil => exact hc.elim
      | cons n sh =>
        rw [readCanon_cons _ _ _ _ (by intro h; cases h)] at hc
        simp only [List.map_cons, readToIdx, List.mem_cons] at hm
        rcases hm with h | h
        · cases h; decide
        · exact ih sh hc.2 s h
    | slice a b c =>
      cases shape with
      | nil => exact hc.elim
      | cons n sh =>
        rw [readCanon_cons _ _ _ _ (by intro h; cases h)] at hc
        simp only [List.map_cons, readToIdx, List.mem_cons] at hm
        rcases hm with h | h
        · cases h
          have : 0 < c := hc.1.1
          show (c : Int) ≠ 0
          omega
        · exact ih sh hc.2 s h

theorem itemsWF_valid' : ∀ (items : List Item) (shape : List Nat), ItemsWF items shape → ItemsValid items
  | [], _, _ => fun s hm => by cases hm
  | .newaxis :: rest, shape, h => by
      have h' : ItemsWF rest shape := by cases shape <;> exact h
      intro s hm
      cases hm with
      | tail _ hm => exact itemsWF_valid' rest shape h' s hm
  | .int i :: rest, [], h => by cases h
  | .slice sl :: rest, [], h => by cases h
  | .int i :: rest, n :: shape, h => by
      intro s hm
      cases hm with
      | tail _ hm => exact itemsWF_valid' rest shape h.2 s hm
  | .slice sl :: rest, n :: shape, h => by
      intro s hm
      cases hm with
      | head => exact h.1
      | tail _ hm => exact itemsWF_valid' rest shape h.2 s hm

theorem itemsValid_orient (o : Order) (items : List Item) (h : ItemsValid items) : ItemsValid (orient o items) := by
  cases o
  · intro s hm; exact h s (by simpa [orient] using hm)
  · exact h

theorem itemsWF_orient (o : Order) (items : List Item) (shape : List Nat) (h : ItemsWF items shape) :
    ItemsWF (orient o items) (orient o shape) := by
  cases o
  · exact itemsWF_reverse items shape h
  · exact h

/-- **calc_slicedefs**: the function translated from the source computes the model's slice definitions
    (segments, read shape, post slicers; C order handled by reversal; post slicers dropped when they are the
    identity) and raises whenever the model does -/
theorem gen_calc_slicedefs_eq (h : Heuristic) (idx : List IdxItem) (shape : List Nat) (isz off : Nat) (o : Order)
    (hv : ∀ s, IdxItem.slice s ∈ idx → s.Valid) :
    match calcSlicedefs h idx shape isz off o with
    | .ok d => Gen.C06F.calc_slicedefs (ofList (idx.map ofIdx)) (ofShape shape) (.int (isz : Int)) (.int (off : Int))
          (ofOrder o) (liftH h) =
        .ok (.tup3 (ofSegs d.segments) (ofShape (orient o d.readShape))
              (ofList ((if d.post.all isFullPost then [] else orient o d.post).map ofPost)))
    | .error _ => ∃ e, Gen.C06F.calc_slicedefs (ofList (idx.map ofIdx)) (ofShape shape) (.int (isz : Int))
          (.int (off : Int)) (ofOrder o) (liftH h) = .error e := by
  have hcan := gen_canonical_slicers_eq idx shape true
  unfold calcSlicedefs canonicalSlicers
  unfold Gen.C06F.calc_slicedefs
  simp only [strIn_order, bind_ok, pure_eq_ok, Bool.not_true, Bool.false_eq_true, if_false]
  cases hres : canonLoop true idx shape with
  | error e =>
    rw [hres] at hcan
    obtain ⟨e', he'⟩ := hcan
    exact ⟨e', by simp [he']⟩
  | ok items =>
    rw [hres] at hcan
    have hwf := canonLoop_wf idx shape items hv hres
    have hwfo := itemsWF_orient o items shape hwf
    have hvalid := itemsValid_orient o items (itemsWF_valid' items shape hwf)
    have hopt := gen_optimize_read_slicers_eq h (orient o items) (orient o shape) isz hvalid
    simp only [hcan, bind_ok]
    have hrev1 : reversed (ofList (items.map ofItem)) = .ok (ofList (items.reverse.map ofItem)) := by
      rw [reversed_ofList, List.map_reverse]
    cases hopt' : optimizeLoop h (orient o items) (orient o shape) isz true with
    | error e =>
      rw [hopt'] at hopt
      simp only [bind, Except.bind, hopt']
      refine ⟨mapErr e, ?_⟩
      cases o <;> simp_all [ofOrder, orient, pyEq, ofShape_reverse, bind, Except.bind]
    | ok rp =>
      obtain ⟨rs, ps⟩ := rp
      rw [hopt'] at hopt
      have hrc := optimizeLoop_readCanon h (orient o items) (orient o shape) isz true rs ps hwfo hopt'
      have hseg := gen_slicers2segments_eq rs (orient o shape) off isz hrc
      have hpred : Gen.C06F.predict_shape (ofList (rs.map ofRead)) (ofShape (orient o shape)) =
          .ok (ofShape (readShape rs (orient o shape))) := by
        have e0 : rs.map ofRead = (rs.map readToIdx).map ofIdx := by
          simp [List.map_map, Function.comp_def, ofRead_eq_ofIdx]
        rw [e0]
        have := gen_predict_shape_eq (rs.map readToIdx) (orient o shape) (readCanon_valid rs _ hrc)
        rw [predictShape_read rs _ hrc] at this
        exact this
      simp only [bind, Except.bind, pure, Except.pure, hopt']
      cases o
      · -- C order
        simp only [orient] at hopt hseg hpred hrc ⊢
        obtain ⟨y, hl⟩ := dloop_eq (liftH h) ps
          ⟨ofList (items.reverse.map ofItem), ofShape shape.reverse, .int (isz : Int), .int (off : Int), .str "C",
            ofList (rs.map ofRead), ofList (ps.map ofPost), ofSegs (slicers2segments rs shape.reverse off isz),
            .bool true, .none, .none⟩ true rfl
        have hrs : reversed (ofShape (readShape rs shape.reverse)) = .ok (ofShape (readShape rs shape.reverse).reverse) :=
          ofShape_reverse _
        have hrp : reversed (ofList (ps.map ofPost)) = .ok (ofList (ps.reverse.map ofPost)) := by
          rw [reversed_ofList, List.map_reverse]
        simp only [List.map_reverse] at hopt hl hrev1 hrp
        simp [ofOrder, pyEq, hrev1, ofShape_reverse, hopt, hseg, hl, updA, hpred, hrs, hrp]
        have hnil : reversed V.nil = .ok V.nil := rfl
        have hasl : ∀ l : List Nat, asList (ofShape l) = .ok (ofShape l) := fun l => by simp [ofShape]
        have hnila : asList V.nil = .ok V.nil := rfl
        simp [hnil, hrp, hrs, ofSegs, reversed_ofList, List.map_reverse, hasl, hnila]
        split <;> simp [hasl, hnila, List.map_reverse]
      · -- F order
        simp only [orient] at hopt hseg hpred hrc ⊢
        obtain ⟨y, hl⟩ := dloop_eq (liftH h) ps
          ⟨ofList (items.map ofItem), ofShape shape, .int (isz : Int), .int (off : Int), .str "F",
            ofList (rs.map ofRead), ofList (ps.map ofPost), ofSegs (slicers2segments rs shape off isz),
            .bool true, .none, .none⟩ true rfl
        have hasl : ∀ l : List Nat, asList (ofShape l) = .ok (ofShape l) := fun l => by simp [ofShape]
        have hnila : asList V.nil = .ok V.nil := rfl
        simp [ofOrder, pyEq, hopt, hseg, hl, updA, hpred, hasl, hnila]
        split <;> simp [hasl, hnila, ofSegs]

end Nb.C06
