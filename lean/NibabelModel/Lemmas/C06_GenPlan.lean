/-
  Lemmas/C06_GenPlan — `predict_shape` and `calc_slicedefs` translated from the CURRENT source of
  nibabel/fileslice.py equal the model (`predictShape`, `calcSlicedefs`).  Core Lean only.
-/
import NibabelModel.Lemmas.C06_GenCanon
import NibabelModel.Lemmas.C06_Whole
set_option linter.unusedSimpArgs false
namespace Nb.C06
open Nb.Py Nb.Py.V

abbrev PLoc := Gen.C06F.predict_shape_Locals

def ofNats (l : List Nat) : List V := l.map (fun (n : Nat) => V.int (n : Int))

theorem ofShape_eq (l : List Nat) : ofShape l = ofList (ofNats l) := rfl

def updP (s : PLoc) (sl rn os : V) : PLoc := { s with slicer := sl, real_no := rn, out_shape := os }

/-- loop of the translated `predict_shape` over canonical items -/
theorem ploop_eq (items : List Item) : ∀ (s : PLoc) (full : List Nat) (k : Nat) (acc : List Nat),
    ItemsWF items (full.drop k) → s.in_shape = ofShape full → s.real_no = .int (k : Int) →
    s.out_shape = ofList (ofNats acc) →
    ∃ s', Gen.C06F.predict_shape_loop1 (ofList (items.map ofItem)) s = .ok (.next s') ∧
      s'.out_shape = ofList (ofNats (acc ++ predictLoop items (full.drop k))) := by
  induction items with
  | nil =>
    intro s full k acc _ _ _ ho
    refine ⟨s, rfl, ?_⟩
    have : predictLoop [] (full.drop k) = [] := by cases full.drop k <;> rfl
    simp [this, ho]
  | cons it rest ih =>
    intro s full k acc hwf hs hr ho
    cases it with
    | newaxis =>
      have hwf' : ItemsWF rest (full.drop k) := by rw [itemsWF_newaxis] at hwf; exact hwf
      have hb : Gen.C06F.predict_shape_body1 { s with slicer := V.none } =
          .ok (.next { s with slicer := V.none, out_shape := ofList (ofNats (acc ++ [1])) }) := by
        unfold Gen.C06F.predict_shape_body1
        simp [ho, ofNats]
      obtain ⟨s', e1, e2⟩ := ih { s with slicer := V.none, out_shape := ofList (ofNats (acc ++ [1])) } full k (acc ++ [1]) hwf' hs hr rfl
      refine ⟨s', ?_, ?_⟩
      · simp only [List.map_cons, ofList_cons, ofItem, Gen.C06F.predict_shape_loop1, bind, Except.bind, hb, e1]
      · rw [e2]
        have : predictLoop (.newaxis :: rest) (full.drop k) = 1 :: predictLoop rest (full.drop k) := by
          cases full.drop k <;> rfl
        simp [this]
    | int i =>
      cases hd : full.drop k with
      | nil => rw [hd] at hwf; exact hwf.elim
      | cons n shape =>
        rw [hd] at hwf
        rw [itemsWF_cons _ _ _ _ (by intro hc; cases hc)] at hwf
        obtain ⟨hg, hdrop, _⟩ := drop_head full k n shape hd
        have hb : Gen.C06F.predict_shape_body1 { s with slicer := ofItem (Item.int i) } =
            .ok (.next (updP s (V.int i) (.int ((k + 1 : Nat) : Int)) (ofList (ofNats (acc ++ []))))) := by
          unfold Gen.C06F.predict_shape_body1
          simp [ofItem, hr, ho, updP]
        obtain ⟨s', e1, e2⟩ := ih (updP s (V.int i) (.int ((k + 1 : Nat) : Int)) (ofList (ofNats (acc ++ [])))) full (k + 1) (acc ++ [])
            (by rw [hdrop]; exact hwf.2) hs rfl rfl
        refine ⟨s', ?_, ?_⟩
        · simp only [List.map_cons, ofList_cons, Gen.C06F.predict_shape_loop1, bind, Except.bind, hb, e1]
        · rw [e2, hdrop]
          simp [predictLoop]
    | slice sl =>
      cases hd : full.drop k with
      | nil => rw [hd] at hwf; exact hwf.elim
      | cons n shape =>
        rw [hd] at hwf
        rw [itemsWF_cons _ _ _ _ (by intro hc; cases hc)] at hwf
        obtain ⟨hg, hdrop, _⟩ := drop_head full k n shape hd
        have hb : Gen.C06F.predict_shape_body1 { s with slicer := ofItem (Item.slice sl) } =
            .ok (.next (updP s (ofPySlice sl) (.int ((k + 1 : Nat) : Int)) (ofList (ofNats (acc ++ [slice2len sl n]))))) := by
          unfold Gen.C06F.predict_shape_body1
          have h1 : isNone (ofPySlice sl) = false := by obtain ⟨a, b, c⟩ := sl; rfl
          have h2 : toInt (ofPySlice sl) = .error .typeError := rfl
          have h3 := gen_slice2len_eq sl n hwf.1
          have hk : ((k : Int) + 1 - 1) = (k : Int) := by omega
          simp only [ofItem, h1, h2]
          simp [hr, ho, hs, hk, ofShape_get, hg, h3, ofNats, updP]
        obtain ⟨s', e1, e2⟩ := ih (updP s (ofPySlice sl) (.int ((k + 1 : Nat) : Int)) (ofList (ofNats (acc ++ [slice2len sl n])))) full (k + 1) (acc ++ [slice2len sl n])
            (by rw [hdrop]; exact hwf.2) hs rfl rfl
        refine ⟨s', ?_, ?_⟩
        · simp only [List.map_cons, ofList_cons, Gen.C06F.predict_shape_loop1, bind, Except.bind, hb, e1]
        · rw [e2, hdrop]
          simp [predictLoop]

/-- **predict_shape**: the function translated from the source returns the model's predicted shape
    (which `predict_shape_spec` proves equal to the shape of NumPy indexing) and raises when the model does -/
theorem gen_predict_shape_eq (idx : List IdxItem) (shape : List Nat)
    (hv : ∀ s, IdxItem.slice s ∈ idx → s.Valid) :
    match predictShape idx shape with
    | .ok sh => Gen.C06F.predict_shape (ofList (idx.map ofIdx)) (ofShape shape) = .ok (ofShape sh)
    | .error _ => ∃ e, Gen.C06F.predict_shape (ofList (idx.map ofIdx)) (ofShape shape) = .error e := by
  have hseq : isSeq (ofList (idx.map ofIdx)) = true := by cases idx <;> rfl
  have hc := gen_canonical_slicers_eq idx shape true
  unfold predictShape canonicalSlicers
  unfold Gen.C06F.predict_shape
  simp only [hseq, truthy_bool, Bool.not_true, Bool.false_eq_true, if_false, bind_ok, pure_eq_ok]
  cases hres : canonLoop true idx shape with
  | error e =>
    rw [hres] at hc
    obtain ⟨e', he'⟩ := hc
    exact ⟨e', by simp [he']⟩
  | ok items =>
    rw [hres] at hc
    have hwf := canonLoop_wf idx shape items hv hres
    obtain ⟨s', e1, e2⟩ := ploop_eq items
      ⟨ofList (items.map ofItem), ofShape shape, .nil, .int 0, .none⟩ shape 0 [] (by simpa using hwf) rfl rfl rfl
    simp only [bind, Except.bind, pure, Except.pure, hc, asList_ofList, e1, e2, List.nil_append, List.drop_zero]
    rfl

end Nb.C06
