import NibabelModel.Model.C14
import NibabelModel.Lemmas.C14_Topo
/-! Lemmas/C14_Handles — handle/lock topology of proxy families (`Fam`): the invariant behind
    "same handle ⇒ same lock" for every history, and the run-time invariant of the small-step model
    "no NEW sharing of a persistent opener between proxies arises while threads run".  Core tactics only. -/
namespace Nb.C14

/-- invariant of a family (all histories from any root) -/
structure FInv (f : Fam) : Prop where
  pos    : 0 < f.n
  famLe  : ∀ i, i < f.n → f.fam i ≤ i
  openLt : ∀ i h, i < f.n → f.opener i = some h → h < f.nopen
  /-- two different proxies holding the same opener object are never in one copy()-family -/
  openFam : ∀ i j h, i < f.n → j < f.n → i ≠ j → f.opener i = some h → f.opener j = some h → f.fam i ≠ f.fam j
  /-- over a caller-supplied handle the lock IS the copy()-family, over a file name it is private -/
  lockH  : ∀ i, i < f.n → f.kind i = .handle → f.lock i = f.fam i
  lockN  : ∀ i, i < f.n → f.kind i ≠ .handle → f.lock i = i
  /-- a family is over a handle object or over a file name, never mixed -/
  kindU  : ∀ i, i < f.n → (f.kind i = .handle ↔ f.kind 0 = .handle)
  /-- proxies that do not exist hold no opener -/
  openDom : ∀ i, f.n ≤ i → f.opener i = none

theorem finv_root (k : HKind) : FInv (Fam.root k) := by
  refine ⟨by simp [Fam.root], ?_, ?_, ?_, ?_, ?_, ?_, ?_⟩
  · intro i hi; simp [Fam.root]
  · intro i h _ ho; simp [Fam.root] at ho
  · intro i j h _ _ _ ho; simp [Fam.root] at ho
  · intro i hi _; simp [Fam.root]
  · intro i hi _; simp [Fam.root] at hi ⊢; omega
  · intro i _; simp [Fam.root]
  · intro i _; simp [Fam.root]

theorem reshapeKind_handle (igz : Bool) (k : HKind) : reshapeKind igz k = .handle ↔ k = .handle := by
  cases k <;> cases igz <;> simp [reshapeKind]

/-- adding one proxy (number `f.n`) whose copy()-family, lock, kind and opener satisfy the local conditions -/
theorem finv_add (f : Fam) (h : FInv f) (l fm : Nat) (k : HKind) (o : Option Nat)
    (hfm : fm ≤ f.n)
    (ho : ∀ x, o = some x → x < f.nopen)
    (hof : ∀ j x, j < f.n → o = some x → f.opener j = some x → fm ≠ f.fam j)
    (hlH : k = .handle → l = fm) (hlN : k ≠ .handle → l = f.n)
    (hk : k = .handle ↔ f.kind 0 = .handle) :
    FInv { f with n := f.n + 1, lock := upd f.lock f.n l, fam := upd f.fam f.n fm, kind := upd f.kind f.n k,
                  opener := upd f.opener f.n o } := by
  have hp := h.pos
  refine ⟨by simp, ?_, ?_, ?_, ?_, ?_, ?_, ?_⟩
  · intro i hi
    by_cases e : i = f.n
    · subst e; simpa [upd] using hfm
    · simp only [upd, if_neg e]; exact h.famLe i (by simp at hi; omega)
  · intro i x hi hx
    by_cases e : i = f.n
    · subst e; simp [upd] at hx; exact ho x hx
    · simp only [upd, if_neg e] at hx; exact h.openLt i x (by simp at hi; omega) hx
  · intro i j x hi hj hij hoi hoj
    simp only at hi hj
    by_cases ei : i = f.n
    · subst ei
      have ej : j ≠ f.n := fun e => hij e.symm
      simp only [upd, if_neg ej, if_true] at hoi hoj ⊢
      exact hof j x (by omega) hoi hoj
    · by_cases ej : j = f.n
      · subst ej
        simp only [upd, if_neg ei, if_true] at hoi hoj ⊢
        exact fun e => hof i x (by omega) hoj hoi e.symm
      · simp only [upd, if_neg ei, if_neg ej] at hoi hoj ⊢
        exact h.openFam i j x (by omega) (by omega) hij hoi hoj
  · intro i hi hki
    simp only at hi
    by_cases e : i = f.n
    · subst e; simp only [upd, if_true] at hki ⊢; exact hlH hki
    · simp only [upd, if_neg e] at hki ⊢; exact h.lockH i (by omega) hki
  · intro i hi hki
    simp only at hi
    by_cases e : i = f.n
    · subst e; simp only [upd, if_true] at hki ⊢; exact hlN hki
    · simp only [upd, if_neg e] at hki ⊢; exact h.lockN i (by omega) hki
  · intro i hi
    simp only at hi
    have h0 : (0 : Nat) ≠ f.n := by omega
    by_cases e : i = f.n
    · subst e; simp only [upd, if_true, if_neg h0]; exact hk
    · simp only [upd, if_neg e, if_neg h0]; exact h.kindU i (by omega)
  · intro i hi
    simp only at hi
    have e : i ≠ f.n := by omega
    simp only [upd, if_neg e]; exact h.openDom i (by omega)

/-- the invariant is preserved by every valid step -/
theorem finv_step (igz : Bool) (f : Fam) (h : FInv f) (op : HOp) (hv : op.valid f.n = true) :
    FInv (f.step igz op) := by
  cases op with
  | derive d =>
    simp only [HOp.valid, decide_eq_true_eq] at hv
    cases d with
    | copy s =>
      simp only [POp.src] at hv
      simp only [Fam.step]
      apply finv_add f h
      · have := h.famLe s hv; omega
      · intro x hx; cases hx
      · intro j x _ hx; cases hx
      · intro hk; simp [copyLock, hk, h.lockH s hv hk]
      · intro hk
        have : (f.kind s == HKind.handle) = false := by simpa using hk
        simp [copyLock, this]
      · exact h.kindU s hv
    | reshape s =>
      simp only [POp.src] at hv
      simp only [Fam.step]
      apply finv_add f h
      · omega
      · intro x hx; cases hx
      · intro j x _ hx; cases hx
      · intro _; simp [reshapeLock]
      · intro _; simp [reshapeLock]
      · rw [reshapeKind_handle]; exact h.kindU s hv
    | setstate s =>
      simp only [POp.src] at hv
      simp only [Fam.step]
      apply finv_add f h
      · omega
      · intro x hx; exact h.openLt s x hv hx
      · intro j x hj _ _ e
        have := h.famLe j hj
        omega
      · intro _; simp [setstateLock]
      · intro _; simp [setstateLock]
      · exact h.kindU s hv
  | ctor =>
    simp only [Fam.step]
    apply finv_add f h
    · omega
    · intro x hx; cases hx
    · intro j x _ hx; cases hx
    · intro _; rfl
    · intro _; rfl
    · exact Iff.rfl
  | use p =>
    simp only [HOp.valid, decide_eq_true_eq] at hv
    simp only [Fam.step]
    cases hk : f.kind p with
    | handle => exact h
    | perRead =>
      exact ⟨h.pos, h.famLe, fun i x hi hx => Nat.lt_succ_of_lt (h.openLt i x hi hx), h.openFam, h.lockH, h.lockN,
        h.kindU, h.openDom⟩
    | persist =>
      cases ho : f.opener p with
      | some x => exact h
      | none =>
        refine ⟨h.pos, h.famLe, ?_, ?_, h.lockH, h.lockN, h.kindU, ?_⟩
        · intro i x hi hx
          simp only at hx ⊢
          by_cases e : i = p
          · subst e; simp [upd] at hx; omega
          · simp only [upd, if_neg e] at hx; exact Nat.lt_succ_of_lt (h.openLt i x hi hx)
        · intro i j x hi hj hij hoi hoj
          simp only at hoi hoj hi hj ⊢
          by_cases ei : i = p
          · subst ei
            have ej : j ≠ i := fun e => hij e.symm
            simp only [upd, if_neg ej, if_true] at hoi hoj
            have := h.openLt j x hj hoj
            cases hoi; omega
          · by_cases ej : j = p
            · subst ej
              simp only [upd, if_neg ei, if_true] at hoi hoj
              have := h.openLt i x hi hoi
              cases hoj; omega
            · simp only [upd, if_neg ei, if_neg ej] at hoi hoj
              exact h.openFam i j x hi hj hij hoi hoj
        · intro i hi
          simp only at hi ⊢
          have e : i ≠ p := by omega
          simp only [upd, if_neg e]; exact h.openDom i hi

theorem finv_run (igz : Bool) (ops : List HOp) : ∀ f, FInv f → validHist igz f ops = true →
    FInv (f.run igz ops) := by
  induction ops with
  | nil => intro f h _; exact h
  | cons op r ih =>
    intro f h hv
    simp only [validHist, Bool.and_eq_true] at hv
    simp only [Fam.run, List.foldl_cons]
    exact ih _ (finv_step igz f h op hv.1) hv.2

/-- over a file name two different proxies can only be on the same handle through a shared opener OBJECT -/
theorem handleOf_eq_name (f : Fam) (i j : Nat) (hki : f.kind i ≠ .handle) (hkj : f.kind j ≠ .handle)
    (hh : f.handleOf i = f.handleOf j) : i = j ∨ ∃ x, f.opener i = some x ∧ f.opener j = some x := by
  unfold Fam.handleOf at hh
  cases hki' : f.kind i with
  | handle => exact absurd hki' hki
  | perRead =>
    cases hkj' : f.kind j with
    | handle => exact absurd hkj' hkj
    | perRead => simp [hki', hkj'] at hh; exact .inl hh
    | persist => simp only [hki', hkj'] at hh; cases ho : f.opener j <;> simp [ho] at hh; exact .inl hh
  | persist =>
    cases hoi : f.opener i with
    | none =>
      cases hkj' : f.kind j with
      | handle => exact absurd hkj' hkj
      | perRead => simp [hki', hkj', hoi] at hh; exact .inl hh
      | persist => simp only [hki', hkj', hoi] at hh; cases ho : f.opener j <;> simp [ho] at hh; exact .inl hh
    | some x =>
      cases hkj' : f.kind j with
      | handle => exact absurd hkj' hkj
      | perRead => simp [hki', hkj', hoi] at hh
      | persist =>
        simp only [hki', hkj', hoi] at hh
        cases ho : f.opener j with
        | none => simp [ho] at hh
        | some y => simp [ho] at hh; subst hh; exact .inr ⟨_, rfl, rfl⟩

/-- the core: inside one copy()-family, two proxies that can end up on the same OS-level handle use the same lock -/
theorem finv_shared (f : Fam) (h : FInv f) (i j : Nat) (hi : i < f.n) (hj : j < f.n)
    (hfam : f.fam i = f.fam j) (hh : f.handleOf i = f.handleOf j) : f.lock i = f.lock j := by
  by_cases hk : f.kind i = .handle
  · have hkj : f.kind j = .handle := (h.kindU j hj).2 ((h.kindU i hi).1 hk)
    rw [h.lockH i hi hk, h.lockH j hj hkj, hfam]
  · have hkj : f.kind j ≠ .handle := fun e => hk ((h.kindU i hi).2 ((h.kindU j hj).1 e))
    rw [h.lockN i hi hk, h.lockN j hj hkj]
    rcases handleOf_eq_name f i j hk hkj hh with e | ⟨x, hoi, hoj⟩
    · exact e
    · by_cases e : i = j
      · exact e
      · exact absurd hfam (h.openFam i j x hi hj e hoi hoj)

/-- no two proxies hold the same opener object -/
def OInj (f : Fam) : Prop := ∀ i j x, i < f.n → j < f.n → f.opener i = some x → f.opener j = some x → i = j

theorem oinj_root (k : HKind) : OInj (Fam.root k) := by
  intro i j x _ _ ho; simp [Fam.root] at ho

/-- steps other than `copy.copy()`/unpickling never make two proxies hold one opener object -/
theorem oinj_step (igz : Bool) (f : Fam) (h : FInv f) (hi : OInj f) (op : HOp) (hv : op.valid f.n = true)
    (hns : ∀ s, op ≠ .derive (.setstate s)) : OInj (f.step igz op) := by
  have addNone : ∀ (l fm : Nat) (k : HKind),
      OInj { f with n := f.n + 1, lock := upd f.lock f.n l, fam := upd f.fam f.n fm, kind := upd f.kind f.n k,
                    opener := upd f.opener f.n none } := by
    intro l fm k i j x hi' hj' hoi hoj
    simp only at hi' hj' hoi hoj
    by_cases ei : i = f.n
    · subst ei; simp [upd] at hoi
    · by_cases ej : j = f.n
      · subst ej; simp [upd] at hoj
      · simp only [upd, if_neg ei, if_neg ej] at hoi hoj
        exact hi i j x (by omega) (by omega) hoi hoj
  cases op with
  | derive d =>
    cases d with
    | copy s => exact addNone _ _ _
    | reshape s => exact addNone _ _ _
    | setstate s => exact absurd rfl (hns s)
  | ctor => exact addNone _ _ _
  | use p =>
    simp only [Fam.step]
    cases hk : f.kind p with
    | handle => exact hi
    | perRead => exact hi
    | persist =>
      cases ho : f.opener p with
      | some x => exact hi
      | none =>
        intro i j x hi' hj' hoi hoj
        simp only at hi' hj' hoi hoj
        by_cases ei : i = p
        · by_cases ej : j = p
          · rw [ei, ej]
          · subst ei
            simp only [upd, if_neg ej, if_true] at hoi hoj
            have := h.openLt j x hj' hoj
            cases hoi; omega
        · by_cases ej : j = p
          · subst ej
            simp only [upd, if_neg ei, if_true] at hoi hoj
            have := h.openLt i x hi' hoi
            cases hoj; omega
          · simp only [upd, if_neg ei, if_neg ej] at hoi hoj
            exact hi i j x hi' hj' hoi hoj

theorem copyLike_not_setstate (k : HKind) (op : HOp) (h : op.copyLike k = true) : ∀ s, op ≠ .derive (.setstate s) := by
  intro s e; subst e; simp [HOp.copyLike] at h

theorem oinj_run (igz : Bool) (k : HKind) (ops : List HOp) : ∀ f, FInv f → OInj f → validHist igz f ops = true →
    (∀ op ∈ ops, op.copyLike k = true) → OInj (f.run igz ops) := by
  induction ops with
  | nil => intro f _ h _ _; exact h
  | cons op r ih =>
    intro f h hi hv hc
    simp only [validHist, Bool.and_eq_true] at hv
    simp only [Fam.run, List.foldl_cons]
    exact ih _ (finv_step igz f h op hv.1)
      (oinj_step igz f h hi op hv.1 (copyLike_not_setstate k op (hc op (by simp)))) hv.2
      (fun o ho => hc o (by simp [ho]))

/-- copy-like histories keep everything in ONE family over a handle object -/
theorem copyLike_fam_zero (igz : Bool) (k : HKind) (ops : List HOp) : ∀ f, f.kind 0 = k →
    (k = .handle → ∀ i, i < f.n → f.fam i = 0) → validHist igz f ops = true → 0 < f.n →
    (∀ op ∈ ops, op.copyLike k = true) →
    (f.run igz ops).kind 0 = k ∧ (k = .handle → ∀ i, i < (f.run igz ops).n → (f.run igz ops).fam i = 0) := by
  induction ops with
  | nil => intro f hk h0 _ _ _; exact ⟨hk, h0⟩
  | cons op r ih =>
    intro f hk h0 hv hp hc
    simp only [validHist, Bool.and_eq_true] at hv
    simp only [Fam.run, List.foldl_cons]
    have hcl := hc op (by simp)
    have h0n : (0 : Nat) ≠ f.n := by omega
    apply ih (f.step igz op) _ _ hv.2 _ (fun o ho => hc o (by simp [ho]))
    · cases op with
      | derive d => cases d <;> simp [Fam.step, upd, h0n, hk]
      | ctor => simp [Fam.step, upd, h0n, hk]
      | use p =>
        simp only [Fam.step]
        cases f.kind p <;> cases f.opener p <;> simp [hk]
    · intro hh i hi
      cases op with
      | derive d =>
        cases d with
        | copy s =>
          simp only [HOp.valid, POp.src] at hv
          simp only [Fam.step] at hi ⊢
          by_cases e : i = f.n
          · subst e; simp only [upd, if_true]; exact h0 hh s (of_decide_eq_true hv.1)
          · simp only [upd, if_neg e]; exact h0 hh i (by omega)
        | reshape s => simp [HOp.copyLike] at hcl
        | setstate s => simp [HOp.copyLike] at hcl
      | ctor => simp [HOp.copyLike, hh] at hcl
      | use p =>
        simp only [Fam.step] at hi ⊢
        cases hkp : f.kind p <;> cases hop : f.opener p <;> simp only [hkp, hop] at hi ⊢ <;> exact h0 hh i hi
    · cases op with
      | derive d => cases d <;> simp [Fam.step]
      | ctor => simp [Fam.step]
      | use p => simp only [Fam.step]; cases f.kind p <;> cases f.opener p <;> simp [hp]

/-! ### tie to `proxyLocks` (the lock model of the derivation-history theorems) -/

theorem reshapeKind_beq (igz : Bool) (k : HKind) : (reshapeKind igz k == .handle) = (k == .handle) := by
  cases k <;> cases igz <;> rfl

theorem Fam.run_snoc (igz : Bool) (f : Fam) (ops : List HOp) (op : HOp) :
    f.run igz (ops ++ [op]) = (f.run igz ops).step igz op := by
  simp [Fam.run, List.foldl_append]

/-- derive-only histories: the family model agrees with `proxyLocks` (the lock model the exclusion theorems for
    derivation histories are stated over): the copy()-family of a proxy is its lock over a shared handle object,
    and its lock is that family over a handle object, its own index over a file name -/
theorem fam_eq_proxyLocks (igz : Bool) (k : HKind) (ops : List POp) : validOps 1 ops = true →
    let f := (Fam.root k).run igz (ops.map HOp.derive)
    f.n = ops.length + 1 ∧ (∀ i, i ≤ ops.length → f.fam i = (proxyLocks true ops).getD i 0) ∧
    (∀ i, i ≤ ops.length → f.lock i = (proxyLocks (k == .handle) ops).getD i 0) ∧
    (∀ i, i ≤ ops.length → (f.kind i == .handle) = (k == .handle)) := by
  induction ops using snoc_induction with
  | h0 =>
    intro _
    refine ⟨by simp [Fam.run, Fam.root], ?_, ?_, ?_⟩ <;> intro i hi <;> simp at hi <;> subst hi <;>
      simp [Fam.run, Fam.root, proxyLocks]
  | hs l a ih =>
    intro hv
    rw [validOps_snoc] at hv
    simp only [Bool.and_eq_true, decide_eq_true_eq] at hv
    obtain ⟨hn, hf, hl, hk⟩ := ih hv.1
    simp only [List.map_append, List.map_cons, List.map_nil, Fam.run_snoc]
    generalize hg : (Fam.root k).run igz (l.map HOp.derive) = g at hn hf hl hk
    have hsrc : a.src ≤ l.length := by have := hv.2; omega
    have hlen : (l ++ [a]).length = l.length + 1 := by simp
    refine ⟨?_, ?_, ?_, ?_⟩
    · cases a <;> simp [Fam.step, hn]
    · intro i hi
      rw [hlen] at hi
      by_cases e : i ≤ l.length
      · rw [proxyLocks_getD_snoc true l a i e, ← hf i e]
        have : i ≠ g.n := by omega
        cases a <;> simp [Fam.step, upd, this]
      · have e' : i = l.length + 1 := by omega
        subst e'
        rw [proxyLocks_getD_new]
        cases a with
        | copy s => simp only [POp.src] at hsrc; simp [Fam.step, upd, hn, copyLock, hf s hsrc]
        | reshape s => simp [Fam.step, upd, hn, reshapeLock]
        | setstate s => simp [Fam.step, upd, hn, setstateLock]
    · intro i hi
      rw [hlen] at hi
      by_cases e : i ≤ l.length
      · rw [proxyLocks_getD_snoc _ l a i e, ← hl i e]
        have : i ≠ g.n := by omega
        cases a <;> simp [Fam.step, upd, this]
      · have e' : i = l.length + 1 := by omega
        subst e'
        rw [proxyLocks_getD_new]
        cases a with
        | copy s =>
          simp only [POp.src] at hsrc
          simp [Fam.step, upd, hn, hk s hsrc, hl s hsrc]
        | reshape s => simp [Fam.step, upd, hn, reshapeLock]
        | setstate s => simp [Fam.step, upd, hn, setstateLock]
    · intro i hi
      rw [hlen] at hi
      by_cases e : i ≤ l.length
      · rw [← hk i e]
        have : i ≠ g.n := by omega
        cases a <;> simp [Fam.step, upd, this]
      · have e' : i = l.length + 1 := by omega
        subst e'
        cases a with
        | copy s => simp only [POp.src] at hsrc; simp [Fam.step, upd, hn, hk s hsrc]
        | reshape s =>
          simp only [POp.src] at hsrc
          simp only [Fam.step, upd, hn, if_true]
          rw [reshapeKind_beq]; exact hk s hsrc
        | setstate s => simp only [POp.src] at hsrc; simp [Fam.step, upd, hn, hk s hsrc]

/-! ### run time: no new sharing of a persistent opener arises while threads run -/

/-- no `setSlot` without an `opn` directly before it (`po` = the previous action was an `opn`), and a `probe`
    never skips to a `setSlot`: a thread only ever publishes the handle it has JUST opened -/
def headNotSet : List Action → Bool
  | .setSlot _ :: _ => false
  | _ => true

def setOk : Bool → List Action → Bool
  | _, [] => true
  | po, .setSlot _ :: p => po && setOk false p
  | _, .opn :: p => setOk true p
  | _, .probe _ k :: p => headNotSet (p.drop k) && setOk false p
  | _, .acquire _ :: p => setOk false p
  | _, .release _ :: p => setOk false p
  | _, .seek _ :: p => setOk false p
  | _, .seekEnd :: p => setOk false p
  | _, .tell :: p => setOk false p
  | _, .read _ :: p => setOk false p
  | _, .getSlot _ :: p => setOk false p

theorem setOk_mono (p : List Action) : setOk false p = true → setOk true p = true := by
  cases p with
  | nil => intro _; rfl
  | cons a r => cases a <;> simp [setOk]

theorem setOk_tail (b : Bool) (a : Action) (p : List Action) (h : setOk b (a :: p) = true) : setOk true p = true := by
  cases a <;> simp [setOk] at h <;> first | exact h | exact setOk_mono p h | exact setOk_mono p h.2

theorem setOk_drop (k : Nat) : ∀ (b : Bool) (p : List Action), setOk b p = true → setOk true (p.drop k) = true := by
  induction k with
  | zero => intro b p h; cases b <;> simp <;> first | exact h | exact setOk_mono p h
  | succ k ih =>
    intro b p h
    cases p with
    | nil => rfl
    | cons a r => simp only [List.drop_succ_cons]; exact ih true r (setOk_tail b a r h)

theorem setOk_false_of_head (p : List Action) (h : setOk true p = true)
    (hh : headNotSet p = true) : setOk false p = true := by
  cases p with
  | nil => rfl
  | cons a r => cases a <;> simp [setOk, headNotSet] at h hh ⊢ <;> exact h

/-- run-time invariant: slot contents are handles that exist; a thread about to publish a handle (`setSlot` next)
    owns a handle opened after the start that is in no slot and is nobody else's; a slot holds either what it
    held at the start or a handle opened after the start that no OTHER slot holds -/
structure HInv (nh0 : Nat) (slot0 : Nat → Option Nat) (s : State) : Prop where
  nhLe   : nh0 ≤ s.nh
  slotLt : ∀ q h, s.slot q = some h → h < s.nh
  ok     : ∀ u, setOk true (s.threads u).prog = true
  pend   : ∀ u, setOk false (s.threads u).prog = false →
             nh0 ≤ (s.threads u).mine ∧ (s.threads u).mine < s.nh ∧ (∀ q, s.slot q ≠ some (s.threads u).mine) ∧
             (∀ v, v ≠ u → setOk false (s.threads v).prog = false → (s.threads v).mine ≠ (s.threads u).mine)
  priv   : ∀ p h, s.slot p = some h → (h < nh0 ∧ slot0 p = some h) ∨ (nh0 ≤ h ∧ ∀ q, s.slot q = some h → q = p)

theorem hinv_init (progs : Tid → List Action) (nh : Nat) (slot0 : Nat → Option Nat) (p0 : Nat → Nat)
    (hs : ∀ q h, slot0 q = some h → h < nh) (hp : ∀ t, setOk false (progs t) = true) :
    HInv nh slot0 (State.initS progs nh slot0 p0) := by
  refine ⟨Nat.le_refl _, hs, fun u => setOk_mono _ (hp u), ?_, ?_⟩
  · intro u h; simp [State.initS, hp u] at h
  · intro p h hh; exact .inl ⟨hs p h hh, hh⟩

/-- a step that only advances thread `u` to a program that does not start with a `setSlot` -/
theorem hinv_frame (nh0 : Nat) (slot0 : Nat → Option Nat) (s s' : State) (u : Tid) (h : HInv nh0 slot0 s)
    (hslot : s'.slot = s.slot) (hnh : s'.nh = s.nh)
    (hth : ∀ v, v ≠ u → s'.threads v = s.threads v) (hmine : (s'.threads u).mine = (s.threads u).mine)
    (hu : setOk false (s'.threads u).prog = true) : HInv nh0 slot0 s' := by
  refine ⟨by rw [hnh]; exact h.nhLe, by rw [hslot, hnh]; exact h.slotLt, ?_, ?_, by rw [hslot]; exact h.priv⟩
  · intro v
    by_cases e : v = u
    · subst e; exact setOk_mono _ hu
    · rw [hth v e]; exact h.ok v
  · intro v hv
    have e : v ≠ u := fun e => by subst e; rw [hu] at hv; cases hv
    rw [hth v e] at hv ⊢
    obtain ⟨a, b, c, d⟩ := h.pend v hv
    refine ⟨a, by rw [hnh]; exact b, by rw [hslot]; exact c, ?_⟩
    intro w hw hpw
    by_cases ew : w = u
    · subst ew; rw [hu] at hpw; cases hpw
    · rw [hth w ew] at hpw ⊢; exact d w hw hpw

theorem hinv_step (nh0 : Nat) (slot0 : Nat → Option Nat) (file : List Byte) (s : State) (h : HInv nh0 slot0 s)
    (u : Tid) : HInv nh0 slot0 (step file s u).1 := by
  have hok := h.ok u
  cases hp : (s.threads u).prog with
  | nil => simp only [step, hp]; exact h
  | cons a rest =>
    rw [hp] at hok
    have oth : ∀ (th : Thread) v, v ≠ u → upd s.threads u th v = s.threads v := fun th v hv => by simp [upd, hv]
    cases a
    case acquire l =>
      simp only [step, hp]
      simp only [setOk] at hok
      cases ho : s.owner l with
      | none => exact hinv_frame nh0 slot0 s _ u h rfl rfl (oth _) (by simp [upd]) (by simpa [upd] using hok)
      | some w =>
        by_cases hw : w = u
        · simp only [hw, ↓reduceIte]
          exact hinv_frame nh0 slot0 s _ u h rfl rfl (oth _) (by simp [upd]) (by simpa [upd] using hok)
        · simp only [if_neg hw]; exact h
    case release l =>
      simp only [step, hp]
      simp only [setOk] at hok
      by_cases ho : s.owner l = some u
      · simp only [if_pos ho]
        by_cases hc1 : s.count l ≤ 1
        · simp only [if_pos hc1]
          exact hinv_frame nh0 slot0 s _ u h rfl rfl (oth _) (by simp [upd]) (by simpa [upd] using hok)
        · simp only [if_neg hc1]
          exact hinv_frame nh0 slot0 s _ u h rfl rfl (oth _) (by simp [upd]) (by simpa [upd] using hok)
      · simp only [if_neg ho]; exact h
    case seek o =>
      simp only [step, hp]; simp only [setOk] at hok
      exact hinv_frame nh0 slot0 s _ u h rfl rfl (oth _) (by simp [upd]) (by simpa [upd] using hok)
    case seekEnd =>
      simp only [step, hp]; simp only [setOk] at hok
      exact hinv_frame nh0 slot0 s _ u h rfl rfl (oth _) (by simp [upd]) (by simpa [upd] using hok)
    case tell =>
      simp only [step, hp]; simp only [setOk] at hok
      exact hinv_frame nh0 slot0 s _ u h rfl rfl (oth _) (by simp [upd]) (by simpa [upd] using hok)
    case read n =>
      simp only [step, hp]; simp only [setOk] at hok
      exact hinv_frame nh0 slot0 s _ u h rfl rfl (oth _) (by simp [upd]) (by simpa [upd] using hok)
    case getSlot q =>
      simp only [step, hp]; simp only [setOk] at hok
      cases hs : s.slot q with
      | none => exact h
      | some hd => exact hinv_frame nh0 slot0 s _ u h rfl rfl (oth _) (by simp [upd]) (by simpa [upd] using hok)
    case probe q k =>
      simp only [step, hp]
      simp only [setOk, Bool.and_eq_true] at hok
      cases hs : s.slot q with
      | none => exact hinv_frame nh0 slot0 s _ u h rfl rfl (oth _) (by simp [upd]) (by simpa [upd] using hok.2)
      | some hd =>
        refine hinv_frame nh0 slot0 s _ u h rfl rfl (oth _) (by simp [upd]) ?_
        simp only [upd_same]
        exact setOk_false_of_head _ (setOk_drop k false rest hok.2) hok.1
    case opn =>
      simp only [step, hp]
      simp only [setOk] at hok
      refine ⟨by have := h.nhLe; simp; omega, fun q x hx => Nat.lt_succ_of_lt (h.slotLt q x hx), ?_, ?_, h.priv⟩
      · intro v
        by_cases e : v = u
        · subst e; simpa [upd] using hok
        · simp only [upd, if_neg e]; exact h.ok v
      · intro v hv
        by_cases e : v = u
        · subst e
          simp only [upd_same] at hv ⊢
          refine ⟨h.nhLe, by omega, fun q hq => absurd (h.slotLt q _ hq) (by omega), ?_⟩
          intro w hw hpw
          simp only [upd, if_neg hw] at hpw ⊢
          have := (h.pend w hpw).2.1
          omega
        · simp only [upd, if_neg e] at hv ⊢
          obtain ⟨a, b, c, d⟩ := h.pend v hv
          refine ⟨a, by omega, c, ?_⟩
          intro w hw hpw
          by_cases ew : w = u
          · subst ew; simp; omega
          · simp only [if_neg ew] at hpw ⊢; exact d w hw hpw
    case setSlot q =>
      simp only [step, hp]
      simp only [setOk, Bool.true_and] at hok
      have hpend : setOk false (s.threads u).prog = false := by rw [hp]; simp [setOk]
      obtain ⟨pa, pb, pc, pd⟩ := h.pend u hpend
      refine ⟨h.nhLe, ?_, ?_, ?_, ?_⟩
      · intro p x hx
        simp only [upd] at hx
        split at hx
        · cases hx; exact pb
        · exact h.slotLt p x hx
      · intro v
        by_cases e : v = u
        · subst e; simp only [upd_same]; exact setOk_mono _ hok
        · simp only [upd, if_neg e]; exact h.ok v
      · intro v hv
        have e : v ≠ u := fun e => by subst e; simp only [upd_same] at hv; rw [hok] at hv; cases hv
        simp only [upd, if_neg e] at hv ⊢
        obtain ⟨a, b, c, d⟩ := h.pend v hv
        refine ⟨a, b, ?_, ?_⟩
        · intro p hpq
          split at hpq
          · exact pd v e hv (Option.some.inj hpq).symm
          · exact c p hpq
        · intro w hw hpw
          by_cases ew : w = u
          · subst ew; simp only [↓reduceIte] at hpw; rw [hok] at hpw; cases hpw
          · simp only [if_neg ew] at hpw ⊢; exact d w hw hpw
      · intro p x hx
        simp only [upd] at hx
        split at hx
        · rename_i hpq
          cases hx
          refine .inr ⟨pa, ?_⟩
          intro p' hp'
          simp only [upd] at hp'
          split at hp'
          · rename_i e; rw [e, hpq]
          · exact absurd hp' (pc p')
        · rename_i hpq
          rcases h.priv p x hx with a | ⟨a, b⟩
          · exact .inl a
          · refine .inr ⟨a, ?_⟩
            intro p' hp'
            simp only [upd] at hp'
            split at hp'
            · exact absurd hx (by cases hp'; exact pc p)
            · exact b p' hp'

theorem hinv_runS (nh0 : Nat) (slot0 : Nat → Option Nat) (file : List Byte) (sched : List Tid) :
    ∀ s, HInv nh0 slot0 s → HInv nh0 slot0 (runS file s sched) := by
  induction sched with
  | nil => intro s h; exact h
  | cons u r ih => intro s h; exact ih _ (hinv_step nh0 slot0 file s h u)

end Nb.C14
