import NibabelModel.Model.C03
import NibabelModel.Lemmas.C03_EcatMain
/-! Lemmas/C03_EcatRows — ECAT frames located through the matrix list (core Lean only). -/
namespace Nb.C03
open Nb Nb.C06

theorem rowElem_frame (rowOf : Nat → Nat) (V i e : Nat) (he : e < V) : rowElem rowOf V (e + V * i) = e + V * rowOf i := by
  have hV : 0 < V := by omega
  simp only [rowElem]
  rw [Nat.add_mul_mod_self_left, Nat.mod_eq_of_lt he, Nat.add_mul_div_left _ _ hV, Nat.div_eq_of_lt he, Nat.zero_add]

theorem ecatLoop_relabel (rowOf : Nat → Nat) (sub : Nat → Except Err (NdArr Nat)) (outShape : List Nat) (k : Nat) :
    ∀ (frames : List Nat) (t : Nat) (buf : List (Option Nat)),
      ecatLoop (fun i => sub (rowOf i)) outShape k (fun o _ => o) t frames buf =
        ecatLoop sub outShape k (fun o _ => o) t (frames.map rowOf) buf
  | [], t, buf => rfl
  | i :: rest, t, buf => by
      simp only [ecatLoop, List.map_cons, bind, Except.bind]
      cases sub (rowOf i) with
      | error e => rfl
      | ok s =>
          simp only
          cases setAxis outShape k t s buf with
          | error e => rfl
          | ok b => exact ecatLoop_relabel rowOf sub outShape k rest (t + 1) b

theorem ecat_rows_sels (rowOf : Nat → Nat) (shape3 : List Nat) (T : Nat) (idx : List IdxItem) (items : List Item) (sels : List Sel)
    (hc : canonicalSlicers idx (shape3 ++ [T]) = .ok items)
    (hv : ∀ s, IdxItem.slice s ∈ idx → s.Valid)
    (hs : itemsSels items (shape3 ++ [T]) = .ok sels) :
    ecatGetitemRows rowOf shape3 T idx =
      .ok (outShape sels, (gatherF (realSels sels) (shape3 ++ [T])).map (fun q => some (rowElem rowOf shape3.prod q))) := by
  have hrc : realCount items = shape3.length + 1 := by
    rw [canonLoop_realCount true idx _ items hc]; simp
  obtain ⟨pre, it, post, hsplit, hitems, hpre, hit⟩ := splitReal_spec shape3.length items (by omega)
  have hpost0 : realCount post = 0 := by
    rw [hitems, realCount_append, realCount_cons_real hit, hpre] at hrc; omega
  have hpost := all_newaxis_of_realCount_zero post hpost0
  generalize post.length = c at hpost
  subst hpost
  have hsplit4 := itemsSels_append pre shape3 (it :: List.replicate c Item.newaxis) [T] hpre
  rw [← hitems, hs] at hsplit4
  cases hpa : itemsSels pre shape3 with
  | error e => rw [hpa] at hsplit4; simp [Except.bind] at hsplit4
  | ok a =>
  rw [hpa] at hsplit4
  simp only [Except.bind] at hsplit4
  cases hpb : itemsSels (it :: List.replicate c Item.newaxis) [T] with
  | error e => rw [hpb] at hsplit4; simp at hsplit4
  | ok b =>
  rw [hpb] at hsplit4
  simp only [Except.ok.injEq] at hsplit4
  have hin : itemsSels (pre ++ List.replicate c Item.newaxis) shape3 = .ok (a ++ List.replicate c Sel.new) := by
    have := itemsSels_append pre shape3 (List.replicate c Item.newaxis) [] hpre
    rw [List.append_nil, hpa, itemsSels_newaxes] at this
    exact this
  have hgs := gather_size pre shape3 a hpa hpre
  have hvi : ∀ s, Item.slice s ∈ items → s.Valid := canonical_slice_valid hc hv
  have hGlt : ∀ e ∈ gatherF (realSels a) shape3, e < shape3.prod :=
    gather_lt pre shape3 a hpa hpre (fun s hs' => hvi s (by rw [hitems]; simp [hs']))
  have hnews : realSels (List.replicate c Sel.new) = [] := realSels_news c
  unfold ecatGetitemRows
  simp only [hc, bind, Except.bind, hsplit, hin, pure, Except.pure, indexFn, outShape_append, outShape_news,
    realSels_append, realSels_news, List.append_nil]
  cases it with
  | newaxis => exact absurd rfl hit
  | int i =>
      obtain ⟨k, r, hk, hr, hb⟩ := itemsSels_cons_int hpb
      rw [itemsSels_newaxes] at hr
      simp only [Except.ok.injEq] at hr
      subst hr
      have hi0 : 0 ≤ i := canonical_int_nonneg hc i (by rw [hitems]; simp)
      obtain ⟨hrange, hkk⟩ := pyIntIndex_nonneg hk hi0
      simp only [hrange, and_self, if_true]
      have hrs : realSels sels = realSels a ++ [[k]] := by
        rw [hsplit4, hb, realSels_append]
        congr 1
        simp only [realSels]
        rw [List.filter_cons_of_pos (by simp)]
        have := hnews
        simp only [realSels] at this
        simp [this, Sel.list]
      have hos : outShape sels = outShape a ++ List.replicate c 1 := by
        rw [hsplit4, hb, outShape_append]; simp [outShape, outShape_news]
      rw [hos, hrs, gatherF_snoc _ _ _ _ hgs.2, hkk]
      simp only [List.flatMap_cons, List.flatMap_nil, List.append_nil, List.map_map, Except.ok.injEq, Prod.mk.injEq, true_and]
      apply List.map_congr_left
      intro e he
      simp only [Function.comp, frameElem]
      rw [rowElem_frame rowOf _ _ _ (hGlt e he)]
  | slice s =>
      obtain ⟨r, hr, hb⟩ := itemsSels_cons_slice hpb
      rw [itemsSels_newaxes] at hr
      simp only [Except.ok.injEq] at hr
      subst hr
      have hps := predictShape_eq items (shape3 ++ [T]) sels hs hvi
      have hos : outShape sels = outShape a ++ (s.sel T).length :: List.replicate c 1 := by
        rw [hsplit4, hb, outShape_append]; simp [outShape, outShape_news]
      simp only [hps, hos]
      have hk : nonIntCount pre = (outShape a).length := (outShape_length pre shape3 a hpa).symm
      have hfe : ∀ i, frameElem shape3 i = (· + shape3.prod * i) := fun i => rfl
      simp only [hk, hfe]
      rw [ecatLoop_relabel rowOf (fun i => .ok ⟨outShape a ++ List.replicate c 1,
          (gatherF (realSels a) shape3).map (· + shape3.prod * i)⟩)]
      rw [ecatLoop_fill (outShape a) (s.sel T).length c shape3.prod (gatherF (realSels a) shape3) hgs.1
        (fun i => .ok ⟨outShape a ++ List.replicate c 1,
          (gatherF (realSels a) shape3).map (· + shape3.prod * i)⟩) (fun i => rfl) ((s.sel T).map rowOf) 0 _
        (by simp [prod_append_nat, prod_ones]) (by simp)]
      simp only [Except.ok.injEq, Prod.mk.injEq, true_and]
      rw [fill_all _ _ _ _ _ (by simp)]
      have hrs : realSels sels = realSels a ++ [s.sel T] := by
        rw [hsplit4, hb, realSels_append]
        congr 1
        simp only [realSels]
        rw [List.filter_cons_of_pos (by simp)]
        have := hnews
        simp only [realSels] at this
        simp [this, Sel.list]
      rw [hrs, gatherF_snoc _ _ _ _ hgs.2]
      have hfb := flatMap_blocks shape3.prod (gatherF (realSels a) shape3) ((s.sel T).map rowOf)
      rw [hgs.1, List.length_map] at hfb
      rw [← hfb, List.flatMap_map, List.map_flatMap, List.map_flatMap]
      simp only [List.map_map]
      congr 1
      funext i
      apply List.map_congr_left
      intro e he
      simp only [Function.comp]
      rw [rowElem_frame rowOf _ _ _ (hGlt e he)]
theorem mem_insertBy {α} (le : α → α → Bool) (a x : α) : ∀ l : List α, x ∈ insertBy le a l ↔ x = a ∨ x ∈ l
  | [] => by simp [insertBy]
  | b :: l => by
      simp only [insertBy]
      split
      · simp
      · simp only [List.mem_cons, mem_insertBy le a x l]
        constructor
        · rintro (h | h | h) <;> simp [h]
        · rintro (h | h | h) <;> simp [h]

theorem mem_isort {α} (le : α → α → Bool) (x : α) : ∀ l : List α, x ∈ isort le l ↔ x ∈ l
  | [] => by simp [isort]
  | a :: l => by simp [isort, mem_insertBy, mem_isort le x l]

theorem pairwise_insertBy {α} (le : α → α → Bool) (htr : ∀ a b c, le a b → le b c → le a c)
    (htot : ∀ a b, le a b || le b a) (a : α) :
    ∀ l : List α, l.Pairwise (fun x y => le x y) → (insertBy le a l).Pairwise (fun x y => le x y)
  | [], _ => by simp [insertBy]
  | b :: l, h => by
      simp only [insertBy]
      have hb := List.pairwise_cons.mp h
      split
      · rename_i hab
        refine List.pairwise_cons.mpr ⟨?_, h⟩
        intro y hy
        rcases List.mem_cons.mp hy with rfl | hy
        · exact hab
        · exact htr _ _ _ hab (hb.1 y hy)
      · rename_i hab
        have hba : le b a = true := by
          have := htot a b
          simp only [Bool.or_eq_true] at this
          rcases this with h1 | h1
          · exact absurd h1 hab
          · exact h1
        refine List.pairwise_cons.mpr ⟨?_, pairwise_insertBy le htr htot a l hb.2⟩
        intro y hy
        rcases (mem_insertBy le a y l).mp hy with rfl | hy
        · exact hba
        · exact hb.1 y hy

theorem pairwise_isort {α} (le : α → α → Bool) (htr : ∀ a b c, le a b → le b c → le a c)
    (htot : ∀ a b, le a b || le b a) : ∀ l : List α, (isort le l).Pairwise (fun x y => le x y)
  | [] => by simp [isort]
  | a :: l => pairwise_insertBy le htr htot a _ (pairwise_isort le htr htot l)

theorem frameOrder_sorted (ids : List Int) :
    (frameOrder ids).Pairwise (fun r1 r2 => (effIds ids).getD r1 0 ≤ (effIds ids).getD r2 0) ∧
    ∀ r ∈ frameOrder ids, r < ids.length := by
  have hsorted := pairwise_isort idLe
    (fun a b c h1 h2 => by simp only [idLe, decide_eq_true_eq] at *; omega)
    (fun a b => by simp only [idLe, Bool.or_eq_true, decide_eq_true_eq]; omega) ((effIds ids).zipIdx)
  have hmem : ∀ x ∈ isort idLe (effIds ids).zipIdx, (effIds ids)[x.2]? = some x.1 := by
    intro x hx
    have hx' : x ∈ (effIds ids).zipIdx := (mem_isort _ _ _).mp hx
    have := List.mem_zipIdx hx'
    simp only [Nat.zero_le, Nat.zero_add, Nat.sub_zero, true_and] at this
    obtain ⟨h1, h2⟩ := this
    rw [List.getElem?_eq_getElem h1]
    exact congrArg some h2.symm
  constructor
  · unfold frameOrder
    apply List.Pairwise.sublist (List.take_sublist _ _)
    rw [List.pairwise_map]
    apply List.Pairwise.imp_of_mem _ hsorted
    intro a b ha hb hab
    simp only [idLe, decide_eq_true_eq] at hab
    simp only [List.getD_eq_getElem?_getD, hmem a ha, hmem b hb, Option.getD_some]
    exact hab
  · intro r hr
    unfold frameOrder at hr
    have hr' := List.mem_of_mem_take hr
    simp only [List.mem_map] at hr'
    obtain ⟨x, hx, rfl⟩ := hr'
    have := hmem x hx
    have hlt : x.2 < (effIds ids).length := by
      rcases Nat.lt_or_ge x.2 (effIds ids).length with h | h
      · exact h
      · rw [List.getElem?_eq_none h] at this; cases this
    simpa [effIds] using hlt
end Nb.C03
