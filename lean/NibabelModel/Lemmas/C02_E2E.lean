import NibabelModel.Lemmas.C02_Misc
import NibabelModel.Lemmas.C02_Ideal
/-! Lemmas/C02_E2E — end-to-end: what `save` stores for float data and the reload error bound of the whole save. -/
namespace Nb.C02

/-- `finite_range` is not inverted -/
theorem finiteRange_le : ∀ (data : List Val) (mn mx : Rat) (hn : Bool),
    finiteRange data = (some (mn, mx), hn) → mn ≤ mx := by
  intro data
  induction data with
  | nil => intro mn mx hn h; simp [finiteRange] at h
  | cons a l ih =>
    intro mn mx hn h
    cases hfr : finiteRange l with
    | mk fr hn' =>
      cases a with
      | fin x =>
        cases fr with
        | none =>
          simp only [finiteRange, hfr] at h
          injection h with h1 _; injection h1 with h1; injection h1 with ha hb
          subst ha hb; exact le_refl _
        | some ab =>
          obtain ⟨a', b'⟩ := ab
          simp only [finiteRange, hfr] at h
          injection h with h1 _; injection h1 with h1; injection h1 with ha hb
          subst ha hb
          exact le_trans (min_le_left _ _) (le_max_left _ _)
      | nan =>
        simp only [finiteRange, hfr] at h
        injection h with h1 _; subst h1
        exact ih mn mx hn' hfr
      | pinf =>
        simp only [finiteRange, hfr] at h
        injection h with h1 _; subst h1
        exact ih mn mx hn' hfr
      | ninf =>
        simp only [finiteRange, hfr] at h
        injection h with h1 _; subst h1
        exact ih mn mx hn' hfr

theorem forall₂_imp_mem {α β : Type} {R S : α → β → Prop} {l : List α} {r : List β} (h : List.Forall₂ R l r)
    (f : ∀ a b, a ∈ l → R a b → S a b) : List.Forall₂ S l r := by
  induction h with
  | nil => exact .nil
  | cons hab _ ih =>
    exact .cons (f _ _ List.mem_cons_self hab) (ih fun a b ha => f a b (List.mem_cons_of_mem _ ha))

/-- WHAT `save` STORES for float data (NIfTI, SPM): if the save succeeds with stored `(s, b)` then `s ≠ 0` and every
    finite element `r` is stored as `clip(rint((r − b)/s), both_mn, both_mx)` (`both = shared_range(working float, out)`) -/
theorem save_flt_elem {c : Cls} (hc : c = .nifti ∨ c = .spm) {rnd : Rat → Rat} {p32 prec : Nat} {o : OutT}
    {data : List Val} {s b : Rat} {raws : List Int} {mn mx : Rat} {hn : Bool}
    (ho1 : o.omin ≤ 0) (ho2 : 0 ≤ o.omax)
    (hsave : save c rnd p32 (.flt prec) o data = .ok (s, b, raws))
    (hfr : finiteRange data = (some (mn, mx), hn)) (hnz : ¬ (mn = 0 ∧ mx = 0)) :
    s ≠ 0 ∧ List.Forall₂ (fun v q => ∀ r, v = Val.fin r →
      q = clipI (rint ((r - b) / s)) (sharedRange (workingPrec (.flt prec)) o).1
            (sharedRange (workingPrec (.flt prec)) o).2) data raws := by
  have hmm := finiteRange_le data mn mx hn hfr
  have hbm : (sharedRange (workingPrec (.flt prec)) o).1 ≤ (sharedRange (workingPrec (.flt prec)) o).2 := by
    have := sharedRange_contract (workingPrec (.flt prec)) o ho1 ho2; omega
  have hwr : ∀ w, w = Writer.slopeInter ∨ w = Writer.slope →
      writingRange w (.flt prec) data = (some mn, some mx) := by
    intro w hw; rcases hw with rfl | rfl <;> simp [writingRange, hfr]
  have main : ∀ w, (w = Writer.slopeInter ∨ w = Writer.slope) → s ≠ 0 →
      arrayToFile (.flt prec) o s b (writingRange w (.flt prec) data).1 (writingRange w (.flt prec) data).2
        (needsNan2zero (.flt prec) data) data = .ok raws →
      List.Forall₂ (fun v q => ∀ r, v = Val.fin r →
        q = clipI (rint ((r - b) / s)) (sharedRange (workingPrec (.flt prec)) o).1
              (sharedRange (workingPrec (.flt prec)) o).2) data raws := by
    intro w hw hs ha
    rw [hwr w hw] at ha
    unfold arrayToFile at ha
    rw [if_neg hs] at ha
    have hwz : writeZeros (some mn) (some mx) = false := by
      simp only [writeZeros, Bool.or_eq_false_iff, Bool.and_eq_false_iff, beq_eq_false_iff_ne, ne_eq,
        decide_eq_false_iff_not, not_lt]
      refine ⟨?_, hmm⟩
      by_cases h0 : mn = 0
      · right; intro h1; exact hnz ⟨h0, h1⟩
      · left; exact h0
    rw [hwz] at ha
    simp only [Bool.false_eq_true, if_false] at ha
    rw [scaledWrite_fin] at ha
    simp only [bind, Except.bind] at ha
    split at ha
    · cases ha
    · rename_i nf _
      have hf := mapM_ok_forall₂ _ _ _ ha
      refine forall₂_imp_mem hf ?_
      intro v q hmem hvq r hv
      subst hv
      simp only [scaleVal] at hvq
      injection hvq with hvq
      rw [← hvq]
      obtain ⟨h1, h2⟩ := finiteRange_mem data mn mx hn hfr r hmem
      have hbt := rint_between (b := b) hs h1 h2
      simp only at hbt
      exact clipI_clamped hbm (by omega) (by omega)
  rcases hc with rfl | rfl
  all_goals
    simp only [save, bind, Except.bind] at hsave
    split at hsave
    · cases hsave
    · rename_i sb hsb
      obtain ⟨s', b'⟩ := sb
      simp only at hsave
      split at hsave
      · cases hsave
      · rename_i hset
        split at hsave
        · cases hsave
        · rename_i r ha
          injection hsave with hsave; injection hsave with e1 hsave; injection hsave with e2 e3
          subst e1 e2 e3
          have hs : s' ≠ 0 := by
            intro h0; subst h0; simp [setSlopeInter] at hset
          exact ⟨hs, main _ (by simp [Cls.writer]) hs ha⟩

/-- without rounding the nan2zero re-fit of the intercept never triggers: the ideal NaN fill is exactly one end of the
    shared range -/
theorem rangeScaleInter_id_nanFit {o : OutT} {sh : Int × Int} {a c : Rat} (hsh : sh.1 < sh.2)
    (h1 : o.omin ≤ sh.1) (h2 : sh.2 ≤ o.omax) (hne : a < c) :
    rangeScaleInter id o sh true a c = rangeScaleInter id o sh false a c := by
  have hR : (0 : Rat) < (sh.2 : Rat) - (sh.1 : Rat) := by
    have : (sh.1 : Rat) < (sh.2 : Rat) := by exact_mod_cast hsh
    linarith
  have hD : (0 : Rat) < c - a := by linarith
  have hs0 : (c - a) / ((sh.2 : Rat) - (sh.1 : Rat)) ≠ 0 := ne_of_gt (div_pos hD hR)
  have hRne := ne_of_gt hR
  unfold rangeScaleInter
  rw [if_neg (ne_of_gt hne), if_neg (ne_of_gt hne)]
  simp only [id, Bool.and_false, Bool.not_false, if_true, Bool.and_true]
  by_cases hflip : sh.1 = 0 ∧ rabs c < rabs a
  · rw [if_pos hflip]
    simp only
    have hs' : -((c - a) / ((sh.2 : Rat) - (sh.1 : Rat))) ≠ 0 := neg_ne_zero.mpr hs0
    simp only [if_neg hs']
    by_cases hz : a = 0 ∨ c = 0
    · have hc0 : c = 0 := by
        rcases hz with ha | hc
        · exfalso; have := hflip.2; rw [ha, rabs_eq_abs, rabs_eq_abs, abs_zero] at this
          exact absurd this (not_lt.mpr (abs_nonneg c))
        · exact hc
      have hsh1 : (sh.1 : Rat) = 0 := by exact_mod_cast hflip.1
      have hfill : -(c + (sh.1 : Rat) * ((c - a) / ((sh.2 : Rat) - (sh.1 : Rat)))) /
          -((c - a) / ((sh.2 : Rat) - (sh.1 : Rat))) = ((0 : Int) : Rat) := by
        rw [hc0, hsh1]; simp
      simp only [hz, decide_true, Bool.not_true, Bool.false_eq_true, if_false]
      rw [hfill, rint_intCast]
      rw [if_pos ⟨by omega, by omega⟩]
    · simp only [hz, decide_false, Bool.not_false, if_true]
  · rw [if_neg hflip]
    simp only
    simp only [if_neg hs0]
    by_cases hz : a = 0 ∨ c = 0
    · simp only [hz, decide_true, Bool.not_true, Bool.false_eq_true, if_false]
      rcases hz with ha | hc
      · have hfill : -(a - (sh.1 : Rat) * ((c - a) / ((sh.2 : Rat) - (sh.1 : Rat)))) /
            ((c - a) / ((sh.2 : Rat) - (sh.1 : Rat))) = ((sh.1 : Int) : Rat) := by
          have hc' : c ≠ 0 := by rw [ha] at hne; exact ne_of_gt hne
          rw [ha]; field_simp; ring
        rw [hfill, rint_intCast, if_pos ⟨h1, by omega⟩]
      · have hfill : -(a - (sh.1 : Rat) * ((c - a) / ((sh.2 : Rat) - (sh.1 : Rat)))) /
            ((c - a) / ((sh.2 : Rat) - (sh.1 : Rat))) = ((sh.2 : Int) : Rat) := by
          have ha' : a ≠ 0 := by rw [hc] at hne; exact ne_of_lt hne
          rw [hc]; field_simp; ring
        rw [hfill, rint_intCast, if_pos ⟨by omega, h2⟩]
    · simp only [hz, decide_false, Bool.not_false, if_true]


/-- float data whose finite range is not {0}: the slope writers always scale, over the finite range extended to 0 when
    NaNs are present -/
theorem writerScale_flt {w : Writer} (hw : w = .slopeInter ∨ w = .slope) {rnd : Rat → Rat} {p32 prec : Nat} {o : OutT}
    {data : List Val} {mn mx : Rat} {hn : Bool}
    (hfr : finiteRange data = (some (mn, mx), hn)) (hnz : ¬ (mn = 0 ∧ mx = 0)) :
    writerScale w rnd p32 (.flt prec) o data =
      rangeScale w rnd o (sharedRange p32 o) hn (if hn then min mn 0 else mn) (if hn then max mx 0 else mx) := by
  have hne := finiteRange_some_ne_nil hfr
  have hb : (mn == 0 && mx == 0) = false := by
    by_cases h0 : mn = 0
    · have : mx ≠ 0 := fun h1 => hnz ⟨h0, h1⟩
      simp [h0, this]
    · simp [h0]
  have hsn : slScalingNeeded (.flt prec) o data = true := by
    simp [slScalingNeeded, awScalingNeeded, canCast, hne, hfr, hb]
  rcases hw with rfl | rfl <;>
    (simp only [writerScale, hsn, if_true, hfr, doScaling]; cases hn <;> rfl)

/-- END TO END, slope + intercept (NIfTI), float data.  `save` succeeded and stored `(s, b)`; `(ss, bs)` is what the
    SAME writer computes without rounding (`rnd = id`).  Then every finite element reloads within
    `|s|/2 + |b − bs| + |s − ss|·max(|sh.1|, |sh.2|)` (`sh = shared_range(float32, out)`), NaNs present or not. -/
theorem save_err_nifti {rnd : Rat → Rat} {p32 prec : Nat} {o : OutT} {data : List Val} {s b ss bs : Rat}
    {raws : List Int} {mn mx : Rat} {hn : Bool} (ho1 : o.omin ≤ 0) (ho2 : 0 ≤ o.omax)
    (hsh : (sharedRange p32 o).1 < (sharedRange p32 o).2)
    (hsub1 : (sharedRange (workingPrec (.flt prec)) o).1 ≤ (sharedRange p32 o).1)
    (hsub2 : (sharedRange p32 o).2 ≤ (sharedRange (workingPrec (.flt prec)) o).2)
    (hsave : save .nifti rnd p32 (.flt prec) o data = .ok (s, b, raws))
    (hfr : finiteRange data = (some (mn, mx), hn))
    (hne : (if hn then min mn 0 else mn) < (if hn then max mx 0 else mx))
    (hideal : writerScale .slopeInter id p32 (.flt prec) o data = .ok (ss, bs)) :
    List.Forall₂ (fun v q => ∀ r, v = Val.fin r →
      |applyReadScaling s b q - r| ≤ |s| / 2 + |b - bs|
        + |s - ss| * max |((sharedRange p32 o).1 : Rat)| |((sharedRange p32 o).2 : Rat)|) data raws := by
  have hmm := finiteRange_le data mn mx hn hfr
  have hnz : ¬ (mn = 0 ∧ mx = 0) := by
    rintro ⟨h0, h1⟩; subst h0 h1; cases hn <;> simp at hne
  obtain ⟨hs, hel⟩ := save_flt_elem (Or.inl rfl) ho1 ho2 hsave hfr hnz
  rw [writerScale_flt (Or.inl rfl) hfr hnz] at hideal
  simp only [rangeScale] at hideal
  have hc := sharedRange_contract p32 o ho1 ho2
  have hid : rangeScaleInter id o (sharedRange p32 o) false (if hn then min mn 0 else mn)
      (if hn then max mx 0 else mx) = .ok (ss, bs) := by
    cases hn with
    | false => exact hideal
    | true => rw [← rangeScaleInter_id_nanFit hsh (by omega) (by omega) hne]; exact hideal
  obtain ⟨_, hx⟩ := ideal_inter hsh hne hid
  refine forall₂_imp_mem hel ?_
  intro v q hmem hq r hv
  obtain ⟨h1, h2⟩ := finiteRange_mem data mn mx hn hfr r (hv ▸ hmem)
  have h1' : (if hn then min mn 0 else mn) ≤ r := by
    cases hn
    · exact h1
    · exact le_trans (min_le_left _ _) h1
  have h2' : r ≤ (if hn then max mx 0 else mx) := by
    cases hn
    · exact h2
    · exact le_trans h2 (le_max_left _ _)
  obtain ⟨xs, hx1, hx2, hvx⟩ := hx r h1' h2'
  rw [hq r hv]
  have hbm : (sharedRange (workingPrec (.flt prec)) o).1 ≤ (sharedRange (workingPrec (.flt prec)) o).2 := by
    have := sharedRange_contract (workingPrec (.flt prec)) o ho1 ho2; omega
  have hq1 : (((sharedRange p32 o).2 : Int) : Rat) - ((sharedRange (workingPrec (.flt prec)) o).2 : Rat) ≤ 0 := by
    have : (((sharedRange p32 o).2 : Int) : Rat) ≤ ((sharedRange (workingPrec (.flt prec)) o).2 : Rat) := by
      exact_mod_cast hsub2
    linarith
  have hq2 : (((sharedRange (workingPrec (.flt prec)) o).1 : Int) : Rat) - ((sharedRange p32 o).1 : Rat) ≤ 0 := by
    have : (((sharedRange (workingPrec (.flt prec)) o).1 : Int) : Rat) ≤ ((sharedRange p32 o).1 : Rat) := by
      exact_mod_cast hsub1
    linarith
  have := err_core (b := b) hs hbm hvx hx1 hx2 (le_refl 0) hq1 hq2
  simpa [applyReadScaling] using this

/-- END TO END, slope only (SPM), float data: the ideal slope aims at the integer TYPE range, `array_to_file` clips to
    the shared range of the working float, hence the gap term `|s|·max(omax − both_mx, both_mn − omin)`. -/
theorem save_err_spm {rnd : Rat → Rat} {p32 prec : Nat} {o : OutT} {data : List Val} {s b ss bs : Rat}
    {raws : List Int} {mn mx : Rat} {hn : Bool} (ho1 : o.omin ≤ 0) (ho2 : 0 < o.omax)
    (hsave : save .spm rnd p32 (.flt prec) o data = .ok (s, b, raws))
    (hfr : finiteRange data = (some (mn, mx), hn)) (hnz : ¬ (mn = 0 ∧ mx = 0))
    (hideal : writerScale .slope id p32 (.flt prec) o data = .ok (ss, bs)) :
    bs = 0 ∧
    List.Forall₂ (fun v q => ∀ r, v = Val.fin r →
      |applyReadScaling s b q - r| ≤ |s| / 2 + |b - bs|
        + |s - ss| * max |(o.omin : Rat)| |(o.omax : Rat)|
        + |s| * ((max (o.omax - (sharedRange (workingPrec (.flt prec)) o).2)
                      ((sharedRange (workingPrec (.flt prec)) o).1 - o.omin) : Int) : Rat)) data raws := by
  have hmm := finiteRange_le data mn mx hn hfr
  obtain ⟨hs, hel⟩ := save_flt_elem (Or.inr rfl) ho1 (le_of_lt ho2) hsave hfr hnz
  rw [writerScale_flt (Or.inr rfl) hfr hnz] at hideal
  simp only [rangeScale, bind, Except.bind, id] at hideal
  cases hrs : rangeScaleSlope o (if hn then min mn 0 else mn) (if hn then max mx 0 else mx) with
  | error e => rw [hrs] at hideal; cases hideal
  | ok s0 =>
    rw [hrs] at hideal
    simp only at hideal
    split at hideal
    · cases hideal
    · injection hideal with hideal; injection hideal with e1 e2
      subst e1 e2
      refine ⟨rfl, ?_⟩
      have hmm' : (if hn then min mn 0 else mn) ≤ (if hn then max mx 0 else mx) := by
        cases hn
        · exact hmm
        · exact le_trans (min_le_right _ _) (le_max_right _ _)
      have hnz' : ¬ ((if hn then min mn 0 else mn) = 0 ∧ (if hn then max mx 0 else mx) = 0) := by
        cases hn
        · exact hnz
        · rintro ⟨e1, e2⟩
          simp only [if_true] at e1 e2
          have a1 : 0 ≤ mn := by rw [← e1]; exact min_le_left _ _
          have a2 : mx ≤ 0 := by rw [← e2]; exact le_max_left _ _
          exact hnz ⟨by linarith, by linarith⟩
      obtain ⟨_, hx⟩ := ideal_slope ho1 ho2 (fun h0 => lt_of_le_of_ne ho1 h0) hmm' hnz' hrs
      have hc := sharedRange_contract (workingPrec (.flt prec)) o ho1 (le_of_lt ho2)
      refine forall₂_imp_mem hel ?_
      intro v q hmem hq r hv
      obtain ⟨h1, h2⟩ := finiteRange_mem data mn mx hn hfr r (hv ▸ hmem)
      have h1' : (if hn then min mn 0 else mn) ≤ r := by
        cases hn
        · exact h1
        · exact le_trans (min_le_left _ _) h1
      have h2' : r ≤ (if hn then max mx 0 else mx) := by
        cases hn
        · exact h2
        · exact le_trans h2 (le_max_left _ _)
      obtain ⟨xs, hx1, hx2, hvx⟩ := hx r h1' h2'
      rw [hq r hv]
      have hg0 : (0 : Rat) ≤ ((max (o.omax - (sharedRange (workingPrec (.flt prec)) o).2)
          ((sharedRange (workingPrec (.flt prec)) o).1 - o.omin) : Int) : Rat) := by
        exact_mod_cast (show (0 : Int) ≤ max _ _ by omega)
      have hg1 : ((o.omax : Int) : Rat) - ((sharedRange (workingPrec (.flt prec)) o).2 : Rat) ≤
          ((max (o.omax - (sharedRange (workingPrec (.flt prec)) o).2)
            ((sharedRange (workingPrec (.flt prec)) o).1 - o.omin) : Int) : Rat) := by
        have : o.omax - (sharedRange (workingPrec (.flt prec)) o).2 ≤ max (o.omax - (sharedRange (workingPrec (.flt prec)) o).2)
            ((sharedRange (workingPrec (.flt prec)) o).1 - o.omin) := le_max_left _ _
        exact_mod_cast this
      have hg2 : (((sharedRange (workingPrec (.flt prec)) o).1 : Int) : Rat) - (o.omin : Rat) ≤
          ((max (o.omax - (sharedRange (workingPrec (.flt prec)) o).2)
            ((sharedRange (workingPrec (.flt prec)) o).1 - o.omin) : Int) : Rat) := by
        have : (sharedRange (workingPrec (.flt prec)) o).1 - o.omin ≤ max (o.omax - (sharedRange (workingPrec (.flt prec)) o).2)
            ((sharedRange (workingPrec (.flt prec)) o).1 - o.omin) := le_max_right _ _
        exact_mod_cast this
      have := err_core (b := b) hs (by omega) hvx hx1 hx2 hg0 hg1 hg2
      simpa [applyReadScaling] using this

end Nb.C02
