import NibabelModel.Model.C14
/-! Lemmas/C14 — helper lemmas for the C14 theorems (core tactics only). -/
namespace Nb.C14

/-! ### the static shape predicate -/

theorem wf_mono (L : Nat) (p : List Action) : ∀ d, wf L d false p = true → wf L d true p = true := by
  induction p with
  | nil => intro d h; simp [wf]
  | cons a r ih =>
    intro d h
    cases a
    case acquire l => by_cases hl : l = L <;> simp [wf, hl] at h ⊢ <;> exact ih _ h
    case release l =>
      by_cases hl : l = L
      · simp [wf, hl] at h ⊢
        refine ⟨h.1, ?_⟩
        by_cases h1 : d = 1
        · simp [h1] at h ⊢; exact h
        · have e1 : (d != 1) = true := by simp [h1]
          rw [e1]; exact ih _ h.2
      · simp [wf, hl] at h ⊢
        exact ih _ h
    all_goals simp [wf] at h ⊢
    case seek o => exact h
    case seekEnd => exact h
    case probe q k => exact ⟨h.1, ih _ h.2⟩
    case opn => exact h
    case setSlot q => exact ih _ h
    case getSlot q => exact h

theorem wf_drop_slotOnly (L : Nat) (k : Nat) : ∀ (p : List Action) d e,
    (p.take k).all Action.slotOnly = true → wf L d e p = true → wf L d e (p.drop k) = true := by
  induction k with
  | zero => intro p d e _ h; simpa using h
  | succ k ih =>
    intro p d e hs h
    cases p with
    | nil => simp [wf]
    | cons a r =>
      simp only [List.take_succ_cons, List.all_cons, Bool.and_eq_true] at hs
      simp only [List.drop_succ_cons]
      obtain ⟨ha, hs⟩ := hs
      cases a <;> simp [Action.slotOnly] at ha
      case opn =>
        have h' := ih r d false hs (by simpa [wf] using h)
        cases e
        · exact h'
        · exact wf_mono L _ _ h'
      case setSlot q => exact ih r d e hs (by simpa [wf] using h)

theorem solo_drop_slotOnly (file : List Byte) (k : Nat) : ∀ (p : List Action) x,
    (p.take k).all Action.slotOnly = true → solo file x (p.drop k) = solo file x p := by
  induction k with
  | zero => intro p x _; simp
  | succ k ih =>
    intro p x hs
    cases p with
    | nil => simp
    | cons a r =>
      simp only [List.take_succ_cons, List.all_cons, Bool.and_eq_true] at hs
      simp only [List.drop_succ_cons]
      rw [ih r x hs.2]
      cases a <;> simp [Action.slotOnly] at hs <;> simp [solo]

/-- a program that positions the handle itself before reading does not depend on the position it finds -/
theorem solo_indep (L : Nat) (file : List Byte) (p : List Action) :
    ∀ d x y, wf L d false p = true → solo file x p = solo file y p := by
  induction p with
  | nil => intro d x y _; simp [solo]
  | cons a r ih =>
    intro d x y h
    cases a
    case acquire l => by_cases hl : l = L <;> simp [wf, hl] at h <;> simp only [solo] <;> exact ih _ x y h
    case release l =>
      by_cases hl : l = L
      · simp [wf, hl] at h; simp only [solo]; exact ih _ x y h.2
      · simp [wf, hl] at h; simp only [solo]; exact ih _ x y h
    all_goals simp [wf] at h
    all_goals simp only [solo]
    case probe q k => exact ih _ x y h.2
    case opn => exact ih _ x y h
    case setSlot q => exact ih _ x y h
    case getSlot q => exact ih _ x y h

/-! ### the invariant -/

/-- recursion level of lock `L` as seen from thread `u` -/
def dep (L : Nat) (s : State) (u : Tid) : Nat := if s.owner L = some u then s.count L else 0

/-- Every thread's remaining program has the locked shape relative to the CURRENT state of lock `L`:
    the owner (recursion level `count L ≥ 1`) may touch the file, everybody else must first acquire `L`
    and position the handle itself. -/
structure Inv (L : Nat) (s : State) : Prop where
  wf  : ∀ u, wf L (dep L s u) (decide (s.owner L = some u)) (s.threads u).prog = true
  cnt : ∀ u, s.owner L = some u → 1 ≤ s.count L

theorem inv_of (L : Nat) (s s' : State) (u : Tid) (h : Inv L s)
    (hth : ∀ v, v ≠ u → s'.threads v = s.threads v)
    (hown : ∀ v, v ≠ u → (s'.owner L = some v ↔ s.owner L = some v))
    (hcnt : ∀ v, v ≠ u → s.owner L = some v → s'.count L = s.count L)
    (hu : Nb.C14.wf L (dep L s' u) (decide (s'.owner L = some u)) (s'.threads u).prog = true)
    (hc : ∀ v, s'.owner L = some v → 1 ≤ s'.count L) : Inv L s' := by
  refine ⟨?_, hc⟩
  intro v
  by_cases hv : v = u
  · subst hv; exact hu
  · have h1 := h.wf v
    rw [hth v hv]
    have e1 : dep L s' v = dep L s v := by
      unfold dep
      by_cases ho : s.owner L = some v
      · rw [if_pos ho, if_pos ((hown v hv).2 ho), hcnt v hv ho]
      · rw [if_neg ho, if_neg (fun x => ho ((hown v hv).1 x))]
    have e2 : decide (s'.owner L = some v) = decide (s.owner L = some v) := by
      simp only [hown v hv]
    rw [e1, e2]; exact h1

/-- the invariant is preserved by every step of every thread -/
theorem inv_step (L : Nat) (file : List Byte) (s : State) (h : Inv L s) (u : Tid) :
    Inv L (step file s u).1 := by
  have hu := h.wf u
  have hc := h.cnt
  cases hp : (s.threads u).prog with
  | nil => simp only [step, hp]; exact h
  | cons a rest =>
    rw [hp] at hu
    cases a
    case seek o =>
      simp only [step, hp]
      simp only [Nb.C14.wf, Bool.and_eq_true, bne_iff_ne, ne_eq] at hu
      apply inv_of L s _ u h
      · intro v hv; simp [upd, hv]
      · intro v hv; simp
      · intro v hv ho; simp
      · simp [dep] at hu ⊢; simp [hu.1.1] at hu ⊢; exact hu.2
      · exact hc
    case seekEnd =>
      simp only [step, hp]
      simp only [Nb.C14.wf, Bool.and_eq_true, bne_iff_ne, ne_eq] at hu
      apply inv_of L s _ u h
      · intro v hv; simp [upd, hv]
      · intro v hv; simp
      · intro v hv ho; simp
      · simp [dep] at hu ⊢; simp [hu.1.1] at hu ⊢; exact hu.2
      · exact hc
    case tell =>
      simp only [step, hp]
      simp only [Nb.C14.wf, Bool.and_eq_true, bne_iff_ne, ne_eq] at hu
      apply inv_of L s _ u h
      · intro v hv; simp [upd, hv]
      · intro v hv; simp
      · intro v hv ho; simp
      · simp [dep] at hu ⊢; exact hu.2
      · exact hc
    case read n =>
      simp only [step, hp]
      simp only [Nb.C14.wf, Bool.and_eq_true, bne_iff_ne, ne_eq] at hu
      apply inv_of L s _ u h
      · intro v hv; simp [upd, hv]
      · intro v hv; simp
      · intro v hv ho; simp
      · simp [dep] at hu ⊢; exact hu.2
      · exact hc
    case opn =>
      simp only [step, hp]
      simp only [Nb.C14.wf] at hu
      apply inv_of L s _ u h
      · intro v hv; simp [upd, hv]
      · intro v hv; simp
      · intro v hv ho; simp
      · simp [dep] at hu ⊢
        by_cases ho : s.owner L = some u
        · simp [ho] at hu ⊢; exact wf_mono L _ _ hu
        · simp [ho] at hu ⊢; exact hu
      · exact hc
    case setSlot q =>
      simp only [step, hp]
      simp only [Nb.C14.wf] at hu
      apply inv_of L s _ u h
      · intro v hv; simp [upd, hv]
      · intro v hv; simp
      · intro v hv ho; simp
      · simp [dep] at hu ⊢; exact hu
      · exact hc
    case getSlot q =>
      simp only [step, hp]
      simp only [Nb.C14.wf] at hu
      cases hs : s.slot q with
      | none => exact h
      | some hd =>
        apply inv_of L s _ u h
        · intro v hv; simp [upd, hv]
        · intro v hv; simp
        · intro v hv ho; simp
        · simp [dep] at hu ⊢
          by_cases ho : s.owner L = some u
          · simp [ho] at hu ⊢; exact wf_mono L _ _ hu
          · simp [ho] at hu ⊢; exact hu
        · exact hc
    case probe q k =>
      simp only [step, hp]
      simp only [Nb.C14.wf, Bool.and_eq_true] at hu
      cases hs : s.slot q with
      | none =>
        apply inv_of L s _ u h
        · intro v hv; simp [upd, hv]
        · intro v hv; simp
        · intro v hv ho; simp
        · simp [dep] at hu ⊢; exact hu.2
        · exact hc
      | some hd =>
        apply inv_of L s _ u h
        · intro v hv; simp [upd, hv]
        · intro v hv; simp
        · intro v hv ho; simp
        · simp [dep] at hu ⊢; exact wf_drop_slotOnly L k rest _ _ (by simpa using hu.1) hu.2
        · exact hc
    case acquire l =>
      simp only [step, hp]
      cases ho : s.owner l with
      | none =>
        by_cases hl : l = L
        · subst hl
          simp only [Nb.C14.wf, ↓reduceIte] at hu
          apply inv_of l s _ u h
          · intro v hv; simp [upd, hv]
          · intro v hv; simp [upd, ho]; exact fun e => hv e.symm
          · intro v hv ho'; rw [ho] at ho'; cases ho'
          · simp [dep, ho] at hu ⊢; exact wf_mono l _ _ hu
          · intro v _; simp
        · simp only [Nb.C14.wf, if_neg hl] at hu
          apply inv_of L s _ u h
          · intro v hv; simp [upd, hv]
          · intro v hv; simp [upd, Ne.symm hl]
          · intro v hv ho'; simp [upd, Ne.symm hl]
          · simp [dep, upd, Ne.symm hl] at hu ⊢; exact hu
          · intro v hv; simp [upd, Ne.symm hl] at hv ⊢; exact hc v hv
      | some w =>
        by_cases hw : w = u
        · subst hw
          simp only [↓reduceIte]
          by_cases hl : l = L
          · subst hl
            simp only [Nb.C14.wf, ↓reduceIte] at hu
            apply inv_of l s _ w h
            · intro v hv; simp [upd, hv]
            · intro v hv; simp
            · intro v hv ho'; rw [ho] at ho'; exact absurd (Option.some.inj ho').symm hv
            · simp [dep, ho] at hu ⊢; exact hu
            · intro v _; simp
          · simp only [Nb.C14.wf, if_neg hl] at hu
            apply inv_of L s _ w h
            · intro v hv; simp [upd, hv]
            · intro v hv; simp
            · intro v hv ho'; simp [upd, Ne.symm hl]
            · simp [dep, upd, Ne.symm hl] at hu ⊢; exact hu
            · intro v hv; simp [upd, Ne.symm hl] at hv ⊢; exact hc v hv
        · simp only [if_neg hw]; exact h
    case release l =>
      simp only [step, hp]
      by_cases ho : s.owner l = some u
      · simp only [if_pos ho]
        by_cases hc1 : s.count l ≤ 1
        · simp only [if_pos hc1]
          by_cases hl : l = L
          · subst hl
            have h1 : s.count l = 1 := by have := hc u ho; omega
            simp [Nb.C14.wf, dep, ho, h1] at hu
            apply inv_of l s _ u h
            · intro v hv; simp [upd, hv]
            · intro v hv; simp [upd, ho]; exact fun e => hv e.symm
            · intro v hv ho'; rw [ho] at ho'; exact absurd (Option.some.inj ho').symm hv
            · simp [dep] ; exact hu
            · intro v hv; simp at hv
          · simp only [Nb.C14.wf, if_neg hl] at hu
            apply inv_of L s _ u h
            · intro v hv; simp [upd, hv]
            · intro v hv; simp [upd, Ne.symm hl]
            · intro v hv ho'; simp [upd, Ne.symm hl]
            · simp [dep, upd, Ne.symm hl] at hu ⊢; exact hu
            · intro v hv; simp [upd, Ne.symm hl] at hv ⊢; exact hc v hv
        · simp only [if_neg hc1]
          by_cases hl : l = L
          · subst hl
            have h1 : (s.count l != 1) = true := by simp; omega
            simp [Nb.C14.wf, dep, ho, h1] at hu
            apply inv_of l s _ u h
            · intro v hv; simp [upd, hv]
            · intro v hv; simp
            · intro v hv ho'; rw [ho] at ho'; exact absurd (Option.some.inj ho').symm hv
            · simp [dep, ho]; exact hu.2
            · intro v hv; simp; omega
          · simp only [Nb.C14.wf, if_neg hl] at hu
            apply inv_of L s _ u h
            · intro v hv; simp [upd, hv]
            · intro v hv; simp
            · intro v hv ho'; simp [upd, Ne.symm hl]
            · simp [dep, upd, Ne.symm hl] at hu ⊢; exact hu
            · intro v hv; simp [upd, Ne.symm hl] at hv ⊢; exact hc v hv
      · simp only [if_neg ho]; exact h


theorem step_threads_other (file : List Byte) (s : State) (u t : Tid) (hut : u ≠ t) :
    (step file s u).1.threads t = s.threads t := by
  have htu : t ≠ u := fun e => hut e.symm
  cases hp : (s.threads u).prog with
  | nil => simp only [step, hp]
  | cons a rest =>
    cases a
    case acquire l =>
      simp only [step, hp]
      cases ho : s.owner l with
      | none => simp [upd, htu]
      | some w => by_cases hw : w = u <;> simp [hw, upd, htu]
    case release l =>
      simp only [step, hp]
      by_cases ho : s.owner l = some u
      · by_cases hc1 : s.count l ≤ 1 <;> simp [ho, hc1, upd, htu]
      · simp [ho]
    case probe q k => simp only [step, hp]; cases hs : s.slot q <;> simp [upd, htu]
    case getSlot q => simp only [step, hp]; cases hs : s.slot q <;> simp [upd, htu]
    all_goals simp [step, hp, upd, htu]

/-- while `t` owns lock `L`, a step of any other thread leaves the lock, every file position and `t` alone,
    and is not a file operation -/
theorem step_frame (L : Nat) (file : List Byte) (s : State) (h : Inv L s) (u t : Tid)
    (ho : s.owner L = some t) (hut : u ≠ t) :
    (step file s u).1.owner L = some t ∧ (step file s u).1.count L = s.count L ∧
    (step file s u).1.pos = s.pos ∧ (step file s u).2.data = none := by
  have hu := h.wf u
  have hne : ¬ (s.owner L = some u) := by rw [ho]; intro e; exact hut (Option.some.inj e).symm
  simp only [dep, hne, decide_false] at hu
  cases hp : (s.threads u).prog with
  | nil => simp [step, hp, ho, Ev.data]
  | cons a rest =>
    rw [hp] at hu
    cases a
    case acquire l =>
      simp only [step, hp]
      by_cases hl : l = L
      · subst hl; simp [ho, Ne.symm hut, Ev.data]
      · cases ho' : s.owner l with
        | none => simp [upd, Ne.symm hl, ho, Ev.data]
        | some w => by_cases hw : w = u <;> simp [hw, upd, Ne.symm hl, ho, Ev.data]
    case release l =>
      simp only [step, hp]
      by_cases hl : l = L
      · subst hl; simp [ho, Ne.symm hut, Ev.data]
      · by_cases ho' : s.owner l = some u
        · by_cases hc1 : s.count l ≤ 1 <;> simp [ho', hc1, upd, Ne.symm hl, ho, Ev.data]
        · simp [ho', ho, Ev.data]
    case probe q k => simp only [step, hp]; cases hs : s.slot q <;> simp [ho, Ev.data]
    case getSlot q => simp only [step, hp]; cases hs : s.slot q <;> simp [ho, Ev.data]
    case opn => simp [step, hp, ho, Ev.data]
    case setSlot q => simp [step, hp, ho, Ev.data]
    all_goals simp [Nb.C14.wf] at hu


/-- what thread `t` sees of one step of thread `u` -/
def seen (t u : Tid) (e : Ev) : List DEv := if u = t then e.data.toList else []

/-- one step of any thread: the file events thread `t` sees, followed by the single-threaded meaning of
    what `t` still has to do, is the single-threaded meaning of what `t` had to do before -/
theorem step_solo (L : Nat) (file : List Byte) (s : State) (h : Inv L s) (u t : Tid) :
    seen t u (step file s u).2 ++
      solo file ((step file s u).1.pos ((step file s u).1.threads t).cur) ((step file s u).1.threads t).prog
    = solo file (s.pos (s.threads t).cur) (s.threads t).prog := by
  by_cases hut : u = t
  · subst hut
    have hu := h.wf u
    simp only [seen, ↓reduceIte]
    cases hp : (s.threads u).prog with
    | nil => simp [step, hp, Ev.data]
    | cons a rest =>
      rw [hp] at hu
      cases a
      case acquire l =>
        simp only [step, hp]
        cases ho : s.owner l with
        | none => simp [upd, Ev.data, solo]
        | some w => by_cases hw : w = u <;> simp [hw, upd, Ev.data, solo, hp]
      case release l =>
        simp only [step, hp]
        by_cases ho : s.owner l = some u
        · by_cases hc1 : s.count l ≤ 1 <;> simp [ho, hc1, upd, Ev.data, solo]
        · simp [ho, Ev.data, hp]
      case seek o => simp [step, hp, upd, Ev.data, solo]
      case seekEnd => simp [step, hp, upd, Ev.data, solo]
      case tell => simp [step, hp, upd, Ev.data, solo]
      case read n => simp [step, hp, upd, Ev.data, solo]
      case opn =>
        simp only [Nb.C14.wf] at hu
        simp [step, hp, upd, Ev.data, solo]; exact solo_indep L file rest _ _ _ hu
      case setSlot q => simp [step, hp, upd, Ev.data, solo]
      case probe q k =>
        simp only [step, hp]
        simp only [Nb.C14.wf, Bool.and_eq_true] at hu
        cases hs : s.slot q with
        | none => simp [upd, Ev.data, solo]
        | some hd => simp [upd, Ev.data, solo]; exact solo_drop_slotOnly file k rest _ (by simpa using hu.1)
      case getSlot q =>
        simp only [step, hp]
        simp only [Nb.C14.wf] at hu
        cases hs : s.slot q with
        | none => simp [Ev.data, hp]
        | some hd => simp [upd, Ev.data, solo]; exact solo_indep L file rest _ _ _ hu
  · simp only [seen, if_neg hut, List.nil_append]
    rw [step_threads_other file s u t hut]
    by_cases ho : s.owner L = some t
    · rw [(step_frame L file s h u t ho hut).2.2.1]
    · have ht := h.wf t
      simp only [dep, ho, decide_false] at ht
      exact solo_indep L file _ 0 _ _ (by simpa using ht)

/-! ### whole schedules -/

theorem inv_runS (L : Nat) (file : List Byte) (sched : List Tid) :
    ∀ s, Inv L s → Inv L (runS file s sched) := by
  induction sched with
  | nil => intro s h; exact h
  | cons u r ih => intro s h; exact ih _ (inv_step L file s h u)

theorem dataProj_cons (t u : Tid) (e : Ev) (tr : List (Tid × Ev)) :
    dataProj t ((u, e) :: tr) = seen t u e ++ dataProj t tr := by
  unfold dataProj seen
  by_cases hut : u = t
  · cases hd : e.data <;> simp [hut, hd]
  · simp [hut]

/-- decomposition: what `t` has seen so far ++ the single-threaded meaning of what `t` still has to do
    = the single-threaded meaning of `t`'s program at the start -/
theorem run_solo (L : Nat) (file : List Byte) (t : Tid) (sched : List Tid) :
    ∀ s, Inv L s →
      dataProj t (trace file s sched) ++
        solo file ((runS file s sched).pos ((runS file s sched).threads t).cur) ((runS file s sched).threads t).prog
      = solo file (s.pos (s.threads t).cur) (s.threads t).prog := by
  induction sched with
  | nil => intro s _; simp [trace, runS, dataProj]
  | cons u r ih =>
    intro s h
    simp only [trace, runS, dataProj_cons, List.append_assoc]
    rw [ih _ (inv_step L file s h u)]
    exact step_solo L file s h u t

/-- while `t` owns `L`, whatever the OTHER threads do leaves lock, positions and `t` untouched -/
theorem frame_run (L : Nat) (file : List Byte) (t : Tid) (sched : List Tid) :
    ∀ s, Inv L s → s.owner L = some t → (∀ u ∈ sched, u ≠ t) →
      (runS file s sched).owner L = some t ∧ (runS file s sched).count L = s.count L ∧
      (runS file s sched).pos = s.pos ∧ (runS file s sched).threads t = s.threads t ∧
      (∀ x ∈ trace file s sched, x.2.data = none) := by
  induction sched with
  | nil => intro s _ ho _; simp [runS, trace, ho]
  | cons u r ih =>
    intro s h ho hs
    have hut : u ≠ t := hs u (by simp)
    have f := step_frame L file s h u t ho hut
    have ih' := ih _ (inv_step L file s h u) f.1 (fun v hv => hs v (by simp [hv]))
    simp only [runS, trace]
    refine ⟨ih'.1, by rw [ih'.2.1, f.2.1], by rw [ih'.2.2.1, f.2.2.1], ?_, ?_⟩
    · rw [ih'.2.2.2.1]; exact step_threads_other file s u t hut
    · intro x hx
      cases hx with
      | head => exact f.2.2.2
      | tail _ hx => exact ih'.2.2.2.2 x hx

end Nb.C14
