import NibabelModel.Model.C03
import NibabelModel.Lemmas.PySlice
/-! Lemmas/C03 — helper lemmas for the C03 theorems (core Lean only). -/
namespace Nb.C03
open Nb Nb.C06

/-! ### products and ranges -/

theorem prod_append_nat (a b : List Nat) : (a ++ b).prod = a.prod * b.prod := by
  induction a with
  | nil => simp
  | cons x xs ih => simp [List.prod_cons, ih, Nat.mul_assoc]

theorem prod_reverse_nat (l : List Nat) : l.reverse.prod = l.prod := by
  induction l with
  | nil => rfl
  | cons x xs ih => simp [List.prod_cons, ih, Nat.mul_comm]

/-- F-order enumeration of a full block: `r` outer, `i` inner -/
theorem range_flatMap (n : Nat) : ∀ P : Nat,
    (List.range P).flatMap (fun r => (List.range n).map (fun i => i + n * r)) = List.range (n * P)
  | 0 => by simp
  | P + 1 => by
      rw [List.range_succ, List.flatMap_append, range_flatMap n P, Nat.mul_succ, List.range_add]
      simp [Nat.add_comm]

/-- `gatherF` of full axes enumerates every element once, in storage order -/
theorem gatherF_full : ∀ shape : List Nat, gatherF (shape.map List.range) shape = List.range shape.prod
  | [] => by simp [gatherF]
  | n :: ns => by
      simp only [List.map_cons, gatherF, gatherF_full ns, List.prod_cons]
      exact range_flatMap n ns.prod

/-! ### the whole-array index -/

theorem allFull_noInt (shape : List Nat) : ∀ it ∈ allFull shape, itemIsInt it = false := by
  intro it h
  simp only [allFull, List.mem_map] at h
  obtain ⟨_, _, rfl⟩ := h
  rfl

theorem canonItem_noInt {n : Nat} {it : IdxItem} {c : Item} (h : canonItem n false it = .ok c)
    (hc : itemIsInt c = false) : canonItem n true it = .ok c := by
  cases it with
  | int i =>
      simp only [canonItem] at h
      split at h <;> simp at h <;> subst h <;> simp [itemIsInt] at hc
  | slice s => simpa [canonItem] using h
  | newaxis => simpa [canonItem] using h
  | ellipsis => simp [canonItem] at h

/-- when the canonical form computed WITHOUT index checks contains no integer, the checked
    canonical form is the same -/
theorem canonLoop_noInt : ∀ (idx : List IdxItem) (shape : List Nat) (items : List Item),
    canonLoop false idx shape = .ok items → (∀ it ∈ items, itemIsInt it = false) →
    canonLoop true idx shape = .ok items
  | [], shape, items, h, _ => by simpa [canonLoop] using h
  | .newaxis :: rest, shape, items, h, hn => by
      simp only [canonLoop, bind, Except.bind] at h ⊢
      cases hr : canonLoop false rest shape with
      | error e => simp [hr] at h
      | ok r =>
          simp only [hr, pure, Except.pure, Except.ok.injEq] at h
          subst h
          rw [canonLoop_noInt rest shape r hr (fun it hi => hn it (by simp [hi]))]
          rfl
  | .ellipsis :: rest, shape, items, h, hn => by
      simp only [canonLoop] at h ⊢
      split at h
      · simp at h
      · rename_i hne
        simp only [hne, bind, Except.bind] at h ⊢
        cases hr : canonLoop false rest (shape.drop (shape.length - (rest.filter (fun x => !isNewaxis x)).length)) with
        | error e => simp [hr] at h
        | ok r =>
            simp only [hr, pure, Except.pure, Except.ok.injEq] at h
            subst h
            rw [canonLoop_noInt rest _ r hr (fun it hi => hn it (by simp [hi]))]
            simp [pure, Except.pure]
  | .int i :: rest, [], items, h, _ => by simp [canonLoop] at h
  | .slice s :: rest, [], items, h, _ => by simp [canonLoop] at h
  | .int i :: rest, n :: shape, items, h, hn => by
      simp only [canonLoop, bind, Except.bind] at h ⊢
      cases hc : canonItem n false (.int i) with
      | error e => simp [hc] at h
      | ok c =>
          simp only [hc] at h
          cases hr : canonLoop false rest shape with
          | error e => simp [hr] at h
          | ok r =>
              simp only [hr, pure, Except.pure, Except.ok.injEq] at h
              subst h
              rw [canonItem_noInt hc (hn c (by simp)),
                canonLoop_noInt rest shape r hr (fun it hi => hn it (by simp [hi]))]
              rfl
  | .slice s :: rest, n :: shape, items, h, hn => by
      simp only [canonLoop, bind, Except.bind] at h ⊢
      cases hc : canonItem n false (.slice s) with
      | error e => simp [hc] at h
      | ok c =>
          simp only [hc] at h
          cases hr : canonLoop false rest shape with
          | error e => simp [hr] at h
          | ok r =>
              simp only [hr, pure, Except.pure, Except.ok.injEq] at h
              subst h
              rw [canonItem_noInt hc (hn c (by simp)),
                canonLoop_noInt rest shape r hr (fun it hi => hn it (by simp [hi]))]
              rfl

theorem itemsSels_allFull : ∀ shape : List Nat,
    itemsSels (allFull shape) shape = .ok (shape.map (fun n => Sel.many (List.range n)))
  | [] => rfl
  | n :: ns => by
      have ih := itemsSels_allFull ns
      simp only [allFull, List.map_cons] at ih ⊢
      simp only [itemsSels, itemSel, bind, Except.bind, ih, pure, Except.pure]
      simp only [pySliceNone, PySlice.sel_none]

theorem outShape_full (shape : List Nat) : outShape (shape.map (fun n => Sel.many (List.range n))) = shape := by
  induction shape with
  | nil => rfl
  | cons n ns ih => simp [outShape, ih]

theorem realSels_full (shape : List Nat) :
    realSels (shape.map (fun n => Sel.many (List.range n))) = shape.map List.range := by
  induction shape with
  | nil => rfl
  | cons n ns ih =>
      have hne : (Sel.many (List.range n) != Sel.new) = true := by simp
      simp only [realSels, List.map_cons, List.filter_cons, hne, if_true] at ih ⊢
      simp [Sel.list, ih]

theorem orient_allFull (o : Order) (shape : List Nat) : orient o (allFull shape) = allFull (orient o shape) := by
  cases o <;> simp [orient, allFull]

theorem orient_orient {α} (o : Order) (l : List α) : orient o (orient o l) = l := by
  cases o <;> simp [orient]

theorem orient_prod (o : Order) (l : List Nat) : (orient o l).prod = l.prod := by
  cases o <;> simp [orient]

/-- NumPy indexing with an index that is canonically "everything": the array itself -/
theorem npIndex_whole (idx : List IdxItem) (shape : List Nat) (o : Order)
    (h : canonLoop false idx shape = .ok (allFull shape)) :
    npIndex idx shape o = .ok (shape, List.range shape.prod) := by
  have hc : canonicalSlicers idx shape = .ok (allFull shape) :=
    canonLoop_noInt idx shape _ h (allFull_noInt shape)
  simp only [npIndex, hc, bind, Except.bind, orient_allFull, itemsSels_allFull, pure, Except.pure,
    outShape_full, realSels_full, gatherF_full, orient_orient, orient_prod]

/-! ### reshape -/

theorem foldl_mul_int (l : List Int) (a : Int) : l.foldl (· * ·) a = a * l.foldl (· * ·) 1 := by
  induction l generalizing a with
  | nil => simp
  | cons x xs ih => simp only [List.foldl_cons]; rw [ih (a * x), ih (1 * x)]; simp [Int.mul_assoc]

theorem prod_toNat (l : List Int) (h : ∀ x ∈ l, 0 ≤ x) : ((l.map Int.toNat).prod : Int) = l.foldl (· * ·) 1 := by
  induction l with
  | nil => rfl
  | cons x xs ih =>
      simp only [List.map_cons, List.prod_cons, List.foldl_cons]
      rw [foldl_mul_int xs (1 * x), ← ih (fun y hy => h y (by simp [hy]))]
      have := h x (by simp)
      simp only [Int.one_mul, Int.natCast_mul]
      congr 1
      omega

theorem reshapeShape_prod {size : Nat} {shape : List Int} {s : List Nat}
    (h : reshapeShape size shape = .ok s) : s.prod = size := by
  unfold reshapeShape at h
  split at h
  · simp at h
  · split at h
    · rename_i hh
      simp only [Except.ok.injEq] at h
      subst h
      have := prod_toNat _ (fun x hx => by simpa using (List.all_eq_true.mp hh.2) x hx)
      rw [hh.1] at this
      exact_mod_cast this
    · simp at h

/-! ### AFNI / PAR-REC slot arithmetic -/

theorem slot_of_block (P e t : Nat) (he : e < P) : (e + P * t) / P = t := by
  rw [Nat.add_mul_div_left _ _ (by omega : 0 < P), Nat.div_eq_of_lt he, Nat.zero_add]

theorem parrecWhole_range (S K : Nat) : parrecWhole S (List.range K) = List.range (S * K) := by
  unfold parrecWhole
  exact range_flatMap S K

end Nb.C03
