import NibabelModel.Model.C16
import NibabelModel.Lemmas.C16_Names
/-! Lemmas/C16_Table — the name table written by `TrkFile.save` is read back by `TrkFile.load` as the
    cumulative column slices under the same names (core Lean only). -/
namespace Nb.C16

/-- the column slices `load` must find: name ↦ (start, start + k), cumulatively -/
def cumSlices : List (Name × Nat) → Nat → List (Name × Nat × Nat)
  | [], _ => []
  | (n, k) :: r, c => (n, c, c + k) :: cumSlices r (c + k)

def colsTotal (cols : List (Name × Nat)) : Nat := (cols.map (·.2)).sum

/-- what the codec round trip needs of one (name, number of columns) pair -/
def ColOk (c : Name × Nat) : Prop := (∀ x ∈ c.1, x ≠ 0) ∧ 1 ≤ c.2 ∧ (c.1 ≠ [] ∨ 2 ≤ c.2)

theorem decode_zero_field : decodeName (s20 (List.replicate 20 0)) = .ok ([], 0) := by
  have h : rstripNul (List.replicate 20 0) = [] := by
    have := rstripNul_append_zeros [] 20
    simpa [rstripNul] using this
  unfold s20
  rw [h]
  rfl

theorem nameSlicesLoop_zeros (m cpt : Nat) (acc : List (Name × Nat × Nat)) :
    nameSlicesLoop (List.replicate m (List.replicate 20 0)) cpt acc = .ok (acc, cpt) := by
  induction m with
  | zero => rfl
  | succ k ih =>
    rw [List.replicate_succ, nameSlicesLoop, decode_zero_field]
    simpa using ih

theorem dictSet_fresh {β} (d : List (Name × β)) (k : Name) (v : β) (h : ∀ e ∈ d, e.1 ≠ k) :
    dictSet d k v = d ++ [(k, v)] := by
  unfold dictSet
  split
  · rename_i hany
    rw [List.any_eq_true] at hany
    obtain ⟨e, he, hek⟩ := hany
    exact absurd (by simpa using hek) (h e he)
  · rfl

theorem nameSlicesLoop_encoded (decode : ∀ c : Name × Nat, ColOk c → ∀ enc, encodeName c.2 c.1 = .ok enc →
      decodeName (s20 enc) = .ok c)
    (cols : List (Name × Nat)) :
    ∀ (encs rest : List (List Nat)) (cpt : Nat) (acc : List (Name × Nat × Nat)),
      cols.mapM (fun c => encodeName c.2 c.1) = .ok encs →
      (∀ c ∈ cols, ColOk c) → (cols.map (·.1)).Nodup → (∀ c ∈ cols, ∀ e ∈ acc, e.1 ≠ c.1) →
      nameSlicesLoop (encs ++ rest) cpt acc =
        nameSlicesLoop rest (cpt + colsTotal cols) (acc ++ cumSlices cols cpt) := by
  induction cols with
  | nil =>
    intro encs rest cpt acc h _ _ _
    simp [List.mapM_nil, pure, Except.pure] at h
    subst h
    simp [colsTotal, cumSlices]
  | cons c cs ih =>
    intro encs rest cpt acc h hok hnd hacc
    rw [List.mapM_cons] at h
    cases he : encodeName c.2 c.1 with
    | error e => simp [he, bind, Except.bind] at h
    | ok enc =>
      cases hes : cs.mapM (fun c => encodeName c.2 c.1) with
      | error e => simp [he, hes, bind, Except.bind] at h
      | ok encs' =>
        simp [he, hes, bind, Except.bind, pure, Except.pure] at h
        subst h
        have hc : ColOk c := hok c (by simp)
        have hdec := decode c hc enc he
        have hk : (c.2 == 0) = false := by
          have := hc.2.1
          simp; omega
        rw [List.cons_append, nameSlicesLoop, hdec]
        simp only [hk, Bool.false_eq_true, if_false]
        have hfresh : dictSet acc c.1 (cpt, cpt + c.2) = acc ++ [(c.1, (cpt, cpt + c.2))] :=
          dictSet_fresh acc c.1 _ (fun e he' => hacc c (by simp) e he')
        rw [hfresh]
        have hnd' : (cs.map (·.1)).Nodup := (List.nodup_cons.mp (by simpa using hnd)).2
        have hnotin : c.1 ∉ cs.map (·.1) := (List.nodup_cons.mp (by simpa using hnd)).1
        have := ih encs' rest (cpt + c.2) (acc ++ [(c.1, (cpt, cpt + c.2))]) hes
          (fun x hx => hok x (by simp [hx])) hnd'
          (by
            intro x hx e he'
            simp at he'
            rcases he' with he' | he'
            · exact hacc x (by simp [hx]) e he'
            · subst he'
              intro heq
              exact hnotin (by simp; exact ⟨x.2, by rw [heq]; exact hx⟩))
        rw [this]
        have h1 : cpt + c.2 + colsTotal cs = cpt + colsTotal (c :: cs) := by
          simp [colsTotal]; omega
        have h2 : acc ++ [(c.1, cpt, cpt + c.2)] ++ cumSlices cs (cpt + c.2) = acc ++ cumSlices (c :: cs) cpt := by
          obtain ⟨n, k⟩ := c
          simp [cumSlices]
        rw [h1, h2]

/-- cutting the concatenation of named value lists at the cumulative slices gives the lists back -/
theorem slices_recover (cols : List (Name × List Nat)) :
    ∀ (pre : List Nat),
      (cumSlices (cols.map (fun c => (c.1, c.2.length))) pre.length).map
        (fun s => (s.1, pySlice (pre ++ (cols.map (·.2)).flatten) s.2.1 s.2.2)) = cols := by
  induction cols with
  | nil => intro pre; simp [cumSlices]
  | cons c cs ih =>
    intro pre
    obtain ⟨n, v⟩ := c
    have h1 : pySlice (pre ++ (v ++ (cs.map (·.2)).flatten)) pre.length (pre.length + v.length) = v := by
      unfold pySlice
      simp
    have ih' := ih (pre ++ v)
    simp only [List.length_append, List.append_assoc] at ih'
    simp only [List.map_cons, cumSlices, List.flatten_cons, h1, ih']

end Nb.C16
