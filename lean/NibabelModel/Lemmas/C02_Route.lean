import NibabelModel.Model.C02_Route
import NibabelModel.Lemmas.C02_More
import NibabelModel.Lemmas.C02_Tfm
/-! Lemmas/C02_Route — construction routes, header fields on disk, readers, get_fdata histories -/
namespace Nb.C02

theorem HK.cls_ne_mgh (k : HK) : k.cls ≠ .mgh := by cases k <;> simp [HK.cls]

/-- what an accepted `set_slope_inter(s, b)` leaves in the fields is read back as exactly `(s, b)` -/
theorem setSIF_read {k : HK} {s b : Rat} (f : Flds) (g : GlCal) (h : setSlopeInter k.cls s b = .ok ()) :
    ∃ f', setSIF k s b f = .ok f' ∧ proxySI k f' g = .ok (s, b) := by
  cases k with
  | nifti =>
    simp only [HK.cls, setSlopeInter] at h
    split at h
    · cases h
    · rename_i hs
      refine ⟨⟨.fin s, .fin b⟩, by simp [setSIF, hs], ?_⟩
      simp [proxySI, readSI, hs, Except.map]
  | spm99 =>
    simp only [HK.cls, setSlopeInter] at h
    split at h
    · cases h
    · rename_i hs
      split at h
      · rename_i hb
        refine ⟨{ f with slope := .fin s }, by simp [setSIF, hs, hb], ?_⟩
        simp [proxySI, readSI, hs, hb, Except.map]
      · cases h
  | spm2 =>
    simp only [HK.cls, setSlopeInter] at h
    split at h
    · cases h
    · rename_i hs
      split at h
      · rename_i hb
        refine ⟨⟨.fin s, .fin 0⟩, by simp [setSIF, hs, hb], ?_⟩
        simp [proxySI, readSI, hs, hb, Except.map]
      · cases h
  | analyze =>
    simp only [HK.cls, setSlopeInter] at h
    split at h
    · rename_i hsb
      refine ⟨f, by simp [setSIF, hsb], ?_⟩
      simp [proxySI, readSI, hsb.1, hsb.2, Except.map]
    · cases h

theorem scaleMeF_view {k : HK} {f : Flds} (h : scaleMeF k f = true) :
    (k.cls.caps.hasSlope = true → f.slope = .nan) ∧ (k.cls.caps.hasInter = true → f.inter = .nan) := by
  unfold scaleMeF at h
  constructor
  · intro hk
    simp only [hk, Bool.not_true, Bool.false_or, Bool.and_eq_true] at h
    cases hf : f.slope <;> simp_all [Fld.isNan]
  · intro hk
    simp only [hk, Bool.not_true, Bool.false_or, Bool.and_eq_true] at h
    cases hf : f.inter <;> simp_all [Fld.isNan]

theorem toFileMapFWith_inv {set : HK → Rat → Rat → Flds → Except Err Flds} {k : HK} {rnd : Rat → Rat} {p32 : Nat}
    {i : InT} {dt : DT} {f : Flds} {arg : Option DT} {data : List Val} {res} {disk after : Flds}
    (e : toFileMapFWith set k rnd p32 i dt f arg data = some (res, disk, after)) :
    ∃ o h', effectiveOut dt arg = some o ∧
      toFileMap k.cls rnd p32 i ⟨dt, f.slope.consum, f.inter.consum⟩ arg data = some (res, h') ∧
      disk = hdrWrittenWith set k rnd p32 i o f data ∧
      after = { slope := if k.cls.caps.hasSlope then f.slope else disk.slope,
                inter := if k.cls.caps.hasInter then f.inter else disk.inter } := by
  unfold toFileMapFWith at e
  simp only at e
  split at e
  · cases e
  · split at e
    · rename_i o r h' ho ht
      injection e with e
      injection e with e1 e
      injection e with e2 e3
      subst e1 e2
      exact ⟨o, h', ho, ht, rfl, e3.symm⟩
    · cases e

/-- READER INVERTS WRITER (lemma form) -/
theorem reader_inverts {k : HK} {rnd : Rat → Rat} {p32 : Nat} {i : InT} {dt : DT} {f : Flds} {arg : Option DT}
    {data : List Val} {s b : Rat} {raws : List Int} {disk after : Flds} (g : GlCal)
    (hsm : scaleMeF k f = true)
    (e : toFileMapF k rnd p32 i dt f arg data = some (.ok (s, b, raws), disk, after)) :
    proxySI k disk g = .ok (s, b) := by
  obtain ⟨o, h', ho, ht, hd, _⟩ := toFileMapFWith_inv e
  obtain ⟨v1, v2⟩ := scaleMeF_view hsm
  rw [toFileMap_eq_save k.cls_ne_mgh rnd p32 i _ arg o data (fun hk => by simp [v1 hk, Fld.consum])
    (fun hk => by simp [v2 hk, Fld.consum]) ho] at ht
  injection ht with ht
  injection ht with ht _
  obtain ⟨hw, hset⟩ := save_scale k.cls_ne_mgh ht
  obtain ⟨f', hf', hr⟩ := setSIF_read f g hset
  rw [hd]
  unfold hdrWrittenWith
  simp only [hsm, if_true, makeWriter_caps, hw, hf']
  exact hr


/-- every construction route ends in the "calculate the scaling" state, with no infinite consumable field -/
theorem routeFlds_scaleMe (r : Route) (dk k : HK) (F : Flds) :
    scaleMeF k (routeFlds r dk k F) = true ∧
    (k.cls.caps.hasSlope = true → (routeFlds r dk k F).slope = .nan) ∧
    (k.cls.caps.hasInter = true → (routeFlds r dk k F).inter = .nan) ∧
    (k = .spm2 → (routeFlds r dk k F).inter = .fin 0) := by
  cases r <;> cases k <;>
    simp [routeFlds, routeFldsWith, ctorReset, scaleMeF, HK.cls, Cls.caps, Fld.isNan]

/-- in the "calculate" state the result of `to_file_map` is `save` for the on-disk type of the call, whatever else the
    fields hold -/
theorem toFileMapF_eq_save {k : HK} (rnd : Rat → Rat) (p32 : Nat) (i : InT) (dt : DT) {f : Flds} (arg : Option DT)
    (o : OutT) (data : List Val) (hsm : scaleMeF k f = true) (ho : effectiveOut dt arg = some o) :
    ∃ disk after, toFileMapF k rnd p32 i dt f arg data = some (save k.cls rnd p32 i o data, disk, after) := by
  obtain ⟨v1, v2⟩ := scaleMeF_view hsm
  have hs : (k.cls.caps.hasSlope && f.slope.isInf) = false := by
    cases hk : k.cls.caps.hasSlope
    · rfl
    · simp [v1 hk, Fld.isInf]
  have hi : (k.cls.caps.hasInter && f.inter.isInf) = false := by
    cases hk : k.cls.caps.hasInter
    · rfl
    · simp [v2 hk, Fld.isInf]
  have w1 : k.cls.caps.hasSlope = true → (⟨dt, f.slope.consum, f.inter.consum⟩ : Hdr).slope = none :=
    fun hk => by simp [v1 hk, Fld.consum]
  have w2 : k.cls.caps.hasInter = true → (⟨dt, f.slope.consum, f.inter.consum⟩ : Hdr).inter = none :=
    fun hk => by simp [v2 hk, Fld.consum]
  refine ⟨hdrWrittenWith setSIF k rnd p32 i o f data,
    { slope := if k.cls.caps.hasSlope then f.slope else (hdrWrittenWith setSIF k rnd p32 i o f data).slope,
      inter := if k.cls.caps.hasInter then f.inter else (hdrWrittenWith setSIF k rnd p32 i o f data).inter }, ?_⟩
  unfold toFileMapF toFileMapFWith
  simp only [hs, hi, Bool.or_self, Bool.false_eq_true, if_false, ho,
    toFileMap_eq_save k.cls_ne_mgh rnd p32 i ⟨dt, f.slope.consum, f.inter.consum⟩ arg o data w1 w2 ho]

/-- files written by nibabel BEFORE a029be1a (SPM2 `set_slope_inter` leaving `scl_inter` alone): as long as the stale
    field is 0 or not finite (the NaN a NIfTI donor header carries) the current reader returns what the writer meant -/
theorem reader_inverts_orig_spm2 {rnd : Rat → Rat} {p32 : Nat} {i : InT} {dt : DT} {f : Flds} {arg : Option DT}
    {data : List Val} {s b : Rat} {raws : List Int} {disk after : Flds} (g : GlCal)
    (hsm : scaleMeF .spm2 f = true) (hst : ∀ r, f.inter = .fin r → r = 0)
    (e : toFileMapFOrig .spm2 rnd p32 i dt f arg data = some (.ok (s, b, raws), disk, after)) :
    proxySI .spm2 disk g = .ok (s, b) := by
  obtain ⟨o, h', ho, ht, hd, _⟩ := toFileMapFWith_inv e
  obtain ⟨v1, v2⟩ := scaleMeF_view hsm
  rw [toFileMap_eq_save (HK.cls_ne_mgh .spm2) rnd p32 i _ arg o data (fun hk => by simp [v1 hk, Fld.consum])
    (fun hk => by simp [v2 hk, Fld.consum]) ho] at ht
  injection ht with ht
  injection ht with ht _
  obtain ⟨hw, hset⟩ := save_scale (HK.cls_ne_mgh .spm2) ht
  simp only [HK.cls, setSlopeInter] at hset
  split at hset
  · cases hset
  · rename_i hs
    split at hset
    · rename_i hb
      rw [hd]
      unfold hdrWrittenWith
      have hw' : writerScale Writer.slope rnd p32 i o data = .ok (s, b) := hw
      simp only [hsm, if_true, HK.cls, Cls.caps, makeWriter, Bool.not_true, Bool.and_false, Bool.false_eq_true,
        if_false, hw', setSIFOrig, setSIF, hs, hb]
      cases hf : f.inter with
      | fin r => simp [proxySI, readSI, hs, Except.map, hst r hf]
      | nan => simp [proxySI, readSI, hs, Except.map]
      | pinf => simp [proxySI, readSI, hs, Except.map]
      | ninf => simp [proxySI, readSI, hs, Except.map]
    · cases hset

/-- get_fdata / in-place edits / uncache never change what a PROXY image (or an integer array image that is not
    edited through `img.dataobj`) writes -/
def NoAlias (st : ImgSt) : Prop := st.last ≠ some none ∧ ∀ c a, st.cache = some (c, a) → a ≠ none

theorem stepH_noAlias {isProxy : Bool} {arrFT : Option FT} (cast : FT → List Val → List Val) {st : ImgSt} (op : HOp)
    (hk : isProxy = true ∨ (arrFT = none ∧ ∀ e, op ≠ .editObj e)) (hn : NoAlias st) :
    NoAlias (stepH isProxy arrFT cast st op) ∧ (stepH isProxy arrFT cast st op).data = st.data := by
  have hal : ∀ dt, (!isProxy && arrFT = some dt) = false := by
    intro dt
    rcases hk with h | ⟨h, _⟩ <;> simp [h]
  obtain ⟨h1, h2⟩ := hn
  cases op with
  | fd dt fill =>
    simp only [stepH, hal]
    cases hc : st.cache with
    | none =>
      cases fill <;> simp [NoAlias]
    | some ca =>
      obtain ⟨c, a⟩ := ca
      simp only
      split
      · refine ⟨⟨?_, ?_⟩, rfl⟩
        · simp only [ne_eq, Option.some.injEq]; exact h2 c a hc
        · intro c' a' e; exact h2 c' a' (hc ▸ e)
      · cases fill <;> simp [NoAlias]
        · intro e; exact h2 c a hc e
  | edit e =>
    simp only [stepH]
    cases hl : st.last with
    | none => exact ⟨⟨by simp [hl], h2⟩, rfl⟩
    | some a =>
      cases a with
      | none => exact absurd hl h1
      | some xs =>
        refine ⟨⟨by simp, ?_⟩, rfl⟩
        intro c a hca
        simp only at hca
        split at hca
        · cases hc : st.cache with
          | none => simp [hc] at hca
          | some ca => simp [hc] at hca; rw [← hca.2]; simp
        · exact h2 c a hca
  | uncache =>
    exact ⟨⟨h1, by simp [stepH]⟩, rfl⟩
  | editObj e =>
    rcases hk with h | ⟨_, h⟩
    · simp [stepH, h]; exact ⟨h1, h2⟩
    · exact absurd rfl (h e)

theorem runH_data (isProxy : Bool) (arrFT : Option FT) (cast : FT → List Val → List Val) (ops : List HOp) :
    ∀ (st : ImgSt), (isProxy = true ∨ (arrFT = none ∧ ∀ op ∈ ops, ∀ e, op ≠ .editObj e)) → NoAlias st →
      (runH isProxy arrFT cast st ops).data = st.data := by
  induction ops with
  | nil => intro st _ _; rfl
  | cons op rest ih =>
    intro st hk hn
    have hk1 : isProxy = true ∨ (arrFT = none ∧ ∀ e, op ≠ .editObj e) := by
      rcases hk with h | ⟨h1, h2⟩
      · exact .inl h
      · exact .inr ⟨h1, h2 op (List.mem_cons_self ..)⟩
    have hk2 : isProxy = true ∨ (arrFT = none ∧ ∀ op' ∈ rest, ∀ e, op' ≠ .editObj e) := by
      rcases hk with h | ⟨h1, h2⟩
      · exact .inl h
      · exact .inr ⟨h1, fun op' hm => h2 op' (List.mem_cons_of_mem _ hm)⟩
    obtain ⟨hn', hd'⟩ := stepH_noAlias cast op hk1 hn
    simp only [runH]
    rw [ih _ hk2 hn', hd']

end Nb.C02
