/-
  Lemmas/C12_Gen — stage T for nibabel/filename_parser.py: the functions TRANSLATED from the working tree on every run
  (`Generated/C12Funcs.lean`, by harness/py2lean_c12.py) against the hand-written model `Model/C12.lean`.
  Embedding: a Python `str` is a Lean `String`; the model's `Str` is its list of code points (`PyS.codes`).
  Proved here: `_endswith`, `_iendswith` equal the model's `endsWith` / `iendsWith`; the suffix-search loop of
  `splitext_addext` (for … break … else, through the function-valued local `endswith`) finds the model's `find?` and cuts
  like `cutEnd`; the tail (`rfind`, `strip`, slices) and the whole `splitext_addext` = `splitextAddext`
  (`gen_splitext_addext_eq`).  Core Lean only.
-/
import NibabelModel.Model.C12
import NibabelModel.Generated.C12Funcs
import NibabelModel.Lemmas.PyVal
namespace Nb.C12.GenT
open Nb.Py Nb.Py.V Nb.PyS

theorem toNat_ofNat_small (n : Nat) (h : n < 55296) : (Char.ofNat n).toNat = n := by
  unfold Char.ofNat
  have : n.isValidChar := Or.inl h
  simp [this, Char.ofNatAux, Char.toNat]

theorem lowerCh_toNat (c : Char) : (lowerCh c).toNat = Nb.C12.lowerC c.toNat := by
  unfold lowerCh Nb.C12.lowerC
  split
  · rw [toNat_ofNat_small]; omega
  · rfl

theorem upperCh_toNat (c : Char) : (upperCh c).toNat = Nb.C12.upperC c.toNat := by
  unfold upperCh Nb.C12.upperC
  split
  · rw [toNat_ofNat_small]; omega
  · rfl

@[simp] theorem codes_ofList (l : List Char) : codes (String.ofList l) = l.map Char.toNat := by
  simp [codes]

theorem codes_lower (s : String) : codes (PyS.lower s) = Nb.C12.lower (codes s) := by
  simp [PyS.lower, Nb.C12.lower, codes, List.map_map, Function.comp_def, lowerCh_toNat]

theorem codes_upper (s : String) : codes (PyS.upper s) = Nb.C12.upper (codes s) := by
  simp [PyS.upper, Nb.C12.upper, codes, List.map_map, Function.comp_def, upperCh_toNat]

theorem gen_endswith_eq (w e : String) :
    Gen.C12F.py_endswith (.str w) (.str e) = .ok (.bool (Nb.C12.endsWith (codes w) (codes e))) := by
  simp [Gen.C12F.py_endswith, strEndswith, PyS.endswith, Nb.C12.endsWith]

theorem gen_iendswith_eq (w e : String) :
    Gen.C12F.py_iendswith (.str w) (.str e) = .ok (.bool (Nb.C12.iendsWith (codes w) (codes e))) := by
  simp [Gen.C12F.py_iendswith, strEndswith, strLower, PyS.endswith, Nb.C12.iendsWith, codes_lower]


def tag (mc : Bool) : V := if mc then .str "fn:_endswith" else .str "fn:_iendswith"

theorem sae_call2_tag (mc : Bool) (w e : String) :
    Gen.C12F.splitext_addext_call2 (tag mc) (.str w) (.str e) = .ok (.bool (endsFn mc (codes w) (codes e))) := by
  cases mc <;> simp [tag, Gen.C12F.splitext_addext_call2, gen_endswith_eq, gen_iendswith_eq, endsFn]

theorem codes_length (s : String) : (codes s).length = s.toList.length := by simp [codes]

theorem cut_codes (fn : String) (n : Nat) :
    (codes (PyS.sliceTo fn (-(n : Int))), codes (PyS.sliceFrom fn (-(n : Int)))) = cutEnd (codes fn) n := by
  unfold PyS.sliceTo PyS.sliceFrom cutEnd bound
  by_cases h : n = 0
  · subst h; simp [codes]
  · have h1 : (-(n : Int)) < 0 := by omega
    simp [h, codes, List.map_take, List.map_drop]
    rw [if_pos (by omega)]; omega

open Gen.C12F in
theorem sae_loop_broken (A : List String) (s : splitext_addext_Locals) (h : s._brk1 = .bool true) :
    ∃ s', splitext_addext_loop1 (ofList (A.map V.str)) s = .ok (.next s') ∧ s'.filename = s.filename ∧
      s'.addext = s.addext ∧ s'._brk1 = .bool true := by
  induction A generalizing s with
  | nil => exact ⟨s, by simp [splitext_addext_loop1], rfl, rfl, h⟩
  | cons a A ih =>
    simp only [List.map_cons, ofList, splitext_addext_loop1, splitext_addext_body1, h, truthy_bool, bind_ok,
      ↓reduceIte, pure_eq_ok]
    obtain ⟨s', h1, h2, h3, h4⟩ := ih ⟨s.filename, s.addexts, s.match_case, .bool true, .str a, s.extpos, s.endswith,
      s.ext, s.addext, s.root⟩ rfl
    exact ⟨s', by simpa [h] using h1, h2, h3, h4⟩


open Gen.C12F in
theorem sae_loop (mc : Bool) (fn : String) (A : List String) (s : splitext_addext_Locals)
    (hb : s._brk1 = .bool false) (hf : s.filename = .str fn) (he : s.endswith = tag mc) :
    ∃ s', splitext_addext_loop1 (ofList (A.map V.str)) s = .ok (.next s') ∧
      match A.find? (fun e => endsFn mc (codes fn) (codes e)) with
      | Option.some e => s'.filename = .str (PyS.sliceTo fn (-(e.toList.length : Int))) ∧
          s'.addext = .str (PyS.sliceFrom fn (-(e.toList.length : Int))) ∧ s'._brk1 = .bool true
      | Option.none => s'.filename = .str fn ∧ s'._brk1 = .bool false := by
  induction A generalizing s with
  | nil => exact ⟨s, by simp [splitext_addext_loop1], by simp [hf, hb]⟩
  | cons a A ih =>
    by_cases hm : endsFn mc (codes fn) (codes a) = true
    · obtain ⟨s', h1, h2, h3, h4⟩ := sae_loop_broken A ⟨.str (PyS.sliceTo fn (-(a.toList.length : Int))), s.addexts,
        s.match_case, .bool true, .str a, .int (-(a.toList.length : Int)), tag mc, .str a,
        .str (PyS.sliceFrom fn (-(a.toList.length : Int))), s.root⟩ rfl
      refine ⟨s', ?_, ?_⟩
      · simp only [List.map_cons, ofList, splitext_addext_loop1, splitext_addext_body1, hb, hf, he, truthy_bool, bind_ok,
          pure_eq_ok, sae_call2_tag, hm, lenS, neg_int, V.sliceTo, V.sliceFrom]
        simpa using h1
      · simp only [List.find?_cons, hm]
        exact ⟨h2, h3, h4⟩
    · have hm' : endsFn mc (codes fn) (codes a) = false := by simpa using hm
      obtain ⟨s', h1, h2⟩ := ih ⟨s.filename, s.addexts, s.match_case, s._brk1, .str a, s.extpos, s.endswith, .str a,
        s.addext, s.root⟩ hb hf he
      refine ⟨s', ?_, ?_⟩
      · simp only [List.map_cons, ofList, splitext_addext_loop1, splitext_addext_body1, hb, hf, he, truthy_bool, bind_ok,
          pure_eq_ok, sae_call2_tag, hm']
        simpa [hb, hf, he] using h1
      · simpa only [List.find?_cons, hm'] using h2


theorem splitLast_rfindL (c : Nat) (l : List Nat) :
    splitLast c l = (rfindL c l).map (fun i => (l.take i, l.drop i)) := by
  induction l with
  | nil => rfl
  | cons x xs ih =>
    simp only [splitLast, rfindL, ih]
    cases rfindL c xs with
    | none => by_cases h : x = c <;> simp [h]
    | some i => simp

theorem rfindL_lt (c : Nat) (l : List Nat) (i : Nat) (h : rfindL c l = Option.some i) : i < l.length := by
  induction l generalizing i with
  | nil => simp [rfindL] at h
  | cons x xs ih =>
    simp only [rfindL] at h
    cases hr : rfindL c xs with
    | none =>
      rw [hr] at h
      by_cases hx : x = c <;> simp [hx] at h
      subst h; simp
    | some j =>
      rw [hr] at h
      simp at h
      have := ih j hr
      subst h; simp; omega

theorem dropWhile_all {α} (p : α → Bool) (l : List α) : (∀ x ∈ l.dropWhile p, p x = true) ↔ ∀ x ∈ l, p x = true := by
  induction l with
  | nil => simp
  | cons a l ih =>
    by_cases h : p a = true
    · simp [h, ih]
    · simp [h]

theorem dropWhile_nil {α} (p : α → Bool) (l : List α) : l.dropWhile p = [] ↔ ∀ x ∈ l, p x = true := by
  induction l with
  | nil => simp
  | cons a l ih =>
    by_cases h : p a = true
    · simp [h, ih]
    · simp [h]

theorem strip_empty (f : String) (c : Nat) : (PyS.strip f c == "") = (codes f).all (· = c) := by
  have h1 : (PyS.strip f c == "") = true ↔ ∀ x ∈ f.toList, (x.toNat == c) = true := by
    unfold PyS.strip
    rw [beq_iff_eq, ← String.toList_inj]
    simp only [String.toList_ofList, String.toList_empty, List.reverse_eq_nil_iff]
    rw [dropWhile_nil, ← dropWhile_all (fun x : Char => x.toNat == c) f.toList]
    simp
  have h2 : (codes f).all (· = c) = true ↔ ∀ x ∈ f.toList, (x.toNat == c) = true := by
    simp [codes]
  rw [Bool.eq_iff_iff, h1, h2]


theorem codes_sliceTo_nat (f : String) (i : Nat) (h : i < (codes f).length) :
    codes (PyS.sliceTo f (i : Int)) = (codes f).take i ∧ codes (PyS.sliceFrom f (i : Int)) = (codes f).drop i := by
  have h' : i < f.toList.length := by simpa [codes] using h
  have hb : bound f.toList.length (i : Int) = i := by
    unfold bound; rw [if_neg (by omega)]; simp; omega
  simp [PyS.sliceTo, PyS.sliceFrom, hb, codes, List.map_take, List.map_drop]

/-! ### `splitext_addext`: tail and full equality -/

theorem codes_empty : codes "" = [] := by simp [codes]

/-- the part of `splitext_addext` after the loop, on values -/
theorem sae_tail (f : String) :
    ∃ a b, (if (decide (PyS.rfind f 46 < 0) || (PyS.strip f 46 == "")) then (f, "")
            else (PyS.sliceTo f (PyS.rfind f 46), PyS.sliceFrom f (PyS.rfind f 46))) = (a, b) ∧
      (match splitLast 46 (codes f) with
        | Option.none => (codes f, [])
        | Option.some (x, y) => if (codes f).all (· = 46) then (codes f, []) else (x, y)) = (codes a, codes b) := by
  rw [splitLast_rfindL, strip_empty]
  unfold PyS.rfind
  cases hr : rfindL 46 (codes f) with
  | none => exact ⟨f, "", by simp, by simp [codes_empty]⟩
  | some i =>
    have hi := rfindL_lt 46 (codes f) i hr
    obtain ⟨h1, h2⟩ := codes_sliceTo_nat f i hi
    by_cases ha : (codes f).all (· = 46) = true
    · exact ⟨f, "", by simp [ha], by simp only [Option.map_some]; rw [if_pos ha, codes_empty]⟩
    · have ha' : (codes f).all (· = 46) = false := by simpa using ha
      refine ⟨PyS.sliceTo f (i : Int), PyS.sliceFrom f (i : Int), ?_, ?_⟩
      · have : ¬ ((i : Int) < 0) := by omega
        simp [ha', this]
      · simp only [Option.map_some]; rw [if_neg ha, h1, h2]


/-- the second half of the model's `splitextAddext` -/
def saeSplit (l : Str) : Str × Str :=
  match splitLast DOT l with
  | Option.none => (l, [])
  | Option.some (x, y) => if l.all (· = DOT) then (l, []) else (x, y)

def saeAssemble (r : Str × Str) : Str × Str × Str :=
  match splitLast DOT r.1 with
  | Option.none => (r.1, [], r.2)
  | Option.some (a, b) => if r.1.all (· = DOT) then (r.1, [], r.2) else (a, b, r.2)

theorem saeAssemble_eq (r : Str × Str) : saeAssemble r = ((saeSplit r.1).1, (saeSplit r.1).2, r.2) := by
  unfold saeAssemble saeSplit
  cases h : splitLast DOT r.1 with
  | none => rfl
  | some p =>
    obtain ⟨x, y⟩ := p
    by_cases ha : (r.1.all (· = DOT)) = true
    · simp only [if_pos ha]
    · simp only [if_neg ha]

theorem splitextAddext_split (fn : Str) (A : List Str) (mc : Bool) :
    splitextAddext fn A mc =
      (let r : Str × Str := match A.find? (endsFn mc fn) with
        | Option.some e => cutEnd fn e.length
        | Option.none => (fn, [])
       ((saeSplit r.1).1, (saeSplit r.1).2, r.2)) := by
  rw [← saeAssemble_eq]; rfl

theorem sae_tail_V (f ad : String) : ∃ a b,
    (do
      let c ← (if PyS.rfind f 46 < 0 then (Except.ok true : M Bool) else Except.ok (PyS.strip f 46 == ""))
      if c = true then (Except.ok ((str f).tup3 (str "") (str ad)) : M V)
      else Except.ok ((str (PyS.sliceTo f (PyS.rfind f 46))).tup3 (str (PyS.sliceFrom f (PyS.rfind f 46))) (str ad))) =
      Except.ok ((str a).tup3 (str b) (str ad)) ∧ saeSplit (codes f) = (codes a, codes b) := by
  obtain ⟨a, b, h1, h2⟩ := sae_tail f
  refine ⟨a, b, ?_, h2⟩
  by_cases hr : PyS.rfind f 46 < 0
  · simp [hr] at h1 ⊢; simp [h1.1, h1.2]
  · by_cases hst : (PyS.strip f 46 == "") = true
    · simp [hr, hst] at h1 ⊢; simp [h1.1, h1.2]
    · simp [hr, hst] at h1 ⊢; simp [h1.1, h1.2]

theorem tag_true : tag true = .str "fn:_endswith" := rfl
theorem tag_false : tag false = .str "fn:_iendswith" := rfl

theorem find_codes (p : Str → Bool) (A : List String) :
    (A.map codes).find? p = (A.find? (fun e => p (codes e))).map codes := by
  induction A with
  | nil => rfl
  | cons a A ih => by_cases h : p (codes a) = true <;> simp [h, ih]

open Gen.C12F in
theorem gen_splitext_addext_eq (fn : String) (A : List String) (mc : Bool) :
    ∃ a b c, splitext_addext (.str fn) (ofList (A.map V.str)) (.bool mc) = .ok (.tup3 (.str a) (.str b) (.str c)) ∧
      (codes a, codes b, codes c) = splitextAddext (codes fn) (A.map codes) mc := by
  obtain ⟨s', hl, hs⟩ := sae_loop mc fn A ⟨.str fn, ofList (A.map V.str), .bool mc, .bool false, .none, .none, tag mc,
    .none, .none, .none⟩ rfl rfl rfl
  rw [splitextAddext_split, find_codes]
  cases mc <;>
  · simp only [splitext_addext, stringifyPath, truthy_bool, bind_ok, pure_eq_ok, asList_ofList, tag_true, tag_false] at hl ⊢
    simp only [hl, bind_ok]
    cases hfind : A.find? (fun e => endsFn _ (codes fn) (codes e)) with
    | none =>
      rw [hfind] at hs
      obtain ⟨hf, hb⟩ := hs
      simp [hf, hb, strRfind, strStrip, V.sliceTo, V.sliceFrom]
      obtain ⟨a, b, h1, h2⟩ := sae_tail_V fn ""
      exact ⟨a, b, "", h1, by simp [h2, codes_empty]⟩
    | some e =>
      rw [hfind] at hs
      obtain ⟨hf, ha, hb⟩ := hs
      simp [hf, ha, hb, strRfind, strStrip, V.sliceTo, V.sliceFrom]
      have hc := cut_codes fn e.toList.length
      obtain ⟨a, b, h1, h2⟩ := sae_tail_V (PyS.sliceTo fn (-(e.toList.length : Int))) (PyS.sliceFrom fn (-(e.toList.length : Int)))
      refine ⟨a, b, _, h1, ?_⟩
      simp [codes_length, ← hc, h2]

end Nb.C12.GenT
