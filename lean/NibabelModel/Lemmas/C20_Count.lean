import NibabelModel.Lemmas.C20_Complete
/-! Lemmas/C20_Count — when some slice position occurs only in complete label sets, `_get_n_vols`
    counts exactly the complete label sets and `prod(shape[2:])` is the number of their records. -/
namespace Nb.C20

theorem mem_sliceRange (smax s : Int) : s ∈ sliceRange smax ↔ 1 ≤ s ∧ s ≤ smax := by
  unfold sliceRange
  simp only [List.mem_map, List.mem_range]
  constructor
  · rintro ⟨i, hi, rfl⟩; omega
  · rintro ⟨h1, h2⟩; exact ⟨(s - 1).toNat, by omega, by omega⟩

theorem sliceRange_nodup (smax : Int) : (sliceRange smax).Nodup := by
  unfold sliceRange List.Nodup
  rw [List.pairwise_map]
  exact (List.nodup_range (n := smax.toNat)).imp (fun {a b} h e => h (by omega))

theorem sliceRange_length (smax : Int) : (sliceRange smax).length = smax.toNat := by
  simp [sliceRange]

/-! ### sums over the slice range -/

theorem sum_map_add {β : Type} (f g : β → Nat) : ∀ l : List β,
    (l.map fun x => f x + g x).sum = (l.map f).sum + (l.map g).sum
  | [] => rfl
  | a :: l => by simp [sum_map_add f g l]; omega

theorem sum_map_const {β : Type} (k : Nat) : ∀ l : List β, (l.map fun _ => k).sum = l.length * k
  | [] => by simp
  | a :: l => by simp [sum_map_const k l, Nat.succ_mul]; omega

theorem sum_indicator (v : Int) : ∀ R : List Int, (R.map fun s => if v == s then 1 else 0).sum = R.count v
  | [] => rfl
  | a :: R => by
      simp only [List.map_cons, List.sum_cons, sum_indicator v R, List.count_cons]
      by_cases h : v = a
      · subst h; simp; omega
      · have : ¬ a = v := fun e => h e.symm
        simp [h, this]

/-- a list whose `f`-values lie in a duplicate-free list `R` is split by those values -/
theorem length_eq_sum_filter {β : Type} (f : β → Int) (R : List Int) (hR : R.Nodup) :
    ∀ l : List β, (∀ x ∈ l, f x ∈ R) →
      l.length = (R.map fun s => (l.filter fun x => f x == s).length).sum
  | [], _ => by simp [sum_map_const]
  | a :: l, h => by
      have ih := length_eq_sum_filter f R hR l (fun x hx => h x (by simp [hx]))
      have hfun : (fun s => ((a :: l).filter fun x => f x == s).length) =
          fun s => (if f a == s then 1 else 0) + (l.filter fun x => f x == s).length := by
        funext s
        simp only [List.filter_cons]
        split <;> simp <;> omega
      rw [hfun, sum_map_add, sum_indicator, ← ih]
      have : R.count (f a) = 1 := by
        rw [hR.count]; simp [h a (by simp)]
      simp [this]; omega

end Nb.C20

namespace Nb.C20

theorem complete_congr (c : Cfg) (recs : List Rec) {a b : Rec} (h : labelKey c a = labelKey c b) :
    complete c recs a = complete c recs b := by
  unfold complete; rw [h]

/-- complete records with slice number `s` -/
def completeAt (c : Cfg) (recs : List Rec) (s : Int) : List Rec :=
  recs.filter fun r => (r.slice == s) && complete c recs r

theorem completeAt_keys_nodup (c : Cfg) {recs : List Rec} (hk : keysNodup c recs) (s : Int) :
    ((completeAt c recs s).map (labelKey c)).Nodup := by
  unfold List.Nodup
  rw [List.pairwise_map]
  have hsub : (completeAt c recs s).Pairwise (fun a b => strictKey c a ≠ strictKey c b) :=
    hk.sublist List.filter_sublist
  refine hsub.imp_of_mem ?_
  intro a b ha hb hne he
  have ha' := (List.mem_filter.1 ha).2
  have hb' := (List.mem_filter.1 hb).2
  simp only [Bool.and_eq_true, beq_iff_eq] at ha' hb'
  exact hne ((strictKey_eq_iff c a b).2 ⟨he, by rw [ha'.1, hb'.1]⟩)

theorem mem_completeAt_keys (c : Cfg) (recs : List Rec) {s : Int} (hs : s ∈ sliceRange c.maxSlices)
    (k : List Int) :
    k ∈ (completeAt c recs s).map (labelKey c) ↔
      ∃ r ∈ recs, complete c recs r = true ∧ labelKey c r = k := by
  simp only [completeAt, List.mem_map, List.mem_filter, Bool.and_eq_true, beq_iff_eq]
  constructor
  · rintro ⟨r, ⟨hr, _, hc⟩, rfl⟩; exact ⟨r, hr, hc, rfl⟩
  · rintro ⟨r, _, hc, rfl⟩
    obtain ⟨r', hr', hl, hsl⟩ := (complete_iff c recs r).1 hc s hs
    exact ⟨r', ⟨hr', hsl, by rw [complete_congr c recs hl]; exact hc⟩, hl⟩

/-- every slice position holds the same number of complete records -/
theorem completeAt_length (c : Cfg) {recs : List Rec} (hk : keysNodup c recs) {s s0 : Int}
    (hs : s ∈ sliceRange c.maxSlices) (hs0 : s0 ∈ sliceRange c.maxSlices) :
    (completeAt c recs s).length = (completeAt c recs s0).length := by
  have := (List.perm_ext_iff_of_nodup (completeAt_keys_nodup c hk s) (completeAt_keys_nodup c hk s0)).2
    (fun k => by rw [mem_completeAt_keys c recs hs, mem_completeAt_keys c recs hs0])
  simpa using this.length_eq

theorem count_tagged (recs : List Rec) (s : Int) :
    ((recs.map (·.slice)).map fun s => ((), s)).count ((), s) = (recs.filter fun r => r.slice == s).length := by
  induction recs with
  | nil => rfl
  | cons a t ih =>
    simp only [List.map_cons, List.count_cons, ih, List.filter_cons]
    by_cases h : a.slice = s <;> simp [h]

/-- **the volume count is right** when some slice position occurs only in complete label sets and at
    least one label set is complete -/
theorem nUsed_correct (c : Cfg) (recs : List Rec) (hk : keysNodup c recs)
    (hr : (recs.map (·.slice)).all (inRange c.maxSlices) = true)
    (s0 : Int) (hs0 : s0 ∈ sliceRange c.maxSlices)
    (H0 : ∀ r ∈ recs, r.slice = s0 → complete c recs r = true)
    (H1 : ∃ r ∈ recs, complete c recs r = true) :
    ∃ nv, nVols c recs = .ok nv ∧
      nUsedOf (nSlices recs) nv = (recs.filter (complete c recs)).length := by
  have hrange : ∀ r ∈ recs, r.slice ∈ sliceRange c.maxSlices := by
    intro r hrm
    have := (List.all_eq_true.1 hr) r.slice (List.mem_map.2 ⟨r, hrm, rfl⟩)
    simp only [inRange, Bool.and_eq_true, decide_eq_true_eq] at this
    exact (mem_sliceRange _ _).2 this
  -- C = number of complete records per slice position = number of records with slice s0
  have hC0 : completeAt c recs s0 = recs.filter fun r => r.slice == s0 := by
    apply List.filter_congr
    intro r hrm
    by_cases h : r.slice = s0
    · simp [h, H0 r hrm h]
    · simp [h]
  -- (c) the complete records are S * C
  have hsum : (recs.filter (complete c recs)).length =
      (sliceRange c.maxSlices).length * (completeAt c recs s0).length := by
    rw [length_eq_sum_filter (·.slice) _ (sliceRange_nodup c.maxSlices) _
      (fun x hx => hrange x (List.mem_filter.1 hx).1), ← sum_map_const]
    congr 1
    apply List.map_congr_left
    intro s hs
    rw [List.filter_filter]
    exact completeAt_length c hk hs hs0
  -- (a) n_slices = S
  have hns : nSlices recs = (sliceRange c.maxSlices).length := by
    unfold nSlices distinctCount
    apply List.Perm.length_eq
    rw [List.perm_ext_iff_of_nodup (nodup_dedup _) (sliceRange_nodup _)]
    intro s
    rw [mem_dedup]
    constructor
    · intro h
      obtain ⟨r, hrm, rfl⟩ := List.mem_map.1 h
      exact hrange r hrm
    · intro hs
      obtain ⟨r, hrm, hc⟩ := H1
      obtain ⟨r', hr', _, hsl⟩ := (complete_iff c recs r).1 hc s hs
      exact List.mem_map.2 ⟨r', hr', hsl⟩
  -- (f) C ≥ 1
  have hpos : 1 ≤ (completeAt c recs s0).length := by
    obtain ⟨r, hrm, hc⟩ := H1
    obtain ⟨r', hr', hl, hsl⟩ := (complete_iff c recs r).1 hc s0 hs0
    have : r' ∈ completeAt c recs s0 :=
      List.mem_filter.2 ⟨hr', by simp [hsl, complete_congr c recs hl, hc]⟩
    exact List.length_pos_of_mem this
  -- (e) n_vols = C
  have hnv : nVols c recs = .ok (completeAt c recs s0).length := by
    rw [nVols_eq, if_pos hr]
    apply congrArg Except.ok
    apply distinctCount_eq_of_mem_iff_lt
    intro v
    rw [mem_fullVols]
    constructor
    · rintro ⟨a, b, _, hall⟩
      have := hall s0 hs0
      cases a
      rw [count_tagged, ← hC0] at this
      exact this
    · intro hv
      refine ⟨(), s0, by rw [count_tagged, ← hC0]; exact hv, ?_⟩
      intro s hs
      rw [count_tagged]
      have h1 : (completeAt c recs s).length ≤ (recs.filter fun r => r.slice == s).length := by
        unfold completeAt
        rw [← List.filter_filter]
        exact ((List.filter_sublist (l := recs) (p := complete c recs)).filter _).length_le
      rw [completeAt_length c hk hs hs0] at h1
      omega
  refine ⟨_, hnv, ?_⟩
  rw [hsum, hns]
  unfold nUsedOf
  split
  · rfl
  · have : (completeAt c recs s0).length = 1 := by omega
    rw [this]

end Nb.C20
