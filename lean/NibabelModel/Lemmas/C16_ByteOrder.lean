import NibabelModel.Model.C16_Ext
import NibabelModel.Lemmas.C16_Trk
import NibabelModel.Lemmas.C16_File
namespace Nb.C16

/-! Lemmas/C16_Ext — byte order of the TRK header and records (core Lean only). -/

theorem decWords_encWords (e : Endian) (ws : List Nat) (h : ∀ w ∈ ws, w < 4294967296) :
    decWords e (encWords e ws) = (ws, 0) := by
  induction ws with
  | nil => rfl
  | cons w rest ih =>
    have hw := h w (by simp)
    have := ih (fun u hu => h u (by simp [hu]))
    simp only [encWords] at this
    cases e
    · simp only [encWords, List.map_cons, List.flatten_cons, enc32, encWord, List.cons_append, List.nil_append,
        decWords, this, dec32]
      rw [decWord_encWord w hw]
    · simp only [encWords, List.map_cons, List.flatten_cons, enc32, List.cons_append, List.nil_append,
        decWords, this, dec32, decWord]
      congr 1; congr 1; omega

theorem drop_seg {α} (a b : List α) (n m : Nat) (h : a.length = n) : (a ++ b).drop (n + m) = b.drop m := by
  subst h
  rw [← List.drop_drop]
  simp

theorem chunk20_flatten (fs : List (List Nat)) (h : ∀ f ∈ fs, f.length = 20) (rest : List Nat) :
    chunk20 fs.length (fs.flatten ++ rest) = fs := by
  induction fs with
  | nil => simp [chunk20]
  | cons f r ih =>
    have hf : f.length = 20 := h f (by simp)
    have := ih (fun x hx => h x (by simp [hx]))
    simp only [List.length_cons, chunk20, List.flatten_cons, List.append_assoc]
    rw [take_append_len f _ 20 hf, drop_append_len f _ 20 hf, this]

/-- a header the structured array can hold -/
structure TrkHdr.WF (h : TrkHdr) : Prop where
  a : h.blockA.length = 36
  ns : h.ns < 65536
  sn : h.scalarNames.length = 10
  sn20 : ∀ f ∈ h.scalarNames, f.length = 20
  np : h.np < 65536
  pn : h.propNames.length = 10
  pn20 : ∀ f ∈ h.propNames, f.length = 20
  b : h.blockB.length = 548
  n : h.n < 4294967296
  ver : h.version < 4294967296

theorem enc16_length (e : Endian) (v : Nat) : (enc16 e v).length = 2 := by cases e <;> rfl
theorem enc32_length (e : Endian) (v : Nat) : (enc32 e v).length = 4 := by cases e <;> rfl

theorem trkHdrBytes_length (e : Endian) (h : TrkHdr) (hw : h.WF) : (trkHdrBytes e h).length = 1000 := by
  have h1 := flatten_length_uniform 20 h.scalarNames hw.sn20
  have h2 := flatten_length_uniform 20 h.propNames hw.pn20
  simp only [trkHdrBytes, List.length_append, enc16_length, enc32_length, hw.a, hw.b, h1, h2, hw.sn, hw.pn]

theorem get16_enc (e : Endian) (v : Nat) (hv : v < 65536) (rest : List Nat) :
    get16 e (enc16 e v ++ rest) 0 = v := by
  cases e <;> simp only [get16, enc16, List.drop_zero, List.cons_append, List.nil_append, dec16] <;> omega

theorem get32_enc (e : Endian) (v : Nat) (hv : v < 4294967296) (rest : List Nat) :
    get32 e (enc32 e v ++ rest) 0 = v := by
  cases e <;> simp only [get32, enc32, encWord, List.drop_zero, List.cons_append, List.nil_append, dec32, decWord] <;> omega

theorem get16_drop (e : Endian) (l : List Nat) (off : Nat) : get16 e l off = get16 e (l.drop off) 0 := by
  simp [get16]
theorem get32_drop (e : Endian) (l : List Nat) (off : Nat) : get32 e l off = get32 e (l.drop off) 0 := by
  simp [get32]


theorem trkHdrBuf_of_long (H data : List Nat) (hH : H.length = 1000) : trkHdrBuf (H ++ data) = H := by
  unfold trkHdrBuf
  rw [take_append_len H data 1000 hH]
  have : 1000 - (H ++ data).length = 0 := by rw [List.length_append, hH]; omega
  rw [this]; simp

/-- reading the fields back from `trkHdrBytes e h` in byte order `e` -/
theorem trkHdr_fields (e : Endian) (h : TrkHdr) (hw : h.WF) :
    (trkHdrBytes e h).take trkOffNs = h.blockA ∧
    get16 e (trkHdrBytes e h) trkOffNs = h.ns ∧
    chunk20 10 ((trkHdrBytes e h).drop trkOffScalarNames) = h.scalarNames ∧
    get16 e (trkHdrBytes e h) trkOffNp = h.np ∧
    chunk20 10 ((trkHdrBytes e h).drop trkOffPropNames) = h.propNames ∧
    ((trkHdrBytes e h).drop trkOffB).take (trkOffN - trkOffB) = h.blockB ∧
    get32 e (trkHdrBytes e h) trkOffN = h.n ∧
    get32 e (trkHdrBytes e h) trkOffVersion = h.version ∧
    (trkHdrBytes e h).drop trkOffHdrSize = enc32 e h.hdrSize := by
  have h1 := flatten_length_uniform 20 h.scalarNames hw.sn20
  have h2 := flatten_length_uniform 20 h.propNames hw.pn20
  rw [hw.sn] at h1
  rw [hw.pn] at h2
  have l16 := enc16_length e
  have l32 := enc32_length e
  -- the suffixes of the header at every field offset
  have d36 : (trkHdrBytes e h).drop 36 = enc16 e h.ns ++ (h.scalarNames.flatten ++ (enc16 e h.np ++ (h.propNames.flatten ++
      (h.blockB ++ (enc32 e h.n ++ (enc32 e h.version ++ enc32 e h.hdrSize)))))) := by
    unfold trkHdrBytes; exact drop_append_len _ _ 36 hw.a
  have d38 : (trkHdrBytes e h).drop 38 = h.scalarNames.flatten ++ (enc16 e h.np ++ (h.propNames.flatten ++
      (h.blockB ++ (enc32 e h.n ++ (enc32 e h.version ++ enc32 e h.hdrSize))))) := by
    have : (trkHdrBytes e h).drop 38 = ((trkHdrBytes e h).drop 36).drop 2 := by rw [List.drop_drop]
    rw [this, d36]; exact drop_append_len _ _ 2 (l16 _)
  have d238 : (trkHdrBytes e h).drop 238 = enc16 e h.np ++ (h.propNames.flatten ++
      (h.blockB ++ (enc32 e h.n ++ (enc32 e h.version ++ enc32 e h.hdrSize)))) := by
    have : (trkHdrBytes e h).drop 238 = ((trkHdrBytes e h).drop 38).drop 200 := by rw [List.drop_drop]
    rw [this, d38]; exact drop_append_len _ _ 200 h1
  have d240 : (trkHdrBytes e h).drop 240 = h.propNames.flatten ++
      (h.blockB ++ (enc32 e h.n ++ (enc32 e h.version ++ enc32 e h.hdrSize))) := by
    have : (trkHdrBytes e h).drop 240 = ((trkHdrBytes e h).drop 238).drop 2 := by rw [List.drop_drop]
    rw [this, d238]; exact drop_append_len _ _ 2 (l16 _)
  have d440 : (trkHdrBytes e h).drop 440 = h.blockB ++ (enc32 e h.n ++ (enc32 e h.version ++ enc32 e h.hdrSize)) := by
    have : (trkHdrBytes e h).drop 440 = ((trkHdrBytes e h).drop 240).drop 200 := by rw [List.drop_drop]
    rw [this, d240]; exact drop_append_len _ _ 200 h2
  have d988 : (trkHdrBytes e h).drop 988 = enc32 e h.n ++ (enc32 e h.version ++ enc32 e h.hdrSize) := by
    have : (trkHdrBytes e h).drop 988 = ((trkHdrBytes e h).drop 440).drop 548 := by rw [List.drop_drop]
    rw [this, d440]; exact drop_append_len _ _ 548 hw.b
  have d992 : (trkHdrBytes e h).drop 992 = enc32 e h.version ++ enc32 e h.hdrSize := by
    have : (trkHdrBytes e h).drop 992 = ((trkHdrBytes e h).drop 988).drop 4 := by rw [List.drop_drop]
    rw [this, d988]; exact drop_append_len _ _ 4 (l32 _)
  have d996 : (trkHdrBytes e h).drop 996 = enc32 e h.hdrSize := by
    have : (trkHdrBytes e h).drop 996 = ((trkHdrBytes e h).drop 992).drop 4 := by rw [List.drop_drop]
    rw [this, d992]; exact drop_append_len _ _ 4 (l32 _)
  refine ⟨?_, ?_, ?_, ?_, ?_, ?_, ?_, ?_, d996⟩
  · unfold trkHdrBytes; exact take_append_len _ _ 36 hw.a
  · rw [get16_drop]; show get16 e ((trkHdrBytes e h).drop 36) 0 = _; rw [d36]; exact get16_enc e _ hw.ns _
  · show chunk20 10 ((trkHdrBytes e h).drop 38) = _
    rw [d38, ← hw.sn]; exact chunk20_flatten _ hw.sn20 _
  · rw [get16_drop]; show get16 e ((trkHdrBytes e h).drop 238) 0 = _; rw [d238]; exact get16_enc e _ hw.np _
  · show chunk20 10 ((trkHdrBytes e h).drop 240) = _
    rw [d240, ← hw.pn]; exact chunk20_flatten _ hw.pn20 _
  · show ((trkHdrBytes e h).drop 440).take 548 = _
    rw [d440]; exact take_append_len _ _ 548 hw.b
  · rw [get32_drop]; show get32 e ((trkHdrBytes e h).drop 988) 0 = _; rw [d988]; exact get32_enc e _ hw.n _
  · rw [get32_drop]; show get32 e ((trkHdrBytes e h).drop 992) 0 = _; rw [d992]; exact get32_enc e _ hw.ver _

/-- the endianness check finds the order the header was written in -/
theorem trkDetectEndian_written (e : Endian) (h : TrkHdr) (hw : h.WF) (hs : h.hdrSize = 1000) :
    trkDetectEndian (trkHdrBytes e h) = .ok e := by
  have hd : (trkHdrBytes e h).drop 996 = enc32 e h.hdrSize := (trkHdr_fields e h hw).2.2.2.2.2.2.2.2
  unfold trkDetectEndian
  rw [get32_drop .little, get32_drop .big]
  show (if get32 .little ((trkHdrBytes e h).drop 996) 0 = trkHeaderSize then _ else
        if get32 .big ((trkHdrBytes e h).drop 996) 0 = trkHeaderSize then _ else _) = _
  rw [hd, hs]
  cases e <;> rfl

theorem trkParseHeader_written (e : Endian) (h : TrkHdr) (hw : h.WF) (hs : h.hdrSize = 1000)
    (hv : h.version = 1 ∨ h.version = 2 ∨ h.version = 3) (data : List Nat) :
    trkParseHeader (trkHdrBytes e h ++ data) = .ok (e, h) := by
  have hf := trkHdr_fields e h hw
  unfold trkParseHeader
  simp only [trkHdrBuf_of_long _ data (trkHdrBytes_length e h hw), trkDetectEndian_written e h hw hs]
  rw [hf.2.2.2.2.2.2.2.1, if_pos hv, hf.1, hf.2.1, hf.2.2.1, hf.2.2.2.1, hf.2.2.2.2.1, hf.2.2.2.2.2.1, hf.2.2.2.2.2.2.1]
  have : get32 e (trkHdrBytes e h) trkOffHdrSize = h.hdrSize := by
    rw [get32_drop]; show get32 e ((trkHdrBytes e h).drop 996) 0 = _
    have hd : (trkHdrBytes e h).drop 996 = enc32 e h.hdrSize := hf.2.2.2.2.2.2.2.2
    rw [hd]
    have := get32_enc e h.hdrSize (by rw [hs]; decide) []
    simpa using this
  rw [this]

end Nb.C16
