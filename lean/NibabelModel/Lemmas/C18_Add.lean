import NibabelModel.Model.C18
import NibabelModel.Lemmas.C18
/-!
  Lemmas/C18_Add — when does `ParcelsAxis.__add__` succeed (phase-3 extension of C18; audit item
  "concat_lengths takes success as a hypothesis").  Core Lean only.
-/
namespace Nb.C18
open Nb

/-- two `nvertices` dicts are compatible when no structure has two different vertex counts -/
def NvCompatible (d e : Dict) : Prop := ∀ p ∈ e, ∀ v', dictGet d p.1 = some v' → v' = p.2

theorem mergeNv_ok_iff : ∀ (e d : Dict), (e.map (·.1)).Nodup →
    ((∃ m, mergeNv d e = .ok m) ↔ NvCompatible d e) := by
  intro e
  induction e with
  | nil => intro d _; simp [mergeNv, NvCompatible]
  | cons p rest ih =>
    intro d hn
    obtain ⟨k, v⟩ := p
    simp only [List.map_cons, List.nodup_cons] at hn
    have hrest : ∀ q ∈ rest, dictGet (dictSet d k v) q.1 = dictGet d q.1 := by
      intro q hq
      rw [dictGet_set]
      have : k ≠ q.1 := fun h => hn.1 (h ▸ List.mem_map.mpr ⟨q, hq, rfl⟩)
      simp [this]
    have hcompat : NvCompatible (dictSet d k v) rest ↔ NvCompatible d rest := by
      unfold NvCompatible
      constructor
      · intro h q hq v' hv'; exact h q hq v' (by rw [hrest q hq]; exact hv')
      · intro h q hq v' hv'; exact h q hq v' (by rw [← hrest q hq]; exact hv')
    have ih' := ih (dictSet d k v) hn.2
    unfold NvCompatible at *
    cases hg : dictGet d k with
    | none =>
      simp only [mergeNv, hg]
      rw [ih', hcompat]
      constructor
      · intro h q hq v' hv'
        rcases List.mem_cons.mp hq with rfl | hq
        · rw [hg] at hv'; cases hv'
        · exact h q hq v' hv'
      · intro h q hq v' hv'; exact h q (List.mem_cons_of_mem _ hq) v' hv'
    | some w =>
      simp only [mergeNv, hg]
      by_cases hw : w = v
      · subst hw
        simp only [ne_eq, not_true_eq_false, if_false]
        rw [ih', hcompat]
        constructor
        · intro h q hq v' hv'
          rcases List.mem_cons.mp hq with rfl | hq
          · rw [hg] at hv'; injection hv' with hv'; exact hv'.symm
          · exact h q hq v' hv'
        · intro h q hq v' hv'; exact h q (List.mem_cons_of_mem _ hq) v' hv'
      · simp only [ne_eq, hw, not_false_eq_true, if_true]
        constructor
        · rintro ⟨m, hm⟩; cases hm
        · intro h
          exact absurd (h (k, v) (List.mem_cons_self) w hg) hw

theorem mergeVolume_ok_iff (a1 : Option Nat) (s1 : Option Shape) (a2 : Option Nat) (s2 : Option Shape) :
    (∃ r, mergeVolume a1 s1 a2 s2 = .ok r) ↔ (a1 = none ∨ a2 = none ∨ (a2 = a1 ∧ s2 = s1)) := by
  unfold mergeVolume
  cases a1 with
  | none => simp
  | some x =>
    cases a2 with
    | none => simp
    | some y =>
      by_cases h : y = x ∧ s2 = s1
      · have : ¬ (y ≠ x ∨ s2 ≠ s1) := by simp [h.1, h.2]
        simp [h.1, h.2]
      · have : (y ≠ x ∨ s2 ≠ s1) := by
          by_cases hy : y = x
          · right; intro hs; exact h ⟨hy, hs⟩
          · left; exact hy
        simp only [ne_eq] at this
        simp [this]
        intro hy hs; exact h ⟨hy, hs⟩

/-- ParcelsAxis `a + b` succeeds EXACTLY when the volumes are compatible (one side has no affine, or both
    have the same affine and volume shape) and no surface structure has two different vertex counts -/
theorem parcels_add_ok_iff' (a b : Parcels) (h1 : a.voxels.length = a.name.length)
    (h2 : a.vertices.length = a.name.length) (h3 : b.voxels.length = b.name.length)
    (h4 : b.vertices.length = b.name.length) (hb : (b.nvertices.map (·.1)).Nodup) :
    (∃ r, parcelsAdd a b = .ok r) ↔
      ((a.affine = none ∨ b.affine = none ∨ (b.affine = a.affine ∧ b.shape = a.shape)) ∧
        NvCompatible a.nvertices b.nvertices) := by
  rw [← mergeVolume_ok_iff, ← mergeNv_ok_iff _ _ hb]
  unfold parcelsAdd
  constructor
  · rintro ⟨r, hr⟩
    cases hm : mergeVolume a.affine a.shape b.affine b.shape with
    | error e => simp [hm, bind, Except.bind] at hr
    | ok vs =>
      cases hn : mergeNv a.nvertices b.nvertices with
      | error e => simp [hm, hn, bind, Except.bind] at hr
      | ok nv => exact ⟨⟨vs, rfl⟩, ⟨nv, rfl⟩⟩
  · rintro ⟨⟨vs, hm⟩, ⟨nv, hn⟩⟩
    simp only [hm, hn, bind, Except.bind, parcelsMk, List.length_append, h1, h2, h3, h4, and_self, if_true]
    exact ⟨_, rfl⟩

end Nb.C18
