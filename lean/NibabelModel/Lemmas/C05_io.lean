import NibabelModel.Lemmas.C05
/-! Lemmas/C05_io — the greedy loop of `io_orientation` (orientations.py:80-91) for an ARBITRARY matrix:
    `argmax` attains the maximum, rows already used are zero, hence the rows named by the answer are
    pairwise different, in range, with flips ±1.  For 3 x 3 input without dropped axes the answer is
    one of the 48 signed permutations.  (core Lean only) -/
namespace Nb.C05
open Nb Nb.C06

/-- output axes named by the non-NaN rows -/
def rowsOf (o : OrntN) : List Nat := o.filterMap (fun x => x.map (·.1))

theorem argmaxAbsAux_spec : ∀ (l : List Int) (i best bi : Nat) (pre : List Int),
    pre.length = i → bi < i → (pre.getD bi 0).natAbs = best →
    (∀ k, k < i → (pre.getD k 0).natAbs ≤ best) →
    argmaxAbsAux l i best bi < i + l.length ∧
    ∀ k, k < i + l.length → ((pre ++ l).getD k 0).natAbs ≤ ((pre ++ l).getD (argmaxAbsAux l i best bi) 0).natAbs := by
  intro l
  induction l with
  | nil =>
    intro i best bi pre hlen hbi hbest hmax
    simp only [argmaxAbsAux, List.length_nil, Nat.add_zero, List.append_nil]
    exact ⟨hbi, fun k hk => by rw [hbest]; exact hmax k hk⟩
  | cons x xs ih =>
    intro i best bi pre hlen hbi hbest hmax
    have hpx : (pre ++ x :: xs) = (pre ++ [x]) ++ xs := by simp
    have hl1 : (pre ++ [x]).length = i + 1 := by simp [hlen]
    have hgx : (pre ++ [x]).getD i 0 = x := by
      rw [List.getD_eq_getElem?_getD, List.getElem?_append_right (by omega)]; simp [hlen]
    have hgk : ∀ k, k < i → (pre ++ [x]).getD k 0 = pre.getD k 0 := by
      intro k hk
      rw [List.getD_eq_getElem?_getD, List.getElem?_append_left (by omega), ← List.getD_eq_getElem?_getD]
    simp only [argmaxAbsAux]
    split
    · rename_i hlt
      have := ih (i + 1) x.natAbs i (pre ++ [x]) hl1 (by omega) (by rw [hgx])
        (by intro k hk
            by_cases hki : k < i
            · rw [hgk k hki]; have := hmax k hki; omega
            · have : k = i := by omega
              subst this; rw [hgx]; omega)
      rw [hpx]
      simp only [List.length_cons]
      constructor
      · have := this.1; omega
      · intro k hk; exact this.2 k (by omega)
    · rename_i hnlt
      have := ih (i + 1) best bi (pre ++ [x]) hl1 (by omega) (by rw [hgk bi hbi]; exact hbest)
        (by intro k hk
            by_cases hki : k < i
            · rw [hgk k hki]; exact hmax k hki
            · have : k = i := by omega
              subst this; rw [hgx]; omega)
      rw [hpx]
      simp only [List.length_cons]
      constructor
      · have := this.1; omega
      · intro k hk; exact this.2 k (by omega)

/-- `np.argmax(np.abs(col))` is in range and attains the maximum -/
theorem argmaxAbs_spec (l : List Int) (hl : l ≠ []) :
    argmaxAbs l < l.length ∧ ∀ k, (l.getD k 0).natAbs ≤ (l.getD (argmaxAbs l) 0).natAbs := by
  cases l with
  | nil => exact absurd rfl hl
  | cons x xs =>
    have := argmaxAbsAux_spec xs 1 x.natAbs 0 [x] rfl (by omega) rfl
      (by intro k hk; have : k = 0 := by omega
          subst this; simp)
    simp only [argmaxAbs, List.length_cons]
    constructor
    · have := this.1; omega
    · intro k
      by_cases hk : k < 1 + xs.length
      · exact this.2 k hk
      · rw [List.getD_eq_getElem?_getD, List.getElem?_eq_none (by simp; omega)]
        simp

theorem colOf_length (R : List (List Int)) (c : Nat) : (colOf R c).length = R.length := by simp [colOf]

theorem zeroRow_length (R : List (List Int)) (r : Nat) : (zeroRow R r).length = R.length := by simp [zeroRow]

theorem colOf_zeroRow (R : List (List Int)) (r c : Nat) :
    colOf (zeroRow R r) c = (colOf R c).set r 0 := by
  simp only [colOf, zeroRow, List.map_set]
  congr 1
  rw [List.getD_eq_getElem?_getD, List.getElem?_map]
  cases (R.getD r [])[c]? <;> rfl

theorem colOf_zeroRow_self (R : List (List Int)) (r c : Nat) : (colOf (zeroRow R r) c).getD r 0 = 0 := by
  rw [colOf_zeroRow, List.getD_eq_getElem?_getD, List.getElem?_set]
  simp only [if_true]
  split <;> rfl

theorem colOf_zeroRow_other (R : List (List Int)) (r c k : Nat) (h : k ≠ r) :
    (colOf (zeroRow R r) c).getD k 0 = (colOf R c).getD k 0 := by
  rw [colOf_zeroRow, List.getD_eq_getElem?_getD, List.getElem?_set, if_neg (by omega), ← List.getD_eq_getElem?_getD]

theorem ioGreedy_valid (tol : Nat) : ∀ (cs : List Nat) (R : List (List Int)) (Z : List Nat),
    (∀ r ∈ Z, ∀ c, (colOf R c).getD r 0 = 0) →
    (rowsOf (ioGreedy tol cs R)).Nodup ∧ (∀ r ∈ rowsOf (ioGreedy tol cs R), r ∉ Z ∧ r < R.length) ∧
      ∀ r f, some (r, f) ∈ ioGreedy tol cs R → (f = 1 ∨ f = -1) := by
  intro cs
  induction cs with
  | nil => intro R Z _; simp [ioGreedy, rowsOf]
  | cons c cs ih =>
    intro R Z hZ
    simp only [ioGreedy]
    split
    · have := ih R Z hZ
      refine ⟨by simpa [rowsOf] using this.1, by simpa [rowsOf] using this.2.1, ?_⟩
      intro r f hm
      simp only [List.mem_cons, reduceCtorEq, false_or] at hm
      exact this.2.2 r f hm
    · rename_i hall
      have hne : colOf R c ≠ [] := by
        intro h; rw [h] at hall; simp at hall
      obtain ⟨hlt, hmax⟩ := argmaxAbs_spec (colOf R c) hne
      rw [colOf_length] at hlt
      -- some entry exceeds tol, so the maximum does
      have hbig : tol < ((colOf R c).getD (argmaxAbs (colOf R c)) 0).natAbs := by
        apply Decidable.byContradiction
        intro hn
        apply hall
        simp only [List.all_eq_true, decide_eq_true_eq]
        intro x hx
        obtain ⟨k, hk, rfl⟩ := List.getElem_of_mem hx
        have := hmax k
        rw [List.getD_eq_getElem?_getD, List.getElem?_eq_getElem hk, Option.getD_some] at this
        omega
      have hrZ : argmaxAbs (colOf R c) ∉ Z := by
        intro hin
        rw [hZ _ hin c] at hbig
        simp at hbig
      have hZ' : ∀ r ∈ argmaxAbs (colOf R c) :: Z, ∀ c', (colOf (zeroRow R (argmaxAbs (colOf R c))) c').getD r 0 = 0 := by
        intro r hr c'
        by_cases he : r = argmaxAbs (colOf R c)
        · rw [he]; exact colOf_zeroRow_self _ _ _
        · rw [colOf_zeroRow_other _ _ _ _ he]
          simp only [List.mem_cons] at hr
          rcases hr with hr | hr
          · exact absurd hr he
          · exact hZ r hr c'
      have := ih (zeroRow R (argmaxAbs (colOf R c))) (argmaxAbs (colOf R c) :: Z) hZ'
      rw [zeroRow_length] at this
      obtain ⟨hnd, hmem, hfl⟩ := this
      refine ⟨?_, ?_, ?_⟩
      · simp only [rowsOf, List.filterMap_cons_some (show (some (argmaxAbs (colOf R c), _) : Option (Nat × Int)).map (·.1) = some _ from rfl), List.nodup_cons]
        exact ⟨fun hin => (hmem _ hin).1 List.mem_cons_self, hnd⟩
      · intro r hr
        simp only [rowsOf, List.filterMap_cons_some (show (some (argmaxAbs (colOf R c), _) : Option (Nat × Int)).map (·.1) = some _ from rfl), List.mem_cons] at hr
        rcases hr with rfl | hr
        · exact ⟨hrZ, hlt⟩
        · have := hmem r hr
          exact ⟨fun hin => this.1 (List.mem_cons_of_mem _ hin), this.2⟩
      · intro r f hm
        simp only [List.mem_cons, Option.some.injEq, Prod.mk.injEq] at hm
        rcases hm with ⟨_, rfl⟩ | hm
        · split <;> simp
        · exact hfl r f hm

theorem toOrnt_some : ∀ (o : OrntN) (oo : Ornt), o.toOrnt = some oo → o = oo.map some := by
  intro o
  induction o with
  | nil => intro oo h; simp [OrntN.toOrnt] at h; subst h; rfl
  | cons x xs ih =>
    intro oo h
    cases x with
    | none => simp [OrntN.toOrnt] at h
    | some v =>
      simp only [OrntN.toOrnt, List.mapM_cons, id, Option.pure_def, Option.bind_eq_bind, Option.bind_some] at h
      cases hxs : xs.mapM id with
      | none => simp [hxs] at h
      | some t =>
        simp [hxs] at h
        subst h
        rw [ih t hxs]; rfl

theorem ioGreedy_length (tol : Nat) : ∀ (cs : List Nat) (R : List (List Int)), (ioGreedy tol cs R).length = cs.length := by
  intro cs
  induction cs with
  | nil => intro R; rfl
  | cons c cs ih => intro R; simp only [ioGreedy]; split <;> simp [ih]

theorem isOrnt3_mem {o : Ornt} (h : isOrnt3 o = true) : o ∈ allOrnts3 := by
  obtain ⟨a0, a1, a2, f0, f1, f2, rfl, hp, hf0, hf1, hf2⟩ := isOrnt3_elim h
  simp only [perms3, List.mem_cons, List.cons.injEq, and_true, List.not_mem_nil, or_false] at hp
  rcases hp with ⟨rfl, rfl, rfl⟩ | ⟨rfl, rfl, rfl⟩ | ⟨rfl, rfl, rfl⟩ | ⟨rfl, rfl, rfl⟩ | ⟨rfl, rfl, rfl⟩ |
    ⟨rfl, rfl, rfl⟩ <;> rcases hf0 with rfl | rfl <;> rcases hf1 with rfl | rfl <;> rcases hf2 with rfl | rfl <;> decide

/-- **io_orientation_valid**: for EVERY 3-row matrix `R` (any polar factor, ties, zero columns, any
    tolerance): if `io_orientation` drops no axis, its answer is one of the 48 signed permutations. -/
theorem io_orientation_valid' (R : List (List Int)) (tol : Nat) (hR : R.length = 3) (oo : Ornt)
    (h : (ioOrientation R 3 tol).toOrnt = some oo) : ioOrientation R 3 tol = oo.map some ∧ oo ∈ allOrnts3 := by
  have hm := toOrnt_some _ _ h
  refine ⟨hm, ?_⟩
  have hv := ioGreedy_valid tol (List.range 3) R [] (by simp)
  have hl := ioGreedy_length tol (List.range 3) R
  unfold ioOrientation at hm
  rw [hm] at hv hl
  simp only [List.length_map, List.length_range] at hl
  match oo, hl with
  | [(a0, f0), (a1, f1), (a2, f2)], _ =>
    obtain ⟨hnd, hmem, hfl⟩ := hv
    simp only [rowsOf, List.map, List.filterMap, Option.map] at hnd hmem
    simp only [List.nodup_cons, List.mem_cons, List.not_mem_nil, or_false, not_or, not_false_eq_true, List.nodup_nil, and_true] at hnd
    have b0 := (hmem a0 (by simp)).2
    have b1 := (hmem a1 (by simp)).2
    have b2 := (hmem a2 (by simp)).2
    rw [hR] at b0 b1 b2
    apply isOrnt3_mem
    have g0 := hfl a0 f0 (by simp)
    have g1 := hfl a1 f1 (by simp)
    have g2 := hfl a2 f2 (by simp)
    simp only [isOrnt3, perms3, Bool.and_eq_true, decide_eq_true_eq, Bool.or_eq_true, beq_iff_eq, List.mem_cons, List.cons.injEq, and_true, List.not_mem_nil, or_false]
    refine ⟨⟨⟨?_, g0⟩, g1⟩, g2⟩
    clear hmem hfl hm h g0 g1 g2
    have e0 : a0 = 0 ∨ a0 = 1 ∨ a0 = 2 := by omega
    have e1 : a1 = 0 ∨ a1 = 1 ∨ a1 = 2 := by omega
    have e2 : a2 = 0 ∨ a2 = 1 ∨ a2 = 2 := by omega
    rcases e0 with rfl | rfl | rfl <;> rcases e1 with rfl | rfl | rfl <;> rcases e2 with rfl | rfl | rfl <;>
      simp at hnd ⊢

end Nb.C05
