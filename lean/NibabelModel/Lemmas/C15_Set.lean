import NibabelModel.Lemmas.C15_Tract
/-! Lemmas/C15_Set — `seq[idx] = other` with `other` an ArraySequence (`setSeq`, `setLoop`), `seq[idx] = [arr…]`
    and `seq[idx] = k` through any index form: storage invariant, frame, and the exact effect of the
    element-by-element loop when the value is stored in another buffer. -/
namespace Nb.C15
open Nb

theorem setLoop_eq_genLoop (db vb : Nat) (rs vs : List (Nat × Nat)) (σ : State) :
    setLoop σ db vb rs vs = genLoop (fun σ (s : Nat × Nat) => (σ.bufAt vb).slice s.1 s.2) σ db rs vs := by
  unfold setLoop
  rw [opLoop_eq_genLoop]
  rfl

/-- the loop of `__setitem__` with an ArraySequence value keeps the invariant (target and value may share a
    buffer, the target may select an array twice) -/
theorem setLoop_inv {t v : Nat} (rs : List (Nat × Nat)) :
    ∀ (vs : List (Nat × Nat)) {σ : State}, Inv σ → t < σ.seqs.length → v < σ.seqs.length →
    (∀ r ∈ rs, r ∈ (σ.seqAt t).ranges) → (∀ q ∈ vs, q ∈ (σ.seqAt v).ranges) →
    rs.map (·.2) = vs.map (·.2) →
    Inv (setLoop σ (σ.seqAt t).buf (σ.seqAt v).buf rs vs) := by
  induction rs with
  | nil => intro vs σ h _ _ _ _ _; simpa [setLoop, opLoop] using h
  | cons r rs ih =>
    intro vs σ h ht hv hr hq hm
    cases vs with
    | nil => simp at hm
    | cons q vs =>
      simp only [List.map_cons, List.cons.injEq] at hm
      simp only [setLoop, opLoop]
      have hr0 := hr r (by simp)
      have hq0 := hq q (by simp)
      have h2 := slice_length _ _ _ (h.inb v _ (get_seqAt hv) q hq0)
      have hl : (id ((σ.bufAt (σ.seqAt v).buf).slice q.1 q.2)).length = r.2 := by
        simp only [id]; rw [h2]; exact hm.1.symm
      have hi := inv_setRange h ht hr0 hl
      exact ih vs (σ := setRange σ (σ.seqAt t).buf r _) hi ht hv
        (fun x hx => hr x (by simp [hx])) (fun x hx => hq x (by simp [hx])) hm.2

theorem setSeq_ok_lens {σ σ'' : State} {t v : Nat} {rs : List (Nat × Nat)} (hs : setSeq σ t rs v = .ok σ'') :
    rs.map (·.2) = (σ.seqAt v).ranges.map (·.2) ∧
    σ'' = setLoop σ (σ.seqAt t).buf (σ.seqAt v).buf rs (σ.seqAt v).ranges := by
  unfold setSeq at hs
  simp only at hs
  split at hs
  · cases hs
  · split at hs
    · cases hs
    · split at hs
      · cases hs
      · rename_i hm
        cases hs
        simp only [Bool.not_eq_true', Bool.not_eq_false, lensMatch, beq_iff_eq] at hm
        exact ⟨hm, rfl⟩

/-- `seq[idx] = other` (other an ArraySequence, `rs` the selected ranges of `seq`): the invariant is kept, no
    sequence object changes, and NONE of the arrays of a sequence that does not share `seq`'s buffer change —
    for ANY selection (repeats, permutations) and any value (also a view of `seq`'s own buffer).
    FULL STATEMENT (not proved in this generality): … and the arrays selected take, one after the other, the
    values of the arrays of `other` as the sequential loop `for a, b in zip(selected, other): a[:] = b` leaves
    them.  Proved for `other` stored in another buffer and a selection without repeats: `setSeq_all_or_none`,
    `setSeq_selected` (Props/C15.lean).  Missing: the sequential-read analysis when target and value alias. -/
theorem setSeq_spec_partial {σ σ'' : State} (h : Inv σ) {t v : Nat} (ht : t < σ.seqs.length)
    (hv : v < σ.seqs.length) {rs : List (Nat × Nat)} (hsub : ∀ r ∈ rs, r ∈ (σ.seqAt t).ranges)
    (hs : setSeq σ t rs v = .ok σ'') :
    Inv σ'' ∧ σ''.seqs = σ.seqs ∧
    (∀ u, (σ.seqAt u).buf ≠ (σ.seqAt t).buf → σ''.contents u = σ.contents u) := by
  obtain ⟨hm, he⟩ := setSeq_ok_lens hs
  subst he
  have hf := genLoop_frame (fun σ1 (s : Nat × Nat) => (σ1.bufAt (σ.seqAt v).buf).slice s.1 s.2)
    (σ.seqAt t).buf rs (σ.seqAt v).ranges σ
  rw [← setLoop_eq_genLoop] at hf
  refine ⟨setLoop_inv rs _ h ht hv hsub (fun _ hq => hq) hm, hf.1, ?_⟩
  intro u hu
  refine contents_congr (u := u) ?_ ?_
  · rw [seqAt_of_seqs_eq hf.1]
  · intro r _
    rw [seqAt_of_seqs_eq hf.1, hf.2.2 _ hu]

/-- the loop with the value stored in ANOTHER buffer: a range `q` of the target buffer, equal to or disjoint
    from every range written, takes the rows of its partner exactly when it is one of the ranges written -/
theorem setLoop_slice (db vb : Nat) (hne : vb ≠ db) (rs : List (Nat × Nat)) :
    ∀ (vs : List (Nat × Nat)) (σ : State), db < σ.heap.length → rs.Nodup →
    rs.map (·.2) = vs.map (·.2) →
    (∀ r ∈ rs, r.1 + r.2 ≤ (σ.bufAt db).rows.length ∧ 0 < r.2) →
    (∀ v ∈ vs, v.1 + v.2 ≤ (σ.bufAt vb).rows.length) →
    ∀ (q : Nat × Nat), q.1 + q.2 ≤ (σ.bufAt db).rows.length → 0 < q.2 → (∀ r ∈ rs, eqOrDisj q r) →
    ((setLoop σ db vb rs vs).bufAt db).slice q.1 q.2 =
      match partnerOf rs vs q with
      | some v => (σ.bufAt vb).slice v.1 v.2
      | none => (σ.bufAt db).slice q.1 q.2 := by
  induction rs with
  | nil => intro vs σ _ _ _ _ _ q _ _ _; simp [setLoop, opLoop, partnerOf]
  | cons r rs ih =>
    intro vs σ hb hnd hm hin hvin q hq hqp hqc
    cases vs with
    | nil => simp at hm
    | cons v vs =>
      simp only [List.map_cons, List.cons.injEq] at hm
      simp only [setLoop, opLoop, id]
      have hrin := hin r (by simp)
      have hvin0 := hvin v (by simp)
      have hnd' := List.nodup_cons.mp hnd
      have hel : ((σ.bufAt vb).slice v.1 v.2).length = r.2 := by
        rw [slice_length (σ.bufAt vb) v.1 v.2 hvin0]; exact hm.1.symm
      generalize hE : (σ.bufAt vb).slice v.1 v.2 = el at hel
      have hb1 : (setRange σ db r el).bufAt db = (σ.bufAt db).write r.1 el := by
        simp only [setRange, setBuf_bufAt, hb, and_self, if_true]
      have hv1 : (setRange σ db r el).bufAt vb = σ.bufAt vb := by
        simp only [setRange, setBuf_bufAt]; rw [if_neg (by omega)]
      have hlen1 : ((setRange σ db r el).bufAt db).rows.length = (σ.bufAt db).rows.length := by
        rw [hb1, write_rows_length _ _ _ (by omega)]; omega
      have ih' := ih vs (setRange σ db r el) (by simp only [setRange, setBuf_heap_length]; exact hb) hnd'.2 hm.2
        (fun x hx => by rw [hlen1]; exact hin x (by simp [hx]))
        (fun x hx => by rw [hv1]; exact hvin x (by simp [hx]))
        q (by rw [hlen1]; exact hq) hqp (fun x hx => hqc x (by simp [hx]))
      simp only [setLoop] at ih'
      rw [ih', partnerOf_cons, hv1]
      by_cases hqr : r = q
      · subst hqr
        rw [partnerOf_none_of_not_mem rs vs r hnd'.1]
        simp only [if_true]
        rw [hb1]
        have := slice_write_same (σ.bufAt db) r.1 el (by omega)
        rw [hel] at this; rw [this, hE]
      · have hdis : q.1 + q.2 ≤ r.1 ∨ r.1 + r.2 ≤ q.1 := by
          rcases hqc r (by simp) with h | h | h
          · exact absurd h.symm hqr
          · exact Or.inl h
          · exact Or.inr h
        have hsame : ((setRange σ db r el).bufAt db).slice q.1 q.2 = (σ.bufAt db).slice q.1 q.2 := by
          rw [hb1]
          rcases hdis with h | h
          · exact slice_write_below _ _ _ _ _ (by omega) h
          · exact slice_write_above _ _ _ _ _ (by omega) (by omega)
        simp only [hqr, if_false, hsame]

theorem zipWith_snd_eq_map {α β γ : Type} (G : β → γ) : ∀ (as : List α) (bs : List β), as.length = bs.length →
    List.zipWith (fun _ b => G b) as bs = bs.map G := by
  intro as
  induction as with
  | nil => intro bs h; cases bs <;> simp_all
  | cons a as ih =>
    intro bs h
    cases bs with
    | nil => simp at h
    | cons b bs => simp only [List.zipWith_cons_cons, List.map_cons]; rw [ih bs (by simpa using h)]

theorem fill_length (k : Int) (e : Elem) : (fill k e).length = e.length := by
  simp [fill]

end Nb.C15
