import NibabelModel.Lemmas.C14
/-! Lemmas/C14_Private — threads whose file operations are all on handles they opened themselves (one handle per
    read: proxies on a file name without persistent opener): no interference whatever the locks.  Core tactics only. -/
namespace Nb.C14

/-- `wfO b e prog`: every file operation happens on a handle the thread has opened ITSELF (`b`: `fileobj` is bound
    to a handle of its own) and a `read`/`tell` only after the thread has positioned that handle (`e`).  Locks play
    no role; the persistent-opener actions do not occur (one handle per read). -/
def wfO : Bool → Bool → List Action → Bool
  | _, _, [] => true
  | b, e, .acquire _ :: p => wfO b e p
  | b, e, .release _ :: p => wfO b e p
  | b, _, .seek _ :: p => b && wfO b true p
  | b, _, .seekEnd :: p => b && wfO b true p
  | b, e, .tell :: p => b && e && wfO b e p
  | b, e, .read _ :: p => b && e && wfO b e p
  | _, _, .opn :: p => wfO true false p
  | _, _, .probe _ _ :: _ => false
  | _, _, .setSlot _ :: _ => false
  | _, _, .getSlot _ :: _ => false

theorem wfO_mono_e (p : List Action) : ∀ b, wfO b false p = true → wfO b true p = true := by
  induction p with
  | nil => intro b _; rfl
  | cons a r ih => intro b h; cases a <;> simp [wfO] at h ⊢ <;> first | exact ih _ h | exact h

theorem wfO_mono_b (p : List Action) : ∀ e, wfO false e p = true → wfO true e p = true := by
  induction p with
  | nil => intro e _; rfl
  | cons a r ih => intro e h; cases a <;> simp [wfO] at h ⊢ <;> first | exact ih _ h | exact h

/-- a program that must position its handle before reading does not depend on the position it finds -/
theorem solo_indepO (file : List Byte) (p : List Action) :
    ∀ b x y, wfO b false p = true → solo file x p = solo file y p := by
  induction p with
  | nil => intro b x y _; simp [solo]
  | cons a r ih =>
    intro b x y h
    cases a <;> simp [wfO] at h <;> simp only [solo]
    case acquire l => exact ih _ x y h
    case release l => exact ih _ x y h
    case opn => exact ih _ x y h

/-- will the thread touch the handle `fileobj` currently refers to? (if not, that handle is of no concern) -/
def unbound (s : State) (u : Tid) : Prop := wfO false false (s.threads u).prog = true

/-- invariant: a thread that may still touch its current handle has opened it itself, and no other such thread
    refers to the same handle -/
structure OInv (s : State) : Prop where
  sh : ∀ u, unbound s u ∨ (wfO true true (s.threads u).prog = true ∧ (s.threads u).cur < s.nh ∧
          ∀ v, v ≠ u → ¬ unbound s v → (s.threads v).cur ≠ (s.threads u).cur)

theorem oinv_init (progs : Tid → List Action) (nh : Nat) (slot0 : Nat → Option Nat) (p0 : Nat → Nat)
    (h : ∀ t, wfO false false (progs t) = true) : OInv (State.initS progs nh slot0 p0) :=
  ⟨fun u => .inl (by simpa [unbound, State.initS] using h u)⟩

theorem wfO_tail_unbound (a : Action) (r : List Action) (h : wfO false false (a :: r) = true) (ha : a ≠ .opn) :
    wfO false false r = true := by
  cases a <;> simp [wfO] at h ⊢ <;> first | exact h | exact absurd rfl ha

theorem wfO_tail_bound (a : Action) (r : List Action) (h : wfO true true (a :: r) = true) : wfO true true r = true := by
  cases a <;> simp [wfO] at h ⊢ <;> first | exact h | exact wfO_mono_e _ _ h

/-- a step of `u` that only shortens `u`'s program by one action other than `opn` -/
theorem oinv_frame (s s' : State) (u : Tid) (a : Action) (rest : List Action) (h : OInv s)
    (hp : (s.threads u).prog = a :: rest) (ha : a ≠ .opn)
    (hnh : s'.nh = s.nh) (hth : ∀ v, v ≠ u → s'.threads v = s.threads v)
    (hcur : (s'.threads u).cur = (s.threads u).cur) (hprog : (s'.threads u).prog = rest) : OInv s' := by
  have hub : unbound s u → unbound s' u := by
    intro hu; unfold unbound at hu ⊢; rw [hprog]; rw [hp] at hu; exact wfO_tail_unbound a rest hu ha
  have hoth : ∀ v, v ≠ u → (unbound s' v ↔ unbound s v) := by
    intro v hv; unfold unbound; rw [hth v hv]
  refine ⟨fun w => ?_⟩
  by_cases hw : w = u
  · subst hw
    rcases h.sh w with hu | ⟨hb, hc, hd⟩
    · exact .inl (hub hu)
    · refine .inr ⟨by rw [hprog]; rw [hp] at hb; exact wfO_tail_bound a rest hb, by rw [hcur, hnh]; exact hc, ?_⟩
      intro v hv hnb
      rw [hth v hv, hcur]
      exact hd v hv (fun x => hnb ((hoth v hv).2 x))
  · rcases h.sh w with hu | ⟨hb, hc, hd⟩
    · exact .inl ((hoth w hw).2 hu)
    · refine .inr ⟨by rw [hth w hw]; exact hb, by rw [hth w hw, hnh]; exact hc, ?_⟩
      intro v hv hnb
      rw [hth w hw]
      by_cases hvu : v = u
      · subst hvu
        rw [hcur]
        exact hd v hv (fun x => hnb (hub x))
      · rw [hth v hvu]
        exact hd v hv (fun x => hnb ((hoth v hvu).2 x))

theorem oinv_step (file : List Byte) (s : State) (h : OInv s) (u : Tid) : OInv (step file s u).1 := by
  cases hp : (s.threads u).prog with
  | nil => simp only [step, hp]; exact h
  | cons a rest =>
    have oth : ∀ (th : Thread) v, v ≠ u → upd s.threads u th v = s.threads v := fun th v hv => by simp [upd, hv]
    cases a
    case acquire l =>
      simp only [step, hp]
      cases ho : s.owner l with
      | none => exact oinv_frame s _ u _ rest h hp (by simp) rfl (oth _) (by simp [upd]) (by simp [upd])
      | some w =>
        by_cases hw : w = u
        · simp only [hw, ↓reduceIte]
          exact oinv_frame s _ u _ rest h hp (by simp) rfl (oth _) (by simp [upd]) (by simp [upd])
        · simp only [if_neg hw]; exact h
    case release l =>
      simp only [step, hp]
      by_cases ho : s.owner l = some u
      · simp only [if_pos ho]
        by_cases hc1 : s.count l ≤ 1
        · simp only [if_pos hc1]
          exact oinv_frame s _ u _ rest h hp (by simp) rfl (oth _) (by simp [upd]) (by simp [upd])
        · simp only [if_neg hc1]
          exact oinv_frame s _ u _ rest h hp (by simp) rfl (oth _) (by simp [upd]) (by simp [upd])
      · simp only [if_neg ho]; exact h
    case seek o =>
      simp only [step, hp]
      exact oinv_frame s _ u _ rest h hp (by simp) rfl (oth _) (by simp [upd]) (by simp [upd])
    case seekEnd =>
      simp only [step, hp]
      exact oinv_frame s _ u _ rest h hp (by simp) rfl (oth _) (by simp [upd]) (by simp [upd])
    case tell =>
      simp only [step, hp]
      exact oinv_frame s _ u _ rest h hp (by simp) rfl (oth _) (by simp [upd]) (by simp [upd])
    case read n =>
      simp only [step, hp]
      exact oinv_frame s _ u _ rest h hp (by simp) rfl (oth _) (by simp [upd]) (by simp [upd])
    case probe q k =>
      -- not part of such programs: the thread is neither unbound nor bound
      exfalso
      rcases h.sh u with hu | ⟨hb, _, _⟩
      · unfold unbound at hu; rw [hp] at hu; simp [wfO] at hu
      · rw [hp] at hb; simp [wfO] at hb
    case setSlot q =>
      exfalso
      rcases h.sh u with hu | ⟨hb, _, _⟩
      · unfold unbound at hu; rw [hp] at hu; simp [wfO] at hu
      · rw [hp] at hb; simp [wfO] at hb
    case getSlot q =>
      exfalso
      rcases h.sh u with hu | ⟨hb, _, _⟩
      · unfold unbound at hu; rw [hp] at hu; simp [wfO] at hu
      · rw [hp] at hb; simp [wfO] at hb
    case opn =>
      simp only [step, hp]
      have hrest : wfO true false rest = true := by
        rcases h.sh u with hu | ⟨hb, _, _⟩
        · unfold unbound at hu; rw [hp] at hu; simpa [wfO] using hu
        · rw [hp] at hb; simpa [wfO] using hb
      refine ⟨fun w => ?_⟩
      by_cases hw : w = u
      · subst hw
        refine .inr ⟨by simpa [upd] using wfO_mono_e _ _ hrest, by simp [upd], ?_⟩
        intro v hv hnb
        have hnb' : ¬ unbound s v := by
          intro x; apply hnb; unfold unbound at x ⊢; simpa [upd, hv] using x
        rcases h.sh v with hu | ⟨_, hc, _⟩
        · exact absurd hu hnb'
        · simp only [upd, if_neg hv, ↓reduceIte]; omega
      · rcases h.sh w with hu | ⟨hb, hc, hd⟩
        · left; unfold unbound at hu ⊢; simpa [upd, hw] using hu
        · right
          refine ⟨by simpa [upd, hw] using hb, by simp only [upd, if_neg hw]; omega, ?_⟩
          intro v hv hnb
          by_cases hvu : v = u
          · subst hvu; simp only [upd, if_neg hw, ↓reduceIte]; omega
          · simp only [upd, if_neg hvu, if_neg hw]
            apply hd v hv
            intro x; apply hnb; unfold unbound at x ⊢; simpa [upd, hvu] using x

/-- the actions that change the position of the current handle -/
def Action.movesPos : Action → Bool
  | .seek _ => true | .seekEnd => true | .read _ => true | _ => false

/-- a step of another thread moves neither `t`'s handle (if `t` may still touch it) nor `t` -/
theorem step_solo_O (file : List Byte) (s : State) (h : OInv s) (u t : Tid) :
    seen t u (step file s u).2 ++
      solo file ((step file s u).1.pos ((step file s u).1.threads t).cur) ((step file s u).1.threads t).prog
    = solo file (s.pos (s.threads t).cur) (s.threads t).prog := by
  by_cases hut : u = t
  · subst hut
    simp only [seen, ↓reduceIte]
    cases hp : (s.threads u).prog with
    | nil => simp [step, hp, Ev.data]
    | cons a rest =>
      cases a
      case acquire l =>
        simp only [step, hp]
        cases ho : s.owner l with
        | none => simp [upd, Ev.data, solo]
        | some w => by_cases hw : w = u <;> simp [hw, upd, Ev.data, solo, hp]
      case release l =>
        simp only [step, hp]
        by_cases ho : s.owner l = some u
        · by_cases hc1 : s.count l ≤ 1 <;> simp [ho, hc1, upd, Ev.data, solo]
        · simp [ho, Ev.data, hp]
      case seek o => simp [step, hp, upd, Ev.data, solo]
      case seekEnd => simp [step, hp, upd, Ev.data, solo]
      case tell => simp [step, hp, upd, Ev.data, solo]
      case read n => simp [step, hp, upd, Ev.data, solo]
      case setSlot q => simp [step, hp, upd, Ev.data, solo]
      case probe q k =>
        exfalso
        rcases h.sh u with hu | ⟨hb, _, _⟩
        · unfold unbound at hu; rw [hp] at hu; simp [wfO] at hu
        · rw [hp] at hb; simp [wfO] at hb
      case getSlot q =>
        exfalso
        rcases h.sh u with hu | ⟨hb, _, _⟩
        · unfold unbound at hu; rw [hp] at hu; simp [wfO] at hu
        · rw [hp] at hb; simp [wfO] at hb
      case opn =>
        have hrest : wfO true false rest = true := by
          rcases h.sh u with hu | ⟨hb, _, _⟩
          · unfold unbound at hu; rw [hp] at hu; simpa [wfO] using hu
          · rw [hp] at hb; simpa [wfO] using hb
        simp [step, hp, upd, Ev.data, solo]; exact solo_indepO file rest _ _ _ hrest
  · simp only [seen, if_neg hut, List.nil_append]
    rw [step_threads_other file s u t hut]
    rcases h.sh t with hu | ⟨_, _, hd⟩
    · exact solo_indepO file _ false _ _ hu
    · -- `t` may touch its handle: a step of `u` that moves a position is on another handle
      have hpos : (step file s u).1.pos (s.threads t).cur = s.pos (s.threads t).cur := by
        cases hp : (s.threads u).prog with
        | nil => simp [step, hp]
        | cons a rest =>
          have hne : ∀ (_ : a.movesPos = true), (s.threads u).cur ≠ (s.threads t).cur := by
            intro ha
            apply hd u hut
            intro x; unfold unbound at x; rw [hp] at x
            cases a <;> simp [Action.movesPos] at ha <;> simp [wfO] at x
          cases a
          case acquire l =>
            simp only [step, hp]
            cases ho : s.owner l with
            | none => rfl
            | some w => by_cases hw : w = u <;> simp [hw]
          case release l =>
            simp only [step, hp]
            by_cases ho : s.owner l = some u
            · by_cases hc1 : s.count l ≤ 1 <;> simp [ho, hc1]
            · simp [ho]
          case seek o => simp only [step, hp]; exact upd_other _ _ _ _ (Ne.symm (hne rfl))
          case seekEnd => simp only [step, hp]; exact upd_other _ _ _ _ (Ne.symm (hne rfl))
          case read n => simp only [step, hp]; exact upd_other _ _ _ _ (Ne.symm (hne rfl))
          case tell => simp [step, hp]
          case opn => simp [step, hp]
          case setSlot q => simp [step, hp]
          case probe q k => simp only [step, hp]; cases s.slot q <;> rfl
          case getSlot q => simp only [step, hp]; cases s.slot q <;> rfl
      rw [hpos]


theorem oinv_runS (file : List Byte) (sched : List Tid) : ∀ s, OInv s → OInv (runS file s sched) := by
  induction sched with
  | nil => intro s h; exact h
  | cons u r ih => intro s h; exact ih _ (oinv_step file s h u)

theorem run_solo_O (file : List Byte) (t : Tid) (sched : List Tid) :
    ∀ s, OInv s →
      dataProj t (trace file s sched) ++
        solo file ((runS file s sched).pos ((runS file s sched).threads t).cur) ((runS file s sched).threads t).prog
      = solo file (s.pos (s.threads t).cur) (s.threads t).prog := by
  induction sched with
  | nil => intro s _; simp [trace, runS, dataProj]
  | cons u r ih =>
    intro s h
    simp only [trace, runS, dataProj_cons, List.append_assoc]
    rw [ih _ (oinv_step file s h u)]
    exact step_solo_O file s h u t

end Nb.C14
