import NibabelModel.Lemmas.C20_Load
/-! Lemmas/C20_Sites — the call-site model `loadSites` (four independently recomputed index lists,
    columns gathered by position, header copy) computes exactly `load`. -/
namespace Nb.C20


theorem gather_map_of_atPos {β : Type} {recs : List Rec} (f : Rec → β) :
    ∀ {kept : List (Nat × Rec)}, (∀ p ∈ kept, AtPos recs p) →
      gather (recs.map f) (kept.map (·.1)) = .ok (kept.map (fun p => f p.2))
  | [], _ => rfl
  | p :: kept, h => by
    have hp : recs[p.1]? = some p.2 := h p (List.mem_cons_self ..)
    have ih := gather_map_of_atPos f (kept := kept) (fun q hq => h q (List.mem_cons_of_mem _ hq))
    simp only [List.map_cons, gather, List.getElem?_map, hp, Option.map_some, ih]
    rfl

theorem sortedIndices_eq {c : Cfg} {recs : List Rec} {permit strict : Bool} {nv : Nat}
    (hv : nVols c recs = .ok nv) (orig : Bool) :
    Hdr.sortedIndices ⟨c, recs, permit, strict, nSlices recs, nv⟩ orig =
      (sortedSlices c strict orig recs).map (fun l => l.map (·.1)) := by
  unfold Hdr.sortedIndices sortedSlices Hdr.nUsed
  cases sortOrder c strict orig recs with
  | error e => rfl
  | ok o =>
    rw [hv]
    show Except.ok _ = Except.ok _
    simp only [List.map_take]

theorem labelColumns_eq {recs : List Rec} {kept : List (Nat × Rec)} (hpos : ∀ p ∈ kept, AtPos recs p) :
    ∀ keys : List (String × (Rec → Int)),
      labelColumns recs (kept.map (·.1)) (kept.map (·.2.slice)) keys =
        .ok (keys.map fun kf => (kf.1, ((kept.map (·.2)).filter (·.slice == 1)).map kf.2))
  | [] => rfl
  | kf :: rest => by
    unfold labelColumns
    rw [gather_map_of_atPos kf.2 hpos, labelColumns_eq hpos rest]
    show Except.ok _ = Except.ok _
    congr 2
    congr 1
    clear hpos
    induction kept with
    | nil => rfl
    | cons p kept ih =>
      simp only [List.map_cons, List.zip_cons_cons, List.filter_cons]
      by_cases h : p.2.slice == 1 <;> simp [h, ih]

theorem dataScaling_eq {c : Cfg} {recs : List Rec} {permit strict : Bool} {nv : Nat} {orig : Bool}
    {kept : List (Nat × Rec)} (hv : nVols c recs = .ok nv)
    (hs : sortedSlices c strict orig recs = .ok kept) (m : Scaling) :
    Hdr.dataScaling ⟨c, recs, permit, strict, nSlices recs, nv⟩ m orig =
      if kept.length ≠ nUsedOf (nSlices recs) nv then .error .value
      else .ok (kept.map (fun p => slopeOf m p.2), kept.map (fun p => interOf m p.2)) := by
  have hpos := sortedSlices_atPos hs
  unfold Hdr.dataScaling
  simp only [sortedIndices_eq hv, hs, Except.map, bind, Except.bind, gather_map_of_atPos _ hpos,
    List.length_map, Hdr.nUsed]
  split <;> rfl

theorem volumeLabels_eq {c : Cfg} {recs : List Rec} {permit strict : Bool} {nv : Nat} {orig : Bool}
    {kept : List (Nat × Rec)} (hv : nVols c recs = .ok nv)
    (hs : sortedSlices c strict orig recs = .ok kept) :
    Hdr.volumeLabels ⟨c, recs, permit, strict, nSlices recs, nv⟩ orig =
      .ok (volumeLabels c recs (kept.map (·.2))) := by
  have hpos := sortedSlices_atPos hs
  unfold Hdr.volumeLabels
  simp only [sortedIndices_eq hv, hs, Except.map, bind, Except.bind,
    gather_map_of_atPos (fun r => r.slice) hpos, labelColumns_eq hpos]
  rfl

theorem unscaled_eq {recs : List Rec} {kept : List (Nat × Rec)} (hpos : ∀ p ∈ kept, AtPos recs p)
    (sh : List Nat) (n : Nat) (sl it : List Rat) :
    Proxy.unscaled ⟨sh, n, kept.map (·.1), sl, it⟩ (recs.map (·.payload)) =
      if kept.length ≠ n then .error .value else .ok (kept.map (·.2.payload)) := by
  unfold Proxy.unscaled
  simp only [bind, Except.bind, gather_map_of_atPos (fun r => r.payload) hpos, List.length_map]
  split <;> rfl

theorem loadSites_refines_load (c : Cfg) (permit strict : Bool) (m : Scaling) (orig : Bool) (recs : List Rec) :
    loadSites c permit strict m orig recs =
      (load c permit strict m orig recs).map (fun o => ⟨o, o.slopes, o.inters⟩) := by
  unfold loadSites load Hdr.copy Hdr.init
  cases ht : truncationChecks c permit recs with
  | error e => rfl
  | ok u =>
    cases hv : nVols c recs with
    | error e => rfl
    | ok nv =>
      simp only [bind, Except.bind, pure, Except.pure, ht, hv]
      unfold Proxy.init
      simp only [sortedIndices_eq hv]
      cases hs : sortedSlices c strict orig recs with
      | error e => rfl
      | ok kept =>
        have hpos := sortedSlices_atPos hs
        simp only [bind, Except.bind, pure, Except.pure, Except.map, dataScaling_eq hv hs,
          volumeLabels_eq hv hs, Hdr.nUsed]
        by_cases hl : kept.length = nUsedOf (nSlices recs) nv
        · simp only [hl, ne_eq, not_true_eq_false, if_false]
          rw [unscaled_eq hpos]
          rw [if_neg (fun h => h hl)]
          show Except.ok _ = Except.ok _
          unfold partialSlabs
          rw [← hl, List.map_take]
        · simp only [hl, ne_eq, not_false_eq_true, if_true]
          rfl

end Nb.C20
