import NibabelModel.Lemmas.C05_pairs
/-! Lemmas/C05_pairs2 — second half of the 48 x 48 check, and the combined statement. -/
namespace Nb.C05
open Nb

theorem pairOk_half2 : (allOrnts3.drop 24).all (fun a => allOrnts3.all (fun b => pairOk a b)) = true := by
  decide +kernel

theorem pairOk_all (a b : Ornt) (ha : a ∈ allOrnts3) (hb : b ∈ allOrnts3) : pairOk a b = true := by
  rw [← List.take_append_drop 24 allOrnts3, List.mem_append] at ha
  rcases ha with ha | ha
  · exact List.all_eq_true.mp (List.all_eq_true.mp pairOk_half1 a ha) b hb
  · exact List.all_eq_true.mp (List.all_eq_true.mp pairOk_half2 a ha) b hb

end Nb.C05
