import NibabelModel.Model.C16
/-! Lemmas/C16_Tck — the chunked TCK reader refines the whole-stream scan (core Lean only). -/
namespace Nb.C16

theorem delimIdxs_map_add (k off : Nat) (l : List Triple) :
    (delimIdxs off l).map (· + k) = delimIdxs (off + k) l := by
  induction l generalizing off with
  | nil => simp [delimIdxs]
  | cons t ts ih =>
    simp only [delimIdxs]
    split
    · simp only [List.map_cons, ih]
      congr 2; omega
    · rw [ih]; congr 1; omega

/-- The index arithmetic of the `for delim in delims` loop is the one-pass scan: `pre` is what has
    already been stacked in front of the new chunk, `begin` the start of the pending streamline. -/
theorem splitAtDelims_scan (chunk : List Triple) :
    ∀ (pre cur : List Triple) (begin : Nat), begin ≤ pre.length → pre.drop begin = cur →
      ((splitAtDelims (pre ++ chunk) begin (delimIdxs pre.length chunk)).1,
        (pre ++ chunk).drop (splitAtDelims (pre ++ chunk) begin (delimIdxs pre.length chunk)).2)
      = tckScan cur chunk := by
  induction chunk with
  | nil =>
    intro pre cur begin _ hcur
    simp [delimIdxs, splitAtDelims, tckScan, hcur]
  | cons t ts ih =>
    intro pre cur begin hb hcur
    have hcoords : pre ++ t :: ts = (pre ++ [t]) ++ ts := by simp
    have hlen : (pre ++ [t]).length = pre.length + 1 := by simp
    simp only [delimIdxs, tckScan]
    split
    · -- `t` is a delimiter: the pending streamline is coords[begin:len pre]
      rename_i hdel
      simp only [splitAtDelims]
      have hpts : pySlice (pre ++ t :: ts) begin pre.length = cur := by
        unfold pySlice
        rw [List.drop_append_of_le_length hb, hcur]
        have : cur.length = pre.length - begin := by rw [← hcur]; simp
        rw [List.take_append_of_le_length (by omega)]
        rw [← this]; simp
      have ih' := ih (pre ++ [t]) [] (pre.length + 1) (by simp) (by simp)
      rw [hlen, ← hcoords] at ih'
      rw [hpts]
      have h1 := congrArg Prod.fst ih'
      have h2 := congrArg Prod.snd ih'
      simp only at h1 h2
      rw [h1, h2]
    · have ih' := ih (pre ++ [t]) (cur ++ [t]) begin (by simp; omega)
        (by rw [List.drop_append_of_le_length hb, hcur])
      rw [hlen, ← hcoords] at ih'
      exact ih'

theorem procChunk_eq_scan (leftover chunk : List Triple) :
    procChunk leftover chunk = tckScan leftover chunk := by
  unfold procChunk
  cases hl : leftover with
  | nil =>
    have := splitAtDelims_scan chunk [] [] 0 (by simp) (by simp)
    simpa using this
  | cons a as =>
    have := splitAtDelims_scan chunk (a :: as) (a :: as) 0 (by simp) (by simp)
    simp only [List.isEmpty_cons, Bool.false_eq_true, if_false]
    rw [delimIdxs_map_add]
    simpa using this

theorem tckScan_append (a b cur : List Triple) :
    tckScan cur (a ++ b) =
      ((tckScan cur a).1 ++ (tckScan (tckScan cur a).2 b).1, (tckScan (tckScan cur a).2 b).2) := by
  induction a generalizing cur with
  | nil => simp [tckScan]
  | cons t ts ih =>
    simp only [List.cons_append, tckScan]
    split
    · rw [ih]; split <;> simp
    · rw [ih]

/-- the chunked loop on a stream of whole triples: items, error and end position -/
theorem tckLoop_eq_scan (c : Nat) (data leftover : List Triple) (pos : Nat) :
    (tckLoop c 0 data leftover pos).items.map (·.1) = (tckScan leftover data).1 ∧
    (tckLoop c 0 data leftover pos).err =
      (if tckEofOk (tckScan leftover data).2 then none else some Err.data) ∧
    (tckLoop c 0 data leftover pos).endPos = pos + 12 * data.length := by
  induction h : data.length using Nat.strongRecOn generalizing data leftover pos with
  | _ n ih =>
    unfold tckLoop
    split
    · rename_i hc
      have hlt : (data.drop c).length < n := by simp [List.length_drop]; omega
      have ih' := ih _ hlt (data.drop c) (procChunk leftover (data.take c)).2 (pos + 12 * c) rfl
      have hsplit : tckScan leftover data = tckScan leftover (data.take c ++ data.drop c) := by
        rw [List.take_append_drop]
      rw [hsplit, tckScan_append, ← procChunk_eq_scan leftover (data.take c)]
      obtain ⟨i1, i2, i3⟩ := ih'
      refine ⟨?_, ?_, ?_⟩
      · simp only [List.map_append, List.map_map]
        rw [i1]
        congr 1
        simp [Function.comp_def]
      · simpa using i2
      · simp only [i3, List.length_drop]; omega
    · simp only [ne_eq, not_true_eq_false, if_false]
      rw [procChunk_eq_scan]
      refine ⟨?_, rfl, by simp; omega⟩
      simp [Function.comp_def]

/-- ragged tails are refused, whatever the buffer size -/
theorem tckLoop_ragged (c ragged : Nat) (hr : ragged ≠ 0) (data leftover : List Triple) (pos : Nat) :
    (tckLoop c ragged data leftover pos).err = some Err.value := by
  induction h : data.length using Nat.strongRecOn generalizing data leftover pos with
  | _ n ih =>
    unfold tckLoop
    split
    · rename_i hc
      have hlt : (data.drop c).length < n := by simp [List.length_drop]; omega
      exact ih _ hlt (data.drop c) _ _ rfl
    · simp

/-! ### the writer's output parses back -/

theorem tckScan_streamline (s : List Triple) (hs : ∀ t ∈ s, isDelim t = false) (cur rest : List Triple) :
    tckScan cur (s ++ nanTriple :: rest) =
      (if (cur ++ s).isEmpty then (tckScan [] rest).1 else (cur ++ s) :: (tckScan [] rest).1,
       (tckScan [] rest).2) := by
  induction s generalizing cur with
  | nil =>
    have : isDelim nanTriple = true := by decide
    simp [tckScan, this]
  | cons t ts ih =>
    have ht : isDelim t = false := hs t (by simp)
    simp only [List.cons_append, tckScan, ht, Bool.false_eq_true, if_false]
    rw [ih (fun x hx => hs x (by simp [hx]))]
    simp

theorem tckScan_tckData (sls : List (List Triple)) (h : ∀ s ∈ sls, ∀ t ∈ s, isDelim t = false) :
    tckScan [] (tckData sls) = (sls.filter (fun s => !s.isEmpty), [infTriple]) := by
  unfold tckData
  induction sls with
  | nil =>
    have : isDelim infTriple = false := by decide
    simp [tckScan, this]
  | cons s ss ih =>
    have ih' := ih (fun x hx => h x (by simp [hx]))
    simp only [List.map_cons, List.flatten_cons, List.append_assoc, List.cons_append]
    rw [tckScan_streamline s (h s (by simp))]
    simp only [List.nil_append]
    rw [ih']
    simp only [List.filter_cons]
    cases s <;> simp

end Nb.C16
