/-
  Lemmas/C06_GenCanon — `is_fancy` and `canonical_slicers` translated from the CURRENT source of
  nibabel/fileslice.py (enumerate loop, Ellipsis expansion with the slice `sliceobj[i + 1:]`, the list
  comprehension counting the remaining real items, `(slice(None),) * n`, integer range checks, the
  "equivalent to slice(None)" rewrite, the final fill) compute the model's `canonLoop`: equal result
  when the model succeeds, an exception whenever the model fails.  Core Lean only.
-/
import NibabelModel.Lemmas.C06_GenSegs
set_option linter.unusedSimpArgs false
namespace Nb.C06
open Nb.Py Nb.Py.V

abbrev CLoc := Gen.C06F.canonical_slicers_Locals

theorem pyEq_ofIdx_ellipsis (x : IdxItem) : pyEq (ofIdx x) .ellipsis = isEllipsis x := by
  cases x with
  | slice s => obtain ⟨a, b, c⟩ := s; rfl
  | _ => rfl

theorem isNone_ofIdx (x : IdxItem) : isNone (ofIdx x) = isNewaxis x := by
  cases x with
  | slice s => obtain ⟨a, b, c⟩ := s; rfl
  | _ => rfl

def updLc (s : CLoc) (lc r : V) : CLoc := { s with _lc1 := lc, r := r }

/-- the list-comprehension loop `[r for r in remaining if r is not None]` -/
theorem cloop2_eq (l : List IdxItem) : ∀ (s : CLoc) (acc : List V), s._lc1 = ofList acc →
    ∃ y, Gen.C06F.canonical_slicers_loop2 (ofList (l.map ofIdx)) s =
      .ok (.next (updLc s (ofList (acc ++ (l.filter (fun x => !isNewaxis x)).map ofIdx)) y)) := by
  induction l with
  | nil =>
    intro s acc h
    refine ⟨s.r, ?_⟩
    cases s
    simp_all [Gen.C06F.canonical_slicers_loop2, updLc]
  | cons x rest ih =>
    intro s acc h
    by_cases hx : isNewaxis x = true
    · have hb : Gen.C06F.canonical_slicers_body2 { s with r := ofIdx x } = .ok (.next (updLc s (ofList acc) (ofIdx x))) := by
        unfold Gen.C06F.canonical_slicers_body2
        simp [isNone_ofIdx, hx, updLc, h]
      obtain ⟨y, hy⟩ := ih (updLc s (ofList acc) (ofIdx x)) acc rfl
      refine ⟨y, ?_⟩
      simp only [List.map_cons, ofList_cons, Gen.C06F.canonical_slicers_loop2, bind, Except.bind, hb, hy]
      simp [updLc, hx]
    · have hx' : isNewaxis x = false := by simpa using hx
      have hb : Gen.C06F.canonical_slicers_body2 { s with r := ofIdx x } =
          .ok (.next (updLc s (ofList (acc ++ [ofIdx x])) (ofIdx x))) := by
        unfold Gen.C06F.canonical_slicers_body2
        simp [isNone_ofIdx, hx', updLc, h]
      obtain ⟨y, hy⟩ := ih (updLc s (ofList (acc ++ [ofIdx x])) (ofIdx x)) (acc ++ [ofIdx x]) rfl
      refine ⟨y, ?_⟩
      simp only [List.map_cons, ofList_cons, Gen.C06F.canonical_slicers_loop2, bind, Except.bind, hb, hy]
      simp [updLc, hx']

structure CInv (s : CLoc) (all : List IdxItem) (full : List Nat) (ci : Bool) (k : Nat) (acc : List Item) : Prop where
  hObj : s.sliceobj = ofList (all.map ofIdx)
  hShape : s.shape = ofShape full
  hCi : s.check_inds = .bool ci
  hDim : s.n_dim = .int (full.length : Int)
  hReal : s.n_real = .int (k : Int)
  hAcc : s.can_slicers = ofList (acc.map ofItem)
  hK : k ≤ full.length

theorem cbody_newaxis (s : CLoc) (all : List IdxItem) (full : List Nat) (ci : Bool) (k : Nat) (acc : List Item)
    (p : Int) (inv : CInv s all full ci k acc) :
    ∃ s', Gen.C06F.canonical_slicers_body1 { s with _en2 := V.tup2 (.int p) V.none } = .ok (.next s') ∧
      CInv s' all full ci k (acc ++ [Item.newaxis]) := by
  unfold Gen.C06F.canonical_slicers_body1
  simp [inv.hAcc]
  exact ⟨inv.hObj, inv.hShape, inv.hCi, inv.hDim, inv.hReal, by simp [ofItem], inv.hK⟩

theorem cbody_index_err (s : CLoc) (all : List IdxItem) (full : List Nat) (ci : Bool) (k : Nat) (acc : List Item)
    (p : Int) (it : IdxItem) (hit : isNewaxis it = false) (hie : isEllipsis it = false)
    (inv : CInv s all full ci k acc) (hfull : full[k]? = Option.none) :
    ∃ e, Gen.C06F.canonical_slicers_body1 { s with _en2 := V.tup2 (.int p) (ofIdx it) } = .error e := by
  unfold Gen.C06F.canonical_slicers_body1
  have h1 : isNone (ofIdx it) = false := by rw [isNone_ofIdx]; exact hit
  have h2 : pyEq (ofIdx it) .ellipsis = false := by rw [pyEq_ofIdx_ellipsis]; exact hie
  simp [h1, h2, inv.hShape, inv.hReal, ofShape_get, hfull]

theorem cbody_real (s : CLoc) (all : List IdxItem) (full : List Nat) (ci : Bool) (k : Nat) (acc : List Item)
    (p : Int) (it : IdxItem) (n : Nat) (hit : isNewaxis it = false) (hie : isEllipsis it = false)
    (inv : CInv s all full ci k acc) (hfull : full[k]? = some n) :
    match canonItem n ci it with
    | .ok c => ∃ s', Gen.C06F.canonical_slicers_body1 { s with _en2 := V.tup2 (.int p) (ofIdx it) } = .ok (.next s') ∧
        CInv s' all full ci (k + 1) (acc ++ [c])
    | .error _ => ∃ e, Gen.C06F.canonical_slicers_body1 { s with _en2 := V.tup2 (.int p) (ofIdx it) } = .error e := by
  have hk1 : k + 1 ≤ full.length := by
    have := List.getElem?_eq_some_iff.mp hfull
    obtain ⟨h, _⟩ := this; omega
  cases it with
  | newaxis => simp [isNewaxis] at hit
  | ellipsis => simp [isEllipsis] at hie
  | int i =>
    unfold Gen.C06F.canonical_slicers_body1 canonItem
    simp [ofIdx, pyEq, inv.hShape, inv.hReal, ofShape_get, hfull, inv.hCi, inv.hAcc]
    have mk : ∀ (sl : V) (c : Int), CInv
        { sliceobj := s.sliceobj, shape := ofShape full, check_inds := V.bool ci,
          can_slicers := ofList (List.map ofItem acc ++ [int c]), n_dim := s.n_dim,
          n_real := int (↑k + 1), _en2 := (int p).tup2 (int i), i := int p, slicer := sl,
          dim_len := int ↑n, remaining := s.remaining, _lc1 := s._lc1, r := s.r,
          real_remaining := s.real_remaining, n_ellided := s.n_ellided } all full ci (k + 1) (acc ++ [Item.int c]) :=
      fun sl c => ⟨inv.hObj, rfl, rfl, inv.hDim, by simp, by simp [ofItem], hk1⟩
    cases ci
    · by_cases h0 : i < 0
      · simp [h0]
        (rw [Int.add_comm]; exact mk _ _)
      · simp [h0]
        exact mk _ _
    · by_cases h0 : i < 0
      · by_cases h1 : i + (n : Int) < 0
        · have : i < -(n : Int) := by omega
          simp [h0, h1, this]
        · have : ¬ (i < -(n : Int)) := by omega
          simp [h0, h1, this]
          (rw [Int.add_comm]; exact mk _ _)
      · have : ¬ (i < -(n : Int)) := by omega
        by_cases h1 : (n : Int) ≤ i
        · simp [h0, h1, this]
        · simp [h0, h1, this]
          exact mk _ _
  | slice sl =>
    obtain ⟨a, b, c⟩ := sl
    have htoInt : toInt (ofIdx (.slice ⟨a, b, c⟩)) = .error .typeError := rfl
    unfold Gen.C06F.canonical_slicers_body1 canonItem
    simp only [htoInt]
    have hne : ∀ x y z : V, pyEq (V.slice x y z) V.ellipsis = false := fun _ _ _ => rfl
    have mkS : ∀ (sl : V) (it : Item) (_ : ofItem it = sl), CInv
        { sliceobj := s.sliceobj, shape := ofShape full, check_inds := V.bool ci,
          can_slicers := ofList (List.map ofItem acc ++ [sl]), n_dim := s.n_dim,
          n_real := int (↑k + 1), _en2 := (int p).tup2 ((ofOptInt a).slice (ofOptInt b) (ofOptInt c)), i := int p,
          slicer := sl, dim_len := int ↑n, remaining := s.remaining, _lc1 := s._lc1, r := s.r,
          real_remaining := s.real_remaining, n_ellided := s.n_ellided } all full ci (k + 1) (acc ++ [it]) :=
      fun sl it h => ⟨inv.hObj, rfl, rfl, inv.hDim, by simp, by simp [h], hk1⟩
    simp only [ofIdx, ofPySlice, hne, Bool.false_eq_true, if_false, inv.hShape, inv.hReal, ofShape_get, hfull,
      bind_ok, add_int, inv.hAcc, append_ofList, pure_eq_ok]
    have e1 : ∀ o : Option Int, pyEq (ofOptInt o) V.none = decide (o = Option.none) := by
      intro o; cases o <;> simp
    have e2 : ∀ (o : Option Int) (v : Int), pyEq (ofOptInt o) (.int v) = decide (o = some v) := by
      intro o v; cases o with
      | none => simp
      | some w => simp only [ofOptInt_some, pyEq_int]; by_cases h : w = v <;> simp [h]
    simp only [slice1, pyEq_slice, e1, e2, pyEq_none_none, Bool.and_true, Bool.not_eq_true']
    by_cases h1 : a = Option.none ∧ b = Option.none ∧ c = Option.none
    · obtain ⟨rfl, rfl, rfl⟩ := h1
      simp [pySliceNone, hne, e1, e2]
      first
        | exact ⟨inv.hObj, rfl, inv.hCi, inv.hDim, by simp, by simp [ofItem, ofPySlice], hk1⟩
        | exact ⟨_, rfl, ⟨inv.hObj, rfl, inv.hCi, inv.hDim, by simp, by simp [ofItem, ofPySlice], hk1⟩⟩
    · have h1' : (decide (a = Option.none) && decide (b = Option.none) && decide (c = Option.none)) = false := by
        cases a <;> cases b <;> cases c <;> simp_all
      by_cases h2 : b = some (n : Int) ∧ (a = Option.none ∨ a = some 0) ∧ (c = Option.none ∨ c = some 1)
      · have hb : decide (b = some (n : Int)) = true := by simp [h2.1]
        have ha : (decide (a = Option.none) || decide (a = some 0)) = true := by
          rcases h2.2.1 with h | h <;> subst h <;> simp
        have hc : (decide (c = Option.none) || decide (c = some 1)) = true := by
          rcases h2.2.2 with h | h <;> subst h <;> simp
        simp [pySliceNone, h1, h1', h2, hb, ha, hc, hne, e1, e2]
        first
        | exact ⟨inv.hObj, rfl, inv.hCi, inv.hDim, by simp, by simp [ofItem, ofPySlice], hk1⟩
        | exact ⟨_, rfl, ⟨inv.hObj, rfl, inv.hCi, inv.hDim, by simp, by simp [ofItem, ofPySlice], hk1⟩⟩
      · have hcond : (decide (b = some (n : Int)) && ((decide (a = Option.none) || decide (a = some 0)) &&
            (decide (c = Option.none) || decide (c = some 1)))) = false := by
          cases hb : decide (b = some (n : Int)) <;> cases ha : (decide (a = Option.none) || decide (a = some 0)) <;>
            cases hc : (decide (c = Option.none) || decide (c = some 1)) <;> simp_all
        simp [pySliceNone, h1, h1', h2, hne, e1, e2, hcond]
        have hl : (if b = some (n : Int) then
              (if a = Option.none ∨ a = some 0 then
                (Except.ok (decide (c = Option.none) || decide (c = some 1)) : M Bool) else Except.ok false)
              else Except.ok false) = Except.ok false := by
          by_cases hb : b = some (n : Int)
          · by_cases ha : (a = Option.none ∨ a = some 0)
            · have hc : ¬ (c = Option.none ∨ c = some 1) := fun hc => h2 ⟨hb, ha, hc⟩
              have : (decide (c = Option.none) || decide (c = some 1)) = false := by
                cases hx : decide (c = Option.none) <;> cases hy : decide (c = some 1) <;> simp_all
              simp [hb, ha, this]
            · simp [hb, ha]
          · simp [hb]
        simp only [hl, bind_ok, Bool.false_eq_true, if_false]
        first
          | exact ⟨inv.hObj, rfl, inv.hCi, inv.hDim, by simp, by simp [ofItem, ofPySlice], hk1⟩
          | exact ⟨_, rfl, ⟨inv.hObj, rfl, inv.hCi, inv.hDim, by simp, by simp [ofItem, ofPySlice], hk1⟩⟩

theorem any_ofIdx_ellipsis (l : List IdxItem) :
    (l.map ofIdx).any (fun a => pyEq a V.ellipsis) = l.any isEllipsis := by
  induction l with
  | nil => rfl
  | cons x xs ih => simp [List.any_cons, pyEq_ofIdx_ellipsis, ih]

theorem cbody_ellipsis (s : CLoc) (all : List IdxItem) (full : List Nat) (ci : Bool) (k : Nat) (acc : List Item)
    (p : Nat) (rest' : List IdxItem) (hall : all.drop (p + 1) = rest') (inv : CInv s all full ci k acc) :
    (rest'.any isEllipsis = true →
      ∃ e, Gen.C06F.canonical_slicers_body1 { s with _en2 := V.tup2 (.int (p : Int)) V.ellipsis } = .error e) ∧
    (rest'.any isEllipsis = false →
      ((full.length - k < (rest'.filter (fun x => !isNewaxis x)).length →
        ∃ e, Gen.C06F.canonical_slicers_body1 { s with _en2 := V.tup2 (.int (p : Int)) V.ellipsis } = .error e) ∧
       ((rest'.filter (fun x => !isNewaxis x)).length ≤ full.length - k →
        ∃ s', Gen.C06F.canonical_slicers_body1 { s with _en2 := V.tup2 (.int (p : Int)) V.ellipsis } = .ok (.next s') ∧
          CInv s' all full ci (k + (full.length - k - (rest'.filter (fun x => !isNewaxis x)).length))
            (acc ++ List.replicate (full.length - k - (rest'.filter (fun x => !isNewaxis x)).length)
              (Item.slice pySliceNone))))) := by
  have hdrop : dropFrom s.sliceobj (.int ((p : Int) + 1)) = .ok (ofList (rest'.map ofIdx)) := by
    rw [inv.hObj]
    have : ((p : Int) + 1) = ((p + 1 : Nat) : Int) := by simp
    rw [this, dropFrom_ofList, ← List.map_drop, hall]
  have hcont : contains (ofList (rest'.map ofIdx)) V.ellipsis = .ok (rest'.any isEllipsis) := by
    rw [contains_ofList, any_ofIdx_ellipsis]
  have hn : isNone V.ellipsis = false := rfl
  constructor
  · intro hany
    unfold Gen.C06F.canonical_slicers_body1
    simp [pyEq, hdrop, hcont, hany, hn]
  · intro hany
    obtain ⟨y, hl2⟩ := cloop2_eq rest'
      ⟨s.sliceobj, s.shape, s.check_inds, s.can_slicers, .int (full.length : Int), .int (k : Int), V.tup2 (.int (p : Int)) V.ellipsis,
        .int (p : Int), V.ellipsis, s.dim_len, ofList (rest'.map ofIdx), .nil, s.r, s.real_remaining, s.n_ellided⟩ [] rfl
    constructor
    · intro hlt
      unfold Gen.C06F.canonical_slicers_body1
      simp [pyEq, hdrop, hcont, hany, hl2, updLc, inv.hDim, inv.hReal, hn]
      have : ((full.length : Int) - (k : Int) - ((rest'.filter (fun x => !isNewaxis x)).length : Int) < 0) := by
        have := inv.hK; omega
      simp [this]
    · intro hle
      unfold Gen.C06F.canonical_slicers_body1
      simp [pyEq, hdrop, hcont, hany, hl2, updLc, inv.hDim, inv.hReal, hn]
      have hk := inv.hK
      have h0 : ¬ ((full.length : Int) - (k : Int) - ((rest'.filter (fun x => !isNewaxis x)).length : Int) < 0) := by
        omega
      have hnat : ((full.length : Int) - (k : Int) - ((rest'.filter (fun x => !isNewaxis x)).length : Int)).toNat
          = full.length - k - (rest'.filter (fun x => !isNewaxis x)).length := by omega
      simp [h0, mul_single_int, slice1, inv.hAcc, hnat]
      refine ⟨inv.hObj, inv.hShape, inv.hCi, rfl, ?_, ?_, ?_⟩
      · show V.int _ = V.int _
        congr 1
        generalize (List.filter (fun x => !isNewaxis x) rest').length = m at *
        omega
      · simp [List.map_append, List.map_replicate, ofItem, ofPySlice, pySliceNone]
      · omega

theorem canonLoop_too_many (ci : Bool) : ∀ (rest : List IdxItem) (shape : List Nat),
    rest.any isEllipsis = false → shape.length < (rest.filter (fun x => !isNewaxis x)).length →
    ∃ e, canonLoop ci rest shape = .error e := by
  intro rest
  induction rest with
  | nil => intro shape _ h; simp at h
  | cons it rest ih =>
    intro shape hany hlt
    simp only [List.any_cons, Bool.or_eq_false_iff] at hany
    cases it with
    | newaxis =>
      simp only [isNewaxis, List.filter_cons, Bool.not_true, Bool.false_eq_true, if_false] at hlt
      obtain ⟨e, he⟩ := ih shape hany.2 hlt
      exact ⟨e, by simp [canonLoop, he, bind, Except.bind]⟩
    | ellipsis => simp [isEllipsis] at hany
    | int i =>
      cases shape with
      | nil => exact ⟨_, rfl⟩
      | cons n shape =>
        have hn : isNewaxis (IdxItem.int i) = false := rfl
        have hlt' : shape.length < (rest.filter (fun x => !isNewaxis x)).length := by
          simp only [List.filter_cons, hn, Bool.not_false, if_true, List.length_cons] at hlt; omega
        obtain ⟨e, he⟩ := ih shape hany.2 hlt'
        cases hc : canonItem n ci (.int i) with
        | error e' => exact ⟨e', by simp [canonLoop, hc, bind, Except.bind]⟩
        | ok c => exact ⟨e, by simp [canonLoop, hc, he, bind, Except.bind]⟩
    | slice sl =>
      cases shape with
      | nil => exact ⟨_, rfl⟩
      | cons n shape =>
        have hn : isNewaxis (IdxItem.slice sl) = false := rfl
        have hlt' : shape.length < (rest.filter (fun x => !isNewaxis x)).length := by
          simp only [List.filter_cons, hn, Bool.not_false, if_true, List.length_cons] at hlt; omega
        obtain ⟨e, he⟩ := ih shape hany.2 hlt'
        cases hc : canonItem n ci (.slice sl) with
        | error e' => exact ⟨e', by simp [canonLoop, hc, bind, Except.bind]⟩
        | ok c => exact ⟨e, by simp [canonLoop, hc, he, bind, Except.bind]⟩

theorem drop_succ_of_cons {α} (all : List α) (p : Nat) (x : α) (rest : List α) (h : all.drop p = x :: rest) :
    all.drop (p + 1) = rest := by
  have : all.drop (p + 1) = (all.drop p).drop 1 := by rw [List.drop_drop]
  rw [this, h]; rfl

/-- the main loop of the translated `canonical_slicers` against the model's `canonLoop` -/
theorem cloop_eq (ci : Bool) (rest : List IdxItem) :
    ∀ (s : CLoc) (all : List IdxItem) (full : List Nat) (k : Nat) (acc : List Item) (p : Nat),
      all.drop p = rest → CInv s all full ci k acc →
      match canonLoop ci rest (full.drop k) with
      | .ok items => ∃ s' k' acc', Gen.C06F.canonical_slicers_loop1 (ofList (enumL (rest.map ofIdx) (p : Int))) s
            = .ok (.next s') ∧ CInv s' all full ci k' acc' ∧
            acc' ++ List.replicate (full.length - k') (Item.slice pySliceNone) = acc ++ items
      | .error _ => ∃ e, Gen.C06F.canonical_slicers_loop1 (ofList (enumL (rest.map ofIdx) (p : Int))) s = .error e := by
  induction rest with
  | nil =>
    intro s all full k acc p _ inv
    simp only [canonLoop, List.map_nil, enumL, ofList_nil, Gen.C06F.canonical_slicers_loop1]
    refine ⟨s, k, acc, rfl, inv, ?_⟩
    have hl : (full.drop k).length = full.length - k := List.length_drop
    rw [← hl]
    congr 1
    exact (List.map_const' ..).symm
  | cons it rest ih =>
    intro s all full k acc p hall inv
    have hall' := drop_succ_of_cons all p it rest hall
    have hp : ((p : Int) + 1) = ((p + 1 : Nat) : Int) := by simp
    simp only [List.map_cons, enumL, ofList_cons, Gen.C06F.canonical_slicers_loop1, hp]
    cases it with
    | newaxis =>
      obtain ⟨s1, hb, inv1⟩ := cbody_newaxis s all full ci k acc (p : Int) inv
      have := ih s1 all full k (acc ++ [Item.newaxis]) (p + 1) hall' inv1
      have hm : canonLoop ci (.newaxis :: rest) (full.drop k) =
          (canonLoop ci rest (full.drop k)).map (fun r => Item.newaxis :: r) := by
        cases full.drop k <;> simp [canonLoop, bind, Except.bind, Except.map] <;> rfl
      rw [hm]
      simp only [ofIdx, bind, Except.bind, hb]
      cases hrec : canonLoop ci rest (full.drop k) with
      | error e => rw [hrec] at this; simpa [Except.map] using this
      | ok items =>
        rw [hrec] at this
        obtain ⟨s', k', acc', e1, e2, e3⟩ := this
        exact ⟨s', k', acc', e1, e2, by simpa [Except.map] using e3⟩
    | ellipsis =>
      have hb := cbody_ellipsis s all full ci k acc p rest hall' inv
      have hlen : (full.drop k).length = full.length - k := List.length_drop
      simp only [canonLoop, ofIdx, bind, Except.bind]
      cases hany : rest.any isEllipsis with
      | true =>
        obtain ⟨e, he⟩ := hb.1 hany
        simp only [hany, if_true, he]
        exact ⟨e, rfl⟩
      | false =>
        simp only [Bool.false_eq_true, if_false]
        by_cases hlt : full.length - k < (rest.filter (fun x => !isNewaxis x)).length
        · obtain ⟨e, he⟩ := ((hb.2 hany).1 hlt)
          have h0 : (full.drop k).length - (rest.filter (fun x => !isNewaxis x)).length = 0 := by omega
          obtain ⟨e2, he2⟩ := canonLoop_too_many ci rest (full.drop k) hany (by omega)
          simp only [h0, List.drop_zero, he2, he]
          exact ⟨e, rfl⟩
        · have hle : (rest.filter (fun x => !isNewaxis x)).length ≤ full.length - k := by omega
          obtain ⟨s1, hb1, inv1⟩ := (hb.2 hany).2 hle
          have := ih s1 all full _ _ (p + 1) hall' inv1
          rw [hlen, List.drop_drop]
          simp only [hb1]
          cases hrec : canonLoop ci rest (List.drop (k + (full.length - k - (rest.filter (fun x => !isNewaxis x)).length)) full) with
          | error e => rw [hrec] at this; simpa using this
          | ok items =>
            rw [hrec] at this
            obtain ⟨s', k', acc', e1, e2, e3⟩ := this
            exact ⟨s', k', acc', e1, e2, by simpa [pure, Except.pure, List.append_assoc] using e3⟩
    | int i =>
      have hit : isNewaxis (IdxItem.int i) = false := rfl
      have hie : isEllipsis (IdxItem.int i) = false := rfl
      cases hd : full.drop k with
      | nil =>
        have hg := drop_nil_get full k hd
        obtain ⟨e, he⟩ := cbody_index_err s all full ci k acc (p : Int) (IdxItem.int i) hit hie inv hg
        simp only [canonLoop, bind, Except.bind, he]
        exact ⟨e, rfl⟩
      | cons n shape =>
        obtain ⟨hg, hdrop, _⟩ := drop_head full k n shape hd
        have hb := cbody_real s all full ci k acc (p : Int) (IdxItem.int i) n hit hie inv hg
        simp only [canonLoop, bind, Except.bind]
        cases hc : canonItem n ci (IdxItem.int i) with
        | error e =>
          rw [hc] at hb
          obtain ⟨e', he'⟩ := hb
          simp only [he']
          exact ⟨e', rfl⟩
        | ok c =>
          rw [hc] at hb
          obtain ⟨s1, hb1, inv1⟩ := hb
          have := ih s1 all full (k + 1) (acc ++ [c]) (p + 1) hall' inv1
          rw [hdrop] at this
          simp only [hb1]
          cases hrec : canonLoop ci rest shape with
          | error e => rw [hrec] at this; simpa using this
          | ok items =>
            rw [hrec] at this
            obtain ⟨s', k', acc', e1, e2, e3⟩ := this
            exact ⟨s', k', acc', e1, e2, by simpa [pure, Except.pure] using e3⟩
    | slice sl =>
      have hit : isNewaxis (IdxItem.slice sl) = false := rfl
      have hie : isEllipsis (IdxItem.slice sl) = false := rfl
      cases hd : full.drop k with
      | nil =>
        have hg := drop_nil_get full k hd
        obtain ⟨e, he⟩ := cbody_index_err s all full ci k acc (p : Int) (IdxItem.slice sl) hit hie inv hg
        simp only [canonLoop, bind, Except.bind, he]
        exact ⟨e, rfl⟩
      | cons n shape =>
        obtain ⟨hg, hdrop, _⟩ := drop_head full k n shape hd
        have hb := cbody_real s all full ci k acc (p : Int) (IdxItem.slice sl) n hit hie inv hg
        simp only [canonLoop, bind, Except.bind]
        cases hc : canonItem n ci (IdxItem.slice sl) with
        | error e =>
          rw [hc] at hb
          obtain ⟨e', he'⟩ := hb
          simp only [he']
          exact ⟨e', rfl⟩
        | ok c =>
          rw [hc] at hb
          obtain ⟨s1, hb1, inv1⟩ := hb
          have := ih s1 all full (k + 1) (acc ++ [c]) (p + 1) hall' inv1
          rw [hdrop] at this
          simp only [hb1]
          cases hrec : canonLoop ci rest shape with
          | error e => rw [hrec] at this; simpa using this
          | ok items =>
            rw [hrec] at this
            obtain ⟨s', k', acc', e1, e2, e3⟩ := this
            exact ⟨s', k', acc', e1, e2, by simpa [pure, Except.pure] using e3⟩

theorem is_fancy_body (x : IdxItem) (s : Gen.C06F.is_fancy_Locals) :
    Gen.C06F.is_fancy_body1 { s with slicer := ofIdx x } = .ok (.next { s with slicer := ofIdx x }) := by
  unfold Gen.C06F.is_fancy_body1
  cases x with
  | int i => simp [ofIdx, isSlice]
  | slice sl => obtain ⟨a, b, c⟩ := sl; simp [ofIdx, ofPySlice, isSlice]
  | newaxis => simp [ofIdx, isSlice, pyEq]
  | ellipsis => simp [ofIdx, isSlice, pyEq]

theorem is_fancy_loop (idx : List IdxItem) : ∀ s : Gen.C06F.is_fancy_Locals,
    ∃ s', Gen.C06F.is_fancy_loop1 (ofList (idx.map ofIdx)) s = .ok (.next s') := by
  induction idx with
  | nil => intro s; exact ⟨s, rfl⟩
  | cons x rest ih =>
    intro s
    obtain ⟨s', h⟩ := ih { s with slicer := ofIdx x }
    refine ⟨s', ?_⟩
    simp only [List.map_cons, ofList_cons, Gen.C06F.is_fancy_loop1, bind, Except.bind, is_fancy_body]
    exact h

/-- `is_fancy` of a basic index tuple (ints, slices, None, Ellipsis) is False -/
theorem gen_is_fancy_basic (idx : List IdxItem) :
    Gen.C06F.is_fancy (ofList (idx.map ofIdx)) = .ok (.bool false) := by
  unfold Gen.C06F.is_fancy
  have hseq : isSeq (ofList (idx.map ofIdx)) = true := by cases idx <;> rfl
  obtain ⟨s', h⟩ := is_fancy_loop idx ⟨ofList (idx.map ofIdx), V.none⟩
  simp [hseq, h]

/-- **canonical_slicers**: the function translated from the source returns the model's canonical items,
    and raises whenever the model does -/
theorem gen_canonical_slicers_eq (idx : List IdxItem) (shape : List Nat) (ci : Bool) :
    match canonLoop ci idx shape with
    | .ok items => Gen.C06F.canonical_slicers (ofList (idx.map ofIdx)) (ofShape shape) (.bool ci)
        = .ok (ofList (items.map ofItem))
    | .error _ => ∃ e, Gen.C06F.canonical_slicers (ofList (idx.map ofIdx)) (ofShape shape) (.bool ci) = .error e := by
  have hseq : isSeq (ofList (idx.map ofIdx)) = true := by cases idx <;> rfl
  have hlen : len (ofShape shape) = .ok (.int (shape.length : Int)) := by
    unfold ofShape; rw [len_ofList]; simp
  have h := cloop_eq ci idx ⟨ofList (idx.map ofIdx), ofShape shape, .bool ci, .nil, .int (shape.length : Int), .int 0,
      .none, .none, .none, .none, .none, .none, .none, .none, .none⟩ idx shape 0 [] 0 rfl
      ⟨rfl, rfl, rfl, rfl, rfl, rfl, Nat.zero_le _⟩
  simp only [List.drop_zero, List.nil_append] at h
  unfold Gen.C06F.canonical_slicers
  simp only [hseq, gen_is_fancy_basic, enumerate_ofList, asList_ofList, hlen, bind_ok, pure_eq_ok, truthy_bool,
    Bool.not_true, Bool.false_eq_true, if_false]
  cases hres : canonLoop ci idx shape with
  | error e =>
    rw [hres] at h
    obtain ⟨e', he'⟩ := h
    have hz : ((0 : Nat) : Int) = 0 := rfl
    rw [hz] at he'
    exact ⟨e', by simp [he']⟩
  | ok items =>
    rw [hres] at h
    obtain ⟨s', k', acc', e1, inv', e3⟩ := h
    have hz : ((0 : Nat) : Int) = 0 := rfl
    rw [hz] at e1
    simp only [e1, bind_ok, inv'.hReal, inv'.hDim, inv'.hAcc, lt_int, truthy_bool]
    have hk := inv'.hK
    by_cases hlt : (k' : Int) < (shape.length : Int)
    · have hnat : ((shape.length : Int) - (k' : Int)).toNat = shape.length - k' := by omega
      simp [hlt, mul_single_int, slice1, hnat]
      rw [← e3]
      simp [List.map_append, List.map_replicate, ofItem, ofPySlice, pySliceNone]
    · have h0 : shape.length - k' = 0 := by omega
      rw [h0] at e3
      simp [hlt]
      rw [← e3]; simp

end Nb.C06
