/-
  Lemmas/C13_Gen — stage T for the cache state machine: the METHOD BODIES of `DataobjImage.get_fdata / get_data /
  uncache / in_memory / dataobj` that `harness/py2lean_c13.py` translates from the CURRENT
  `nibabel/dataobj_images.py` on every run (`Generated/C13Funcs.lean`), executed on the attribute dict of the
  abstract image state with the primitives of `Model/C13_Py.lean`, compute exactly the documented model's step
  (`Spec.step`), hence — through `sim_step` — the implementation model's step and whole traces.  An edit of one
  of these methods that changes what it computes breaks one of the proofs below at the next run.
-/
import NibabelModel.Model.C13_Py
import NibabelModel.Lemmas.PyVal
import NibabelModel.Lemmas.C13
set_option linter.unusedSimpArgs false
namespace Nb.C13
open Nb Nb.Py Nb.C13.PyEnc

namespace PyEnc

@[simp] theorem decDT_encDT (d : DT) : decDT? (encDT d) = some d := by cases d <;> decide
@[simp] theorem decInts_encInts (l : List Int) : decInts? (encInts l) = some l := by
  induction l with
  | nil => rfl
  | cons x xs ih => simp only [encInts, List.map_cons, V.ofList_cons, decInts?] at *; rw [ih]; rfl

@[simp] theorem decArr_encArr (r : Nat × Arr) : decArr? (encArr r) = some r := by
  obtain ⟨id, dt, vals, ro⟩ := r
  simp [decArr?, encArr]

@[simp] theorem decArr_none : decArr? V.none = none := rfl
@[simp] theorem decArr_proxyTok : decArr? proxyTok = none := rfl
@[simp] theorem encArr_ne_none (r : Nat × Arr) : (encArr r = V.none) = False := by simp [encArr]
@[simp] theorem encArr_ne_proxyTok (r : Nat × Arr) : (encArr r = proxyTok) = False := by simp [encArr, proxyTok]
@[simp] theorem isNone_encArr (r : Nat × Arr) : V.isNone (encArr r) = false := rfl
@[simp] theorem isNone_encOpt (o : Option (Nat × Arr)) : V.isNone (encOpt o) = o.isNone := by cases o <;> rfl
@[simp] theorem decOpt_encOpt (o : Option (Nat × Arr)) : decOpt? (encOpt o) = some o := by
  cases o <;> simp [decOpt?, encOpt]
@[simp] theorem decDtype_encDtype (d : DT) : decDtype? (encDtype d) = some d := by simp [decDtype?, encDtype]
@[simp] theorem encDtype_ne_none (d : DT) : (encDtype d = V.none) = False := by simp [encDtype]
@[simp] theorem decScalar_scalarType (d : DT) : decScalar? (scalarType d) = some d := by cases d <;> decide
@[simp] theorem decDtype_scalarType (d : DT) : decDtype? (scalarType d) = none := by cases d <;> rfl
@[simp] theorem npDtype_scalarType (d : DT) : npDtype (scalarType d) = .ok (encDtype d) := by simp [npDtype]
@[simp] theorem npDtype_encDtype (d : DT) : npDtype (encDtype d) = .ok (encDtype d) := by simp [npDtype]
@[simp] theorem getattr_type (d : DT) : pGetattr (encDtype d) (.str "type") = .ok (scalarType d) := by
  simp [pGetattr]
@[simp] theorem getattr_dtype (r : Nat × Arr) : pGetattr (encArr r) (.str "dtype") = .ok (encDtype r.2.dt) := by
  simp [pGetattr]
@[simp] theorem issubclass_inexact (d : DT) :
    pIssubclass (scalarType d) (.str "np.inexact") = .ok (.bool (decide (d ≠ .i2))) := by
  simp [pIssubclass]
@[simp] theorem pyEq_scalarType (a b : DT) : V.pyEq (scalarType a) (scalarType b) = decide (a = b) := by
  cases a <;> cases b <;> decide


@[simp] theorem getItem_dataobj (t : Spec) : V.getItem (encSelf t) (.str "_dataobj") = .ok (encObj t.img) := by
  simp [encSelf, V.getItem, V.dictGet?]
@[simp] theorem getItem_fcache (t : Spec) : V.getItem (encSelf t) (.str "_fdata_cache") = .ok (encOpt t.fcache) := by
  simp [encSelf, V.getItem, V.dictGet?]
@[simp] theorem getItem_dcache (t : Spec) : V.getItem (encSelf t) (.str "_data_cache") = .ok (encOpt t.dcache) := by
  simp [encSelf, V.getItem, V.dictGet?]
theorem setItem_fcache (t : Spec) (v : V) (o : Option (Nat × Arr)) (hv : v = encOpt o) :
    V.setItem (encSelf t) (.str "_fdata_cache") v = .ok (encSelf { t with fcache := o }) := by
  subst hv; simp [encSelf, V.setItem, V.dictSet]
theorem setItem_dcache (t : Spec) (v : V) (o : Option (Nat × Arr)) (hv : v = encOpt o) :
    V.setItem (encSelf t) (.str "_data_cache") v = .ok (encSelf { t with dcache := o }) := by
  subst hv; simp [encSelf, V.setItem, V.dictSet]

@[simp] theorem setItem_fcache_none (t : Spec) :
    V.setItem (encSelf t) (.str "_fdata_cache") V.none = .ok (encSelf { t with fcache := none }) :=
  setItem_fcache t V.none none rfl
@[simp] theorem setItem_fcache_arr (t : Spec) (r : Nat × Arr) :
    V.setItem (encSelf t) (.str "_fdata_cache") (encArr r) = .ok (encSelf { t with fcache := some r }) :=
  setItem_fcache t (encArr r) (some r) rfl
@[simp] theorem setItem_dcache_none (t : Spec) :
    V.setItem (encSelf t) (.str "_data_cache") V.none = .ok (encSelf { t with dcache := none }) :=
  setItem_dcache t V.none none rfl
@[simp] theorem setItem_dcache_arr (t : Spec) (r : Nat × Arr) :
    V.setItem (encSelf t) (.str "_data_cache") (encArr r) = .ok (encSelf { t with dcache := some r }) :=
  setItem_dcache t (encArr r) (some r) rfl

theorem decSelf_encSelf (t t' : Spec) (h : t'.img = t.img) :
    decSelf? t (encSelf t') = some { t with fcache := t'.fcache, dcache := t'.dcache } := by
  simp [decSelf?, encSelf, V.dictGet?, h]

end PyEnc

theorem gInMem_eq (t : Spec) : gInMem t = some t.inMemory := by
  unfold gInMem Gen.C13F.in_memory
  simp [prims, pIsinstance, Spec.inMemory]
  cases hi : t.img <;> cases hf : t.fcache <;> cases hd : t.dcache <;> simp [encObj, encOpt]

theorem gen_uncache_eq (t : Spec) : gstep t .uncache = some (Spec.step t .uncache) := by
  unfold gstep Gen.C13F.uncache
  simp [gfinish, decSelf_encSelf, gInMem_eq,
    Spec.step, Spec.retRes]

theorem gen_in_memory_eq (t : Spec) : gstep t .inMemory = some (Spec.step t .inMemory) := by
  simp [gstep, gInMem_eq, Spec.step, Spec.retRes]

theorem ofStr_cases (c : String) :
    (c = "fill" ∧ Caching.ofStr c = .fill) ∨ (c = "unchanged" ∧ Caching.ofStr c = .unchanged) ∨
    (c ≠ "fill" ∧ c ≠ "unchanged" ∧ Caching.ofStr c = .other) := by
  unfold Caching.ofStr
  by_cases h1 : c = "fill"
  · left; simp [h1]
  · by_cases h2 : c = "unchanged"
    · right; left; subst h2; simp
    · right; right; simp [h1, h2]

theorem gen_get_data_eq (t : Spec) (h : t.Ok) (c : String) :
    gstep t (.getData c) = some (Spec.step t (.getData (Caching.ofStr c))) := by
  unfold gstep Gen.C13F.get_data
  rcases ofStr_cases c with ⟨hc, ho⟩ | ⟨hc, ho⟩ | ⟨h1, h2, ho⟩
  · subst hc
    rw [ho]
    cases hd : t.dcache with
    | some r =>
      have := h.dcache r hd
      have hne : ¬ r.1 = t.next := by omega
      simp [hd, encOpt, gfinish, decSelf_encSelf, gInMem_eq, Spec.step, Spec.ret, hne]
    | none =>
      cases hi : t.img with
      | array own =>
        have := h.own own hi
        have hne : ¬ own.1 = t.next := by omega
        simp [hd, hi, encOpt, encObj, prims, pAsanyarray, asany, gfinish, gInMem_eq, Spec.step, Spec.ret,
          Spec.read, hne, decSelf_encSelf]
      | proxy raw p =>
        simp [hd, hi, encOpt, encObj, prims, pAsanyarray, asany, gfinish, gInMem_eq, Spec.step, Spec.ret,
          Spec.read, decSelf_encSelf]
  · subst hc
    rw [ho]
    cases hd : t.dcache with
    | some r =>
      have := h.dcache r hd
      have hne : ¬ r.1 = t.next := by omega
      simp [hd, encOpt, gfinish, decSelf_encSelf, gInMem_eq, Spec.step, Spec.ret, hne]
    | none =>
      cases hi : t.img with
      | array own =>
        have := h.own own hi
        have hne : ¬ own.1 = t.next := by omega
        simp [hd, hi, encOpt, encObj, prims, pAsanyarray, asany, gfinish, gInMem_eq, Spec.step, Spec.ret,
          Spec.read, hne, decSelf_encSelf]
      | proxy raw p =>
        simp [hd, hi, encOpt, encObj, prims, pAsanyarray, asany, gfinish, gInMem_eq, Spec.step, Spec.ret,
          Spec.read, decSelf_encSelf]
  · rw [ho]
    simp [h1, h2, gfinish, gInMem_eq, Spec.step, Spec.retRes]

/-- the part of `get_fdata` after the two argument checks -/
theorem gen_get_fdata_valid (t : Spec) (h : t.Ok) (c : String) (cc : Caching) (d : DT)
    (hc : (c = "fill" ∧ cc = .fill) ∨ (c = "unchanged" ∧ cc = .unchanged)) (hd : d ≠ .i2) :
    gfinish t (Gen.C13F.get_fdata (prims t) (encSelf t) (.str c) (scalarType d))
      = some (Spec.step t (.getFdata cc d)) := by
  have hcc : ¬ (cc = .other ∨ d = .i2) := by
    rcases hc with ⟨_, h⟩ | ⟨_, h⟩ <;> simp [h, hd]
  have hcs : c = "fill" ∨ c = "unchanged" := by rcases hc with ⟨h, _⟩ | ⟨h, _⟩ <;> simp [h]
  unfold Gen.C13F.get_fdata
  simp only [Spec.step, hcc, if_false]
  cases hf : t.fcache with
  | some r =>
    have := h.fcache r hf
    have hne : ¬ r.1 = t.next := by omega
    by_cases hdt : r.2.dt = d
    · rcases hcs with hc' | hc' <;>
        simp [hc', hd, hf, hdt, prims, encOpt, gfinish, decSelf_encSelf, gInMem_eq, Spec.ret, hne]
    ·
      cases hi : t.img with
      | array own =>
        have := h.own own hi
        have hne' : ¬ own.1 = t.next := by omega
        by_cases hod : own.2.dt = d
        · rcases hc with ⟨hc', hcc'⟩ | ⟨hc', hcc'⟩ <;>
            simp [hc', hcc', hd, hf, hdt, hi, hod, prims, encOpt, encObj, pAsanyarray, asany, gfinish, gInMem_eq,
              Spec.ret, Spec.read, hne', decSelf_encSelf]
        · rcases hc with ⟨hc', hcc'⟩ | ⟨hc', hcc'⟩ <;>
            simp [hc', hcc', hd, hf, hdt, hi, hod, prims, encOpt, encObj, pAsanyarray, asany, gfinish, gInMem_eq,
              Spec.ret, Spec.read, decSelf_encSelf]
      | proxy raw p =>
        rcases hc with ⟨hc', hcc'⟩ | ⟨hc', hcc'⟩ <;>
          simp [hc', hcc', hd, hf, hdt, hi, prims, encOpt, encObj, pAsanyarray, asany, gfinish, gInMem_eq,
            Spec.ret, Spec.read, decSelf_encSelf]
  | none =>
    have hdt : True := trivial
    cases hi : t.img with
    | array own =>
      have := h.own own hi
      have hne' : ¬ own.1 = t.next := by omega
      by_cases hod : own.2.dt = d
      · rcases hc with ⟨hc', hcc'⟩ | ⟨hc', hcc'⟩ <;>
          simp [hc', hcc', hd, hf, hdt, hi, hod, prims, encOpt, encObj, pAsanyarray, asany, gfinish, gInMem_eq,
            Spec.ret, Spec.read, hne', decSelf_encSelf]
      · rcases hc with ⟨hc', hcc'⟩ | ⟨hc', hcc'⟩ <;>
          simp [hc', hcc', hd, hf, hdt, hi, hod, prims, encOpt, encObj, pAsanyarray, asany, gfinish, gInMem_eq,
            Spec.ret, Spec.read, decSelf_encSelf]
    | proxy raw p =>
      rcases hc with ⟨hc', hcc'⟩ | ⟨hc', hcc'⟩ <;>
        simp [hc', hcc', hd, hf, hdt, hi, prims, encOpt, encObj, pAsanyarray, asany, gfinish, gInMem_eq,
          Spec.ret, Spec.read, decSelf_encSelf]

theorem gen_get_fdata_eq (t : Spec) (h : t.Ok) (c : String) (d : DT) :
    gstep t (.getFdata c d) = some (Spec.step t (.getFdata (Caching.ofStr c) d)) := by
  unfold gstep
  rcases ofStr_cases c with ⟨hc, ho⟩ | ⟨hc, ho⟩ | ⟨h1, h2, ho⟩
  · by_cases hd : d = .i2
    · subst hd hc
      unfold Gen.C13F.get_fdata
      simp [prims, gfinish, gInMem_eq, Spec.step, Spec.retRes]
    · exact gen_get_fdata_valid t h c _ d (Or.inl ⟨hc, ho⟩) hd
  · by_cases hd : d = .i2
    · subst hd hc
      unfold Gen.C13F.get_fdata
      simp [prims, gfinish, gInMem_eq, Spec.step, Spec.retRes]
    · exact gen_get_fdata_valid t h c _ d (Or.inr ⟨hc, ho⟩) hd
  · rw [ho]
    unfold Gen.C13F.get_fdata
    simp [h1, h2, gfinish, gInMem_eq, Spec.step, Spec.retRes]

theorem gen_asarray_eq (t : Spec) (h : t.Ok) : gstep t .asarray = some (Spec.step t .asarray) := by
  unfold gstep gAsarray Gen.C13F.dataobj
  cases hi : t.img with
  | array own =>
    have := h.own own hi
    have hne : ¬ own.1 = t.next := by omega
    simp [hi, encObj, prims, pAsanyarray, asany, gfinish, gInMem_eq, Spec.step, Spec.ret, Spec.read, hne,
      decSelf_encSelf]
  | proxy raw p =>
    simp [hi, encObj, prims, pAsanyarray, asany, gfinish, gInMem_eq, Spec.step, Spec.ret, Spec.read,
      decSelf_encSelf]

/-- stage T, one step: every op executed through the methods translated from the current source is the
    documented model's step -/
theorem gstep_eq (t : Spec) (h : t.Ok) (g : GOp) : gstep t g = some (Spec.step t g.toOp) := by
  cases g with
  | getFdata c d => exact gen_get_fdata_eq t h c d
  | getData c => exact gen_get_data_eq t h c
  | uncache => exact gen_uncache_eq t
  | inMemory => exact gen_in_memory_eq t
  | asarray => exact gen_asarray_eq t h
  | other op => rfl

theorem ofStr_toStr (c : Caching) : Caching.ofStr c.toStr = c := by cases c <;> decide

theorem toOp_ofOp (op : Op) : (GOp.ofOp op).toOp = op := by
  cases op <;> simp [GOp.ofOp, GOp.toOp, ofStr_toStr]

theorem abs_ok {s : State} (h : s.WF) : (abs s).Ok := by
  refine ⟨?_, ?_, ?_⟩
  · intro r hr
    simp only [abs] at hr
    cases hi : s.img with
    | array own => rw [hi] at hr; cases hr; exact h.own own hi
    | proxy a b => rw [hi] at hr; cases hr
  · intro r hr
    simp only [abs] at hr
    cases hf : s.fcache with
    | none => rw [hf] at hr; cases hr
    | some i => rw [hf] at hr; simp only [Option.map_some] at hr; cases hr; exact h.fcache i hf
  · intro r hr
    simp only [abs] at hr
    cases hf : s.dcache with
    | none => rw [hf] at hr; cases hr
    | some i => rw [hf] at hr; simp only [Option.map_some] at hr; cases hr; exact h.dcache i hf

/-- stage T, whole histories: the outputs computed by the translated methods from the abstraction of a
    well-formed implementation-model state are that model's trace -/
theorem gtrace_eq {s : State} (h : s.WF) (gs : List GOp) :
    gtrace (abs s) gs = some (trace s (gs.map GOp.toOp)) := by
  induction gs generalizing s with
  | nil => rfl
  | cons g gs ih =>
    have hs := sim_step h g.toOp
    simp only [gtrace, gstep_eq (abs s) (abs_ok h) g, List.map_cons, trace]
    rw [← hs.1, ih (step_wf' h g.toOp), hs.2]
    rfl

theorem trace_length (s : State) (ops : List Op) : (trace s ops).length = ops.length := by
  induction ops generalizing s with
  | nil => rfl
  | cons op ops ih => simp [trace, ih]

theorem gtrace_ops {s : State} (h : s.WF) (ops : List Op) :
    gtrace (abs s) (ops.map GOp.ofOp) = some (trace s ops) := by
  rw [gtrace_eq h, List.map_map]
  congr 1
  conv => rhs; rw [← List.map_id ops]
  apply congrArg (fun f => trace s (List.map f ops))
  funext op
  exact toOp_ofOp op

end Nb.C13
