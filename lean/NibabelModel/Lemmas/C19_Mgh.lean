import NibabelModel.Lemmas.C19
/-! Lemmas/C19_Mgh — MGH file layout: lengths, offsets, the header/data/footer round trip (core Lean only). -/
namespace Nb.C19
open Nb.Gen.C19

/-! ### MGH file layout -/

theorem drop_append_len {α} (l1 l2 : List α) (n : Nat) (h : l1.length = n) : (l1 ++ l2).drop n = l2 := by
  subst h; simp

theorem take_append_len {α} (l1 l2 : List α) (n : Nat) (h : l1.length = n) : (l1 ++ l2).take n = l1 := by
  subst h; simp

theorem encU32_length (u : Nat) : (encU32 u).length = 4 := rfl

theorem encU32s_length (l : List Nat) : (encU32s l).length = 4 * l.length := by
  induction l with
  | nil => rfl
  | cons a t ih => simp only [encU32s, List.length_append, encU32_length, ih, List.length_cons]; omega

theorem encW_length (w v : Nat) (hw : w = 1 ∨ w = 2 ∨ w = 4) : (encW w v).length = w := by
  rcases hw with rfl | rfl | rfl <;> rfl

theorem encWs_length (w : Nat) (l : List Nat) (hw : w = 1 ∨ w = 2 ∨ w = 4) : (encWs w l).length = w * l.length := by
  induction l with
  | nil => simp [encWs]
  | cons a t ih =>
    simp only [encWs, List.length_append, encW_length w a hw, ih, List.length_cons]
    rw [Nat.mul_add]; omega

theorem decBE_encW (w v : Nat) (hw : w = 1 ∨ w = 2 ∨ w = 4) (hv : v < 256 ^ w) : decBE (encW w v) = v := by
  rcases hw with rfl | rfl | rfl
  · simp only [encW, decBE, if_true, List.foldl_cons, List.foldl_nil]; omega
  · simp only [encW, decBE, show ¬ ((2 : Nat) = 1) from by decide, if_false, if_true, List.foldl_cons, List.foldl_nil]; omega
  · simp only [encW, decBE, encU32, show ¬ ((4 : Nat) = 1) from by decide, show ¬ ((4 : Nat) = 2) from by decide,
      if_false, List.foldl_cons, List.foldl_nil]
    omega

theorem rdWs_enc (w : Nat) (hw : w = 1 ∨ w = 2 ∨ w = 4) (data : List Nat) (r : Bytes)
    (hd : ∀ v ∈ data, v < 256 ^ w) : rdWs w data.length (encWs w data ++ r) = .ok data := by
  induction data with
  | nil => rfl
  | cons a t ih =>
    have ha := hd a (List.mem_cons_self ..)
    have ht : ∀ v ∈ t, v < 256 ^ w := fun v hv => hd v (List.mem_cons_of_mem _ hv)
    have hl := encW_length w a hw
    have hnl : ¬ ((encW w a ++ (encWs w t ++ r)).length < w) := by
      simp only [List.length_append, hl]; omega
    simp only [List.length_cons, rdWs, encWs, List.append_assoc, hnl, if_false,
      drop_append_len _ _ w hl, take_append_len _ _ w hl, ih ht, decBE_encW w a hw ha]

theorem bytesPerVox_width (code bpv : Nat) (h : bytesPerVox code = some bpv) : bpv = 1 ∨ bpv = 2 ∨ bpv = 4 := by
  have key : ∀ e ∈ typeCodes, e.2.2 = 1 ∨ e.2.2 = 2 ∨ e.2.2 = 4 := by decide
  unfold bytesPerVox at h
  cases hf : typeCodes.find? (fun e => e.2.1 == code) with
  | none => rw [hf] at h; cases h
  | some e =>
    rw [hf] at h
    simp only [Option.map_some, Option.some.injEq] at h
    rw [← h]
    exact key e (List.mem_of_find?_eq_some hf)

/-- `readMgh` over variables -/
theorem readMgh_steps (bs : Bytes) (version : Nat) (r0 : Bytes) (x y z f : Nat) (q1 q2 q3 r1 : Bytes) (code : Nat)
    (rc : Bytes) (bpv : Nat) (delta : List Nat) (rd : Bytes) (ftr : List Nat) (rf : Bytes) (data : List Nat)
    (hl : ¬ bs.length < hdrItemsize)
    (h0 : rdU32 bs = .ok (version, r0)) (h1 : rdU32 r0 = .ok (x, q1)) (h2 : rdU32 q1 = .ok (y, q2))
    (h3 : rdU32 q2 = .ok (z, q3)) (h4 : rdU32 q3 = .ok (f, r1))
    (hz : ¬ (x = 0 ∨ y = 0 ∨ z = 0 ∨ f = 0))
    (h5 : rdU32 r1 = .ok (code, rc)) (h6 : bytesPerVox code = some bpv)
    (hg : ¬ decBE ((bs.drop 28).take 2) = 0)
    (h7 : rdU32s 3 (bs.drop 30) = .ok (delta, rd))
    (h8 : rdU32s 5 (padTo ftrItemsize (bs.drop (footerOffset bpv ⟨x, y, z, f⟩))) = .ok (ftr, rf))
    (hv : version = 1)
    (h9 : rdWs bpv (Dims.prod ⟨x, y, z, f⟩) (bs.drop dataOffset) = .ok data) :
    readMgh bs = .ok (⟨⟨x, y, z, f⟩, code, delta, ftr⟩, (bs.drop 42).take 48, data) := by
  simp only [readMgh, hl, if_false, h0, h1, h2, h3, h4, hz, h5, h6, hg, h7, h8, hv, ne_eq, not_true_eq_false, h9]

theorem padTo_exact (n : Nat) (bs : Bytes) (h : bs.length = n) : padTo n bs = bs := by
  subst h; simp [padTo, zeros]

/-- header + data + footer written by `writeMgh` are read back by `readMgh`, and the footer sits at
    `footerOffset` -/
theorem mgh_file_roundtrip_aux (x y z f code : Nat) (delta ftr : List Nat) (ras : Bytes) (bpv : Nat) (data : List Nat)
    (hb : bytesPerVox code = some bpv)
    (hnz : ¬ (x = 0 ∨ y = 0 ∨ z = 0 ∨ f = 0))
    (hx : x < 4294967296) (hy : y < 4294967296) (hz : z < 4294967296) (hf : f < 4294967296)
    (hcode : code < 4294967296)
    (hdl : delta.length = 3) (hdv : ∀ v ∈ delta, v < 4294967296)
    (hfl : ftr.length = 5) (hfv : ∀ v ∈ ftr, v < 4294967296)
    (hras : ras.length = 48)
    (hdata : data.length = Dims.prod ⟨x, y, z, f⟩) (hdat : ∀ v ∈ data, v < 256 ^ bpv) :
    readMgh (writeMgh ⟨⟨x, y, z, f⟩, code, delta, ftr⟩ ras bpv data) = .ok (⟨⟨x, y, z, f⟩, code, delta, ftr⟩, ras, data)
    ∧ (writeMgh ⟨⟨x, y, z, f⟩, code, delta, ftr⟩ ras bpv data).length
        = footerOffset bpv ⟨x, y, z, f⟩ + ftrItemsize := by
  have hw := bytesPerVox_width code bpv hb
  -- normal form of the file
  have nf : writeMgh ⟨⟨x, y, z, f⟩, code, delta, ftr⟩ ras bpv data
      = encU32 1 ++ (encU32 x ++ (encU32 y ++ (encU32 z ++ (encU32 f ++ (encU32 code ++ (encU32 0 ++
          (0 :: 1 :: (encU32s delta ++ (ras ++ (zeros 194 ++ (encWs bpv data ++ encU32s ftr))))))))))) := by
    simp [writeMgh, Dims.toList, encU32s, defVersion, defDof, defGoodRAS, dataOffset, hdrItemsize]
  rw [nf]
  generalize hT2 : encU32s delta ++ (ras ++ (zeros 194 ++ (encWs bpv data ++ encU32s ftr))) = T2
  have lenT2 : T2.length = 12 + 48 + 194 + bpv * data.length + 20 := by
    rw [← hT2]
    simp only [List.length_append, encU32s_length, hdl, hras, zeros, List.length_replicate, encWs_length bpv data hw, hfl]
    omega
  have e28 : encU32 1 ++ (encU32 x ++ (encU32 y ++ (encU32 z ++ (encU32 f ++ (encU32 code ++ (encU32 0 ++ (0 :: 1 :: T2)))))))
      = (encU32 1 ++ (encU32 x ++ (encU32 y ++ (encU32 z ++ (encU32 f ++ (encU32 code ++ encU32 0)))))) ++ ([0, 1] ++ T2) := by
    simp only [List.append_assoc, List.cons_append, List.nil_append]
  have e30 : encU32 1 ++ (encU32 x ++ (encU32 y ++ (encU32 z ++ (encU32 f ++ (encU32 code ++ (encU32 0 ++ (0 :: 1 :: T2)))))))
      = (encU32 1 ++ (encU32 x ++ (encU32 y ++ (encU32 z ++ (encU32 f ++ (encU32 code ++ (encU32 0 ++ [0, 1]))))))) ++ T2 := by
    simp only [List.append_assoc, List.cons_append, List.nil_append]
  have e284 : (encU32 1 ++ (encU32 x ++ (encU32 y ++ (encU32 z ++ (encU32 f ++ (encU32 code ++ (encU32 0 ++ [0, 1]))))))) ++ T2
      = ((encU32 1 ++ (encU32 x ++ (encU32 y ++ (encU32 z ++ (encU32 f ++ (encU32 code ++ (encU32 0 ++ [0, 1]))))))) ++
          (encU32s delta ++ (ras ++ zeros 194))) ++ (encWs bpv data ++ encU32s ftr) := by
    rw [← hT2]; simp only [List.append_assoc]
  have eF : (encU32 1 ++ (encU32 x ++ (encU32 y ++ (encU32 z ++ (encU32 f ++ (encU32 code ++ (encU32 0 ++ [0, 1]))))))) ++ T2
      = ((encU32 1 ++ (encU32 x ++ (encU32 y ++ (encU32 z ++ (encU32 f ++ (encU32 code ++ (encU32 0 ++ [0, 1]))))))) ++
          (encU32s delta ++ (ras ++ (zeros 194 ++ encWs bpv data)))) ++ encU32s ftr := by
    rw [← hT2]; simp only [List.append_assoc]
  have e42 : (encU32 1 ++ (encU32 x ++ (encU32 y ++ (encU32 z ++ (encU32 f ++ (encU32 code ++ (encU32 0 ++ [0, 1]))))))) ++ T2
      = ((encU32 1 ++ (encU32 x ++ (encU32 y ++ (encU32 z ++ (encU32 f ++ (encU32 code ++ (encU32 0 ++ [0, 1]))))))) ++
          encU32s delta) ++ (ras ++ (zeros 194 ++ (encWs bpv data ++ encU32s ftr))) := by
    rw [← hT2]; simp only [List.append_assoc]
  have l30 : (encU32 1 ++ (encU32 x ++ (encU32 y ++ (encU32 z ++ (encU32 f ++ (encU32 code ++ (encU32 0 ++ [0, 1]))))))).length = 30 := rfl
  have l28 : (encU32 1 ++ (encU32 x ++ (encU32 y ++ (encU32 z ++ (encU32 f ++ (encU32 code ++ encU32 0)))))).length = 28 := rfl
  have l284 : ((encU32 1 ++ (encU32 x ++ (encU32 y ++ (encU32 z ++ (encU32 f ++ (encU32 code ++ (encU32 0 ++ [0, 1]))))))) ++
          (encU32s delta ++ (ras ++ zeros 194))).length = dataOffset := by
    simp only [List.length_append, l30, encU32s_length, hdl, hras, zeros, List.length_replicate, dataOffset]
  have lF : ((encU32 1 ++ (encU32 x ++ (encU32 y ++ (encU32 z ++ (encU32 f ++ (encU32 code ++ (encU32 0 ++ [0, 1]))))))) ++
          (encU32s delta ++ (ras ++ (zeros 194 ++ encWs bpv data)))).length = footerOffset bpv ⟨x, y, z, f⟩ := by
    simp only [List.length_append, l30, encU32s_length, hdl, hras, zeros, List.length_replicate,
      encWs_length bpv data hw, footerOffset, dataOffset, hdata]
    omega
  generalize hF : encU32 1 ++ (encU32 x ++ (encU32 y ++ (encU32 z ++ (encU32 f ++ (encU32 code ++ (encU32 0 ++ (0 :: 1 :: T2))))))) = file at e28 e30
  have g0 : ¬ file.length < hdrItemsize := by
    rw [← hF]
    simp only [List.length_append, encU32_length, List.length_cons, lenT2, hdrItemsize]; omega
  have g1 : ¬ decBE ((file.drop 28).take 2) = 0 := by
    rw [e28, drop_append_len _ _ 28 l28]; simp [decBE]
  have g2 : rdU32s 3 (file.drop 30) = .ok (delta, ras ++ (zeros 194 ++ (encWs bpv data ++ encU32s ftr))) := by
    rw [e30, drop_append_len _ _ 30 l30, ← hT2, ← hdl]
    exact rdU32s_enc delta _ hdv
  have g3 : rdU32s 5 (padTo ftrItemsize (file.drop (footerOffset bpv ⟨x, y, z, f⟩))) = .ok (ftr, []) := by
    rw [e30, eF, drop_append_len _ _ _ lF, padTo_exact _ _ (by rw [encU32s_length, hfl]; rfl)]
    have := rdU32s_enc ftr [] hfv
    rw [List.append_nil, hfl] at this
    exact this
  have g4 : rdWs bpv (Dims.prod ⟨x, y, z, f⟩) (file.drop dataOffset) = .ok data := by
    rw [e30, e284, drop_append_len _ _ _ l284, ← hdata]
    exact rdWs_enc bpv hw data _ hdat
  have l42 : ((encU32 1 ++ (encU32 x ++ (encU32 y ++ (encU32 z ++ (encU32 f ++ (encU32 code ++ (encU32 0 ++ [0, 1]))))))) ++
          encU32s delta).length = 42 := by
    simp only [List.length_append, l30, encU32s_length, hdl]
  have g5 : (file.drop 42).take 48 = ras := by
    rw [e30, e42, drop_append_len _ _ 42 l42, take_append_len _ _ 48 hras]
  constructor
  · subst hF
    rw [← g5]
    exact readMgh_steps _ 1 _ x y z f _ _ _ _ code _ bpv delta _ ftr [] data g0
      (rdU32_enc 1 _ (by decide)) (rdU32_enc x _ hx) (rdU32_enc y _ hy) (rdU32_enc z _ hz) (rdU32_enc f _ hf) hnz
      (rdU32_enc code _ hcode) hb g1 g2 g3 rfl g4
  · rw [← hF]
    simp only [List.length_append, encU32_length, List.length_cons, lenT2, footerOffset, dataOffset, ftrItemsize, hdata]
    omega

/-! ### shape / zooms -/

/-- the shape `MGHImage.__init__` gives the data object -/
def imgShape (s : List Nat) : List Nat := if s.length < 3 then padShape3 s else s

theorem setZooms_dims (h h' : MghHdr) (zs : List Nat) (e : setZooms h zs = .ok h') :
    h'.dims = h.dims ∧ h'.code = h.code := by
  unfold setZooms at e
  split at e
  · cases e
  · split at e
    · cases e
    · split at e
      · cases e; exact ⟨rfl, rfl⟩
      · cases e; exact ⟨rfl, rfl⟩
      · split at e
        · cases e
        · cases e; exact ⟨rfl, rfl⟩
      · cases e

theorem setFtr_dims (h : MghHdr) (sets : List (Nat × Nat)) : (setFtr h sets).dims = h.dims := by
  unfold setFtr
  induction sets generalizing h with
  | nil => rfl
  | cons a t ih => simp only [List.foldl_cons]; rw [ih]

/-- contiguous tiling of a dtype layout starting at `off` -/
def tiles : Nat → List (String × Nat × Nat × Nat) → Nat → Bool
  | off, [], total => off == total
  | off, (_, o, sz, cnt) :: t, total => o == off && tiles (off + sz * cnt) t total

/-! ### save → load, end to end -/

/-- the footer a saved image must carry: TR first, then the assignments in order -/
def ftrSpec (tr : Nat) (sets : List (Nat × Nat)) : List Nat :=
  sets.foldl (fun f s => f.set s.1 s.2) [tr, 0, 0, 0, 0]

theorem setFtr_spec (h : MghHdr) (sets : List (Nat × Nat)) :
    setFtr h sets = { h with ftr := sets.foldl (fun f s => f.set s.1 s.2) h.ftr } := by
  unfold setFtr
  induction sets generalizing h with
  | nil => rfl
  | cons a t ih => simp only [List.foldl_cons]; rw [ih]

theorem foldl_set_inv (sets : List (Nat × Nat)) (f : List Nat) (n : Nat) (hl : f.length = n)
    (hf : ∀ v ∈ f, v < 4294967296) (hs : ∀ p ∈ sets, p.2 < 4294967296) :
    (sets.foldl (fun f s => f.set s.1 s.2) f).length = n ∧
      ∀ v ∈ sets.foldl (fun f s => f.set s.1 s.2) f, v < 4294967296 := by
  induction sets generalizing f with
  | nil => exact ⟨hl, hf⟩
  | cons a t ih =>
    simp only [List.foldl_cons]
    apply ih
    · simp [hl]
    · intro v hv
      rcases List.mem_or_eq_of_mem_set hv with h | h
      · exact hf v h
      · rw [h]; exact hs a (List.mem_cons_self ..)
    · exact fun p hp => hs p (List.mem_cons_of_mem _ hp)

theorem imgShape_eq (s : List Nat) : imgShape s = s ++ List.replicate (3 - s.length) 1 := by
  unfold imgShape padShape3
  split
  · rfl
  · have : 3 - s.length = 0 := by omega
    simp [this]

theorem setDataShape_toList (sh : List Nat) (d : Dims) (h : setDataShape sh = .ok d) :
    d.toList = sh ++ List.replicate (4 - sh.length) 1 := by
  match sh, h with
  | [], h => cases h; rfl
  | [a], h => cases h; rfl
  | [a, b], h => cases h; rfl
  | [a, b, c], h => cases h; rfl
  | [a, b, c, e], h => cases h; rfl
  | _ :: _ :: _ :: _ :: _ :: _, h => simp [setDataShape] at h

theorem prod_append_ones (l : List Nat) (k : Nat) : prod (l ++ List.replicate k 1) = prod l := by
  induction l with
  | nil =>
    induction k with
    | zero => rfl
    | succ k ih => simp only [List.nil_append] at ih; simp [List.replicate_succ, prod, ih]
  | cons a t ih => simp only [List.cons_append, prod, ih]

theorem dims_prod_toList (d : Dims) : d.prod = prod d.toList := by
  simp [Dims.prod, Dims.toList, prod, Nat.mul_assoc]

theorem setZooms_spec3 (h : MghHdr) (a b c : Nat) (hn : ndims h.dims = 3)
    (hpos : ([a, b, c].take 3).any f32LeZero = false) :
    setZooms h [a, b, c] = .ok { h with delta := [a, b, c] } := by
  simp only [setZooms, List.length_cons, List.length_nil, hn, hpos]; simp

theorem setZooms_spec4 (h : MghHdr) (a b c t : Nat) (hn : ndims h.dims = 4)
    (hpos : ([a, b, c, t].take 3).any f32LeZero = false) (ht : f32LtZero t = false) :
    setZooms h [a, b, c, t] = .ok { h with delta := [a, b, c], ftr := t :: h.ftr.drop 1 } := by
  simp only [setZooms, List.length_cons, List.length_nil, hn, hpos, ht]; simp

theorem codeOfDtype_lt (dt : String) (code : Nat) (h : codeOfDtype dt = some code) : code < 4294967296 := by
  have key : ∀ e ∈ typeCodes, e.2.1 < 4294967296 := by decide
  unfold codeOfDtype at h
  cases hf : typeCodes.find? (fun e => e.1 == dt) with
  | none => rw [hf] at h; cases h
  | some e =>
    rw [hf] at h
    simp only [Option.map_some, Option.some.injEq] at h
    rw [← h]
    exact key e (List.mem_of_find?_eq_some hf)


/-- TR recorded by `set_zooms` (0 when no 4th zoom was given) -/
def trOf : Option (List Nat) → Nat
  | some [_, _, _, t] => t
  | _ => 0

/-- what `get_zooms` must give: voxel sizes, and TR for a 4-D volume -/
def zoomsSpec (aff : List Nat) (nd tr : Nat) : List Nat := aff ++ (if nd > 3 then [tr] else [])

/-- `header.get_zooms()` before saving: what the caller set, or the defaults derived from the affine -/
def hzSpec (setZ : Option (List Nat)) (aff : List Nat) (nd : Nat) : List Nat :=
  match setZ with
  | some zs => zs
  | none => zoomsSpec aff nd 0

theorem mghSaveLoadFrom_ok (sh : List Nat) (code bpv : Nat) (h1 : MghHdr) (data aff : List Nat) (ras : Bytes)
    (sets : List (Nat × Nat)) (d : Dims) (tr : Nat)
    (d1 : h1.dims = d) (c1 : h1.code = code) (f1 : h1.ftr = [tr, 0, 0, 0, 0]) (trb : tr < 4294967296)
    (hgs : getDataShape d = sh) (hnd : ndims d = sh.length)
    (hmem : ∀ n ∈ d.toList, 0 < n ∧ n < 4294967296)
    (hcode : code < 4294967296) (hb : bytesPerVox code = some bpv)
    (haff : aff.length = 3) (haffv : ∀ v ∈ aff, v < 4294967296)
    (hras : ras.length = 48)
    (hdata : data.length = d.prod) (hdat : ∀ v ∈ data, v < 256 ^ bpv)
    (hsets : ∀ p ∈ sets, p.2 < 4294967296) :
    mghSaveLoadFrom sh code h1 data aff ras sets = .ok
      { hz := getZooms h1,
        file := writeMgh ⟨d, code, aff, ftrSpec tr sets⟩ ras bpv data,
        shape := sh, code := code,
        zooms := zoomsSpec aff sh.length ((ftrSpec tr sets).headD 0),
        ftr := ftrSpec tr sets, data := data, ras := ras } := by
  have hnz : ¬ (d.x = 0 ∨ d.y = 0 ∨ d.z = 0 ∨ d.f = 0) := by
    have h1 := hmem d.x (by simp [Dims.toList])
    have h2 := hmem d.y (by simp [Dims.toList])
    have h3 := hmem d.z (by simp [Dims.toList])
    have h4 := hmem d.f (by simp [Dims.toList])
    omega
  have hfs := foldl_set_inv sets [tr, 0, 0, 0, 0] 5 rfl
    (by intro v hv; simp only [List.mem_cons, List.not_mem_nil, or_false] at hv; rcases hv with rfl | rfl | rfl | rfl | rfl <;> omega)
    hsets
  have hrt := mgh_file_roundtrip_aux d.x d.y d.z d.f code aff (ftrSpec tr sets) ras bpv data hb hnz
    (hmem d.x (by simp [Dims.toList])).2 (hmem d.y (by simp [Dims.toList])).2 (hmem d.z (by simp [Dims.toList])).2
    (hmem d.f (by simp [Dims.toList])).2 hcode haff haffv hfs.1 hfs.2 hras hdata hdat
  have hd : (⟨d.x, d.y, d.z, d.f⟩ : Dims) = d := rfl
  rw [hd] at hrt
  unfold mghSaveLoadFrom
  simp only [setFtr_spec, d1, c1, f1, hgs, ne_eq, not_true_eq_false, if_false, hb]
  unfold ftrSpec at hrt ⊢
  rw [hrt.1]
  simp only [getZooms, zoomsSpec, hnd, ftrTr, hgs]

/-- **MGH save → load, end to end** (auxiliary form with the dims exposed) -/
theorem mgh_save_load_aux (s : List Nat) (dt : String) (code bpv : Nat) (data aff : List Nat) (ras : Bytes)
    (setZ : Option (List Nat)) (sets : List (Nat × Nat)) (d : Dims)
    (hsd : setDataShape (imgShape s) = .ok d) (hgs : getDataShape d = imgShape s)
    (hnd : ndims d = (imgShape s).length)
    (hpos : ∀ n ∈ s, 0 < n ∧ n < 2147483648)
    (hc : codeOfDtype dt = some code) (hb : bytesPerVox code = some bpv)
    (haff : aff.length = 3) (haffv : ∀ v ∈ aff, v < 4294967296)
    (hras : ras.length = 48)
    (hdata : data.length = prod s) (hdat : ∀ v ∈ data, v < 256 ^ bpv)
    (hz : ∀ zs, setZ = some zs → zs.length = (imgShape s).length ∧ (zs.take 3).any f32LeZero = false ∧
            (∀ t, zs[3]? = some t → f32LtZero t = false) ∧ ∀ v ∈ zs, v < 4294967296)
    (hsets : ∀ p ∈ sets, p.2 < 4294967296) :
    mghSaveLoad s dt data aff ras setZ sets = .ok
      { hz := hzSpec setZ aff (imgShape s).length,
        file := writeMgh ⟨d, code, aff, ftrSpec (trOf setZ) sets⟩ ras bpv data,
        shape := imgShape s, code := code,
        zooms := zoomsSpec aff (imgShape s).length ((ftrSpec (trOf setZ) sets).headD 0),
        ftr := ftrSpec (trOf setZ) sets, data := data, ras := ras } := by
  have htl := setDataShape_toList _ _ hsd
  have hmem : ∀ n ∈ d.toList, 0 < n ∧ n < 4294967296 := by
    intro n hn
    rw [htl, imgShape_eq] at hn
    simp only [List.mem_append, List.mem_replicate] at hn
    rcases hn with (hn | hn) | hn
    · have := hpos n hn; omega
    · omega
    · omega
  have hprod : d.prod = prod s := by
    rw [dims_prod_toList, htl, prod_append_ones, imgShape_eq, prod_append_ones]
  have hcode := codeOfDtype_lt dt code hc
  have himg : (if s.length < 3 then padShape3 s else s) = imgShape s := rfl
  unfold mghSaveLoad
  simp only [himg, hc, hsd]
  cases setZ with
  | none =>
    simp only []
    rw [mghSaveLoadFrom_ok (imgShape s) code bpv _ data aff ras sets d 0 rfl rfl rfl (by decide) hgs hnd hmem hcode hb
      haff haffv hras (by rw [hdata, hprod]) hdat hsets]
    simp [hzSpec, trOf, getZooms, zoomsSpec, hnd, ftrTr]
  | some zs =>
    obtain ⟨z1, z2, z3, z4⟩ := hz zs rfl
    have hnd' : ndims d = 3 ∨ ndims d = 4 := by unfold ndims; split <;> simp
    simp only []
    rcases hnd' with h3 | h4
    · have hl3 : zs.length = 3 := by omega
      match zs, hl3 with
      | [a, b, c], _ =>
        rw [setZooms_spec3 _ a b c h3 z2]
        simp only []
        rw [mghSaveLoadFrom_ok (imgShape s) code bpv _ data aff ras sets d 0 rfl rfl rfl (by decide) hgs hnd hmem hcode hb
          haff haffv hras (by rw [hdata, hprod]) hdat hsets]
        simp [hzSpec, trOf, getZooms, h3]
    · have hl4 : zs.length = 4 := by omega
      match zs, hl4 with
      | [a, b, c, t], _ =>
        rw [setZooms_spec4 _ a b c t h4 z2 (z3 t rfl)]
        simp only []
        rw [mghSaveLoadFrom_ok (imgShape s) code bpv _ data aff ras sets d t rfl rfl rfl (z4 t (by simp)) hgs hnd hmem hcode hb
          haff haffv hras (by rw [hdata, hprod]) hdat hsets]
        simp [hzSpec, trOf, getZooms, h4, ftrTr]

end Nb.C19
