import NibabelModel.Lemmas.C10
import NibabelModel.Lemmas.C10_Checks
import NibabelModel.Lemmas.C10_Gen
/-! Lemmas/C10_Glue — field access by name on a parsed record (`getRaw`/`setRaw`), the signed codec, and
    the invariants that tie the record `CF` of checked fields to the header bytes. -/
namespace Nb.C10

/-! ### get / set by name -/

theorem valsOk_length {fs : List Field} {vs : List (List Nat)} (h : valsOk fs vs = true) :
    vs.length = fs.length := by
  induction fs generalizing vs with
  | nil => cases vs <;> simp_all [valsOk]
  | cons f fs ih =>
    cases vs with
    | nil => simp [valsOk] at h
    | cons v vs =>
      simp only [valsOk, Bool.and_eq_true] at h
      simp [ih h.2]

theorem getRawFs_absent (fs : List Field) (vs : List (List Nat)) (n : String) (h : findFs fs n = none) :
    getRawFs fs vs n = [] := by
  induction fs generalizing vs with
  | nil => cases vs <;> rfl
  | cons f fs ih =>
    cases vs with
    | nil => rfl
    | cons v vs =>
      by_cases hg : f.name = n
      · simp [findFs, hg] at h
      · simp only [findFs, hg, if_false] at h
        simp only [getRawFs, hg, if_false]; exact ih vs h

theorem setRawFs_absent (fs : List Field) (vs : List (List Nat)) (n : String) (x : List Nat)
    (h : findFs fs n = none) : setRawFs fs vs n x = vs := by
  induction fs generalizing vs with
  | nil => cases vs <;> rfl
  | cons f fs ih =>
    cases vs with
    | nil => rfl
    | cons v vs =>
      by_cases hg : f.name = n
      · simp [findFs, hg] at h
      · simp only [findFs, hg, if_false] at h
        simp only [setRawFs, hg, if_false]; rw [ih vs h]

theorem setRawFs_length (fs : List Field) (vs : List (List Nat)) (n : String) (x : List Nat) :
    (setRawFs fs vs n x).length = vs.length := by
  induction fs generalizing vs with
  | nil => cases vs <;> rfl
  | cons f fs ih =>
    cases vs with
    | nil => rfl
    | cons v vs => simp only [setRawFs]; split <;> simp [ih]

theorem getRawFs_setRawFs_same (fs : List Field) (vs : List (List Nat)) (n : String) (x : List Nat)
    (hl : vs.length = fs.length) (f : Field) (hp : findFs fs n = some f) :
    getRawFs fs (setRawFs fs vs n x) n = x := by
  induction fs generalizing vs with
  | nil => simp [findFs] at hp
  | cons g fs ih =>
    cases vs with
    | nil => simp at hl
    | cons v vs =>
      simp only [findFs] at hp
      by_cases hg : g.name = n
      · simp [setRawFs, getRawFs, hg]
      · simp only [hg, if_false] at hp
        simp only [setRawFs, getRawFs, hg, if_false]
        exact ih vs (by simpa using hl) hp

theorem getRawFs_setRawFs_other (fs : List Field) (vs : List (List Nat)) (n m : String) (x : List Nat)
    (hnm : n ≠ m) : getRawFs fs (setRawFs fs vs m x) n = getRawFs fs vs n := by
  induction fs generalizing vs with
  | nil => cases vs <;> rfl
  | cons g fs ih =>
    cases vs with
    | nil => rfl
    | cons v vs =>
      by_cases hm : g.name = m
      · have hn : ¬ g.name = n := fun h => hnm (h.symm.trans hm)
        simp only [setRawFs, getRawFs, hm, if_true, hm ▸ hn, if_false]
      · by_cases hn : g.name = n
        · have hnm' : ¬ n = m := hnm
          simp only [setRawFs, getRawFs, hn, hnm', if_false, if_true]
        · simp only [setRawFs, getRawFs, hm, hn, if_false]; exact ih vs

theorem setRawFs_getRawFs (fs : List Field) (vs : List (List Nat)) (n : String) :
    setRawFs fs vs n (getRawFs fs vs n) = vs := by
  induction fs generalizing vs with
  | nil => cases vs <;> rfl
  | cons g fs ih =>
    cases vs with
    | nil => rfl
    | cons v vs =>
      by_cases hg : g.name = n
      · simp [setRawFs, getRawFs, hg]
      · simp only [setRawFs, getRawFs, hg, if_false]; rw [ih]

/-- `x` is a legal value of field `f` -/
def fitsField (f : Field) (x : List Nat) : Prop := x.length = f.n ∧ ∀ y ∈ x, y < 256 ^ f.iw

theorem valsOk_setRawFs (fs : List Field) (vs : List (List Nat)) (n : String) (x : List Nat)
    (hv : valsOk fs vs = true) (hx : ∀ f, findFs fs n = some f → fitsField f x) :
    valsOk fs (setRawFs fs vs n x) = true := by
  induction fs generalizing vs with
  | nil => cases vs <;> simpa [setRawFs] using hv
  | cons g fs ih =>
    cases vs with
    | nil => simp [valsOk] at hv
    | cons v vs =>
      simp only [valsOk, Bool.and_eq_true, beq_iff_eq, List.all_eq_true, decide_eq_true_eq] at hv
      by_cases hg : g.name = n
      · have := hx g (by simp [findFs, hg])
        simp only [setRawFs, hg, if_true, valsOk, Bool.and_eq_true, beq_iff_eq, List.all_eq_true,
          decide_eq_true_eq]
        exact ⟨⟨this.1, this.2⟩, hv.2⟩
      · simp only [setRawFs, hg, if_false, valsOk, Bool.and_eq_true, beq_iff_eq, List.all_eq_true,
          decide_eq_true_eq]
        exact ⟨hv.1, ih vs hv.2 (fun f hf => hx f (by simp [findFs, hg, hf]))⟩

theorem getRawFs_fits (fs : List Field) (vs : List (List Nat)) (n : String) (f : Field)
    (hv : valsOk fs vs = true) (hf : findFs fs n = some f) : fitsField f (getRawFs fs vs n) := by
  induction fs generalizing vs with
  | nil => simp [findFs] at hf
  | cons g fs ih =>
    cases vs with
    | nil => simp [valsOk] at hv
    | cons v vs =>
      simp only [valsOk, Bool.and_eq_true, beq_iff_eq, List.all_eq_true, decide_eq_true_eq] at hv
      by_cases hg : g.name = n
      · simp only [findFs, hg, if_true, Option.some.injEq] at hf
        subst hf
        simp only [getRawFs, hg, if_true]; exact ⟨hv.1.1, hv.1.2⟩
      · simp only [findFs, hg, if_false] at hf
        simp only [getRawFs, hg, if_false]; exact ih vs hv.2 hf

/-! ### several slots at once -/

theorem setSlots_length (L : Layout) (vals : List (List Nat)) (ns : List String) (g : String → List Nat) :
    (setSlots L vals ns g).length = vals.length := by
  unfold setSlots
  induction ns generalizing vals with
  | nil => rfl
  | cons n ns ih => simp only [List.foldl_cons]; rw [ih]; exact setRawFs_length ..

theorem getRaw_setSlots_notin (L : Layout) (vals : List (List Nat)) (ns : List String)
    (g : String → List Nat) (n : String) (hn : n ∉ ns) :
    getRaw L (setSlots L vals ns g) n = getRaw L vals n := by
  unfold setSlots
  induction ns generalizing vals with
  | nil => rfl
  | cons m ns ih =>
    simp only [List.foldl_cons]
    rw [ih _ (fun h => hn (List.mem_cons_of_mem _ h))]
    exact getRawFs_setRawFs_other _ _ _ _ _ (fun h => hn (h ▸ List.mem_cons_self ..))

theorem getRaw_setSlots_in (L : Layout) (vals : List (List Nat)) (ns : List String)
    (g : String → List Nat) (n : String) (hnd : ns.Nodup) (hn : n ∈ ns)
    (hl : vals.length = L.fields.length) (f : Field) (hf : findFs L.fields n = some f) :
    getRaw L (setSlots L vals ns g) n = g n := by
  induction ns generalizing vals with
  | nil => cases hn
  | cons m ns ih =>
    have hnd' := List.nodup_cons.mp hnd
    show getRaw L (setSlots L (setRaw L vals m (g m)) ns g) n = g n
    rcases List.mem_cons.mp hn with rfl | hn
    · rw [getRaw_setSlots_notin _ _ _ _ _ hnd'.1]
      exact getRawFs_setRawFs_same _ _ _ _ hl f hf
    · exact ih _ hnd'.2 hn (by rw [setRaw, setRawFs_length]; exact hl)

theorem valsOk_setSlots (L : Layout) (vals : List (List Nat)) (ns : List String) (g : String → List Nat)
    (hv : valsOk L.fields vals = true)
    (hg : ∀ n ∈ ns, ∀ f, findFs L.fields n = some f → fitsField f (g n)) :
    valsOk L.fields (setSlots L vals ns g) = true := by
  unfold setSlots
  induction ns generalizing vals with
  | nil => exact hv
  | cons m ns ih =>
    simp only [List.foldl_cons]
    exact ih _ (valsOk_setRawFs _ _ _ _ hv (hg m (List.mem_cons_self ..)))
      (fun n hn => hg n (List.mem_cons_of_mem _ hn))

theorem setSlots_id (L : Layout) (vals : List (List Nat)) (ns : List String) (g : String → List Nat)
    (hg : ∀ n ∈ ns, ∀ f, findFs L.fields n = some f → g n = getRaw L vals n) :
    setSlots L vals ns g = vals := by
  unfold setSlots
  induction ns with
  | nil => rfl
  | cons m ns ih =>
    simp only [List.foldl_cons]
    have h1 : setRaw L vals m (g m) = vals := by
      cases hf : findFs L.fields m with
      | none => exact setRawFs_absent _ _ _ _ hf
      | some f => rw [hg m (List.mem_cons_self ..) f hf]; exact setRawFs_getRawFs ..
    rw [h1]
    exact ih (fun n hn => hg n (List.mem_cons_of_mem _ hn))

/-- a field no slot in `ns` names keeps its value -/
theorem getRaw_setSlots_field (L : Layout) (vals : List (List Nat)) (ns : List String)
    (g : String → List Nat) (n : String) (hn : n ∉ ns) :
    getRawFs L.fields (setSlots L vals ns g) n = getRawFs L.fields vals n :=
  getRaw_setSlots_notin L vals ns g n hn

/-! ### signed codec -/

/-- `x` is representable as a `w`-byte two's-complement integer -/
def intFits (w : Nat) (x : Int) : Prop := -((256 ^ w : Nat) : Int) ≤ 2 * x ∧ 2 * x < ((256 ^ w : Nat) : Int)

instance (w : Nat) (x : Int) : Decidable (intFits w x) := by unfold intFits; exact inferInstance

theorem intFits_zero (w : Nat) : intFits w 0 := by
  have := pow256_pos w
  unfold intFits; omega

theorem toInt_fits (w v : Nat) (hv : v < 256 ^ w) : intFits w (toInt w v) := by
  unfold toInt intFits
  generalize 256 ^ w = X at *
  split <;> omega

theorem ofInt_lt (w : Nat) (x : Int) : ofInt w x < 256 ^ w := by
  unfold ofInt
  have hp := pow256_pos w
  generalize 256 ^ w = X at *
  have h1 : 0 ≤ x % (X : Int) := Int.emod_nonneg _ (by omega)
  have h2 : x % (X : Int) < X := Int.emod_lt_of_pos _ (by omega)
  omega

theorem toInt_ofInt (w : Nat) (x : Int) (hx : intFits w x) : toInt w (ofInt w x) = x := by
  unfold intFits at hx
  unfold toInt ofInt
  have hp := pow256_pos w
  generalize 256 ^ w = X at *
  by_cases h0 : 0 ≤ x
  · have : x % (X : Int) = x := Int.emod_eq_of_lt h0 (by omega)
    rw [this]
    have hx' : ((x.toNat : Nat) : Int) = x := Int.toNat_of_nonneg h0
    split <;> omega
  · have h1 : (x + X) % (X : Int) = x + X := Int.emod_eq_of_lt (by omega) (by omega)
    have h2 : (x + X) % (X : Int) = x % X := by simp
    rw [← h2, h1]
    have hx' : (((x + X).toNat : Nat) : Int) = x + X := Int.toNat_of_nonneg (by omega)
    split <;> omega

theorem ofInt_toInt (w v : Nat) (hv : v < 256 ^ w) : ofInt w (toInt w v) = v := by
  unfold toInt ofInt
  generalize 256 ^ w = X at *
  split
  · have : (v : Int) % (X : Int) = v := Int.emod_eq_of_lt (by omega) (by omega)
    rw [this]; simp
  · have h2 : ((v : Int) - X) % (X : Int) = (v : Int) % X := by simp
    have : (v : Int) % (X : Int) = v := Int.emod_eq_of_lt (by omega) (by omega)
    rw [h2, this]; simp

end Nb.C10
