/-
  Lemmas/C06_GenFuncs — the functions of `nibabel/fileslice.py` that `harness/py2lean.py` translates
  from the CURRENT source on every run (`Generated/C06Funcs.lean`) compute exactly what the
  hand-written model (`Model/C06.lean`) computes.  Because every C06 theorem is about the model,
  these equalities carry them over to the translated source: an edit of `fill_slicer`,
  `_full_slicer_len`, `_positive_slice`, `slice2len`, `threshold_heuristic` or `optimize_slicer`
  that changes what they compute breaks one of the proofs below at the next run.
  Core Lean only.
-/
import NibabelModel.Generated.C06Funcs
import NibabelModel.Model.C06Py
import NibabelModel.Lemmas.PyVal
import NibabelModel.Lemmas.C06_Axis
import NibabelModel.Lemmas.C06_Optimize
set_option linter.unusedSimpArgs false
namespace Nb.C06
open Nb.Py Nb.Py.V

/-! ### integer division facts -/

theorem ceil_nat (G C : Nat) (hC : 0 < C) :
    ∃ q r : Nat, G + C - 1 = C * q + r ∧ r < C ∧ (G + C - 1) / C = q := by
  refine ⟨(G + C - 1) / C, (G + C - 1) % C, ?_, Nat.mod_lt _ hC, rfl⟩
  exact (Nat.div_add_mod _ _).symm

theorem neg_ediv_ceil (G C : Nat) (hG : 0 < G) (hC : 0 < C) :
    -((-(G : Int)) / (C : Int)) = (((G + C - 1) / C : Nat) : Int) := by
  obtain ⟨q, r, h1, h2, h3⟩ := ceil_nat G C hC
  rw [h3]
  have : (-(G : Int)) / (C : Int) = -(q : Int) ∧ (-(G : Int)) % (C : Int) = ((C - 1 - r : Nat) : Int) := by
    rw [Int.ediv_emod_unique (by omega)]
    refine ⟨?_, by omega, by omega⟩
    have : ((C * q : Nat) : Int) = (C : Int) * (q : Int) := by simp
    have h1' : (G : Int) + C - 1 = (C : Int) * q + r := by omega
    rw [Int.mul_neg]
    omega
  rw [this.1]; simp

/-- `int(np.ceil(gap / step))` for `gap`, `step` of the same sign is the model's ceiling quotient -/
theorem ceil_same_sign (gap step : Int) (h : (step > 0 ∧ gap > 0) ∨ (step < 0 ∧ gap < 0)) :
    -(Int.fdiv (-gap) step) = (((gap.natAbs + step.natAbs - 1) / step.natAbs : Nat) : Int) := by
  rcases h with ⟨hs, hg⟩ | ⟨hs, hg⟩
  · rw [Int.fdiv_eq_ediv_of_nonneg _ (by omega)]
    have e1 : gap = ((gap.natAbs : Nat) : Int) := by omega
    have e2 : step = ((step.natAbs : Nat) : Int) := by omega
    conv => lhs; rw [e1, e2]
    exact neg_ediv_ceil _ _ (by omega) (by omega)
  · have e0 : (-gap).fdiv step = gap.fdiv (-step) := by
      have := Int.neg_fdiv_neg gap (-step)
      rw [Int.neg_neg] at this; exact this
    rw [e0, Int.fdiv_eq_ediv_of_nonneg _ (by omega)]
    have e1 : gap = -((gap.natAbs : Nat) : Int) := by omega
    have e2 : -step = ((step.natAbs : Nat) : Int) := by omega
    conv => lhs; rw [e1, e2]
    exact neg_ediv_ceil _ _ (by omega) (by omega)

/-- truncating quotient of two negative numbers -/
theorem tdiv_neg_neg (gap step : Int) (hg : gap < 0) (hs : step < 0) :
    Int.tdiv gap step = ((gap.natAbs / step.natAbs : Nat) : Int) := by
  have e1 : gap = -((gap.natAbs : Nat) : Int) := by omega
  have e2 : step = -((step.natAbs : Nat) : Int) := by omega
  conv => lhs; rw [e1, e2]
  rw [Int.neg_tdiv, Int.tdiv_neg, Int.neg_neg, Int.tdiv_eq_ediv_of_nonneg (by omega)]
  exact (Int.natCast_ediv _ _).symm

theorem tdiv_exact_iff (gap step : Int) (hg : gap < 0) (hs : step < 0) :
    (Int.tdiv gap step * step = gap) ↔ gap.natAbs % step.natAbs = 0 := by
  rw [tdiv_neg_neg gap step hg hs]
  have hC : 0 < step.natAbs := by omega
  have hd := Nat.div_add_mod gap.natAbs step.natAbs
  generalize hq : gap.natAbs / step.natAbs = q at *
  generalize hr : gap.natAbs % step.natAbs = r at *
  have e1 : gap = -((gap.natAbs : Nat) : Int) := by omega
  have e2 : step = -((step.natAbs : Nat) : Int) := by omega
  generalize gap.natAbs = G at *
  generalize step.natAbs = C at *
  subst e1 e2
  have : ((C * q : Nat) : Int) = (C : Int) * (q : Int) := by simp
  constructor
  · intro h
    have : (q : Int) * (C : Int) = (G : Int) := by
      have := h; rw [Int.mul_neg] at this; omega
    have : (C : Int) * (q : Int) = (G : Int) := by rw [Int.mul_comm]; exact this
    omega
  · intro h
    rw [Int.mul_neg]
    have : (q : Int) * (C : Int) = (C : Int) * (q : Int) := Int.mul_comm _ _
    omega

/-! ### the translated functions equal the model -/

theorem gen_fill_slicer_eq (s : PySlice) (n : Nat) (hv : s.Valid) :
    Gen.C06F.fill_slicer (V.ofPySlice s) (.int n) = .ok (ofFilled (fillSlicer s n)) := by
  have hv' : ¬ s.stepVal = 0 := hv
  unfold Gen.C06F.fill_slicer fillSlicer
  simp only [sliceIndices_ofPySlice, hv', if_false]
  simp
  generalize (s.indices n) = t
  obtain ⟨a, b, c⟩ := t
  simp [ofFilled]
  repeat' split
  all_goals simp_all

theorem full_slicer_len_some (a b c : Int) (hc : c ≠ 0) :
    Gen.C06F.full_slicer_len (.slice (.int a) (.int b) (.int c)) = .ok (.int (fullSlicerLen ⟨a, some b, c⟩)) := by
  unfold Gen.C06F.full_slicer_len fullSlicerLen
  rcases Int.lt_or_gt_of_ne hc with hneg | hpos
  · have h1 : ¬ (0 < c) := by omega
    by_cases hg : b - a ≥ 0
    · have : a ≤ b := by omega
      simp [h1, hneg, this, hg]
    · have hg' : ¬ (a ≤ b) := by omega
      have e := ceil_same_sign (b - a) c (Or.inr ⟨hneg, by omega⟩)
      simp [h1, hneg, hg', hg, hc, e]
  · have h1 : ¬ (c < 0) := by omega
    by_cases hg : b - a ≤ 0
    · have : b ≤ a := by omega
      simp [h1, hpos, this, hg]
    · have hg' : ¬ (b ≤ a) := by omega
      have e := ceil_same_sign (b - a) c (Or.inl ⟨hpos, by omega⟩)
      simp [h1, hpos, hg', hg, hc, e]

theorem full_slicer_len_none (a c : Int) (hc : c ≠ 0) :
    Gen.C06F.full_slicer_len (.slice (.int a) .none (.int c)) = .ok (.int (fullSlicerLen ⟨a, Option.none, c⟩)) := by
  unfold Gen.C06F.full_slicer_len fullSlicerLen
  rcases Int.lt_or_gt_of_ne hc with hneg | hpos
  · have h1 : ¬ (0 < c) := by omega
    by_cases hg : -1 - a ≥ 0
    · have : a ≤ -1 := by omega
      simp [h1, hneg, this, hg]
    · have hg' : ¬ (a ≤ -1) := by omega
      have e := ceil_same_sign (-1 - a) c (Or.inr ⟨hneg, by omega⟩)
      simp [h1, hneg, hg', hg, hc, e]
  · have h1 : ¬ (c < 0) := by omega
    by_cases hg : -1 - a ≤ 0
    · have : -1 ≤ a := by omega
      simp [h1, hpos, this, hg]
    · have hg' : ¬ (-1 ≤ a) := by omega
      have e := ceil_same_sign (-1 - a) c (Or.inl ⟨hpos, by omega⟩)
      simp [h1, hpos, hg', hg, hc, e]

theorem gen_full_slicer_len_eq (f : Filled) (hs : f.step ≠ 0) :
    Gen.C06F.full_slicer_len (ofFilled f) = .ok (.int (fullSlicerLen f)) := by
  obtain ⟨a, b, c⟩ := f
  cases b with
  | none => exact full_slicer_len_none a c hs
  | some b => exact full_slicer_len_some a b c hs

theorem gen_slice2len_eq (s : PySlice) (n : Nat) (hv : s.Valid) :
    Gen.C06F.slice2len (V.ofPySlice s) (.int n) = .ok (.int (Nb.C06.slice2len s n)) := by
  unfold Gen.C06F.slice2len Nb.C06.slice2len
  by_cases h : s = pySliceNone
  · subst h; simp [pySliceNone, ofPySlice, slice1]
  · have hne : pyEq (ofPySlice s) (slice1 V.none) = false := by
      obtain ⟨a, b, c⟩ := s
      cases a <;> cases b <;> cases c <;> simp_all [pySliceNone, ofPySlice, slice1]
    have hstep : (fillSlicer s n).step ≠ 0 := by
      have : (fillSlicer s n).step = s.stepVal := by
        unfold fillSlicer; simp only [PySlice.indices]; repeat' split
        all_goals rfl
      rw [this]; exact hv
    simp [hne, h, gen_fill_slicer_eq s n hv, gen_full_slicer_len_eq _ hstep]

theorem positive_slice_aux (a c : Int) (b : Option Int) (hc : c ≠ 0) :
    Gen.C06F.positive_slice (ofFilled ⟨a, b, c⟩) = .ok (ofFilled (positiveSlice ⟨a, b, c⟩)) := by
  unfold Gen.C06F.positive_slice positiveSlice ofFilled
  by_cases hpos : c > 0
  · cases b <;> simp [hpos]
  · have hneg : c < 0 := by omega
    have h0 : ¬ (0 < c) := by omega
    cases b with
    | none =>
      by_cases hg : a ≤ -1
      · simp [h0, hneg, hg]
      · have hgap : (-1 - a) < 0 := by omega
        have e1 := tdiv_neg_neg (-1 - a) c hgap hneg
        have e2 := tdiv_exact_iff (-1 - a) c hgap hneg
        by_cases hd : (-1 - a).natAbs % c.natAbs = 0
        · have e3 := e2.mpr hd
          simp [h0, hneg, hg, hc, hd, e3]
          rw [e1]; simp
        · have e3 : ¬ ((-1 - a).tdiv c * c = -1 - a) := fun h => hd (e2.mp h)
          simp [h0, hneg, hg, hc, hd, e3]
          rw [e1]; simp
    | some b =>
      by_cases hg : a ≤ b
      · simp [h0, hneg, hg]
      · have hgap : (b - a) < 0 := by omega
        have e1 := tdiv_neg_neg (b - a) c hgap hneg
        have e2 := tdiv_exact_iff (b - a) c hgap hneg
        by_cases hd : (b - a).natAbs % c.natAbs = 0
        · have e3 := e2.mpr hd
          simp [h0, hneg, hg, hc, hd, e3]
          rw [e1]; simp
        · have e3 : ¬ ((b - a).tdiv c * c = b - a) := fun h => hd (e2.mp h)
          simp [h0, hneg, hg, hc, hd, e3]
          rw [e1]; simp

theorem gen_positive_slice_eq (f : Filled) (hs : f.step ≠ 0) :
    Gen.C06F.positive_slice (ofFilled f) = .ok (ofFilled (positiveSlice f)) := by
  obtain ⟨a, b, c⟩ := f
  exact positive_slice_aux a c b hs

theorem positiveSlice_stop_some (f : Filled) (h : ¬ f.step > 0) :
    ∃ b, (positiveSlice f).stop = some b := by
  unfold positiveSlice
  simp only [h, if_false]
  split <;> exact ⟨_, rfl⟩

theorem positiveSlice_pos (f : Filled) (h : f.step > 0) : positiveSlice f = f := by
  unfold positiveSlice; simp [h]

/-- `threshold_heuristic(slicer, dim_len, stride, skip_thresh)` on an int index or a filled slice -/
theorem gen_threshold_heuristic_eq (a : HArg) (n stride thresh : Nat)
    (hs : ∀ f, a = .slice f → f.step ≠ 0)
    (hstop : ∀ f, a = .slice f → f.step > 0 → ∃ b, f.stop = some b) :
    Gen.C06F.threshold_heuristic (ofHArg a) (.int n) (.int stride) (.int thresh)
      = .ok (ofAction (thresholdHeuristic thresh a n stride)) := by
  cases a with
  | int i =>
    unfold Gen.C06F.threshold_heuristic thresholdHeuristic ofHArg
    simp
    have key : ((n : Int) - 1) * (stride : Int) ≤ (thresh : Int) ↔ (n - 1) * stride ≤ thresh := by
      cases n with
      | zero =>
        simp
      | succ m =>
        have : ((m + 1 : Nat) : Int) - 1 = (m : Int) := by omega
        rw [this, ← Int.natCast_mul]
        exact Int.ofNat_le
    by_cases h : (n - 1) * stride ≤ thresh
    · simp [h, key.mpr h, ofAction]
    · have h' : ¬ (((n : Int) - 1) * (stride : Int) ≤ (thresh : Int)) := fun x => h (key.mp x)
      simp [h, h', ofAction]
  | slice f =>
    have hc : f.step ≠ 0 := hs _ rfl
    have hp := gen_positive_slice_eq f hc
    obtain ⟨sb, hsb⟩ : ∃ b, (positiveSlice f).stop = some b := by
      by_cases hpos : f.step > 0
      · rw [positiveSlice_pos f hpos]; exact hstop _ rfl hpos
      · exact positiveSlice_stop_some f hpos
    unfold Gen.C06F.threshold_heuristic thresholdHeuristic ofHArg
    have habs : (if f.step < 0 then -f.step else f.step) = ((f.step.natAbs : Nat) : Int) := by omega
    have k1 : ((thresh : Int) < ((f.step.natAbs : Nat) : Int) * (stride : Int)) ↔
        f.step.natAbs * stride > thresh := by
      rw [← Int.natCast_mul]; exact Int.ofNat_lt
    have hf : isIntegral (ofFilled f) = false := rfl
    have hstep : attr "step" (ofFilled f) = .ok (.int f.step) := by simp [ofFilled]
    simp only [hf, hstep]
    simp [habs, hp]
    by_cases h1 : f.step.natAbs * stride > thresh
    · have := k1.mpr h1
      simp [h1, this, ofAction]
    · have h1' : ¬ ((thresh : Int) < ((f.step.natAbs : Nat) : Int) * (stride : Int)) := fun x => h1 (k1.mp x)
      simp [h1, h1', ofFilled, hsb]
      split <;> simp_all [ofAction]

/-! ### optimize_slicer -/

theorem toHArg_ofHArg (a : HArg) : toHArg? (ofHArg a) = some a := by
  cases a with
  | int i => rfl
  | slice f => obtain ⟨a, b, c⟩ := f; cases b <;> rfl

theorem liftH_of (h : Heuristic) (a : HArg) (n s : Nat) :
    liftH h (ofHArg a) (.int n) (.int s) = .ok (ofAction (h a n s)) := by
  unfold liftH; rw [toHArg_ofHArg]; simp

theorem pyEq_ofFilled_some (f : Filled) (a b c : Int) :
    pyEq (ofFilled f) (.slice (.int a) (.int b) (.int c)) = decide (f = ⟨a, some b, c⟩) := by
  obtain ⟨x, y, z⟩ := f
  cases y <;> simp [ofFilled] <;> grind

theorem pyEq_ofFilled_none (f : Filled) (a c : Int) :
    pyEq (ofFilled f) (.slice (.int a) .none (.int c)) = decide (f = ⟨a, Option.none, c⟩) := by
  obtain ⟨x, y, z⟩ := f
  cases y <;> simp [ofFilled] <;> grind

theorem gen_optimize_slicer_int (h : Heuristic) (i0 : Int) (n : Nat) (allFull slowest : Bool) (stride : Nat) :
    Gen.C06F.optimize_slicer (.int i0) (.int n) (.bool allFull) (.bool slowest) (.int stride) (liftH h)
      = ofResult (optimizeSlicer h (.int i0) n allFull slowest stride) := by
  unfold Gen.C06F.optimize_slicer optimizeSlicer
  simp
  have hl : ∀ i : Int, liftH h (int i) (int ↑n) (int ↑stride) = .ok (ofAction (h (.int i) n stride)) :=
    fun i => liftH_of h (.int i) n stride
  by_cases hi : i0 < 0 <;> cases allFull <;> simp [hi, ofResult, ofRead, ofPost, hl]
  · cases h (HArg.int (↑n + i0)) n stride <;> cases slowest <;>
      simp [ofAction, ofResult, ofRead, ofPost, slice1]
  · cases h (HArg.int i0) n stride <;> cases slowest <;>
      simp [ofAction, ofResult, ofRead, ofPost, slice1]

theorem fillSlicer_stop_some (s : PySlice) (n : Nat) (hv : s.Valid) (h : (fillSlicer s n).step > 0) :
    ∃ b, (fillSlicer s n).stop = some b := by
  rw [fillSlicer_step] at h
  rcases fillSlicer_cases s n hv with ⟨_, _, _, _, _, he⟩ | ⟨hc, _⟩ | ⟨hc, _⟩ | ⟨hc, _⟩
  · rw [he]; exact ⟨_, rfl⟩
  all_goals omega

theorem pyEq_ofPySlice_none (s : PySlice) :
    pyEq (ofPySlice s) (slice1 V.none) = decide (s = pySliceNone) := by
  obtain ⟨a, b, c⟩ := s
  cases a <;> cases b <;> cases c <;> simp [pySliceNone, ofPySlice, slice1]

theorem gen_optimize_slicer_slice (h : Heuristic) (s : PySlice) (n : Nat) (allFull slowest : Bool)
    (stride : Nat) (hv : s.Valid) :
    Gen.C06F.optimize_slicer (ofPySlice s) (.int n) (.bool allFull) (.bool slowest) (.int stride) (liftH h)
      = ofResult (optimizeSlicer h (.slice s) n allFull slowest stride) := by
  have htoInt : toInt (ofPySlice s) = .error .typeError := rfl
  unfold Gen.C06F.optimize_slicer optimizeSlicer
  simp only [htoInt]
  by_cases hnone : s = pySliceNone
  · subst hnone
    simp [pyEq_ofPySlice_none, ofResult, ofRead, ofPost, pySliceNone, ofPySlice, slice1]
  · have hf := gen_fill_slicer_eq s n hv
    have hstep : (fillSlicer s n).step ≠ 0 := by rw [fillSlicer_step]; exact hv
    have hstop := fillSlicer_stop_some s n hv
    simp only [pyEq_ofPySlice_none, hnone, decide_false, hf]
    generalize fillSlicer s n = f at *
    simp [pyEq_ofFilled_some, pyEq_ofFilled_none]
    have hl : liftH h (ofFilled f) (int ↑n) (int ↑stride) = .ok (ofAction (h (.slice f) n stride)) :=
      liftH_of h (.slice f) n stride
    have hp := gen_positive_slice_eq f hstep
    have a1 : attr "step" (ofFilled f) = .ok (int f.step) := by simp [ofFilled]
    have a2 : attr "start" (ofFilled f) = .ok (int f.start) := by simp [ofFilled]
    have a3 : attr "stop" (ofFilled f) = .ok (ofOptInt f.stop) := by simp [ofFilled]
    simp only [hl, hp, a1, a2, a3]
    by_cases e1 : f = { start := 0, stop := some ↑n, step := 1 }
    · simp [e1, ofResult, ofRead, ofPost, slice1, pySliceNone, ofPySlice]
    by_cases e2 : f = { start := ↑n - 1, stop := Option.none, step := -1 }
    · simp [e2, ofResult, ofRead, ofPost, slice1, pySliceNone, ofPySlice]
    simp only [e1, e2, if_false]
    by_cases hpos : 0 < f.step
    · obtain ⟨sb, hsb⟩ := hstop hpos
      have hneg : ¬ f.step < 0 := by omega
      have hm1 : ¬ f.step = -1 := by omega
      cases allFull <;> cases slowest <;> cases h (.slice f) n stride <;> by_cases h1 : f.step = 1 <;>
        simp [hpos, hneg, hm1, h1, hsb, ofAction, ofResult, ofRead, ofPost, slice1, pySliceNone, ofPySlice,
          readOfFilled, ofFilled, Filled.toPy]
    · have hneg : f.step < 0 := by omega
      obtain ⟨pb, hpb⟩ := positiveSlice_stop_some f hpos
      have h1' : ¬ f.step = 1 := by omega
      cases allFull <;> cases slowest <;> cases h (.slice f) n stride <;> by_cases hm1 : f.step = -1 <;>
        simp [hpos, hneg, hm1, h1', hpb, ofAction, ofResult, ofRead, ofPost, slice1, pySliceNone, ofPySlice,
          readOfFilled, ofFilled, Filled.toPy]

/-- **optimize_slicer**: the translated source equals the model on every canonical item
    (int or valid slice), every axis length, flag combination, stride and heuristic. -/
theorem gen_optimize_slicer_eq (h : Heuristic) (it : Item) (n : Nat) (allFull slowest : Bool)
    (stride : Nat) (hit : it ≠ .newaxis) (hv : ∀ s, it = .slice s → s.Valid) :
    Gen.C06F.optimize_slicer (ofItem it) (.int n) (.bool allFull) (.bool slowest) (.int stride) (liftH h)
      = ofResult (optimizeSlicer h it n allFull slowest stride) := by
  cases it with
  | int i => exact gen_optimize_slicer_int h i n allFull slowest stride
  | slice s => exact gen_optimize_slicer_slice h s n allFull slowest stride (hv s rfl)
  | newaxis => exact absurd rfl hit

/-! ### optimize_read_slicers (a translated LOOP) equals the model's `optimizeLoop` -/

/-- items as `optimize_read_slicers` receives them: canonical, slices valid -/
def ItemsValid (items : List Item) : Prop := ∀ s, Item.slice s ∈ items → s.Valid

theorem ofResult_ok (r : ReadItem) (p : PostItem) : ofResult (.ok (r, p)) = .ok (.tup2 (ofRead r) (ofPost p)) := rfl
theorem ofResult_err (e : Nb.C06.Err) : ofResult (.error e) = .error .valueError := rfl

theorem optimizeSlicer_err_value (h : Heuristic) (it : Item) (n : Nat) (a s : Bool) (st : Nat) (e : Nb.C06.Err)
    (he : optimizeSlicer h it n a s st = .error e) : e = .value :=
  ((optimizeSlicer_error_iff' h it n a s st e).mp he).1

theorem isIntegral_ofRead (r : ReadItem) (hr : r ≠ .newaxis) : isIntegral (ofRead r) = r.isInt := by
  cases r <;> simp_all [ofRead, ReadItem.isInt]

theorem pyEq_ofRead_full (r : ReadItem) (hr : r ≠ .newaxis) :
    pyEq (ofRead r) (slice1 V.none) = r.isFull := by
  cases r <;> simp_all [ofRead, ReadItem.isFull, slice1]

theorem optimizeSlicer_ne_newaxis (h : Heuristic) (it : Item) (n : Nat) (a sl : Bool) (st : Nat)
    (r : ReadItem) (p : PostItem) (hit : it ≠ .newaxis)
    (hres : optimizeSlicer h it n a sl st = .ok (r, p)) : r ≠ .newaxis := by
  unfold optimizeSlicer at hres
  intro hr
  subst hr
  cases it with
  | newaxis => exact hit rfl
  | int i => 
    simp only at hres
    repeat' split at hres
    all_goals simp_all
  | slice s =>
    simp only at hres
    repeat' split at hres
    all_goals simp_all [readOfFilled]

abbrev Loc := Gen.C06F.optimize_read_slicers_Locals

structure LoopInv (s : Loc) (full : List Nat) (k stride : Nat) (allFull : Bool) (accR accP : List V) : Prop where
  shape : s.in_shape = ofShape full
  realNo : s.real_no = .int (k : Int)
  stride : s.stride = .int (stride : Int)
  allFull : s.all_full = .bool allFull
  r : s.read_slicers = ofList accR
  p : s.post_slicers = ofList accP

theorem body_newaxis (H : V → V → V → M V) (s : Loc) (accR accP : List V)
    (hr : s.read_slicers = ofList accR) (hp : s.post_slicers = ofList accP) :
    Gen.C06F.optimize_read_slicers_body1 H { s with slicer := V.none } =
      .ok (.next { s with slicer := V.none, read_slicers := ofList (accR ++ [V.none]),
                          post_slicers := ofList (accP ++ [slice1 V.none]) }) := by
  unfold Gen.C06F.optimize_read_slicers_body1
  simp [hr, hp]

theorem ofShape_get (full : List Nat) (k : Nat) :
    getItem (ofShape full) (.int (k : Int)) =
      match full[k]? with | some n => .ok (.int (n : Int)) | Option.none => .error .indexError := by
  unfold ofShape
  rw [getItem_ofList_nat]
  simp only [List.getElem?_map]
  cases full[k]? <;> rfl

theorem body_real_err_index (H : V → V → V → M V) (s : Loc) (full : List Nat) (k : Nat) (x : V)
    (hx : isNone x = false)
    (hs : s.in_shape = ofShape full) (hk : s.real_no = .int (k : Int)) (hfull : full[k]? = Option.none) :
    Gen.C06F.optimize_read_slicers_body1 H { s with slicer := x } = .error .indexError := by
  unfold Gen.C06F.optimize_read_slicers_body1
  simp [hx, hs, hk, ofShape_get, hfull]

theorem body_real (h : Heuristic) (s : Loc) (full : List Nat) (k stride : Nat) (allFull : Bool)
    (accR accP : List V) (it : Item) (n : Nat)
    (hit : it ≠ .newaxis) (hv : ∀ sl, it = .slice sl → sl.Valid)
    (inv : LoopInv s full k stride allFull accR accP) (hfull : full[k]? = some n) :
    Gen.C06F.optimize_read_slicers_body1 (liftH h) { s with slicer := ofItem it } =
      match optimizeSlicer h it n allFull (decide (k + 1 = full.length)) stride with
      | .error _ => .error .valueError
      | .ok (r, p) => .ok (.next { s with
          slicer := ofItem it, dim_len := .int (n : Int), real_no := .int ((k + 1 : Nat) : Int),
          is_last := .bool (decide (k + 1 = full.length)),
          read_slicer := ofRead r, post_slicer := ofPost p,
          read_slicers := ofList (accR ++ [ofRead r]),
          all_full := .bool (allFull && r.isFull),
          post_slicers := ofList (if r.isInt then accP else accP ++ [ofPost p]),
          stride := .int ((stride * n : Nat) : Int) }) := by
  have hx : isNone (ofItem it) = false := by
    cases it with
    | int i => rfl
    | slice sl => obtain ⟨a, b, c⟩ := sl; rfl
    | newaxis => exact absurd rfl hit
  have hopt := gen_optimize_slicer_eq h it n allFull (decide (k + 1 = full.length)) stride hit hv
  unfold Gen.C06F.optimize_read_slicers_body1
  have hlen : len (ofShape full) = .ok (.int (full.length : Int)) := by
    unfold ofShape; rw [len_ofList]; simp
  have hdec : pyEq (int ((k : Int) + 1)) (int (full.length : Int)) = decide (k + 1 = full.length) := by
    simp only [pyEq_int]
    by_cases hkl : k + 1 = full.length
    · simp [hkl]; omega
    · simp [hkl]; omega
  simp [hx, inv.shape, inv.realNo, inv.stride, inv.allFull, inv.r, inv.p, ofShape_get, hfull, hlen, hdec, hopt]
  cases hres : optimizeSlicer h it n allFull (decide (k + 1 = full.length)) stride with
  | error e => simp [ofResult]
  | ok rp =>
    obtain ⟨r, p⟩ := rp
    have hrn : r ≠ .newaxis := optimizeSlicer_ne_newaxis h it n allFull _ stride r p hit hres
    have h1 := isIntegral_ofRead r hrn
    have h2 := pyEq_ofRead_full r hrn
    simp [ofResult, h1, h2]
    cases allFull <;> cases hri : r.isInt <;> simp [hri]

theorem drop_head (full : List Nat) (k n : Nat) (shape : List Nat) (hd : full.drop k = n :: shape) :
    full[k]? = some n ∧ full.drop (k + 1) = shape ∧ (decide (k + 1 = full.length) = shape.isEmpty) := by
  have h1 : full[k]? = some n := by
    have := List.getElem?_drop (xs := full) (i := k) (j := 0)
    rw [hd] at this; simpa using this.symm
  have h2 : full.drop (k + 1) = shape := by
    have : full.drop (k + 1) = (full.drop k).drop 1 := by rw [List.drop_drop]
    rw [this, hd]; rfl
  refine ⟨h1, h2, ?_⟩
  have hl : (full.drop k).length = full.length - k := List.length_drop
  rw [hd] at hl
  cases shape with
  | nil => simp at hl ⊢; omega
  | cons a t => simp at hl ⊢; omega

theorem drop_nil_get (full : List Nat) (k : Nat) (hd : full.drop k = []) : full[k]? = Option.none := by
  have : full.length ≤ k := by
    have hl : (full.drop k).length = full.length - k := List.length_drop
    rw [hd] at hl; simp at hl; omega
  exact List.getElem?_eq_none this

/-- the loop of the translated `optimize_read_slicers` computes the model's `optimizeLoop` -/
theorem loop_eq (h : Heuristic) (items : List Item) (hv : ItemsValid items) :
    ∀ (s : Loc) (full : List Nat) (k stride : Nat) (allFull : Bool) (accR accP : List V),
      LoopInv s full k stride allFull accR accP →
      match optimizeLoop h items (full.drop k) stride allFull with
      | .ok (rs, ps) => ∃ s', Gen.C06F.optimize_read_slicers_loop1 (liftH h) (ofList (items.map ofItem)) s
            = .ok (.next s') ∧ s'.read_slicers = ofList (accR ++ rs.map ofRead) ∧
            s'.post_slicers = ofList (accP ++ ps.map ofPost)
      | .error e => Gen.C06F.optimize_read_slicers_loop1 (liftH h) (ofList (items.map ofItem)) s
            = .error (mapErr e) := by
  induction items with
  | nil =>
    intro s full k stride allFull accR accP inv
    simp [optimizeLoop, Gen.C06F.optimize_read_slicers_loop1]
    exact ⟨inv.r, inv.p⟩
  | cons it rest ih =>
    intro s full k stride allFull accR accP inv
    have hvr : ItemsValid rest := fun sl hm => hv sl (List.mem_cons_of_mem _ hm)
    cases it with
    | newaxis =>
      have hb := body_newaxis (liftH h) s accR accP inv.r inv.p
      have := ih hvr _ full k stride allFull (accR ++ [V.none]) (accP ++ [slice1 V.none])
        (⟨inv.shape, inv.realNo, inv.stride, inv.allFull, rfl, rfl⟩ :
          LoopInv { s with slicer := V.none, read_slicers := ofList (accR ++ [V.none]), post_slicers := ofList (accP ++ [slice1 V.none]) } full k stride allFull (accR ++ [V.none]) (accP ++ [slice1 V.none]))
      simp only [List.map_cons, ofList_cons, ofItem, Gen.C06F.optimize_read_slicers_loop1, hb, optimizeLoop]
      simp only [bind, Except.bind, pure, Except.pure, bind_ok]
      cases hrec : optimizeLoop h rest (List.drop k full) stride allFull with
      | error e => rw [hrec] at this; simpa [Functor.map, Except.map] using this
      | ok rp =>
        obtain ⟨rs, ps⟩ := rp
        rw [hrec] at this
        obtain ⟨s', e1, e2, e3⟩ := this
        refine ⟨s', by simpa using e1, ?_, ?_⟩
        · simpa [ofRead] using e2
        · simpa [ofPost, slice1, pySliceNone, ofPySlice] using e3
    | int i =>
      have hit : (Item.int i) ≠ Item.newaxis := by intro hc; cases hc
      have hvi : ∀ s0, (Item.int i) = Item.slice s0 → s0.Valid := (fun s0 hc => by cases hc)
      cases hd : full.drop k with
      | nil =>
        have hg := drop_nil_get full k hd
        have hb := body_real_err_index (liftH h) s full k (ofItem (Item.int i)) (by rfl) inv.shape inv.realNo hg
        simp only [List.map_cons, ofList_cons, Gen.C06F.optimize_read_slicers_loop1, hb, optimizeLoop]
        simp [mapErr]
      | cons n shape =>
        obtain ⟨hg, hdrop, hlast⟩ := drop_head full k n shape hd
        have hb := body_real h s full k stride allFull accR accP (Item.int i) n hit hvi inv hg
        rw [hlast] at hb
        simp only [List.map_cons, ofList_cons, Gen.C06F.optimize_read_slicers_loop1, optimizeLoop]
        simp only [bind, Except.bind, pure, Except.pure]
        rw [hb]
        cases hres : optimizeSlicer h (Item.int i) n allFull shape.isEmpty stride with
        | error e =>
          have := optimizeSlicer_err_value h _ n allFull _ stride e hres
          subst this
          simp [mapErr]
        | ok rp =>
          obtain ⟨r, p⟩ := rp
          simp only []
          have := ih hvr _ full (k + 1) (stride * n) (allFull && r.isFull) (accR ++ [ofRead r])
            (if r.isInt then accP else accP ++ [ofPost p])
            (⟨inv.shape, rfl, rfl, rfl, rfl, rfl⟩ :
              LoopInv { s with slicer := ofItem (Item.int i), dim_len := .int (n : Int), real_no := .int ((k + 1 : Nat) : Int), is_last := .bool shape.isEmpty, read_slicer := ofRead r, post_slicer := ofPost p, read_slicers := ofList (accR ++ [ofRead r]), all_full := .bool (allFull && r.isFull), post_slicers := ofList (if r.isInt then accP else accP ++ [ofPost p]), stride := .int ((stride * n : Nat) : Int) } full (k + 1) (stride * n) (allFull && r.isFull) (accR ++ [ofRead r]) (if r.isInt then accP else accP ++ [ofPost p]))
          rw [hdrop] at this
          cases hrec : optimizeLoop h rest shape (stride * n) (allFull && r.isFull) with
          | error e => rw [hrec] at this; simpa using this
          | ok rp2 =>
            obtain ⟨rs, ps⟩ := rp2
            rw [hrec] at this
            obtain ⟨s', e1, e2, e3⟩ := this
            refine ⟨s', by simpa using e1, ?_, ?_⟩
            · simpa using e2
            · cases hri : r.isInt <;> simp [hri] at e3 ⊢ <;> exact e3
    | slice sl =>
      have hit : (Item.slice sl) ≠ Item.newaxis := by intro hc; cases hc
      have hvi : ∀ s0, (Item.slice sl) = Item.slice s0 → s0.Valid := (fun s0 hc => by cases hc; exact hv _ (List.mem_cons_self ..))
      cases hd : full.drop k with
      | nil =>
        have hg := drop_nil_get full k hd
        have hb := body_real_err_index (liftH h) s full k (ofItem (Item.slice sl)) (by obtain ⟨a, b, c⟩ := sl; rfl) inv.shape inv.realNo hg
        simp only [List.map_cons, ofList_cons, Gen.C06F.optimize_read_slicers_loop1, hb, optimizeLoop]
        simp [mapErr]
      | cons n shape =>
        obtain ⟨hg, hdrop, hlast⟩ := drop_head full k n shape hd
        have hb := body_real h s full k stride allFull accR accP (Item.slice sl) n hit hvi inv hg
        rw [hlast] at hb
        simp only [List.map_cons, ofList_cons, Gen.C06F.optimize_read_slicers_loop1, optimizeLoop]
        simp only [bind, Except.bind, pure, Except.pure]
        rw [hb]
        cases hres : optimizeSlicer h (Item.slice sl) n allFull shape.isEmpty stride with
        | error e =>
          have := optimizeSlicer_err_value h _ n allFull _ stride e hres
          subst this
          simp [mapErr]
        | ok rp =>
          obtain ⟨r, p⟩ := rp
          simp only []
          have := ih hvr _ full (k + 1) (stride * n) (allFull && r.isFull) (accR ++ [ofRead r])
            (if r.isInt then accP else accP ++ [ofPost p])
            (⟨inv.shape, rfl, rfl, rfl, rfl, rfl⟩ :
              LoopInv { s with slicer := ofItem (Item.slice sl), dim_len := .int (n : Int), real_no := .int ((k + 1 : Nat) : Int), is_last := .bool shape.isEmpty, read_slicer := ofRead r, post_slicer := ofPost p, read_slicers := ofList (accR ++ [ofRead r]), all_full := .bool (allFull && r.isFull), post_slicers := ofList (if r.isInt then accP else accP ++ [ofPost p]), stride := .int ((stride * n : Nat) : Int) } full (k + 1) (stride * n) (allFull && r.isFull) (accR ++ [ofRead r]) (if r.isInt then accP else accP ++ [ofPost p]))
          rw [hdrop] at this
          cases hrec : optimizeLoop h rest shape (stride * n) (allFull && r.isFull) with
          | error e => rw [hrec] at this; simpa using this
          | ok rp2 =>
            obtain ⟨rs, ps⟩ := rp2
            rw [hrec] at this
            obtain ⟨s', e1, e2, e3⟩ := this
            refine ⟨s', by simpa using e1, ?_, ?_⟩
            · simpa using e2
            · cases hri : r.isInt <;> simp [hri] at e3 ⊢ <;> exact e3

/-- **optimize_read_slicers**: the function translated from the source computes the model's
    `optimizeLoop` (started with stride = itemsize, all_full = True), including the errors. -/
theorem gen_optimize_read_slicers_eq (h : Heuristic) (items : List Item) (shape : List Nat) (isz : Nat)
    (hv : ItemsValid items) :
    Gen.C06F.optimize_read_slicers (ofList (items.map ofItem)) (ofShape shape) (.int (isz : Int)) (liftH h) =
      match optimizeLoop h items shape isz true with
      | .ok (rs, ps) => .ok (.tup2 (ofList (rs.map ofRead)) (ofList (ps.map ofPost)))
      | .error e => .error (mapErr e) := by
  unfold Gen.C06F.optimize_read_slicers
  simp only [bind_ok, pure_eq_ok]
  have := loop_eq h items hv ⟨ofList (items.map ofItem), ofShape shape, .int (isz : Int), .nil, .nil, .int 0,
      .int (isz : Int), .bool true, .none, .none, .none, .none, .none⟩ shape 0 isz true [] []
      ⟨rfl, rfl, rfl, rfl, rfl, rfl⟩
  simp only [List.drop_zero, List.nil_append] at this
  cases hres : optimizeLoop h items shape isz true with
  | error e => rw [hres] at this; simp [this]
  | ok rp =>
    obtain ⟨rs, ps⟩ := rp
    rw [hres] at this
    obtain ⟨s', e1, e2, e3⟩ := this
    simp [e1, e2, e3]

end Nb.C06
