import NibabelModel.Model.C16_Ext
import NibabelModel.Lemmas.C16_Aff
namespace Nb.C16

/-! Lemmas/C16_Pending — pending affines of (Lazy)Tractogram; generators with a `finally` clause (core Lean only). -/

/-! ### pending affines -/

theorem Aff.det_inv_mul (A : Aff) (h : A.det ≠ 0) : A.inv.det * A.det = 1 := by
  have hd : A.a00 * (A.a11 * A.a22 - A.a12 * A.a21) - A.a01 * (A.a10 * A.a22 - A.a12 * A.a20) +
      A.a02 * (A.a10 * A.a21 - A.a11 * A.a20) ≠ 0 := h
  simp only [Aff.inv, Aff.det]
  grind

theorem Aff.det_inv_ne (A : Aff) (h : A.det ≠ 0) : A.inv.det ≠ 0 := by
  intro h0
  have := Aff.det_inv_mul A h
  rw [h0, Rat.zero_mul] at this
  exact absurd this (by decide)

theorem Aff.one_apply (p : V3) : Aff.one.apply p = p := by
  obtain ⟨x, y, z⟩ := p
  simp only [Aff.apply, Aff.one]
  refine Prod.ext ?_ (Prod.ext ?_ ?_) <;> simp only <;> grind

/-- RAS+mm coordinates of the raw point `p` (None: unknown space) -/
def LazyT.world (t : LazyT) (p : V3) : Option V3 := t.toRas.map (fun R => R.apply (t.pending.apply p))

def LazyT.RasOk (t : LazyT) : Prop := ∀ R, t.toRas = some R → R.det ≠ 0

def AffOp.Ok : AffOp → Prop
  | .apply A => A.det ≠ 0
  | .world => True

theorem lazy_apply_world (t : LazyT) (A : Aff) (hA : A.det ≠ 0) (p : V3) :
    (t.applyAffine A).world p = t.world p := by
  unfold LazyT.world LazyT.applyAffine
  cases t.toRas with
  | none => rfl
  | some R => simp [Aff.apply_comp, Aff.inv_apply A hA]

theorem lazy_apply_rasOk (t : LazyT) (A : Aff) (hA : A.det ≠ 0) (ht : t.RasOk) : (t.applyAffine A).RasOk := by
  intro R' hR'
  unfold LazyT.applyAffine at hR'
  cases hr : t.toRas with
  | none => simp [hr] at hR'
  | some R =>
    simp [hr] at hR'
    subst hR'
    rw [Aff.det_comp]
    intro h0
    rcases Rat.mul_eq_zero.mp h0 with h | h
    · exact ht R hr h
    · exact Aff.det_inv_ne A hA h

theorem lazy_run_world (ops : List AffOp) (hok : ∀ o ∈ ops, o.Ok) :
    ∀ (t t' : LazyT), t.RasOk → t.run ops = .ok t' → (∀ p, t'.world p = t.world p) ∧ t'.RasOk := by
  induction ops with
  | nil =>
    intro t t' hr h
    simp only [LazyT.run] at h
    injection h with h; subst h
    exact ⟨fun _ => rfl, hr⟩
  | cons o rest ih =>
    intro t t' hr h
    have ihr := ih (fun o ho => hok o (by simp [ho]))
    cases o with
    | apply A =>
      have hA : A.det ≠ 0 := hok (.apply A) (by simp)
      simp only [LazyT.run] at h
      have := ihr (t.applyAffine A) t' (lazy_apply_rasOk t A hA hr) h
      exact ⟨fun p => by rw [this.1 p, lazy_apply_world t A hA p], this.2⟩
    | world =>
      simp only [LazyT.run, LazyT.toWorld] at h
      cases hR : t.toRas with
      | none => simp [hR] at h
      | some R =>
        simp only [hR] at h
        have hdet := hr R hR
        have := ihr (t.applyAffine R) t' (lazy_apply_rasOk t R hdet hr) h
        exact ⟨fun p => by rw [this.1 p, lazy_apply_world t R hdet p], this.2⟩

theorem lazy_resave (t : LazyT) (R : Aff) (ht : t.toRas = some R) (T : Aff) (hT : T.det ≠ 0) :
    ∃ s, trkSavePipeline t T = .ok s ∧ ∀ p, T.apply (s.see p) = R.apply (t.pending.apply p) := by
  refine ⟨(t.applyAffine R).applyAffine T.inv, ?_, ?_⟩
  · simp [trkSavePipeline, LazyT.toWorld, ht]
  · intro p
    simp only [LazyT.see, LazyT.applyAffine, Aff.apply_comp, Aff.apply_inv T hT]

/-! ### generators with finally -/

theorem fgen_step_rel {α} (f : FGen α) (g : Gen α) (b : Bool)
    (hspec : f.spec = if b then seekFixed else seekOrig) (hb : g.fixed = b)
    (h1 : f.run = g.run) (h2 : f.start = g.start) (h3 : f.st = g.st) (h4 : f.pos = g.pos) (a : Act) :
    (f.step a).spec = f.spec ∧ (g.step a).fixed = b ∧ (f.step a).run = (g.step a).run ∧
    (f.step a).start = (g.step a).start ∧ (f.step a).st = (g.step a).st ∧ (f.step a).pos = (g.step a).pos := by
  obtain ⟨frun, fspec, fstart, fst, fpos⟩ := f
  obtain ⟨grun, gfixed, gstart, gst, gpos⟩ := g
  simp only at hspec hb h1 h2 h3 h4
  subst h1 h2 h3 h4 hb
  cases a <;> cases fst <;> cases gfixed <;>
    simp only [FGen.step, Gen.step, FGen.advance, Gen.advance] <;>
    (try split) <;> (try split) <;>
    simp_all [leavePos, doSeek, seekFixed, seekOrig, Nat.add_comm]


theorem fgen_run_rel {α} (b : Bool) (acts : List Act) : ∀ (f : FGen α) (g : Gen α),
    f.spec = (if b then seekFixed else seekOrig) → g.fixed = b → f.run = g.run → f.start = g.start →
    f.st = g.st → f.pos = g.pos → (f.runActs acts).st = (g.runActs acts).st ∧ (f.runActs acts).pos = (g.runActs acts).pos := by
  induction acts with
  | nil => intro f g _ _ _ _ h3 h4; exact ⟨h3, h4⟩
  | cons a as ih =>
    intro f g hs hb h1 h2 h3 h4
    have := fgen_step_rel f g b hs hb h1 h2 h3 h4 a
    exact ih (f.step a) (g.step a) (by rw [this.1, hs]) this.2.1 this.2.2.1 this.2.2.2.1 this.2.2.2.2.1 this.2.2.2.2.2

/-- invariant of a generator whose seek is `SEEK_SET` in a `finally` enclosing every yield -/
theorem fgen_fixed_invariant {α} (start : Nat) (acts : List Act) : ∀ (f : FGen α), f.spec = seekFixed → f.start = start →
    (f.st.isSuspended = false → f.pos = start) →
    ((f.runActs acts).st.isSuspended = false → (f.runActs acts).pos = start) := by
  induction acts with
  | nil => intro f _ _ h; exact h
  | cons a as ih =>
    intro f hs hst h
    apply ih (f.step a)
    · cases a <;> simp only [FGen.step] <;> split <;> simp_all [FGen.advance] <;> split <;> simp_all
    · cases a <;> simp only [FGen.step] <;> split <;> simp_all [FGen.advance] <;> split <;> simp_all
    · obtain ⟨frun, fspec, fstart, fst, fpos⟩ := f
      simp only at hs hst h
      subst hs hst
      cases a <;> cases fst <;> simp only [FGen.step, FGen.advance] <;> (try split) <;>
        simp_all [leavePos, doSeek, seekFixed, GState.isSuspended]

end Nb.C16
