import NibabelModel.Lemmas.C08
/-! Lemmas/C08_Tck — the TCK reader on prefixes. -/
namespace Nb.C08

/-- the float32 triples of a TCK body: every streamline followed by a NaN triple, then the inf triple -/
def tckTriples (l : List (List Bytes)) : List Bytes := l.flatMap (fun s => s ++ [nanTriple])

theorem tckBody_eq (l : List (List Bytes)) : tckBody l = (tckTriples l ++ [infTriple]).flatten := by
  simp only [tckBody, tckTriples, List.flatten_append, List.flatten_cons, List.flatten_nil,
    List.append_nil]
  congr 1
  induction l with
  | nil => rfl
  | cons s r ih => simp [List.flatMap_cons, ih]

theorem triples_flatten (T : List Bytes) (hT : ∀ t ∈ T, t.length = 12) :
    ∀ q, q ≤ T.length → triples q (T.flatten.take (12 * q)) = T.take q := by
  induction T with
  | nil => intro q hq; simp at hq; subst hq; rfl
  | cons t T' ih =>
    intro q hq
    cases q with
    | zero => rfl
    | succ q =>
      have ht : t.length = 12 := hT t (by simp)
      have h1 : (t :: T').flatten.take (12 * (q + 1)) = t ++ T'.flatten.take (12 * q) := by
        rw [List.flatten_cons, List.take_append, List.take_of_length_le (by omega)]
        congr 2; omega
      rw [h1, triples, List.take_left' ht, List.drop_left' ht, List.take_succ_cons,
        ih (fun x hx => hT x (by simp [hx])) q (by simpa using hq)]

theorem tckSplit_left (L : List Bytes) : ∀ cur acc sl left, tckSplit L cur acc = (sl, left) →
    ∀ x ∈ left, x ∈ L ∨ x ∈ cur := by
  induction L with
  | nil =>
    intro cur acc sl left h x hx
    simp only [tckSplit, Prod.mk.injEq] at h
    right; rw [← h.2] at hx; simpa using hx
  | cons t r ih =>
    intro cur acc sl left h x hx
    simp only [tckSplit] at h
    split at h
    · rcases ih _ _ _ _ h x hx with h1 | h1
      · left; simp [h1]
      · simp at h1
    · rcases ih _ _ _ _ h x hx with h1 | h1
      · left; simp [h1]
      · simp only [List.mem_cons] at h1
        rcases h1 with h1 | h1
        · left; simp [h1]
        · right; exact h1

/-- streamlines whose points are 12-byte triples none of which is an all-inf triple (finite
    coordinates in particular) -/
def StreamsWF (l : List (List Bytes)) : Prop :=
  ∀ s ∈ l, ∀ t ∈ s, t.length = 12 ∧ tripleAll f32IsInf t = false

theorem tckTriples_wf (l : List (List Bytes)) (h : StreamsWF l) :
    ∀ t ∈ tckTriples l, t.length = 12 ∧ tripleAll f32IsInf t = false := by
  intro t ht
  simp only [tckTriples, List.mem_flatMap, List.mem_append, List.mem_singleton] at ht
  obtain ⟨s, hs, h1 | h1⟩ := ht
  · exact h s hs t h1
  · subst h1; decide

/-- **the data part on a strict prefix**: the bytes after the header are the first `j` bytes of the
    body (`j` < its length) ⇒ `_read` raises (cut inside a float / inside a triple / final inf triple
    missing). -/
theorem tckData_prefix (l : List (List Bytes)) (hl : StreamsWF l) (pre : Bytes) (j : Nat)
    (hj : j < (tckBody l).length) (st : Bool) :
    ∃ e, tckData ⟨pre ++ (tckBody l).take j, st⟩ pre.length = .error e := by
  unfold tckData Src.readAll
  cases st
  · simp only [Bool.false_eq_true, if_false, List.drop_left]
    have hwf := tckTriples_wf l hl
    have hT : ∀ t ∈ tckTriples l ++ [infTriple], t.length = 12 := by
      intro t ht
      simp only [List.mem_append, List.mem_singleton] at ht
      rcases ht with h | h
      · exact (hwf t h).1
      · subst h; rfl
    have hblen : (tckBody l).length = 12 * (tckTriples l ++ [infTriple]).length := by
      rw [tckBody_eq]
      generalize (tckTriples l ++ [infTriple]) = T at hT
      induction T with
      | nil => rfl
      | cons t T ih =>
        rw [List.flatten_cons, List.length_append, hT t (by simp),
          ih (fun x hx => hT x (by simp [hx]))]
        simp; omega
    have hlen : ((tckBody l).take j).length = j := by rw [List.length_take]; omega
    rw [hlen]
    split
    · exact ⟨_, rfl⟩
    · split
      · exact ⟨_, rfl⟩
      · rename_i h4 h3
        obtain ⟨q, hq⟩ : ∃ q, j = 12 * q := ⟨j / 12, by omega⟩
        subst hq
        have hdiv : 12 * q / 12 = q := by omega
        rw [hdiv]
        have hq' : q < (tckTriples l ++ [infTriple]).length := by omega
        have htr : triples q ((tckBody l).take (12 * q)) = (tckTriples l).take q := by
          rw [tckBody_eq, triples_flatten _ hT _ (by omega), List.take_append_of_le_length]
          simp only [List.length_append, List.length_singleton] at hq'; omega
        rw [htr]
        generalize hs : tckSplit ((tckTriples l).take q) [] [] = res
        obtain ⟨sl, left⟩ := res
        simp only
        split
        · rename_i t
          have := tckSplit_left _ _ _ _ _ hs t (by simp)
          rcases this with h | h
          · have := (hwf t (List.mem_of_mem_take h)).2
            rw [this]; exact ⟨_, rfl⟩
          · simp at h
        · exact ⟨_, rfl⟩
  · exact ⟨_, rfl⟩

/-- what the header part has to deliver for the data part to be read at the right place: IF the line
    scan of the truncated file finds an `END` line and a `file:` offset at all, that offset is the true
    header length -/
def ScanOk (t : Tck) (m : Nat) : Prop :=
  match tckScan (m + 1) (((tckWrite t).take m).drop 14) none with
  | .ok (some off) => off = (tckHeader t).length
  | _ => True

instance (t : Tck) (m : Nat) : Decidable (ScanOk t m) := by
  unfold ScanOk; split <;> exact inferInstance

theorem tckRead_prefix_of_scan (t : Tck) (hl : StreamsWF t.streams) (m : Nat) (st : Bool)
    (hm : m < (tckWrite t).length) (hscan : ScanOk t m) :
    ∃ e, tckRead ⟨(tckWrite t).take m, st⟩ = .error e := by
  unfold tckRead
  split
  · exact ⟨_, rfl⟩
  · split
    · exact ⟨_, rfl⟩
    · have hbl : ((tckWrite t).take m).length = m := by rw [List.length_take]; omega
      simp only [hbl]
      unfold ScanOk at hscan
      split
      · exact ⟨_, rfl⟩
      · exact ⟨_, rfl⟩
      · rename_i off hoff
        rw [hoff] at hscan
        simp only at hscan
        subst hscan
        by_cases hh : (tckHeader t).length ≤ m
        · have hsrc : (tckWrite t).take m = tckHeader t ++ (tckBody t.streams).take (m - (tckHeader t).length) := by
            rw [tckWrite, List.take_append, List.take_of_length_le hh]
          rw [hsrc]
          apply tckData_prefix _ hl
          rw [tckWrite, List.length_append] at hm; omega
        · cases st
          · have : ((tckWrite t).take m).drop (tckHeader t).length = [] := by
              apply List.drop_of_length_le; omega
            unfold tckData Src.readAll
            simp only [Bool.false_eq_true, if_false, this]
            exact ⟨_, rfl⟩
          · exact ⟨_, rfl⟩

end Nb.C08
