import NibabelModel.Lemmas.C08_Vol
import NibabelModel.Lemmas.C08_Trk
/-! Lemmas/C08_Ext — the NIfTI extension reader on a header file cut inside / between extension records. -/
namespace Nb.C08

/-- `j` bytes into the extension section is the end of a complete record (or its very start) -/
def atBoundary : List (Nat × Bytes) → Nat → Bool
  | [], j => j == 0
  | e :: r, j => j == 0 || (decide ((encExt e).length ≤ j) && atBoundary r (j - (encExt e).length))

theorem encExt_length (e : Nat × Bytes) : (encExt e).length = 8 + e.2.length := by
  simp [encExt, leN_length]; omega

theorem encExt_take8 (e : Nat × Bytes) (R : Bytes) (j : Nat) (hj : 8 ≤ j) :
    (((encExt e ++ R).take j).drop 0).take 8 = leN 4 (8 + e.2.length) ++ leN 4 e.1 := by
  rw [List.drop_zero, List.take_take]
  have : min 8 j = 8 := by omega
  rw [this]
  have e1 : encExt e ++ R = (leN 4 (8 + e.2.length) ++ leN 4 e.1) ++ (e.2 ++ R) := by
    simp [encExt, List.append_assoc]
  rw [e1, List.take_left' (by simp [leN_length])]

/-- **the extension loop of a detached header (`size < 0`: read to the end) on a cut extension
    section**: it succeeds exactly when the cut falls on a record boundary, else 'failed to read extension
    header/content' -/
theorem readExts_pair : ∀ (exts : List (Nat × Bytes)), (∀ e ∈ exts, 8 + e.2.length < 2 ^ 31) →
    ∀ (pre : Bytes) (j fuel : Nat) (size : Int), j ≤ ((exts.map encExt).flatten).length → j < fuel → size < 0 →
    readExts ⟨pre ++ ((exts.map encExt).flatten).take j, false⟩ fuel pre.length size =
      if atBoundary exts j then .ok () else .error .trunc := by
  intro exts
  induction exts with
  | nil =>
    intro _ pre j fuel size hj hf hs
    simp only [List.map_nil, List.flatten_nil, List.length_nil, Nat.le_zero_eq] at hj
    subst hj
    obtain ⟨f, rfl⟩ : ∃ f, fuel = f + 1 := ⟨fuel - 1, by omega⟩
    unfold readExts
    rw [if_pos (Or.inr hs), read_at pre _ false pre.length 0 8 (by omega)]
    simp [atBoundary, hs]
  | cons e r ih =>
    intro hwf pre j fuel size hj hf hs
    obtain ⟨f, rfl⟩ : ∃ f, fuel = f + 1 := ⟨fuel - 1, by omega⟩
    have hel := encExt_length e
    have he := hwf e (by simp)
    have hflat : (((e :: r).map encExt).flatten) = encExt e ++ (r.map encExt).flatten := by simp
    rw [hflat] at hj ⊢
    generalize hX : (encExt e ++ (r.map encExt).flatten).take j = X
    have hXl : X.length = j := by rw [← hX, List.length_take]; omega
    unfold readExts
    rw [if_pos (Or.inr hs), read_at pre X false pre.length 0 8 (by omega)]
    simp only [Bool.false_and, Bool.false_eq_true, if_false]
    by_cases h8 : j < 8
    · have hl : ((X.drop 0).take 8).length = j := by simp [hXl]; omega
      by_cases h0 : j = 0
      · rw [if_pos ⟨by omega, hs⟩]; simp [atBoundary, h0]
      · rw [if_neg (by omega), if_pos (by omega)]
        have : atBoundary (e :: r) j = false := by
          simp only [atBoundary, Bool.or_eq_false_iff, beq_eq_false_iff_ne, ne_eq, Bool.and_eq_false_imp,
            decide_eq_true_eq]
          exact ⟨h0, fun h => by omega⟩
        rw [this]; rfl
    · have hd : (X.drop 0).take 8 = leN 4 (8 + e.2.length) ++ leN 4 e.1 := by
        rw [← hX]; exact encExt_take8 e _ j (by omega)
      rw [hd]
      have hes : rdLE (leN 4 (8 + e.2.length) ++ leN 4 e.1) 0 4 = 8 + e.2.length := by
        unfold rdLE
        rw [List.drop_zero, List.take_left' (leN_length 4 _), deLE_leN]
        have : (2 : Nat) ^ 31 < 256 ^ 4 := by decide
        omega
      simp only [List.length_append, leN_length, hes]
      rw [if_neg (by omega), if_neg (by omega), if_neg (by omega), if_neg (by omega),
        read_at pre X false (pre.length + 8) 8 _ rfl]
      simp only [Bool.false_and, Bool.false_eq_true, if_false]
      have hsub : 8 + e.2.length - 8 = e.2.length := by omega
      rw [hsub]
      by_cases hlt : j < 8 + e.2.length
      · rw [if_pos (by simp only [List.length_take, List.length_drop, hXl]; omega)]
        have : atBoundary (e :: r) j = false := by
          simp only [atBoundary, Bool.or_eq_false_iff, beq_eq_false_iff_ne, ne_eq, Bool.and_eq_false_imp,
            decide_eq_true_eq]
          exact ⟨by omega, fun h => by omega⟩
        rw [this]; rfl
      · rw [if_neg (by simp only [List.length_take, List.length_drop, hXl]; omega)]
        have hsrc : pre ++ X = (pre ++ encExt e) ++ ((r.map encExt).flatten).take (j - (encExt e).length) := by
          rw [← hX, List.take_append, List.take_of_length_le (by omega), List.append_assoc]
        have hpos : pre.length + (8 + e.2.length) = (pre ++ encExt e).length := by
          rw [List.length_append, hel]
        rw [hsrc, hpos, ih (fun x hx => hwf x (by simp [hx])) (pre ++ encExt e) (j - (encExt e).length) f
          (size - ((8 + e.2.length : Nat) : Int)) (by rw [List.length_append] at hj; omega) (by omega) (by omega)]
        have : atBoundary (e :: r) j = atBoundary r (j - (encExt e).length) := by
          simp only [atBoundary]
          have h1 : (j == 0) = false := by simp; omega
          have h2 : decide ((encExt e).length ≤ j) = true := by simp; omega
          rw [h1, h2]; simp
        rw [this]

/-- header file of a NIfTI pair with extensions, cut `j` bytes into the extension section (plain file):
    the load succeeds — with exactly the written data — iff the cut is on a record boundary -/
theorem readPair_ext (fmt : VolFmt) (img : Img) (hH : fmt.hdrSize = 16 + img.fill.length)
    (hd : img.data.length < 2 ^ 64) (hf : fmt.fixedOff = none) (hx : fmt.exts = true)
    (hs : fmt.sniffLen ≤ fmt.hdrSize) (hft : fmt.footer = 0) (e0 : Nat) (he : img.extender = [e0, 0, 0, 0])
    (he0 : e0 ≠ 0) (hexts : ∀ e ∈ img.exts, 8 + e.2.length < 2 ^ 31) (um : Bool) (j : Nat)
    (hj : j ≤ (extBytes img).length) :
    readPair fmt um ⟨(writeHdrFile fmt img).take (fmt.hdrSize + 4 + j), false⟩ (Src.plain (writeImgFile img))
      = if atBoundary img.exts j then .ok img.data else .error .trunc := by
  have hblk : (hdrBlock img 0).length = fmt.hdrSize := by
    simp [hdrBlock, leN_length, hH]; omega
  have hfile : (writeHdrFile fmt img).take (fmt.hdrSize + 4 + j) =
      (hdrBlock img 0 ++ img.extender) ++ (extBytes img).take j := by
    simp only [writeHdrFile, hx, if_true]
    rw [← List.append_assoc, List.take_append, List.take_of_length_le (by simp [hblk, he])]
    congr 2
    simp [hblk, he]
  rw [hfile]
  generalize hS : (⟨(hdrBlock img 0 ++ img.extender) ++ (extBytes img).take j, false⟩ : Src) = S
  have hSb : S.bytes = (hdrBlock img 0 ++ img.extender) ++ (extBytes img).take j := by rw [← hS]
  have hSs : S.strict = false := by rw [← hS]
  have hlenS : S.bytes.length = fmt.hdrSize + 4 + j := by
    rw [hSb]; simp [hblk, he, List.length_take]; omega
  have h_sniff : sniffOk fmt S = true := by
    unfold sniffOk
    split
    · rfl
    · simp only [Src.read, hSs, Bool.false_and, Bool.false_eq_true, if_false, List.drop_zero,
        List.length_take, decide_eq_true_eq, hlenS]
      try omega
  have h_read : S.read 0 fmt.hdrSize = .ok (hdrBlock img 0) := by
    simp only [Src.read, hSs, Bool.false_and, Bool.false_eq_true, if_false, List.drop_zero, hSb]
    rw [List.append_assoc, ← hblk, List.take_left]
  have h_est : S.read fmt.hdrSize 4 = .ok img.extender := by
    simp only [Src.read, hSs, Bool.false_and, Bool.false_eq_true, if_false, hSb]
    rw [List.append_assoc, ← hblk, List.drop_left, List.take_left' (by simp [he])]
  have h_exts : readExts S (S.bytes.length + 1) (fmt.hdrSize + 4) (-1) =
      if atBoundary img.exts j then .ok () else .error .trunc := by
    have hpre : (hdrBlock img 0 ++ img.extender).length = fmt.hdrSize + 4 := by simp [hblk, he]
    have h := readExts_pair img.exts hexts (hdrBlock img 0 ++ img.extender) j (S.bytes.length + 1) (-1) hj
      (by rw [hlenS]; omega) (by omega)
    rw [hpre] at h
    change readExts ⟨(hdrBlock img 0 ++ img.extender) ++ (extBytes img).take j, false⟩ _ _ _ = _ at h
    rw [hS] at h
    exact h
  have h_hdr : readHeader fmt false S =
      if atBoundary img.exts j then .ok (img.data.length, 0) else .error .trunc := by
    have hn : rdLE (hdrBlock img 0) 0 8 = img.data.length := by
      rw [hdrBlock]; exact rdLE_hdr0 _ _ _ hd
    have ho : rdLE (hdrBlock img 0) 8 8 = 0 := by
      rw [hdrBlock]; exact rdLE_hdr8 _ 0 _ (by decide)
    have h4 : ¬ (img.extender.length < 4 ∨ img.extender.head? = some 0) := by
      rw [he]; simp [he0]
    unfold readHeader
    simp only [h_sniff, not_true_eq_false, if_false, h_read, hblk, ne_eq, hx, if_true,
      h_est, hf, Option.getD_none, hn, ho, h4, Bool.false_eq_true, h_exts, hft]
    cases atBoundary img.exts j <;> simp
  cases hb : atBoundary img.exts j
  · simp [readPair, h_hdr, hb]
  · have := readData_ok um [] img.data [] img.data.length (by simp)
    simp at this
    simp only [readPair, h_hdr, hb, if_true, writeImgFile, Src.plain]
    exact this

end Nb.C08
