import NibabelModel.Model.C17
import NibabelModel.Lemmas.C17
import Std.Data.String.ToInt
/-! Lemmas/C17_Writer — the parser event machine run on the handler calls the WRITER's element tree produces
    (Model/C17 §(d) `imgEvents`).  Core Lean + `Std.Data.String.ToInt` (ships with the toolchain; used for
    `int(str(n)) = n`).

    §1 `str.strip()` / `str(int)` / `int()` facts
    §2 closed forms of the parser state between elements (`stTop`, `stGMeta`, `stDA`, `stDMeta`, `stLT`) and one lemma
       per element kind, in continuation style: `runFrom st (events_of_element ++ rest) = runFrom st' rest`
    §3 `Dim{i}` attribute lookup, `<DataArray …>` start
    §4 predicates used in the statements of Props/C17 (`MD.Stripped`, `WDArr.CodesOk`, `WDArr.Ok`, `WImg.Ok`), the
       expected parse result (`WLabel.parsed`, `WDArr.parsed`, `WImg.parsed`) and `run_imgEvents`. -/
namespace Nb.C17


theorem dropWhile_of_head_false {α} (p : α → Bool) : ∀ (t : List α), (∀ c, t.head? = some c → p c = false) → t.dropWhile p = t
  | [], _ => rfl
  | c :: cs, h => by simp [h c rfl]

/-- `str.strip()` leaves a text alone whose first and last characters are not white space -/
theorem strip_eq_self (t : Text) (h1 : ∀ c, t.head? = some c → isPySpace c = false)
    (h2 : ∀ c, t.getLast? = some c → isPySpace c = false) : strip t = t := by
  unfold strip
  rw [dropWhile_of_head_false _ t h1, dropWhile_of_head_false _ t.reverse (by simpa using h2), List.reverse_reverse]

theorem strip_of_no_space (t : Text) (h : ∀ c ∈ t, isPySpace c = false) : strip t = t :=
  strip_eq_self t (fun c hc => h c (List.mem_of_mem_head? hc)) (fun c hc => h c (List.mem_of_mem_getLast? hc))

theorem isPySpace_of_isDigit (c : Char) (h : c.isDigit = true) : isPySpace c = false := by
  simp only [Char.isDigit, Bool.and_eq_true, decide_eq_true_eq] at h
  have h1 : 48 ≤ c.toNat := UInt32.le_iff_toNat_le.mp h.1
  have h2 : c.toNat ≤ 57 := UInt32.le_iff_toNat_le.mp h.2
  simp only [isPySpace]
  generalize c.toNat = n at *
  simp; omega

theorem showNat_digits (n : Nat) : ∀ c ∈ showNat n, c.isDigit = true := by
  intro c hc
  simp only [showNat, Nat.toList_repr] at hc
  exact Nat.isDigit_of_mem_toDigits (by omega) (by omega) hc

theorem pyInt_showNat (n : Nat) : pyInt (showNat n) = some (n : Int) := by
  unfold pyInt
  rw [strip_of_no_space _ (fun c hc => isPySpace_of_isDigit c (showNat_digits n c hc))]
  show (String.ofList (Nat.repr n).toList).toInt? = _
  rw [String.ofList_toList]; exact Nat.toInt?_repr n

theorem showNat_ne_nil (n : Nat) : showNat n ≠ [] := by
  have h : Nat.repr n ≠ "" := by simp
  intro h'
  apply h
  have := congrArg String.ofList h'
  simp [showNat] at this


theorem modifyLast_concat {α} (f : α → α) : ∀ (pre : List α) (d : α), modifyLast f (pre ++ [d]) = pre ++ [f d]
  | [], d => rfl
  | [x], d => rfl
  | x :: y :: pre, d => by
    have := modifyLast_concat f (y :: pre) d
    simp only [List.cons_append] at this ⊢
    simp only [modifyLast, this]

theorem modifyAt_concat {α} (f : α → α) : ∀ (pre : List α) (d : α), modifyAt f (pre ++ [d]) pre.length = pre ++ [f d]
  | [], d => rfl
  | x :: pre, d => by simp [modifyAt, modifyAt_concat f pre d]

/-- the parser between two children of <GIFTI> -/
def stTop (img : Img) (b : Bool) : PState := { img := some img, fsm := ["GIFTI"], haveDa := b }
/-- inside the image-level <MetaData> -/
def stGMeta (img : Img) (b : Bool) (g : MD) : PState :=
  { img := some img, fsm := ["GIFTI", "MetaData"], haveDa := b, metaGlobal := some g }
/-- between two children of <DataArray> -/
def stDA (img : Img) : PState := { img := some img, fsm := ["GIFTI", "DataArray"], haveDa := true }
/-- inside the <MetaData> of a <DataArray> -/
def stDMeta (img : Img) (m : MD) : PState :=
  { img := some img, fsm := ["GIFTI", "DataArray", "MetaData"], haveDa := true, metaDa := some m }
/-- inside <LabelTable> -/
def stLT (img : Img) (b : Bool) (ls : List (Option Label)) : PState :=
  { img := some img, fsm := ["GIFTI", "LabelTable"], haveDa := b, lata := some ls }

theorem md_global (K : Codes) (X : Ext) (img : Img) (b : Bool) (g : MD) (kv : Text × Text) (rest : List Event)
    (hk : strip kv.1 = kv.1) (hv : strip kv.2 = kv.2) :
    runFrom K X (stGMeta img b g) (mdEvents kv ++ rest) = runFrom K X (stGMeta img b (MD.set g kv.1 kv.2)) rest := by
  obtain ⟨k, v⟩ := kv
  simp only at hk hv
  by_cases h1 : k = [] <;> by_cases h2 : v = [] <;>
  simp [stGMeta, mdEvents, leaf, textEvents, h1, h2, runFrom, step, flush, flushCore, joined, onChars, startCore, stopCore, hk, hv]

theorem md_da (K : Codes) (X : Ext) (img : Img) (m : MD) (kv : Text × Text) (rest : List Event)
    (hk : strip kv.1 = kv.1) (hv : strip kv.2 = kv.2) :
    runFrom K X (stDMeta img m) (mdEvents kv ++ rest) = runFrom K X (stDMeta img (MD.set m kv.1 kv.2)) rest := by
  obtain ⟨k, v⟩ := kv
  simp only at hk hv
  by_cases h1 : k = [] <;> by_cases h2 : v = [] <;>
  simp [stDMeta, mdEvents, leaf, textEvents, h1, h2, runFrom, step, flush, flushCore, joined, onChars, startCore, stopCore, hk, hv]

/-- the dict the parser builds from the pairs in document order -/
def mdFold (g : MD) (m : MD) : MD := m.foldl (fun acc kv => MD.set acc kv.1 kv.2) g

/-- every key and value survives `str.strip()` -/
def MD.Stripped (m : MD) : Prop := ∀ kv ∈ m, strip kv.1 = kv.1 ∧ strip kv.2 = kv.2

theorem mds_global (K : Codes) (X : Ext) (img : Img) (b : Bool) (rest : List Event) :
    ∀ (m : MD) (g : MD), m.Stripped →
    runFrom K X (stGMeta img b g) (m.flatMap mdEvents ++ rest) = runFrom K X (stGMeta img b (mdFold g m)) rest
  | [], g, _ => rfl
  | kv :: m, g, h => by
    rw [List.flatMap_cons, List.append_assoc, md_global K X img b g kv _ (h kv (by simp)).1 (h kv (by simp)).2]
    exact mds_global K X img b rest m _ (fun x hx => h x (by simp [hx]))

theorem mds_da (K : Codes) (X : Ext) (img : Img) (rest : List Event) :
    ∀ (m : MD) (g : MD), m.Stripped →
    runFrom K X (stDMeta img g) (m.flatMap mdEvents ++ rest) = runFrom K X (stDMeta img (mdFold g m)) rest
  | [], g, _ => rfl
  | kv :: m, g, h => by
    rw [List.flatMap_cons, List.append_assoc, md_da K X img g kv _ (h kv (by simp)).1 (h kv (by simp)).2]
    exact mds_da K X img rest m _ (fun x hx => h x (by simp [hx]))

theorem meta_global (K : Codes) (X : Ext) (img : Img) (b : Bool) (m : MD) (rest : List Event) (h : m.Stripped) :
    runFrom K X (stTop img b) (metaEvents m ++ rest) = runFrom K X (stTop { img with gmeta := mdFold [] m } b) rest := by
  have h1 : runFrom K X (stTop img b) (metaEvents m ++ rest)
      = runFrom K X (stGMeta img b []) (m.flatMap mdEvents ++ (.stop "MetaData" :: rest)) := by
    simp [stTop, stGMeta, metaEvents, runFrom, step, flush, flushCore, joined, startCore]
  rw [h1, mds_global K X img b _ m [] h]
  simp [stTop, stGMeta, runFrom, step, flush, flushCore, joined, stopCore]

theorem meta_da (K : Codes) (X : Ext) (img : Img) (pre : List DArr) (d : DArr) (m : MD) (rest : List Event)
    (h : m.Stripped) (hd : img.darrays = pre ++ [d]) :
    runFrom K X (stDA img) (metaEvents m ++ rest)
      = runFrom K X (stDA { img with darrays := pre ++ [{ d with dmeta := some (mdFold [] m) }] }) rest := by
  have h1 : runFrom K X (stDA img) (metaEvents m ++ rest)
      = runFrom K X (stDMeta img []) (m.flatMap mdEvents ++ (.stop "MetaData" :: rest)) := by
    simp [stDA, stDMeta, metaEvents, runFrom, step, flush, flushCore, joined, startCore]
  rw [h1, mds_da K X img _ m [] h]
  simp [stDA, stDMeta, runFrom, step, flush, flushCore, joined, stopCore, hd, modifyLast_concat]


theorem MD.set_new : ∀ (g : MD) (k v : Text), k ∉ g.map (·.1) → MD.set g k v = g ++ [(k, v)]
  | [], _, _, _ => rfl
  | (k', v') :: g, k, v, h => by
    have hne : k' ≠ k := by intro e; subst e; simp at h
    have : k ∉ g.map (·.1) := by intro hm; apply h; simp [hm]
    simp [MD.set, hne, MD.set_new g k v this]

theorem mdFold_append : ∀ (m g : MD), ((g ++ m).map (·.1)).Nodup → mdFold g m = g ++ m
  | [], g, _ => by simp [mdFold]
  | kv :: m, g, h => by
    have hk : kv.1 ∉ g.map (·.1) := by
      intro hm
      rw [List.map_append, List.nodup_append] at h
      exact h.2.2 _ hm _ (by simp) rfl
    show mdFold (MD.set g kv.1 kv.2) m = _
    rw [MD.set_new g kv.1 kv.2 hk, mdFold_append m (g ++ [kv]) (by simpa using h)]
    simp

/-- a Python dict: the keys are pairwise distinct -/
theorem mdFold_nodup (m : MD) (h : (m.map (·.1)).Nodup) : mdFold [] m = m := by
  simpa using mdFold_append m [] (by simpa using h)

/-- what the parser makes of a label the writer wrote -/
def WLabel.parsed (l : WLabel) : Label :=
  { key := l.key, red := l.red, green := l.green, blue := l.blue, alpha := l.alpha,
    label := if l.label.isEmpty then none else some l.label }

theorem label_one (K : Codes) (X : Ext) (img : Img) (b : Bool) (ls : List (Option Label)) (l : WLabel)
    (rest : List Event) (hs : strip l.label = l.label) :
    runFrom K X (stLT img b ls) (labelEvents l ++ rest) = runFrom K X (stLT img b (ls ++ [some l.parsed])) rest := by
  obtain ⟨key, lab, r, g, bl, a⟩ := l
  simp only at hs
  have hkey := pyInt_showNat key
  by_cases h1 : lab = [] <;> cases r <;> cases g <;> cases bl <;> cases a <;>
  simp [stLT, labelEvents, leaf, textEvents, optAttr, attr, optInt, h1, hkey, runFrom, step, flush, flushCore, joined,
    onChars, startCore, stopCore, hs, WLabel.parsed]


theorem labels_list (K : Codes) (X : Ext) (img : Img) (b : Bool) (rest : List Event) :
    ∀ (ws : List WLabel) (ls : List (Option Label)), (∀ l ∈ ws, strip l.label = l.label) →
    runFrom K X (stLT img b ls) (ws.flatMap labelEvents ++ rest)
      = runFrom K X (stLT img b (ls ++ ws.map (fun l => some l.parsed))) rest
  | [], ls, _ => by simp
  | l :: ws, ls, h => by
    rw [List.flatMap_cons, List.append_assoc, label_one K X img b ls l _ (h l (by simp))]
    rw [labels_list K X img b rest ws _ (fun x hx => h x (by simp [hx]))]
    simp

theorem label_table (K : Codes) (X : Ext) (img : Img) (b : Bool) (ws : List WLabel) (rest : List Event)
    (h : ∀ l ∈ ws, strip l.label = l.label) :
    runFrom K X (stTop img b) (labelTableEvents ws ++ rest)
      = runFrom K X (stTop { img with labels := ws.map (fun l => some l.parsed) } b) rest := by
  have h1 : runFrom K X (stTop img b) (labelTableEvents ws ++ rest)
      = runFrom K X (stLT img b []) (ws.flatMap labelEvents ++ (.stop "LabelTable" :: rest)) := by
    simp [stTop, stLT, labelTableEvents, runFrom, step, flush, flushCore, joined, startCore]
  rw [h1, labels_list K X img b _ ws [] h]
  simp [stTop, stLT, runFrom, step, flush, flushCore, joined, stopCore]

/-- what `np.loadtxt` makes of the <MatrixData> text (number parsing external: `X.parseNum 'f' 8`) -/
def parseMatrix (X : Ext) (t : Text) : Option (List (List Nat)) :=
  match loadRows t with
  | .ok rows => rows.mapM (fun r => r.mapM (X.parseNum 'f' 8))
  | .error _ => none

theorem coord_events (K : Codes) (X : Ext) (N : WNames) (img : Img) (pre : List DArr) (d : DArr) (c : WCoord)
    (vals : List (List Nat)) (rest : List Event) (hd : img.darrays = pre ++ [d])
    (h1 : nameOf N.xform c.dataspace ≠ []) (h1' : lookup K.xform (strip (nameOf N.xform c.dataspace)) = some c.dataspace)
    (h2 : nameOf N.xform c.xformspace ≠ []) (h2' : lookup K.xform (strip (nameOf N.xform c.xformspace)) = some c.xformspace)
    (h3 : c.matrixText ≠ []) (h3' : parseMatrix X c.matrixText = some vals) :
    runFrom K X (stDA img) (coordEvents N c ++ rest)
      = runFrom K X (stDA { img with darrays := pre ++ [{ d with coordsys :=
          { dataspace := c.dataspace, xformspace := c.xformspace, xform := some vals } }] }) rest := by
  unfold parseMatrix at h3'
  cases hl : loadRows c.matrixText with
  | error e => simp [hl] at h3'
  | ok rows =>
    simp only [hl] at h3'
    simp [stDA, coordEvents, leaf, textEvents, h1, h2, h3, runFrom, step, flush, flushCore, joined, onChars, startCore,
      stopCore, hd, modifyLast_concat, modifyAt_concat, h1', h2', hl, h3']

theorem data_leaf (K : Codes) (X : Ext) (img : Img) (pre : List DArr) (d : DArr) (t : Text) (arr : Arr)
    (rest : List Event) (hd : img.darrays = pre ++ [d])
    (h : readDataBlock K X ⟨d.encoding, d.endian, d.datatype, d.dims, d.indOrd⟩ (if t.isEmpty then none else some t) = .ok arr) :
    runFrom K X (stDA img) (leaf "Data" [] t ++ rest)
      = runFrom K X (stDA { img with darrays := pre ++ [{ d with data := some arr }] }) rest := by
  by_cases ht : t = []
  · subst ht
    simp at h
    simp [stDA, leaf, textEvents, runFrom, step, flush, flushCore, joined, startCore, stopCore, hd,
      modifyLast_concat, h]
  · simp [ht] at h
    simp [stDA, leaf, textEvents, ht, runFrom, step, flush, flushCore, joined, onChars, startCore, stopCore, hd,
      modifyLast_concat, h]



theorem mapM_range' (f : Nat → Except Err Nat) : ∀ (dims : List Nat) (i0 : Nat),
    (∀ j (h : j < dims.length), f (i0 + j) = .ok dims[j]) → (List.range' i0 dims.length).mapM f = .ok dims
  | [], _, _ => rfl
  | n :: ns, i0, h => by
    have h0 := h 0 (by simp)
    have ih := mapM_range' f ns (i0 + 1) (fun j hj => by
      have := h (j + 1) (by simpa using hj)
      simpa [Nat.add_assoc, Nat.add_comm 1 j] using this)
    simp only [List.length_cons, List.range'_succ, List.mapM_cons]
    simp only [Nat.add_zero, List.getElem_cons_zero] at h0
    rw [h0, ih]; rfl

theorem dim_key_inj (i j : Nat) (h : "Dim" ++ toString i = "Dim" ++ toString j) : i = j := by
  have := congrArg String.toList h
  simp only [String.toList_append, List.append_cancel_left_eq] at this
  have h2 : Nat.repr i = Nat.repr j := String.toList_inj.mp this
  exact Nat.repr_injective h2

theorem attr_dimAttrs : ∀ (dims : List Nat) (i0 j : Nat) (h : j < dims.length),
    attr (dimAttrs dims i0) ("Dim" ++ toString (i0 + j)) = some (showNat dims[j])
  | n :: ns, i0, 0, _ => by simp [dimAttrs, attr]
  | n :: ns, i0, j + 1, h => by
    have hne : ("Dim" ++ toString i0 == "Dim" ++ toString (i0 + (j + 1))) = false := by
      rw [beq_eq_false_iff_ne]; intro e; have := dim_key_inj _ _ e; omega
    have ih := attr_dimAttrs ns (i0 + 1) j (by simpa using h)
    have e : i0 + 1 + j = i0 + (j + 1) := by omega
    rw [e] at ih
    simp only [attr, dimAttrs, List.find?_cons, hne, List.getElem_cons_succ] at ih ⊢
    exact ih


theorem dimkey_ne (k : String) (i : Nat)
    (h : ∀ t, k.toList = 'D' :: 'i' :: 'm' :: t → ∃ c ∈ t, c.isDigit = false) : (k == "Dim" ++ toString i) = false := by
  rw [beq_eq_false_iff_ne]
  intro e
  have := congrArg String.toList e
  simp only [String.toList_append] at this
  obtain ⟨c, hc, hd⟩ := h _ this
  have : c.isDigit = true := by
    have hc' : c ∈ showNat i := hc
    exact showNat_digits i c hc'
  simp [this] at hd

theorem attr_daAttrs_dim (N : WNames) (d : WDArr) (j : Nat) (h : j < d.dims.length) :
    attr (daAttrs N d) ("Dim" ++ toString j) = some (showNat d.dims[j]) := by
  have key := attr_dimAttrs d.dims 0 j h
  simp only [Nat.zero_add] at key
  have e1 := dimkey_ne "Intent" j (by intro t ht; simp at ht)
  have e2 := dimkey_ne "DataType" j (by intro t ht; simp at ht)
  have e3 := dimkey_ne "ArrayIndexingOrder" j (by intro t ht; simp at ht)
  have e4 := dimkey_ne "Dimensionality" j (by intro t ht; simp at ht; exact ⟨'e', by simp [← ht], by decide⟩)
  have e5 := dimkey_ne "Encoding" j (by intro t ht; simp at ht)
  have e6 := dimkey_ne "Endian" j (by intro t ht; simp at ht)
  have e7 := dimkey_ne "ExternalFileName" j (by intro t ht; simp at ht)
  have e8 := dimkey_ne "ExternalFileOffset" j (by intro t ht; simp at ht)
  simp only [attr] at key ⊢
  simp only [daAttrs, List.cons_append, List.nil_append, List.find?_cons, e1, e2, e3, e4, e5, e6, e7, e8]
  exact key

theorem readDims_daAttrs (N : WNames) (d : WDArr) : readDims (daAttrs N d) d.dims.length = .ok d.dims := by
  unfold readDims
  rw [List.range_eq_range']
  apply mapM_range'
  intro j hj
  simp only [Nat.zero_add]
  rw [attr_daAttrs_dim N d j hj]
  simp [pyInt_showNat]

/-- the `DArr` the parser creates at `<DataArray …>` -/
def WDArr.shell (d : WDArr) : DArr :=
  { intent := d.intent, datatype := d.datatype, indOrd := d.indOrd, encoding := d.encoding, endian := d.endian,
    dims := d.dims, extFname := d.extFname, extOffset := d.extOffset }

/-- the codes of the array are in the writer's tables and the parser's alias tables map the written names back -/
structure WDArr.CodesOk (K : Codes) (N : WNames) (d : WDArr) : Prop where
  intent : lookup K.intent (nameOf N.intent d.intent) = some d.intent
  dtype : lookup K.dtype (nameOf N.dtype d.datatype) = some d.datatype
  order : lookup K.order (nameOf N.order d.indOrd) = some d.indOrd
  encoding : lookup K.encoding (nameOf N.encoding d.encoding) = some d.encoding
  endian : lookup K.endian (nameOf N.endian d.endian) = some d.endian

theorem da_start (K : Codes) (X : Ext) (N : WNames) (img : Img) (b : Bool) (d : WDArr) (rest : List Event)
    (h : d.CodesOk K N) :
    runFrom K X (stTop img b) (.start "DataArray" (daAttrs N d) :: rest)
      = runFrom K X (stDA { img with darrays := img.darrays ++ [d.shell] }) rest := by
  have hd := readDims_daAttrs N d
  have ho := pyInt_showNat d.extOffset
  have hn := pyInt_showNat d.dims.length
  have hne := showNat_ne_nil d.extOffset
  have hlt : ¬ ((d.dims.length : Int) < 0) := by omega
  have a1 : attr (daAttrs N d) "Intent" = some (nameOf N.intent d.intent) := by simp [attr, daAttrs]
  have a2 : attr (daAttrs N d) "DataType" = some (nameOf N.dtype d.datatype) := by simp [attr, daAttrs]
  have a3 : attr (daAttrs N d) "ArrayIndexingOrder" = some (nameOf N.order d.indOrd) := by simp [attr, daAttrs]
  have a4 : attr (daAttrs N d) "Dimensionality" = some (showNat d.dims.length) := by simp [attr, daAttrs]
  have a5 : attr (daAttrs N d) "Encoding" = some (nameOf N.encoding d.encoding) := by simp [attr, daAttrs]
  have a6 : attr (daAttrs N d) "Endian" = some (nameOf N.endian d.endian) := by simp [attr, daAttrs]
  have a7 : attr (daAttrs N d) "ExternalFileName" = some d.extFname := by simp [attr, daAttrs]
  have a8 : attr (daAttrs N d) "ExternalFileOffset" = some (showNat d.extOffset) := by simp [attr, daAttrs]
  simp [stTop, stDA, runFrom, step, flush, flushCore, joined, startCore, a1, a2, a3, a4, a5, a6, a7, a8, optCode, optInt,
    h.intent, h.dtype, h.order, h.encoding, h.endian, hn, ho, hne, hd, hlt, WDArr.shell]


/-- what the parser makes of an array the writer wrote; `vals` = `np.loadtxt` of the matrix text, `arr` =
    `read_data_block` of the data text (both involve the external number / Base64 / zlib codecs) -/
def WDArr.parsed (d : WDArr) (vals : List (List Nat)) (arr : Arr) : DArr :=
  { d.shell with dmeta := some d.dmeta,
                 coordsys := { dataspace := d.coordsys.dataspace, xformspace := d.coordsys.xformspace, xform := some vals },
                 data := some arr }

/-- hypotheses on one array of a written image -/
structure WDArr.Ok (K : Codes) (N : WNames) (X : Ext) (d : WDArr) (vals : List (List Nat)) (arr : Arr) : Prop where
  codes : d.CodesOk K N
  /-- per-array metadata: a dict (distinct keys) of texts that `str.strip()` leaves alone -/
  metaStripped : d.dmeta.Stripped
  metaKeys : (d.dmeta.map (·.1)).Nodup
  ds_ne : nameOf N.xform d.coordsys.dataspace ≠ []
  ds : lookup K.xform (strip (nameOf N.xform d.coordsys.dataspace)) = some d.coordsys.dataspace
  xs_ne : nameOf N.xform d.coordsys.xformspace ≠ []
  xs : lookup K.xform (strip (nameOf N.xform d.coordsys.xformspace)) = some d.coordsys.xformspace
  mt_ne : d.coordsys.matrixText ≠ []
  /-- external: ASCII number printing ('%10.6f') and parsing (np.loadtxt) of the 4x4 matrix -/
  mt : parseMatrix X d.coordsys.matrixText = some vals
  /-- the data block: discharged by `data_block_roundtrip` for the Base64 encodings; external for ASCII -/
  data : readDataBlock K X ⟨d.encoding, d.endian, d.datatype, d.dims, d.indOrd⟩
           (if d.dataText.isEmpty then none else some d.dataText) = .ok arr

theorem da_events (K : Codes) (X : Ext) (N : WNames) (img : Img) (b : Bool) (d : WDArr) (vals : List (List Nat))
    (arr : Arr) (rest : List Event) (h : d.Ok K N X vals arr) :
    runFrom K X (stTop img b) (daEvents N d ++ rest)
      = runFrom K X (stTop { img with darrays := img.darrays ++ [d.parsed vals arr] } true) rest := by
  unfold daEvents
  rw [List.cons_append, da_start K X N img b d _ h.codes]
  simp only [List.append_assoc]
  rw [meta_da K X _ img.darrays d.shell d.dmeta _ h.metaStripped rfl, mdFold_nodup _ h.metaKeys]
  rw [coord_events K X N _ img.darrays _ d.coordsys vals _ rfl h.ds_ne h.ds h.xs_ne h.xs h.mt_ne h.mt]
  rw [data_leaf K X _ img.darrays _ d.dataText arr _ rfl (by simpa [WDArr.shell] using h.data)]
  simp [stDA, stTop, runFrom, step, flush, flushCore, joined, stopCore, WDArr.parsed]

theorem das_list (K : Codes) (X : Ext) (N : WNames) (rest : List Event) :
    ∀ (ds : List (WDArr × List (List Nat) × Arr)) (img : Img) (b : Bool), (∀ t ∈ ds, t.1.Ok K N X t.2.1 t.2.2) →
    runFrom K X (stTop img b) (ds.flatMap (fun t => daEvents N t.1) ++ rest)
      = runFrom K X (stTop { img with darrays := img.darrays ++ ds.map (fun t => t.1.parsed t.2.1 t.2.2) }
          (b || !ds.isEmpty)) rest
  | [], img, b, _ => by simp
  | t :: ds, img, b, h => by
    rw [List.flatMap_cons, List.append_assoc, da_events K X N img b t.1 t.2.1 t.2.2 _ (h t (by simp))]
    rw [das_list K X N rest ds _ true (fun x hx => h x (by simp [hx]))]
    simp

/-- what the parser makes of an image the writer wrote -/
def WImg.parsed (w : WImg) (ext : List (List (List Nat) × Arr)) : Img :=
  { version := w.version, gmeta := w.gmeta, labels := w.labels.map (fun l => some l.parsed),
    darrays := (w.darrays.zip ext).map (fun t => t.1.parsed t.2.1 t.2.2) }

/-- hypotheses on a written image -/
structure WImg.Ok (K : Codes) (N : WNames) (X : Ext) (w : WImg) (ext : List (List (List Nat) × Arr)) : Prop where
  metaStripped : w.gmeta.Stripped
  metaKeys : (w.gmeta.map (·.1)).Nodup
  labels : ∀ l ∈ w.labels, strip l.label = l.label
  len : ext.length = w.darrays.length
  arrays : ∀ t ∈ w.darrays.zip ext, t.1.Ok K N X t.2.1 t.2.2

theorem run_imgEvents (K : Codes) (X : Ext) (N : WNames) (w : WImg) (ext : List (List (List Nat) × Arr))
    (h : w.Ok K N X ext) : run K X (imgEvents N w) = .ok (some (w.parsed ext)) := by
  have hz : w.darrays = (w.darrays.zip ext).map (·.1) := by
    rw [List.map_fst_zip]; rw [h.len]; exact Nat.le_refl _
  have hn := pyInt_showNat w.darrays.length
  rw [run_eq]
  have h0 : runFrom K X {} (imgEvents N w)
      = runFrom K X (stTop { version := w.version } false)
          (metaEvents w.gmeta ++ (labelTableEvents w.labels ++ (w.darrays.flatMap (daEvents N) ++ [.stop "GIFTI"]))) := by
    simp [imgEvents, stTop, runFrom, step, flush, flushCore, joined, startCore, attr, optInt, hn]
  rw [h0, meta_global K X _ false w.gmeta _ h.metaStripped, mdFold_nodup _ h.metaKeys,
    label_table K X _ false w.labels _ h.labels]
  conv => lhs; rw [hz, List.flatMap_map]
  rw [das_list K X N _ (w.darrays.zip ext) _ false (fun t ht => h.arrays t ht)]
  simp [stTop, runFrom, step, flush, flushCore, joined, stopCore, imgOf, WImg.parsed]


/-- the codes of the array are codes of the (regenerated) tables: any intent code, a GIFTI data type, one of the
    two index orders, three in-line encodings, two byte orders, and xform codes the writer has a name for -/
structure WDArr.InTables (K : Codes) (N : WNames) (dts : List Nat) (d : WDArr) : Prop where
  intent : d.intent ∈ K.intentCodes
  dtype : d.datatype ∈ dts
  order : d.indOrd ∈ [K.ordRow, K.ordCol]
  encoding : d.encoding ∈ [K.encAscii, K.encB64, K.encGz]
  endian : d.endian ∈ [K.endBig, K.endLittle]
  ds : d.coordsys.dataspace ∈ N.xform.map (·.1)
  xs : d.coordsys.xformspace ∈ N.xform.map (·.1)

/-- `agg_data(tuple)`: per element, `None` selects all arrays and anything else is looked up -/
theorem aggDataTupleIn_ok (strs : List (String × Nat)) (ints : List Nat) (ts : Nat) (l : List DA) :
    ∀ (as : List (Option IntentArg)), (∀ a ∈ as, ∀ x, a = some x → (resolveIntentIn strs ints x).isSome) →
    aggDataTupleIn strs ints ts l as = .ok (as.map (fun a => aggOne ts l (a.bind (resolveIntentIn strs ints))))
  | [], _ => rfl
  | a :: as, h => by
    have ih := aggDataTupleIn_ok strs ints ts l as (fun b hb => h b (by simp [hb]))
    unfold aggDataTupleIn at ih ⊢
    rw [List.mapM_cons, ih]
    cases a with
    | none => rfl
    | some x =>
      have := h (some x) (by simp) x rfl
      cases hr : resolveIntentIn strs ints x with
      | none => simp [hr] at this
      | some c => simp [aggDataIn, hr]; rfl


/-! concrete values for the non-vacuity examples of Props/C17 -/
def exX : Ext := ⟨fun t => some (t.map Char.toNat), fun b => some b, fun _ _ _ => some 7⟩
def exD : WDArr :=
  { intent := 1008, datatype := 8, indOrd := 1, encoding := 2, «endian» := 2, dims := [2], extFname := [], extOffset := 0,
    dmeta := [("k<".toList, "v&é".toList)],
    coordsys := { dataspace := 0, xformspace := 3, matrixText := "1 0\n0 1".toList },
    dataText := writeDataBlock (fun b => b.map Char.ofNat) id false false 4 false [2] [1, 4294967295] }
def exW : WImg :=
  { version := "1.0".toList, gmeta := [("a b".toList, []), ("日".toList, "<x>".toList)],
    labels := [{ key := 3, label := "l&".toList, red := some "0.5".toList }], darrays := [exD] }

end Nb.C17
