import NibabelModel.Model.C03_Hist
/-! Lemmas/C03_Hist — invariants of read histories on one proxy (core tactics only). -/
namespace Nb.C03
open Nb Nb.C06

structure HInv {R} (st : HState R) : Prop where
  refs : st.refs = List.range st.cells.length
  len : st.snaps.length = st.cells.length

theorem HInv.alloc {R} {st : HState R} (h : HInv st) (v : R) : HInv (st.alloc v) := by
  constructor
  · simp [HState.alloc, h.refs, List.range_succ]
  · simp [HState.alloc, h.len]

theorem HInv.edit {R} {st : HState R} (h : HInv st) (k : Nat) (g : R → R) : HInv (st.edit k g) := by
  unfold HState.edit
  split
  · constructor
    · simp [h.refs]
    · simp [h.len]
  · exact h

theorem HInv.step {I R} (p : ProxyFns I R) {st : HState R} (h : HInv st) (s : HStep I R) : HInv (histStep p st s) := by
  cases s <;> simp only [histStep]
  · exact h.alloc _
  · exact h.alloc _
  · exact h.edit _ _

theorem foldl_snaps {I R} (p : ProxyFns I R) (steps : List (HStep I R)) (st : HState R) :
    (steps.foldl (histStep p) st).snaps = st.snaps ++ steps.filterMap (HStep.readOf p) := by
  induction steps generalizing st with
  | nil => simp
  | cons s rest ih =>
      rw [List.foldl_cons, ih]
      cases s <;> simp [histStep, HState.alloc, HState.edit, HStep.readOf]
      split <;> rfl

theorem foldl_inv {I R} (p : ProxyFns I R) (steps : List (HStep I R)) (st : HState R) (h : HInv st) :
    HInv (steps.foldl (histStep p) st) := by
  induction steps generalizing st with
  | nil => exact h
  | cons s rest ih => exact ih _ (h.step p s)

def Kept {R} (k : Nat) (st : HState R) : Prop := k < st.cells.length → st.cells[k]? = st.snaps[k]?

theorem kept_step {I R} (p : ProxyFns I R) (k : Nat) {st : HState R} (h : HInv st) (hk : Kept k st)
    (s : HStep I R) (hs : s.isMutOf k = false) : Kept k (histStep p st s) := by
  have hal : ∀ v, Kept k (st.alloc v) := by
    intro v hlt
    simp only [HState.alloc, List.length_append, List.length_singleton] at hlt ⊢
    by_cases h1 : k < st.cells.length
    · rw [List.getElem?_append_left h1, List.getElem?_append_left (by rw [h.len]; exact h1)]
      exact hk h1
    · have : k = st.cells.length := by omega
      subst this
      rw [List.getElem?_append_right (Nat.le_refl _), List.getElem?_append_right (by rw [h.len]; exact Nat.le_refl _)]
      simp [h.len]
  cases s with
  | arr => exact hal _
  | get idx => exact hal _
  | edit j g =>
      simp only [HStep.isMutOf, beq_eq_false_iff_ne, ne_eq] at hs
      simp only [histStep, HState.edit]
      cases hr : st.refs[j]? with
      | none => exact hk
      | some c =>
          have hc : c = j := by
            rw [h.refs] at hr
            obtain ⟨_, h2⟩ := List.getElem?_eq_some_iff.mp hr
            simpa using h2.symm
          subst hc
          intro hlt
          simp only [List.length_modify] at hlt
          simp only [List.getElem?_modify, hs, if_false]
          simpa using hk hlt

theorem foldl_kept {I R} (p : ProxyFns I R) (k : Nat) (steps : List (HStep I R)) (st : HState R) (h : HInv st)
    (hk : Kept k st) (hs : ∀ s ∈ steps, s.isMutOf k = false) : Kept k (steps.foldl (histStep p) st) := by
  induction steps generalizing st with
  | nil => exact hk
  | cons s rest ih =>
      exact ih _ (h.step p s) (kept_step p k h hk s (hs s (by simp))) (fun s' hs' => hs s' (by simp [hs']))


theorem filterMap_congr_mem {α β} (f g : α → Option β) : ∀ (l : List α), (∀ a ∈ l, f a = g a) →
    l.filterMap f = l.filterMap g
  | [], _ => rfl
  | a :: l, h => by
      rw [List.filterMap_cons, List.filterMap_cons, h a (by simp),
        filterMap_congr_mem f g l (fun b hb => h b (by simp [hb]))]


end Nb.C03
