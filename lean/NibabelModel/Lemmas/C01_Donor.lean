import NibabelModel.Model.C01
import NibabelModel.Lemmas.C01
/-! Lemmas/C01_Donor — headers in an arbitrary prior state (a header REUSED from another image). Core only. -/
namespace Nb.C01

theorem setShape_eq_on (r : ShapeRule) (dm gm : Nat) (shape : List Nat) :
    setShape r dm gm shape = setShapeOn r dm gm ⟨[], 0⟩ shape := by
  cases r <;> rfl

theorem natsToInts_length (l : List Nat) : (natsToInts l).length = l.length := by
  simp [natsToInts]

/-- `shape_roundtrip` for a header in any prior state -/
theorem setShapeOn_get (r : ShapeRule) (dimMax glminMax : Nat) (f0 : ShapeFields) (shape : List Nat) (f : ShapeFields)
    (halias : r = .nifti1 → shape.take 3 ≠ [27307, 1, 6])
    (hset : setShapeOn r dimMax glminMax f0 shape = .ok f) :
    getShape r f = .ok (natsToInts shape) ∧ f.dims.length = shape.length := by
  cases r with
  | analyze =>
    simp only [setShapeOn] at hset; rw [storeDims_ok _ _ _ _ hset]
    exact ⟨rfl, natsToInts_length shape⟩
  | nifti2 =>
    simp only [setShapeOn] at hset; rw [storeDims_ok _ _ _ _ hset]
    exact ⟨rfl, natsToInts_length shape⟩
  | nifti1 =>
    have hal := halias rfl
    simp only [setShapeOn] at hset
    split at hset
    · next h1 =>
      rw [storeDims_ok _ _ _ _ hset]
      have : shape = [163842, 1, 1] ++ shape.drop 3 := by
        conv => lhs; rw [← List.take_append_drop 3 shape, h1]
      constructor
      · rw [this]
        simp [getShape, natsToInts]
      · conv => rhs; rw [this]
        simp [natsToInts]
    · next h1 =>
      split at hset
      · next h2 =>
        obtain ⟨hlen, h11, hbig⟩ := h2
        split at hset
        · cases hset
        · rw [storeDims_ok _ _ _ _ hset]
          match shape, hlen, h11, hbig with
          | a :: b :: c :: rest, _, h11, hbig =>
            simp at h11
            obtain ⟨hb, hc⟩ := h11
            subst hb; subst hc
            simp at hbig
            have ha : a ≠ 0 := by omega
            simp [getShape, natsToInts, ha]
      · next h2 =>
        rw [storeDims_ok _ _ _ _ hset]
        refine ⟨?_, natsToInts_length shape⟩
        unfold getShape
        simp only []
        have hneg : (natsToInts shape).take 3 ≠ [-1, 1, 1] := by
          rw [natsToInts_take]
          intro h
          match hs : shape.take 3, h with
          | [], h => simp [natsToInts] at h
          | x :: _, h => simp [natsToInts] at h
        have hico : (natsToInts shape).take 3 ≠ [27307, 1, 6] := by
          rw [natsToInts_take]
          intro h
          exact hal (natsToInts_inj _ [27307, 1, 6] h)
        rw [if_neg hneg, if_neg hico]

theorem natsToInts_toNat (l : List Nat) : (natsToInts l).map Int.toNat = l := by
  induction l with
  | nil => rfl
  | cons a t ih => simp only [natsToInts, List.map_cons, List.map_map] at ih ⊢; rw [ih]; rfl

/-! ### owners of an array's memory (`maps_file`) -/

theorem maps_file_arrays_only_iff (chain : List BaseNode) :
    mapsFileArraysOnly chain = true ↔ ReachesMapThroughArrays chain := by
  induction chain with
  | nil =>
    simp only [mapsFileArraysOnly, Bool.false_eq_true, false_iff]
    rintro ⟨pre, x, post, h, _, _⟩
    cases pre <;> simp at h
  | cons n rest ih =>
    cases n with
    | memmap =>
      simp only [mapsFileArraysOnly, true_iff]
      exact ⟨[], .memmap, rest, rfl, by simp, Or.inl rfl⟩
    | mmapBuf =>
      simp only [mapsFileArraysOnly, true_iff]
      exact ⟨[], .mmapBuf, rest, rfl, by simp, Or.inr rfl⟩
    | other =>
      simp only [mapsFileArraysOnly, Bool.false_eq_true, false_iff]
      rintro ⟨pre, x, post, h, hpre, hx⟩
      cases pre with
      | nil => simp at h; rcases hx with hx | hx <;> (rw [hx] at h; exact absurd h.1 (by decide))
      | cons p ps =>
        simp at h
        have := hpre p (by simp)
        rw [this] at h
        exact absurd h.1 (by decide)
    | memview =>
      simp only [mapsFileArraysOnly, Bool.false_eq_true, false_iff]
      rintro ⟨pre, x, post, h, hpre, hx⟩
      cases pre with
      | nil => simp at h; rcases hx with hx | hx <;> (rw [hx] at h; exact absurd h.1 (by decide))
      | cons p ps =>
        simp at h
        have := hpre p (by simp)
        rw [this] at h
        exact absurd h.1 (by decide)
    | ndarray =>
      simp only [mapsFileArraysOnly]
      rw [ih]
      constructor
      · rintro ⟨pre, x, post, h, hpre, hx⟩
        refine ⟨.ndarray :: pre, x, post, by simp [h], ?_, hx⟩
        intro m hm
        simp at hm
        rcases hm with hm | hm
        · exact hm
        · exact hpre m hm
      · rintro ⟨pre, x, post, h, hpre, hx⟩
        cases pre with
        | nil => simp at h; rcases hx with hx | hx <;> (rw [hx] at h; exact absurd h.1 (by decide))
        | cons p ps =>
          simp at h
          exact ⟨ps, x, post, h.2, fun m hm => hpre m (by simp [hm]), hx⟩

theorem reachesMap_of_throughArrays (chain : List BaseNode) (h : ReachesMapThroughArrays chain) : ReachesMap chain := by
  obtain ⟨pre, x, post, hc, _, hx⟩ := h
  exact ⟨x, by rw [hc]; simp, hx⟩

/-! ### data-type code tables -/

theorem find?_mem' {α} (p : α → Bool) : ∀ (l : List α) (a : α), l.find? p = some a → a ∈ l ∧ p a = true
  | [], a, h => by simp at h
  | x :: xs, a, h => by
      simp only [List.find?] at h
      split at h
      · next hp => cases h; exact ⟨by simp, hp⟩
      · have := find?_mem' p xs a h
        exact ⟨by simp [this.1], this.2⟩

theorem codeTable_ok (tb : CodeTable) (hok : tb.okB = true) (t : DType) (c : Nat)
    (h : codeOf tb t = some c) : dtypeOfCode tb c = some t := by
  unfold codeOf at h
  cases hf : tb.find? (fun p => p.1 == t) with
  | none => rw [hf] at h; simp at h
  | some p =>
    rw [hf] at h
    simp at h
    obtain ⟨hm, hp⟩ := find?_mem' _ tb p hf
    have hpt : p.1 = t := by simpa using hp
    unfold CodeTable.okB at hok
    rw [List.all_eq_true] at hok
    have := hok p hm
    simp only [Bool.and_eq_true, beq_iff_eq] at this
    rw [← h, ← hpt]
    exact this.1

/-! ### MGH -/

theorem mghGet_set (shape : List Nat) :
    (mghSetDims shape).map mghGetShape = mghHeaderShape shape := by
  unfold mghSetDims mghHeaderShape mghGetShape
  by_cases h : shape.length > 4
  · simp [h, Except.map]
  · simp only [h, if_false, Except.map]
    split <;> rfl

/-- a header shape that equals the data shape is what set-then-get gives too -/
theorem mghGet_fixed (dims0 : List Nat) (h4 : dims0.length = 4) :
    mghHeaderShape (mghGetShape dims0) = .ok (mghGetShape dims0) := by
  match dims0, h4 with
  | [a, b, c, d], _ =>
    by_cases hd : d = 1
    · subst hd; simp [mghGetShape, mghHeaderShape]
    · simp [mghGetShape, mghHeaderShape, hd]

theorem mghUpdate_get (dims0 shape : List Nat) (h4 : dims0.length = 4) :
    (mghUpdate dims0 shape).map mghGetShape = mghHeaderShape shape := by
  unfold mghUpdate
  split
  · next heq =>
    rw [← heq, mghGet_fixed dims0 h4]; rfl
  · exact mghGet_set shape

theorem mghWriteOn_eq (dims0 hdr ftr : List Nat) (cw : Nat) (s : List Nat) (A : List Nat → Elem)
    (h4 : dims0.length = 4) :
    (mghWriteOn dims0 hdr ftr cw s A).map (·.2) = mghWrite hdr ftr cw s A := by
  have h := mghUpdate_get dims0 s h4
  unfold mghWriteOn mghWrite
  cases hu : mghUpdate dims0 s with
  | error e =>
    rw [hu] at h
    simp only [Except.map] at h
    rw [← h]; rfl
  | ok dims =>
    rw [hu] at h
    simp only [Except.map] at h
    rw [← h]
    simp only []
    split <;> rfl

end Nb.C01
