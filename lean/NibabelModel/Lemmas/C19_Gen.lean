import NibabelModel.Lemmas.C19_Annot
import NibabelModel.Lemmas.C19_Resave
/-! Lemmas/C19_Gen — statements over constants regenerated from the source (`_pack_rgb` shifts, `write_morph_data`
    limits) and the bridge lemmas between the old and the repaired `write_annot` lookup (core Lean only). -/
namespace Nb.C19
open Nb.Gen.C19

/-- `rgb.dot(2 ** shifts)` for one row, over the REGENERATED shift list -/
def dotShifts : List Int → List Nat → Int
  | x :: xs, s :: ss => x * (2 : Int) ^ s + dotShifts xs ss
  | _, _ => 0

theorem pack_rgb_generated_aux (r g b : Int) : packRgb r g b = dotShifts [r, g, b] packShifts := by
  simp only [packShifts, dotShifts, packRgb]; omega

theorem morph_writer_limits_generated_aux (shape : List Nat) (vals : List Nat) (fnum : Int) :
    (∃ f, writeMorph shape vals fnum = .ok f) ↔
      (morphAccepts shape = true ∧ (prod shape : Int) ≤ morphCountMax ∧ morphFnumMin ≤ fnum ∧ fnum ≤ morphFnumMax) := by
  unfold writeMorph
  simp only [morphCountMax, morphFnumMin, morphFnumMax]
  by_cases h1 : morphAccepts shape = true
  · by_cases h2 : prod shape > 2147483647
    · simp [h1, h2]; omega
    · by_cases h3 : inI32 fnum = true
      · have := (inI32_iff fnum).mp h3
        simp [h1, h2, h3]; omega
      · have h3' : ¬ (-2147483648 ≤ fnum ∧ fnum < 2147483648) := fun h => h3 ((inI32_iff fnum).mpr h)
        simp [h1, h2, h3]; omega
  · simp [h1]

theorem clutLabelFixed_conservative (avals : List Int) (l c : Int) (h : clutLabel avals l = .ok c) :
    clutLabelFixed avals l = .ok c := by
  unfold clutLabel at h
  unfold clutLabelFixed
  split at h
  · rename_i a ha
    simp only [Except.ok.injEq] at h
    split
    · rename_i hl; simp [hl] at h; rw [h]
    · rename_i hl; simp [hl] at h; rw [ha, h]
  · cases h

theorem clutLabelsFixed_conservative (avals : List Int) (ls cs : List Int) (h : clutLabels avals ls = .ok cs) :
    clutLabelsFixed avals ls = .ok cs := by
  induction ls generalizing cs with
  | nil => simpa [clutLabels, clutLabelsFixed] using h
  | cons l t ih =>
    unfold clutLabels at h
    unfold clutLabelsFixed
    split at h
    · rename_i c hc
      split at h
      · rename_i cs' hcs
        rw [clutLabelFixed_conservative _ _ _ hc, ih _ hcs]
        exact h
      · cases h
    · cases h

theorem clutLabelsFixed_unlabeled (avals : List Int) (n : Nat) :
    clutLabelsFixed avals (List.replicate n (-1)) = .ok (List.replicate n 0) := by
  induction n with
  | zero => rfl
  | succ n ih => simp [List.replicate_succ, clutLabelsFixed, clutLabelFixed, ih]
end Nb.C19
