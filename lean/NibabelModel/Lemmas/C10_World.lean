import NibabelModel.Model.C10
/-! Lemmas/C10_World — writes through an object only touch the buffer it views. -/
namespace Nb.C10

theorem World.setObj_objs (L : Layout) (w : World) (i : Nat) (n : String) (v : List Nat) :
    (w.setObj L i n v).objs = w.objs := by
  unfold World.setObj; split <;> rfl

theorem World.setObj_bufs_length (L : Layout) (w : World) (i : Nat) (n : String) (v : List Nat) :
    (w.setObj L i n v).bufs.length = w.bufs.length := by
  unfold World.setObj; split <;> simp

/-- a write through `i` leaves every buffer other than the one `i` views as it was -/
theorem World.setObj_other_buf (L : Layout) (w : World) (i : Nat) (n : String) (v : List Nat) (b : Nat)
    (hb : b ≠ (w.objs.getD i default).buf) : (w.setObj L i n v).bufs.getD b [] = w.bufs.getD b [] := by
  unfold World.setObj
  split
  · have hb' : ¬ (w.objs.getD i default).buf = b := fun h => hb h.symm
    simp only [List.getD_eq_getElem?_getD] at hb' ⊢
    simp [List.getElem?_set, hb']
  · rfl

theorem World.setMany_objs (L : Layout) (w : World) (i : Nat) (ws : List (String × List Nat)) :
    (w.setMany L i ws).objs = w.objs := by
  unfold World.setMany
  induction ws generalizing w with
  | nil => rfl
  | cons x ws ih => simp only [List.foldl_cons]; rw [ih, World.setObj_objs]

theorem World.setMany_other_buf (L : Layout) (w : World) (i : Nat) (ws : List (String × List Nat)) (b : Nat)
    (hb : b ≠ (w.objs.getD i default).buf) : (w.setMany L i ws).bufs.getD b [] = w.bufs.getD b [] := by
  unfold World.setMany
  induction ws generalizing w with
  | nil => rfl
  | cons x ws ih =>
    simp only [List.foldl_cons]
    rw [ih _ (by rw [World.setObj_objs]; exact hb), World.setObj_other_buf L w i _ _ b hb]

/-- an object whose buffer is not the written one denotes the same header afterwards -/
theorem World.setMany_hdr_other (L : Layout) (w : World) (i k : Nat) (ws : List (String × List Nat))
    (hb : (w.objs.getD k default).buf ≠ (w.objs.getD i default).buf) :
    (w.setMany L i ws).hdr k = w.hdr k := by
  unfold World.hdr
  rw [World.setMany_objs, World.setMany_other_buf L w i ws _ hb]

end Nb.C10
