/-
  Lemmas/C13_GenProxy — stage T for `ArrayProxy.__init__`'s `spec` handling: the statements translated from the
  CURRENT `nibabel/arrayproxy.py` (`Generated/C13Funcs.lean: proxy_spec`) compute, for every header object (slope and
  intercept independently present or `None`) and every tuple spec (any length), exactly the hand-written
  `ProxySpec.par` — in particular the values `Par.ofHdr` gives the model's proxy.
-/
import NibabelModel.Model.C13_Py
import NibabelModel.Lemmas.PyVal
import NibabelModel.Lemmas.C13_Gen
set_option linter.unusedSimpArgs false
set_option linter.unusedVariables false
namespace Nb.C13
open Nb Nb.Py Nb.C13.PyEnc

theorem gen_proxy_spec_eq (sp : ProxySpec) : gProxySpec sp = some sp.par := by
  have c1 : Gen.C13.proxyNoneSlope = 1 := by decide
  have c2 : Gen.C13.proxyNoneInter = 0 := by decide
  have c3 : Gen.C13.proxyTupleOffset = 0 := by decide
  have c4 : Gen.C13.proxyTupleSlope = 1 := by decide
  have c5 : Gen.C13.proxyTupleInter = 0 := by decide
  cases sp with
  | header s i n dt off =>
    unfold gProxySpec Gen.C13F.proxy_spec
    cases s <;> cases i <;>
      simp [encSpec, primsSpec, specCall, hdrField?, V.getNat, encOptInt, ProxySpec.par, c1, c2,
        V.setItem, V.dictSet, V.getItem, V.dictGet?, decPPar?, V.getItemSeq, V.len, V.asList]
  | tuple n dt rest =>
    unfold gProxySpec Gen.C13F.proxy_spec
    match rest with
    | [] =>
      simp [encSpec, encShape, primsSpec, specCall, hdrField?, V.getNat, ProxySpec.par, c3, c4, c5, PyC13.add,
        V.isSeq, V.extend, V.dropFrom, V.dropNat,
        V.setItem, V.dictSet, V.getItem, V.dictGet?, decPPar?, V.getItemSeq, V.len, V.asList]
    | [a] =>
      simp [encSpec, encShape, primsSpec, specCall, hdrField?, V.getNat, ProxySpec.par, c3, c4, c5, PyC13.add,
        V.isSeq, V.extend, V.dropFrom, V.dropNat,
        V.setItem, V.dictSet, V.getItem, V.dictGet?, decPPar?, V.getItemSeq, V.len, V.asList]
    | [a, b] =>
      simp [encSpec, encShape, primsSpec, specCall, hdrField?, V.getNat, ProxySpec.par, c3, c4, c5, PyC13.add,
        V.isSeq, V.extend, V.dropFrom, V.dropNat,
        V.setItem, V.dictSet, V.getItem, V.dictGet?, decPPar?, V.getItemSeq, V.len, V.asList]
    | [a, b, c] =>
      simp [encSpec, encShape, primsSpec, specCall, hdrField?, V.getNat, ProxySpec.par, c3, c4, c5, PyC13.add,
        V.isSeq, V.extend, V.dropFrom, V.dropNat,
        V.setItem, V.dictSet, V.getItem, V.dictGet?, decPPar?, V.getItemSeq, V.len, V.asList]
    | a :: b :: c :: d :: tl =>
      have hl : ¬ ((tl.length : Int) + 1 + 1 + 1 + 1 + 1 + 1 ≤ 5) := by omega
      simp [encSpec, encShape, primsSpec, specCall, hdrField?, V.getNat, ProxySpec.par, V.len, V.len_ofList, hl]
  | short w n =>
    unfold gProxySpec Gen.C13F.proxy_spec
    cases w <;>
      simp [encSpec, encShape, primsSpec, specCall, hdrField?, V.getNat, ProxySpec.par, V.len]

theorem gen_proxy_spec_header (h : Hdr) (io : IOp) (off : Int) :
    gProxySpec (.header (h.scale.map (·.1)) (h.scale.map (·.2)) h.n h.dt off)
      = some (.ok ⟨h.n, (Par.ofHdr h io).dt, off, (Par.ofHdr h io).slope, (Par.ofHdr h io).inter⟩) := by
  rw [gen_proxy_spec_eq]
  cases hs : h.scale with
  | none => simp [ProxySpec.par, Par.ofHdr, hs]
  | some si => obtain ⟨s, i⟩ := si; simp [ProxySpec.par, Par.ofHdr, hs]

theorem gen_proxy_spec_tuple (n : Nat) (dt : DT) (rest : List Int) :
    gProxySpec (.tuple n dt rest) =
      some (if rest.length ≤ 3 then .ok ⟨n, dt, rest[0]?.getD 0, rest[1]?.getD 1, rest[2]?.getD 0⟩
            else .error .typeError) ∧
    ∀ w, gProxySpec (.short w n) = some (.error .typeError) := by
  refine ⟨?_, fun w => by rw [gen_proxy_spec_eq]; rfl⟩
  rw [gen_proxy_spec_eq]
  have c3 : Gen.C13.proxyTupleOffset = 0 := by decide
  have c4 : Gen.C13.proxyTupleSlope = 1 := by decide
  have c5 : Gen.C13.proxyTupleInter = 0 := by decide
  match rest with
  | [] => simp [ProxySpec.par, c3, c4, c5]
  | [a] => simp [ProxySpec.par, c3, c4, c5]
  | [a, b] => simp [ProxySpec.par, c3, c4, c5]
  | [a, b, c] => simp [ProxySpec.par, c3, c4, c5]
  | a :: b :: c :: d :: tl => simp [ProxySpec.par]


end Nb.C13
