import NibabelModel.Model.C17
import NibabelModel.Generated.C17Codes
/-! Lemmas/C17_GenTables — complete checks (kernel evaluation, `decide +kernel`) of the REGENERATED `Recoder` tables
    `Gen.codes` (parser side: alias → code) against `Gen.names` (writer side: code → emitted name).  Kept in their
    own file because evaluating ~2500 `String` comparisons in the kernel takes some seconds; rebuilt only when the
    generated tables change. -/
namespace Nb.C17

/-- the name the writer emits for every integer intent code is an alias the parser maps back to the code -/
theorem gen_intent_names : ∀ c ∈ Gen.codes.intentCodes,
    lookup Gen.codes.intent (nameOf Gen.names.intent c) = some c := by
  decide +kernel

theorem gen_writer_names :
    (∀ c ∈ Gen.giftiDtypes, lookup Gen.codes.dtype (nameOf Gen.names.dtype c) = some c) ∧
    (∀ c ∈ [Gen.codes.ordRow, Gen.codes.ordCol], lookup Gen.codes.order (nameOf Gen.names.order c) = some c) ∧
    (∀ c ∈ [Gen.codes.encAscii, Gen.codes.encB64, Gen.codes.encGz],
        lookup Gen.codes.encoding (nameOf Gen.names.encoding c) = some c) ∧
    (∀ c ∈ [Gen.codes.endBig, Gen.codes.endLittle], lookup Gen.codes.endian (nameOf Gen.names.endian c) = some c) ∧
    (∀ c ∈ Gen.names.xform.map (·.1), nameOf Gen.names.xform c ≠ [] ∧
        lookup Gen.codes.xform (strip (nameOf Gen.names.xform c)) = some c) := by
  decide +kernel

/-- an integer that is a code of the table resolves to itself (0 included: no truthiness involved) -/
theorem resolveIntentIn_code (strs : List (String × Nat)) (ints : List Nat) (c : Nat) (h : c ∈ ints) :
    resolveIntentIn strs ints (.code c) = some c := by
  simp [resolveIntentIn, h]

/-- a string argument is looked up exactly like an XML attribute value -/
theorem resolveIntent_name (K : Codes) (s : Text) : resolveIntent K (.name s) = lookup K.intent s := rfl

end Nb.C17
