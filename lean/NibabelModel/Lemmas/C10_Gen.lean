import NibabelModel.Lemmas.C10
import NibabelModel.Lemmas.C10_Checks
import NibabelModel.Generated.C10Layouts
import NibabelModel.Generated.C10Codes
/-! Lemmas/C10_Gen — endianness guessing lemmas and the decidable side conditions checked on the
    regenerated tables. -/
namespace Nb.C10

/-! ### signed reading -/

theorem toInt_cases (w v : Nat) (hv : v < 256 ^ w) :
    (toInt w v = (v : Int) ∧ 2 * v < 256 ^ w) ∨ (toInt w v < 0 ∧ 256 ^ w ≤ 2 * v) := by
  unfold toInt
  generalize 256 ^ w = X at *
  split
  · exact Or.inl ⟨rfl, by assumption⟩
  · exact Or.inr ⟨by omega, by omega⟩

theorem toInt_small (w v : Nat) (h : 2 * v < 256 ^ w) : toInt w v = (v : Int) := by
  unfold toInt; simp [h]

/-! ### a small value read in the wrong byte order -/

/-- bytes whose little-endian value is a single low byte `d`: reversed they read `d * 256^(w-1)` -/
theorem decLE_reverse_small (bs : List Byte) (d : Nat) (hd : d < 256) (h : decLE bs = d) (hw : 1 ≤ bs.length) :
    decLE bs.reverse = d * 256 ^ (bs.length - 1) := by
  cases bs with
  | nil => simp at hw
  | cons b rest =>
    simp only [decLE] at h
    have hb := b.toNat_lt
    have hr : decLE rest = 0 := by omega
    have hbd : b.toNat = d := by omega
    have hz := decLE_eq_zero hr
    have hrev : decLE rest.reverse = 0 :=
      decLE_zero_of_all (fun x hx => hz x (List.mem_reverse.mp hx))
    simp only [List.reverse_cons, decLE_append, hrev, List.length_reverse, decLE, List.length_cons,
      Nat.add_sub_cancel, hbd, Nat.mul_zero, Nat.add_zero, Nat.zero_add]
    exact Nat.mul_comm ..

theorem dec_swap_small (e : Endian) (bs : List Byte) (d : Nat) (hd : d < 256) (h : dec e bs = d)
    (hw : 1 ≤ bs.length) : dec e.swap bs = d * 256 ^ (bs.length - 1) := by
  cases e
  · have := decLE_reverse_small bs d hd h hw
    simpa [dec, Endian.swap] using this
  · have := decLE_reverse_small bs.reverse d hd (by simpa [dec] using h) (by simpa using hw)
    simpa [dec, Endian.swap] using this

theorem dec_swap_zero (e : Endian) (bs : List Byte) (h : dec e bs = 0) : dec e.swap bs = 0 := by
  cases e
  · have hz := decLE_eq_zero (by simpa [dec] using h : decLE bs = 0)
    simp only [dec, Endian.swap]
    exact decLE_zero_of_all (fun x hx => hz x (List.mem_reverse.mp hx))
  · have hz := decLE_eq_zero (by simpa [dec] using h : decLE bs.reverse = 0)
    simp only [dec, Endian.swap]
    exact decLE_zero_of_all (fun x hx => hz x (List.mem_reverse.mpr hx))

theorem Endian.eq_or_swap (a b : Endian) : a = b ∨ (a = b.swap ∧ a.swap = b) := by
  cases a <;> cases b <;> simp [Endian.swap]

theorem pow256_pos (w : Nat) : 0 < 256 ^ w := Nat.pow_pos (by decide)

/-- a value in 1..7 stored in `w ≥ 2` bytes reads, in the other byte order, as a number that is
    neither 0 nor in 1..7 (as a signed integer) -/
theorem swapped_small_not_small (e : Endian) (bs : List Byte) (hw : 2 ≤ bs.length) (d : Nat)
    (hd1 : 1 ≤ d) (hd7 : d ≤ 7) (h : dec e bs = d) :
    toInt bs.length (dec e.swap bs) ≠ 0 ∧ ¬ (1 ≤ toInt bs.length (dec e.swap bs) ∧ toInt bs.length (dec e.swap bs) ≤ 7) := by
  have hs := dec_swap_small e bs d (by omega) h (by omega)
  obtain ⟨m, hm⟩ : ∃ m, bs.length = m + 2 := ⟨bs.length - 2, by omega⟩
  have hp : 256 ^ bs.length = 256 * 256 * 256 ^ m := by
    rw [hm, Nat.pow_succ, Nat.pow_succ]; generalize 256 ^ m = X; omega
  have hp1 : 256 ^ (bs.length - 1) = 256 * 256 ^ m := by
    rw [hm, show m + 2 - 1 = m + 1 by omega, Nat.pow_succ]; exact Nat.mul_comm ..
  have hpos := pow256_pos m
  have hX : dec e.swap bs = d * (256 * 256 ^ m) := by rw [hs, hp1]
  have hsmall : 2 * dec e.swap bs < 256 ^ bs.length := by
    rw [hX, hp]
    generalize 256 ^ m = X at *
    have : d * (256 * X) ≤ 7 * (256 * X) := Nat.mul_le_mul_right _ hd7
    omega
  rw [toInt_small _ _ hsmall, hX]
  generalize 256 ^ m = X at *
  have : 1 * (256 * X) ≤ d * (256 * X) := Nat.mul_le_mul_right _ hd1
  constructor <;> omega

/-! ### decidable side conditions over the generated tables -/

def layoutsWf : Bool := Gen.layouts.all (·.wf)

def namesDistinct (L : Layout) : Bool := decide (L.fields.map (·.name)).Nodup

def classGuessOk (c : ClsSpec) : Bool :=
  match Gen.layoutOf? c.layout with
  | none => false
  | some L =>
    match c.guess with
    | .analyze sz =>
        (match L.guessSpec? sz with
         | some g => g.ok L.size
         | none => false)
    | .ecat =>
        (match L.find? "sw_version" with
         | some f => f.iw == 2 && decide (f.offset + 2 ≤ L.size)
         | none => false)
    | .bigEndian => true

def classOk (c : ClsSpec) : Bool :=
  c.ok && decide c.checks.Nodup && classGuessOk c &&
  (match Gen.layoutOf? c.layout with
   | some L => L.wf
   | none => false)

end Nb.C10
