import NibabelModel.Lemmas.C08
/-! Lemmas/C08_Vol — volume readers on prefixes. -/
namespace Nb.C08

/-- whatever the sniff / extension / footer phases do, a successful header phase has read a complete
    header block and returns the two fields decoded from it -/
theorem readHeader_ok {fmt : VolFmt} {single : Bool} {s : Src} {n off : Nat}
    (h : readHeader fmt single s = .ok (n, off)) :
    ∃ hb, s.read 0 fmt.hdrSize = .ok hb ∧ hb.length = fmt.hdrSize ∧
      n = rdLE hb 0 8 ∧ off = fmt.fixedOff.getD (rdLE hb 8 8) := by
  unfold readHeader at h
  split at h
  · cases h
  · split at h
    · cases h
    · rename_i hb hrd
      split at h
      · cases h
      · rename_i hlen
        refine ⟨hb, hrd, by simpa using hlen, ?_⟩
        simp only at h
        split at h
        · cases h
        · split at h
          · cases h; exact ⟨rfl, rfl⟩
          · split at h
            · cases h
            · cases h; exact ⟨rfl, rfl⟩

theorem rdLE_hdr0 (a b : Nat) (fill : Bytes) (ha : a < 2 ^ 64) :
    rdLE (leN 8 a ++ leN 8 b ++ fill) 0 8 = a := by
  unfold rdLE
  have : ((leN 8 a ++ leN 8 b ++ fill).drop 0).take 8 = leN 8 a := by
    simp [List.append_assoc, List.take_append_of_le_length, leN_length]
  rw [this, deLE_leN]; simpa using ha

theorem rdLE_hdr8 (a b : Nat) (fill : Bytes) (hb : b < 2 ^ 64) :
    rdLE (leN 8 a ++ leN 8 b ++ fill) 8 8 = b := by
  unfold rdLE
  have : ((leN 8 a ++ leN 8 b ++ fill).drop 8).take 8 = leN 8 b := by
    rw [List.append_assoc, List.drop_append_of_le_length (by simp [leN_length])]
    have : (leN 8 a).drop 8 = [] := by
      apply List.drop_eq_nil_of_le; simp [leN_length]
    rw [this]; simp [List.take_append_of_le_length, leN_length]
  rw [this, deLE_leN]; simpa using hb

/-- the header block read from any prefix of a file that starts with the block is the block itself -/
theorem hdr_of_prefix (blk rest : Bytes) (m : Nat) (st : Bool) (hb : Bytes)
    (h : (⟨(blk ++ rest).take m, st⟩ : Src).read 0 blk.length = .ok hb) (hl : hb.length = blk.length) :
    hb = blk ∨ blk = [] := by
  have := read_ok h
  simp only [List.drop_zero] at this
  subst this
  rcases take_take_len (blk ++ rest) m blk.length hl with ⟨h1, _⟩ | h0
  · left; rw [h1]; simp
  · right; exact List.eq_nil_of_length_eq_zero h0

/-- reading `n > 0` data bytes at `off` from a prefix of `pre ++ data ++ tail` (|pre| = off, |data| = n)
    either fails or returns `data`, the latter only if the prefix contains all of the data -/
theorem readData_prefix (um : Bool) (pre data tail : Bytes) (m : Nat) (st : Bool) :
    let r := readData um ⟨(pre ++ data ++ tail).take m, st⟩ pre.length data.length
    (r = .ok data ∨ ∃ e, r = .error e) ∧
      (r = .ok data → data = [] ∨ pre.length + data.length ≤ m) := by
  intro r
  by_cases hd : data = []
  · subst hd
    have : r = .ok [] := by
      simp only [r, readData, dataMmap, dataRead]; simp
    exact ⟨Or.inl this, fun _ => Or.inl rfl⟩
  have hn : 0 < data.length := List.length_pos_iff.mpr hd
  have key : ∀ b, b = (((pre ++ data ++ tail).take m).drop pre.length).take data.length →
      b.length = data.length → b = data ∧ pre.length + data.length ≤ m := by
    intro b hb hl
    subst hb
    obtain ⟨h1, h2⟩ := drop_take_len _ m pre.length data.length hl hn
    refine ⟨?_, h2⟩
    rw [h1, List.append_assoc, List.drop_left]; simp
  have hread : ∀ r', dataRead ⟨(pre ++ data ++ tail).take m, st⟩ pre.length data.length = r' →
      (r' = .ok data ∧ pre.length + data.length ≤ m) ∨ ∃ e, r' = .error e := by
    intro r' hr
    unfold dataRead at hr
    rw [if_neg (by omega)] at hr
    split at hr
    · right; exact ⟨_, hr.symm⟩
    · rename_i b hb
      split at hr
      · right; exact ⟨_, hr.symm⟩
      · rename_i hl
        left
        have := key b (read_ok hb) (by simpa using hl)
        exact ⟨by rw [← hr, this.1], this.2⟩
  have hall : (r = .ok data ∧ pre.length + data.length ≤ m) ∨ ∃ e, r = .error e := by
    simp only [r, readData]
    cases um
    · simpa using hread _ rfl
    · simp only [if_true, dataMmap]
      split
      · rename_i hc
        left
        have hl : ((((pre ++ data ++ tail).take m).drop pre.length).take data.length).length
            = data.length := by
          simp only [List.length_take, List.length_drop] at hc ⊢; omega
        have := key _ rfl hl
        exact ⟨by rw [this.1], this.2⟩
      · exact hread _ rfl
  rcases hall with ⟨h1, h2⟩ | ⟨e, he⟩
  · exact ⟨Or.inl h1, fun _ => Or.inr h2⟩
  · exact ⟨Or.inr ⟨e, he⟩, fun h => by rw [he] at h; cases h⟩

/-- one segment read through `read_segments` from a prefix: error or exactly the segment -/
theorem segRead_prefix (pre d tail : Bytes) (m : Nat) (st : Bool) :
    let r := segRead ⟨(pre ++ d ++ tail).take m, st⟩ pre.length d.length
    r = .ok d ∨ ∃ e, r = .error e := by
  intro r
  simp only [r, segRead]
  split
  · right; exact ⟨_, rfl⟩
  · rename_i b hb
    split
    · right; exact ⟨_, rfl⟩
    · rename_i hl
      left
      have hb' := read_ok hb
      simp only [ne_eq, Decidable.not_not] at hl
      by_cases hd : d = []
      · subst hd; simp at hl; rw [hl]
      · have hn : 0 < d.length := List.length_pos_iff.mpr hd
        subst hb'
        obtain ⟨h1, _⟩ := drop_take_len _ m pre.length d.length hl hn
        rw [h1, List.append_assoc, List.drop_left]; simp

/-- the multi-segment loop on a prefix source: never more than requested, and if nothing is missing
    then every segment came back complete — equal to the same bytes of the whole file and inside the
    prefix -/
theorem readSegsLoop_prefix (file : Bytes) (m : Nat) (st : Bool) :
    ∀ (segs : List (Nat × Nat)) (b : Bytes), readSegsLoop ⟨file.take m, st⟩ segs = .ok b →
      b.length ≤ segsTotal segs ∧
      (b.length = segsTotal segs → b = sliceBytes file segs ∧ ∀ sg ∈ segs, 0 < sg.2 → sg.1 + sg.2 ≤ m) := by
  intro segs
  induction segs with
  | nil =>
    intro b h
    simp only [readSegsLoop] at h
    cases h
    simp [segsTotal, sliceBytes]
  | cons sg r ih =>
    intro b h
    obtain ⟨o, l⟩ := sg
    simp only [readSegsLoop] at h
    split at h
    · cases h
    · rename_i b1 hb1
      split at h
      · cases h
      · rename_i bs hbs
        cases h
        have hb1' := read_ok hb1
        have hl1 : b1.length ≤ l := by rw [hb1']; simp only [List.length_take]; omega
        obtain ⟨ih1, ih2⟩ := ih bs hbs
        have htot : segsTotal ((o, l) :: r) = l + segsTotal r := by simp [segsTotal]
        rw [htot, List.length_append]
        refine ⟨by omega, fun heq => ?_⟩
        have h1 : b1.length = l := by omega
        have h2 : bs.length = segsTotal r := by omega
        obtain ⟨e2, r2⟩ := ih2 h2
        have hs : sliceBytes file ((o, l) :: r) = (file.drop o).take l ++ sliceBytes file r := by
          simp [sliceBytes]
        by_cases hl0 : l = 0
        · subst hl0
          have : b1 = [] := List.eq_nil_of_length_eq_zero h1
          rw [hs, this, e2]
          refine ⟨by simp, ?_⟩
          intro sg hsg hpos
          simp only [List.mem_cons] at hsg
          rcases hsg with h | h
          · subst h; simp at hpos
          · exact r2 sg h hpos
        · have hpos : 0 < l := by omega
          rw [hb1'] at h1
          obtain ⟨e1, r1⟩ := drop_take_len file m o l h1 hpos
          rw [hs, hb1', e1, e2]
          refine ⟨rfl, ?_⟩
          intro sg hsg hp
          simp only [List.mem_cons] at hsg
          rcases hsg with h | h
          · subst h; exact r1
          · exact r2 sg h hp

/-- **`read_segments` on a prefix**: raises, or returns exactly the bytes the complete file holds at
    the segments — and then every non-empty segment, the LAST one included, lies inside the prefix -/
theorem readSegments_prefix (file : Bytes) (m : Nat) (st : Bool) (segs : List (Nat × Nat)) :
    let r := readSegments ⟨file.take m, st⟩ segs (segsTotal segs)
    (r = .ok (sliceBytes file segs) ∨ ∃ e, r = .error e) ∧
    (r = .ok (sliceBytes file segs) → ∀ sg ∈ segs, 0 < sg.2 → sg.1 + sg.2 ≤ m) := by
  intro r
  simp only [r, readSegments]
  split
  · exact ⟨Or.inr ⟨_, rfl⟩, fun h => by cases h⟩
  · rename_i b hb
    obtain ⟨_, h2⟩ := readSegsLoop_prefix file m st segs b hb
    split
    · exact ⟨Or.inr ⟨_, rfl⟩, fun h => by cases h⟩
    · rename_i hl
      simp only [ne_eq, Decidable.not_not] at hl
      obtain ⟨e, rr⟩ := h2 hl
      exact ⟨Or.inl (by rw [e]), fun _ => rr⟩

/-- fields returned by a successful header phase on any prefix of a file starting with the header block -/
theorem header_fields (fmt : VolFmt) (img : Img) (vo : Nat) (rest : Bytes) (single : Bool) (m : Nat)
    (st : Bool) (n off : Nat) (hH : fmt.hdrSize = 16 + img.fill.length) (hd : img.data.length < 2 ^ 64)
    (hv : vo < 2 ^ 64)
    (h : readHeader fmt single ⟨(hdrBlock img vo ++ rest).take m, st⟩ = .ok (n, off)) :
    n = img.data.length ∧ off = fmt.fixedOff.getD vo ∧ fmt.hdrSize ≤ m := by
  obtain ⟨hb, hrd, hlen, hn, hoff⟩ := readHeader_ok h
  have hblk : (hdrBlock img vo).length = fmt.hdrSize := by
    simp [hdrBlock, leN_length, hH]; omega
  have hm : fmt.hdrSize ≤ m := by
    have := read_ok hrd
    rw [this] at hlen
    simp only [List.drop_zero, List.length_take] at hlen
    omega
  rw [← hblk] at hrd
  have hb' : hb = hdrBlock img vo := by
    rcases hdr_of_prefix _ _ _ _ _ hrd (by rw [hlen, hblk]) with h | h
    · exact h
    · rw [h] at hblk; simp at hblk; omega
  refine ⟨?_, ?_, hm⟩
  · rw [hn, hb', hdrBlock, rdLE_hdr0 _ _ _ hd]
  · rw [hoff, hb', hdrBlock, rdLE_hdr8 _ _ _ hv]

/-- a plain source holding the complete data delivers them -/
theorem readData_ok (um : Bool) (pre data tail : Bytes) (m : Nat) (hm : pre.length + data.length ≤ m) :
    readData um ⟨(pre ++ data ++ tail).take m, false⟩ pre.length data.length = .ok data := by
  have h := readData_prefix um pre data tail m false
  by_cases hd : data = []
  · subst hd; simp [readData, dataMmap, dataRead]
  have hn : 0 < data.length := List.length_pos_iff.mpr hd
  have hl : ((((pre ++ data ++ tail).take m).drop pre.length).take data.length).length = data.length := by
    simp only [List.length_take, List.length_drop, List.length_append]; omega
  have hr : dataRead ⟨(pre ++ data ++ tail).take m, false⟩ pre.length data.length
      = .ok ((((pre ++ data ++ tail).take m).drop pre.length).take data.length) := by
    unfold dataRead
    rw [if_neg (by omega)]
    simp only [Src.read, Bool.false_and, Bool.false_eq_true, if_false]
    rw [if_neg (by simpa using hl)]
  have hr' : readData um ⟨(pre ++ data ++ tail).take m, false⟩ pre.length data.length
      = .ok ((((pre ++ data ++ tail).take m).drop pre.length).take data.length) := by
    cases um
    · simpa [readData] using hr
    · simp only [readData, if_true, dataMmap]
      split
      · rfl
      · exact hr
  rcases h.1 with h1 | ⟨e, he⟩
  · exact h1
  · rw [hr'] at he; cases he

end Nb.C08
