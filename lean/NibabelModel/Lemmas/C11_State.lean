import NibabelModel.Lemmas.C11
import NibabelModel.Model.C11_State
/-! Lemmas/C11_State — helper lemmas about the extension object-state model (Model/C11_State); core tactics only.
  The GENERATED method bodies (`Nb.Gen.C11.State.sync/getObject/content`) are unfolded only here (`sync_eq`,
  `getObject_eq`, `content_eq`): a different `_sync` / `get_object` / `content` in the source breaks these. -/
namespace Nb.C11
open Nb.Gen.C11.State

namespace XCell
variable {Obj : Type}

theorem sync_eq (x : XCell Obj) : x.sync = { x with raw := x.shown } := by
  cases x with
  | mk c code raw obj =>
    cases obj <;> rfl

theorem getObject_eq (x : XCell Obj) : x.getObject = ({ x with obj := some x.toObj }, x.toObj) := by
  cases x with
  | mk c code raw obj =>
    cases obj <;> rfl

theorem content_eq (x : XCell Obj) : x.content = (x.sync, x.shown) := by
  cases x with
  | mk c code raw obj =>
    cases obj <;> rfl

theorem size_eq (x : XCell Obj) : x.size = (x.sync, sizeOnDisk x.shown.length) := by
  unfold size; rw [content_eq]

theorem edit_eq (f : Obj → Obj) (x : XCell Obj) : x.edit f = { x with obj := some (f x.toObj) } := by
  unfold edit; rw [getObject_eq]

theorem sync_shown (x : XCell Obj) : x.sync.shown = x.shown := by
  rw [sync_eq]; cases x with
  | mk c code raw obj => cases obj <;> rfl

theorem sync_shownExt (x : XCell Obj) : x.sync.shownExt = x.shownExt := by
  unfold shownExt; rw [sync_shown, sync_eq]

theorem sync_toExt (x : XCell Obj) : x.sync.toExt = x.shownExt := by
  rw [sync_eq]; rfl

end XCell

namespace World
variable {Obj : Type}

theorem syncRefs_get (w : World Obj) (refs : List Nat) (r : Nat) :
    (w.syncRefs refs).heap[r]? = (w.heap[r]?).map fun c => if r ∈ refs then c.sync else c := by
  unfold syncRefs
  simp only [List.getElem?_mapIdx]

theorem syncRefs_shownExt (w : World Obj) (refs : List Nat) (r : Nat) :
    ((w.syncRefs refs).heap[r]?).map XCell.shownExt = (w.heap[r]?).map XCell.shownExt := by
  rw [syncRefs_get]
  cases w.heap[r]? with
  | none => rfl
  | some c =>
    simp only [Option.map_some]
    split
    · rw [XCell.sync_shownExt]
    · rfl

theorem syncRefs_hdrs (w : World Obj) (refs : List Nat) : (w.syncRefs refs).hdrs = w.hdrs := rfl

theorem shownExts_congr (w w' : World Obj) (refs : List Nat)
    (h : ∀ r ∈ refs, (w'.heap[r]?).map XCell.shownExt = (w.heap[r]?).map XCell.shownExt) :
    w'.shownExts refs = w.shownExts refs := by
  unfold shownExts
  induction refs with
  | nil => rfl
  | cons r rs ih =>
    simp only [List.filterMap_cons]
    rw [h r (List.mem_cons_self), ih (fun r' hr' => h r' (List.mem_cons_of_mem _ hr'))]

theorem rawExts_syncRefs_aux (w : World Obj) (refs rs : List Nat) (hsub : ∀ r ∈ rs, r ∈ refs) :
    (w.syncRefs refs).rawExts rs = w.shownExts rs := by
  unfold rawExts shownExts
  induction rs with
  | nil => rfl
  | cons r rs ih =>
    simp only [List.filterMap_cons]
    rw [ih (fun r' hr' => hsub r' (List.mem_cons_of_mem _ hr')), syncRefs_get]
    have hr : r ∈ refs := hsub r List.mem_cons_self
    cases w.heap[r]? with
    | none => rfl
    | some c => simp only [Option.map_some, if_pos hr, XCell.sync_toExt]

/-- after the size query of `write_to` every referenced object's `_raw` IS what it shows -/
theorem rawExts_syncRefs (w : World Obj) (refs : List Nat) :
    (w.syncRefs refs).rawExts refs = w.shownExts refs :=
  rawExts_syncRefs_aux w refs refs (fun _ h => h)

end World
namespace World
variable {Obj : Type}

theorem cellAt_heap (w : World Obj) (h i r : Nat) (c : XCell Obj) (hc : w.cellAt h i = some (r, c)) :
    w.heap[r]? = some c ∧ ∃ hd, w.hdrs[h]? = some hd ∧ hd.refs[i]? = some r := by
  unfold cellAt at hc
  cases hh : w.hdrs[h]? with
  | none => rw [hh] at hc; cases hc
  | some hd =>
    rw [hh] at hc
    simp only at hc
    cases hr : hd.refs[i]? with
    | none => rw [hr] at hc; cases hc
    | some r' =>
      rw [hr] at hc
      simp only at hc
      cases hx : w.heap[r']? with
      | none => rw [hx] at hc; cases hc
      | some c' =>
        rw [hx] at hc
        simp only [Option.map_some, Option.some.injEq, Prod.mk.injEq] at hc
        obtain ⟨rfl, rfl⟩ := hc
        exact ⟨hx, hd, rfl, hr⟩

theorem setCell_shownExt (w : World Obj) (r : Nat) (c c' : XCell Obj) (hc : w.heap[r]? = some c)
    (he : c'.shownExt = c.shownExt) (k : Nat) :
    ((w.setCell r c').heap[k]?).map XCell.shownExt = (w.heap[k]?).map XCell.shownExt := by
  unfold setCell
  simp only [List.getElem?_set]
  by_cases hk : r = k
  · subst hk
    have hlt : r < w.heap.length := by
      have := List.getElem?_eq_some_iff.mp hc
      exact this.1
    rw [if_pos rfl, if_pos hlt, hc]
    simp only [Option.map_some, he]
  · rw [if_neg hk]

end World

end Nb.C11
