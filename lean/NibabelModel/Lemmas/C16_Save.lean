import NibabelModel.Model.C16_Save
/-! Lemmas/C16_Save — supplied TRK header (fillTable / nameTableInto) and ArraySequence views / copy (SeqView). -/

namespace Nb.C16

/-! ### fillTable -/

theorem fillTable_spec (encs : List (List Nat)) : ∀ (tbl : List (List Nat)) (i : Nat), i + encs.length ≤ tbl.length →
    fillTable tbl encs i = tbl.take i ++ encs ++ tbl.drop (i + encs.length) := by
  induction encs with
  | nil => intro tbl i _; simp [fillTable]
  | cons e es ih =>
    intro tbl i h
    simp only [List.length_cons] at h
    have hi : i < tbl.length := by omega
    rw [fillTable, ih (tbl.set i e) (i + 1) (by simp; omega)]
    simp only [List.length_cons]
    have h1 : (tbl.set i e).take (i + 1) = tbl.take i ++ [e] := by
      rw [List.take_add_one]
      simp [List.take_set_of_le, hi]
    have h2 : (tbl.set i e).drop (i + 1 + es.length) = tbl.drop (i + (es.length + 1)) := by
      rw [List.drop_set_of_lt (by omega)]
      congr 1; omega
    rw [h1, h2]; simp

theorem fillTable_zero (encs : List (List Nat)) (h : encs.length ≤ 10) :
    fillTable zeroFields encs 0 = encs ++ List.replicate (10 - encs.length) (List.replicate 20 0) := by
  have hz : zeroFields = List.replicate 10 (List.replicate 20 0) := rfl
  rw [fillTable_spec encs zeroFields 0 (by simp [hz]; omega), hz]
  simp only [List.take_zero, List.nil_append, Nat.zero_add, List.drop_replicate]

theorem mapM_length {α β ε} (f : α → Except ε β) : ∀ (l : List α) (r : List β), l.mapM f = .ok r → r.length = l.length := by
  intro l
  induction l with
  | nil => intro r h; simp [pure, Except.pure] at h; subst h; rfl
  | cons a as ih =>
    intro r h
    rw [List.mapM_cons] at h
    cases hfa : f a with
    | error e => simp [hfa, bind, Except.bind] at h
    | ok b =>
      cases hr : as.mapM f with
      | error e => simp [hfa, hr, bind, Except.bind] at h
      | ok bs =>
        simp [hfa, hr, bind, Except.bind, pure, Except.pure] at h
        subst h
        simp [ih bs hr]

theorem nameTableInto_zero (cols : List (Name × Nat)) : nameTableInto zeroFields cols = nameTable cols := by
  unfold nameTableInto nameTable
  split
  · rfl
  · rename_i hlen
    cases hes : cols.mapM (fun c => encodeName c.2 c.1) with
    | error e => simp [bind, Except.bind]
    | ok encs =>
      have hl := mapM_length _ cols encs hes
      simp only [bind, Except.bind, pure, Except.pure]
      rw [fillTable_zero encs (by omega), hl]

theorem trkSaveItemsH_cons (sup : TrkCounts) (first : Item) (rest : List Item) :
    trkSaveItemsH sup (first :: rest) = trkSaveItems (first :: rest) := by
  simp only [trkSaveItemsH, trkSaveItemsFrom, trkSaveItems, Bool.false_eq_true, if_false, nameTableInto_zero]
  rfl

/-! ### SeqView -/

theorem zipWith_prefixSums {α} (l : List (List α)) : ∀ (pre post : List α),
    List.zipWith (chunkAt (pre ++ l.flatten ++ post)) (prefixSums pre.length (l.map List.length)) (l.map List.length) = l := by
  induction l with
  | nil => intro pre post; simp [prefixSums]
  | cons x xs ih =>
    intro pre post
    simp only [List.map_cons, prefixSums, List.zipWith_cons_cons, List.flatten_cons]
    congr 1
    · simp [chunkAt, List.append_assoc]
    · have := ih (pre ++ x) post
      simp only [List.length_append, List.append_assoc] at this
      simpa [List.append_assoc] using this

theorem seqview_ofLists_items {α} (l : List (List α)) : (SeqView.ofLists l).items = l := by
  have := zipWith_prefixSums l [] []
  simpa [SeqView.ofLists, SeqView.items] using this

theorem seqview_ofLists_valid {α} (l : List (List α)) : (SeqView.ofLists l).Valid := by
  refine ⟨?_, ?_⟩
  · simp only [SeqView.ofLists]
    generalize 0 = s
    induction l generalizing s with
    | nil => rfl
    | cons x xs ih => simp [prefixSums, ih]
  · simp only [SeqView.ofLists]
    suffices h : ∀ (pre : List α) (l : List (List α)), ∀ p ∈ (prefixSums pre.length (l.map List.length)).zip (l.map List.length),
        p.1 + p.2 ≤ (pre ++ l.flatten).length by
      simpa using h [] l
    intro pre l
    induction l generalizing pre with
    | nil => simp [prefixSums]
    | cons x xs ih =>
      intro p hp
      simp only [List.map_cons, prefixSums, List.zip_cons_cons, List.mem_cons] at hp
      rcases hp with rfl | hp
      · simp
      · have := ih (pre ++ x) p (by simpa using hp)
        simpa [List.append_assoc] using this

theorem seqview_items_length {α} (v : SeqView α) (h : v.offsets.length = v.lengths.length) :
    v.items.length = v.lengths.length := by
  simp [SeqView.items, h]

theorem seqview_index_items {α} (v : SeqView α) (hv : v.offsets.length = v.lengths.length) (idxs : List Nat)
    (hi : ∀ i ∈ idxs, i < v.lengths.length) :
    (v.index idxs).items = idxs.map (fun i => v.items.getD i []) := by
  simp only [SeqView.index, SeqView.items, List.zipWith_map_left, List.zipWith_map_right, List.zipWith_self]
  apply List.map_congr_left
  intro i hmem
  have h1 := hi i hmem
  have h2 : i < v.offsets.length := by omega
  simp [List.getD_eq_getElem?_getD, List.getElem?_zipWith, h1, h2]

theorem zip_self_mem {α} (l : List α) (a b : α) (h : (a, b) ∈ l.zip l) : a = b ∧ a ∈ l := by
  induction l with
  | nil => simp at h
  | cons x xs ih =>
    simp only [List.zip_cons_cons, List.mem_cons, Prod.mk.injEq] at h
    rcases h with ⟨rfl, rfl⟩ | h
    · simp
    · have := ih h; exact ⟨this.1, by simp [this.2]⟩

theorem seqview_index_valid {α} (v : SeqView α) (hv : v.Valid) (idxs : List Nat)
    (hi : ∀ i ∈ idxs, i < v.lengths.length) : (v.index idxs).Valid := by
  refine ⟨by simp [SeqView.index], ?_⟩
  intro p hp
  simp only [SeqView.index, List.zip_map, List.mem_map] at hp
  obtain ⟨⟨i, j⟩, hmem, rfl⟩ := hp
  obtain ⟨rfl, hmem'⟩ := zip_self_mem idxs i j hmem
  have h1 := hi i hmem'
  have h2 : i < v.offsets.length := by rw [hv.1]; exact h1
  have := hv.2 (v.offsets[i], v.lengths[i]) (by
    rw [List.mem_iff_getElem]
    exact ⟨i, by simp; omega, by simp⟩)
  simpa [SeqView.index, Prod.map, List.getD_eq_getElem?_getD, h1, h2] using this

theorem zipWith_eq_map_zip' {α β γ} (f : α → β → γ) : ∀ (l1 : List α) (l2 : List β),
    List.zipWith f l1 l2 = (l1.zip l2).map (fun p => f p.1 p.2)
  | [], _ => by simp
  | _ :: _, [] => by simp
  | a :: as, b :: bs => by simp [zipWith_eq_map_zip' f as bs]

theorem copyLoop_spec {α} (data : List α) : ∀ (pairs : List (Nat × Nat)) (next : Nat),
    (∀ p ∈ pairs, p.1 + p.2 ≤ data.length) →
    (copyLoop data pairs next).1 = (pairs.map (fun p => chunkAt data p.1 p.2)).flatten ∧
    (copyLoop data pairs next).2 = prefixSums next (pairs.map (·.2)) ∧
    (pairs.map (fun p => (chunkAt data p.1 p.2).length)) = pairs.map (·.2) := by
  intro pairs
  induction pairs with
  | nil => intro next _; simp [copyLoop, prefixSums]
  | cons p ps ih =>
    intro next h
    obtain ⟨o, n⟩ := p
    have hp := h (o, n) (by simp)
    have := ih (next + n) (fun q hq => h q (by simp [hq]))
    simp only [copyLoop, List.map_cons, List.flatten_cons, prefixSums, this.1, this.2.1, this.2.2]
    refine ⟨trivial, trivial, ?_⟩
    simp [chunkAt] at hp ⊢
    omega

theorem seqview_copy_eq {α} (v : SeqView α) (hv : v.Valid) : v.copy = SeqView.ofLists v.items := by
  obtain ⟨hlen, hin⟩ := hv
  have hs := copyLoop_spec v.data (v.offsets.zip v.lengths) 0 hin
  have hitems : v.items = (v.offsets.zip v.lengths).map (fun p => chunkAt v.data p.1 p.2) := by
    simp [SeqView.items, zipWith_eq_map_zip']
  have hsnd : (v.offsets.zip v.lengths).map (·.2) = v.lengths := by
    rw [List.map_snd_zip]; omega
  have hl : v.items.map List.length = v.lengths := by
    rw [hitems, List.map_map]
    have := hs.2.2
    simpa [Function.comp_def, hsnd] using this
  simp only [SeqView.copy, SeqView.ofLists, hs.1, hs.2.1, hsnd, hl, ← hitems]

theorem seqview_copy_items {α} (v : SeqView α) (hv : v.Valid) : v.copy.items = v.items := by
  rw [seqview_copy_eq v hv, seqview_ofLists_items]

/-! ### TractoView -/

theorem getD_map_of_lt {α β} (f : α → β) (l : List α) (j : Nat) (h : j < l.length) (d : β) (d' : α) :
    (l.map f).getD j d = f (l.getD j d') := by
  simp [List.getD_eq_getElem?_getD, h]

theorem tractoview_index_item (t : TractoView) (hv : t.Valid) (idxs : List Nat) (hi : ∀ i ∈ idxs, i < t.length)
    (j : Nat) (hj : j < idxs.length) :
    (t.index idxs).item j = t.item (idxs.getD j 0) := by
  obtain ⟨hp, hdpp, hdps⟩ := hv
  simp only [TractoView.item, TractoView.index, List.map_map]
  congr 1
  · rw [seqview_index_items t.pts hp.1 idxs hi, getD_map_of_lt _ idxs j hj [] 0]
  · apply List.map_congr_left
    intro d hd
    have := hdpp d hd
    simp only [Function.comp]
    rw [seqview_index_items d.2 this.1.1 idxs (by intro i hi'; rw [this.2]; exact hi i hi'),
      getD_map_of_lt _ idxs j hj [] 0]
  · apply List.map_congr_left
    intro d _
    simp only [Function.comp]
    rw [getD_map_of_lt _ idxs j hj [] 0]

theorem tractoview_saved_eq_items (t : TractoView) (hv : t.Valid) : t.savedItems = t.items := by
  simp only [TractoView.savedItems, TractoView.items, seqview_copy_items t.pts hv.1]
  rfl

/-- **Saving a view of a tractogram saves the selected items.** -/
theorem tractoview_index_saved (t : TractoView) (hv : t.Valid) (idxs : List Nat) (hi : ∀ i ∈ idxs, i < t.length) :
    (t.index idxs).Valid ∧ (t.index idxs).savedItems = idxs.map t.item := by
  have hvalid : (t.index idxs).Valid := by
    obtain ⟨hp, hdpp, hdps⟩ := hv
    refine ⟨seqview_index_valid t.pts hp idxs hi, ?_, ?_⟩
    · intro d hd
      simp only [TractoView.index, List.mem_map] at hd
      obtain ⟨d0, hd0, rfl⟩ := hd
      have := hdpp d0 hd0
      exact ⟨seqview_index_valid d0.2 this.1 idxs (by intro i hi'; rw [this.2]; exact hi i hi'),
        by simp [SeqView.index, TractoView.length, TractoView.index]⟩
    · intro d hd
      simp only [TractoView.index, List.mem_map] at hd
      obtain ⟨d0, _, rfl⟩ := hd
      simp [TractoView.length, TractoView.index, SeqView.index]
  refine ⟨hvalid, ?_⟩
  rw [tractoview_saved_eq_items _ hvalid]
  have hlen : (t.index idxs).length = idxs.length := by simp [TractoView.length, TractoView.index, SeqView.index]
  simp only [TractoView.items, hlen]
  apply List.ext_getElem
  · simp
  · intro j h1 h2
    simp only [List.length_map, List.length_range] at h1
    simp only [List.getElem_map, List.getElem_range]
    rw [tractoview_index_item t hv idxs hi j h1]
    simp [List.getD_eq_getElem?_getD, h1]

theorem tractoview_ofItems_valid (pnames snames : List Name) (items : List Item) :
    (TractoView.ofItems pnames snames items).Valid := by
  refine ⟨seqview_ofLists_valid _, ?_, ?_⟩
  · intro d hd
    simp only [TractoView.ofItems, List.mem_map] at hd
    obtain ⟨n, _, rfl⟩ := hd
    exact ⟨seqview_ofLists_valid _, by simp [SeqView.ofLists, TractoView.length, TractoView.ofItems]⟩
  · intro d hd
    simp only [TractoView.ofItems, List.mem_map] at hd
    obtain ⟨n, _, rfl⟩ := hd
    simp [SeqView.ofLists, TractoView.length, TractoView.ofItems]

theorem assoc_rebuild {β} (d : β) : ∀ (l : List (Name × β)), (l.map (·.1)).Nodup →
    (l.map (·.1)).map (fun n => (n, (l.lookup n).getD d)) = l
  | [], _ => rfl
  | (k, v) :: r, hnd => by
      simp only [List.map_cons, List.nodup_cons] at hnd
      have ih := assoc_rebuild d r hnd.2
      simp only [List.map_cons, List.lookup_cons, beq_self_eq_true, Option.getD_some, List.cons.injEq, true_and]
      conv => rhs; rw [← ih]
      apply List.map_congr_left
      intro n hn
      have hne : (n == k) = false := by
        apply beq_false_of_ne; intro h; exact hnd.1 (h ▸ hn)
      simp [hne]

theorem tractoview_ofItems_items (pnames snames : List Name) (items : List Item)
    (hp : ∀ it ∈ items, it.dpp.map (·.1) = pnames) (hs : ∀ it ∈ items, it.dps.map (·.1) = snames)
    (hpn : pnames.Nodup) (hsn : snames.Nodup) :
    (TractoView.ofItems pnames snames items).items = items := by
  have hlen : (TractoView.ofItems pnames snames items).length = items.length := by
    simp [TractoView.length, TractoView.ofItems, SeqView.ofLists]
  simp only [TractoView.items, hlen]
  apply List.ext_getElem
  · simp
  · intro j h1 h2
    simp only [List.getElem_map, List.getElem_range]
    have hmem : items[j] ∈ items := List.getElem_mem h2
    simp only [TractoView.item, TractoView.ofItems, List.map_map, Function.comp_def, seqview_ofLists_items]
    have e1 : (items.map (·.pts)).getD j [] = items[j].pts := by simp [List.getD_eq_getElem?_getD, h2]
    have e2 : ∀ n, (items.map (fun it => (it.dpp.lookup n).getD [])).getD j [] = (items[j].dpp.lookup n).getD [] := by
      intro n; simp [List.getD_eq_getElem?_getD, h2]
    have e3 : ∀ n, (items.map (fun it => (it.dps.lookup n).getD [])).getD j [] = (items[j].dps.lookup n).getD [] := by
      intro n; simp [List.getD_eq_getElem?_getD, h2]
    simp only [e1, e2, e3]
    have r1 := assoc_rebuild [] items[j].dpp (by rw [hp _ hmem]; exact hpn)
    have r2 := assoc_rebuild [] items[j].dps (by rw [hs _ hmem]; exact hsn)
    rw [hp _ hmem] at r1
    rw [hs _ hmem] at r2
    rw [r1, r2]

end Nb.C16
