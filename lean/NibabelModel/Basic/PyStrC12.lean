/-
  Basic/PyStrC12 — semantics of the Python STRING operators used by nibabel/filename_parser.py, for the
  functions that `harness/py2lean_c12.py` translates into `Generated/C12Funcs.lean` on every run
  (C12 stage T).  Extends the value universe of `Basic/PyVal.lean` (`V.str` carries a Lean `String`);
  core Lean only.  Owned by C12 (Basic/PyVal.lean itself is shared and unchanged).

  Every operator is defined on the list of CODE POINTS of the string (`codes s`) and cuts the string
  with `List.take` / `List.drop` at positions computed from those codes, so `decide` / `simp` evaluate
  them and the proofs in `Lemmas/C12_Gen.lean` reduce to facts about `List Nat`.

  TRUSTED (validated on every run by the `pyop` stream of `./check C12`, operator by operator against
  CPython):
    * `lower` / `upper` fold ASCII letters only.  Python's `str.lower()/upper()` are Unicode: they agree
      with these definitions exactly on strings whose cased characters are all ASCII (in particular on
      all-ASCII strings).  Names with non-ASCII cased letters are covered by the correspondence stream
      only.
    * `splitextPos` is CPython's `genericpath._splitext` for `sep='/'`, `altsep=None`, `extsep='.'`.
    * `stringifyPath` is the identity: `pathlib.Path(p).expanduser().as_posix()` is assumed to leave
      the string unchanged (the harness only feeds names for which it does).
-/
import NibabelModel.Basic.PyVal
namespace Nb.PyS

abbrev Codes := List Nat

/-- the code points of a string -/
def codes (s : String) : Codes := s.toList.map Char.toNat

def lowerC (c : Nat) : Nat := if 65 ≤ c ∧ c ≤ 90 then c + 32 else c
def upperC (c : Nat) : Nat := if 97 ≤ c ∧ c ≤ 122 then c - 32 else c
def lowerCh (c : Char) : Char := if 65 ≤ c.toNat ∧ c.toNat ≤ 90 then Char.ofNat (c.toNat + 32) else c
def upperCh (c : Char) : Char := if 97 ≤ c.toNat ∧ c.toNat ≤ 122 then Char.ofNat (c.toNat - 32) else c

/-- `s.lower()` (ASCII letters) -/
def lower (s : String) : String := String.ofList (s.toList.map lowerCh)
/-- `s.upper()` (ASCII letters) -/
def upper (s : String) : String := String.ofList (s.toList.map upperCh)

/-- `w.endswith(e)` -/
def endswith (w e : String) : Bool := (codes e).isSuffixOf (codes w)

/-- the index a Python slice bound `k` denotes in a sequence of length `n` (negative: from the end; clamped) -/
def bound (n : Nat) (k : Int) : Nat := if k < 0 then n - (-k).toNat else min k.toNat n

/-- `s[k:]` -/
def sliceFrom (s : String) (k : Int) : String := String.ofList (s.toList.drop (bound s.toList.length k))
/-- `s[:k]` -/
def sliceTo (s : String) (k : Int) : String := String.ofList (s.toList.take (bound s.toList.length k))

/-- index of the LAST occurrence of `c` -/
def rfindL (c : Nat) : Codes → Option Nat
  | [] => none
  | x :: xs =>
    match rfindL c xs with
    | some i => some (i + 1)
    | none => if x = c then some 0 else none

/-- `s.rfind(c)` for a one-character `c` -/
def rfind (s : String) (c : Nat) : Int :=
  match rfindL c (codes s) with
  | some i => i
  | none => -1

/-- `s.strip(c)` for a one-character `c` -/
def strip (s : String) (c : Nat) : String :=
  String.ofList ((((s.toList.dropWhile (·.toNat == c)).reverse).dropWhile (·.toNat == c)).reverse)

/-- `s.removesuffix(e)` -/
def removesuffix (s e : String) : String :=
  if e.toList ≠ [] ∧ endswith s e then String.ofList (s.toList.take (s.toList.length - e.toList.length)) else s

/-- where the extension starts according to `posixpath.splitext` (= the length: no extension): the last dot,
    if it lies after the last `/` and a character other than `.` precedes it in the basename -/
def splitextPos (l : Codes) : Nat :=
  match rfindL 46 l with
  | none => l.length
  | some i =>
    if (l.drop i).contains 47 then l.length
    else if ((l.take i).reverse.takeWhile (· ≠ 47)).any (· ≠ 46) then i else l.length

/-- `os.path.splitext(p)` -/
def splitext (p : String) : String × String :=
  let i := splitextPos (codes p)
  (String.ofList (p.toList.take i), String.ofList (p.toList.drop i))

end Nb.PyS

namespace Nb.Py.V
open Nb.PyS

def isStr : V → Bool | .str _ => true | _ => false

def strEndswith : V → V → M V
  | .str w, .str e => pure (.bool (PyS.endswith w e))
  | _, _ => throw .typeError

def strLower : V → M V
  | .str s => pure (.str (PyS.lower s))
  | _ => throw .typeError

def strUpper : V → M V
  | .str s => pure (.str (PyS.upper s))
  | _ => throw .typeError

def strRfind : V → V → M V
  | .str s, .str c =>
    match c.toList with
    | [ch] => pure (.int (PyS.rfind s ch.toNat))
    | _ => throw .unsupported
  | _, _ => throw .typeError

def strStrip : V → V → M V
  | .str s, .str c =>
    match c.toList with
    | [ch] => pure (.str (PyS.strip s ch.toNat))
    | _ => throw .unsupported
  | _, _ => throw .typeError

def strRemovesuffix : V → V → M V
  | .str s, .str e => pure (.str (PyS.removesuffix s e))
  | _, _ => throw .typeError

/-- `len(x)`: code points of a string, else `V.len` -/
def lenS : V → M V
  | .str s => pure (.int s.toList.length)
  | x => V.len x

/-- `a + b`: string concatenation, else `V.add` -/
def addS : V → V → M V
  | .str a, .str b => pure (.str (a ++ b))
  | a, b => V.add a b

/-- `x[k:]` -/
def sliceFrom : V → V → M V
  | .str s, .int k => pure (.str (PyS.sliceFrom s k))
  | .str _, _ => throw .typeError
  | x, k => V.dropFrom x k

/-- `x[:k]` -/
def sliceTo : V → V → M V
  | .str s, .int k => pure (.str (PyS.sliceTo s k))
  | .str _, _ => throw .typeError
  | _, _ => throw .unsupported

/-- `os.path.splitext(p)` -/
def osPathSplitext : V → M V
  | .str p => pure (.tup2 (.str (PyS.splitext p).1) (.str (PyS.splitext p).2))
  | _ => throw .typeError

/-- `_stringify_path(p)` on a string that path normalisation leaves unchanged -/
def stringifyPath : V → M V
  | .str p => pure (.str p)
  | _ => throw .typeError

/-- call of a function VALUE of arity 1 that is not a translated function: `lambda s: s`, `str.upper`,
    `str.lower` (tags written by the translator) -/
def callStr1 (f x : V) : M V :=
  if f = .str "fn:identity" then pure x
  else if f = .str "fn:str.upper" then strUpper x
  else if f = .str "fn:str.lower" then strLower x
  else throw .typeError

end Nb.Py.V
