/-
  Basic/PySlice — specification of Python slice semantics (CPython `PySlice_AdjustIndices`,
  `range(n)[start:stop:step]`).  Core Lean only (no Mathlib) so that the driver links natively.

  This file is a *specification of Python*, validated on every run against CPython itself
  (harness/specval.py, `slice.indices` / `range` exhaustively on small domains).
-/
namespace Nb

/-- A Python `slice(start, stop, step)`; `none` = `None`.  `step = some 0` is rejected by Python
    (`ValueError`), modelled by `PySlice.Valid`. -/
structure PySlice where
  start : Option Int
  stop  : Option Int
  step  : Option Int
  deriving Repr, DecidableEq, Inhabited

namespace PySlice

def stepVal (s : PySlice) : Int := s.step.getD 1

/-- Python raises `ValueError: slice step cannot be zero`. -/
def Valid (s : PySlice) : Prop := s.stepVal ≠ 0

instance (s : PySlice) : Decidable s.Valid := by unfold Valid; exact inferInstance

/-- clamp of one bound as in `PySlice_AdjustIndices` -/
def adjust1 (n : Int) (step : Int) (v : Int) : Int :=
  if v < 0 then
    (if v + n < 0 then (if step < 0 then -1 else 0) else v + n)
  else if v ≥ n then (if step < 0 then n - 1 else n)
  else v

/-- `slice.indices(n)` : (start, stop, step), `stop` may be `-1` for negative steps. -/
def indices (s : PySlice) (n : Nat) : Int × Int × Int :=
  let step := s.stepVal
  let start := match s.start with
    | none => if step < 0 then (n : Int) - 1 else 0
    | some v => adjust1 n step v
  let stop := match s.stop with
    | none => if step < 0 then -1 else (n : Int)
    | some v => adjust1 n step v
  (start, stop, step)

end PySlice

/-- `len(range(start, stop, step))` for `step ≠ 0`. -/
def rangeLen (start stop step : Int) : Nat :=
  if step < 0 then
    (if stop < start then ((start - stop - 1) / (-step) + 1).toNat else 0)
  else if start < stop then ((stop - start - 1) / step + 1).toNat else 0

/-- `list(range(start, start + len*step, step))` as integers. -/
def rangeInts (start step : Int) (len : Nat) : List Int :=
  (List.range len).map (fun (k : Nat) => start + (k : Int) * step)

namespace PySlice

def len (s : PySlice) (n : Nat) : Nat :=
  let (a, b, c) := s.indices n
  rangeLen a b c

/-- The indices selected by `range(n)[s]`, in output order. -/
def sel (s : PySlice) (n : Nat) : List Nat :=
  let (a, b, c) := s.indices n
  (rangeInts a c (rangeLen a b c)).map Int.toNat

end PySlice

/-- Python integer index on a length-`n` axis: `none` = `IndexError`. -/
def pyIntIndex (n : Nat) (i : Int) : Option Nat :=
  if 0 ≤ i ∧ i < n then some i.toNat
  else if i < 0 ∧ 0 ≤ i + n then some (i + n).toNat
  else none

/-- `l[s]` for a Python list / 1-D array `l`. -/
def PySlice.apply {α} (s : PySlice) (l : List α) : List α :=
  (s.sel l.length).filterMap (fun i => l[i]?)

end Nb
