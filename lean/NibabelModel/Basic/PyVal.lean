/-
  Basic/PyVal — a small dynamically-typed value universe and the semantics of the Python operators
  used by the functions that `harness/py2lean.py` translates from the nibabel source into
  `Generated/*Funcs.lean` on every run (Leg T for whole functions).

  The translator is purely syntactic (statement by statement, operator by operator): every Python
  operator / builtin becomes a call of one definition of this file, in the `Except Err` monad, with
  Lean `do`-notation mirroring Python's control flow (`if/elif/else`, early `return`, re-assignment,
  `raise`, `try … except TypeError`).  So *this file is the specification of the Python fragment*; it
  is trusted, and it is validated on every run: the generated functions are executed by the native
  driver on the same arguments as the real Python functions (correspondence stream `gen`).

  Numbers: Python ints are unbounded `Int`.  True division `a / b` of two ints is kept EXACT as
  the fraction `frac a b` (CPython computes the correctly rounded double; the two agree in every
  use the translated code makes of the quotient — `int(·)`, `np.ceil(·)`, `int(x) == x` — as long as
  |a|, |b| < 2^53, far beyond any axis length or byte count; recorded in the trusted base).

  Core Lean only (the driver links natively).
-/
import NibabelModel.Basic.PySlice
namespace Nb.Py

inductive Err where
  | typeError
  | valueError
  | zeroDivision
  | indexError
  | unsupported          -- construct outside the modelled fragment
  deriving Repr, DecidableEq, Inhabited

/-- Python values of the translated fragment -/
inductive V where
  | none
  | bool (b : Bool)
  | int (i : Int)
  | frac (num den : Int)              -- exact `num / den` (true division of ints), `den ≠ 0`
  | str (s : String)
  | slice (start stop step : V)
  | tup2 (a b : V)
  | tup3 (a b c : V)
  deriving Repr, DecidableEq, Inhabited

abbrev M := Except Err

namespace V

/-- Python `==` on the fragment (ints and exact fractions compare numerically; everything else
    structurally; values of different kinds are unequal). -/
def pyEq : V → V → Bool
  | .none, .none => true
  | .bool a, .bool b => a == b
  | .int a, .int b => a == b
  | .int a, .frac n d => decide (a * d = n)
  | .frac n d, .int a => decide (a * d = n)
  | .frac n d, .frac n' d' => decide (n * d' = n' * d)
  | .str a, .str b => a == b
  | .slice a b c, .slice a' b' c' => pyEq a a' && pyEq b b' && pyEq c c'
  | .tup2 a b, .tup2 a' b' => pyEq a a' && pyEq b b'
  | .tup3 a b c, .tup3 a' b' c' => pyEq a a' && pyEq b b' && pyEq c c'
  | _, _ => false

def eq (a b : V) : M V := pure (.bool (pyEq a b))
def ne (a b : V) : M V := pure (.bool (!pyEq a b))

/-- truth value (`if x:`) -/
def truthy : V → M Bool
  | .none => pure false
  | .bool b => pure b
  | .int i => pure (i != 0)
  | .frac n _ => pure (n != 0)
  | .str s => pure (s != "")
  | .slice .. => pure true
  | .tup2 .. => pure true
  | .tup3 .. => pure true

def not_ (a : V) : M V := do pure (.bool (!(← truthy a)))

def isNone : V → Bool | .none => true | _ => false
/-- `isinstance(x, numbers.Integral)` (bool is not produced as an index by the fragment) -/
def isIntegral : V → Bool | .int _ => true | _ => false

def add : V → V → M V
  | .int a, .int b => pure (.int (a + b))
  | _, _ => throw .typeError
def sub : V → V → M V
  | .int a, .int b => pure (.int (a - b))
  | _, _ => throw .typeError
def mul : V → V → M V
  | .int a, .int b => pure (.int (a * b))
  | _, _ => throw .typeError
def neg : V → M V
  | .int a => pure (.int (-a))
  | _ => throw .typeError
def abs : V → M V
  | .int a => pure (.int (if a < 0 then -a else a))
  | _ => throw .typeError
/-- true division `/` of ints, kept exact -/
def truediv : V → V → M V
  | .int a, .int b => if b = 0 then throw .zeroDivision else pure (.frac a b)
  | _, _ => throw .typeError
/-- floor division `//` (Python rounds towards minus infinity) -/
def floordiv : V → V → M V
  | .int a, .int b => if b = 0 then throw .zeroDivision else pure (.int (Int.fdiv a b))
  | _, _ => throw .typeError
/-- `%` (sign of the divisor) -/
def mod : V → V → M V
  | .int a, .int b => if b = 0 then throw .zeroDivision else pure (.int (Int.fmod a b))
  | _, _ => throw .typeError

def lt : V → V → M V
  | .int a, .int b => pure (.bool (decide (a < b)))
  | _, _ => throw .typeError
def le : V → V → M V
  | .int a, .int b => pure (.bool (decide (a ≤ b)))
  | _, _ => throw .typeError
def gt : V → V → M V
  | .int a, .int b => pure (.bool (decide (a > b)))
  | _, _ => throw .typeError
def ge : V → V → M V
  | .int a, .int b => pure (.bool (decide (a ≥ b)))
  | _, _ => throw .typeError

/-- `int(x)`: identity on ints, truncation towards zero of a quotient, `TypeError` on `None` and
    on slice objects (this is how `optimize_slicer` tells an int index from a slice). -/
def toInt : V → M V
  | .int a => pure (.int a)
  | .bool b => pure (.int (if b then 1 else 0))
  | .frac n d => pure (.int (Int.tdiv n d))
  | _ => throw .typeError

/-- `np.ceil(x)` for an int or an exact quotient (the float result is integral; kept as an int) -/
def npCeil : V → M V
  | .int a => pure (.int a)
  | .frac n d => pure (.int (-(Int.fdiv (-n) d)))
  | _ => throw .typeError

def min2 : V → V → M V
  | .int a, .int b => pure (.int (if b < a then b else a))
  | _, _ => throw .typeError
def max2 : V → V → M V
  | .int a, .int b => pure (.int (if b > a then b else a))
  | _, _ => throw .typeError

/-- attribute access `x.start`, `x.stop`, `x.step` -/
def attr (name : String) : V → M V
  | .slice a b c =>
      if name = "start" then pure a else if name = "stop" then pure b
      else if name = "step" then pure c else throw .unsupported
  | _ => throw .typeError       -- AttributeError in Python; never raised by the fragment on ints

def optInt? : V → Option (Option Int)
  | .none => some Option.none
  | .int i => some (some i)
  | _ => Option.none

/-- the `PySlice` of a slice object whose fields are ints or `None` -/
def toPySlice? : V → Option PySlice
  | .slice a b c =>
      match optInt? a, optInt? b, optInt? c with
      | some a, some b, some c => some ⟨a, b, c⟩
      | _, _, _ => Option.none
  | _ => Option.none

def ofOptInt : Option Int → V
  | Option.none => .none
  | some i => .int i

def ofPySlice (s : PySlice) : V := .slice (ofOptInt s.start) (ofOptInt s.stop) (ofOptInt s.step)

/-- `slicer.indices(n)` → `(start, stop, step)`; `ValueError` for a zero step or negative length -/
def sliceIndices (s n : V) : M V :=
  match toPySlice? s, n with
  | some p, .int k =>
      if k < 0 then throw .valueError
      else if p.stepVal = 0 then throw .valueError
      else
        let (a, b, c) := p.indices k.toNat
        pure (.tup3 (.int a) (.int b) (.int c))
  | _, _ => throw .typeError

def unpack2 : V → M (V × V)
  | .tup2 a b => pure (a, b)
  | _ => throw .typeError
def unpack3 : V → M (V × V × V)
  | .tup3 a b c => pure (a, b, c)
  | _ => throw .typeError

def slice1 (stop : V) : V := .slice .none stop .none
def slice2 (start stop : V) : V := .slice start stop .none

end V
end Nb.Py
