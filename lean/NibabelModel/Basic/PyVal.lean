/-
  Basic/PyVal — a small dynamically-typed value universe and the semantics of the Python operators
  used by the functions that `harness/py2lean.py` translates from the nibabel source into
  `Generated/*Funcs.lean` on every run (Leg T for whole functions).

  The translator is purely syntactic (statement by statement, operator by operator): every Python
  operator / builtin becomes a call of one definition of this file, in the `Except Err` monad, with
  Lean `do`-notation mirroring Python's control flow (`if/elif/else`, early `return`, re-assignment,
  `raise`, `try … except TypeError`).  So *this file is the specification of the Python fragment*; it
  is trusted, and it is validated on every run: the generated functions are executed by the native
  driver on the same arguments as the real Python functions (correspondence stream `gen`).

  Numbers: Python ints are unbounded `Int`.  True division `a / b` of two ints is kept EXACT as
  the fraction `frac a b` (CPython computes the correctly rounded double; the two agree in every
  use the translated code makes of the quotient — `int(·)`, `np.ceil(·)`, `int(x) == x` — as long as
  |a|, |b| < 2^53, far beyond any axis length or byte count; recorded in the trusted base).

  Core Lean only (the driver links natively).
-/
import NibabelModel.Basic.PySlice
namespace Nb.Py

inductive Err where
  | typeError
  | valueError
  | zeroDivision
  | indexError
  | unsupported          -- construct outside the modelled fragment
  deriving Repr, DecidableEq, Inhabited

/-- Python values of the translated fragment -/
inductive V where
  | none
  | bool (b : Bool)
  | int (i : Int)
  | frac (num den : Int)              -- exact `num / den` (true division of ints), `den ≠ 0`
  | str (s : String)
  | slice (start stop step : V)
  | tup2 (a b : V)
  | tup3 (a b c : V)
  | nil                               -- the empty list / tuple
  | cons (hd tl : V)                  -- a non-empty list / tuple of any length (`tl` is `nil` or `cons`)
  | dict (entries : V)                -- a dict: list of `tup2 key value` in insertion order, keys distinct
  | ellipsis                          -- the `Ellipsis` singleton
  deriving Repr, DecidableEq, Inhabited

/-- outcome of one pass through a translated loop body: an early `return v`, or the next loop state -/
inductive Ctl (σ : Type) where
  | ret (v : V)
  | next (s : σ)

abbrev M := Except Err

namespace V

/-- Python `==` on the fragment (ints and exact fractions compare numerically; everything else
    structurally; values of different kinds are unequal). -/
def pyEq : V → V → Bool
  | .none, .none => true
  | .bool a, .bool b => a == b
  | .int a, .int b => a == b
  | .int a, .frac n d => decide (a * d = n)
  | .frac n d, .int a => decide (a * d = n)
  | .frac n d, .frac n' d' => decide (n * d' = n' * d)
  | .str a, .str b => a == b
  | .slice a b c, .slice a' b' c' => pyEq a a' && pyEq b b' && pyEq c c'
  | .tup2 a b, .tup2 a' b' => pyEq a a' && pyEq b b'
  | .tup3 a b c, .tup3 a' b' c' => pyEq a a' && pyEq b b' && pyEq c c'
  | .nil, .nil => true
  | .cons a b, .cons a' b' => pyEq a a' && pyEq b b'
  | .dict a, .dict b => pyEq a b      -- (order-sensitive: enough for the fragment, which never compares dicts)
  | .ellipsis, .ellipsis => true
  | _, _ => false

def eq (a b : V) : M V := pure (.bool (pyEq a b))
def ne (a b : V) : M V := pure (.bool (!pyEq a b))

/-- truth value (`if x:`) -/
def truthy : V → M Bool
  | .none => pure false
  | .bool b => pure b
  | .int i => pure (i != 0)
  | .frac n _ => pure (n != 0)
  | .str s => pure (s != "")
  | .slice .. => pure true
  | .tup2 .. => pure true
  | .tup3 .. => pure true
  | .nil => pure false
  | .cons .. => pure true
  | .dict .nil => pure false
  | .dict _ => pure true
  | .ellipsis => pure true

def not_ (a : V) : M V := do pure (.bool (!(← truthy a)))

def isNone : V → Bool | .none => true | _ => false
/-- `isinstance(x, tuple)` / list: a sequence value -/
def isSeq : V → Bool | .nil => true | .cons .. => true | .tup2 .. => true | .tup3 .. => true | _ => false
/-- `isinstance(x, slice)` -/
def isSlice : V → Bool | .slice .. => true | _ => false
/-- `isinstance(x, numbers.Integral)` (bool is not produced as an index by the fragment) -/
def isIntegral : V → Bool | .int _ => true | _ => false

def add : V → V → M V
  | .int a, .int b => pure (.int (a + b))
  | _, _ => throw .typeError
def sub : V → V → M V
  | .int a, .int b => pure (.int (a - b))
  | _, _ => throw .typeError
/-- `(a,) * n`: `n` copies of `a` -/
def replicateV (a : V) : Nat → V
  | 0 => .nil
  | k + 1 => .cons a (replicateV a k)

def mul : V → V → M V
  | .int a, .int b => pure (.int (a * b))
  | .cons a .nil, .int n => pure (replicateV a n.toNat)   -- one-element tuple/list times int (none for n ≤ 0)
  | .nil, .int _ => pure .nil
  | _, _ => throw .typeError
def neg : V → M V
  | .int a => pure (.int (-a))
  | _ => throw .typeError
def abs : V → M V
  | .int a => pure (.int (if a < 0 then -a else a))
  | _ => throw .typeError
/-- true division `/` of ints, kept exact -/
def truediv : V → V → M V
  | .int a, .int b => if b = 0 then throw .zeroDivision else pure (.frac a b)
  | _, _ => throw .typeError
/-- floor division `//` (Python rounds towards minus infinity) -/
def floordiv : V → V → M V
  | .int a, .int b => if b = 0 then throw .zeroDivision else pure (.int (Int.fdiv a b))
  | _, _ => throw .typeError
/-- `%` (sign of the divisor) -/
def mod : V → V → M V
  | .int a, .int b => if b = 0 then throw .zeroDivision else pure (.int (Int.fmod a b))
  | _, _ => throw .typeError

def lt : V → V → M V
  | .int a, .int b => pure (.bool (decide (a < b)))
  | _, _ => throw .typeError
def le : V → V → M V
  | .int a, .int b => pure (.bool (decide (a ≤ b)))
  | _, _ => throw .typeError
def gt : V → V → M V
  | .int a, .int b => pure (.bool (decide (a > b)))
  | _, _ => throw .typeError
def ge : V → V → M V
  | .int a, .int b => pure (.bool (decide (a ≥ b)))
  | _, _ => throw .typeError

/-- `int(x)`: identity on ints, truncation towards zero of a quotient, `TypeError` on `None` and
    on slice objects (this is how `optimize_slicer` tells an int index from a slice). -/
def toInt : V → M V
  | .int a => pure (.int a)
  | .bool b => pure (.int (if b then 1 else 0))
  | .frac n d => pure (.int (Int.tdiv n d))
  | _ => throw .typeError

/-- `np.ceil(x)` for an int or an exact quotient (the float result is integral; kept as an int) -/
def npCeil : V → M V
  | .int a => pure (.int a)
  | .frac n d => pure (.int (-(Int.fdiv (-n) d)))
  | _ => throw .typeError

def min2 : V → V → M V
  | .int a, .int b => pure (.int (if b < a then b else a))
  | _, _ => throw .typeError
def max2 : V → V → M V
  | .int a, .int b => pure (.int (if b > a then b else a))
  | _, _ => throw .typeError

/-- attribute access `x.start`, `x.stop`, `x.step` -/
def attr (name : String) : V → M V
  | .slice a b c =>
      if name = "start" then pure a else if name = "stop" then pure b
      else if name = "step" then pure c else throw .unsupported
  | _ => throw .typeError       -- AttributeError in Python; never raised by the fragment on ints

def optInt? : V → Option (Option Int)
  | .none => some Option.none
  | .int i => some (some i)
  | _ => Option.none

/-- the `PySlice` of a slice object whose fields are ints or `None` -/
def toPySlice? : V → Option PySlice
  | .slice a b c =>
      match optInt? a, optInt? b, optInt? c with
      | some a, some b, some c => some ⟨a, b, c⟩
      | _, _, _ => Option.none
  | _ => Option.none

def ofOptInt : Option Int → V
  | Option.none => .none
  | some i => .int i

def ofPySlice (s : PySlice) : V := .slice (ofOptInt s.start) (ofOptInt s.stop) (ofOptInt s.step)

/-- `slicer.indices(n)` → `(start, stop, step)`; `ValueError` for a zero step or negative length -/
def sliceIndices (s n : V) : M V :=
  match toPySlice? s, n with
  | some p, .int k =>
      if k < 0 then throw .valueError
      else if p.stepVal = 0 then throw .valueError
      else
        let (a, b, c) := p.indices k.toNat
        pure (.tup3 (.int a) (.int b) (.int c))
  | _, _ => throw .typeError

def unpack2 : V → M (V × V)
  | .tup2 a b => pure (a, b)
  | .cons a (.cons b .nil) => pure (a, b)
  | _ => throw .typeError
def unpack3 : V → M (V × V × V)
  | .tup3 a b c => pure (a, b, c)
  | .cons a (.cons b (.cons c .nil)) => pure (a, b, c)
  | _ => throw .typeError

/-! ### lists (Python lists and variable-length tuples; value semantics) -/

def ofList : List V → V
  | [] => .nil
  | x :: xs => .cons x (ofList xs)

/-- the elements of a proper list -/
def toList? : V → Option (List V)
  | .nil => some []
  | .cons x xs => (toList? xs).map (x :: ·)
  | _ => Option.none

/-- `tuple(x)` / `list(x)` on a list: the same elements (a pair or triple value is spread out) -/
def asList : V → M V
  | .nil => pure .nil
  | .cons a b => pure (.cons a b)
  | .tup2 a b => pure (.cons a (.cons b .nil))
  | .tup3 a b c => pure (.cons a (.cons b (.cons c .nil)))
  | _ => throw .typeError

def len : V → M V
  | .nil => pure (.int 0)
  | .cons _ xs => do
      match ← len xs with
      | .int k => pure (.int (k + 1))
      | _ => throw .typeError
  | .tup2 .. => pure (.int 2)
  | .tup3 .. => pure (.int 3)
  | _ => throw .typeError

def getNat : V → Nat → M V
  | .cons x _, 0 => pure x
  | .cons _ xs, k + 1 => getNat xs k
  | _, _ => throw .indexError

def setNat : V → Nat → V → M V
  | .cons _ xs, 0, v => pure (.cons v xs)
  | .cons x xs, k + 1, v => do pure (.cons x (← setNat xs k v))
  | _, _, _ => throw .indexError

/-! ### dicts (association lists; keys compared with `pyEq`) -/

def dictGet? : V → V → Option V
  | .cons (.tup2 k v) rest, key => if pyEq k key then some v else dictGet? rest key
  | _, _ => Option.none

def dictSet : V → V → V → V
  | .cons (.tup2 k v) rest, key, val =>
      if pyEq k key then .cons (.tup2 k val) rest else .cons (.tup2 k v) (dictSet rest key val)
  | _, key, val => .cons (.tup2 key val) .nil

/-- `d.setdefault(key, default)`: the value (existing or default) and the possibly extended dict -/
def dictSetdefault : V → V → V → M (V × V)
  | .dict es, key, dflt =>
      match dictGet? es key with
      | some v => pure (v, .dict es)
      | Option.none => pure (dflt, .dict (dictSet es key dflt))
  | _, _, _ => throw .typeError

/-- `x[i]` for a list and an int index (negative indices count from the end), `d[key]` for a dict
    (`KeyError` is reported as `indexError`) -/
def getItemSeq (x i : V) : M V := do
  match i, ← len x with
  | .int k, .int n =>
      let x ← asList x
      if 0 ≤ k then getNat x k.toNat
      else if 0 ≤ k + n then getNat x (k + n).toNat else throw .indexError
  | _, _ => throw .typeError

def getItem : V → V → M V
  | .dict es, i =>
      match dictGet? es i with
      | some v => pure v
      | Option.none => throw .indexError
  | x, i => getItemSeq x i

/-- the list `x` with element `i` replaced (`x[i] = v` under value semantics); `d[key] = v` for a dict -/
def setItemSeq (x i v : V) : M V := do
  match i, ← len x with
  | .int k, .int n =>
      if 0 ≤ k then setNat x k.toNat v
      else if 0 ≤ k + n then setNat x (k + n).toNat v else throw .indexError
  | _, _ => throw .typeError

def setItem : V → V → V → M V
  | .dict es, i, v => pure (.dict (dictSet es i v))
  | x, i, v => setItemSeq x i v

/-- `x.append(v)` (returns the new list) -/
def append : V → V → M V
  | .nil, v => pure (.cons v .nil)
  | .cons x xs, v => do pure (.cons x (← append xs v))
  | _, _ => throw .typeError

/-- `x.extend(ys)` -/
def extend : V → V → M V
  | .nil, ys => asList ys
  | .cons x xs, ys => do pure (.cons x (← extend xs ys))
  | _, _ => throw .typeError

def revAux : V → V → M V
  | .nil, acc => pure acc
  | .cons x xs, acc => revAux xs (.cons x acc)
  | _, _ => throw .typeError

/-- `x[::-1]` -/
def reversed (x : V) : M V := do revAux (← asList x) .nil

def dropNat : V → Nat → V
  | x, 0 => x
  | .cons _ xs, k + 1 => dropNat xs k
  | x, _ + 1 => match x with | .nil => .nil | _ => x

/-- `x[k:]` for a list and an int `k ≥ 0` -/
def dropFrom (x k : V) : M V := do
  match ← asList x, k with
  | l, .int i => if 0 ≤ i then pure (dropNat l i.toNat) else throw .unsupported
  | _, _ => throw .typeError

/-- `v in xs` for a list -/
def contains : V → V → M Bool
  | .nil, _ => pure false
  | .cons a rest, v => if pyEq a v then pure true else contains rest v
  | .tup2 a b, v => pure (pyEq a v || pyEq b v)
  | .tup3 a b c, v => pure (pyEq a v || pyEq b v || pyEq c v)
  | _, _ => throw .typeError

def enumAux : V → Int → M V
  | .nil, _ => pure .nil
  | .cons a rest, i => do pure (.cons (.tup2 (.int i) a) (← enumAux rest (i + 1)))
  | _, _ => throw .typeError

/-- `enumerate(xs)` as a list of pairs -/
def enumerate (xs : V) : M V := do enumAux (← asList xs) 0

def infixL : List Char → List Char → Bool
  | [], _ => true
  | _ :: _, [] => false
  | n, h :: hs => n.isPrefixOf (h :: hs) || infixL n hs

/-- `needle in hay` for strings (substring test) -/
def strIn (needle hay : String) : Bool := infixL needle.toList hay.toList

/-- `x in 'CF'` for a value `x` (a string: substring test; anything else: TypeError) -/
def strInV : V → String → M Bool
  | .str s, hay => pure (strIn s hay)
  | _, _ => throw .typeError

/-- `range(a, b, c)` as a list -/
def pyRange : V → V → V → M V
  | .int a, .int b, .int c =>
      if c = 0 then throw .valueError
      else pure (ofList ((rangeInts a c (rangeLen a b c)).map V.int))
  | _, _, _ => throw .typeError

def slice1 (stop : V) : V := .slice .none stop .none
def slice2 (start stop : V) : V := .slice start stop .none

end V
end Nb.Py
