/-
  Basic/PyValC13 — the interface of the NumPy / builtin PRIMITIVES that the methods translated by
  `harness/py2lean_c13.py` (from `nibabel/dataobj_images.py`, on every run of `./check C13`) are allowed to
  call.  The translated methods are parametric in a value of this structure; what the primitives DO is
  not part of the translation — it is supplied by the model (`Model/C13_Py.lean`, `prims`), stated there
  explicitly, and validated on every run by the `gen` / `genst` correspondence streams (translated method in
  the native driver vs the real method on a real image in the same abstract state).  Core Lean only.
-/
import NibabelModel.Basic.PyVal
namespace Nb.Py

structure NpPrims where
  /-- `np.dtype(x)` -/
  np_dtype : V → M V
  /-- `np.asanyarray(obj)` (second argument `V.none`) / `np.asanyarray(obj, dtype=d)` -/
  np_asanyarray : V → V → M V
  /-- `obj.name` for an object other than `self` -/
  getattr : V → V → M V
  /-- `issubclass(t, cls)` -/
  issubclass : V → V → M V
  /-- `isinstance(x, cls)` -/
  isinstance : V → V → M V
  /-- any other call `f(args…)` / `np.f(args…)`: name and argument list -/
  call : V → V → M V

namespace PyC13

/-- `a + b` as the translated code uses it: integer addition, or concatenation of two sequences (tuples / lists) -/
def add : V → V → M V
  | .int a, .int b => pure (.int (a + b))
  | a, b => if V.isSeq a && V.isSeq b then do V.extend (← V.asList a) b else throw .typeError

end PyC13

end Nb.Py
