import NibabelModel.Model.C12
/-! REGENERATED on every run by harness/props/c12.py `regen()` from the working tree:
    `nibabel.imageclasses.all_image_classes` (files_types, valid_exts, _compressed_suffixes,
    makeable, rw, sniffing header, filespec override, serialisable), `ImageOpener.compress_ext_map`,
    `Opener.compress_ext_icase`, `loadsave._compressed_suffixes`, default `addexts`. Do not edit. -/
namespace Nb.C12.Gen
open Nb.C12

def rowNifti1Pair : ClassRow :=
  { name := [78, 105, 102, 116, 105, 49, 80, 97, 105, 114] /- 'Nifti1Pair' -/,
    filesTypes := [([105, 109, 97, 103, 101] /- 'image' -/, some [46, 105, 109, 103] /- '.img' -/), ([104, 101, 97, 100, 101, 114] /- 'header' -/, some [46, 104, 100, 114] /- '.hdr' -/)],
    validExts := [[46, 105, 109, 103] /- '.img' -/, [46, 104, 100, 114] /- '.hdr' -/],
    suffixes := [[46, 103, 122] /- '.gz' -/, [46, 98, 122, 50] /- '.bz2' -/, [46, 122, 115, 116] /- '.zst' -/],
    makeable := true, rw := true, sniffs := true, fmKind := 0, serial := false }

def rowNifti1Image : ClassRow :=
  { name := [78, 105, 102, 116, 105, 49, 73, 109, 97, 103, 101] /- 'Nifti1Image' -/,
    filesTypes := [([105, 109, 97, 103, 101] /- 'image' -/, some [46, 110, 105, 105] /- '.nii' -/)],
    validExts := [[46, 110, 105, 105] /- '.nii' -/],
    suffixes := [[46, 103, 122] /- '.gz' -/, [46, 98, 122, 50] /- '.bz2' -/, [46, 122, 115, 116] /- '.zst' -/],
    makeable := true, rw := true, sniffs := true, fmKind := 0, serial := true }

def rowNifti2Pair : ClassRow :=
  { name := [78, 105, 102, 116, 105, 50, 80, 97, 105, 114] /- 'Nifti2Pair' -/,
    filesTypes := [([105, 109, 97, 103, 101] /- 'image' -/, some [46, 105, 109, 103] /- '.img' -/), ([104, 101, 97, 100, 101, 114] /- 'header' -/, some [46, 104, 100, 114] /- '.hdr' -/)],
    validExts := [[46, 105, 109, 103] /- '.img' -/, [46, 104, 100, 114] /- '.hdr' -/],
    suffixes := [[46, 103, 122] /- '.gz' -/, [46, 98, 122, 50] /- '.bz2' -/, [46, 122, 115, 116] /- '.zst' -/],
    makeable := true, rw := true, sniffs := true, fmKind := 0, serial := false }

def rowCifti2Image : ClassRow :=
  { name := [67, 105, 102, 116, 105, 50, 73, 109, 97, 103, 101] /- 'Cifti2Image' -/,
    filesTypes := [([105, 109, 97, 103, 101] /- 'image' -/, some [46, 110, 105, 105] /- '.nii' -/)],
    validExts := [[46, 110, 105, 105] /- '.nii' -/],
    suffixes := [],
    makeable := false, rw := true, sniffs := true, fmKind := 0, serial := true }

def rowNifti2Image : ClassRow :=
  { name := [78, 105, 102, 116, 105, 50, 73, 109, 97, 103, 101] /- 'Nifti2Image' -/,
    filesTypes := [([105, 109, 97, 103, 101] /- 'image' -/, some [46, 110, 105, 105] /- '.nii' -/)],
    validExts := [[46, 110, 105, 105] /- '.nii' -/],
    suffixes := [[46, 103, 122] /- '.gz' -/, [46, 98, 122, 50] /- '.bz2' -/, [46, 122, 115, 116] /- '.zst' -/],
    makeable := true, rw := true, sniffs := true, fmKind := 0, serial := true }

def rowSpm2AnalyzeImage : ClassRow :=
  { name := [83, 112, 109, 50, 65, 110, 97, 108, 121, 122, 101, 73, 109, 97, 103, 101] /- 'Spm2AnalyzeImage' -/,
    filesTypes := [([105, 109, 97, 103, 101] /- 'image' -/, some [46, 105, 109, 103] /- '.img' -/), ([104, 101, 97, 100, 101, 114] /- 'header' -/, some [46, 104, 100, 114] /- '.hdr' -/), ([109, 97, 116] /- 'mat' -/, some [46, 109, 97, 116] /- '.mat' -/)],
    validExts := [[46, 105, 109, 103] /- '.img' -/, [46, 104, 100, 114] /- '.hdr' -/],
    suffixes := [[46, 103, 122] /- '.gz' -/, [46, 98, 122, 50] /- '.bz2' -/, [46, 122, 115, 116] /- '.zst' -/],
    makeable := true, rw := true, sniffs := true, fmKind := 0, serial := false }

def rowSpm99AnalyzeImage : ClassRow :=
  { name := [83, 112, 109, 57, 57, 65, 110, 97, 108, 121, 122, 101, 73, 109, 97, 103, 101] /- 'Spm99AnalyzeImage' -/,
    filesTypes := [([105, 109, 97, 103, 101] /- 'image' -/, some [46, 105, 109, 103] /- '.img' -/), ([104, 101, 97, 100, 101, 114] /- 'header' -/, some [46, 104, 100, 114] /- '.hdr' -/), ([109, 97, 116] /- 'mat' -/, some [46, 109, 97, 116] /- '.mat' -/)],
    validExts := [[46, 105, 109, 103] /- '.img' -/, [46, 104, 100, 114] /- '.hdr' -/],
    suffixes := [[46, 103, 122] /- '.gz' -/, [46, 98, 122, 50] /- '.bz2' -/, [46, 122, 115, 116] /- '.zst' -/],
    makeable := true, rw := true, sniffs := true, fmKind := 0, serial := false }

def rowAnalyzeImage : ClassRow :=
  { name := [65, 110, 97, 108, 121, 122, 101, 73, 109, 97, 103, 101] /- 'AnalyzeImage' -/,
    filesTypes := [([105, 109, 97, 103, 101] /- 'image' -/, some [46, 105, 109, 103] /- '.img' -/), ([104, 101, 97, 100, 101, 114] /- 'header' -/, some [46, 104, 100, 114] /- '.hdr' -/)],
    validExts := [[46, 105, 109, 103] /- '.img' -/, [46, 104, 100, 114] /- '.hdr' -/],
    suffixes := [[46, 103, 122] /- '.gz' -/, [46, 98, 122, 50] /- '.bz2' -/, [46, 122, 115, 116] /- '.zst' -/],
    makeable := true, rw := true, sniffs := true, fmKind := 0, serial := false }

def rowMinc1Image : ClassRow :=
  { name := [77, 105, 110, 99, 49, 73, 109, 97, 103, 101] /- 'Minc1Image' -/,
    filesTypes := [([105, 109, 97, 103, 101] /- 'image' -/, some [46, 109, 110, 99] /- '.mnc' -/)],
    validExts := [[46, 109, 110, 99] /- '.mnc' -/],
    suffixes := [[46, 103, 122] /- '.gz' -/, [46, 98, 122, 50] /- '.bz2' -/, [46, 122, 115, 116] /- '.zst' -/],
    makeable := true, rw := false, sniffs := true, fmKind := 0, serial := false }

def rowMinc2Image : ClassRow :=
  { name := [77, 105, 110, 99, 50, 73, 109, 97, 103, 101] /- 'Minc2Image' -/,
    filesTypes := [([105, 109, 97, 103, 101] /- 'image' -/, some [46, 109, 110, 99] /- '.mnc' -/)],
    validExts := [[46, 109, 110, 99] /- '.mnc' -/],
    suffixes := [],
    makeable := true, rw := false, sniffs := true, fmKind := 0, serial := false }

def rowMGHImage : ClassRow :=
  { name := [77, 71, 72, 73, 109, 97, 103, 101] /- 'MGHImage' -/,
    filesTypes := [([105, 109, 97, 103, 101] /- 'image' -/, some [46, 109, 103, 104] /- '.mgh' -/)],
    validExts := [[46, 109, 103, 104] /- '.mgh' -/, [46, 109, 103, 122] /- '.mgz' -/],
    suffixes := [],
    makeable := true, rw := true, sniffs := false, fmKind := 1, serial := true }

def rowPARRECImage : ClassRow :=
  { name := [80, 65, 82, 82, 69, 67, 73, 109, 97, 103, 101] /- 'PARRECImage' -/,
    filesTypes := [([105, 109, 97, 103, 101] /- 'image' -/, some [46, 114, 101, 99] /- '.rec' -/), ([104, 101, 97, 100, 101, 114] /- 'header' -/, some [46, 112, 97, 114] /- '.par' -/)],
    validExts := [[46, 114, 101, 99] /- '.rec' -/, [46, 112, 97, 114] /- '.par' -/],
    suffixes := [],
    makeable := false, rw := false, sniffs := false, fmKind := 0, serial := false }

def rowGiftiImage : ClassRow :=
  { name := [71, 105, 102, 116, 105, 73, 109, 97, 103, 101] /- 'GiftiImage' -/,
    filesTypes := [([105, 109, 97, 103, 101] /- 'image' -/, some [46, 103, 105, 105] /- '.gii' -/)],
    validExts := [[46, 103, 105, 105] /- '.gii' -/],
    suffixes := [[46, 103, 122] /- '.gz' -/, [46, 98, 122, 50] /- '.bz2' -/],
    makeable := true, rw := true, sniffs := false, fmKind := 0, serial := true }

def rowAFNIImage : ClassRow :=
  { name := [65, 70, 78, 73, 73, 109, 97, 103, 101] /- 'AFNIImage' -/,
    filesTypes := [([105, 109, 97, 103, 101] /- 'image' -/, some [46, 98, 114, 105, 107] /- '.brik' -/), ([104, 101, 97, 100, 101, 114] /- 'header' -/, some [46, 104, 101, 97, 100] /- '.head' -/)],
    validExts := [[46, 98, 114, 105, 107] /- '.brik' -/, [46, 104, 101, 97, 100] /- '.head' -/],
    suffixes := [[46, 103, 122] /- '.gz' -/, [46, 98, 122, 50] /- '.bz2' -/, [46, 90] /- '.Z' -/, [46, 122, 115, 116] /- '.zst' -/],
    makeable := false, rw := false, sniffs := false, fmKind := 2, serial := false }

/-- `all_image_classes`, in load/save priority order -/
def classTable : List ClassRow := [rowNifti1Pair, rowNifti1Image, rowNifti2Pair, rowCifti2Image, rowNifti2Image, rowSpm2AnalyzeImage, rowSpm99AnalyzeImage, rowAnalyzeImage, rowMinc1Image, rowMinc2Image, rowMGHImage, rowPARRECImage, rowGiftiImage, rowAFNIImage]

/-- `ImageOpener.compress_ext_map` without the `None` entry, dict order; codec 1 gzip, 2 bz2, 3 zstd -/
def openerKeys : List (Str × Nat) := [([46, 103, 122] /- '.gz' -/, 1), ([46, 98, 122, 50] /- '.bz2' -/, 2), ([46, 122, 115, 116] /- '.zst' -/, 3), ([46, 109, 103, 122] /- '.mgz' -/, 1)]

/-- `Opener.compress_ext_map` of the BASE class (used by streamlines, freesurfer.io, user code) -/
def baseOpenerKeys : List (Str × Nat) := [([46, 103, 122] /- '.gz' -/, 1), ([46, 98, 122, 50] /- '.bz2' -/, 2), ([46, 122, 115, 116] /- '.zst' -/, 3)]

def compressExtIcase : Bool := true

/-- `loadsave._compressed_suffixes` -/
def saveSuffixes : List Str := [[46, 103, 122] /- '.gz' -/, [46, 98, 122, 50] /- '.bz2' -/, [46, 122, 115, 116] /- '.zst' -/]

/-- default `addexts` of `splitext_addext` -/
def saeDefault : List Str := [[46, 103, 122] /- '.gz' -/, [46, 98, 122, 50] /- '.bz2' -/, [46, 122, 115, 116] /- '.zst' -/]

/-- default `trailing_suffixes` of `types_filenames` -/
def tfDefault : List Str := [[46, 103, 122] /- '.gz' -/, [46, 98, 122, 50] /- '.bz2' -/]

end Nb.C12.Gen
