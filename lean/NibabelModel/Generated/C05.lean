/-! GENERATED from the nibabel working tree by harness/props/c05.py (regen) — do not edit by hand. -/
namespace Nb.C05.Gen
/-- default `labels` of `ornt2axcodes` (orientations.py) -/
def labelsOrnt2ax : List (Char × Char) := [('L', 'R'), ('P', 'A'), ('I', 'S')]
/-- default `labels` of `axcodes2ornt` (orientations.py) -/
def labelsAx2ornt : List (Char × Char) := [('L', 'R'), ('P', 'A'), ('I', 'S')]
/-- the literal `as_reoriented` compares `ornt` with before returning `self` (spatialimages.py) -/
def identityOrnt : List (Nat × Int) := [(0, 1), (1, 1), (2, 1)]
/-- `center_trans = -(shape - centerSub) / centerDiv` (inv_ornt_aff) -/
def centerSub : Int := 1
def centerDiv : Int := 2
/-- column of `ornt` read by the dim_info remap `int(ornt[orig_dim, col])` (nifti1.py) -/
def dimInfoCol : Nat := 0
/-- every attribute `self.X` that `SpatialImage.as_reoriented` touches (spatialimages.py) -/
def reorientSelfAttrs : List String := ["__class__", "affine", "dataobj", "header", "shape"]
/-- every attribute `self.img.X` that `SpatialFirstSlicer.__getitem__` touches (spatialimages.py) -/
def slicerImgAttrs : List String := ["__class__", "dataobj", "header"]
/-- every attribute `self.X` that `Nifti1Pair.as_reoriented` touches (nifti1.py) -/
def niftiReorientSelfAttrs : List String := []
/-- every attribute `img.X` that `as_closest_canonical` touches (funcs.py) -/
def canonicalImgAttrs : List String := ["affine", "as_reoriented"]
end Nb.C05.Gen
