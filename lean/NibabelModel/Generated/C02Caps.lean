import NibabelModel.Model.C02
namespace Nb.C02.Gen
def capsTable : List (Cls × Bool × Bool) := [(.nifti, true, true)]
theorem caps_table_ok : ∀ r ∈ capsTable, r.1.caps = ⟨r.2.1, r.2.2⟩ := by decide
end Nb.C02.Gen
