import NibabelModel.Model.C16
import NibabelModel.Model.C16_Ext
import NibabelModel.Model.C16_Save
/-! GENERATED on every run by harness/props/c16.py `regen()` from nibabel/streamlines/tck.py and trk.py
    of the working tree — do not edit.  The `_eq_model` theorems tie the hand-written model to the
    current source text; the property theorems in Props/C16 are stated about these definitions. -/
namespace Nb.C16.Gen
open Nb.C16

/-- translated from the AST of `TckFile._write_header` (`out` = header text, `lenOut = len(out)`) -/
def tckHdrOffset (lenOut : Nat) : Nat :=
  let hdr_offset := (((lenOut + 8) + 3) + 3)
  let offset_repr_len := (decDigits hdr_offset)
  let hdr_offset := hdr_offset + (decDigits (hdr_offset + offset_repr_len))
  hdr_offset

/-- `len` of the text written before / after the number in `fileobj.write(f'\nfile: . {hdr_offset}\nEND\n')` -/
def tckFilePrefixLen : Nat := 9
def tckFileSuffixLen : Nat := 5

/-- translated from `TckFile._read`: `coordinate_size = 3 * dtype.itemsize` (float32), then the rounding line;
    the argument is `int(buffer_size * MEGABYTE)` -/
def coordinate_size : Nat := 12
def tckBufferBytes (buffer_size : Nat) : Nat :=
  let buffer_size := buffer_size + (coordinate_size - (buffer_size % coordinate_size))
  buffer_size

def megabyte : Nat := 1048576
def nanWord : Nat := 2143289344
def infWord : Nat := 2139095040
def trkHeaderSize : Nat := 1000
def trkHeaderItemsize : Nat := 1000
def trkMaxNameLen : Nat := 20
def trkNameFieldLen : Nat := 20
def trkPropFieldLen : Nat := 20
def trkMaxScalars : Nat := 10
def trkMaxProps : Nat := 10
def trkNameFields : Nat := 10
def trkPropFields : Nat := 10

/-- read off the AST of `TckFile._read` / `TrkFile._read`: the `f.seek(start_position, os.SEEK_xxx)` and whether it is
    the only statement of the `finally:` clause of a `try` that encloses every `yield` (and directly follows
    `start_position = f.tell()`), or the last statement of the body -/
def tckReadSeek : SeekSpec := ⟨.set, true⟩
def trkReadSeek : SeekSpec := ⟨.set, true⟩

/-- byte offsets of the TRK header fields in `header_2_dtype` -/
def trkOffNs : Nat := 36
def trkOffScalarNames : Nat := 38
def trkOffNp : Nat := 238
def trkOffPropNames : Nat := 240
def trkOffB : Nat := 440
def trkOffN : Nat := 988
def trkOffVersion : Nat := 992
def trkOffHdrSize : Nat := 996

/-- read off the AST of `TrkFile.save`: are the encoded names written straight into the (inherited) header tables
    (`header['scalar_name'][i] = …`), or into a fresh `np.zeros(MAX_…, dtype='S20')` table that then replaces the whole
    field (`header['scalar_name'][:] = table`)?  And does the empty-tractogram branch zero the three counts? -/
def trkNameTablesInPlace : Bool := false
def trkEmptyZeroesCounts : Bool := true
def trkZeroTable : List (List Nat) := List.replicate trkMaxScalars (List.replicate trkNameFieldLen 0)

theorem trkSaveHeader_eq_model :
    (∀ sup items, Nb.C16.trkSaveItemsFrom trkNameTablesInPlace sup items = Nb.C16.trkSaveItemsH sup items) ∧
    trkEmptyZeroesCounts = true ∧ trkZeroTable = Nb.C16.zeroFields ∧
    List.replicate trkMaxProps (List.replicate trkPropFieldLen 0) = Nb.C16.zeroFields :=
  ⟨fun _ _ => rfl, by decide, by decide, by decide⟩
theorem readSeek_eq_model : tckReadSeek = Nb.C16.seekFixed ∧ trkReadSeek = Nb.C16.seekFixed := by decide
theorem trkOffsets_eq_model :
    trkOffNs = Nb.C16.trkOffNs ∧ trkOffScalarNames = Nb.C16.trkOffScalarNames ∧ trkOffNp = Nb.C16.trkOffNp ∧
    trkOffPropNames = Nb.C16.trkOffPropNames ∧ trkOffB = Nb.C16.trkOffB ∧ trkOffN = Nb.C16.trkOffN ∧
    trkOffVersion = Nb.C16.trkOffVersion ∧ trkOffHdrSize = Nb.C16.trkOffHdrSize := by decide
theorem tckHdrOffset_eq_model (n : Nat) : tckHdrOffset n = Nb.C16.tckHdrOffset n := rfl
theorem tckBufferBytes_eq_model (n : Nat) : tckBufferBytes n = Nb.C16.tckBufferBytes n := rfl
theorem consts_eq_model :
    tckFilePrefixLen = Nb.C16.tckFilePrefixLen ∧ tckFileSuffixLen = Nb.C16.tckFileSuffixLen ∧
    coordinate_size = Nb.C16.tckCoordSize ∧ nanWord = Nb.C16.nanWord ∧ infWord = Nb.C16.infWord ∧
    isNaN32 nanWord = true ∧ isInf32 infWord = true ∧
    trkHeaderSize = Nb.C16.trkHeaderSize ∧ trkHeaderItemsize = Nb.C16.trkHeaderSize ∧
    trkMaxNameLen = 20 ∧ trkNameFieldLen = 20 ∧ trkPropFieldLen = 20 ∧
    trkMaxScalars = 10 ∧ trkMaxProps = 10 ∧ trkNameFields = 10 ∧ trkPropFields = 10 ∧ 0 < megabyte := by decide

end Nb.C16.Gen
