import NibabelModel.Model.C04
/-! GENERATED from /repo by harness/props/c04.py (regen) — do not edit by hand. -/
namespace Nb.C04.Gen
def n1QuatThr : Rat := (3 : Rat) / 8388608
def n2QuatThr : Rat := (-3 : Rat) / 4503599627370496
def floatEps : Rat := (1 : Rat) / 4503599627370496
/-- tolerances of the `np.allclose` call in `SpatialImage.update_header` (keywords of the call, else NumPy defaults) -/
def rtol : Rat := (5902958103587057 : Rat) / 590295810358705651712
def atol : Rat := (3022314549036573 : Rat) / 302231454903657293676544
/-- `Spm99AnalyzeImage.from_file_map` / `to_file_map`: `to_111[:3, 3]`, `from_111[:3, 3]`, `np.diag` flips -/
def spmTo111 : Int := 1
def spmFrom111 : Int := -1
def spmFlipRead : List Int := [-1, 1, 1, 1]
def spmFlipWrite : List Int := [-1, 1, 1, 1]
/-- `nibabel.nifti1.xform_codes`: every valid code with its string aliases -/
def xformTable : List (Nat × List String) := [(0, ["NIFTI_XFORM_UNKNOWN", "unknown"]), (1, ["NIFTI_XFORM_SCANNER_ANAT", "scanner"]), (2, ["NIFTI_XFORM_ALIGNED_ANAT", "aligned"]), (3, ["NIFTI_XFORM_TALAIRACH", "talairach"]), (4, ["NIFTI_XFORM_MNI_152", "mni"]), (5, ["NIFTI_XFORM_TEMPLATE_OTHER", "template"])]
def xformCodes : List Nat := xformTable.map (·.1)
/-- body of `Nifti1Header.get_best_affine` (nibabel/nifti1.py) of the working tree -/
def skBestAffine : Sk :=
  (.act "hdr = self._structarr" (.ite "hdr['sform_code'] != 0" (.ret "self.get_sform()") (.ite "hdr['qform_code'] != 0" (.ret "self.get_qform()") (.ret "self.get_base_affine()"))))
/-- body of `SpatialImage.update_header` (nibabel/spatialimages.py) of the working tree -/
def skUpdateHeader : Sk :=
  (.act "hdr = self._header" (.act "shape = self._dataobj.shape" (.ite "hdr.get_data_shape() != shape" (.act "hdr.set_data_shape(shape)" (.ite "self._affine is None" (.ret "") (.ite "np.allclose(self._affine, hdr.get_best_affine())" (.ret "") (.act "self._affine2header()" (.ret ""))))) (.ite "self._affine is None" (.ret "") (.ite "np.allclose(self._affine, hdr.get_best_affine())" (.ret "") (.act "self._affine2header()" (.ret "")))))))
/-- body of `Spm99AnalyzeImage.to_file_map` (nibabel/spm99analyze.py) of the working tree -/
def skSpmWrite : Sk :=
  (.ite "file_map is None" (.act "file_map = self.file_map" (.act "super().to_file_map(file_map, dtype=dtype)" (.act "mat = self._affine" (.ite "mat is None" (.ret "") (.act "hdr = self._header" (.ite "hdr.default_x_flip" (.act "M = np.dot(np.diag([-1, 1, 1, 1]), mat)" (.act "from_111 = np.eye(4)" (.act "from_111[:3, 3] = -1" (.act "M = np.dot(M, from_111)" (.act "mat = np.dot(mat, from_111)" (.act "with file_map['mat'].get_prepare_fileobj(mode='wb') as mfobj" (.act "sio.savemat(mfobj, {'M': M, 'mat': mat}, format='4')" (.ret "")))))))) (.act "M = mat" (.act "from_111 = np.eye(4)" (.act "from_111[:3, 3] = -1" (.act "M = np.dot(M, from_111)" (.act "mat = np.dot(mat, from_111)" (.act "with file_map['mat'].get_prepare_fileobj(mode='wb') as mfobj" (.act "sio.savemat(mfobj, {'M': M, 'mat': mat}, format='4')" (.ret "")))))))))))))) (.act "super().to_file_map(file_map, dtype=dtype)" (.act "mat = self._affine" (.ite "mat is None" (.ret "") (.act "hdr = self._header" (.ite "hdr.default_x_flip" (.act "M = np.dot(np.diag([-1, 1, 1, 1]), mat)" (.act "from_111 = np.eye(4)" (.act "from_111[:3, 3] = -1" (.act "M = np.dot(M, from_111)" (.act "mat = np.dot(mat, from_111)" (.act "with file_map['mat'].get_prepare_fileobj(mode='wb') as mfobj" (.act "sio.savemat(mfobj, {'M': M, 'mat': mat}, format='4')" (.ret "")))))))) (.act "M = mat" (.act "from_111 = np.eye(4)" (.act "from_111[:3, 3] = -1" (.act "M = np.dot(M, from_111)" (.act "mat = np.dot(mat, from_111)" (.act "with file_map['mat'].get_prepare_fileobj(mode='wb') as mfobj" (.act "sio.savemat(mfobj, {'M': M, 'mat': mat}, format='4')" (.ret ""))))))))))))))
/-- body of `Spm99AnalyzeImage.from_file_map` (nibabel/spm99analyze.py) of the working tree -/
def skSpmRead : Sk :=
  (.act "ret = super().from_file_map(file_map, mmap=mmap, keep_file_open=keep_file_open)" (.ite "try-raises OSError: matf = file_map['mat'].get_prepare_fileobj()" (.ret "ret") (.act "matf = file_map['mat'].get_prepare_fileobj()" (.act "with matf" (.act "contents = matf.read()" (.ite "len(contents) == 0" (.ret "ret") (.act "mats = sio.loadmat(BytesIO(contents))" (.ite "'mat' in mats" (.act "mat = mats['mat']" (.ite "mat.ndim > 2" (.act "warnings.warn('More than one affine in \"mat\" matrix, using first')" (.act "mat = mat[:, :, 0]" (.act "ret._affine = mat" (.act "to_111 = np.eye(4)" (.act "to_111[:3, 3] = 1" (.act "ret._affine = np.dot(ret._affine, to_111)" (.ret "ret"))))))) (.act "ret._affine = mat" (.act "to_111 = np.eye(4)" (.act "to_111[:3, 3] = 1" (.act "ret._affine = np.dot(ret._affine, to_111)" (.ret "ret"))))))) (.ite "'M' in mats" (.act "hdr = ret._header" (.ite "hdr.default_x_flip" (.act "ret._affine = np.dot(np.diag([-1, 1, 1, 1]), mats['M'])" (.act "to_111 = np.eye(4)" (.act "to_111[:3, 3] = 1" (.act "ret._affine = np.dot(ret._affine, to_111)" (.ret "ret"))))) (.act "ret._affine = mats['M']" (.act "to_111 = np.eye(4)" (.act "to_111[:3, 3] = 1" (.act "ret._affine = np.dot(ret._affine, to_111)" (.ret "ret"))))))) (.raise "ValueError"))))))))))
end Nb.C04.Gen
