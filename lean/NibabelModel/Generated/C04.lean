/-! GENERATED from /repo by harness/props/c04.py (regen) — do not edit by hand. -/
namespace Nb.C04.Gen
def n1QuatThr : Rat := (3 : Rat) / 8388608
def n2QuatThr : Rat := (-3 : Rat) / 4503599627370496
def floatEps : Rat := (1 : Rat) / 4503599627370496
/-- tolerances of the `np.allclose` call in `SpatialImage.update_header` (keywords of the call, else NumPy defaults) -/
def rtol : Rat := (5902958103587057 : Rat) / 590295810358705651712
def atol : Rat := (3022314549036573 : Rat) / 302231454903657293676544
/-- `Spm99AnalyzeImage.from_file_map` / `to_file_map`: `to_111[:3, 3]`, `from_111[:3, 3]`, `np.diag` flips -/
def spmTo111 : Int := 1
def spmFrom111 : Int := -1
def spmFlipRead : List Int := [-1, 1, 1, 1]
def spmFlipWrite : List Int := [-1, 1, 1, 1]
/-- `nibabel.nifti1.xform_codes`: every valid code with its string aliases -/
def xformTable : List (Nat × List String) := [(0, ["NIFTI_XFORM_UNKNOWN", "unknown"]), (1, ["NIFTI_XFORM_SCANNER_ANAT", "scanner"]), (2, ["NIFTI_XFORM_ALIGNED_ANAT", "aligned"]), (3, ["NIFTI_XFORM_TALAIRACH", "talairach"]), (4, ["NIFTI_XFORM_MNI_152", "mni"]), (5, ["NIFTI_XFORM_TEMPLATE_OTHER", "template"])]
def xformCodes : List Nat := xformTable.map (·.1)
end Nb.C04.Gen
