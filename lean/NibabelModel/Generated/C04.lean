/-! GENERATED from /repo by harness/props/c04.py (regen) — do not edit by hand. -/
namespace Nb.C04.Gen
def n1QuatThr : Rat := (3 : Rat) / 8388608
def n2QuatThr : Rat := (-3 : Rat) / 4503599627370496
def floatEps : Rat := (1 : Rat) / 4503599627370496
def rtol : Rat := (5902958103587057 : Rat) / 590295810358705651712
def atol : Rat := (3022314549036573 : Rat) / 302231454903657293676544
end Nb.C04.Gen
