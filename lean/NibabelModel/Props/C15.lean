import NibabelModel.Model.C15
/-! Props/C15 — the property theorems for C15 (statements + proofs; helper lemmas live in Lemmas/). -/
namespace Nb.C15

end Nb.C15
