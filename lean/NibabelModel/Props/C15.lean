import NibabelModel.Lemmas.C15_Build
import NibabelModel.Lemmas.C15_Tract
import NibabelModel.Lemmas.C15_Set
import NibabelModel.Lemmas.C15_Copy
/-! Props/C15 — ArraySequence is observationally a list of arrays under any history.

  `Inv` (Lemmas/C15.lean) is the storage invariant: every range lies in the written prefix of its
  buffer, lengths are positive, a buffer has at most one owning (non-view) sequence, every range
  of every sequence sharing an owner's buffer ends at or before the owner's next offset (the
  owner's tail is not shared), and two ranges of one buffer are equal or disjoint.

  Proved for ALL states satisfying `Inv` and ALL histories (any length, any number of live sequences,
  views of views, growing views): `inv_run` (every operation of `Op` keeps `Inv`) and, for every
  operation that does not write through an existing array (new, append, extend list / generator /
  sequence, ArraySequence(seq), copy, slice / list / mask / int getitem, `seq op k`, unary operators,
  `seq op other`, concatenate), refinement of the plain Python list of arrays (`refines_list_partial`,
  `step_refines`).  The writes (int / slice setitem, in-place arithmetic with a scalar) are characterised
  state by state under `Inv` (`setitem_is_list_setitem`, `view_setitem_hits_parent_exactly`,
  `iop_all_or_none`).  Still partial: a single linked reference run that also carries the writes
  (`refines_list_partial`), and the all-part of in-place arithmetic with an ArraySequence operand
  (`iopSeq_spec_partial`).

  In-place arithmetic and dtypes: an in-place operator calls `ndarray.__iadd__` … on the slice of the
  buffer, whose result has the buffer's dtype, so `astype(tmp.dtype, copy=False)` never copies: the
  operation either reaches ALL shared arrays (`iop_all_or_none`, `iopSeq_all_or_none`) or NumPy raises at
  the first array, before anything is written — NONE (`iopF_ok_iff`, `iopSeq_step_ok_iff`, over tables
  regenerated from NumPy).  There is no "promoting copy" branch for in-place operators in the code.

  Tractograms (last section): `tinv_run` (every tractogram history keeps `Inv` and every held sequence
  live), `tract_creation_changes_nothing`, `textend_only_receiver_changes`, `textend_preserves_donor`,
  `growing_derived_tractogram_preserves_parent`, `growing_accumulator_preserves_donors`.  Not theorems: the
  contents a grown tractogram shows, and that tractograms never hold a common sequence.
-/
namespace Nb.C15
open Nb

theorem pyIntIndex_lt {n : Nat} {i : Int} {j : Nat} (h : pyIntIndex n i = some j) : j < n := by
  unfold pyIntIndex at h
  split at h
  · cases h; omega
  · split at h
    · cases h; omega
    · cases h

theorem getD_mem {α} (l : List α) (j : Nat) (d : α) (h : j < l.length) : l.getD j d ∈ l := by
  simp [List.getD, h]

theorem unary_length (code : Nat) (e : Elem) : (unary code e).length = e.length := by
  simp [unary]

/-- EVERY operation keeps the storage invariant -/
theorem inv_step {σ σ' : State} (h : Inv σ) (op : Op) (hs : step σ op = .ok σ') : Inv σ' := by
  cases op <;> simp only [step] at hs
  case extend t w dt els =>
    split at hs
    · cases hs; exact (extendList_spec h (by assumption) els w dt).1
    · cases hs
  case extendGen t w dt els =>
    split at hs
    · cases hs; exact (extendGen_spec h (by assumption) els w dt).1
    · cases hs
  case extendSeq t u w =>
    split at hs
    · rename_i hc; cases hs; exact (extendSeq_spec h hc.1 hc.2 w).1
    · cases hs
  case op t code k =>
    split at hs
    · rename_i ht
      split at hs
      · rename_i σ'' hi
        cases hs
        exact (opNew_spec _ (arith_length code k) h ht hi).1
      · cases hs
    · cases hs
  case unary t code =>
    split at hs
    · rename_i ht
      split at hs
      · rename_i σ'' hi
        cases hs
        exact (opNew_spec _ (unary_length code) h ht hi).1
      · cases hs
    · cases hs
  case iopSeq t v code =>
    split at hs
    · rename_i hc
      split at hs
      · rename_i σ'' hi
        split at hs
        · cases hs; exact (iopSeq_spec_partial code h hc.1 hc.2 hi).1
        · cases hs
      · cases hs
    · cases hs
  case iopF t code k =>
    split at hs
    · rename_i ht
      split at hs
      · rename_i σ'' hi
        split at hs
        · cases hs; exact (inv_iop h ht code k hi).1
        · cases hs
      · cases hs
    · cases hs
  case opSeq t v code =>
    split at hs
    · rename_i hc; exact (opSeq_spec code h hc.1 hc.2 hs).1
    · cases hs
  case concat ts w =>
    split at hs
    · cases hs
    · rename_i t us
      split at hs
      · rename_i hall
        cases hs
        simp only [List.all_cons, Bool.and_eq_true, decide_eq_true_eq, List.all_eq_true] at hall
        exact (concat_spec h hall.1 us hall.2 w).1
      · cases hs
  case new bb => cases hs; exact inv_new h bb
  case append t w dt el =>
    split at hs
    · cases hs; exact (append_spec h (by assumption) el w dt).1
    · cases hs
  case view t bb =>
    split at hs
    · cases hs; exact inv_viewCtor h (by assumption) bb
    · cases hs
  case copy t =>
    split at hs
    · cases hs; exact inv_copyOp h (by assumption)
    · cases hs
  case slice t sl =>
    split at hs
    · split at hs
      · cases hs
      · cases hs; exact inv_getView h (by assumption) _
    · cases hs
  case fancy t idx =>
    split at hs
    · split at hs
      · cases hs; exact inv_getView h (by assumption) _
      · cases hs
    · cases hs
  case mask t m =>
    split at hs
    · split at hs
      · cases hs; exact inv_getView h (by assumption) _
      · cases hs
    · cases hs
  case getInt t i =>
    split at hs
    · split at hs
      · cases hs; exact h
      · cases hs
    · cases hs
  case setInt t i el =>
    split at hs
    · rename_i ht
      split at hs
      · rename_i j hj
        split at hs
        · rename_i hl
          cases hs
          exact inv_setRange h ht (getD_mem _ _ _ (pyIntIndex_lt hj)) hl.symm
        · cases hs
      · cases hs
    · cases hs
  case setSlice t sl els =>
    split at hs
    · rename_i ht
      split at hs
      · cases hs
      · split at hs
        · rename_i hm
          cases hs
          exact (setMany_inv _ els h ht (fun _ hr => mem_of_filterMap_get hr) hm).1
        · cases hs
    · cases hs
  case setIdxSeq t idx v =>
    split at hs
    · rename_i hc
      split at hs
      · cases hs
      · exact (setSeq_spec_partial h hc.1 hc.2 (fun _ hr => mem_of_filterMap_get hr) hs).1
    · cases hs
  case setIdxList t idx els =>
    split at hs
    · rename_i ht
      split at hs
      · cases hs
      · split at hs
        · rename_i hm
          cases hs
          exact (setMany_inv _ els h ht (fun _ hr => mem_of_filterMap_get hr) hm).1
        · cases hs
    · cases hs
  case setIdxNum t idx k =>
    split at hs
    · rename_i ht
      split at hs
      · cases hs
      · cases hs
        exact (opLoop_inplace_inv _ (fill_length k) _ h ht (fun _ hr => mem_of_filterMap_get hr)).1
    · cases hs
  case iop t code k =>
    split at hs
    · rename_i ht
      split at hs
      · rename_i σ'' hi
        cases hs
        exact (inv_iop h ht code k hi).1
      · cases hs
    · cases hs

/-- `inv_run`: the storage invariant holds after EVERY history over ALL operations of `Op` (any length,
    any number of live sequences, views of views, growing views, aliasing operands …). -/
theorem inv_run (ops : List Op) : ∀ {σ : State}, Inv σ → Inv (run σ ops) := by
  induction ops with
  | nil => intro σ h; exact h
  | cons op ops ih =>
    intro σ h
    simp only [run]
    split
    · rename_i σ' hs
      exact ih (inv_step h op hs)
    · exact ih h

example : Inv (run State.init [.new 48, .append 0 3 1 [[1,2,3],[4,5,6]], .slice 0 ⟨none, some 1, none⟩,
    .append 1 3 1 [[7,8,9]], .setInt 0 0 [[0,0,0],[0,0,0]], .iop 1 0 10, .extend 1 3 1 [[[5,5,5]], []],
    .opSeq 0 0 3, .concat [0, 1] 3]) :=
  inv_run _ inv_init

/-- `s.append(el)` is list append — on an owner AND on a view — and changes no other sequence
    (this is `growing_view_preserves_parent` for `append`: `t` may be a view of `u`'s buffer). -/
theorem append_is_list_append {σ : State} (h : Inv σ) {t : Nat} (ht : t < σ.seqs.length)
    (el : Elem) (w dt : Nat) :
    (append σ t el w dt).contents t = σ.contents t ++ (if el.isEmpty then [] else [el]) ∧
    ∀ u, u ≠ t → u < σ.seqs.length → (append σ t el w dt).contents u = σ.contents u :=
  ⟨(append_spec h ht el w dt).2.2.1, (append_spec h ht el w dt).2.2.2⟩

/-- `s.extend([...])` is list extend by the arrays that have rows — on an owner AND on a view — and
    changes no other sequence -/
theorem extend_is_list_extend {σ : State} (h : Inv σ) {t : Nat} (ht : t < σ.seqs.length)
    (els : List Elem) (w dt : Nat) :
    (extendList σ t els w dt).contents t = σ.contents t ++ els.filter (fun e => !e.isEmpty) ∧
    ∀ u, u ≠ t → u < σ.seqs.length → (extendList σ t els w dt).contents u = σ.contents u :=
  ⟨(extendList_spec h ht els w dt).2.2.1, (extendList_spec h ht els w dt).2.2.2⟩

/-- `s.extend(generator)` / cached appends + `finalize_append()`: the same list extend -/
theorem extendGen_is_list_extend {σ : State} (h : Inv σ) {t : Nat} (ht : t < σ.seqs.length)
    (els : List Elem) (w dt : Nat) :
    (extendGen σ t els w dt).contents t = σ.contents t ++ els.filter (fun e => !e.isEmpty) ∧
    ∀ u, u ≠ t → u < σ.seqs.length → (extendGen σ t els w dt).contents u = σ.contents u :=
  ⟨(extendGen_spec h ht els w dt).2.2.1, (extendGen_spec h ht els w dt).2.2.2⟩

/-- `s.extend(other)` with `other` any live sequence (also `s` itself, also a view of `s`'s buffer) -/
theorem extendSeq_is_list_extend {σ : State} (h : Inv σ) {t u : Nat} (ht : t < σ.seqs.length)
    (hu : u < σ.seqs.length) (w : Nat) :
    (extendSeq σ t u w).contents t = σ.contents t ++ σ.contents u ∧
    ∀ x, x ≠ t → x < σ.seqs.length → (extendSeq σ t u w).contents x = σ.contents x :=
  ⟨(extendSeq_spec h ht hu w).2.2.1, (extendSeq_spec h ht hu w).2.2.2⟩

/-- growing a view `v = p[pos]` in ANY of the four ways (append, extend list, extend generator / cached
    build, extend with a sequence `x`) leaves the sequence it was taken from — and every other live
    sequence — exactly as it was: for every reachable state, every index list, every data. -/
theorem growing_view_preserves_parent {σ : State} (h : Inv σ) {p : Nat} (hp : p < σ.seqs.length)
    (pos : List Nat) (el : Elem) (els : List Elem) (x : Nat) (hx : x ≤ σ.seqs.length) (w dt : Nat) :
    let σv := getView σ p pos
    let v := σ.seqs.length
    ∀ u, u < σ.seqs.length →
      (append σv v el w dt).contents u = σ.contents u ∧
      (extendList σv v els w dt).contents u = σ.contents u ∧
      (extendGen σv v els w dt).contents u = σ.contents u ∧
      (extendSeq σv v x w).contents u = σ.contents u := by
  intro σv v u hu
  have hv : Inv σv := inv_getView h hp pos
  have hlen : σv.seqs.length = σ.seqs.length + 1 := addSeq_length _ _
  have hold := getView_contents_old σ p pos hu
  refine ⟨?_, ?_, ?_, ?_⟩
  · rw [(append_spec hv (by omega) el w dt).2.2.2 u (by omega) (by omega)]; exact hold
  · rw [(extendList_spec hv (by omega) els w dt).2.2.2 u (by omega) (by omega)]; exact hold
  · rw [(extendGen_spec hv (by omega) els w dt).2.2.2 u (by omega) (by omega)]; exact hold
  · rw [(extendSeq_spec hv (t := v) (u := x) (by omega) (by omega) w).2.2.2 u (by omega) (by omega)]
    exact hold

/-- `concatenate([t0, us…], axis=0)` is list concatenation into a new sequence; nothing else changes -/
theorem concat_is_list_concat {σ : State} (h : Inv σ) {t0 : Nat} (ht0 : t0 < σ.seqs.length) (us : List Nat)
    (hus : ∀ u ∈ us, u < σ.seqs.length) (w : Nat) :
    (concatRest (copyOp σ t0) σ.seqs.length w us).contents σ.seqs.length =
      σ.contents t0 ++ (us.map σ.contents).flatten ∧
    ∀ x, x < σ.seqs.length → (concatRest (copyOp σ t0) σ.seqs.length w us).contents x = σ.contents x :=
  ⟨(concat_spec h ht0 us hus w).2.2.1, (concat_spec h ht0 us hus w).2.2.2⟩

/-- `seq op k`, `-seq`, `abs(seq)` (`f` any row-count preserving array function): a new sequence holding
    `f` of every array; no live sequence changes -/
theorem op_is_list_map (f : Elem → Elem) (hf : ∀ e, (f e).length = e.length) {σ σ' : State} (h : Inv σ)
    {t : Nat} (ht : t < σ.seqs.length) (hs : opNew f σ t = some σ') :
    σ'.contents σ.seqs.length = (σ.contents t).map f ∧
    ∀ u, u < σ.seqs.length → σ'.contents u = σ.contents u :=
  ⟨(opNew_spec f hf h ht hs).2.2.1, (opNew_spec f hf h ht hs).2.2.2⟩

/-- `seq op other` with `other` an ArraySequence: a new sequence holding the elementwise results over the
    two lists (`seq` may be any non-compact view: the left operand is read at ITS ranges); no live
    sequence changes -/
theorem opSeq_is_elementwise (code : Nat) {σ σ' : State} (h : Inv σ) {t v : Nat} (ht : t < σ.seqs.length)
    (hv : v < σ.seqs.length) (hs : opSeq code σ t v = .ok σ') :
    σ'.contents σ.seqs.length = List.zipWith (arith2 code) (σ.contents t) (σ.contents v) ∧
    ∀ u, u < σ.seqs.length → σ'.contents u = σ.contents u :=
  ⟨(opSeq_spec code h ht hv hs).2.2.1, (opSeq_spec code h ht hv hs).2.2.2⟩

example : ∃ σ', opSeq 2 (run State.init [.new 0, .extend 0 1 1 [[[1],[2]], [[3]], [[4]]],
    .slice 0 ⟨some 1, none, none⟩]) 1 1 = .ok σ' ∧ σ'.contents 2 = [[[0]], [[0]]] := ⟨_, rfl, by decide⟩

example : Inv (run State.init [.new 0, .append 0 1 1 [[1],[2]], .append 0 1 1 [[3]]]) :=
  inv_run _ inv_init

/-- `s.copy()` shows the same arrays and changes nothing else -/
theorem copy_is_list_copy {σ : State} (h : Inv σ) {t : Nat} (ht : t < σ.seqs.length) :
    (copyOp σ t).contents σ.seqs.length = σ.contents t ∧
    ∀ u, u < σ.seqs.length → (copyOp σ t).contents u = σ.contents u :=
  ⟨copyOp_contents_new h ht, fun _ hu => copyOp_contents_old h t hu⟩

theorem contents_length (σ : State) (t : Nat) : (σ.contents t).length = (σ.seqAt t).ranges.length := by
  simp [State.contents, contentsOf]

/-- `s[a:b:c]` is Python list slicing of the arrays (`PySlice.apply`), and changes nothing else -/
theorem slice_is_list_slice (σ : State) (t : Nat) (sl : PySlice) :
    (getView σ t (sl.sel (σ.seqAt t).ranges.length)).contents σ.seqs.length = sl.apply (σ.contents t) ∧
    ∀ u, u < σ.seqs.length →
      (getView σ t (sl.sel (σ.seqAt t).ranges.length)).contents u = σ.contents u := by
  refine ⟨?_, fun u hu => getView_contents_old σ t _ hu⟩
  rw [getView_contents_new, PySlice.apply, contents_length]

/-- element assignment through a view `v = p[pos]`: in the parent exactly the elements stored at the
    place of `v[j]` take the new value, every other element of the parent keeps its value -/
theorem view_setitem_hits_parent_exactly {σ : State} (h : Inv σ) {p : Nat} (hp : p < σ.seqs.length)
    (pos : List Nat) (r : Nat × Nat) (el : Elem) (hl : el.length = r.2)
    (hr : r ∈ ((getView σ p pos).seqAt σ.seqs.length).ranges) :
    (setRange (getView σ p pos) ((getView σ p pos).seqAt σ.seqs.length).buf r el).contents p =
      (σ.seqAt p).ranges.map (fun q => if q = r then el else (σ.bufAt (σ.seqAt p).buf).slice q.1 q.2) := by
  have hv : Inv (getView σ p pos) := inv_getView h hp pos
  have hlen : (getView σ p pos).seqs.length = σ.seqs.length + 1 := addSeq_length _ _
  have hvs : (getView σ p pos).seqAt σ.seqs.length =
      { buf := (σ.seqAt p).buf, ranges := pos.filterMap (fun i => (σ.seqAt p).ranges[i]?), isView := true,
        bufBytes := defaultBufBytes } := by
    unfold getView; rw [seqAt_addSeq, if_pos rfl]
  have hps : (getView σ p pos).seqAt p = σ.seqAt p := by
    unfold getView; rw [seqAt_addSeq, if_neg (by omega)]
  rw [setRange_contents hv (t := σ.seqs.length) (by omega) hr hl (u := p) (by omega)]
  rw [hps, hvs]
  simp only [true_and]
  rfl

example : ∃ r, r ∈ ((getView (run State.init [.new 0, .append 0 1 1 [[1],[2]], .append 0 1 1 [[3]]]) 0 [1]).seqAt 1).ranges :=
  ⟨(2, 1), by decide⟩

/-- `seq[i] = arr` seen from any live sequence `u`: exactly the elements of `u` stored at the same
    place of the same buffer as `seq[i]` take the new value (list element assignment + links) -/
theorem setitem_is_list_setitem {σ : State} (h : Inv σ) {t : Nat} (ht : t < σ.seqs.length)
    {r : Nat × Nat} (hr : r ∈ (σ.seqAt t).ranges) {el : Elem} (hl : el.length = r.2)
    {u : Nat} (hu : u < σ.seqs.length) :
    (setRange σ (σ.seqAt t).buf r el).contents u =
      (σ.seqAt u).ranges.map (fun q =>
        if (σ.seqAt u).buf = (σ.seqAt t).buf ∧ q = r then el
        else (σ.bufAt (σ.seqAt u).buf).slice q.1 q.2) :=
  setRange_contents h ht hr hl hu

/-- in-place arithmetic through `t` seen from any live sequence `u`: NONE of `u`'s arrays change when
    `u` does not share `t`'s buffer; otherwise ALL the arrays `u` shares with `t` (and only those)
    get the operation — never a part of them.  (`Nodup`: `t` selects no array twice.) -/
theorem iop_all_or_none {σ σ' : State} (h : Inv σ) {t : Nat} (ht : t < σ.seqs.length) (code : Nat) (k : Int)
    (hnd : (σ.seqAt t).ranges.Nodup) (hs : iop (arith code k) σ t = some σ')
    {u : Nat} (hu : u < σ.seqs.length) :
    σ'.contents u = (σ.seqAt u).ranges.map (fun q =>
      if (σ.seqAt u).buf = (σ.seqAt t).buf ∧ q ∈ (σ.seqAt t).ranges
      then arith code k ((σ.bufAt (σ.seqAt u).buf).slice q.1 q.2)
      else (σ.bufAt (σ.seqAt u).buf).slice q.1 q.2) := by
  unfold iop at hs
  simp only at hs
  split at hs
  · cases hs
  · cases hs
    have hts := get_seqAt ht
    have hus := get_seqAt hu
    obtain ⟨fs, fh, fb⟩ := opLoop_frame (arith code k) (σ.seqAt t).buf (σ.seqAt t).ranges σ
    have hsu : (opLoop (arith code k) σ (σ.seqAt t).buf (σ.seqAt t).buf (σ.seqAt t).ranges
        (σ.seqAt t).ranges).seqAt u = σ.seqAt u := by
      show List.getD _ u default = _
      rw [fs]; rfl
    simp only [contents_def, contentsOf, hsu]
    apply List.map_congr_left
    intro q hq
    by_cases hb : (σ.seqAt u).buf = (σ.seqAt t).buf
    · rw [hb]
      have := opLoop_slice (arith code k) (arith_length code k) (σ.seqAt t).buf (σ.seqAt t).ranges σ
        (h.bufLt t _ hts) hnd
        (fun r hr => ⟨h.inb t _ hts r hr, h.pos t _ hts r hr⟩)
        (h.cells t t _ _ hts hts rfl)
        q (by have := h.inb u _ hus q hq; rw [hb] at this; exact this) (h.pos u _ hus q hq)
        (fun r hr => h.cells u t _ _ hus hts hb q hq r hr)
      rw [this]
      simp only [true_and]
    · simp only [hb, false_and, if_false]
      rw [fb _ hb]
example : let σ := run State.init [.new 0, .append 0 1 1 [[1],[2]], .append 0 1 1 [[3]], .slice 0 ⟨none, none, some (-1)⟩]
    (σ.seqAt 1).ranges.Nodup ∧ (iop (arith 0 10) σ 1).isSome = true ∧ (σ.seqAt 0).buf = (σ.seqAt 1).buf := by
  decide

theorem opNew_none_iff (f : Elem → Elem) (σ : State) (t : Nat) :
    opNew f σ t = none ↔ (σ.seqAt t).ranges.isEmpty = true := by
  unfold opNew
  simp only
  split <;> simp_all

theorem isEmpty_of_length_eq {α β} {a : List α} {b : List β} (h : a.length = b.length) :
    a.isEmpty = b.isEmpty := by
  cases a <;> cases b <;> simp_all

/-- when `seq op other` succeeds -/
def opSeqOK (rs vs : List (Nat × Nat)) : Bool :=
  checkShape rs vs && !rs.isEmpty && lensMatch rs vs

theorem opSeq_ok_iff (code : Nat) (σ : State) (t v : Nat) :
    (∃ σ'', opSeq code σ t v = .ok σ'') ↔ opSeqOK (σ.seqAt t).ranges (σ.seqAt v).ranges = true := by
  unfold opSeq opSeqOK
  simp only
  split
  · simp_all
  · split
    · simp_all
    · split
      · simp_all
      · simp_all

/-- `seq op= other`, `other` an ArraySequence stored in another buffer (a copy, a fresh sequence, a
    detached view), `seq` selecting no array twice — seen from any live sequence `u`: NONE of `u`'s
    arrays change when `u` does not share `seq`'s buffer; otherwise ALL the arrays `u` shares with `seq`
    (and only those) become `array op partner`, where the partner is the array of `other` at the same
    position — never a part of them. -/
theorem iopSeq_all_or_none (code : Nat) {σ σ'' : State} (h : Inv σ) {t v : Nat} (ht : t < σ.seqs.length)
    (hv : v < σ.seqs.length) (hne : (σ.seqAt v).buf ≠ (σ.seqAt t).buf) (hnd : (σ.seqAt t).ranges.Nodup)
    (hs : iopSeq code σ t v = .ok σ'') {u : Nat} (hu : u < σ.seqs.length) :
    σ''.contents u = (σ.seqAt u).ranges.map (fun q =>
      if (σ.seqAt u).buf = (σ.seqAt t).buf then
        match partnerOf (σ.seqAt t).ranges (σ.seqAt v).ranges q with
        | some p => arith2 code ((σ.bufAt (σ.seqAt u).buf).slice q.1 q.2) ((σ.bufAt (σ.seqAt v).buf).slice p.1 p.2)
        | none => (σ.bufAt (σ.seqAt u).buf).slice q.1 q.2
      else (σ.bufAt (σ.seqAt u).buf).slice q.1 q.2) := by
  have hspec := iopSeq_spec_partial code h ht hv hs
  unfold iopSeq at hs
  simp only at hs
  split at hs
  · cases hs
  · split at hs
    · cases hs
    · split at hs
      · cases hs
      · rename_i _ _ hm
        cases hs
        have hm' : (σ.seqAt t).ranges.map (·.2) = (σ.seqAt v).ranges.map (·.2) := by
          simp only [Bool.or_eq_true, Bool.not_eq_true', decide_eq_true_eq, not_or, Bool.not_eq_false,
            lensMatch, beq_iff_eq] at hm
          exact hm.1
        have hts := get_seqAt ht
        have hvs := get_seqAt hv
        have hus := get_seqAt hu
        have hsu := seqAt_of_seqs_eq hspec.2.1 u
        by_cases hb : (σ.seqAt u).buf = (σ.seqAt t).buf
        · simp only [contents_def, contentsOf, hsu, hb, if_true]
          apply List.map_congr_left
          intro q hq
          exact opLoop2_slice code (σ.seqAt t).buf (σ.seqAt v).buf hne (σ.seqAt t).ranges (σ.seqAt v).ranges σ
            (h.bufLt t _ hts) hnd hm'
            (fun r hr => ⟨h.inb t _ hts r hr, h.pos t _ hts r hr⟩)
            (fun x hx => h.inb v _ hvs x hx)
            q (by have := h.inb u _ hus q hq; rw [hb] at this; exact this) (h.pos u _ hus q hq)
            (fun r hr => h.cells u t _ _ hus hts hb q hq r hr)
        · rw [hspec.2.2 u hb]
          simp only [contents_def, contentsOf, hb, if_false]

/-- … in particular `seq` itself then shows the elementwise results over the two lists -/
theorem iopSeq_target (code : Nat) {σ σ'' : State} (h : Inv σ) {t v : Nat} (ht : t < σ.seqs.length)
    (hv : v < σ.seqs.length) (hne : (σ.seqAt v).buf ≠ (σ.seqAt t).buf) (hnd : (σ.seqAt t).ranges.Nodup)
    (hs : iopSeq code σ t v = .ok σ'') :
    σ''.contents t = List.zipWith (arith2 code) (σ.contents t) (σ.contents v) := by
  rw [iopSeq_all_or_none code h ht hv hne hnd hs ht]
  simp only [if_true]
  have hl : (σ.seqAt t).ranges.length = (σ.seqAt v).ranges.length := by
    have := congrArg List.length (iopSeq_ok_lens code hs)
    simpa using this
  have hz := map_partner_zip (fun q p => arith2 code ((σ.bufAt (σ.seqAt t).buf).slice q.1 q.2)
      ((σ.bufAt (σ.seqAt v).buf).slice p.1 p.2)) (fun q => (σ.bufAt (σ.seqAt t).buf).slice q.1 q.2) _ _ hnd hl
  refine Eq.trans ?_ (hz.trans ?_)
  · rfl
  · simp only [contents_def, contentsOf, List.zipWith_map]
example : let σ := run State.init [.new 0, .extend 0 1 1 [[[1],[2]], [[3]], [[4]]], .slice 0 ⟨some 1, none, none⟩, .copy 1]
    (σ.seqAt 2).buf ≠ (σ.seqAt 1).buf ∧ (σ.seqAt 1).ranges.Nodup ∧
    (∃ σ', iopSeq 0 σ 1 2 = .ok σ' ∧ σ'.contents 0 = [[[1],[2]], [[6]], [[8]]]) := by
  refine ⟨by decide, by decide, _, rfl, by decide⟩

/-- operations that do not write through an existing array -/
def Op.noWrite : Op → Bool
  | .setInt .. | .setSlice .. | .iop .. | .iopSeq .. | .iopF .. | .setIdxSeq .. | .setIdxList .. | .setIdxNum .. => false
  | _ => true

/-- `_check_shape` + the element-by-element row counts, on two lists of arrays -/
def refSeqOK (a b : List Elem) : Bool :=
  (a.length == b.length && (a.map List.length).sum == (b.map List.length).sum) && !a.isEmpty &&
    (a.map List.length == b.map List.length)

/-- the reference: plain Python lists of arrays; a zero-row array is never stored; `none` = raises.
    (Two documented deviations of ArraySequence from a bare list are part of the reference: an operator on
    a sequence without arrays raises — the open finding — and `_check_shape` refuses operands whose
    element / row counts differ.) -/
def refStep (ρ : List (List Elem)) : Op → Option (List (List Elem))
  | .new _ => some (ρ ++ [[]])
  | .append t _ _ el =>
      if t < ρ.length then some (ρ.set t (ρ.getD t [] ++ (if el.isEmpty then [] else [el]))) else none
  | .extend t _ _ els =>
      if t < ρ.length then some (ρ.set t (ρ.getD t [] ++ els.filter (fun e => !e.isEmpty))) else none
  | .extendGen t _ _ els =>
      if t < ρ.length then some (ρ.set t (ρ.getD t [] ++ els.filter (fun e => !e.isEmpty))) else none
  | .extendSeq t u _ =>
      if t < ρ.length ∧ u < ρ.length then some (ρ.set t (ρ.getD t [] ++ ρ.getD u [])) else none
  | .view t _ => if t < ρ.length then some (ρ ++ [ρ.getD t []]) else none
  | .copy t => if t < ρ.length then some (ρ ++ [ρ.getD t []]) else none
  | .slice t sl =>
      if t < ρ.length then (if sl.stepVal = 0 then none else some (ρ ++ [sl.apply (ρ.getD t [])])) else none
  | .fancy t idx =>
      if t < ρ.length then
        (fancyPos (ρ.getD t []).length idx).map (fun pos => ρ ++ [pos.filterMap (fun i => (ρ.getD t [])[i]?)])
      else none
  | .mask t m =>
      if t < ρ.length then
        (maskPos (ρ.getD t []).length m).map (fun pos => ρ ++ [pos.filterMap (fun i => (ρ.getD t [])[i]?)])
      else none
  | .getInt t i => if t < ρ.length then (pyIntIndex (ρ.getD t []).length i).map (fun _ => ρ) else none
  | .op t code k =>
      if t < ρ.length then
        (if (ρ.getD t []).isEmpty then none else some (ρ ++ [(ρ.getD t []).map (arith code k)]))
      else none
  | .unary t code =>
      if t < ρ.length then
        (if (ρ.getD t []).isEmpty then none else some (ρ ++ [(ρ.getD t []).map (unary code)]))
      else none
  | .opSeq t v code =>
      if t < ρ.length ∧ v < ρ.length then
        (if refSeqOK (ρ.getD t []) (ρ.getD v []) then
          some (ρ ++ [List.zipWith (arith2 code) (ρ.getD t []) (ρ.getD v [])]) else none)
      else none
  | .concat ts _ =>
      match ts with
      | [] => none
      | t :: us =>
          if (t :: us).all (· < ρ.length) then
            some (ρ ++ [ρ.getD t [] ++ (us.map (fun u => ρ.getD u [])).flatten])
          else none
  | _ => none

def refRun (ρ : List (List Elem)) : List Op → List (List Elem)
  | [] => ρ
  | op :: ops => match refStep ρ op with
    | some ρ' => refRun ρ' ops
    | none => refRun ρ ops

/-- model state and reference agree on every live sequence -/
structure Rel (σ : State) (ρ : List (List Elem)) : Prop where
  inv : Inv σ
  len : σ.seqs.length = ρ.length
  same : ∀ u, u < σ.seqs.length → σ.contents u = ρ.getD u []

theorem rel_add {σ σ' : State} {ρ : List (List Elem)} (hR : Rel σ ρ) (x : List Elem) (hi : Inv σ')
    (hl : σ'.seqs.length = σ.seqs.length + 1) (hnew : σ'.contents σ.seqs.length = x)
    (hold : ∀ u, u < σ.seqs.length → σ'.contents u = σ.contents u) : Rel σ' (ρ ++ [x]) := by
  refine ⟨hi, by simp [hl, hR.len], ?_⟩
  intro u hu
  by_cases h : u < σ.seqs.length
  · rw [hold u h, hR.same u h]
    simp only [List.getD_eq_getElem?_getD, List.getElem?_append]
    rw [if_pos (by rw [← hR.len]; exact h)]
  · have : u = σ.seqs.length := by omega
    subst this
    rw [hnew]
    simp only [List.getD_eq_getElem?_getD, List.getElem?_append, hR.len]
    simp

theorem rel_set {σ σ' : State} {ρ : List (List Elem)} (hR : Rel σ ρ) {t : Nat} (ht : t < σ.seqs.length)
    (x : List Elem) (hi : Inv σ') (hl : σ'.seqs.length = σ.seqs.length)
    (hnew : σ'.contents t = σ.contents t ++ x)
    (hold : ∀ u, u ≠ t → u < σ.seqs.length → σ'.contents u = σ.contents u) :
    Rel σ' (ρ.set t (ρ.getD t [] ++ x)) := by
  refine ⟨hi, by simp [hl, hR.len], ?_⟩
  intro u hu
  rw [hl] at hu
  by_cases hut : u = t
  · subst hut
    rw [hnew, hR.same u hu]
    simp only [List.getD_eq_getElem?_getD, List.getElem?_set, ← hR.len, hu, if_true]
    simp
  · rw [hold u hut hu, hR.same u hu]
    simp only [List.getD_eq_getElem?_getD, List.getElem?_set]
    rw [if_neg (by omega)]

theorem step_refines {σ : State} {ρ : List (List Elem)} (hR : Rel σ ρ) (op : Op) (hc : op.noWrite = true) :
    (∀ σ', step σ op = .ok σ' → ∃ ρ', refStep ρ op = some ρ' ∧ Rel σ' ρ') ∧
    (∀ e, step σ op = .error e → refStep ρ op = none) := by
  have hlen := hR.len
  have hcl : ∀ t, t < σ.seqs.length → (ρ.getD t []).length = (σ.seqAt t).ranges.length := by
    intro t ht; rw [← hR.same t ht, contents_length]
  have hml : ∀ t, t < σ.seqs.length → (ρ.getD t []).map List.length = (σ.seqAt t).ranges.map (·.2) := by
    intro t ht
    rw [← hR.same t ht]
    exact contentsOf_lengths _ _ (hR.inv.inb t _ (get_seqAt ht))
  cases op <;> simp only [Op.noWrite, Bool.false_eq_true] at hc <;> simp only [step, refStep, ← hlen]
  case extend t w dt els =>
    by_cases ht : t < σ.seqs.length
    · simp only [ht, if_true]
      refine ⟨?_, fun e he => by cases he⟩
      intro σ' hs; cases hs
      obtain ⟨a1, a2, a3, a4⟩ := extendList_spec hR.inv ht els w dt
      exact ⟨_, rfl, rel_set hR ht _ a1 a2 a3 a4⟩
    · simp only [ht, if_false]
      exact ⟨fun _ hs => (nomatch hs), fun _ _ => trivial⟩
  case extendGen t w dt els =>
    by_cases ht : t < σ.seqs.length
    · simp only [ht, if_true]
      refine ⟨?_, fun e he => by cases he⟩
      intro σ' hs; cases hs
      obtain ⟨a1, a2, a3, a4⟩ := extendGen_spec hR.inv ht els w dt
      exact ⟨_, rfl, rel_set hR ht _ a1 a2 a3 a4⟩
    · simp only [ht, if_false]
      exact ⟨fun _ hs => (nomatch hs), fun _ _ => trivial⟩
  case extendSeq t u w =>
    by_cases hc2 : t < σ.seqs.length ∧ u < σ.seqs.length
    · simp only [hc2, and_self, if_true]
      refine ⟨?_, fun e he => by cases he⟩
      intro σ' hs; cases hs
      obtain ⟨a1, a2, a3, a4⟩ := extendSeq_spec hR.inv hc2.1 hc2.2 w
      rw [hR.same u hc2.2] at a3
      exact ⟨_, rfl, rel_set hR hc2.1 _ a1 a2 a3 a4⟩
    · simp only [hc2, if_false]
      exact ⟨fun _ hs => (nomatch hs), fun _ _ => trivial⟩
  case op t code k =>
    by_cases ht : t < σ.seqs.length
    · simp only [ht, if_true]
      have hie : (ρ.getD t []).isEmpty = (σ.seqAt t).ranges.isEmpty := isEmpty_of_length_eq (hcl t ht)
      cases hop : opNew (arith code k) σ t with
      | none =>
        have := (opNew_none_iff _ σ t).mp hop
        simp only [hie, this, if_true]
        exact ⟨fun _ hs => (nomatch hs), fun _ _ => trivial⟩
      | some σ'' =>
        have hne : (σ.seqAt t).ranges.isEmpty = false := by
          cases hx : (σ.seqAt t).ranges.isEmpty
          · rfl
          · rw [(opNew_none_iff _ σ t).mpr hx] at hop; cases hop
        simp only [hie, hne, Bool.false_eq_true, if_false]
        refine ⟨?_, fun e he => by cases he⟩
        intro σ' hs; cases hs
        obtain ⟨a1, a2, a3, a4⟩ := opNew_spec _ (arith_length code k) hR.inv ht hop
        exact ⟨_, rfl, rel_add hR _ a1 a2 (by rw [a3, hR.same t ht]) a4⟩
    · simp only [ht, if_false]
      exact ⟨fun _ hs => (nomatch hs), fun _ _ => trivial⟩
  case unary t code =>
    by_cases ht : t < σ.seqs.length
    · simp only [ht, if_true]
      have hie : (ρ.getD t []).isEmpty = (σ.seqAt t).ranges.isEmpty := isEmpty_of_length_eq (hcl t ht)
      cases hop : opNew (unary code) σ t with
      | none =>
        have := (opNew_none_iff _ σ t).mp hop
        simp only [hie, this, if_true]
        exact ⟨fun _ hs => (nomatch hs), fun _ _ => trivial⟩
      | some σ'' =>
        have hne : (σ.seqAt t).ranges.isEmpty = false := by
          cases hx : (σ.seqAt t).ranges.isEmpty
          · rfl
          · rw [(opNew_none_iff _ σ t).mpr hx] at hop; cases hop
        simp only [hie, hne, Bool.false_eq_true, if_false]
        refine ⟨?_, fun e he => by cases he⟩
        intro σ' hs; cases hs
        obtain ⟨a1, a2, a3, a4⟩ := opNew_spec _ (unary_length code) hR.inv ht hop
        exact ⟨_, rfl, rel_add hR _ a1 a2 (by rw [a3, hR.same t ht]) a4⟩
    · simp only [ht, if_false]
      exact ⟨fun _ hs => (nomatch hs), fun _ _ => trivial⟩
  case opSeq t v code =>
    by_cases hc2 : t < σ.seqs.length ∧ v < σ.seqs.length
    · simp only [hc2, and_self, if_true]
      have hok : refSeqOK (ρ.getD t []) (ρ.getD v []) = opSeqOK (σ.seqAt t).ranges (σ.seqAt v).ranges := by
        simp only [refSeqOK, opSeqOK, checkShape, lensMatch, hml t hc2.1, hml v hc2.2, hcl t hc2.1,
          hcl v hc2.2, isEmpty_of_length_eq (hcl t hc2.1)]
      rw [hok]
      cases hst : opSeq code σ t v with
      | ok σ'' =>
        have := (opSeq_ok_iff code σ t v).mp ⟨σ'', hst⟩
        simp only [this, if_true]
        refine ⟨?_, fun e he => by cases he⟩
        intro σ' hs; cases hs
        obtain ⟨a1, a2, a3, a4⟩ := opSeq_spec code hR.inv hc2.1 hc2.2 hst
        exact ⟨_, rfl, rel_add hR _ a1 a2 (by rw [a3, hR.same t hc2.1, hR.same v hc2.2]) a4⟩
      | error e =>
        have hno : opSeqOK (σ.seqAt t).ranges (σ.seqAt v).ranges = false := by
          cases hx : opSeqOK (σ.seqAt t).ranges (σ.seqAt v).ranges
          · rfl
          · obtain ⟨σ'', h2⟩ := (opSeq_ok_iff code σ t v).mpr hx
            rw [h2] at hst; cases hst
        simp only [hno, Bool.false_eq_true, if_false]
        exact ⟨fun _ hs => (nomatch hs), fun _ _ => trivial⟩
    · simp only [hc2, if_false]
      exact ⟨fun _ hs => (nomatch hs), fun _ _ => trivial⟩
  case concat ts w =>
    cases ts with
    | nil => exact ⟨fun _ hs => (nomatch hs), fun _ _ => rfl⟩
    | cons t us =>
      simp only
      by_cases hall : (t :: us).all (· < σ.seqs.length) = true
      · simp only [hall, if_true]
        refine ⟨?_, fun e he => by cases he⟩
        intro σ' hs; cases hs
        have hall' := hall
        simp only [List.all_cons, Bool.and_eq_true, decide_eq_true_eq, List.all_eq_true] at hall'
        obtain ⟨a1, a2, a3, a4⟩ := concat_spec hR.inv hall'.1 us hall'.2 w
        refine ⟨_, rfl, rel_add hR _ a1 a2 ?_ a4⟩
        rw [a3, hR.same t hall'.1]
        congr 2
        apply List.map_congr_left
        intro u hu
        exact hR.same u (hall'.2 u hu)
      · simp only [hall, Bool.false_eq_true, if_false]
        exact ⟨fun _ hs => (nomatch hs), fun _ _ => trivial⟩
  case new bb =>
    refine ⟨?_, fun e he => by cases he⟩
    intro σ' hs; cases hs
    refine ⟨_, rfl, rel_add hR [] (inv_new hR.inv bb) ?_ ?_ ?_⟩
    · rw [addSeq_length, alloc_seqs]
    · have := contents_addSeq_new (σ.alloc { rows := [], cap := 0, dt := 0 }).1
        { buf := σ.heap.length, ranges := [], isView := false, bufBytes := bb }
      rw [alloc_seqs] at this
      exact this
    · intro u hu
      rw [contents_addSeq_old _ _ (by rw [alloc_seqs]; exact hu), contents_alloc hR.inv _ hu]
  case append t w dt el =>
    by_cases ht : t < σ.seqs.length
    · simp only [ht, if_true]
      refine ⟨?_, fun e he => by cases he⟩
      intro σ' hs; cases hs
      obtain ⟨a1, a2, a3, a4⟩ := append_spec hR.inv ht el w dt
      refine ⟨_, rfl, a1, by simp [a2, hlen], ?_⟩
      intro u hu
      rw [a2] at hu
      by_cases hut : u = t
      · subst hut
        rw [a3, hR.same u hu]
        simp only [List.getD_eq_getElem?_getD, List.getElem?_set, ← hlen, hu, if_true]
        simp
      · rw [a4 u hut hu, hR.same u hu]
        simp only [List.getD_eq_getElem?_getD, List.getElem?_set]
        rw [if_neg (by omega)]
    · simp only [ht, if_false]
      exact ⟨fun _ hs => (nomatch hs), fun _ _ => trivial⟩
  case view t bb =>
    by_cases ht : t < σ.seqs.length
    · simp only [ht, if_true]
      refine ⟨?_, fun e he => by cases he⟩
      intro σ' hs; cases hs
      refine ⟨_, rfl, rel_add hR _ (inv_viewCtor hR.inv ht bb) (addSeq_length _ _) ?_ ?_⟩
      · rw [viewCtor_contents_new, hR.same t ht]
      · exact fun u hu => viewCtor_contents_old σ t bb hu
    · simp only [ht, if_false]
      exact ⟨fun _ hs => (nomatch hs), fun _ _ => trivial⟩
  case copy t =>
    by_cases ht : t < σ.seqs.length
    · simp only [ht, if_true]
      refine ⟨?_, fun e he => by cases he⟩
      intro σ' hs; cases hs
      refine ⟨_, rfl, rel_add hR _ (inv_copyOp hR.inv ht) ?_ ?_ ?_⟩
      · rw [copyOp_eq, addSeq_length, alloc_seqs]
      · rw [copyOp_contents_new hR.inv ht, hR.same t ht]
      · exact fun u hu => copyOp_contents_old hR.inv t hu
    · simp only [ht, if_false]
      exact ⟨fun _ hs => (nomatch hs), fun _ _ => trivial⟩
  case slice t sl =>
    by_cases ht : t < σ.seqs.length
    · simp only [ht, if_true]
      by_cases h0 : sl.stepVal = 0
      · simp only [h0, if_true]
        exact ⟨fun _ hs => (nomatch hs), fun _ _ => trivial⟩
      · simp only [h0, if_false]
        refine ⟨?_, fun e he => by cases he⟩
        intro σ' hs; cases hs
        refine ⟨_, rfl, rel_add hR _ (inv_getView hR.inv ht _) (addSeq_length _ _) ?_ ?_⟩
        · rw [(slice_is_list_slice σ t sl).1, hR.same t ht]
        · exact fun u hu => getView_contents_old σ t _ hu
    · simp only [ht, if_false]
      exact ⟨fun _ hs => (nomatch hs), fun _ _ => trivial⟩
  case fancy t idx =>
    by_cases ht : t < σ.seqs.length
    · simp only [ht, if_true, hcl t ht]
      cases hp : fancyPos (σ.seqAt t).ranges.length idx with
      | none => exact ⟨fun _ hs => (nomatch hs), fun _ _ => rfl⟩
      | some pos =>
        refine ⟨?_, fun e he => by cases he⟩
        intro σ' hs; cases hs
        refine ⟨_, rfl, rel_add hR _ (inv_getView hR.inv ht _) (addSeq_length _ _) ?_ ?_⟩
        · rw [getView_contents_new, hR.same t ht]
        · exact fun u hu => getView_contents_old σ t _ hu
    · simp only [ht, if_false]
      exact ⟨fun _ hs => (nomatch hs), fun _ _ => trivial⟩
  case mask t m =>
    by_cases ht : t < σ.seqs.length
    · simp only [ht, if_true, hcl t ht]
      cases hp : maskPos (σ.seqAt t).ranges.length m with
      | none => exact ⟨fun _ hs => (nomatch hs), fun _ _ => rfl⟩
      | some pos =>
        refine ⟨?_, fun e he => by cases he⟩
        intro σ' hs; cases hs
        refine ⟨_, rfl, rel_add hR _ (inv_getView hR.inv ht _) (addSeq_length _ _) ?_ ?_⟩
        · rw [getView_contents_new, hR.same t ht]
        · exact fun u hu => getView_contents_old σ t _ hu
    · simp only [ht, if_false]
      exact ⟨fun _ hs => (nomatch hs), fun _ _ => trivial⟩
  case getInt t i =>
    by_cases ht : t < σ.seqs.length
    · simp only [ht, if_true, hcl t ht]
      cases hp : pyIntIndex (σ.seqAt t).ranges.length i with
      | none => exact ⟨fun _ hs => (nomatch hs), fun _ _ => rfl⟩
      | some j =>
        refine ⟨?_, fun e he => by cases he⟩
        intro σ' hs; cases hs
        exact ⟨_, rfl, hR⟩
    · simp only [ht, if_false]
      exact ⟨fun _ hs => (nomatch hs), fun _ _ => trivial⟩

/-- `refines_list` for every operation that does not write through an existing array: after EVERY history
    (any length, any number of live sequences, views of views, growing views and copies) of {new, append,
    extend list / generator (cached build) / sequence, ArraySequence(seq), copy, slice / list / mask / int
    getitem, `seq op k`, unary operators, `seq op other`, concatenate}, every live sequence shows exactly
    what the plain Python list of arrays shows after the same history, and an operation raises exactly
    when the reference does.
    FULL STATEMENT (not yet proved): the same for histories over ALL of `Op`, against a reference that
    carries explicit parent/view links for the writes {int / slice setitem, `seq op= k`, `seq op= other`}.
    Missing: that linked reference run; the writes are characterised state by state, for every state with
    `Inv` (which `inv_run` establishes after every history over all of `Op`), by
    `setitem_is_list_setitem`, `view_setitem_hits_parent_exactly`, `iop_all_or_none` and
    `iopSeq_spec_partial`. -/
theorem refines_list_partial (ops : List Op) (hc : ∀ op ∈ ops, op.noWrite = true) :
    ∀ {σ : State} {ρ : List (List Elem)}, Rel σ ρ → Rel (run σ ops) (refRun ρ ops) := by
  induction ops with
  | nil => intro σ ρ h; exact h
  | cons op ops ih =>
    intro σ ρ hR
    have hs := step_refines hR op (hc op (by simp))
    simp only [run, refRun]
    cases hst : step σ op with
    | ok σ' =>
      obtain ⟨ρ', h1, h2⟩ := hs.1 σ' hst
      simp only [h1]
      exact ih (fun o ho => hc o (by simp [ho])) h2
    | error e =>
      simp only [hs.2 e hst]
      exact ih (fun o ho => hc o (by simp [ho])) hR

theorem rel_init : Rel State.init [] := ⟨inv_init, rfl, fun u hu => by simp [State.init] at hu⟩

example : (run State.init [.new 48, .append 0 3 1 [[1,2,3],[4,5,6]], .append 0 3 1 [[7,8,9]],
      .slice 0 ⟨none, some 1, none⟩, .append 1 3 1 [[0,0,0]], .copy 1, .fancy 0 [1, 0, 0]]).contents 1
    = [[[1,2,3],[4,5,6]], [[0,0,0]]] := by decide

example : Rel (run State.init [.new 48, .extend 0 3 1 [[[1,2,3],[4,5,6]], [], [[7,8,9]]],
      .slice 0 ⟨some 1, none, none⟩, .extendGen 1 3 1 [[[0,0,0]]], .copy 1, .opSeq 0 0 3, .op 1 0 5,
      .extendSeq 2 0 3, .concat [0, 1] 3, .unary 1 0])
    (refRun [] [.new 48, .extend 0 3 1 [[[1,2,3],[4,5,6]], [], [[7,8,9]]],
      .slice 0 ⟨some 1, none, none⟩, .extendGen 1 3 1 [[[0,0,0]]], .copy 1, .opSeq 0 0 3, .op 1 0 5,
      .extendSeq 2 0 3, .concat [0, 1] 3, .unary 1 0]) :=
  refines_list_partial _ (by decide) rel_init

/-! ### witnesses about the ORIGINAL (pinned) logic -/

/-- parent `[[1],[2]]`, `[[3]]` with spare capacity; `v = parent[:1]; v.append([[9]])` -/
def origHist : State :=
  run State.init [.new 0, .append 0 1 1 [[1],[2]], .append 0 1 1 [[3]], .slice 0 ⟨none, some 1, none⟩]

/-- pinned `append` on a view wrote into the shared buffer at the view's own next offset:
    the parent's second array `[[3]]` became `[[9]]` -/
theorem orig_view_append_overwrites_parent :
    (appendOrig origHist 1 [[9]] 1 1).contents 0 = [[[1],[2]], [[9]]] ∧
    (append origHist 1 [[9]] 1 1).contents 0 = [[[1],[2]], [[3]]] := by
  decide

/-- pinned `view += 10` with `view = parent[:]` over two arrays: only the first shared array of
    the parent changed (the repaired logic changes both) -/
theorem orig_iop_partial :
    let σ := run State.init [.new 0, .append 0 1 1 [[1],[2]], .append 0 1 1 [[3]], .slice 0 ⟨none, none, none⟩]
    (iopOrig (arith 0 10) σ 1).map (·.contents 0) = some [[[11],[12]], [[3]]] ∧
    (iop (arith 0 10) σ 1).map (·.contents 0) = some [[[11],[12]], [[13]]] := by
  decide

/-! ### in-place arithmetic NumPy refuses: the NONE branch of all-or-none -/

/-- the operation raises `e` -/
def raises (r : Except Err State) (e : Err) : Bool :=
  match r with
  | .error e' => e' == e
  | .ok _ => false

/-- `seq op= <Python float>` in a history: it succeeds exactly when the sequence has arrays and NumPy can cast
    the result back to the buffer's dtype (`inplaceFloatOK`, regenerated from NumPy), and then it IS the
    in-place operation `iop` (which `iop_all_or_none` characterises: ALL shared arrays get it); otherwise it
    raises before anything is written and `run` keeps the state (NONE).  (Definitional glue: it ties the
    decision rule of the model's `step` — which the correspondence compares with the real code — to `iop`.) -/
theorem iopF_ok_iff {σ σ' : State} {t : Nat} (ht : t < σ.seqs.length) (code : Nat) (k : Int) :
    step σ (.iopF t code k) = .ok σ' ↔
      (inplaceFloatOK (σ.bufAt (σ.seqAt t).buf).dt = true ∧ iop (arith code k) σ t = some σ') := by
  simp only [step, ht, if_true]
  cases hi : iop (arith code k) σ t with
  | none => simp
  | some σ'' =>
    by_cases hok : inplaceFloatOK (σ.bufAt (σ.seqAt t).buf).dt = true
    · simp [hok]
    · simp [hok]

example : let σ := run State.init [.new 0, .append 0 1 4 [[1],[2]], .slice 0 ⟨none, none, none⟩]
    (∃ σ', step σ (.iopF 1 0 2) = .ok σ' ∧ σ'.contents 0 = [[[3],[4]]]) := ⟨_, rfl, by decide⟩

example : let σ := run State.init [.new 0, .append 0 1 2 [[1],[2]], .slice 0 ⟨none, none, none⟩]
    raises (step σ (.iopF 1 0 2)) .type = true ∧ (run σ [.iopF 1 0 2]).contents 0 = [[[1],[2]]] := by decide

/-- `seq op= other` (other an ArraySequence) in a history: it succeeds exactly when `iopSeq` does (shapes,
    arrays present) AND NumPy can cast the result back to the target's dtype (`inplaceSeqOK`, regenerated
    from NumPy); otherwise nothing is written (NONE).  (Definitional glue, as `iopF_ok_iff`.) -/
theorem iopSeq_step_ok_iff {σ σ' : State} {t v : Nat} (ht : t < σ.seqs.length) (hv : v < σ.seqs.length)
    (code : Nat) :
    step σ (.iopSeq t v code) = .ok σ' ↔
      (inplaceSeqOK (σ.bufAt (σ.seqAt t).buf).dt (σ.bufAt (σ.seqAt v).buf).dt = true ∧ iopSeq code σ t v = .ok σ') := by
  simp only [step, ht, hv, and_self, if_true]
  cases hi : iopSeq code σ t v with
  | error e => simp
  | ok σ'' =>
    by_cases hok : inplaceSeqOK (σ.bufAt (σ.seqAt t).buf).dt (σ.bufAt (σ.seqAt v).buf).dt = true
    · simp [hok]
    · simp [hok]

example : let σ := run State.init [.new 0, .append 0 1 2 [[1],[2]], .new 0, .append 1 1 0 [[5],[6]]]
    raises (step σ (.iopSeq 0 1 0)) .type = true ∧ (∃ σ', step σ (.iopSeq 1 0 0) = .ok σ' ∧ σ'.contents 1 = [[[6],[8]]]) :=
  ⟨by decide, _, rfl, by decide⟩

/-! ### Tractograms over the sequence heap: `Tractogram(..)`, `T[idx]`, `T.extend(U)` / `+=`,
    `T.data_per_point[k] = seq` (Model/C15.lean `TOp`, `tstep`; Lemmas/C15_Tract.lean) -/

/-- no operation removes a live sequence -/
theorem step_len {σ σ' : State} (h : Inv σ) (op : Op) (hs : step σ op = .ok σ') :
    σ.seqs.length ≤ σ'.seqs.length := by
  cases op <;> simp only [step] at hs
  case new bb => cases hs; rw [addSeq_length, alloc_seqs]; omega
  case append t w dt el =>
    split at hs
    · cases hs; rw [(append_spec h (by assumption) el w dt).2.1]; omega
    · cases hs
  case extend t w dt els =>
    split at hs
    · cases hs; rw [(extendList_spec h (by assumption) els w dt).2.1]; omega
    · cases hs
  case extendGen t w dt els =>
    split at hs
    · cases hs; rw [(extendGen_spec h (by assumption) els w dt).2.1]; omega
    · cases hs
  case extendSeq t u w =>
    split at hs
    · rename_i hc; cases hs; rw [(extendSeq_spec h hc.1 hc.2 w).2.1]; omega
    · cases hs
  case view t bb =>
    split at hs
    · cases hs; rw [viewCtor_length]; omega
    · cases hs
  case copy t =>
    split at hs
    · cases hs; rw [copyOp_eq, addSeq_length, alloc_seqs]; omega
    · cases hs
  case slice t sl =>
    split at hs
    · split at hs
      · cases hs
      · cases hs; rw [getView_length]; omega
    · cases hs
  case fancy t idx =>
    split at hs
    · split at hs
      · cases hs; rw [getView_length]; omega
      · cases hs
    · cases hs
  case mask t m =>
    split at hs
    · split at hs
      · cases hs; rw [getView_length]; omega
      · cases hs
    · cases hs
  case getInt t i =>
    split at hs
    · split at hs
      · cases hs; omega
      · cases hs
    · cases hs
  case setInt t i el =>
    split at hs
    · split at hs
      · split at hs
        · cases hs; exact Nat.le_refl _
        · cases hs
      · cases hs
    · cases hs
  case setSlice t sl els =>
    split at hs
    · rename_i ht
      split at hs
      · cases hs
      · split at hs
        · rename_i hm
          cases hs
          rw [(setMany_inv _ els h ht (fun _ hr => mem_of_filterMap_get hr) hm).2]; omega
        · cases hs
    · cases hs
  case setIdxSeq t idx v =>
    split at hs
    · rename_i hc
      split at hs
      · cases hs
      · rw [(setSeq_spec_partial h hc.1 hc.2 (fun _ hr => mem_of_filterMap_get hr) hs).2.1]; omega
    · cases hs
  case setIdxList t idx els =>
    split at hs
    · rename_i ht
      split at hs
      · cases hs
      · split at hs
        · rename_i hm
          cases hs
          rw [(setMany_inv _ els h ht (fun _ hr => mem_of_filterMap_get hr) hm).2]; omega
        · cases hs
    · cases hs
  case setIdxNum t idx k =>
    split at hs
    · rename_i ht
      split at hs
      · cases hs
      · cases hs
        rw [(opLoop_inplace_inv _ (fill_length k) _ h ht (fun _ hr => mem_of_filterMap_get hr)).2]; omega
    · cases hs
  case iop t code k =>
    split at hs
    · rename_i ht
      split at hs
      · rename_i σ'' hi
        cases hs
        rw [(inv_iop h ht code k hi).2]; omega
      · cases hs
    · cases hs
  case op t code k =>
    split at hs
    · rename_i ht
      split at hs
      · rename_i σ'' hi
        cases hs
        rw [(opNew_spec _ (arith_length code k) h ht hi).2.1]; omega
      · cases hs
    · cases hs
  case unary t code =>
    split at hs
    · rename_i ht
      split at hs
      · rename_i σ'' hi
        cases hs
        rw [(opNew_spec _ (unary_length code) h ht hi).2.1]; omega
      · cases hs
    · cases hs
  case iopSeq t v code =>
    split at hs
    · rename_i hc
      split at hs
      · rename_i σ'' hi
        split at hs
        · cases hs; rw [(iopSeq_spec_partial code h hc.1 hc.2 hi).2.1]; omega
        · cases hs
      · cases hs
    · cases hs
  case iopF t code k =>
    split at hs
    · rename_i ht
      split at hs
      · rename_i σ'' hi
        split at hs
        · cases hs; rw [(inv_iop h ht code k hi).2]; omega
        · cases hs
      · cases hs
    · cases hs
  case opSeq t v code =>
    split at hs
    · rename_i hc; rw [(opSeq_spec code h hc.1 hc.2 hs).2.1]; omega
    · cases hs
  case concat ts w =>
    split at hs
    · cases hs
    · rename_i t us
      split at hs
      · rename_i hall
        cases hs
        simp only [List.all_cons, Bool.and_eq_true, decide_eq_true_eq, List.all_eq_true] at hall
        rw [(concat_spec h hall.1 us hall.2 w).2.1]; omega
      · cases hs

/-- EVERY operation of a tractogram history — sequence operations on any live sequence (also one held by
    a tractogram), `Tractogram(..)`, `T[idx]`, `T.extend(U)` (also when it raises part-way),
    `T.data_per_point[k] = seq` — keeps the storage invariant, and every sequence a tractogram holds stays
    a live sequence -/
theorem tinv_step {τ : TState} (h : TInv τ) (op : TOp) : TInv (tstep τ op).1 := by
  cases op <;> simp only [tstep]
  case seq op =>
    split
    · rename_i σ' hs
      exact ⟨inv_step h.inv op hs, fun t ht m hm => Nat.lt_of_lt_of_le (h.live t ht m hm) (step_len h.inv op hs)⟩
    · exact h
  case tnew src dpp asList w =>
    split
    · rename_i hg
      split
      · rename_i τ' hr
        simp only [Bool.and_eq_true, List.all_eq_true, decide_eq_true_eq] at hg
        refine (tnew_spec h ?_ hg.2 hr).1
        intro s hs; subst hs; simpa using hg.1
      · exact h
    · exact h
  case tget T idx =>
    split
    · rename_i hT
      split
      · rename_i τ' hr; exact (tget_spec h hT hr).1
      · exact h
    · exact h
  case textend T U w =>
    split
    · rename_i hc; exact (textend_spec h hc.1 hc.2 w).1
    · exact h
  case tset T k src asList w =>
    split
    · rename_i hc
      split
      · rename_i τ' hr; exact (tset_spec h hc.1 hc.2 hr).1
      · exact h
    · exact h
  case tcopy T =>
    split
    · rename_i hT; exact (tcopy_spec h hT).1
    · exact h
  case tadd T U w =>
    split
    · rename_i hc; exact (tadd_spec h hc.1 hc.2 w).1
    · exact h

/-- … after every tractogram history -/
theorem tinv_run (ops : List TOp) : ∀ {τ : TState}, TInv τ → TInv (trun τ ops) := by
  induction ops with
  | nil => intro τ h; exact h
  | cons op ops ih => intro τ h; exact ih (tinv_step h op)

example : TInv (trun TState.init [.seq (.new 0), .seq (.extend 0 1 1 [[[1],[2]], [[3]]]), .seq (.new 0),
    .seq (.extend 1 1 1 [[[10],[20]], [[30]]]), .tnew (some 0) [(0, 1)] false 1, .tnew none [] false 1,
    .textend 1 0 1, .tget 0 (.slice ⟨none, some 1, none⟩), .textend 2 0 1, .tset 1 1 0 true 1]) :=
  tinv_run _ tinv_init

/-- building a tractogram from live sequences, slicing / fancy-indexing a tractogram and assigning per-point
    data change NO live sequence (the sequences the new tractogram holds, and the stored per-point sequence,
    are NEW live sequences — views that detach before they grow, or new owners) -/
theorem tract_creation_changes_nothing {τ : TState} (h : TInv τ) (op : TOp)
    (hop : match op with | .tnew .. | .tget .. | .tset .. => True | _ => False) :
    ∀ u, u < τ.st.seqs.length → (tstep τ op).1.st.contents u = τ.st.contents u := by
  intro u hu
  cases op <;> simp only at hop <;> simp only [tstep]
  case tnew src dpp asList w =>
    split
    · rename_i hg
      split
      · rename_i τ' hr
        simp only [Bool.and_eq_true, List.all_eq_true, decide_eq_true_eq] at hg
        exact (tnew_spec h (by intro s hs; subst hs; simpa using hg.1) hg.2 hr).2.1.keep u hu (fun hf => hf)
      · rfl
    · rfl
  case tget T idx =>
    split
    · rename_i hT
      split
      · rename_i τ' hr; exact (tget_spec h hT hr).2.1.keep u hu (fun hf => hf)
      · rfl
    · rfl
  case tset T k src asList w =>
    split
    · rename_i hc
      split
      · rename_i τ' hr; exact (tset_spec h hc.1 hc.2 hr).2.1.keep u hu (fun hf => hf)
      · rfl
    · rfl

/-- `T.extend(U)` / `T += U` can change ONLY the sequences `T` itself holds: every other live sequence keeps
    its contents — also when the call raises part-way -/
theorem textend_only_receiver_changes {τ : TState} (h : TInv τ) {T U : Nat} (hT : T < τ.tracts.length)
    (hU : U < τ.tracts.length) (w : Nat) {u : Nat} (hu : u < τ.st.seqs.length)
    (hn : u ∉ (τ.tractAt T).members) :
    (textend τ T U w).1.st.contents u = τ.st.contents u :=
  (textend_spec h hT hU w).2.1.keep u hu hn

/-- … in particular the donor: when `T` holds none of the sequences of `U`, everything `U` holds is unchanged -/
theorem textend_preserves_donor {τ : TState} (h : TInv τ) {T U : Nat} (hT : T < τ.tracts.length)
    (hU : U < τ.tracts.length) (w : Nat) (hdisj : ∀ m ∈ (τ.tractAt U).members, m ∉ (τ.tractAt T).members) :
    ∀ m ∈ (τ.tractAt U).members, (textend τ T U w).1.st.contents m = τ.st.contents m :=
  fun m hm => textend_only_receiver_changes h hT hU w (h.live _ (tractAt_mem hU) m hm) (hdisj m hm)

example : let τ := trun TState.init [.seq (.new 0), .seq (.extend 0 1 1 [[[1],[2]], [[3]]]), .seq (.new 0),
      .seq (.extend 1 1 1 [[[10],[20]], [[30]]]), .tnew (some 0) [(0, 1)] false 1, .tnew none [] false 1, .textend 1 0 1]
    (∀ m ∈ (τ.tractAt 0).members, m ∉ (τ.tractAt 1).members) ∧ (τ.tractAt 1).members = [4, 5] ∧
    (textend τ 1 0 1).1.st.contents 5 = [[[10],[20]], [[30]], [[10],[20]], [[30]]] ∧
    (textend τ 1 0 1).1.st.contents 3 = [[[10],[20]], [[30]]] := by decide

/-- growing `T` any number of times -/
def growMany (w : Nat) (T : Nat) (τ : TState) (Us : List Nat) : TState :=
  Us.foldl (fun τ U => (textend τ T U w).1) τ

/-- a tractogram whose sequences were all created at or after time `N` (sequence numbers `≥ N`) can be grown
    any number of times, by any donors, without altering ANY sequence that existed at time `N` -/
theorem growth_of_later_tractogram_keeps_earlier_sequences (w N T : Nat) (Us : List Nat) :
    ∀ {τ : TState}, TInv τ → T < τ.tracts.length → (∀ U ∈ Us, U < τ.tracts.length) → N ≤ τ.st.seqs.length →
    (∀ m ∈ (τ.tractAt T).members, N ≤ m) →
    ∀ u, u < N → (growMany w T τ Us).st.contents u = τ.st.contents u := by
  induction Us with
  | nil => intro τ _ _ _ _ _ u _; rfl
  | cons U Us ih =>
    intro τ h hT hUs hN hm u hu
    obtain ⟨a, b, c, _, e⟩ := textend_spec h hT (hUs U (by simp)) w
    simp only [growMany, List.foldl_cons]
    have := ih (τ := (textend τ T U w).1) a (by omega) (fun X hX => by rw [c]; exact hUs X (by simp [hX]))
      (Nat.le_trans hN b.len)
      (fun m hm' => by
        rcases e m hm' with e | e
        · exact hm m e
        · omega) u hu
    simp only [growMany] at this
    rw [this]
    exact b.keep u (by omega) (fun hmem => by have := hm u hmem; omega)

/-- `D = P[idx]` (slice or list index), then `D.extend(U1); D.extend(U2); …` (or `+=`) with any donors —
    `P` itself included — never alters any element of any sequence that existed before, in particular of the
    streamlines and the per-point data of `P`, the tractogram `D` was taken from -/
theorem growing_derived_tractogram_preserves_parent {τ τ1 : TState} (h : TInv τ) {P : Nat}
    (hP : P < τ.tracts.length) {idx : TIdx} (hg : tget τ P idx = .ok τ1) (Us : List Nat)
    (hUs : ∀ U ∈ Us, U ≤ τ.tracts.length) (w : Nat) :
    ∀ u, u < τ.st.seqs.length → (growMany w τ.tracts.length τ1 Us).st.contents u = τ.st.contents u := by
  intro u hu
  obtain ⟨a, b, c, _, e⟩ := tget_spec h hP hg
  rw [growth_of_later_tractogram_keeps_earlier_sequences w τ.st.seqs.length τ.tracts.length Us a (by omega)
    (fun U hU => by have := hUs U hU; omega) b.len e u hu]
  exact b.keep u hu (fun hf => hf)

example : ∃ τ1, tget (trun TState.init [.seq (.new 0), .seq (.extend 0 1 1 [[[1],[2]], [[3]]]), .seq (.new 0),
      .seq (.extend 1 1 1 [[[10],[20]], [[30]]]), .tnew (some 0) [(0, 1)] false 1]) 0 (.slice ⟨none, some 1, none⟩) = .ok τ1 ∧
    (growMany 1 1 τ1 [0, 1]).st.contents 5 = [[[10],[20]], [[10],[20]], [[30]], [[10],[20]], [[10],[20]], [[30]]] :=
  ⟨_, rfl, by decide⟩

/-- the accumulator pattern `acc = Tractogram(); acc += a; acc += b; …`: no sequence that existed when the
    accumulator was created (the streamlines and per-point data of `a`, `b`, …, and whatever they are views
    of) is ever altered, however often the accumulator grows -/
theorem growing_accumulator_preserves_donors {τ τ1 : TState} (h : TInv τ) {w0 : Nat}
    (hn : tnew τ none [] false w0 = some τ1) (Us : List Nat) (hUs : ∀ U ∈ Us, U ≤ τ.tracts.length) (w : Nat) :
    ∀ u, u < τ.st.seqs.length → (growMany w τ.tracts.length τ1 Us).st.contents u = τ.st.contents u := by
  intro u hu
  obtain ⟨a, b, c, _, e⟩ := tnew_spec h (src := none) (by intro s hs; cases hs) (by intro kf hkf; cases hkf) hn
  rw [growth_of_later_tractogram_keeps_earlier_sequences w τ.st.seqs.length τ.tracts.length Us a (by omega)
    (fun U hU => by have := hUs U hU; omega) b.len e u hu]
  exact b.keep u hu (fun hf => hf)

example : ∃ τ1, tnew (trun TState.init [.seq (.new 0), .seq (.extend 0 1 1 [[[1],[2]], [[3]]]), .seq (.new 0),
      .seq (.extend 1 1 1 [[[10],[20]], [[30]]]), .tnew (some 0) [(0, 1)] false 1]) none [] false 1 = some τ1 ∧
    (growMany 1 1 τ1 [0, 0]).st.contents 5 = [[[10],[20]], [[30]], [[10],[20]], [[30]]] ∧
    (growMany 1 1 τ1 [0, 0]).st.contents 3 = [[[10],[20]], [[30]]] :=
  ⟨_, rfl, by decide, by decide⟩

/-! ### `seq[idx] = other` with `other` an ArraySequence, through any index form (slice of any step, list /
    range / integer ndarray — permutations, repeats, negative entries —, boolean mask) -/

/-- the decision rule of `seq[idx] = other` in a history: the index is resolved first (IndexError / ValueError
    of `self._offsets[idx]`), then `setSeq` on the selected ranges (its two count tests: ValueError).
    (Definitional glue between `step`, which the correspondence compares with the real code, and `setSeq`.) -/
theorem setIdxSeq_step_iff {σ σ' : State} {t v : Nat} (ht : t < σ.seqs.length) (hv : v < σ.seqs.length) (idx : TIdx) :
    step σ (.setIdxSeq t idx v) = .ok σ' ↔
      ∃ pos, idxPos (σ.seqAt t).ranges.length idx = .ok pos ∧
        setSeq σ t (pos.filterMap (fun i => (σ.seqAt t).ranges[i]?)) v = .ok σ' := by
  simp only [step, ht, hv, and_self, if_true]
  cases hp : idxPos (σ.seqAt t).ranges.length idx with
  | error e => simp
  | ok pos => simp

/-- `seq[idx] = other` for ANY selection (permuted, repeated) and ANY value (also a view of `seq`'s own
    buffer): no sequence object changes and no array of a sequence stored in another buffer changes -/
theorem setSeq_other_buffers_untouched {σ σ'' : State} (h : Inv σ) {t v : Nat} (ht : t < σ.seqs.length)
    (hv : v < σ.seqs.length) (pos : List Nat)
    (hs : setSeq σ t (pos.filterMap (fun i => (σ.seqAt t).ranges[i]?)) v = .ok σ'') :
    σ''.seqs = σ.seqs ∧ ∀ u, (σ.seqAt u).buf ≠ (σ.seqAt t).buf → σ''.contents u = σ.contents u :=
  (setSeq_spec_partial h ht hv (fun _ hr => mem_of_filterMap_get hr) hs).2

/-- `seq[idx] = other`, `other` stored in another buffer (a fresh sequence, a copy, any view of another
    sequence — compact or not, permuted or not), the selection `rs` of `seq` without repeats (ANY order: a
    permutation that keeps the ends, a reversed slice, a mask …) — seen from any live sequence `u`: an array of
    `u` changes exactly when `u` shares `seq`'s buffer and the array is one of those selected, and then it
    becomes the array of `other` AT THE SAME POSITION OF THE SELECTION (never the one a block copy in buffer
    order would give); every other array of every sequence keeps its value. -/
theorem setSeq_all_or_none {σ σ'' : State} (h : Inv σ) {t v : Nat} (ht : t < σ.seqs.length)
    (hv : v < σ.seqs.length) (hne : (σ.seqAt v).buf ≠ (σ.seqAt t).buf) {rs : List (Nat × Nat)}
    (hsub : ∀ r ∈ rs, r ∈ (σ.seqAt t).ranges) (hnd : rs.Nodup)
    (hs : setSeq σ t rs v = .ok σ'') {u : Nat} (hu : u < σ.seqs.length) :
    σ''.contents u = (σ.seqAt u).ranges.map (fun q =>
      if (σ.seqAt u).buf = (σ.seqAt t).buf then
        match partnerOf rs (σ.seqAt v).ranges q with
        | some p => (σ.bufAt (σ.seqAt v).buf).slice p.1 p.2
        | none => (σ.bufAt (σ.seqAt u).buf).slice q.1 q.2
      else (σ.bufAt (σ.seqAt u).buf).slice q.1 q.2) := by
  have hspec := setSeq_spec_partial h ht hv hsub hs
  obtain ⟨hm, he⟩ := setSeq_ok_lens hs
  have hts := get_seqAt ht
  have hvs := get_seqAt hv
  have hus := get_seqAt hu
  have hsu := seqAt_of_seqs_eq hspec.2.1 u
  by_cases hb : (σ.seqAt u).buf = (σ.seqAt t).buf
  · simp only [contents_def, contentsOf, hsu, hb, if_true]
    apply List.map_congr_left
    intro q hq
    rw [he]
    exact setLoop_slice (σ.seqAt t).buf (σ.seqAt v).buf hne rs (σ.seqAt v).ranges σ
      (h.bufLt t _ hts) hnd hm
      (fun r hr => ⟨h.inb t _ hts r (hsub r hr), h.pos t _ hts r (hsub r hr)⟩)
      (fun x hx => h.inb v _ hvs x hx)
      q (by have := h.inb u _ hus q hq; rw [hb] at this; exact this) (h.pos u _ hus q hq)
      (fun r hr => h.cells u t _ _ hus hts hb q hq r (hsub r hr))
  · rw [hspec.2.2 u hb]
    simp only [contents_def, contentsOf, hb, if_false]

/-- … in particular the arrays selected then show the arrays of `other`, in the order of the selection -/
theorem setSeq_selected {σ σ'' : State} (h : Inv σ) {t v : Nat} (ht : t < σ.seqs.length)
    (hv : v < σ.seqs.length) (hne : (σ.seqAt v).buf ≠ (σ.seqAt t).buf) {rs : List (Nat × Nat)}
    (hsub : ∀ r ∈ rs, r ∈ (σ.seqAt t).ranges) (hnd : rs.Nodup)
    (hs : setSeq σ t rs v = .ok σ'') :
    contentsOf (σ''.bufAt (σ.seqAt t).buf) rs = σ.contents v := by
  obtain ⟨hm, he⟩ := setSeq_ok_lens hs
  have hts := get_seqAt ht
  have hvs := get_seqAt hv
  have hl : rs.length = (σ.seqAt v).ranges.length := by
    have := congrArg List.length hm
    simpa using this
  have hcell : ∀ r ∈ rs, ∀ r' ∈ rs, eqOrDisj r r' :=
    fun r hr r' hr' => h.cells t t _ _ hts hts rfl r (hsub r hr) r' (hsub r' hr')
  have hmap : contentsOf (σ''.bufAt (σ.seqAt t).buf) rs = rs.map (fun q =>
      match partnerOf rs (σ.seqAt v).ranges q with
      | some p => (σ.bufAt (σ.seqAt v).buf).slice p.1 p.2
      | none => (σ.bufAt (σ.seqAt t).buf).slice q.1 q.2) := by
    simp only [contentsOf]
    apply List.map_congr_left
    intro q hq
    rw [he]
    exact setLoop_slice (σ.seqAt t).buf (σ.seqAt v).buf hne rs (σ.seqAt v).ranges σ
      (h.bufLt t _ hts) hnd hm
      (fun r hr => ⟨h.inb t _ hts r (hsub r hr), h.pos t _ hts r (hsub r hr)⟩)
      (fun x hx => h.inb v _ hvs x hx)
      q (h.inb t _ hts q (hsub q hq)) (h.pos t _ hts q (hsub q hq)) (fun r hr => hcell q hq r hr)
  rw [hmap]
  have hz := map_partner_zip (fun _ p => (σ.bufAt (σ.seqAt v).buf).slice p.1 p.2)
    (fun q => (σ.bufAt (σ.seqAt t).buf).slice q.1 q.2) rs (σ.seqAt v).ranges hnd hl
  refine hz.trans ?_
  exact zipWith_snd_eq_map (fun p : Nat × Nat => (σ.bufAt (σ.seqAt v).buf).slice p.1 p.2) rs _ hl

/-- `seq[[0, 2, 1, 3]] = X` with unequal element lengths: the selection keeps the first and the last array in
    place and swaps the two between; `X` is a fresh sequence -/
example : let σ := run State.init [.new 0, .extend 0 1 1 [[[1],[2]], [[3]], [[4],[5],[6]], [[7]]],
      .new 0, .extend 1 1 1 [[[10],[20]], [[30],[40],[50]], [[60]], [[70]]]]
    (σ.seqAt 1).buf ≠ (σ.seqAt 0).buf ∧
    ([0, 2, 1, 3].filterMap (fun i => (σ.seqAt 0).ranges[i]?)).Nodup ∧
    (∃ σ', step σ (.setIdxSeq 0 (.fancy [0, 2, 1, 3]) 1) = .ok σ' ∧
      σ'.contents 0 = [[[10],[20]], [[60]], [[30],[40],[50]], [[70]]]) := by
  refine ⟨by decide, by decide, _, rfl, by decide⟩

/-! ### `Tractogram.copy()` and `T + U` -/

/-- `T.copy()` is an independent copy: every sequence it holds shows what the original's shows, NO live sequence
    changes, and every sequence of the copy is stored in an ndarray no older sequence is on -/
theorem tcopy_is_independent_copy {τ : TState} (h : TInv τ) {T : Nat} (hT : T < τ.tracts.length) :
    (((tcopy τ T).tractAt τ.tracts.length).members.map (tcopy τ T).st.contents =
      (τ.tractAt T).members.map τ.st.contents) ∧
    (∀ u, u < τ.st.seqs.length → (tcopy τ T).st.contents u = τ.st.contents u) ∧
    (∀ m ∈ ((tcopy τ T).tractAt τ.tracts.length).members, ∀ u, u < τ.st.seqs.length →
      ((tcopy τ T).st.seqAt u).buf ≠ ((tcopy τ T).st.seqAt m).buf) := by
  obtain ⟨_, c2, _, _, c5, c6, c7⟩ := tcopy_spec h hT
  refine ⟨c6, fun u hu => c2.keep u hu (fun hf => hf), ?_⟩
  intro m hm u hu
  rw [c7 u hu]
  have := h.inv.bufLt u _ (get_seqAt hu)
  have := (c5 m hm).2
  omega

/-- `T + U` — for ALL operands, empty ones included, also `U = T`, also when the extend raises —: no sequence
    that was live before changes -/
theorem tadd_keeps_every_live_sequence {τ : TState} (h : TInv τ) {T U : Nat} (hT : T < τ.tracts.length)
    (hU : U < τ.tracts.length) (w : Nat) :
    ∀ u, u < τ.st.seqs.length → (tadd τ T U w).1.st.contents u = τ.st.contents u :=
  fun u hu => (tadd_spec h hT hU w).2.keep u hu (fun hf => hf)

/-- `add_result_fresh`: the result of `T + U` shares NO ndarray with any sequence that was live before — so with
    neither operand, nor with what the operands are views of — for ALL operands (an EMPTY `U` such as
    `Tractogram()` or `T[:0]` included: the result is then still a deep copy, not a view of `T`), whenever `T`
    has every per-point key of `U`.  (Without that hypothesis the per-point entry of a key `T` lacks is, by
    `PerArrayDict.extend`, `ArraySequence(other[key])` — a VIEW of `U`'s sequence: only possible when `T` has no
    rows; the streamlines and the other entries are fresh all the same, not proved here.) -/
theorem add_result_fresh {τ τ' : TState} (h : TInv τ) {T U : Nat} (hT : T < τ.tracts.length)
    (hU : U < τ.tracts.length) (w : Nat)
    (hk : ∀ kf ∈ (τ.tractAt U).dpp, dictGet (τ.tractAt T).dpp kf.1 ≠ none)
    (hs : tadd τ T U w = (τ', none)) :
    ∀ m ∈ (τ'.tractAt τ.tracts.length).members, ∀ u, u < τ.st.seqs.length →
      (τ'.st.seqAt u).buf ≠ (τ'.st.seqAt m).buf := by
  obtain ⟨c1, c2, c3, c4, c5, _, c7⟩ := tcopy_spec h hT
  have hdpp : ((tcopy τ T).tractAt τ.tracts.length).dpp = (τ.tractAt T).dpp.map (fun kf =>
      (kf.1, τ.st.seqs.length + (dedupNat (τ.tractAt T).members).idxOf kf.2)) := by
    simp only [TState.tractAt, tcopy_tracts, List.getD_eq_getElem?_getD,
      List.getElem?_append_right (Nat.le_refl _), Nat.sub_self, List.getElem?_cons_zero, Option.getD_some]
  have hk1 : ∀ kf ∈ ((tcopy τ T).tractAt U).dpp,
      dictGet ((tcopy τ T).tractAt τ.tracts.length).dpp kf.1 ≠ none := by
    intro kf hkf
    rw [c4 U hU] at hkf
    rw [hdpp, dictGet_map_snd (fun f => τ.st.seqs.length + (dedupNat (τ.tractAt T).members).idxOf f)]
    have := hk kf hkf
    cases hg : dictGet (τ.tractAt T).dpp kf.1 with
    | none => exact absurd hg this
    | some x => simp
  obtain ⟨g, gm⟩ := textend_growsIn (τ := tcopy τ T) (T := τ.tracts.length) (U := U) w (by omega) hk1
  unfold tadd at hs
  split at hs
  · rename_i τ2 heq
    simp only [Prod.mk.injEq, and_true] at hs
    subst hs
    rw [heq] at g gm
    dsimp only at g gm
    intro m hm u hu
    rw [gm] at hm
    have hm5 := c5 m hm
    have hu' : ¬ (u ∈ ((tcopy τ T).tractAt τ.tracts.length).members) := fun hmem => by
      have := (c5 u hmem).1; omega
    rw [g.others u hu', c7 u hu]
    have hlt := h.inv.bufLt u _ (get_seqAt hu)
    have hheap : τ.st.heap.length ≤ (tcopy τ T).st.heap.length := by
      rw [tcopy_st, cloneState_heap_length]; omega
    rcases g.buf m hm with hb | hb
    · rw [hb]; omega
    · omega
  · simp at hs

/-- a write through a sequence stored in an ndarray of its own (a member of `T + U` or of `T.copy()`) — an
    element assignment, or in-place arithmetic — changes no sequence stored elsewhere: with `add_result_fresh`,
    editing the result of `T + U` never rewrites `T`, `U` or the tractograms they were taken from -/
theorem write_through_fresh_sequence_keeps_others {σ : State} (h : Inv σ) {m : Nat} (hm : m < σ.seqs.length)
    {u : Nat} (hu : u < σ.seqs.length) (hne : (σ.seqAt u).buf ≠ (σ.seqAt m).buf) :
    (∀ r ∈ (σ.seqAt m).ranges, ∀ el : Elem, el.length = r.2 →
      (setRange σ (σ.seqAt m).buf r el).contents u = σ.contents u) ∧
    (∀ (f : Elem → Elem) σ', iop f σ m = some σ' → σ'.contents u = σ.contents u) := by
  constructor
  · intro r hr el hl
    rw [setRange_contents h hm hr hl hu]
    simp only [hne, false_and, if_false, contents_def, contentsOf]
  · intro f σ' hs
    unfold iop at hs
    simp only at hs
    split at hs
    · cases hs
    · cases hs
      obtain ⟨fs, _, fb⟩ := opLoop_frame f (σ.seqAt m).buf (σ.seqAt m).ranges σ
      refine contents_congr (u := u) ?_ ?_
      · rw [seqAt_of_seqs_eq fs]
      · intro r _
        rw [seqAt_of_seqs_eq fs, fb _ hne]

/-- `a + Tractogram()` (an EMPTY right operand) and `a + a`: the result is fresh and editing it leaves `a` alone -/
example : let τ := trun TState.init [.seq (.new 0), .seq (.extend 0 1 1 [[[1],[2]], [[3]]]), .seq (.new 0),
      .seq (.extend 1 1 1 [[[10],[20]], [[30]]]), .tnew (some 0) [(0, 1)] false 1, .tnew none [] false 1]
    (∀ kf ∈ (τ.tractAt 1).dpp, dictGet (τ.tractAt 0).dpp kf.1 ≠ none) ∧
    (∃ τ', tadd τ 0 1 1 = (τ', none) ∧ (τ'.tractAt 2).members = [5, 6] ∧
      (τ'.st.seqAt 5).buf ≠ (τ'.st.seqAt 2).buf ∧ (τ'.st.seqAt 5).buf ≠ (τ'.st.seqAt 0).buf ∧
      ((trun τ' [.seq (.setInt 5 0 [[7],[7]])]).st.contents 2 = [[[1],[2]], [[3]]]) ∧
      ((trun τ' [.seq (.setInt 5 0 [[7],[7]])]).st.contents 5 = [[[7],[7]], [[3]]])) ∧
    (∃ τ', tadd τ 0 0 1 = (τ', none) ∧ τ'.st.contents 5 = [[[1],[2]], [[3]], [[1],[2]], [[3]]]) := by
  refine ⟨by decide, ⟨_, rfl, by decide, by decide, by decide, by decide, by decide⟩, ⟨_, rfl, by decide⟩⟩

example : let τ := trun TState.init [.seq (.new 0), .seq (.extend 0 1 1 [[[1],[2]], [[3]]]),
      .tnew (some 0) [(0, 0)] false 1]
    (((tcopy τ 0).tractAt 1).members = [3, 4]) ∧ ((tcopy τ 0).st.seqAt 3).buf = ((tcopy τ 0).st.seqAt 4).buf ∧
    ((tcopy τ 0).st.seqAt 3).buf ≠ ((tcopy τ 0).st.seqAt 1).buf := by decide

end Nb.C15
