import NibabelModel.Lemmas.C15
/-! Props/C15 — ArraySequence is observationally a list of arrays under any history.

  `Inv` (Lemmas/C15.lean) is the storage invariant: every range lies in the written prefix of its
  buffer, lengths are positive, a buffer has at most one owning (non-view) sequence, every range
  of every sequence sharing an owner's buffer ends at or before the owner's next offset (the
  owner's tail is not shared), and two ranges of one buffer are equal or disjoint.

  Proved for ALL states satisfying `Inv` / all histories over the operations `Op.core`
  (new, one-shot append, ArraySequence(seq), copy, slice / list / mask / int getitem, int and
  slice setitem, in-place arithmetic).  NOT yet proved (the `_partial` suffixes): the cached-build
  loops (`extend`, `extend(generator)`, `extend(seq)`, `concatenate`) and `seq op k`; they are
  covered by the correspondence run and the oracle only.
-/
namespace Nb.C15
open Nb

/-- operations of the proved fragment -/
def Op.core : Op → Bool
  | .new _ | .append .. | .view .. | .copy _ | .slice .. | .fancy .. | .mask .. | .getInt ..
  | .setInt .. | .setSlice .. | .iop .. => true
  | _ => false

theorem pyIntIndex_lt {n : Nat} {i : Int} {j : Nat} (h : pyIntIndex n i = some j) : j < n := by
  unfold pyIntIndex at h
  split at h
  · cases h; omega
  · split at h
    · cases h; omega
    · cases h

theorem getD_mem {α} (l : List α) (j : Nat) (d : α) (h : j < l.length) : l.getD j d ∈ l := by
  simp [List.getD, h]

/-- every operation of the fragment keeps the storage invariant -/
theorem inv_step {σ σ' : State} (h : Inv σ) (op : Op) (hc : op.core = true) (hs : step σ op = .ok σ') :
    Inv σ' := by
  cases op <;> simp only [Op.core, Bool.false_eq_true] at hc <;> simp only [step] at hs
  case new bb => cases hs; exact inv_new h bb
  case append t w dt el =>
    split at hs
    · cases hs; exact (append_spec h (by assumption) el w dt).1
    · cases hs
  case view t bb =>
    split at hs
    · cases hs; exact inv_viewCtor h (by assumption) bb
    · cases hs
  case copy t =>
    split at hs
    · cases hs; exact inv_copyOp h (by assumption)
    · cases hs
  case slice t sl =>
    split at hs
    · split at hs
      · cases hs
      · cases hs; exact inv_getView h (by assumption) _
    · cases hs
  case fancy t idx =>
    split at hs
    · split at hs
      · cases hs; exact inv_getView h (by assumption) _
      · cases hs
    · cases hs
  case mask t m =>
    split at hs
    · split at hs
      · cases hs; exact inv_getView h (by assumption) _
      · cases hs
    · cases hs
  case getInt t i =>
    split at hs
    · split at hs
      · cases hs; exact h
      · cases hs
    · cases hs
  case setInt t i el =>
    split at hs
    · rename_i ht
      split at hs
      · rename_i j hj
        split at hs
        · rename_i hl
          cases hs
          exact inv_setRange h ht (getD_mem _ _ _ (pyIntIndex_lt hj)) hl.symm
        · cases hs
      · cases hs
    · cases hs
  case setSlice t sl els =>
    split at hs
    · rename_i ht
      split at hs
      · cases hs
      · split at hs
        · rename_i hm
          cases hs
          exact (setMany_inv _ els h ht (fun _ hr => mem_of_filterMap_get hr) hm).1
        · cases hs
    · cases hs
  case iop t code k =>
    split at hs
    · rename_i ht
      split at hs
      · rename_i σ'' hi
        cases hs
        exact (inv_iop h ht code k hi).1
      · cases hs
    · cases hs

/-- `inv_run` for the proved fragment: the invariant holds after EVERY history of core operations
    (any length, any number of live sequences, views of views …).
    FULL STATEMENT (not yet proved): the same without `hc`, i.e. including `extend`, `extendGen`,
    `extendSeq`, `op`, `concat`; missing: the loop invariant of the cached build. -/
theorem inv_run_partial (ops : List Op) (hc : ∀ op ∈ ops, op.core = true) :
    ∀ {σ : State}, Inv σ → Inv (run σ ops) := by
  induction ops with
  | nil => intro σ h; exact h
  | cons op ops ih =>
    intro σ h
    simp only [run]
    split
    · rename_i σ' hs
      exact ih (fun o ho => hc o (by simp [ho])) (inv_step h op (hc op (by simp)) hs)
    · exact ih (fun o ho => hc o (by simp [ho])) h

example : Inv (run State.init [.new 48, .append 0 3 1 [[1,2,3],[4,5,6]], .slice 0 ⟨none, some 1, none⟩,
    .append 1 3 1 [[7,8,9]], .setInt 0 0 [[0,0,0],[0,0,0]], .iop 1 0 10]) :=
  inv_run_partial _ (by decide) inv_init

/-- `s.append(el)` is list append — on an owner AND on a view — and changes no other sequence
    (this is `growing_view_preserves_parent` for `append`: `t` may be a view of `u`'s buffer). -/
theorem append_is_list_append {σ : State} (h : Inv σ) {t : Nat} (ht : t < σ.seqs.length)
    (el : Elem) (w dt : Nat) :
    (append σ t el w dt).contents t = σ.contents t ++ (if el.isEmpty then [] else [el]) ∧
    ∀ u, u ≠ t → u < σ.seqs.length → (append σ t el w dt).contents u = σ.contents u :=
  ⟨(append_spec h ht el w dt).2.2.1, (append_spec h ht el w dt).2.2.2⟩

/-- FULL STATEMENT (not yet proved): also for `extendList`, `extendGen`, `extendSeq`.
    Proved: growing a view by `append` leaves the sequence it was taken from (and every other
    live sequence) exactly as it was — for every reachable state, every slice, every element. -/
theorem growing_view_preserves_parent_partial {σ : State} (h : Inv σ) {p : Nat} (hp : p < σ.seqs.length)
    (pos : List Nat) (el : Elem) (w dt : Nat) :
    let σv := getView σ p pos
    let v := σ.seqs.length
    ∀ u, u < σ.seqs.length → (append σv v el w dt).contents u = σ.contents u := by
  intro σv v u hu
  have hv : Inv σv := inv_getView h hp pos
  have hlen : σv.seqs.length = σ.seqs.length + 1 := addSeq_length _ _
  rw [(append_spec hv (by omega) el w dt).2.2.2 u (by omega) (by omega)]
  exact getView_contents_old σ p pos hu

example : Inv (run State.init [.new 0, .append 0 1 1 [[1],[2]], .append 0 1 1 [[3]]]) :=
  inv_run_partial _ (by decide) inv_init

/-- `s.copy()` shows the same arrays and changes nothing else -/
theorem copy_is_list_copy {σ : State} (h : Inv σ) {t : Nat} (ht : t < σ.seqs.length) :
    (copyOp σ t).contents σ.seqs.length = σ.contents t ∧
    ∀ u, u < σ.seqs.length → (copyOp σ t).contents u = σ.contents u :=
  ⟨copyOp_contents_new h ht, fun _ hu => copyOp_contents_old h t hu⟩

theorem contents_length (σ : State) (t : Nat) : (σ.contents t).length = (σ.seqAt t).ranges.length := by
  simp [State.contents, contentsOf]

/-- `s[a:b:c]` is Python list slicing of the arrays (`PySlice.apply`), and changes nothing else -/
theorem slice_is_list_slice (σ : State) (t : Nat) (sl : PySlice) :
    (getView σ t (sl.sel (σ.seqAt t).ranges.length)).contents σ.seqs.length = sl.apply (σ.contents t) ∧
    ∀ u, u < σ.seqs.length →
      (getView σ t (sl.sel (σ.seqAt t).ranges.length)).contents u = σ.contents u := by
  refine ⟨?_, fun u hu => getView_contents_old σ t _ hu⟩
  rw [getView_contents_new, PySlice.apply, contents_length]

/-- element assignment through a view `v = p[pos]`: in the parent exactly the elements stored at the
    place of `v[j]` take the new value, every other element of the parent keeps its value -/
theorem view_setitem_hits_parent_exactly {σ : State} (h : Inv σ) {p : Nat} (hp : p < σ.seqs.length)
    (pos : List Nat) (r : Nat × Nat) (el : Elem) (hl : el.length = r.2)
    (hr : r ∈ ((getView σ p pos).seqAt σ.seqs.length).ranges) :
    (setRange (getView σ p pos) ((getView σ p pos).seqAt σ.seqs.length).buf r el).contents p =
      (σ.seqAt p).ranges.map (fun q => if q = r then el else (σ.bufAt (σ.seqAt p).buf).slice q.1 q.2) := by
  have hv : Inv (getView σ p pos) := inv_getView h hp pos
  have hlen : (getView σ p pos).seqs.length = σ.seqs.length + 1 := addSeq_length _ _
  have hvs : (getView σ p pos).seqAt σ.seqs.length =
      { buf := (σ.seqAt p).buf, ranges := pos.filterMap (fun i => (σ.seqAt p).ranges[i]?), isView := true,
        bufBytes := defaultBufBytes } := by
    unfold getView; rw [seqAt_addSeq, if_pos rfl]
  have hps : (getView σ p pos).seqAt p = σ.seqAt p := by
    unfold getView; rw [seqAt_addSeq, if_neg (by omega)]
  rw [setRange_contents hv (t := σ.seqs.length) (by omega) hr hl (u := p) (by omega)]
  rw [hps, hvs]
  simp only [true_and]
  rfl

example : ∃ r, r ∈ ((getView (run State.init [.new 0, .append 0 1 1 [[1],[2]], .append 0 1 1 [[3]]]) 0 [1]).seqAt 1).ranges :=
  ⟨(2, 1), by decide⟩

/-- `seq[i] = arr` seen from any live sequence `u`: exactly the elements of `u` stored at the same
    place of the same buffer as `seq[i]` take the new value (list element assignment + links) -/
theorem setitem_is_list_setitem {σ : State} (h : Inv σ) {t : Nat} (ht : t < σ.seqs.length)
    {r : Nat × Nat} (hr : r ∈ (σ.seqAt t).ranges) {el : Elem} (hl : el.length = r.2)
    {u : Nat} (hu : u < σ.seqs.length) :
    (setRange σ (σ.seqAt t).buf r el).contents u =
      (σ.seqAt u).ranges.map (fun q =>
        if (σ.seqAt u).buf = (σ.seqAt t).buf ∧ q = r then el
        else (σ.bufAt (σ.seqAt u).buf).slice q.1 q.2) :=
  setRange_contents h ht hr hl hu

/-- in-place arithmetic through `t` seen from any live sequence `u`: NONE of `u`'s arrays change when
    `u` does not share `t`'s buffer; otherwise ALL the arrays `u` shares with `t` (and only those)
    get the operation — never a part of them.  (`Nodup`: `t` selects no array twice.) -/
theorem iop_all_or_none {σ σ' : State} (h : Inv σ) {t : Nat} (ht : t < σ.seqs.length) (code : Nat) (k : Int)
    (hnd : (σ.seqAt t).ranges.Nodup) (hs : iop (arith code k) σ t = some σ')
    {u : Nat} (hu : u < σ.seqs.length) :
    σ'.contents u = (σ.seqAt u).ranges.map (fun q =>
      if (σ.seqAt u).buf = (σ.seqAt t).buf ∧ q ∈ (σ.seqAt t).ranges
      then arith code k ((σ.bufAt (σ.seqAt u).buf).slice q.1 q.2)
      else (σ.bufAt (σ.seqAt u).buf).slice q.1 q.2) := by
  unfold iop at hs
  simp only at hs
  split at hs
  · cases hs
  · cases hs
    have hts := get_seqAt ht
    have hus := get_seqAt hu
    obtain ⟨fs, fh, fb⟩ := opLoop_frame (arith code k) (σ.seqAt t).buf (σ.seqAt t).ranges σ
    have hsu : (opLoop (arith code k) σ (σ.seqAt t).buf (σ.seqAt t).buf (σ.seqAt t).ranges
        (σ.seqAt t).ranges).seqAt u = σ.seqAt u := by
      show List.getD _ u default = _
      rw [fs]; rfl
    simp only [contents_def, contentsOf, hsu]
    apply List.map_congr_left
    intro q hq
    by_cases hb : (σ.seqAt u).buf = (σ.seqAt t).buf
    · rw [hb]
      have := opLoop_slice (arith code k) (arith_length code k) (σ.seqAt t).buf (σ.seqAt t).ranges σ
        (h.bufLt t _ hts) hnd
        (fun r hr => ⟨h.inb t _ hts r hr, h.pos t _ hts r hr⟩)
        (h.cells t t _ _ hts hts rfl)
        q (by have := h.inb u _ hus q hq; rw [hb] at this; exact this) (h.pos u _ hus q hq)
        (fun r hr => h.cells u t _ _ hus hts hb q hq r hr)
      rw [this]
      simp only [true_and]
    · simp only [hb, false_and, if_false]
      rw [fb _ hb]
example : let σ := run State.init [.new 0, .append 0 1 1 [[1],[2]], .append 0 1 1 [[3]], .slice 0 ⟨none, none, some (-1)⟩]
    (σ.seqAt 1).ranges.Nodup ∧ (iop (arith 0 10) σ 1).isSome = true ∧ (σ.seqAt 0).buf = (σ.seqAt 1).buf := by
  decide

/-- operations of the write-free proved fragment -/
def Op.growOnly : Op → Bool
  | .new _ | .append .. | .view .. | .copy _ | .slice .. | .fancy .. | .mask .. | .getInt .. => true
  | _ => false

/-- the reference: plain Python lists of arrays; a zero-row array is never stored; `none` = raises -/
def refStep (ρ : List (List Elem)) : Op → Option (List (List Elem))
  | .new _ => some (ρ ++ [[]])
  | .append t _ _ el =>
      if t < ρ.length then some (ρ.set t (ρ.getD t [] ++ (if el.isEmpty then [] else [el]))) else none
  | .view t _ => if t < ρ.length then some (ρ ++ [ρ.getD t []]) else none
  | .copy t => if t < ρ.length then some (ρ ++ [ρ.getD t []]) else none
  | .slice t sl =>
      if t < ρ.length then (if sl.stepVal = 0 then none else some (ρ ++ [sl.apply (ρ.getD t [])])) else none
  | .fancy t idx =>
      if t < ρ.length then
        (fancyPos (ρ.getD t []).length idx).map (fun pos => ρ ++ [pos.filterMap (fun i => (ρ.getD t [])[i]?)])
      else none
  | .mask t m =>
      if t < ρ.length then
        (maskPos (ρ.getD t []).length m).map (fun pos => ρ ++ [pos.filterMap (fun i => (ρ.getD t [])[i]?)])
      else none
  | .getInt t i => if t < ρ.length then (pyIntIndex (ρ.getD t []).length i).map (fun _ => ρ) else none
  | _ => none

def refRun (ρ : List (List Elem)) : List Op → List (List Elem)
  | [] => ρ
  | op :: ops => match refStep ρ op with
    | some ρ' => refRun ρ' ops
    | none => refRun ρ ops

/-- model state and reference agree on every live sequence -/
structure Rel (σ : State) (ρ : List (List Elem)) : Prop where
  inv : Inv σ
  len : σ.seqs.length = ρ.length
  same : ∀ u, u < σ.seqs.length → σ.contents u = ρ.getD u []

theorem rel_add {σ σ' : State} {ρ : List (List Elem)} (hR : Rel σ ρ) (x : List Elem) (hi : Inv σ')
    (hl : σ'.seqs.length = σ.seqs.length + 1) (hnew : σ'.contents σ.seqs.length = x)
    (hold : ∀ u, u < σ.seqs.length → σ'.contents u = σ.contents u) : Rel σ' (ρ ++ [x]) := by
  refine ⟨hi, by simp [hl, hR.len], ?_⟩
  intro u hu
  by_cases h : u < σ.seqs.length
  · rw [hold u h, hR.same u h]
    simp only [List.getD_eq_getElem?_getD, List.getElem?_append]
    rw [if_pos (by rw [← hR.len]; exact h)]
  · have : u = σ.seqs.length := by omega
    subst this
    rw [hnew]
    simp only [List.getD_eq_getElem?_getD, List.getElem?_append, hR.len]
    simp

theorem step_refines {σ : State} {ρ : List (List Elem)} (hR : Rel σ ρ) (op : Op) (hc : op.growOnly = true) :
    (∀ σ', step σ op = .ok σ' → ∃ ρ', refStep ρ op = some ρ' ∧ Rel σ' ρ') ∧
    (∀ e, step σ op = .error e → refStep ρ op = none) := by
  have hlen := hR.len
  have hcl : ∀ t, t < σ.seqs.length → (ρ.getD t []).length = (σ.seqAt t).ranges.length := by
    intro t ht; rw [← hR.same t ht, contents_length]
  cases op <;> simp only [Op.growOnly, Bool.false_eq_true] at hc <;> simp only [step, refStep, ← hlen]
  case new bb =>
    refine ⟨?_, fun e he => by cases he⟩
    intro σ' hs; cases hs
    refine ⟨_, rfl, rel_add hR [] (inv_new hR.inv bb) ?_ ?_ ?_⟩
    · rw [addSeq_length, alloc_seqs]
    · have := contents_addSeq_new (σ.alloc { rows := [], cap := 0, dt := 0 }).1
        { buf := σ.heap.length, ranges := [], isView := false, bufBytes := bb }
      rw [alloc_seqs] at this
      exact this
    · intro u hu
      rw [contents_addSeq_old _ _ (by rw [alloc_seqs]; exact hu), contents_alloc hR.inv _ hu]
  case append t w dt el =>
    by_cases ht : t < σ.seqs.length
    · simp only [ht, if_true]
      refine ⟨?_, fun e he => by cases he⟩
      intro σ' hs; cases hs
      obtain ⟨a1, a2, a3, a4⟩ := append_spec hR.inv ht el w dt
      refine ⟨_, rfl, a1, by simp [a2, hlen], ?_⟩
      intro u hu
      rw [a2] at hu
      by_cases hut : u = t
      · subst hut
        rw [a3, hR.same u hu]
        simp only [List.getD_eq_getElem?_getD, List.getElem?_set, ← hlen, hu, if_true]
        simp
      · rw [a4 u hut hu, hR.same u hu]
        simp only [List.getD_eq_getElem?_getD, List.getElem?_set]
        rw [if_neg (by omega)]
    · simp only [ht, if_false]
      exact ⟨fun _ hs => (nomatch hs), fun _ _ => trivial⟩
  case view t bb =>
    by_cases ht : t < σ.seqs.length
    · simp only [ht, if_true]
      refine ⟨?_, fun e he => by cases he⟩
      intro σ' hs; cases hs
      refine ⟨_, rfl, rel_add hR _ (inv_viewCtor hR.inv ht bb) (addSeq_length _ _) ?_ ?_⟩
      · rw [viewCtor_contents_new, hR.same t ht]
      · exact fun u hu => viewCtor_contents_old σ t bb hu
    · simp only [ht, if_false]
      exact ⟨fun _ hs => (nomatch hs), fun _ _ => trivial⟩
  case copy t =>
    by_cases ht : t < σ.seqs.length
    · simp only [ht, if_true]
      refine ⟨?_, fun e he => by cases he⟩
      intro σ' hs; cases hs
      refine ⟨_, rfl, rel_add hR _ (inv_copyOp hR.inv ht) ?_ ?_ ?_⟩
      · rw [copyOp_eq, addSeq_length, alloc_seqs]
      · rw [copyOp_contents_new hR.inv ht, hR.same t ht]
      · exact fun u hu => copyOp_contents_old hR.inv t hu
    · simp only [ht, if_false]
      exact ⟨fun _ hs => (nomatch hs), fun _ _ => trivial⟩
  case slice t sl =>
    by_cases ht : t < σ.seqs.length
    · simp only [ht, if_true]
      by_cases h0 : sl.stepVal = 0
      · simp only [h0, if_true]
        exact ⟨fun _ hs => (nomatch hs), fun _ _ => trivial⟩
      · simp only [h0, if_false]
        refine ⟨?_, fun e he => by cases he⟩
        intro σ' hs; cases hs
        refine ⟨_, rfl, rel_add hR _ (inv_getView hR.inv ht _) (addSeq_length _ _) ?_ ?_⟩
        · rw [(slice_is_list_slice σ t sl).1, hR.same t ht]
        · exact fun u hu => getView_contents_old σ t _ hu
    · simp only [ht, if_false]
      exact ⟨fun _ hs => (nomatch hs), fun _ _ => trivial⟩
  case fancy t idx =>
    by_cases ht : t < σ.seqs.length
    · simp only [ht, if_true, hcl t ht]
      cases hp : fancyPos (σ.seqAt t).ranges.length idx with
      | none => exact ⟨fun _ hs => (nomatch hs), fun _ _ => rfl⟩
      | some pos =>
        refine ⟨?_, fun e he => by cases he⟩
        intro σ' hs; cases hs
        refine ⟨_, rfl, rel_add hR _ (inv_getView hR.inv ht _) (addSeq_length _ _) ?_ ?_⟩
        · rw [getView_contents_new, hR.same t ht]
        · exact fun u hu => getView_contents_old σ t _ hu
    · simp only [ht, if_false]
      exact ⟨fun _ hs => (nomatch hs), fun _ _ => trivial⟩
  case mask t m =>
    by_cases ht : t < σ.seqs.length
    · simp only [ht, if_true, hcl t ht]
      cases hp : maskPos (σ.seqAt t).ranges.length m with
      | none => exact ⟨fun _ hs => (nomatch hs), fun _ _ => rfl⟩
      | some pos =>
        refine ⟨?_, fun e he => by cases he⟩
        intro σ' hs; cases hs
        refine ⟨_, rfl, rel_add hR _ (inv_getView hR.inv ht _) (addSeq_length _ _) ?_ ?_⟩
        · rw [getView_contents_new, hR.same t ht]
        · exact fun u hu => getView_contents_old σ t _ hu
    · simp only [ht, if_false]
      exact ⟨fun _ hs => (nomatch hs), fun _ _ => trivial⟩
  case getInt t i =>
    by_cases ht : t < σ.seqs.length
    · simp only [ht, if_true, hcl t ht]
      cases hp : pyIntIndex (σ.seqAt t).ranges.length i with
      | none => exact ⟨fun _ hs => (nomatch hs), fun _ _ => rfl⟩
      | some j =>
        refine ⟨?_, fun e he => by cases he⟩
        intro σ' hs; cases hs
        exact ⟨_, rfl, hR⟩
    · simp only [ht, if_false]
      exact ⟨fun _ hs => (nomatch hs), fun _ _ => trivial⟩

/-- `refines_list` for the write-free fragment: after EVERY history (any length, any number of live
    sequences, views of views, growing views) of {new, one-shot append, ArraySequence(seq), copy,
    slice / list / mask / int getitem}, every live sequence shows exactly what the plain Python list
    of arrays shows after the same history, and an operation raises exactly when the list does.
    FULL STATEMENT (not yet proved): the same for histories over ALL of `Op`, against a reference with
    explicit links for the writes.  Missing: the cached-build loops (`extend*`, `op`, `concat`); the
    writes are characterised state-by-state by `setitem_is_list_setitem`, `iop_all_or_none` and
    `view_setitem_hits_parent_exactly` (under `Inv`, which `inv_run_partial` establishes). -/
theorem refines_list_partial (ops : List Op) (hc : ∀ op ∈ ops, op.growOnly = true) :
    ∀ {σ : State} {ρ : List (List Elem)}, Rel σ ρ → Rel (run σ ops) (refRun ρ ops) := by
  induction ops with
  | nil => intro σ ρ h; exact h
  | cons op ops ih =>
    intro σ ρ hR
    have hs := step_refines hR op (hc op (by simp))
    simp only [run, refRun]
    cases hst : step σ op with
    | ok σ' =>
      obtain ⟨ρ', h1, h2⟩ := hs.1 σ' hst
      simp only [h1]
      exact ih (fun o ho => hc o (by simp [ho])) h2
    | error e =>
      simp only [hs.2 e hst]
      exact ih (fun o ho => hc o (by simp [ho])) hR

theorem rel_init : Rel State.init [] := ⟨inv_init, rfl, fun u hu => by simp [State.init] at hu⟩

example : (run State.init [.new 48, .append 0 3 1 [[1,2,3],[4,5,6]], .append 0 3 1 [[7,8,9]],
      .slice 0 ⟨none, some 1, none⟩, .append 1 3 1 [[0,0,0]], .copy 1, .fancy 0 [1, 0, 0]]).contents 1
    = [[[1,2,3],[4,5,6]], [[0,0,0]]] := by decide

example : Rel (run State.init [.new 48, .append 0 3 1 [[1,2,3],[4,5,6]], .slice 0 ⟨none, some 1, none⟩,
      .append 1 3 1 [[0,0,0]], .copy 1])
    (refRun [] [.new 48, .append 0 3 1 [[1,2,3],[4,5,6]], .slice 0 ⟨none, some 1, none⟩,
      .append 1 3 1 [[0,0,0]], .copy 1]) :=
  refines_list_partial _ (by decide) rel_init

/-! ### witnesses about the ORIGINAL (pinned) logic -/

/-- parent `[[1],[2]]`, `[[3]]` with spare capacity; `v = parent[:1]; v.append([[9]])` -/
def origHist : State :=
  run State.init [.new 0, .append 0 1 1 [[1],[2]], .append 0 1 1 [[3]], .slice 0 ⟨none, some 1, none⟩]

/-- pinned `append` on a view wrote into the shared buffer at the view's own next offset:
    the parent's second array `[[3]]` became `[[9]]` -/
theorem orig_view_append_overwrites_parent :
    (appendOrig origHist 1 [[9]] 1 1).contents 0 = [[[1],[2]], [[9]]] ∧
    (append origHist 1 [[9]] 1 1).contents 0 = [[[1],[2]], [[3]]] := by
  decide

/-- pinned `view += 10` with `view = parent[:]` over two arrays: only the first shared array of
    the parent changed (the repaired logic changes both) -/
theorem orig_iop_partial :
    let σ := run State.init [.new 0, .append 0 1 1 [[1],[2]], .append 0 1 1 [[3]], .slice 0 ⟨none, none, none⟩]
    (iopOrig (arith 0 10) σ 1).map (·.contents 0) = some [[[11],[12]], [[3]]] ∧
    (iop (arith 0 10) σ 1).map (·.contents 0) = some [[[11],[12]], [[13]]] := by
  decide

end Nb.C15
