import NibabelModel.Model.C06
import NibabelModel.Lemmas.PySlice
import NibabelModel.Lemmas.C06_Final
import NibabelModel.Lemmas.C06_NpSpecProofs
import NibabelModel.Lemmas.C06_GenFuncs
import NibabelModel.Lemmas.C06_GenSegs
import NibabelModel.Lemmas.C06_GenCanon
import NibabelModel.Lemmas.C06_GenPlan
import NibabelModel.Lemmas.C06_Hist
/-! Props/C06 — property theorems for C06 (reading a slice from file bytes equals NumPy indexing).
    Stage A (per axis), stage B (segments), stage C (whole) — see DESIGN.md §5 C06.

    Vocabulary (Lemmas/C06_Defs.lean): `ReadItem.selNat r n` = positions read along an axis exactly
    as `slicers2segments` enumerates them; `applyPost p l` = Python semantics of applying a post item
    to the list of read positions; `Item.WF n` / `Item.target n` = canonical item and its NumPy
    selection; `Segment.addrs` = byte addresses of a segment; `readLists` = read positions per real
    axis; `ReadItem.Canon` / `ReadCanon` (decidable) = read items as `optimize_read_slicers` produces
    them; `ItemsWF` = canonical items aligned with a shape.

    Every statement is unbounded in axis length, start/stop/step, shape, rank, stride, offsets, and
    holds for an ARBITRARY heuristic function unless a hypothesis on the heuristic is spelled out. -/
namespace Nb.C06
open Nb

/-! ## history of the defect (pinned, pre-fix logic) -/

/-- The pinned (pre-fix) `fill_slicer` did not clamp: `[-7:]` on length 5 selected `[3,4]`,
    not all five elements. -/
theorem fillSlicerOrig_counterexample :
    (fillSlicerOrig ⟨some (-7), none, none⟩ 5).toPy.sel 5 ≠ (⟨some (-7), none, none⟩ : PySlice).sel 5 := by
  decide

/-- The pinned (pre-fix) `_positive_slice` turned the empty `slice(0, 1, -3)` into `slice(0, 1, 3)`,
    which selects element 0. -/
theorem positiveSliceOrig_counterexample :
    (positiveSliceOrig (fillSlicer ⟨some 0, some 1, some (-3)⟩ 5)).toPy.sel 5
      ≠ ((⟨some 0, some 1, some (-3)⟩ : PySlice).sel 5).reverse := by
  decide

/-! ## Stage A — one axis -/

/-- **A1** the filled slicer, re-used as a Python slice (as `optimize_slicer` does when it post-slices
    a fully read axis), selects exactly what the original slice selects. -/
theorem fillSlicer_sel (s : PySlice) (n : Nat) (hv : s.Valid) :
    (fillSlicer s n).toPy.sel n = s.sel n :=
  fillSlicer_sel' s n hv

example : (⟨some (-9), none, some 2⟩ : PySlice).Valid ∧
    (fillSlicer ⟨some (-9), none, some 2⟩ 5).toPy.sel 5 = [0, 2, 4] := by decide

/-- **A2a** `_full_slicer_len ∘ fill_slicer` is the NumPy length of the slice. -/
theorem fullSlicerLen_fill (s : PySlice) (n : Nat) (hv : s.Valid) :
    fullSlicerLen (fillSlicer s n) = (s.sel n).length :=
  fullSlicerLen_fill' s n hv

/-- **A2b** `slice2len` agrees with NumPy for every slice and every axis length. -/
theorem slice2len_spec (s : PySlice) (n : Nat) (hv : s.Valid) :
    slice2len s n = (s.sel n).length :=
  slice2len_spec' s n hv

example : (⟨some 7, some (-9), some (-3)⟩ : PySlice).Valid ∧
    slice2len ⟨some 7, some (-9), some (-3)⟩ 6 = 2 := by decide

/-- **A3** `_positive_slice ∘ fill_slicer` on a negative-step slice: positive step, an integer stop,
    and the same index set in ascending order. -/
theorem positiveSlice_sel (s : PySlice) (n : Nat) (hv : s.Valid) (hneg : s.stepVal < 0) :
    0 < (positiveSlice (fillSlicer s n)).step ∧
    (positiveSlice (fillSlicer s n)).stop.isSome ∧
    (positiveSlice (fillSlicer s n)).toPy.sel n = (s.sel n).reverse :=
  positiveSlice_sel' s n hv hneg

example : (⟨none, some 1, some (-3)⟩ : PySlice).Valid ∧ (⟨none, some 1, some (-3)⟩ : PySlice).stepVal < 0 ∧
    (positiveSlice (fillSlicer ⟨none, some 1, some (-3)⟩ 9)).toPy.sel 9 = [2, 5, 8] := by decide

/-- **A4** soundness of `optimize_slicer` for EVERY heuristic, every `all_full`, `is_slowest`,
    `stride`: the positions read are strictly ascending, inside the axis, and applying the post
    item to them (Python semantics) gives exactly the NumPy selection of the original item. -/
theorem optimizeSlicer_sound (h : Heuristic) (it : Item) (n : Nat) (hwf : it.WF n)
    (allFull slowest : Bool) (stride : Nat) (r : ReadItem) (p : PostItem)
    (hok : optimizeSlicer h it n allFull slowest stride = .ok (r, p)) :
    (r.selNat n).Pairwise (· < ·) ∧ (∀ i ∈ r.selNat n, i < n) ∧
    applyPost p (r.selNat n) = some (it.target n) :=
  let hs := optimizeSlicer_axisSound h it n hwf allFull slowest stride r p hok
  ⟨hs.asc, hs.lt, hs.post⟩

example : (Item.slice ⟨some 8, none, some (-3)⟩).WF 10 ∧
    optimizeSlicer (fun _ _ _ => .contiguous) (.slice ⟨some 8, none, some (-3)⟩) 10 true false 4
      = .ok (.slice 2 9 1, .slice ⟨none, none, some (-3)⟩) ∧
    (ReadItem.slice 2 9 1).selNat 10 = [2, 3, 4, 5, 6, 7, 8] ∧
    applyPost (.slice ⟨none, none, some (-3)⟩) [2, 3, 4, 5, 6, 7, 8] = some (.many [8, 5, 2]) := by
  decide

/-- **A4 (structure)** the read item is canonical (int in range / positive-step slice with bounds in
    `[0, n]`), the post slice is a legal Python slice, and the axis is dropped exactly when an int
    is read. -/
theorem optimizeSlicer_canon (h : Heuristic) (it : Item) (n : Nat) (hwf : it.WF n)
    (allFull slowest : Bool) (stride : Nat) (r : ReadItem) (p : PostItem)
    (hok : optimizeSlicer h it n allFull slowest stride = .ok (r, p)) :
    r.Canon n ∧ p.Valid ∧ (p = .dropped ↔ r.isInt = true) :=
  let hs := optimizeSlicer_axisSound h it n hwf allFull slowest stride r p hok
  ⟨hs.canon, hs.pvalid, hs.dropped_iff⟩

example : (Item.int 3).WF 5 ∧
    optimizeSlicer (thresholdHeuristic 0) (.int 3) 5 true false 4 = .ok (.int 3, .dropped) := by decide

/-- **A4 (errors)** `optimize_slicer` raises ONLY for an int item when everything so far is full and
    the heuristic answers `contiguous` ("int index cannot be contiguous"). -/
theorem optimizeSlicer_error_iff (h : Heuristic) (it : Item) (n : Nat) (allFull slowest : Bool)
    (stride : Nat) (e : Err) :
    optimizeSlicer h it n allFull slowest stride = .error e ↔
      e = .value ∧ ∃ i0, it = .int i0 ∧ allFull = true ∧
        h (.int (if i0 < 0 then (n : Int) + i0 else i0)) n stride = .contiguous :=
  optimizeSlicer_error_iff' h it n allFull slowest stride e

/-- `threshold_heuristic` never answers `contiguous` for an int, for any threshold. -/
theorem thresholdHeuristic_int_not_contiguous (k : Nat) (i : Int) (n stride : Nat) :
    thresholdHeuristic k (.int i) n stride ≠ .contiguous :=
  thresholdHeuristic_int k i n stride

/-- **A4 (full reads, int)** an int item makes the whole axis be read iff everything so far is full,
    the axis is not the slowest and the heuristic answers `full`. -/
theorem optimizeSlicer_int_full_iff (h : Heuristic) (i : Int) (n : Nat) (allFull slowest : Bool)
    (stride : Nat) (r : ReadItem) (p : PostItem) (hi : 0 ≤ i)
    (hok : optimizeSlicer h (.int i) n allFull slowest stride = .ok (r, p)) :
    r = .full ↔ (allFull = true ∧ slowest = false ∧ h (.int i) n stride = .full) :=
  optimizeSlicer_int_full_iff_aux h i n allFull slowest stride r p hi hok

example : (0 : Int) ≤ 1 ∧
    optimizeSlicer (fun _ _ _ => .full) (.int 1) 4 true false 8 = .ok (.full, .int 1) := by decide

/-- **A4 (full reads, slice)** a slice item makes the whole axis be read iff it already is the full
    axis (either direction), or everything so far is full, the axis is not the slowest and the
    heuristic answers `full`; and whenever the read item is `.full` it reads positions `0 … n-1`. -/
theorem optimizeSlicer_slice_full_iff (h : Heuristic) (s : PySlice) (n : Nat) (allFull slowest : Bool)
    (stride : Nat) (r : ReadItem) (p : PostItem)
    (hok : optimizeSlicer h (.slice s) n allFull slowest stride = .ok (r, p)) :
    (r = .full ↔ (s = pySliceNone ∨ fillSlicer s n = ⟨0, some (n : Int), 1⟩ ∨
        fillSlicer s n = ⟨(n : Int) - 1, none, -1⟩ ∨
        (allFull = true ∧ slowest = false ∧ h (.slice (fillSlicer s n)) n stride = .full))) ∧
    (r = .full → r.selNat n = List.range n) :=
  ⟨optimizeSlicer_slice_full_iff_aux h s n allFull slowest stride r p hok,
   fun hr => by rw [hr]; exact selNat_full n⟩

example : optimizeSlicer (fun _ _ _ => .full) (.slice ⟨some 1, none, some 2⟩) 6 true false 8
    = .ok (.full, .slice ⟨some 1, some 6, some 2⟩) := by decide

/-! ## Stage B — segments -/

/-- the read items `optimize_read_slicers` returns are canonical and aligned with the shape, for
    EVERY heuristic (so the side condition of the segment theorems is always met in `fileslice`). -/
theorem optimizeLoop_canon (h : Heuristic) (items : List Item) (shape : List Nat) (stride : Nat)
    (allFull : Bool) (rs : List ReadItem) (ps : List PostItem) (hwf : ItemsWF items shape)
    (hok : optimizeLoop h items shape stride allFull = .ok (rs, ps)) : ReadCanon rs shape :=
  optimizeLoop_readCanon h items shape stride allFull rs ps hwf hok

example : ItemsWF [.slice ⟨some 1, none, some 2⟩, .newaxis, .int 2] [5, 3] ∧
    optimizeLoop (thresholdHeuristic 4) [.slice ⟨some 1, none, some 2⟩, .newaxis, .int 2] [5, 3] 2 true
      = .ok ([.full, .newaxis, .int 2], [.slice ⟨some 1, some 5, some 2⟩, .slice pySliceNone]) := by
  decide

/-- **B1** the bytes read by `slicers2segments`, in order, are exactly the F-order enumeration of the
    sub-array selected by the read items — any rank, zero-length axes included, any offset and item
    size. -/
theorem segments_cover (rs : List ReadItem) (shape : List Nat) (off isz : Nat)
    (hc : ReadCanon rs shape) :
    (slicers2segments rs shape off isz).flatMap Segment.addrs
      = (gatherF (readLists rs shape) shape).flatMap
          (fun (q : Nat) => rangeInts ((off : Int) + (isz : Int) * (q : Int)) 1 isz) :=
  segments_cover' rs shape off isz hc

example : ReadCanon [.full, .slice 1 4 2, .newaxis, .int 1] [2, 4, 3] ∧
    slicers2segments [.full, .slice 1 4 2, .newaxis, .int 1] [2, 4, 3] 10 2 = [⟨30, 4⟩, ⟨38, 4⟩] ∧
    gatherF (readLists [.full, .slice 1 4 2, .newaxis, .int 1] [2, 4, 3]) [2, 4, 3] = [10, 11, 14, 15] := by
  decide

/-- **B2** every non-empty segment lies inside the array extent `[off, off + isz·∏shape)`, and the
    total number of bytes read is `isz · ∏ read_shape`. -/
theorem segments_in_extent (rs : List ReadItem) (shape : List Nat) (off isz : Nat)
    (hc : ReadCanon rs shape) :
    (∀ s ∈ slicers2segments rs shape off isz, s.length ≠ 0 →
      (off : Int) ≤ s.offset ∧ s.offset + s.length ≤ (off : Int) + (isz : Int) * (shape.prod : Nat)) ∧
    ((slicers2segments rs shape off isz).map (·.length)).sum = isz * (readShape rs shape).prod :=
  ⟨segments_in_extent' rs shape off isz hc, segments_total_length' rs shape off isz hc⟩

example : ReadCanon [.slice 0 3 2, .full] [3, 2] ∧
    slicers2segments [.slice 0 3 2, .full] [3, 2] 7 4 = [⟨7, 4⟩, ⟨15, 4⟩, ⟨19, 4⟩, ⟨27, 4⟩] ∧
    readShape [.slice 0 3 2, .full] [3, 2] = [2, 2] := by decide

/-! ## Stage C — the whole `fileslice` -/

/-- **C** `fileslice` equals NumPy basic indexing: for every heuristic that never answers
    `contiguous` for an int (otherwise `optimize_slicer` raises, see `optimizeSlicer_error_iff`),
    every shape, every index tuple whose slices have non-zero step (ints, slices, `...`, `None`, in
    any number), both memory orders, every item size ≥ 1, offset, and every file long enough to
    hold the array.  The equation includes the error cases: too many indices, two ellipses and an
    out-of-range integer give the same error on both sides. -/
theorem fileslice_eq_numpy (h : Heuristic) (hh : ∀ i n st, h (.int i) n st ≠ .contiguous)
    (idx : List IdxItem) (shape : List Nat) (hv : ∀ s, IdxItem.slice s ∈ idx → s.Valid)
    (o : Order) (isz off flen : Nat) (hisz : 0 < isz) (hlen : off + isz * shape.prod ≤ flen) :
    fileslice h idx shape isz off flen o
      = (npIndex idx shape o).map (fun (sh, l) => (sh, l.map Int.ofNat)) :=
  fileslice_eq_numpy' h hh idx shape hv o isz off flen hisz hlen

example : (∀ i n st, thresholdHeuristic 8 (.int i) n st ≠ .contiguous) ∧
    (∀ s, IdxItem.slice s ∈ [IdxItem.slice ⟨none, none, some (-2)⟩, .newaxis, .int (-1)] → s.Valid) ∧
    (0 < 2 ∧ 3 + 2 * [5, 3].prod ≤ 40) ∧
    fileslice (thresholdHeuristic 8) [.slice ⟨none, none, some (-2)⟩, .newaxis, .int (-1)] [5, 3] 2 3 40 .C
      = .ok ([3, 1], [14, 8, 2]) ∧
    npIndex [.slice ⟨none, none, some (-2)⟩, .newaxis, .int (-1)] [5, 3] .C = .ok ([3, 1], [14, 8, 2]) := by
  refine ⟨thresholdHeuristic_int_not_contiguous 8, ?_, by decide, by decide, by decide⟩
  intro s hs
  simp only [List.mem_cons, IdxItem.slice.injEq, reduceCtorEq, List.not_mem_nil, or_false] at hs
  subst hs; decide

/-- the shipped default: `fileslice` with `threshold_heuristic` (any `skip_thresh`) equals NumPy. -/
theorem fileslice_threshold_eq_numpy (k : Nat)
    (idx : List IdxItem) (shape : List Nat) (hv : ∀ s, IdxItem.slice s ∈ idx → s.Valid)
    (o : Order) (isz off flen : Nat) (hisz : 0 < isz) (hlen : off + isz * shape.prod ≤ flen) :
    fileslice (thresholdHeuristic k) idx shape isz off flen o
      = (npIndex idx shape o).map (fun (sh, l) => (sh, l.map Int.ofNat)) :=
  fileslice_eq_numpy' _ (thresholdHeuristic_int_not_contiguous k) idx shape hv o isz off flen hisz hlen

example : fileslice (thresholdHeuristic 0) [.ellipsis, .slice ⟨some 1, none, none⟩] [2, 3] 1 0 6 .F
    = .ok ([2, 2], [2, 3, 4, 5]) := by decide

/-- **C (reads)** for EVERY heuristic: all bytes `calc_slicedefs` asks for lie inside the array
    extent, and their number is `isz · ∏ read_shape`. -/
theorem reads_within_extent (h : Heuristic) (idx : List IdxItem) (shape : List Nat)
    (hv : ∀ s, IdxItem.slice s ∈ idx → s.Valid) (o : Order) (isz off : Nat) (d : SliceDefs)
    (hok : calcSlicedefs h idx shape isz off o = .ok d) :
    (∀ s ∈ d.segments, s.length ≠ 0 →
      (off : Int) ≤ s.offset ∧ s.offset + s.length ≤ (off : Int) + (isz : Int) * (shape.prod : Nat)) ∧
    (d.segments.map (·.length)).sum = isz * d.readShape.prod :=
  calcSlicedefs_in_extent' h idx shape hv o isz off d hok

example : ∃ d, calcSlicedefs (fun _ _ _ => .skip) [.slice ⟨some (-9), none, some 2⟩, .int 1] [3, 2] 4 16 .F
    = .ok d ∧ d.segments = [⟨28, 4⟩, ⟨36, 4⟩] := ⟨_, rfl, by decide⟩

/-- **C (errors)** an integer index outside `[-n, n)` of its axis makes both `fileslice` and the
    NumPy specification fail with the index error (items before it being ints/slices). -/
theorem fileslice_int_out_of_range (h : Heuristic) (pre : List IdxItem) (i : Int) (post : List IdxItem)
    (shape : List Nat) (o : Order) (isz off flen : Nat)
    (hpre : ∀ x ∈ pre, x ≠ .newaxis ∧ x ≠ .ellipsis) (hlt : pre.length < shape.length)
    (hout : ¬ (-(shape.getD pre.length 0 : Int) ≤ i ∧ i < (shape.getD pre.length 0 : Int))) :
    fileslice h (pre ++ .int i :: post) shape isz off flen o = .error .index ∧
    npIndex (pre ++ .int i :: post) shape o = .error .index :=
  fileslice_int_out_of_range' h pre i post shape o isz off flen hpre hlt hout

example : (∀ x ∈ [IdxItem.int 0], x ≠ .newaxis ∧ x ≠ .ellipsis) ∧ [IdxItem.int 0].length < [4, 3].length ∧
    ¬ (-(([4, 3] : List Nat).getD [IdxItem.int 0].length 0 : Int) ≤ -4 ∧
        (-4 : Int) < (([4, 3] : List Nat).getD [IdxItem.int 0].length 0 : Int)) := by
  refine ⟨?_, by decide, by decide⟩
  intro x hx
  simp only [List.mem_singleton] at hx
  subst hx; exact ⟨by simp, by simp⟩

/-! ## Stage D — against an INDEPENDENT NumPy specification

    `npSpec` (Lemmas/C06_NpSpec.lean) is written from the NumPy rules alone — count the ints and
    slices, at most one `Ellipsis` standing for `ndim − #real` full slices (implicit trailing one when
    absent), `pyIntIndex` per int, `PySlice.sel` per slice, `None` = new axis — and shares nothing
    with `canonical_slicers`.  It is compared with real NumPy on every run (`nps` stream). -/

/-- **D1** `canonical_slicers` + per-axis selection (the `npIndex` used in stage C) equals the
    independent NumPy specification, exactly (same result, same error value), for every index tuple
    with at most one `Ellipsis`, every shape, both memory orders: ellipsis expansion, negative-int
    normalisation, full-slice canonicalisation and trailing-axis filling are all correct. -/
theorem npIndex_eq_npSpec (idx : List IdxItem) (shape : List Nat) (o : Order)
    (hv : ∀ s, IdxItem.slice s ∈ idx → s.Valid) (he : nEllipsis idx ≤ 1) :
    npIndex idx shape o = npSpecIndex idx shape o :=
  npIndex_eq_npSpec' idx shape o hv he

example : nEllipsis [IdxItem.int (-1), .ellipsis, .newaxis, .slice ⟨some 0, some 3, none⟩] ≤ 1 ∧
    npSpecIndex [.int (-1), .ellipsis, .newaxis, .slice ⟨some 0, some 3, none⟩] [2, 2, 3] .C
      = .ok ([2, 1, 3], [6, 7, 8, 9, 10, 11]) ∧
    npIndex [.int (-1), .ellipsis, .newaxis, .slice ⟨some 0, some 3, none⟩] [2, 2, 3] .C
      = .ok ([2, 1, 3], [6, 7, 8, 9, 10, 11]) := by decide

/-- **D1 (two ellipses)** NumPy rejects an index with two `Ellipsis`; so does `canonical_slicers`
    (possibly with a different error value when another error comes first). -/
theorem npIndex_two_ellipses (idx : List IdxItem) (shape : List Nat) (o : Order)
    (he : 1 < nEllipsis idx) :
    npSpecIndex idx shape o = .error .value ∧ ∃ e, npIndex idx shape o = .error e :=
  npIndex_two_ellipses' idx shape o he

example : 1 < nEllipsis [IdxItem.ellipsis, .int 0, .ellipsis] := by decide

/-- **D2** `fileslice` equals the independent NumPy specification (all hypotheses as in
    `fileslice_eq_numpy`, at most one `Ellipsis`). -/
theorem fileslice_eq_npSpec (h : Heuristic) (hh : ∀ i n st, h (.int i) n st ≠ .contiguous)
    (idx : List IdxItem) (shape : List Nat) (hv : ∀ s, IdxItem.slice s ∈ idx → s.Valid)
    (he : nEllipsis idx ≤ 1)
    (o : Order) (isz off flen : Nat) (hisz : 0 < isz) (hlen : off + isz * shape.prod ≤ flen) :
    fileslice h idx shape isz off flen o
      = (npSpecIndex idx shape o).map (fun (sh, l) => (sh, l.map Int.ofNat)) :=
  fileslice_eq_npSpec' h hh idx shape hv he o isz off flen hisz hlen

example : nEllipsis [IdxItem.slice ⟨none, none, some (-2)⟩, .newaxis, .int (-1)] ≤ 1 ∧
    npSpecIndex [.slice ⟨none, none, some (-2)⟩, .newaxis, .int (-1)] [5, 3] .C = .ok ([3, 1], [14, 8, 2]) := by
  decide

/-- **D2 (two ellipses)** with two `Ellipsis` both NumPy and `fileslice` raise, for every heuristic. -/
theorem fileslice_two_ellipses (h : Heuristic) (idx : List IdxItem) (shape : List Nat)
    (he : 1 < nEllipsis idx) (o : Order) (isz off flen : Nat) :
    npSpecIndex idx shape o = .error .value ∧ ∃ e, fileslice h idx shape isz off flen o = .error e :=
  fileslice_two_ellipses' h idx shape he o isz off flen

/-- **D3** whole-tuple `predict_shape`: equals the shape of NumPy indexing for every index tuple with
    at most one `Ellipsis` (and fails exactly when NumPy indexing fails, with the same error value). -/
theorem predict_shape_spec (idx : List IdxItem) (shape : List Nat)
    (hv : ∀ s, IdxItem.slice s ∈ idx → s.Valid) (he : nEllipsis idx ≤ 1) :
    predictShape idx shape = (npSpec idx shape).map outShape :=
  predictShape_spec' idx shape hv he

example : nEllipsis [IdxItem.ellipsis, .newaxis, .slice ⟨some (-9), none, some 2⟩, .int (-2)] ≤ 1 ∧
    predictShape [.ellipsis, .newaxis, .slice ⟨some (-9), none, some 2⟩, .int (-2)] [4, 5, 3] = .ok [4, 1, 3] := by
  decide

/-- **D3 (two ellipses)** -/
theorem predict_shape_two_ellipses (idx : List IdxItem) (shape : List Nat) (he : 1 < nEllipsis idx) :
    npSpec idx shape = .error .value ∧ ∃ e, predictShape idx shape = .error e :=
  predictShape_two_ellipses' idx shape he

/-! ## Stage T — the per-axis functions TRANSLATED FROM THE CURRENT SOURCE equal the model

`Generated/C06Funcs.lean` is rewritten on every run by `harness/py2lean.py` from the source text of
`fill_slicer`, `_full_slicer_len`, `slice2len`, `_positive_slice`, `threshold_heuristic` and
`optimize_slicer` in the working tree of nibabel (statement by statement, in the `Except` monad over
the Python value universe `Basic/PyVal`).  The theorems below are re-checked against that text: an edit
of any of these functions that changes what it computes on some slice / axis length / flag combination
/ heuristic answer breaks the corresponding proof, for ALL inputs, not the sampled ones. -/

open Nb.Py in
/-- **T1** translated `fill_slicer` = model, for every valid slice and axis length. -/
theorem source_fill_slicer_eq (s : PySlice) (n : Nat) (hv : s.Valid) :
    Gen.C06F.fill_slicer (V.ofPySlice s) (.int n) = .ok (ofFilled (fillSlicer s n)) :=
  gen_fill_slicer_eq s n hv

open Nb.Py in
/-- **T1'** hence the slice the SOURCE `fill_slicer` returns selects what the Python slice selects. -/
theorem source_fill_slicer_sel (s : PySlice) (n : Nat) (hv : s.Valid) :
    ∃ f : Filled, Gen.C06F.fill_slicer (V.ofPySlice s) (.int n) = .ok (ofFilled f) ∧
      f.toPy.sel n = s.sel n :=
  ⟨_, gen_fill_slicer_eq s n hv, fillSlicer_sel s n hv⟩

open Nb.Py in
example : Gen.C06F.fill_slicer (V.ofPySlice ⟨some (-7), none, none⟩) (.int 5)
    = .ok (.slice (.int 0) (.int 5) (.int 1)) := by decide

open Nb.Py in
/-- **T2** translated `_full_slicer_len` = model (`int(np.ceil(gap / step))` is the ceiling quotient). -/
theorem source_full_slicer_len_eq (f : Filled) (hs : f.step ≠ 0) :
    Gen.C06F.full_slicer_len (ofFilled f) = .ok (.int (fullSlicerLen f)) :=
  gen_full_slicer_len_eq f hs

open Nb.Py in
/-- **T3** translated `slice2len` returns `len(range(n)[s])` for every valid slice and length. -/
theorem source_slice2len_numpy (s : PySlice) (n : Nat) (hv : s.Valid) :
    Gen.C06F.slice2len (V.ofPySlice s) (.int n) = .ok (.int ((s.sel n).length : Nat)) := by
  rw [gen_slice2len_eq s n hv, slice2len_spec s n hv]

open Nb.Py in
example : Gen.C06F.slice2len (V.ofPySlice ⟨some 7, some (-9), some (-3)⟩) (.int 6) = .ok (.int 2) := by decide

open Nb.Py in
/-- **T4** translated `_positive_slice` = model, for every filled slice with non-zero step. -/
theorem source_positive_slice_eq (f : Filled) (hs : f.step ≠ 0) :
    Gen.C06F.positive_slice (ofFilled f) = .ok (ofFilled (positiveSlice f)) :=
  gen_positive_slice_eq f hs

open Nb.Py in
example : Gen.C06F.positive_slice (.slice (.int 8) .none (.int (-3)))
    = .ok (.slice (.int 2) (.int 9) (.int 3)) := by decide

open Nb.Py in
/-- **T5** translated `threshold_heuristic` = model heuristic, every argument / length / stride /
    threshold. -/
theorem source_threshold_heuristic_eq (a : HArg) (n stride thresh : Nat)
    (hs : ∀ f, a = .slice f → f.step ≠ 0)
    (hstop : ∀ f, a = .slice f → f.step > 0 → ∃ b, f.stop = some b) :
    Gen.C06F.threshold_heuristic (ofHArg a) (.int n) (.int stride) (.int thresh)
      = .ok (ofAction (thresholdHeuristic thresh a n stride)) :=
  gen_threshold_heuristic_eq a n stride thresh hs hstop

open Nb.Py in
example : Gen.C06F.threshold_heuristic (.slice (.int 0) (.int 10) (.int 2)) (.int 10) (.int 8) (.int 256)
    = .ok (.str "full") := by decide

open Nb.Py in
/-- **T6** translated `optimize_slicer` = model on every canonical item, for EVERY heuristic. -/
theorem source_optimize_slicer_eq (h : Heuristic) (it : Item) (n : Nat) (allFull slowest : Bool)
    (stride : Nat) (hit : it ≠ .newaxis) (hv : ∀ s, it = .slice s → s.Valid) :
    Gen.C06F.optimize_slicer (ofItem it) (.int n) (.bool allFull) (.bool slowest) (.int stride) (liftH h)
      = ofResult (optimizeSlicer h it n allFull slowest stride) :=
  gen_optimize_slicer_eq h it n allFull slowest stride hit hv

open Nb.Py in
example : Gen.C06F.optimize_slicer (.slice (.int 8) .none (.int (-3))) (.int 10) (.bool true) (.bool false)
      (.int 4) (liftH (fun _ _ _ => .contiguous))
    = .ok (.tup2 (.slice (.int 2) (.int 9) (.int 1)) (.slice .none .none (.int (-3)))) := by decide

open Nb.Py in
/-- **T7** the translated `optimize_read_slicers` — a Python `for` loop with `continue`, list appends and
    a running stride / all_full state — computes the model's `optimizeLoop` for EVERY list of canonical
    items, shape, item size and heuristic, including the errors (too many indices; int + contiguous). -/
theorem source_optimize_read_slicers_eq (h : Heuristic) (items : List Item) (shape : List Nat) (isz : Nat)
    (hv : ItemsValid items) :
    Gen.C06F.optimize_read_slicers (V.ofList (items.map ofItem)) (ofShape shape) (.int (isz : Int)) (liftH h) =
      match optimizeLoop h items shape isz true with
      | .ok (rs, ps) => .ok (.tup2 (V.ofList (rs.map ofRead)) (V.ofList (ps.map ofPost)))
      | .error e => .error (mapErr e) :=
  gen_optimize_read_slicers_eq h items shape isz hv

open Nb.Py in
example : Gen.C06F.optimize_read_slicers
      (V.ofList [.slice (.int 1) .none (.int 2), .none, .int 2]) (ofShape [5, 3]) (.int 2)
      (liftH (fun _ _ _ => .skip))
    = .ok (.tup2 (V.ofList [.slice (.int 1) (.int 5) (.int 2), .none, .int 2])
                 (V.ofList [.slice .none .none .none, .slice .none .none .none])) := by decide

open Nb.Py in
/-- **T8** the translated `slicers2segments` — three nested `for` loops with in-place mutation of the
    segment lists and an early `return []` — computes the model's segment list for EVERY canonical
    read-slicer tuple aligned with the shape, every offset and item size.  Together with T7 and the
    stage-B theorems (`segments_cover`, `segments_in_extent`) the byte ranges the CURRENT source plans to
    read are exactly the F-order enumeration of the read sub-array, inside the array's extent. -/
theorem source_slicers2segments_eq (rs : List ReadItem) (shape : List Nat) (off isz : Nat)
    (hc : ReadCanon rs shape) :
    Gen.C06F.slicers2segments (V.ofList (rs.map ofRead)) (ofShape shape) (.int (off : Int)) (.int (isz : Int))
      = .ok (ofSegs (slicers2segments rs shape off isz)) :=
  gen_slicers2segments_eq rs shape off isz hc

open Nb.Py in
example : ReadCanon [.full, .slice 1 4 2, .newaxis, .int 1] [2, 4, 3] ∧
    Gen.C06F.slicers2segments
      (V.ofList [.slice .none .none .none, .slice (.int 1) (.int 4) (.int 2), .none, .int 1])
      (ofShape [2, 4, 3]) (.int 16) (.int 4)
    = .ok (ofSegs [⟨56, 8⟩, ⟨72, 8⟩]) := by decide

open Nb.Py in
theorem itemsWF_valid : ∀ (items : List Item) (shape : List Nat), ItemsWF items shape → ItemsValid items
  | [], _, _ => fun s hm => by cases hm
  | .newaxis :: rest, shape, h => by
      have h' : ItemsWF rest shape := by cases shape <;> exact h
      intro s hm
      cases hm with
      | tail _ hm => exact itemsWF_valid rest shape h' s hm
  | .int i :: rest, [], h => by cases h
  | .slice sl :: rest, [], h => by cases h
  | .int i :: rest, n :: shape, h => by
      intro s hm
      cases hm with
      | tail _ hm => exact itemsWF_valid rest shape h.2 s hm
  | .slice sl :: rest, n :: shape, h => by
      intro s hm
      cases hm with
      | head => exact h.1
      | tail _ hm => exact itemsWF_valid rest shape h.2 s hm

open Nb.Py in
/-- **T9** end to end for the planning stage of the CURRENT source: for canonical items, whatever the
    heuristic answers, the translated `optimize_read_slicers` followed by the translated
    `slicers2segments` plans byte ranges that (a) are exactly the F-order enumeration of the read
    sub-array and (b) lie inside the array's extent in the file. -/
theorem source_plan_reads_subarray (h : Heuristic) (items : List Item) (shape : List Nat) (off isz : Nat)
    (hwf : ItemsWF items shape) (rs : List ReadItem) (ps : List PostItem)
    (hok : optimizeLoop h items shape isz true = .ok (rs, ps)) :
    Gen.C06F.optimize_read_slicers (V.ofList (items.map ofItem)) (ofShape shape) (.int (isz : Int)) (liftH h)
      = .ok (.tup2 (V.ofList (rs.map ofRead)) (V.ofList (ps.map ofPost))) ∧
    Gen.C06F.slicers2segments (V.ofList (rs.map ofRead)) (ofShape shape) (.int (off : Int)) (.int (isz : Int))
      = .ok (ofSegs (slicers2segments rs shape off isz)) ∧
    (slicers2segments rs shape off isz).flatMap Segment.addrs
      = (gatherF (readLists rs shape) shape).flatMap
          (fun (q : Nat) => rangeInts ((off : Int) + (isz : Int) * (q : Int)) 1 isz) ∧
    (∀ s ∈ slicers2segments rs shape off isz, s.length ≠ 0 →
      (off : Int) ≤ s.offset ∧ s.offset + s.length ≤ (off : Int) + (isz : Int) * (shape.prod : Nat)) := by
  have hc := optimizeLoop_canon h items shape isz true rs ps hwf hok
  refine ⟨?_, source_slicers2segments_eq rs shape off isz hc, segments_cover rs shape off isz hc,
    (segments_in_extent rs shape off isz hc).1⟩
  have := source_optimize_read_slicers_eq h items shape isz (itemsWF_valid items shape hwf)
  rw [hok] at this
  exact this

example : ItemsWF [.slice ⟨some 1, none, some 2⟩, .newaxis, .int 2] [5, 3] ∧
    optimizeLoop (thresholdHeuristic 4) [.slice ⟨some 1, none, some 2⟩, .newaxis, .int 2] [5, 3] 2 true
      = .ok ([.full, .newaxis, .int 2], [.slice ⟨some 1, some 5, some 2⟩, .slice pySliceNone]) := by
  decide

open Nb.Py in
/-- **T10** the translated `is_fancy` answers False on every basic index tuple (ints, slices, `None`,
    `Ellipsis`), so the translated `canonical_slicers` never takes its fancy-indexing exit on them. -/
theorem source_is_fancy_basic (idx : List IdxItem) :
    Gen.C06F.is_fancy (V.ofList (idx.map ofIdx)) = .ok (.bool false) :=
  gen_is_fancy_basic idx

open Nb.Py in
/-- **T11** the translated `canonical_slicers` (enumerate loop, Ellipsis expansion through
    `sliceobj[i + 1:]` and a list comprehension, integer range checks with `check_inds`, the
    "equivalent to slice(None)" rewrite, the final fill) returns exactly the model's canonical items for
    EVERY index tuple and shape, and raises whenever the model fails (two Ellipses, too many indices,
    out-of-range integer). -/
theorem source_canonical_slicers_eq (idx : List IdxItem) (shape : List Nat) (ci : Bool) :
    match canonLoop ci idx shape with
    | .ok items => Gen.C06F.canonical_slicers (V.ofList (idx.map ofIdx)) (ofShape shape) (.bool ci)
        = .ok (V.ofList (items.map ofItem))
    | .error _ => ∃ e, Gen.C06F.canonical_slicers (V.ofList (idx.map ofIdx)) (ofShape shape) (.bool ci) = .error e :=
  gen_canonical_slicers_eq idx shape ci

open Nb.Py in
example : Gen.C06F.canonical_slicers (V.ofList [.int (-1), .ellipsis, .none, .slice (.int 0) (.int 3) .none])
      (ofShape [4, 5, 3]) (.bool true)
    = .ok (V.ofList [.int 3, .slice .none .none .none, .none, .slice .none .none .none]) := by decide

open Nb.Py in
/-- **T12** the translated `predict_shape` returns the SHAPE OF NUMPY INDEXING (`npSpec`, the independent
    NumPy specification) for every index tuple with at most one Ellipsis and non-zero slice steps, and
    raises whenever NumPy indexing raises — the "helper predictions agree with NumPy" clause of the
    property, about the current source. -/
theorem source_predict_shape_numpy (idx : List IdxItem) (shape : List Nat)
    (hv : ∀ s, IdxItem.slice s ∈ idx → s.Valid) (he : nEllipsis idx ≤ 1) :
    match (npSpec idx shape).map outShape with
    | .ok sh => Gen.C06F.predict_shape (V.ofList (idx.map ofIdx)) (ofShape shape) = .ok (ofShape sh)
    | .error _ => ∃ e, Gen.C06F.predict_shape (V.ofList (idx.map ofIdx)) (ofShape shape) = .error e := by
  have h := gen_predict_shape_eq idx shape hv
  rw [predict_shape_spec idx shape hv he] at h
  exact h

open Nb.Py in
example : Gen.C06F.predict_shape
      (V.ofList [.ellipsis, .none, .slice (.int (-9)) .none (.int 2), .int (-2)]) (ofShape [4, 5, 3])
    = .ok (ofShape [4, 1, 3]) := by decide

open Nb.Py in
/-- **T13** the translated `calc_slicedefs` — the whole planning stage of `fileslice`: canonicalise, reverse
    for C order, optimise the read slicers, make the segments, drop identity post-slicers, predict the read
    shape, reverse back — returns exactly the model's slice definitions for EVERY index tuple with non-zero
    slice steps, shape, item size, offset, memory order and heuristic, and raises whenever the model does.
    The model's `fileslice` is `calcSlicedefs` followed by reading the segments, reshaping and post-slicing,
    so `fileslice_eq_numpy` / `reads_within_extent` speak about what the CURRENT source plans to read; what
    remains hand-modelled is `read_segments` (I/O) and the final `ndarray(...)[post_slicers]`. -/
theorem source_calc_slicedefs_eq (h : Heuristic) (idx : List IdxItem) (shape : List Nat) (isz off : Nat)
    (o : Order) (hv : ∀ s, IdxItem.slice s ∈ idx → s.Valid) :
    match calcSlicedefs h idx shape isz off o with
    | .ok d => Gen.C06F.calc_slicedefs (V.ofList (idx.map ofIdx)) (ofShape shape) (.int (isz : Int))
          (.int (off : Int)) (ofOrder o) (liftH h) =
        .ok (.tup3 (ofSegs d.segments) (ofShape (orient o d.readShape))
              (V.ofList ((if d.post.all isFullPost then [] else orient o d.post).map ofPost)))
    | .error _ => ∃ e, Gen.C06F.calc_slicedefs (V.ofList (idx.map ofIdx)) (ofShape shape) (.int (isz : Int))
          (.int (off : Int)) (ofOrder o) (liftH h) = .error e :=
  gen_calc_slicedefs_eq h idx shape isz off o hv

open Nb.Py in
example : Gen.C06F.calc_slicedefs (V.ofList [.slice .none .none (.int (-2)), .none, .int (-1)]) (ofShape [5, 3])
      (.int 2) (.int 10) (.str "C") (liftH (fun _ _ _ => .skip))
    = .ok (.tup3 (ofSegs [⟨14, 2⟩, ⟨26, 2⟩, ⟨38, 2⟩]) (ofShape [3, 1])
        (V.ofList [.slice .none .none (.int (-1)), .slice .none .none .none])) := by decide

/-! ## Stage H — the byte level (`read_segments`, the final `ndarray(...)[post]`) and HISTORIES of reads

    `Model/C06_IO.lean` models what the earlier stages left out: the file object with its contents and CURRENT
    POSITION, `read_segments` (seek / read loop, the three length checks, the `mmap` the segments are joined
    in), the item view `np.ndarray(sliced_shape, dtype, buffer=arr_data, order=order)` and the post-slicing, on
    BYTES; and `runHistory`: any number of reads, one after another, on any number of file objects, each read
    finding its file object where the previous read of that file left it.  In the model a result is a VALUE
    (shape + the bytes of every element): that a result of the real code does not change after the read that
    produced it is what the `hist` stream checks on the implementation (all results retained, compared with
    NumPy at the end of the history, after further reads and after the files are closed). -/

/-- **H1** `read_segments` on segments that lie inside the file (positive lengths, `n_bytes` = their total
    length — what `calc_slicedefs` plans, see `reads_within_extent`) returns exactly the bytes of the segments,
    in order, from ANY starting position of the file object, and leaves the contents alone. -/
theorem readSegments_reads_segments (data : List Nat) (pos : Nat) (segs : List Segment)
    (hin : ∀ s ∈ segs, s.InFile data.length) (hpos : ∀ s ∈ segs, 0 < s.length) :
    ∃ pos', readSegments ⟨data, pos⟩ segs (segs.map (·.length)).sum
      = (.ok (segs.flatMap (fun s => (data.drop s.offset.toNat).take s.length)), ⟨data, pos'⟩) :=
  readSegments_ok data pos segs hin hpos

example : (∀ s ∈ [(⟨3, 2⟩ : Segment), ⟨0, 1⟩], s.InFile [10, 11, 12, 13, 14].length) ∧
    (∀ s ∈ [(⟨3, 2⟩ : Segment), ⟨0, 1⟩], 0 < s.length) ∧
    readSegments ⟨[10, 11, 12, 13, 14], 4⟩ [⟨3, 2⟩, ⟨0, 1⟩] 3 = (.ok [13, 14, 10], ⟨[10, 11, 12, 13, 14], 1⟩) := by
  refine ⟨?_, ?_, by decide⟩ <;> intro s hs <;>
    simp only [List.mem_cons, List.not_mem_nil, or_false] at hs <;>
    rcases hs with rfl | rfl <;> simp [Segment.InFile]

/-- **H1 (position, contents)** for ALL segment lists, byte counts and files — error cases included — the
    outcome of `read_segments` does not depend on the position of the file object before the call (every read
    is preceded by its own seek), and the call does not change the contents. -/
theorem readSegments_state (data : List Nat) (p p' : Nat) (segs : List Segment) (n : Nat) :
    (readSegments ⟨data, p⟩ segs n).1 = (readSegments ⟨data, p'⟩ segs n).1 ∧
    (readSegments ⟨data, p⟩ segs n).2.data = data :=
  ⟨readSegments_pos_irrelevant data p p' segs n, readSegments_data ⟨data, p⟩ segs n⟩

/-- a short file: the second segment ends behind the end of the file, the reader refuses -/
example : readSegments ⟨[10, 11, 12, 13, 14], 0⟩ [⟨3, 2⟩, ⟨4, 2⟩] 4 = (.error .short, ⟨[10, 11, 12, 13, 14], 5⟩) := by
  decide

/-- **H2 (byte level)** the whole `fileslice` on a file object: plan, `read_segments`, item view, post-slice,
    C/F re-ordering.  For every heuristic that never answers `contiguous` for an int, every shape, index tuple
    with non-zero steps, memory order, item size ≥ 1, offset, file contents long enough to hold the array and
    EVERY position of the file object: the result has NumPy's shape and its k-th element consists of the `isz`
    bytes stored for the element NumPy indexing selects (`elemBytes data off isz q` = bytes
    `off + isz·q … off + isz·q + isz − 1` of the file); errors agree with NumPy's. -/
theorem filesliceIO_eq_numpy (h : Heuristic) (hh : ∀ i n st, h (.int i) n st ≠ .contiguous)
    (idx : List IdxItem) (shape : List Nat) (hv : ∀ s, IdxItem.slice s ∈ idx → s.Valid)
    (o : Order) (isz off : Nat) (data : List Nat) (pos : Nat) (hisz : 0 < isz)
    (hlen : off + isz * shape.prod ≤ data.length) :
    (filesliceIO h idx shape isz off o ⟨data, pos⟩).1
      = (npIndex idx shape o).map (fun (sh, l) => (sh, l.map (elemBytes data off isz))) :=
  filesliceIO_eq_numpy' h hh idx shape hv o isz off data pos hisz hlen

example : (0 < 2 ∧ 1 + 2 * [2, 3].prod ≤ [99, 0, 0, 1, 0, 2, 0, 3, 0, 4, 0, 5, 0, 77].length) ∧
    (filesliceIO (thresholdHeuristic 0) [.int 1, .slice ⟨none, none, some (-1)⟩] [2, 3] 2 1 .F
        ⟨[99, 0, 0, 1, 0, 2, 0, 3, 0, 4, 0, 5, 0, 77], 9⟩).1 = .ok ([3], [[5, 0], [3, 0], [1, 0]]) ∧
    npIndex [.int 1, .slice ⟨none, none, some (-1)⟩] [2, 3] .F = .ok ([3], [5, 3, 1]) := by decide

/-- **H3** for ALL arguments (error cases included): the outcome of a read does not depend on the position the
    file object is at, and a read does not change the contents of the file object. -/
theorem filesliceIO_state (h : Heuristic) (idx : List IdxItem) (shape : List Nat) (isz off : Nat)
    (o : Order) (data : List Nat) (p p' : Nat) :
    (filesliceIO h idx shape isz off o ⟨data, p⟩).1 = (filesliceIO h idx shape isz off o ⟨data, p'⟩).1 ∧
    (filesliceIO h idx shape isz off o ⟨data, p⟩).2.data = data :=
  ⟨filesliceIO_pos_irrelevant' h idx shape isz off o data p p', filesliceIO_data' h idx shape isz off o ⟨data, p⟩⟩

/-- **H4 (histories)** the i-th result of ANY history of reads — any number of reads on any number of file
    objects, any heuristics, any arguments, failing reads included — is the result of the i-th request alone
    on the original contents of its file: it depends neither on the reads before it (nor on the positions they
    left the file objects at) nor on the reads after it. -/
theorem read_history_independent (files : List FileObj) (reqs : List Req) (i : Nat) (hi : i < reqs.length) :
    (runHistory files reqs)[i]? = some (readAlone files reqs[i]) :=
  read_history_independent' reqs files i hi

/-- **H4 (NumPy)** hence every read of a history whose own arguments are sound (heuristic never `contiguous`
    for an int, non-zero slice steps, item size ≥ 1, its file long enough) returns what NumPy indexing of the
    array stored in its file returns — whatever else happens in the history. -/
theorem read_history_eq_numpy (files : List FileObj) (reqs : List Req) (i : Nat) (hi : i < reqs.length)
    (hh : ∀ j n st, reqs[i].h (.int j) n st ≠ .contiguous)
    (hv : ∀ s, IdxItem.slice s ∈ reqs[i].idx → s.Valid) (hisz : 0 < reqs[i].isz)
    (hlen : reqs[i].off + reqs[i].isz * reqs[i].shape.prod ≤ (files.getD reqs[i].file default).data.length) :
    (runHistory files reqs)[i]? = some ((npIndex reqs[i].idx reqs[i].shape reqs[i].o).map
      (fun (sh, l) => (sh, l.map (elemBytes (files.getD reqs[i].file default).data reqs[i].off reqs[i].isz)))) := by
  rw [read_history_independent files reqs i hi, readAlone,
    filesliceIO_eq_numpy' _ hh _ _ hv _ _ _ _ 0 hisz hlen]

/-- two files, three reads (the second one fails: index out of range), positions left anywhere -/
example : runHistory [⟨[7, 10, 11, 12, 13, 14, 15], 6⟩, ⟨[20, 21, 22, 23], 1⟩]
      [⟨0, fun _ _ _ => .skip, [.int 1], [2, 3], 1, 1, .F⟩,
       ⟨1, thresholdHeuristic 256, [.int 4], [4], 1, 0, .C⟩,
       ⟨0, fun _ _ _ => .skip, [.slice ⟨none, none, some 2⟩], [2, 3], 1, 1, .C⟩]
    = [.ok ([3], [[11], [13], [15]]), .error .index, .ok ([1, 3], [[10], [11], [12]])] := by decide

/-- **H5 (short file, `read_segments`)** if one of the segments reaches beyond the end of the file,
    `read_segments` asked for the planned total raises — from any position, with one or many segments: it
    never pads and never hands back fewer bytes silently. -/
theorem readSegments_short (data : List Nat) (pos : Nat) (segs : List Segment)
    (hout : ∃ s ∈ segs, 0 < s.length ∧ data.length < s.offset.toNat + s.length) :
    ∃ e, (readSegments ⟨data, pos⟩ segs (segs.map (·.length)).sum).1 = .error e :=
  readSegments_short' data pos segs hout

example : ∃ s ∈ [(⟨3, 2⟩ : Segment), ⟨4, 2⟩], 0 < s.length ∧ [10, 11, 12, 13, 14].length < s.offset.toNat + s.length :=
  ⟨⟨4, 2⟩, by simp, by decide, by decide⟩

/-- **H5 (short file, `fileslice`)** for every heuristic and every index with non-zero steps: when the file
    is too short for one of the reads `calc_slicedefs` plans, `fileslice` raises — it never fabricates data. -/
theorem filesliceIO_short (h : Heuristic) (idx : List IdxItem) (shape : List Nat)
    (hv : ∀ s, IdxItem.slice s ∈ idx → s.Valid) (o : Order) (isz off : Nat) (data : List Nat) (pos : Nat)
    (d : SliceDefs) (hok : calcSlicedefs h idx shape isz off o = .ok d)
    (hout : ∃ s ∈ d.segments, 0 < s.length ∧ data.length < s.offset.toNat + s.length) :
    ∃ e, (filesliceIO h idx shape isz off o ⟨data, pos⟩).1 = .error e :=
  filesliceIO_short' h idx shape hv o isz off data pos d hok hout

example : (∃ d, calcSlicedefs (fun _ _ _ => .skip) [.int 1] [2, 3] 1 1 .F = .ok d ∧
      d.segments = [⟨2, 1⟩, ⟨4, 1⟩, ⟨6, 1⟩]) ∧
    (filesliceIO (fun _ _ _ => .skip) [.int 1] [2, 3] 1 1 .F ⟨[7, 10, 11, 12, 13, 14], 0⟩).1 = .error .short :=
  ⟨⟨_, rfl, by decide⟩, by decide⟩

end Nb.C06
