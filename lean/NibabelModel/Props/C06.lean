import NibabelModel.Model.C06
/-! Props/C06 — the property theorems for C06 (statements + proofs; helper lemmas live in Lemmas/). -/
namespace Nb.C06

end Nb.C06
