import NibabelModel.Model.C06
import NibabelModel.Lemmas.PySlice
/-! Props/C06 — property theorems for C06 (reading a slice from file bytes equals NumPy indexing).
    Stage A (per axis), stage B (segments), stage C (whole) — see DESIGN.md §5 C06. -/
namespace Nb.C06
open Nb

/-- The pinned (pre-fix) `fill_slicer` did not clamp: `[-7:]` on length 5 selected `[3,4]`,
    not all five elements. -/
theorem fillSlicerOrig_counterexample :
    (fillSlicerOrig ⟨some (-7), none, none⟩ 5).toPy.sel 5 ≠ (⟨some (-7), none, none⟩ : PySlice).sel 5 := by
  decide

end Nb.C06
