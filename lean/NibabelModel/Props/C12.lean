import NibabelModel.Model.C12
/-! Props/C12 — the property theorems for C12 (statements + proofs; helper lemmas live in Lemmas/). -/
namespace Nb.C12

end Nb.C12
